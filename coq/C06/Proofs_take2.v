(* C06 — takeCPUs, continued: phases A.4, A, B, C and the main statements. *)
From Coq Require Import List ZArith Bool Lia Permutation.
From Verif Require Import C06.Model C06.Spec C06.Proofs_base C06.Proofs_gen C06.Proofs_take.
Import ListNotations.
Open Scope Z_scope.

Lemma not_satisfied a : satisfied a = false -> 1 <= a_need a.
Proof.
  intros H. destruct (Z.lt_ge_cases (a_need a) 1) as [Hlt|Hge]; [|exact Hge].
  apply satisfied_spec in Hlt. congruence.
Qed.

Lemma firstn_skipn_disjoint {A} k (l : list A) x :
  NoDup l -> In x (skipn k l) -> ~ In x (firstn k l).
Proof.
  intros Hnd H1 H2. rewrite <- (firstn_skipn k l) in Hnd. apply NoDup_app_inv in Hnd.
  destruct Hnd as [_ [_ Hd]]. exact (Hd x H2 H1).
Qed.

Lemma lenZ_skipnZ {A} k (l : list A) : 0 <= k <= lenZ l -> lenZ (skipnZ k l) = lenZ l - k.
Proof. unfold skipnZ, lenZ. intros H. rewrite skipn_length. lia. Qed.

Lemma divide_ge k x : 0 < k -> 1 <= x -> (k | x) -> k <= x.
Proof.
  intros Hk Hx [q Hq]. subst. destruct (Z.le_gt_cases q 0) as [H|H]; [|nia].
  assert (q * k <= 0) by nia. lia.
Qed.

(* ------------------------------------------------------------------ phase A.4 (inner loop) *)
(* F: CPUs of the sockets still to be visited *)
Lemma phaseA4_inner_spec c n A0 (F : list Z) : forall fuel a l a' r,
  phaseA4_inner c fuel a l = (a', r) ->
  acc_inv n A0 a -> 1 <= a_need a ->
  NoDup (l ++ F) -> incl (l ++ F) (ids (a_alloc a)) ->
  acc_inv n A0 a'
  /\ (if r then a_need a' < 1 else 1 <= a_need a')
  /\ NoDup F /\ incl F (ids (a_alloc a'))
  /\ (0 < cpc (c_topo c) -> cpc (c_topo c) <= a_need a -> (cpc (c_topo c) | lenZ l) ->
      r = true -> a_need a' = 0).
Proof.
  set (k := cpc (c_topo c)).
  induction fuel as [|f IH]; intros a l a' r H Hinv Hn Hnd Hinc; cbn [phaseA4_inner] in H.
  - inversion H; subst. apply NoDup_app_inv in Hnd. destruct Hnd as [_ [HF _]].
    splits; auto; try discriminate. intros x Hx. apply Hinc. apply in_or_app. right. exact Hx.
  - destruct l as [|x0 l0].
    + inversion H; subst. cbn [app] in *. splits; auto; discriminate.
    + fold k in H. set (l := x0 :: l0) in *.
      pose proof (NoDup_app_inv _ _ Hnd) as [Hl [HF Hd]].
      assert (Hg : good a (firstnZ k l)).
      { apply firstnZ_good. split; [exact Hl|]. intros x Hx. apply Hinc. apply in_or_app. left. exact Hx. }
      pose proof (acc_take_inv c n A0 a _ Hinv Hg) as Hinv'.
      assert (Hrest : forall x, In x (skipnZ k l ++ F) -> ~ In x (firstnZ k l)).
      { intros x Hx. apply in_app_or in Hx. destruct Hx as [Hx|Hx].
        - apply firstn_skipn_disjoint; assumption.
        - intros Hx'. apply (Hd x); [eapply firstn_In; exact Hx'|exact Hx]. }
      assert (Hinc' : incl (skipnZ k l ++ F) (ids (a_alloc (acc_take c a (firstnZ k l))))).
      { apply incl_after_take; [exact Hrest|]. intros x Hx. apply Hinc. apply in_app_or in Hx.
        apply in_or_app. destruct Hx as [Hx|Hx]; [left; eapply skipn_In; exact Hx|right; exact Hx]. }
      assert (Hnd' : NoDup (skipnZ k l ++ F)).
      { apply NoDup_app_intro; [apply skipn_NoDup; exact Hl|exact HF|].
        intros x Hx. apply Hd. eapply skipn_In. exact Hx. }
      assert (HincF : incl F (ids (a_alloc (acc_take c a (firstnZ k l))))).
      { intros x Hx. apply Hinc'. apply in_or_app. right. exact Hx. }
      (* a whole core is still needed and the list is made of whole cores *)
      assert (Hal : 0 < k -> k <= a_need a -> (k | lenZ l) ->
                    lenZ (firstnZ k l) = k
                    /\ 0 <= a_need (acc_take c a (firstnZ k l))
                    /\ (k | lenZ (skipnZ k l))).
      { intros Hk Hkn Hdl.
        assert (Hll : 1 <= lenZ l) by (unfold l; rewrite lenZ_cons; pose proof (lenZ_nonneg l0); lia).
        pose proof (divide_ge k _ Hk Hll Hdl) as Hkl.
        assert (Hf : lenZ (firstnZ k l) = k) by (apply firstnZ_length; lia).
        rewrite acc_take_need, Hf. splits; auto.
        - lia.
        - rewrite lenZ_skipnZ by lia. apply Z.divide_sub_r; [exact Hdl|apply Z.divide_refl]. }
      destruct (satisfied (acc_take c a (firstnZ k l))) eqn:Es.
      * inversion H; subst. apply satisfied_spec in Es. splits; auto.
        intros Hk Hkn Hdl _. destruct (Hal Hk Hkn Hdl) as [_ [H0 _]]. lia.
      * pose proof (not_satisfied _ Es) as Hs.
        destruct (negb (needs (acc_take c a (firstnZ k l)) k)) eqn:En.
        -- inversion H; subst. splits; auto. intros _ _ _ Hr. discriminate.
        -- destruct (IH _ _ _ _ H Hinv' Hs Hnd' Hinc') as [I1 [I2 [I3 [I4 I5]]]].
           splits; auto.
           intros Hk Hkn Hdl Hr. destruct (Hal Hk Hkn Hdl) as [_ [_ H3]].
           apply negb_false_iff in En. unfold needs in En. apply Z.leb_le in En.
           apply I5; assumption.
Qed.

(* ------------------------------------------------------------------ phase A.4 (socket loop) *)
Lemma phaseA4_spec c n A0 : forall socks a a' r,
  phaseA4 c a socks = (a', r) ->
  acc_inv n A0 a -> 1 <= a_need a ->
  NoDup (concat socks) -> incl (concat socks) (ids (a_alloc a)) ->
  acc_inv n A0 a'
  /\ (if r then a_need a' < 1 else 1 <= a_need a')
  /\ (0 < cpc (c_topo c) ->
      (forall l, In l socks -> (cpc (c_topo c) | lenZ l)) ->
      r = true -> a_need a' = 0).
Proof.
  induction socks as [|l t IH]; intros a a' r H Hinv Hn Hnd Hinc; cbn [phaseA4] in H.
  - inversion H; subst. splits; auto. intros _ _ Hr. discriminate.
  - destruct (negb (needs a (cpc (c_topo c)))) eqn:Eg.
    { inversion H; subst. splits; auto. intros _ _ Hr. discriminate. }
    apply negb_false_iff in Eg. unfold needs in Eg. apply Z.leb_le in Eg.
    destruct (phaseA4_inner c (length l) a l) as [a1 r1] eqn:E.
    cbn [concat] in Hnd, Hinc.
    destruct (phaseA4_inner_spec c n A0 (concat t) _ _ _ _ _ E Hinv Hn Hnd Hinc) as [I1 [I2 [I3 [I4 I5]]]].
    destruct r1.
    + inversion H; subst. splits; auto.
      intros Hk Hall _. apply (I5 Hk Eg); [apply Hall; left; reflexivity|reflexivity].
    + destruct (IH _ _ _ H I1 I2 I3 I4) as [J1 [J2 J3]].
      splits; auto. intros Hk Hall Hr. apply J3; auto.
      intros l0 Hl0. apply Hall. right. exact Hl0.
Qed.

(* ------------------------------------------------------------------ lengths of full-core lists *)
Lemma flat_map_len_const {K} (h : K -> list Z) m : forall ks,
  (forall k, In k ks -> lenZ (h k) = m) -> lenZ (flat_map h ks) = m * lenZ ks.
Proof.
  induction ks as [|k ks IH]; intros H; cbn [flat_map]; [cbn; lia|].
  rewrite lenZ_app, lenZ_cons, IH, (H k (or_introl eq_refl)); [lia|].
  intros k' Hk'. apply H. right. exact Hk'.
Qed.

Lemma cores_cpus_len c a cands gf g : (cpc (c_topo c) | lenZ (cores_cpus c a cands gf g)).
Proof.
  unfold cores_cpus.
  rewrite (flat_map_len_const _ (cpc (c_topo c))).
  - apply Z.divide_factor_l.
  - intros k Hk. apply sort_on_In in Hk. apply filter_In in Hk. destruct Hk as [Hk _].
    unfold full_cores in Hk. apply filter_In in Hk. destruct Hk as [_ Hk]. apply Z.eqb_eq in Hk.
    unfold countk in Hk. unfold ids. rewrite lenZ_map. exact Hk.
Qed.

Lemma free_cores_in_socket_len c a l :
  In l (free_cores_in_socket c a) -> (cpc (c_topo c) | lenZ l).
Proof.
  unfold free_cores_in_socket. intros H. apply in_map_iff in H. destruct H as [s [E _]]. subst l.
  apply cores_cpus_len.
Qed.

(* ------------------------------------------------------------------ phase A *)
Lemma or_else_Some {A} (x y : option A) v : or_else x y = Some v -> x = Some v \/ y = Some v.
Proof. destruct x; cbn; intros H; [left|right]; exact H. Qed.

Lemma phaseA_spec c n A0 a a' r :
  phaseA c a = (a', r) ->
  acc_inv n A0 a -> 1 <= a_need a ->
  acc_inv n A0 a'
  /\ (if r then a_need a' < 1 else 1 <= a_need a')
  /\ (0 < cpc (c_topo c) -> r = true -> a_need a' = 0).
Proof.
  intros H Hinv Hn. pose proof Hinv as [_ [Halloc _]]. unfold phaseA in H.
  set (T := c_topo c) in *.
  destruct (if a_need a <=? cpn T
            then or_else (first_fit (a_need a) (free_cores_in_node c a true))
                         (first_fit (a_need a) (free_cores_in_node c a false))
            else None) as [l|] eqn:E1.
  { inversion H; subst.
    assert (Hl : exists fx, In l (free_cores_in_node c a fx) /\ a_need a <= lenZ l).
    { destruct (a_need a <=? cpn T); [|discriminate]. apply or_else_Some in E1.
      destruct E1 as [E1|E1]; apply first_fit_spec in E1; [exists true|exists false]; exact E1. }
    destruct Hl as [fx [Hin Hle]].
    destruct (take_fit c n A0 a l Hinv Hn (free_cores_in_node_good c a Halloc fx l Hin) Hle) as [I1 I2].
    splits; auto. lia. }
  destruct (if a_need a <=? cps T then first_fit (a_need a) (free_cores_in_socket c a) else None) as [l|] eqn:E2.
  { inversion H; subst.
    assert (Hl : In l (free_cores_in_socket c a) /\ a_need a <= lenZ l).
    { destruct (a_need a <=? cps T); [|discriminate]. apply first_fit_spec. exact E2. }
    destruct Hl as [Hin Hle].
    destruct (take_fit c n A0 a l Hinv Hn (free_cores_in_socket_each c a Halloc l Hin) Hle) as [I1 I2].
    splits; auto. lia. }
  destruct (free_cores_in_socket_good c a Halloc) as [Hsnd Hsinc].
  set (socks := sort_by (fun x y => lenZ y <=? lenZ x) (free_cores_in_socket c a)) in *.
  assert (Hperm : Permutation socks (free_cores_in_socket c a)) by apply sort_by_perm.
  destruct (phaseA3 c a socks []) as [[a1 unsat] r1] eqn:E3.
  assert (Hnd3 : NoDup (concat ([] ++ socks))).
  { cbn [app]. eapply Permutation_NoDup; [apply Permutation_sym; apply concat_perm; exact Hperm|exact Hsnd]. }
  assert (Hinc3 : incl (concat ([] ++ socks)) (ids (a_alloc a))).
  { cbn [app]. intros x Hx. apply Hsinc. eapply Permutation_in; [apply concat_perm; exact Hperm|exact Hx]. }
  destruct (phaseA3_spec c n A0 _ _ _ _ _ _ E3 Hinv Hn Hnd3 Hinc3) as [I1 [I2 [I3 [I4 [I5 I6]]]]].
  assert (Hdiv_socks : forall l, In l socks -> (cpc T | lenZ l)).
  { intros l Hl. apply (free_cores_in_socket_len c a). eapply Permutation_in; [exact Hperm|exact Hl]. }
  destruct r1.
  { inversion H; subst. splits; auto. lia. }
  destruct (needs a1 (cpc T)) eqn:En.
  - set (us := sort_by (fun x y => lenZ x <=? lenZ y) unsat) in *.
    assert (Hperm2 : Permutation us unsat) by apply sort_by_perm.
    assert (Hnd4 : NoDup (concat us))
      by (eapply Permutation_NoDup; [apply Permutation_sym; apply concat_perm; exact Hperm2|exact I3]).
    assert (Hinc4 : incl (concat us) (ids (a_alloc a1))).
    { intros x Hx. apply I4. eapply Permutation_in; [apply concat_perm; exact Hperm2|exact Hx]. }
    destruct (phaseA4_spec c n A0 _ _ _ _ H I1 I2 Hnd4 Hinc4) as [J1 [J2 J3]].
    splits; auto. intros Hk Hr. apply J3; [exact Hk| |exact Hr].
    intros l Hl. apply (Permutation_in _ Hperm2) in Hl. destruct (I5 l Hl) as [[]|Hx]. apply Hdiv_socks. exact Hx.
  - inversion H; subst. splits; auto. intros _ Hr. discriminate.
Qed.

(* ------------------------------------------------------------------ phase B *)
Lemma try_fit_spec c n A0 a ls a' :
  try_fit c a ls = Some a' ->
  acc_inv n A0 a -> 1 <= a_need a -> (forall l, In l ls -> good a l) ->
  acc_inv n A0 a' /\ a_need a' = 0.
Proof.
  unfold try_fit. intros H Hinv Hn Hg.
  destruct (first_fit (a_need a) ls) as [l|] eqn:E; [|discriminate]. inversion H; subst.
  apply first_fit_spec in E. destruct E as [Hin Hle].
  pose proof Hinv as [_ [Halloc _]].
  apply take_fit; auto.
  - apply spread_good. apply Hg. exact Hin.
  - assert (lenZ (spread c l) = lenZ l); [|lia].
    unfold lenZ. f_equal. apply Permutation_length. apply spread_perm.
Qed.

Lemma phaseB_spec c n A0 a a' :
  phaseB c a = Some a' -> acc_inv n A0 a -> 1 <= a_need a ->
  acc_inv n A0 a' /\ a_need a' = 0.
Proof.
  unfold phaseB. intros H Hinv Hn. pose proof Hinv as [_ [Halloc _]].
  apply or_else_Some in H. destruct H as [H|H].
  - destruct (a_need a <=? cpn (c_topo c)); [|discriminate].
    apply or_else_Some in H. destruct H as [H|H];
      (eapply try_fit_spec; [exact H|exact Hinv|exact Hn|]); apply free_cpus_in_node_good; exact Halloc.
  - destruct (a_need a <=? cps (c_topo c)); [|discriminate].
    apply or_else_Some in H. destruct H as [H|H];
      (eapply try_fit_spec; [exact H|exact Hinv|exact Hn|]); apply free_cpus_in_socket_good; exact Halloc.
Qed.

(* ------------------------------------------------------------------ phase C *)
Lemma phaseC_loop_spec c n A0 : forall l a a' r,
  phaseC_loop c a l = (a', r) ->
  acc_inv n A0 a -> 1 <= a_need a -> good a l ->
  acc_inv n A0 a'
  /\ (if r then a_need a' = 0 else 1 <= a_need a')
  /\ (a_need a <= lenZ l -> r = true).
Proof.
  induction l as [|i t IH]; intros a a' r H Hinv Hn [Hnd Hinc]; cbn [phaseC_loop] in H.
  - inversion H; subst. splits; auto. cbn. lia.
  - assert (Hneeds : needs a 1 = true) by (unfold needs; apply Z.leb_le; exact Hn).
    rewrite Hneeds in H.
    inversion Hnd as [|? ? Hi Hnd']; subst.
    assert (Hg : good a [i]).
    { split; [repeat constructor; intros []|]. intros x [Hx|[]]. subst. apply Hinc. left. reflexivity. }
    pose proof (acc_take_inv c n A0 a [i] Hinv Hg) as Hinv'.
    assert (Hneed' : a_need (acc_take c a [i]) = a_need a - 1) by (rewrite acc_take_need; reflexivity).
    destruct (satisfied (acc_take c a [i])) eqn:Es.
    + inversion H; subst. apply satisfied_spec in Es. splits; auto. lia.
    + pose proof (not_satisfied _ Es) as Hs.
      assert (Hg' : good (acc_take c a [i]) t).
      { split; [exact Hnd'|]. apply incl_after_take.
        - intros x Hx [Hx'|[]]. subst. contradiction.
        - intros x Hx. apply Hinc. right. exact Hx. }
      destruct (IH _ _ _ H Hinv' Hs Hg') as [I1 [I2 I3]].
      splits; auto. intros Hle. apply I3. rewrite lenZ_cons in Hle. lia.
Qed.

Lemma phaseC_spec c n A0 a :
  acc_inv n A0 a -> 1 <= a_need a ->
  exists a', phaseC c a = Some a' /\ acc_inv n A0 a' /\ a_need a' = 0.
Proof.
  intros Hinv Hn. pose proof Hinv as [_ [Halloc _]]. unfold phaseC.
  destruct (phaseC_loop c a (spread c (free_cpus c a true))) as [a1 r1] eqn:E1.
  destruct (phaseC_loop_spec c n A0 _ _ _ _ E1 Hinv Hn
              (spread_good c a _ (free_cpus_good c a Halloc true))) as [I1 [I2 _]].
  destruct r1; [exists a1; auto|].
  pose proof I1 as [_ [Halloc1 [_ [_ [_ [_ Hle1]]]]]].
  destruct (phaseC_loop c a1 (spread c (free_cpus c a1 false))) as [a2 r2] eqn:E2.
  destruct (phaseC_loop_spec c n A0 _ _ _ _ E2 I1 I2
              (spread_good c a1 _ (free_cpus_good c a1 Halloc1 false))) as [J1 [J2 J3]].
  assert (Hlen : lenZ (spread c (free_cpus c a1 false)) = lenZ (a_alloc a1)).
  { rewrite <- (lenZ_map eid (a_alloc a1)). unfold lenZ. f_equal. apply Permutation_length.
    eapply perm_trans; [apply spread_perm|]. apply free_cpus_all. }
  rewrite (J3 ltac:(lia)) in *. exists a2. auto.
Qed.

(* ------------------------------------------------------------------ takeCPUs *)
Lemma new_acc_inv c avail allocated n :
  NoDup (map cid (c_topo c)) ->
  let a0 := new_acc c avail allocated n in
  NoDup (a_res a0) /\ NoDup (ids (a_alloc a0))
  /\ (forall x, In x (a_res a0) -> ~ In x (ids (a_alloc a0)))
  /\ incl (a_res a0) avail /\ incl (ids (a_alloc a0)) avail
  /\ lenZ (a_res a0) + a_need a0 = n
  /\ ids (a_alloc a0) = map cid (filter (fun x => memZ (cid x) avail) (c_topo c)).
Proof.
  intros HT a0. unfold a0, new_acc. cbn [a_res a_alloc a_need].
  assert (Hids : ids (map (fun x => (x, if 1 <? c_maxref c then ref_in allocated (cid x) else 0))
                          (filter (fun x => memZ (cid x) avail) (c_topo c)))
                 = map cid (filter (fun x => memZ (cid x) avail) (c_topo c))).
  { unfold ids. rewrite map_map. apply map_ext. intros x. reflexivity. }
  rewrite Hids. splits; auto.
  - constructor.
  - apply NoDup_map_filter. exact HT.
  - intros x [].
  - intros x Hx. apply in_map_iff in Hx. destruct Hx as [y [E Hy]]. apply filter_In in Hy.
    destruct Hy as [_ Hy]. apply memZ_In in Hy. congruence.
Qed.

Lemma dedup_len_le l : lenZ (dedup l) <= lenZ l.
Proof.
  induction l as [|x l IH]; [cbn; lia|]. cbn [dedup]. rewrite !lenZ_cons.
  pose proof (lenZ_filter_le (fun y => negb (y =? x)) (dedup l)). lia.
Qed.

Lemma cpc_pos T : T <> [] -> 1 <= cpc T.
Proof.
  intros HT. unfold cpc, per, num_cpus, num_cores.
  set (ks := map (fun c => pair_key (cnode c) (ccore c)) T).
  assert (H1 : lenZ (dedup ks) <= lenZ T) by (unfold ks; rewrite <- (lenZ_map (fun c => pair_key (cnode c) (ccore c)) T); apply dedup_len_le).
  assert (H2 : 1 <= lenZ (dedup ks)).
  { destruct T as [|x T]; [congruence|]. unfold ks. cbn [map dedup]. rewrite lenZ_cons.
    pose proof (lenZ_nonneg (filter (fun y => negb (y =? pair_key (cnode x) (ccore x)))
                               (dedup (map (fun c => pair_key (cnode c) (ccore c)) T)))). lia. }
  destruct (lenZ (dedup ks) =? 0) eqn:E; [apply Z.eqb_eq in E; lia|].
  apply Z.div_le_lower_bound; lia.
Qed.

(* what the final accumulator of a successful takeCPUs satisfies *)
Lemma take_cpus_acc_spec c avail allocated n bind a :
  NoDup (map cid (c_topo c)) ->
  take_cpus_acc c avail allocated n bind = Some a ->
  NoDup (a_res a) /\ incl (a_res a) (map cid (filter (fun x => memZ (cid x) avail) (c_topo c)))
  /\ lenZ (a_res a) + a_need a = n /\ a_need a < 1
  /\ lenZ (a_res a) = Z.max 0 n.
Proof.
  intros HT H. unfold take_cpus_acc in H.
  destruct (new_acc_inv c avail allocated n HT) as [N1 [N2 [N3 [N4 [N5 [N6 N7]]]]]].
  set (a0 := new_acc c avail allocated n) in *.
  set (A0 := map cid (filter (fun x => memZ (cid x) avail) (c_topo c))) in *.
  assert (N4' : incl (a_res a0) A0) by (intros x []).
  assert (N5' : incl (ids (a_alloc a0)) A0) by (rewrite N7; apply incl_refl).
  assert (Hn0 : a_need a0 = n) by reflexivity.
  destruct (satisfied a0) eqn:Es.
  { inversion H; subst a. apply satisfied_spec in Es. splits; auto; try lia;
      try (change (a_res a0) with (@nil Z); cbn; lia). }
  pose proof (not_satisfied _ Es) as Hn.
  destruct (lenZ (a_alloc a0) <? a_need a0) eqn:Ef; [discriminate|]. apply Z.ltb_ge in Ef.
  assert (Hinv : acc_inv n A0 a0) by (unfold acc_inv; splits; auto).
  assert (Hne : c_topo c <> []).
  { intros E. unfold a0, new_acc in Ef. cbn [a_alloc a_need] in Ef. rewrite E in Ef. cbn in Ef. lia. }
  pose proof (cpc_pos _ Hne) as Hk.
  destruct (if (bind =? 1) || (cpc (c_topo c) =? 1) then phaseA c a0 else (a0, false)) as [a1 r] eqn:EA.
  assert (HA : acc_inv n A0 a1 /\ (if r then a_need a1 < 1 else 1 <= a_need a1)
               /\ (r = true -> a_need a1 = 0)).
  { destruct ((bind =? 1) || (cpc (c_topo c) =? 1)) eqn:Eb.
    - destruct (phaseA_spec c n A0 _ _ _ EA Hinv Hn) as [I1 [I2 I3]]. splits; auto.
      intros Hr. apply I3; [lia|exact Hr].
    - injection EA as Ea Er. subst a1 r. splits; auto. intros Hr. discriminate. }
  destruct HA as [I1 [I2 I3]].
  destruct r.
  { inversion H; subst a. pose proof I1 as [R1 [_ [_ [R4 [_ [R6 _]]]]]].
    pose proof (I3 eq_refl). splits; auto. lia. }
  assert (HB : forall a2, (if bind =? 1 then None else phaseB c a1) = Some a2 ->
                          acc_inv n A0 a2 /\ a_need a2 = 0).
  { intros a2 HB. destruct (bind =? 1); [discriminate|]. eapply phaseB_spec; eauto. }
  apply or_else_Some in H. destruct H as [H|H].
  - destruct (HB a H) as [[R1 [_ [_ [R4 [_ [R6 _]]]]]] R0]. splits; auto; lia.
  - destruct (phaseC_spec c n A0 a1 I1 I2) as [a' [E [[R1 [_ [_ [R4 [_ [R6 _]]]]]] R0]]].
    rewrite E in H. inversion H; subst a'. splits; auto; lia.
Qed.

(* takeCPUs never fails while enough CPUs are free *)
Lemma take_cpus_acc_complete c avail allocated n bind :
  NoDup (map cid (c_topo c)) ->
  n <= lenZ (filter (fun x => memZ (cid x) avail) (c_topo c)) ->
  take_cpus_acc c avail allocated n bind <> None.
Proof.
  intros HT Hle. unfold take_cpus_acc.
  destruct (new_acc_inv c avail allocated n HT) as [N1 [N2 [N3 [N4 [N5 [N6 N7]]]]]].
  set (a0 := new_acc c avail allocated n) in *.
  set (A0 := map cid (filter (fun x => memZ (cid x) avail) (c_topo c))) in *.
  assert (N4' : incl (a_res a0) A0) by (intros x []).
  assert (N5' : incl (ids (a_alloc a0)) A0) by (rewrite N7; apply incl_refl).
  destruct (satisfied a0) eqn:Es; [discriminate|].
  pose proof (not_satisfied _ Es) as Hn.
  assert (Hlen : lenZ (a_alloc a0) = lenZ (filter (fun x => memZ (cid x) avail) (c_topo c))).
  { rewrite <- (lenZ_map eid (a_alloc a0)). fold (ids (a_alloc a0)). rewrite N7. unfold A0. rewrite lenZ_map. reflexivity. }
  assert (Hn0 : a_need a0 = n) by reflexivity.
  destruct (lenZ (a_alloc a0) <? a_need a0) eqn:Ef; [apply Z.ltb_lt in Ef; lia|]. apply Z.ltb_ge in Ef.
  assert (Hinv : acc_inv n A0 a0) by (unfold acc_inv; splits; auto).
  destruct (if (bind =? 1) || (cpc (c_topo c) =? 1) then phaseA c a0 else (a0, false)) as [a1 r] eqn:EA.
  destruct r; [discriminate|].
  assert (HA : acc_inv n A0 a1 /\ 1 <= a_need a1).
  { destruct ((bind =? 1) || (cpc (c_topo c) =? 1)).
    - destruct (phaseA_spec c n A0 _ _ _ EA Hinv Hn) as [I1 [I2 _]]. auto.
    - injection EA as Ea. subst a1. auto. }
  destruct HA as [I1 I2].
  destruct (phaseC_spec c n A0 a1 I1 I2) as [a' [E _]]. rewrite E.
  destruct (if bind =? 1 then None else phaseB c a1); cbn [or_else]; discriminate.
Qed.
