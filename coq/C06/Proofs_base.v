(* C06 — basic facts about the list/set helpers of Model.v. *)
From Coq Require Import List ZArith Bool Lia Permutation Sorting.Sorted.
From Verif Require Import C06.Model C06.Spec.
Import ListNotations.
Open Scope Z_scope.

(* ------------------------------------------------------------------ memZ, lenZ *)
Lemma memZ_In x l : memZ x l = true <-> In x l.
Proof.
  unfold memZ. rewrite existsb_exists. split.
  - intros [y [Hy E]]. apply Z.eqb_eq in E. subst. exact Hy.
  - intros H. exists x. split; [exact H | apply Z.eqb_refl].
Qed.

Lemma memZ_false x l : memZ x l = false <-> ~ In x l.
Proof.
  split.
  - intros H Hin. apply memZ_In in Hin. congruence.
  - intros H. destruct (memZ x l) eqn:E; [|reflexivity].
    exfalso. apply H. apply memZ_In. exact E.
Qed.

Lemma lenZ_nonneg {A} (l : list A) : 0 <= lenZ l.
Proof. unfold lenZ. lia. Qed.

Lemma lenZ_app {A} (a b : list A) : lenZ (a ++ b) = lenZ a + lenZ b.
Proof. unfold lenZ. rewrite app_length. lia. Qed.

Lemma lenZ_cons {A} (x : A) l : lenZ (x :: l) = 1 + lenZ l.
Proof. unfold lenZ. cbn [length]. lia. Qed.

Lemma lenZ_nil {A} : lenZ (@nil A) = 0.
Proof. reflexivity. Qed.

Lemma lenZ_map {A B} (f : A -> B) l : lenZ (map f l) = lenZ l.
Proof. unfold lenZ. rewrite map_length. reflexivity. Qed.

Lemma lenZ_filter_le {A} (f : A -> bool) l : lenZ (filter f l) <= lenZ l.
Proof.
  unfold lenZ. induction l as [|x l IH]; cbn [filter length]; [lia|].
  destruct (f x); cbn [length]; lia.
Qed.

Lemma sumZ_app a b : sumZ (a ++ b) = sumZ a + sumZ b.
Proof. unfold sumZ. induction a as [|x a IH]; cbn [app fold_right]; lia. Qed.

Lemma sumZ_perm l l' : Permutation l l' -> sumZ l = sumZ l'.
Proof. unfold sumZ. induction 1; cbn [fold_right] in *; lia. Qed.

(* ------------------------------------------------------------------ filter *)
Lemma filter_In_iff {A} (f : A -> bool) x l : In x (filter f l) <-> In x l /\ f x = true.
Proof. apply filter_In. Qed.

Lemma NoDup_filter {A} (f : A -> bool) l : NoDup l -> NoDup (filter f l).
Proof.
  induction 1 as [|x l Hx Hnd IH]; cbn [filter]; [constructor|].
  destruct (f x); [constructor; [|exact IH]|exact IH].
  intros H. apply filter_In in H. tauto.
Qed.

Lemma NoDup_map_filter {A B} (g : A -> B) (f : A -> bool) l :
  NoDup (map g l) -> NoDup (map g (filter f l)).
Proof.
  induction l as [|x l IH]; cbn [filter map]; intros H; [constructor|].
  inversion H as [|? ? Hx Hnd]; subst.
  destruct (f x); cbn [map]; [constructor|]; auto.
  intros Hin. apply Hx. apply in_map_iff in Hin. destruct Hin as [y [E Hy]].
  apply filter_In in Hy. apply in_map_iff. exists y. tauto.
Qed.

Lemma filter_all_true {A} (f : A -> bool) l : (forall x, In x l -> f x = true) -> filter f l = l.
Proof.
  induction l as [|x l IH]; cbn [filter]; intros H; [reflexivity|].
  rewrite (H x (or_introl eq_refl)). f_equal. apply IH. intros y Hy. apply H. right. exact Hy.
Qed.

(* ------------------------------------------------------------------ dedup *)
Lemma dedup_In x l : In x (dedup l) <-> In x l.
Proof.
  induction l as [|y l IH]; cbn [dedup]; [tauto|].
  cbn [In]. rewrite filter_In, IH. split.
  - intros [H|[H _]]; auto.
  - intros [H|H]; auto. destruct (Z.eq_dec y x) as [E|E]; auto.
    right. split; auto. apply negb_true_iff. apply Z.eqb_neq. congruence.
Qed.

Lemma dedup_NoDup l : NoDup (dedup l).
Proof.
  induction l as [|y l IH]; cbn [dedup]; constructor.
  - intros H. apply filter_In in H. destruct H as [_ H].
    rewrite Z.eqb_refl in H. discriminate.
  - apply NoDup_filter. exact IH.
Qed.

Lemma dedup_id l : NoDup l -> dedup l = l.
Proof.
  induction 1 as [|x l Hx Hnd IH]; cbn [dedup]; [reflexivity|].
  rewrite IH. f_equal. apply filter_all_true. intros y Hy.
  apply negb_true_iff. apply Z.eqb_neq. intros E. subst. contradiction.
Qed.

(* ------------------------------------------------------------------ set_union *)
Lemma NoDup_app_intro {A} (a b : list A) :
  NoDup a -> NoDup b -> (forall x, In x a -> ~ In x b) -> NoDup (a ++ b).
Proof.
  induction 1 as [|x a Hx Hnd IH]; cbn [app]; intros Hb Hd; [exact Hb|].
  constructor.
  - intros H. apply in_app_or in H. destruct H as [H|H]; [contradiction|].
    apply (Hd x); [left; reflexivity | exact H].
  - apply IH; [exact Hb|]. intros y Hy. apply Hd. right. exact Hy.
Qed.

Lemma NoDup_app_inv {A} (a b : list A) :
  NoDup (a ++ b) -> NoDup a /\ NoDup b /\ (forall x, In x a -> ~ In x b).
Proof.
  induction a as [|x a IH]; cbn [app]; intros H.
  - split; [constructor|]. split; [exact H|]. intros x [].
  - inversion H as [|? ? Hx Hnd]; subst. destruct (IH Hnd) as [Ha [Hb Hd]].
    split; [constructor; [|exact Ha]|].
    + intros Hin. apply Hx. apply in_or_app. left. exact Hin.
    + split; [exact Hb|]. intros y [E|Hy]; [subst|apply Hd; exact Hy].
      intros Hin. apply Hx. apply in_or_app. right. exact Hin.
Qed.

Lemma set_union_NoDup r l : NoDup r -> NoDup (set_union r l).
Proof.
  intros Hr. unfold set_union. apply NoDup_app_intro; [exact Hr| |].
  - apply NoDup_filter. apply dedup_NoDup.
  - intros x Hx H. apply filter_In in H. destruct H as [_ H].
    apply negb_true_iff in H. apply memZ_false in H. contradiction.
Qed.

Lemma set_union_In x r l : In x (set_union r l) <-> In x r \/ In x l.
Proof.
  unfold set_union. rewrite in_app_iff, filter_In, dedup_In. split.
  - intros [H|[H _]]; auto.
  - intros [H|H]; auto. destruct (memZ x r) eqn:E.
    + left. apply memZ_In. exact E.
    + right. split; auto.
Qed.

Lemma set_union_disjoint r l :
  NoDup l -> (forall x, In x l -> ~ In x r) -> set_union r l = r ++ l.
Proof.
  intros Hl Hd. unfold set_union. rewrite (dedup_id l Hl). f_equal.
  apply filter_all_true. intros x Hx. apply negb_true_iff. apply memZ_false. apply Hd. exact Hx.
Qed.

Lemma set_union_nil_l l : set_union [] l = dedup l.
Proof.
  unfold set_union. cbn [app]. apply filter_all_true. intros x _. reflexivity.
Qed.

(* ------------------------------------------------------------------ sorting *)
Lemma insert_by_perm {A} (leb : A -> A -> bool) x l : Permutation (insert_by leb x l) (x :: l).
Proof.
  induction l as [|y l IH]; cbn [insert_by]; [apply Permutation_refl|].
  destruct (leb x y); [apply Permutation_refl|].
  eapply perm_trans; [apply perm_skip; exact IH|apply perm_swap].
Qed.

Lemma sort_by_perm {A} (leb : A -> A -> bool) l : Permutation (sort_by leb l) l.
Proof.
  unfold sort_by. induction l as [|x l IH]; cbn [fold_right]; [constructor|].
  eapply perm_trans; [apply insert_by_perm|]. apply perm_skip. exact IH.
Qed.

Lemma sort_on_perm {A} (key : A -> list Z) l : Permutation (sort_on key l) l.
Proof.
  unfold sort_on.
  eapply perm_trans; [apply Permutation_map; apply sort_by_perm|].
  rewrite map_map. cbn [snd]. rewrite map_id. apply Permutation_refl.
Qed.

Lemma sort_on_In {A} (key : A -> list Z) l x : In x (sort_on key l) <-> In x l.
Proof.
  split; apply Permutation_in; [|apply Permutation_sym]; apply sort_on_perm.
Qed.

Lemma sort_on_NoDup {A} (key : A -> list Z) l : NoDup l -> NoDup (sort_on key l).
Proof.
  intros H. eapply Permutation_NoDup; [apply Permutation_sym; apply sort_on_perm|exact H].
Qed.

Lemma sort_by_In {A} (leb : A -> A -> bool) l x : In x (sort_by leb l) <-> In x l.
Proof.
  split; apply Permutation_in; [|apply Permutation_sym]; apply sort_by_perm.
Qed.

(* sortedness of the insertion sort for a comparator derived from an integer key *)
Definition key_leb {A} (key : A -> Z) (a b : A) : bool := key a <=? key b.

Lemma insert_by_sorted {A} (key : A -> Z) x l :
  StronglySorted (fun a b => key a <= key b) l ->
  StronglySorted (fun a b => key a <= key b) (insert_by (key_leb key) x l).
Proof.
  induction 1 as [|y l Hs IH Hall]; cbn [insert_by].
  - constructor; constructor.
  - unfold key_leb at 1. destruct (key x <=? key y) eqn:E.
    + apply Z.leb_le in E. constructor; [constructor; assumption|].
      constructor; [exact E|]. rewrite Forall_forall in *. intros z Hz. specialize (Hall z Hz). lia.
    + apply Z.leb_gt in E. constructor; [exact IH|].
      rewrite Forall_forall in *. intros z Hz.
      apply (Permutation_in _ (insert_by_perm (key_leb key) x l)) in Hz.
      destruct Hz as [Hz|Hz]; [subst; lia|apply Hall; exact Hz].
Qed.

Lemma sort_by_sorted {A} (key : A -> Z) l :
  StronglySorted (fun a b => key a <= key b) (sort_by (key_leb key) l).
Proof.
  unfold sort_by. induction l as [|x l IH]; cbn [fold_right]; [constructor|].
  apply insert_by_sorted. exact IH.
Qed.

(* ------------------------------------------------------------------ firstn / skipn *)
Lemma firstn_In {A} n (l : list A) x : In x (firstn n l) -> In x l.
Proof.
  revert l. induction n as [|n IH]; intros l H; cbn [firstn] in H; [destruct H|].
  destruct l as [|y l]; [destruct H|]. destruct H as [H|H]; [left; exact H|right; apply IH; exact H].
Qed.

Lemma skipn_In {A} n (l : list A) x : In x (skipn n l) -> In x l.
Proof.
  revert l. induction n as [|n IH]; intros l H; cbn [skipn] in H; [exact H|].
  destruct l as [|y l]; [destruct H|]. right. apply IH. exact H.
Qed.

Lemma firstn_NoDup {A} n (l : list A) : NoDup l -> NoDup (firstn n l).
Proof.
  revert l. induction n as [|n IH]; intros l H; cbn [firstn]; [constructor|].
  destruct l as [|y l]; [constructor|]. inversion H; subst. constructor; [|apply IH; assumption].
  intros Hin. apply firstn_In in Hin. contradiction.
Qed.

Lemma skipn_NoDup {A} n (l : list A) : NoDup l -> NoDup (skipn n l).
Proof.
  revert l. induction n as [|n IH]; intros l H; cbn [skipn]; [exact H|].
  destruct l as [|y l]; [constructor|]. inversion H; subst. apply IH. assumption.
Qed.

Lemma firstnZ_length {A} n (l : list A) : 0 <= n <= lenZ l -> lenZ (firstnZ n l) = n.
Proof.
  unfold firstnZ, lenZ. intros H. rewrite firstn_length. lia.
Qed.
