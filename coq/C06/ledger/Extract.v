(* C06, stream "ledger" — histories of resourceManager.Allocate+Update / Release / informer
   events through the real podEventHandler / Allocate with give-backs on one node. Wire format: see coq/C06/Codec.v. *)
From Coq Require Import List ZArith Bool.
From Verif Require Import Lib.Wire C06.Model C06.Spec C06.Codec.
Import ListNotations.
Open Scope Z_scope.

Definition run_case (inp : list Z) : list Z :=
  let '(o, ops, _) := decode_hist inp in snd (run_ops o l_init [] ops).

Definition prop_case (inp obs : list Z) : Z :=
  let '(o, ops, _) := decode_hist inp in
  let '(recs, rest) := decode_many dec_lobs (length ops) obs in
  match rest with
  | [] => ledger_code o ops recs
  | _ => 98
  end.

(* non-trivial: at least three operations, at least one Allocate for two or more CPUs and at
   least one Release or Update *)
Definition nontrivial_case (inp : list Z) : bool :=
  let '(o, ops, _) := decode_hist inp in
  (3 <=? lenZ ops)
  && existsb (fun x => match x with
                       | IOp (OAlloc rq) | IOp (OAllocR rq _ _) => r_bindreq rq && (2 <=? r_n rq)
                       | _ => false end) ops
  && existsb (fun x => match x with IOp (OAlloc _) => false | _ => true end) ops.

(* no known finding: the FullPCPUs overshoot was fixed in 43d7136 *)
Definition finding_sig (inp obs : list Z) : Z := 0.

Require Extraction.
Require Import ExtrOcamlBasic.
Extraction "model.ml" run_case prop_case nontrivial_case finding_sig.
