(* C06, stream "ledger" — histories of resourceManager.Allocate+Update / Release / Update on
   one node.
   input : maxref most  K (id sock node corelocal)*K  R reserved*R  C (node capcpu capmem)*C  M ops
     op 1 uid n bindreq bind required excl hintflag H bits*H cpu mem      Allocate (+ Update on success)
     op 2 uid                                                             Release
     op 3 uid excl k ids*k m (node cpu mem)*m                             Update (restored allocation)
     op 4 uid n bindreq bind required excl hintflag H bits*H cpu mem hostflag host victimflag victim
          Allocate with give-backs: preferredCPUs = remaining CPUs of live reservation [host],
          preemptibleCPUs = CPUs of live pod [victim] (Spec.concretize); on success Release(victim)
          and Update
   observable, per op: ok  k ids*k  m (node cpu mem)*m   L (id ref excl)*L   V avail*V
                       then (cpu mem) of allocatedResources for node 0..7 *)
From Coq Require Import List ZArith Bool.
From Verif Require Import Lib.Wire C06.Model C06.Spec.
Import ListNotations.
Open Scope Z_scope.

Definition dec_cpu (l : list Z) : cpu * list Z :=
  match l with
  | i :: s :: n :: k :: t => (mkCpu i (s * 65536 + k) n s, t)
  | _ => (mkCpu 0 0 0 0, [])
  end.
Definition dec_nres (l : list Z) : nres * list Z :=
  match l with
  | n :: c :: m :: t => ((n, (c, m)), t)
  | _ => ((0, (0, 0)), [])
  end.

Definition dec_op (l : list Z) : op * list Z :=
  match l with
  | 1 :: uid :: n :: bindreq :: bind :: required :: excl :: hf :: t =>
    let '(bits, t1) := take_list t in
    match t1 with
    | c :: m :: t2 =>
      (OAlloc (mkR uid n (zb bindreq) bind (zb required) excl (if zb hf then Some bits else None) c m [] []), t2)
    | _ => (ORelease (-1), [])
    end
  | 4 :: uid :: n :: bindreq :: bind :: required :: excl :: hf :: t =>
    let '(bits, t1) := take_list t in
    match t1 with
    | c :: m :: hof :: ho :: vf :: v :: t2 =>
      (OAllocR (mkR uid n (zb bindreq) bind (zb required) excl (if zb hf then Some bits else None) c m [] [])
               (if zb hof then Some ho else None) (if zb vf then Some v else None), t2)
    | _ => (ORelease (-1), [])
    end
  | 2 :: uid :: t => (ORelease uid, t)
  | 3 :: uid :: excl :: t =>
    let '(cpus, t1) := take_list t in
    let '(nr, t2) := decode_seq dec_nres t1 in
    (OUpdate (mkP uid (dedup cpus) excl nr), t2)
  | _ => (ORelease (-1), [])
  end.

Definition decode (inp : list Z) : nopts * list op :=
  match inp with
  | maxref :: most :: t =>
    let '(T, t1) := decode_seq dec_cpu t in
    let '(rsv, t2) := take_list t1 in
    let '(cap, t3) := decode_seq dec_nres t2 in
    let '(ops, _) := decode_seq dec_op t3 in
    (mkO T maxref (dedup rsv) (zb most) cap, ops)
  | _ => (mkO [] 1 [] false [], [])
  end.

Definition sortZ (l : list Z) : list Z := sort_by Z.leb l.
Definition enc_nres (l : list nres) : list Z :=
  Z.of_nat (length l) :: flat_map (fun e => [fst e; fst (snd e); snd (snd e)]) l.

Definition dump (o : nopts) (st : lstate) : list Z :=
  let cs := sort_on (fun a => [aid a]) (l_cpus st) in
  (Z.of_nat (length cs) :: flat_map (fun a => [aid a; aref a; aexcl a]) cs)
  ++ encode_list (fst (available (o_topo o) (o_maxref o) (o_reserved o) (l_cpus st) []))
  ++ flat_map (fun k => let r := lookup_res (Z.of_nat k) (l_numa st) in [fst r; snd r]) (seq 0 8).

Definition obs_step (o : nopts) (st : lstate) (es : list edge) (x0 : op) : lstate * list edge * list Z :=
  let x := match x0 with
           | OAllocR rq0 h0 v0 => let '(rq, h, v) := concretize (l_pods st) es rq0 h0 v0 in OAllocR rq h v
           | _ => x0
           end in
  let '(st', r) := step o st x in
  let head :=
    match x, r with
    | OAlloc _, Some p | OAllocR _ _ _, Some p => [1] ++ encode_list (sortZ (p_cpus p)) ++ enc_nres (p_numa p)
    | OAlloc _, None | OAllocR _ _ _, None => [0; 0; 0]
    | _, _ => [1; 0; 0]
    end in
  let es' :=
    match x, r with
    | OAlloc rq, Some _ => edges_del es (r_uid rq)
    | OAllocR rq h v, Some p => edges_alloc es rq h v (p_cpus p)
    | ORelease uid, _ => edges_del es uid
    | OUpdate p, _ => edges_del es (p_uid p)
    | _, None => es
    end in
  (st', es', head ++ dump o st').

Fixpoint run_ops (o : nopts) (st : lstate) (es : list edge) (ops : list op) : list Z :=
  match ops with
  | [] => []
  | x :: t => let '(st', es', out) := obs_step o st es x in out ++ run_ops o st' es' t
  end.

Definition run_case (inp : list Z) : list Z :=
  let '(o, ops) := decode inp in run_ops o l_init [] ops.

(* ---- parsing the implementation's observable ---- *)
Definition dec_led (l : list Z) : (Z * Z) * list Z :=
  match l with
  | i :: r :: _ :: t => ((i, r), t)
  | _ => ((0, 0), [])
  end.
Fixpoint pairs (k : nat) (l : list Z) : list res2 * list Z :=
  match k with
  | O => ([], l)
  | S k' => match l with
            | a :: b :: t => let '(r, rest) := pairs k' t in ((a, b) :: r, rest)
            | _ => ([], [])
            end
  end.
Definition dec_lobs (l : list Z) : lobs * list Z :=
  match l with
  | ok :: t =>
    let '(cpus, t1) := take_list t in
    let '(nr, t2) := decode_seq dec_nres t1 in
    let '(led, t3) := decode_seq dec_led t2 in
    let '(av, t4) := take_list t3 in
    let '(nl, t5) := pairs 8 t4 in
    (mkLO (zb ok) cpus nr led av nl, t5)
  | [] => (lo_init, [])
  end.

Definition prop_case (inp obs : list Z) : Z :=
  let '(o, ops) := decode inp in
  let '(recs, rest) := decode_many dec_lobs (length ops) obs in
  match rest with
  | [] => ledger_code o ops recs
  | _ => 98
  end.

(* non-trivial: at least three operations, at least one Allocate for two or more CPUs and at
   least one Release or Update *)
Definition nontrivial_case (inp : list Z) : bool :=
  let '(o, ops) := decode inp in
  (3 <=? lenZ ops)
  && existsb (fun x => match x with
                       | OAlloc rq | OAllocR rq _ _ => r_bindreq rq && (2 <=? r_n rq)
                       | _ => false end) ops
  && existsb (fun x => match x with OAlloc _ => false | _ => true end) ops.

(* no known finding: the FullPCPUs overshoot was fixed in 43d7136 *)
Definition finding_sig (inp obs : list Z) : Z := 0.

Require Extraction.
Require Import ExtrOcamlBasic.
Extraction "model.ml" run_case prop_case nontrivial_case finding_sig.
