(* C06, stream "conc" — a sequential set-up history (format of Codec.v), then a concurrent
   section on the same live resourceManager:
     input tail: x ku A (A allocation requests in the op-1 format)
   pod x (if live) is re-recorded once by Update, then one goroutine repeats that Update ku times
   while A goroutines each call Allocate repeatedly for their request (nothing is recorded).
   observable: the set-up observations, then per allocator "ok k ids m numa" (its common result,
   or the first result that differed from it), then the final dump.
   Update is one critical section (c06_conc_update): every Allocate sees the set-up state, so the
   model answers every request in the state after the single re-recording.
   optional input tail: E episodes "rel  3 uid excl k ids*k m (node cpu mem)*m": Release(rel) and
   Update(the spelled allocation) race for the node's ledger: both have fetched the NodeAllocation
   pointer before either gets its lock (the harness holds a read lock until both are queued).
   Whatever the order of the two critical sections the result is the same (c06_race_release_update):
   rel is gone, the new pod is recorded. observable: one more dump per episode, judged by the
   dump clauses against the live pods recomputed from the input (100 + clause). *)
From Coq Require Import List ZArith Bool.
From Verif Require Import Lib.Wire C06.Model C06.Spec C06.Codec.
Import ListNotations.
Open Scope Z_scope.

Definition rq_of (x : op) : areq :=
  match x with
  | OAlloc rq => rq
  | _ => mkR (-1) 0 false 0 false 0 None (-1) (-1) [] []
  end.

Definition dec_episode (l : list Z) : (Z * palloc) * list Z :=
  match l with
  | rel :: t => match dec_op t with
                | (OUpdate p, t') => ((rel, p), t')
                | (_, t') => ((rel, mkP (-1) [] 0 []), t')
                end
  | [] => ((-1, mkP (-1) [] 0 []), [])
  end.

Definition decode_full (inp : list Z) : nopts * list item * Z * Z * list areq * list (Z * palloc) :=
  let '(o, ops, t) := decode_hist inp in
  match t with
  | x :: ku :: t1 => let '(rs, t2) := decode_seq dec_op t1 in
                     let '(eps, _) := decode_seq dec_episode t2 in
                     (o, ops, x, ku, map rq_of rs, eps)
  | _ => (o, ops, -1, 0, [], [])
  end.
Definition decode (inp : list Z) : nopts * list item * Z * Z * list areq :=
  fst (decode_full inp).

(* the racing Release / Update pairs, one after the other *)
Fixpoint run_episodes (o : nopts) (st : lstate) (eps : list (Z * palloc)) : list Z :=
  match eps with
  | [] => []
  | (rel, p) :: t => let st' := update (release st rel) p in dump o st' ++ run_episodes o st' t
  end.

Definition run_case (inp : list Z) : list Z :=
  let '(o, ops, x, ku, reqs) := decode inp in
  let '(st, es, out) := run_ops o l_init [] ops in
  let st' := match find_pod x (l_pods st) with
             | Some p => update st p
             | None => st
             end in
  out ++ flat_map (fun rq => enc_result (allocate o st' rq)) reqs ++ dump o st'
      ++ run_episodes o st' (snd (decode_full inp)).

Definition prop_case (inp obs : list Z) : Z :=
  let '(o, ops, x, ku, reqs) := decode inp in
  let '(recs, rest) := decode_many dec_lobs (length ops) obs in
  let '(results, rest') := decode_many dec_result (length reqs) rest in
  let '(final, rest'') := dec_dump rest' in
  let c := conc_code o ops reqs recs results final in
  if negb (c =? 0) then c
  else
    let '(_, ps0, es, _) := hist_fold o [] [] true ops recs in
    let fix go (ps : list palloc) (eps : list (Z * palloc)) (l : list Z) : Z :=
      match eps with
      | [] => match l with [] => 0 | _ => 98 end
      | (rel, p) :: t =>
        let ps' := pods_put (pods_del ps rel) p in
        let '(d, l') := dec_dump l in
        let c1 := dump_code o ps' (edges_del (edges_del es rel) (p_uid p)) false d in
        if negb (c1 =? 0) then 100 + c1 else go ps' t l'
      end in
    go ps0 (snd (decode_full inp)) rest''.

(* non-trivial: the re-recorded pod is live and holds CPUs, and some allocator asks for CPUs *)
Definition nontrivial_case (inp : list Z) : bool :=
  let '(o, ops, x, ku, reqs) := decode inp in
  let '(st, _, _) := run_ops o l_init [] ops in
  match find_pod x (l_pods st) with
  | Some p => negb (match p_cpus p with [] => true | _ => false end)
              && existsb (fun rq => r_bindreq rq && (1 <=? r_n rq)) reqs && (1 <=? ku)
  | None => false
  end.

Definition finding_sig (inp obs : list Z) : Z := 0.

Require Extraction.
Require Import ExtrOcamlBasic.
Extraction "model.ml" run_case prop_case nontrivial_case finding_sig.
