(* C06, stream "conc" — a sequential set-up history (format of Codec.v), then a concurrent
   section on the same live resourceManager:
     input tail: x ku A (A allocation requests in the op-1 format)
   pod x (if live) is re-recorded once by Update, then one goroutine repeats that Update ku times
   while A goroutines each call Allocate repeatedly for their request (nothing is recorded).
   observable: the set-up observations, then per allocator "ok k ids m numa" (its common result,
   or the first result that differed from it), then the final dump.
   Update is one critical section (c06_conc_update): every Allocate sees the set-up state, so the
   model answers every request in the state after the single re-recording. *)
From Coq Require Import List ZArith Bool.
From Verif Require Import Lib.Wire C06.Model C06.Spec C06.Codec.
Import ListNotations.
Open Scope Z_scope.

Definition rq_of (x : op) : areq :=
  match x with
  | OAlloc rq => rq
  | _ => mkR (-1) 0 false 0 false 0 None (-1) (-1) [] []
  end.

Definition decode (inp : list Z) : nopts * list item * Z * Z * list areq :=
  let '(o, ops, t) := decode_hist inp in
  match t with
  | x :: ku :: t1 => let '(rs, _) := decode_seq dec_op t1 in (o, ops, x, ku, map rq_of rs)
  | _ => (o, ops, -1, 0, [])
  end.

Definition run_case (inp : list Z) : list Z :=
  let '(o, ops, x, ku, reqs) := decode inp in
  let '(st, es, out) := run_ops o l_init [] ops in
  let st' := match find_pod x (l_pods st) with
             | Some p => update st p
             | None => st
             end in
  out ++ flat_map (fun rq => enc_result (allocate o st' rq)) reqs ++ dump o st'.

Definition prop_case (inp obs : list Z) : Z :=
  let '(o, ops, x, ku, reqs) := decode inp in
  let '(recs, rest) := decode_many dec_lobs (length ops) obs in
  let '(results, rest') := decode_many dec_result (length reqs) rest in
  let '(final, rest'') := dec_dump rest' in
  match rest'' with
  | [] => conc_code o ops reqs recs results final
  | _ => 98
  end.

(* non-trivial: the re-recorded pod is live and holds CPUs, and some allocator asks for CPUs *)
Definition nontrivial_case (inp : list Z) : bool :=
  let '(o, ops, x, ku, reqs) := decode inp in
  let '(st, _, _) := run_ops o l_init [] ops in
  match find_pod x (l_pods st) with
  | Some p => negb (match p_cpus p with [] => true | _ => false end)
              && existsb (fun rq => r_bindreq rq && (1 <=? r_n rq)) reqs && (1 <=? ku)
  | None => false
  end.

Definition finding_sig (inp obs : list Z) : Z := 0.

Require Extraction.
Require Import ExtrOcamlBasic.
Extraction "model.ml" run_case prop_case nontrivial_case finding_sig.
