(* C06 — takePreferredCPUs is complete, and the model passes the decision procedure that
   Extract runs on observables (stream "take"): prop_case inp (run_case inp) = 0 for every
   well-formed input, whatever the policy. *)
From Coq Require Import List ZArith Bool Lia Permutation Sorting.Sorted.
From Verif Require Import C06.Model C06.Spec C06.Proofs_base C06.Proofs_gen C06.Proofs_take
  C06.Proofs_take2 C06.Proofs_alloc C06.Proofs_spec.
Import ListNotations.
Open Scope Z_scope.

(* ------------------------------------------------------------------ counting helpers *)
Lemma kept_len T s :
  NoDup (map cid T) -> NoDup s -> incl s (map cid T) ->
  lenZ (filter (fun x => memZ (cid x) s) T) = lenZ s.
Proof.
  intros HT Hs Hinc. rewrite <- (lenZ_map cid). unfold lenZ. f_equal.
  apply Permutation_length. apply kept_perm; assumption.
Qed.

Lemma NoDup_incl_lenZ (a b : list Z) : NoDup a -> incl a b -> lenZ a <= lenZ b.
Proof. intros Ha Hi. unfold lenZ. apply inj_le. apply NoDup_incl_length; assumption. Qed.

(* ------------------------------------------------------------------ completeness *)
Lemma take_preferred_complete c avail preferred allocated n bind :
  NoDup (map cid (c_topo c)) -> NoDup avail -> incl avail (map cid (c_topo c)) ->
  n <= lenZ avail ->
  take_preferred c avail preferred allocated n bind <> None.
Proof.
  intros HT Hav Hinc Hn. unfold take_preferred.
  destruct (filter (fun i => memZ i preferred) avail) as [|p0 pref0] eqn:Ep.
  - destruct (0 <? n); [|discriminate].
    pose proof (take_cpus_complete c avail allocated n bind HT) as Hc.
    rewrite (kept_len _ _ HT Hav Hinc) in Hc. specialize (Hc Hn).
    destruct (take_cpus c avail allocated n bind); [discriminate|congruence].
  - set (pref := p0 :: pref0) in *.
    assert (Hpref : incl pref avail) by (intros x Hx; rewrite <- Ep in Hx; apply filter_In in Hx; tauto).
    assert (Hpnd : NoDup pref) by (rewrite <- Ep; apply NoDup_filter; exact Hav).
    assert (HprefT : incl pref (map cid (c_topo c))) by (intros x Hx; apply Hinc; apply Hpref; exact Hx).
    pose proof (take_cpus_complete c pref allocated (Z.min n (lenZ pref)) bind HT) as Hc1.
    rewrite (kept_len _ _ HT Hpnd HprefT) in Hc1. specialize (Hc1 ltac:(lia)).
    destruct (take_cpus c pref allocated (Z.min n (lenZ pref)) bind) as [r|] eqn:E1; [|congruence].
    destruct (take_cpus_spec c _ _ _ _ _ HT E1) as [R1 [R2 [_ R4]]].
    destruct (0 <? n - lenZ r) eqn:En; [|discriminate]. apply Z.ltb_lt in En.
    set (avail' := filter (fun i => negb (memZ i pref)) avail) in *.
    assert (Hlr : lenZ r <= lenZ pref) by (apply NoDup_incl_lenZ; assumption).
    assert (Hpart : lenZ (filter (fun i => memZ i pref) avail) + lenZ avail' = lenZ avail)
      by apply filter_partition_len.
    assert (Hsame : lenZ (filter (fun i => memZ i pref) avail) = lenZ pref).
    { unfold lenZ. f_equal. apply Permutation_length. apply NoDup_Permutation; [apply NoDup_filter; exact Hav|exact Hpnd|].
      intros x. rewrite filter_In, memZ_In. split; [tauto|]. intros Hx. split; [apply Hpref; exact Hx|exact Hx]. }
    assert (Hav'nd : NoDup avail') by (apply NoDup_filter; exact Hav).
    assert (Hav'T : incl avail' (map cid (c_topo c))) by (intros x Hx; apply Hinc; apply filter_In in Hx; tauto).
    pose proof (take_cpus_complete c avail' allocated (n - lenZ r) bind HT) as Hc2.
    rewrite (kept_len _ _ HT Hav'nd Hav'T) in Hc2. specialize (Hc2 ltac:(lia)).
    destruct (take_cpus c avail' allocated (n - lenZ r) bind); [discriminate|congruence].
Qed.

(* ------------------------------------------------------------------ sorting the observable *)
Definition sortZ (l : list Z) : list Z := sort_by Z.leb l.

Lemma sortZ_perm l : Permutation (sortZ l) l.
Proof. apply sort_by_perm. Qed.

Lemma sortZ_sorted l : StronglySorted Z.le (sortZ l).
Proof. exact (sort_by_sorted (fun x : Z => x) l). Qed.

Lemma sorted_NoDup_strict l : StronglySorted Z.le l -> NoDup l -> strictly_asc l = true.
Proof.
  induction 1 as [|x l Hs IH Hall]; intros Hnd; [reflexivity|].
  inversion Hnd as [|? ? Hx Hnd']; subst. cbn [strictly_asc]. destruct l as [|y l]; [reflexivity|].
  apply andb_true_iff. split; [|apply IH; exact Hnd'].
  apply Z.ltb_lt. rewrite Forall_forall in Hall. specialize (Hall y (or_introl eq_refl)).
  assert (x <> y) by (intros E; apply Hx; left; auto). lia.
Qed.

Lemma incl_subsetb a b : incl a b -> subsetb a b = true.
Proof. intros H. unfold subsetb. apply forallb_forall. intros x Hx. apply memZ_In. apply H. exact Hx. Qed.

Lemma NoDup_nodupb l : NoDup l -> nodupb l = true.
Proof.
  induction 1 as [|x l Hx Hnd IH]; [reflexivity|]. cbn [nodupb]. apply andb_true_iff. split; [|exact IH].
  apply negb_true_iff. apply memZ_false. exact Hx.
Qed.

Lemma cores_wholeb_complete T s : cores_whole T s -> cores_wholeb T s = true.
Proof.
  unfold cores_whole, cores_wholeb. intros H. apply forallb_forall. intros x Hx.
  destruct (memZ (ccore x) (map (core_of T) s)) eqn:E; cbn [negb orb]; [|reflexivity].
  apply memZ_In. apply H; [exact Hx|apply memZ_In; exact E].
Qed.

Lemma cores_whole_perm T s s' : Permutation s s' -> cores_whole T s -> cores_whole T s'.
Proof.
  intros Hp H x Hx Hc. apply (Permutation_in _ Hp). apply H; [exact Hx|].
  eapply Permutation_in; [apply Permutation_map; apply Permutation_sym; exact Hp|exact Hc].
Qed.

(* ------------------------------------------------------------------ the model passes its own check *)
Lemma take_model_passes c avail preferred allocated n bind :
  NoDup (map cid (c_topo c)) -> NoDup avail -> incl avail (map cid (c_topo c)) ->
  match take_preferred c avail preferred allocated n bind with
  | Some s => take_code (c_topo c) avail n (Some (sortZ s))
                        (determine_full (c_topo c) s) (determine_spread (c_topo c) s) = 0
  | None => take_code (c_topo c) avail n None false false = 0
  end.
Proof.
  intros HT Hav Hinc. set (T := c_topo c) in *.
  destruct (take_preferred c avail preferred allocated n bind) as [s|] eqn:E.
  - destruct (take_preferred_spec c _ _ _ _ _ _ HT E) as [S1 [S2 [S3 S5]]].
    pose proof (sortZ_perm s) as Hp.
    assert (Hnd : NoDup (sortZ s)) by (eapply Permutation_NoDup; [apply Permutation_sym; exact Hp|exact S1]).
    unfold take_code.
    rewrite (sorted_NoDup_strict _ (sortZ_sorted s) Hnd). cbn [negb].
    rewrite (incl_subsetb (sortZ s) avail) by (intros x Hx; apply S2; eapply Permutation_in; [exact Hp|exact Hx]).
    cbn [negb].
    assert (Hlen : lenZ (sortZ s) = lenZ s) by (unfold lenZ; f_equal; apply Permutation_length; exact Hp).
    rewrite Hlen, S5, Z.eqb_refl. cbn [negb].
    assert (H4 : determine_full T s && uniform_topo T && negb (cores_wholeb T (sortZ s)) = false).
    { destruct (determine_full T s) eqn:Ef; [|reflexivity].
      destruct (uniform_topo T) eqn:Eu; [|reflexivity]. cbn [andb]. apply negb_false_iff.
      apply cores_wholeb_complete. apply (cores_whole_perm T s); [apply Permutation_sym; exact Hp|].
      apply full_sound; assumption. }
    rewrite H4.
    assert (H5 : determine_spread T s && negb (cores_distinctb T (sortZ s)) = false).
    { destruct (determine_spread T s) eqn:Es; [|reflexivity]. cbn [andb]. apply negb_false_iff.
      unfold cores_distinctb. apply NoDup_nodupb.
      eapply Permutation_NoDup; [apply Permutation_map; apply Permutation_sym; exact Hp|].
      apply spread_sound; assumption. }
    rewrite H5. reflexivity.
  - unfold take_code.
    destruct (n <=? lenZ (filter (fun i => memZ i (map cid T)) avail)) eqn:En; [|reflexivity].
    exfalso. apply Z.leb_le in En.
    rewrite (filter_all_true (fun i => memZ i (map cid T)) avail) in En
      by (intros x Hx; apply memZ_In; apply Hinc; exact Hx).
    exact (take_preferred_complete c avail preferred allocated n bind HT Hav Hinc En E).
Qed.
