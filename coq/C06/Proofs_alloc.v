(* C06 — takeCPUs / takePreferredCPUs at the level of their results, the FullPCPUs overshoot
   witness, and the bind-policy verdicts. *)
From Coq Require Import List ZArith Bool Lia Permutation.
From Verif Require Import C06.Model C06.OldModel C06.Spec C06.Proofs_base C06.Proofs_gen C06.Proofs_take C06.Proofs_take2.
Import ListNotations.
Open Scope Z_scope.

(* ------------------------------------------------------------------ takeCPUs *)
Lemma take_cpus_spec c avail allocated n bind s :
  NoDup (map cid (c_topo c)) ->
  take_cpus c avail allocated n bind = Some s ->
  NoDup s /\ incl s avail /\ incl s (map cid (c_topo c)) /\ lenZ s = Z.max 0 n.
Proof.
  intros HT H. unfold take_cpus in H.
  destruct (take_cpus_acc c avail allocated n bind) as [a|] eqn:E; [|discriminate].
  cbn [option_map] in H. inversion H; subst s.
  destruct (take_cpus_acc_spec c avail allocated n bind a HT E) as [H1 [H2 [H3 [H4 H5]]]].
  splits; auto.
  - intros x Hx. apply H2 in Hx. apply in_map_iff in Hx. destruct Hx as [y [Ey Hy]].
    apply filter_In in Hy. destruct Hy as [_ Hy]. apply memZ_In in Hy. congruence.
  - intros x Hx. apply H2 in Hx. apply in_map_iff in Hx. destruct Hx as [y [Ey Hy]].
    apply filter_In in Hy. destruct Hy as [Hy _]. apply in_map_iff. exists y. auto.
Qed.

Lemma take_cpus_complete c avail allocated n bind :
  NoDup (map cid (c_topo c)) ->
  n <= lenZ (filter (fun x => memZ (cid x) avail) (c_topo c)) ->
  take_cpus c avail allocated n bind <> None.
Proof.
  intros HT Hle. unfold take_cpus.
  pose proof (take_cpus_acc_complete c avail allocated n bind HT Hle) as H.
  destruct (take_cpus_acc c avail allocated n bind); [discriminate|congruence].
Qed.

(* a failure means that fewer CPUs than requested were free *)
Lemma take_cpus_fail c avail allocated n bind :
  NoDup (map cid (c_topo c)) ->
  take_cpus c avail allocated n bind = None ->
  lenZ (filter (fun x => memZ (cid x) avail) (c_topo c)) < n.
Proof.
  intros HT H. destruct (Z.lt_ge_cases (lenZ (filter (fun x => memZ (cid x) avail) (c_topo c))) n) as [Hlt|Hge];
    [exact Hlt|]. exfalso. apply (take_cpus_complete c avail allocated n bind HT); [lia|exact H].
Qed.

(* ------------------------------------------------------------------ the overshoot before 43d7136 *)
(* 3 sockets x 4 cores x 2 threads, two cores of every socket already taken, 7 CPUs
   requested with FullPCPUs: the old socket loop returned 8 CPUs, the current one 7 *)
Definition overshoot_topo : topo :=
  map (fun i => let z := Z.of_nat i in mkCpu z ((z / 8) * 65536 + z / 2) (z / 8) (z / 8)) (seq 0 24).
Definition overshoot_avail : list Z := [4; 5; 6; 7; 12; 13; 14; 15; 20; 21; 22; 23].

Lemma take_overshoot_old :
  take_cpus_old (mkCfg overshoot_topo 1 0 true) overshoot_avail [] 7 1
  = Some [4; 5; 6; 7; 12; 13; 20; 21].
Proof. vm_compute. reflexivity. Qed.

Lemma take_overshoot_fixed :
  take_cpus (mkCfg overshoot_topo 1 0 true) overshoot_avail [] 7 1
  = Some [4; 5; 6; 7; 12; 13; 14].
Proof. vm_compute. reflexivity. Qed.

(* ------------------------------------------------------------------ takePreferredCPUs *)
Lemma take_preferred_nil c avail allocated n bind :
  take_preferred c avail [] allocated n bind
  = if 0 <? n then option_map (set_union []) (take_cpus c avail allocated n bind) else Some [].
Proof.
  unfold take_preferred.
  assert (Hf : filter (fun i => memZ i []) avail = []).
  { induction avail as [|x l IH]; cbn [filter memZ existsb]; auto. }
  rewrite Hf. destruct (0 <? n); [|reflexivity].
  destruct (take_cpus c avail allocated n bind); reflexivity.
Qed.

Lemma take_stage2 c avail allocated n bind res n' av2 s :
  NoDup (map cid (c_topo c)) ->
  NoDup res -> incl res avail -> incl res (map cid (c_topo c)) ->
  incl av2 avail -> (forall x, In x av2 -> ~ In x res) ->
  n' = n - lenZ res ->
  (n' <= 0 -> lenZ res = Z.max 0 n) ->
  (if 0 <? n'
   then match take_cpus c av2 allocated n' bind with
        | None => None
        | Some cpus => Some (set_union res cpus)
        end
   else Some res) = Some s ->
  NoDup s /\ incl s avail /\ incl s (map cid (c_topo c)) /\ lenZ s = Z.max 0 n.
Proof.
  intros HT R1 R2 R3 Hav2 Hdis2 R4 R6 H.
  destruct (0 <? n') eqn:En.
  - apply Z.ltb_lt in En.
    destruct (take_cpus c av2 allocated n' bind) as [cpus|] eqn:E2; [|discriminate].
    inversion H; subst s.
    destruct (take_cpus_spec c _ allocated _ bind cpus HT E2) as [H1 [H2 [H3 H5]]].
    assert (Hd : forall x, In x cpus -> ~ In x res) by (intros x Hx; apply Hdis2; apply H2; exact Hx).
    rewrite (set_union_disjoint _ _ H1 Hd). splits.
    + apply NoDup_app_intro; auto. intros x Hx Hx'. exact (Hd x Hx' Hx).
    + intros x Hx. apply in_app_or in Hx. destruct Hx as [Hx|Hx]; [apply R2; exact Hx|apply Hav2; apply H2; exact Hx].
    + intros x Hx. apply in_app_or in Hx. destruct Hx as [Hx|Hx]; auto.
    + rewrite lenZ_app, H5. pose proof (lenZ_nonneg res). lia.
  - apply Z.ltb_ge in En. inversion H; subst s. splits; auto.
Qed.

Lemma take_preferred_spec c avail preferred allocated n bind s :
  NoDup (map cid (c_topo c)) ->
  take_preferred c avail preferred allocated n bind = Some s ->
  NoDup s /\ incl s avail /\ incl s (map cid (c_topo c)) /\ lenZ s = Z.max 0 n.
Proof.
  intros HT H. unfold take_preferred in H.
  destruct (filter (fun i => memZ i preferred) avail) as [|p0 pref0] eqn:Ep.
  - apply (take_stage2 c avail allocated n bind [] n avail s HT).
    + constructor.
    + intros x [].
    + intros x [].
    + apply incl_refl.
    + intros x _ [].
    + cbn. lia.
    + intros Hle. cbn. lia.
    + exact H.
  - set (pref := p0 :: pref0) in *.
    assert (Hpref : incl pref avail).
    { intros x Hx. rewrite <- Ep in Hx. apply filter_In in Hx. tauto. }
    destruct (take_cpus c pref allocated (Z.min n (lenZ pref)) bind) as [r|] eqn:E; [|discriminate].
    destruct (take_cpus_spec c _ allocated _ bind r HT E) as [H1 [H2 [H3 H5]]].
    pose proof (lenZ_nonneg pref) as Hp0.
    eapply (take_stage2 c avail allocated n bind r (n - lenZ r)
              (filter (fun i => negb (memZ i pref)) avail) s HT); try exact H; auto.
    + intros x Hx. apply Hpref. apply H2. exact Hx.
    + intros x Hx. apply filter_In in Hx. tauto.
    + intros x Hx Hr. apply filter_In in Hx. destruct Hx as [_ Hx]. apply negb_true_iff in Hx.
      apply memZ_false in Hx. apply Hx. apply H2. exact Hr.
    + intros Hle. lia.
Qed.

(* ------------------------------------------------------------------ bind policies *)
Lemma find_cpu_In T x : NoDup (map cid T) -> In x T -> find_cpu T (cid x) = x.
Proof.
  intros Hnd Hx. unfold find_cpu.
  destruct (find (fun c => cid c =? cid x) T) as [y|] eqn:E.
  - apply find_some in E. destruct E as [Hy E]. apply Z.eqb_eq in E.
    apply (NoDup_map_inj cid T y x Hnd Hy Hx E).
  - exfalso. pose proof (find_none _ _ E x Hx) as Hn. cbn in Hn. rewrite Z.eqb_refl in Hn. discriminate.
Qed.

Lemma filter_len_all {A} (f : A -> bool) l : lenZ (filter f l) = lenZ l -> forall x, In x l -> f x = true.
Proof.
  induction l as [|y l IH]; intros H x Hx; [destruct Hx|]. cbn [filter] in H.
  pose proof (lenZ_filter_le f l) as Hle.
  destruct (f y) eqn:E; rewrite ?lenZ_cons in H.
  - destruct Hx as [Hx|Hx]; [subst; exact E|apply IH; [lia|exact Hx]].
  - lia.
Qed.

Lemma dedup_len_NoDup l : lenZ (dedup l) = lenZ l -> NoDup l.
Proof.
  induction l as [|x l IH]; intros H; [constructor|]. cbn [dedup] in H. rewrite !lenZ_cons in H.
  pose proof (lenZ_filter_le (fun y => negb (y =? x)) (dedup l)) as H1.
  pose proof (dedup_len_le l) as H2.
  constructor.
  - intros Hx. apply (proj2 (dedup_In x l)) in Hx.
    assert (Hall := filter_len_all (fun y => negb (y =? x)) (dedup l) ltac:(lia) x Hx).
    cbn in Hall. rewrite Z.eqb_refl in Hall. discriminate.
  - apply IH. lia.
Qed.

(* the CPUs of the topology that belong to the set, as a permutation of the set *)
Lemma kept_perm T s :
  NoDup (map cid T) -> NoDup s -> incl s (map cid T) ->
  Permutation (map cid (filter (fun x => memZ (cid x) s) T)) s.
Proof.
  intros HT Hs Hinc. apply NoDup_Permutation; [apply NoDup_map_filter; exact HT|exact Hs|].
  intros i. rewrite in_map_iff. split.
  - intros [x [E Hx]]. apply filter_In in Hx. destruct Hx as [_ Hx]. apply memZ_In in Hx. congruence.
  - intros Hi. pose proof (Hinc i Hi) as Hi'. apply in_map_iff in Hi'. destruct Hi' as [x [E Hx]].
    exists x. split; [exact E|]. apply filter_In. split; [exact Hx|]. apply memZ_In. congruence.
Qed.

Lemma cores_of_kept T s :
  NoDup (map cid T) ->
  map (core_of T) (map cid (filter (fun x => memZ (cid x) s) T))
  = map ccore (filter (fun x => memZ (cid x) s) T).
Proof.
  intros HT. rewrite map_map. apply map_ext_in. intros x Hx. apply filter_In in Hx.
  unfold core_of. rewrite find_cpu_In; tauto.
Qed.

(* SpreadByPCPUs reported satisfied: no two CPUs of the set share a physical core *)
Lemma spread_sound T s :
  NoDup (map cid T) -> NoDup s -> incl s (map cid T) ->
  determine_spread T s = true -> cores_distinct T s.
Proof.
  intros HT Hs Hinc H. unfold determine_spread, cores_of in H. apply Z.eqb_eq in H.
  pose proof (kept_perm T s HT Hs Hinc) as Hp.
  set (K := filter (fun x => memZ (cid x) s) T) in *.
  assert (Hlen : lenZ (map ccore K) = lenZ s).
  { rewrite lenZ_map, <- (lenZ_map cid K). unfold lenZ. f_equal. apply Permutation_length. exact Hp. }
  assert (Hnd : NoDup (map ccore K)) by (apply dedup_len_NoDup; lia).
  unfold cores_distinct.
  eapply Permutation_NoDup; [apply Permutation_map; exact Hp|].
  unfold K. rewrite cores_of_kept by exact HT. exact Hnd.
Qed.

Lemma sum_all_max {K} (f : K -> Z) (m : Z) : forall ks,
  (forall k, In k ks -> f k <= m) ->
  sumZ (map f ks) = m * lenZ ks -> forall k, In k ks -> f k = m.
Proof.
  induction ks as [|k0 ks IH]; intros Hle Hsum k Hk; [destruct Hk|].
  cbn [map sumZ fold_right] in Hsum. fold (sumZ (map f ks)) in Hsum. rewrite lenZ_cons in Hsum.
  assert (H0 : f k0 <= m) by (apply Hle; left; reflexivity).
  assert (H1 : sumZ (map f ks) <= m * lenZ ks).
  { clear - Hle. induction ks as [|k1 ks IH]; [cbn; lia|].
    cbn [map sumZ fold_right]. fold (sumZ (map f ks)). rewrite lenZ_cons.
    assert (f k1 <= m) by (apply Hle; right; left; reflexivity).
    assert (sumZ (map f ks) <= m * lenZ ks).
    { apply IH. intros k [Hk|Hk]; apply Hle; [left; exact Hk|right; right; exact Hk]. }
    lia. }
  destruct Hk as [Hk|Hk]; [subst; lia|].
  apply IH; [intros k' Hk'; apply Hle; right; exact Hk'|lia|exact Hk].
Qed.

Lemma flat_map_len_sum {K A} (h : K -> list A) : forall ks,
  lenZ (flat_map h ks) = sumZ (map (fun k => lenZ (h k)) ks).
Proof.
  induction ks as [|k ks IH]; [reflexivity|]. cbn [flat_map map sumZ fold_right].
  rewrite lenZ_app, IH. reflexivity.
Qed.

(* FullPCPUs reported satisfied on a uniform topology: every touched core is whole *)
Lemma full_sound T s :
  NoDup (map cid T) -> uniform_topo T = true -> NoDup s -> incl s (map cid T) ->
  determine_full T s = true -> cores_whole T s.
Proof.
  intros HT Hu Hs Hinc H. unfold determine_full, cores_of in H. apply Z.eqb_eq in H.
  pose proof (kept_perm T s HT Hs Hinc) as Hp.
  set (K := filter (fun x => memZ (cid x) s) T) in *.
  set (C := dedup (map ccore K)) in *.
  assert (HlenK : lenZ K = lenZ s).
  { rewrite <- (lenZ_map cid K). unfold lenZ. f_equal. apply Permutation_length. exact Hp. }
  assert (Hpart : lenZ K = sumZ (map (fun k => lenZ (filter (fun e => ccore e =? k) K)) C)).
  { rewrite <- flat_map_len_sum. unfold lenZ. f_equal. apply Permutation_length. apply Permutation_sym.
    apply group_partition_all. }
  assert (HKT : forall x, In x K -> In x T) by (intros x Hx; apply filter_In in Hx; tauto).
  assert (HndT : NoDup T) by (eapply NoDup_map_inv; exact HT).
  assert (Hcore_len : forall k, In k C -> lenZ (filter (fun e => ccore e =? k) T) = cpc T).
  { intros k Hk. unfold C in Hk. apply (proj1 (dedup_In _ _)) in Hk. apply in_map_iff in Hk. destruct Hk as [x [E Hx]].
    unfold uniform_topo in Hu. rewrite forallb_forall in Hu. specialize (Hu x (HKT x Hx)).
    apply Z.eqb_eq in Hu. subst k. exact Hu. }
  assert (Hle : forall k, In k C -> lenZ (filter (fun e => ccore e =? k) K) <= cpc T).
  { intros k Hk. rewrite <- (Hcore_len k Hk). unfold lenZ. apply inj_le. apply NoDup_incl_length.
    - apply NoDup_filter. apply NoDup_filter. exact HndT.
    - intros x Hx. apply filter_In in Hx. apply filter_In. split; [apply HKT; tauto|tauto]. }
  assert (Hall : forall k, In k C -> lenZ (filter (fun e => ccore e =? k) K) = cpc T).
  { apply sum_all_max; [exact Hle|]. lia. }
  intros x Hx Hc.
  assert (HxC : In (ccore x) C).
  { unfold C. apply dedup_In. apply in_map_iff in Hc. destruct Hc as [i [E Hi]].
    pose proof (Hinc i Hi) as Hi'. apply in_map_iff in Hi'. destruct Hi' as [y [Ey Hy]].
    apply in_map_iff. exists y. split.
    - rewrite <- E. unfold core_of. rewrite <- Ey. rewrite find_cpu_In; auto.
    - apply filter_In. split; [exact Hy|]. apply memZ_In. congruence. }
  (* the kept CPUs of this core are all CPUs of this core *)
  assert (Hincl : incl (filter (fun e => ccore e =? ccore x) T) (filter (fun e => ccore e =? ccore x) K)).
  { apply NoDup_length_incl.
    - apply NoDup_filter. apply NoDup_filter. exact HndT.
    - pose proof (Hall _ HxC) as E1. pose proof (Hcore_len _ HxC) as E2. unfold lenZ in *. lia.
    - intros y Hy. apply filter_In in Hy. apply filter_In. split; [apply HKT; tauto|tauto]. }
  assert (HxK : In x (filter (fun e => ccore e =? ccore x) K)).
  { apply Hincl. apply filter_In. split; [exact Hx|apply Z.eqb_refl]. }
  apply filter_In in HxK. destruct HxK as [HxK _]. apply filter_In in HxK. destruct HxK as [_ HxK].
  apply memZ_In. exact HxK.
Qed.
