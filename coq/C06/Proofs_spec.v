(* C06 — (1) Allocate hands out exactly the requested NUMA amounts; (2) soundness of the
   decision procedures of Spec.v with respect to the Props they decide. *)
From Coq Require Import List ZArith Bool Lia Permutation Sorting.Sorted.
From Verif Require Import C06.Model C06.Spec C06.Proofs_base C06.Proofs_numa C06.Proofs_ledger
  C06.Proofs_take C06.Proofs_alloc C06.Proofs_hist.
Import ListNotations.
Open Scope Z_scope.

(* ------------------------------------------------------------------ exact NUMA sums *)
Lemma dist_loop_nodes : forall nodes kind k q m r q',
  dist_loop kind k q m nodes = (r, q') -> map fst r = map fst nodes.
Proof.
  induction nodes as [|[nd av] t IH]; intros kind k q m r q' H; cbn [dist_loop] in H.
  - inversion H; subst. reflexivity.
  - destruct (dist_loop kind k (q - Z.min av (split kind k q m)) (m - 1) t) as [r1 q1] eqn:E.
    inversion H; subst. cbn [map fst]. f_equal. eapply IH. exact E.
Qed.

Lemma sum_lookup (l : list (Z * Z)) ks :
  NoDup (map fst l) -> Permutation (map fst l) ks ->
  sumZ (map (fun k => lookupZ k l) ks) = sumZ (map snd l).
Proof.
  intros Hnd Hp.
  rewrite <- (sumZ_perm _ _ (Permutation_map (fun k => lookupZ k l) Hp)).
  rewrite map_map. f_equal. apply map_ext_in. intros [k v] Hin. cbn [fst snd].
  apply lookupZ_In; assumption.
Qed.

Lemma distribute1_slots_sum kind k req (f : Z -> Z) hint rc :
  NoDup hint ->
  distribute1 kind k req (map (fun nd => (nd, f nd)) hint) = (rc, 0) ->
  sumZ (map (fun nd => lookupZ nd rc) hint) = req.
Proof.
  intros Hh H. unfold distribute1 in H.
  pose proof (dist_loop_nodes _ _ _ _ _ _ _ H) as Hn.
  pose proof (dist_loop_sum _ _ _ _ _ _ _ H) as Hs.
  set (hav := map (fun nd => (nd, f nd)) hint) in *.
  assert (Hp : Permutation (map fst rc) hint).
  { rewrite Hn. eapply perm_trans; [apply Permutation_map; apply sort_by_perm|].
    unfold hav. rewrite map_map. cbn [fst]. rewrite map_id. apply Permutation_refl. }
  rewrite (sum_lookup rc hint); [lia| |exact Hp].
  eapply Permutation_NoDup; [apply Permutation_sym; exact Hp|exact Hh].
Qed.

Lemma sum_res_slots (a b : Z -> Z) : forall hint,
  sum_res (filter (fun e => negb ((fst (snd e) =? 0) && (snd (snd e) =? 0)))
                  (map (fun nd => (nd, (a nd, b nd))) hint))
  = (sumZ (map a hint), sumZ (map b hint)).
Proof.
  induction hint as [|h t IH]; [reflexivity|]. cbn [map filter fst snd].
  destruct (negb ((a h =? 0) && (b h =? 0))) eqn:E.
  - cbn [sum_res fold_right fst snd]. fold (sum_res (filter (fun e => negb ((fst (snd e) =? 0) && (snd (snd e) =? 0)))
                                                            (map (fun nd => (nd, (a nd, b nd))) t))).
    rewrite IH. reflexivity.
  - apply negb_false_iff in E. apply andb_true_iff in E. destruct E as [E1 E2].
    apply Z.eqb_eq in E1. apply Z.eqb_eq in E2. rewrite IH. cbn [map sumZ fold_right].
    apply res2_eq; cbn [fst snd]; unfold sumZ; lia.
Qed.

(* tryBestToDistributeEvenly inside Allocate: exactly the requested amount of every requested
   resource is handed out *)
Lemma distribute_exact o rq hint av nr :
  NoDup hint -> distribute o rq hint av = Some nr ->
  (0 <= r_cpu rq -> fst (sum_res nr) = r_cpu rq)
  /\ (0 <= r_mem rq -> snd (sum_res nr) = r_mem rq).
Proof.
  intros Hh H. unfold distribute in H.
  match type of H with (let '(_, _) := ?X in _) = _ => destruct X as [rc qc] eqn:Ec end.
  match type of H with (let '(_, _) := ?X in _) = _ => destruct X as [rm qm] eqn:Em end.
  cbv beta iota in H.
  destruct (negb (qc =? 0) || negb (qm =? 0)) eqn:Eq; [discriminate|].
  apply orb_false_iff in Eq. destruct Eq as [Eq1 Eq2].
  apply negb_false_iff in Eq1. apply negb_false_iff in Eq2. apply Z.eqb_eq in Eq1. apply Z.eqb_eq in Eq2.
  subst qc qm. inversion H; subst nr. clear H.
  rewrite (sum_res_slots (fun nd => lookupZ nd rc) (fun nd => lookupZ nd rm) hint). cbn [fst snd].
  split; intros Hreq.
  - destruct (r_cpu rq <? 0) eqn:E; [apply Z.ltb_lt in E; lia|].
    eapply (distribute1_slots_sum _ _ _ (fun nd => fst (lookup_res nd av))); [exact Hh|exact Ec].
  - destruct (r_mem rq <? 0) eqn:E; [apply Z.ltb_lt in E; lia|].
    eapply (distribute1_slots_sum _ _ _ (fun nd => snd (lookup_res nd av))); [exact Hh|exact Em].
Qed.

Lemma allocate_numa_exact o st rq p hint :
  r_hint rq = Some hint -> NoDup hint ->
  allocate o st rq = Some p ->
  (0 <= r_cpu rq -> fst (sum_res (p_numa p)) = r_cpu rq)
  /\ (0 <= r_mem rq -> snd (sum_res (p_numa p)) = r_mem rq)
  /\ (forall e, In e (p_numa p) -> In (fst e) hint)
  /\ (forall nd, rle (numa_sum (p_numa p) nd) (lookup_res nd (numa_avail o st))).
Proof.
  intros Eh Hh H.
  assert (Hw : match r_hint rq with Some h => NoDup h | None => True end) by (rewrite Eh; exact Hh).
  destruct (allocate_spec o st rq p Hw H) as [_ [_ [A3 _]]].
  unfold allocate in H. rewrite Eh in H.
  assert (Hd : exists nr, distribute o rq hint (trim o st rq (numa_avail o st)) = Some nr /\ p_numa p = nr).
  { destruct (o_cap o); [discriminate|].
    destruct (distribute o rq hint (trim o st rq (numa_avail o st))) as [nr|]; [|discriminate].
    exists nr. split; [reflexivity|].
    destruct (r_bindreq rq); [destruct (allocate_cpuset o st rq nr); [|discriminate]|]; inversion H; reflexivity. }
  destruct Hd as [nr [Hd Hp]]. rewrite Hp in *.
  destruct (distribute_exact o rq hint _ nr Hh Hd) as [E1 E2].
  destruct (trim_spec o st rq (numa_avail o st) (numa_avail_nonneg o st)) as [T1 _].
  destruct (distribute_spec o rq hint _ nr Hh T1 Hd) as [_ [_ D3]].
  splits; auto.
Qed.

(* ------------------------------------------------------------------ soundness of the deciders *)
Lemma strictly_asc_lt : forall l x, strictly_asc (x :: l) = true -> forall y, In y l -> x < y.
Proof.
  induction l as [|z l IH]; intros x H y Hy; [destruct Hy|].
  cbn [strictly_asc] in H. apply andb_true_iff in H. destruct H as [H1 H2]. apply Z.ltb_lt in H1.
  destruct Hy as [Hy|Hy]; [subst; exact H1|].
  assert (z < y) by (apply IH; assumption). lia.
Qed.

Lemma strictly_asc_tail x l : strictly_asc (x :: l) = true -> strictly_asc l = true.
Proof.
  destruct l as [|z l]; [reflexivity|]. cbn [strictly_asc]. intros H. apply andb_true_iff in H. tauto.
Qed.

Lemma strictly_asc_NoDup l : strictly_asc l = true -> NoDup l.
Proof.
  induction l as [|x l IH]; intros H; constructor.
  - intros Hx. pose proof (strictly_asc_lt l x H x Hx). lia.
  - apply IH. eapply strictly_asc_tail. exact H.
Qed.

Lemma subsetb_incl a b : subsetb a b = true -> incl a b.
Proof.
  unfold subsetb. rewrite forallb_forall. intros H x Hx. apply memZ_In. apply H. exact Hx.
Qed.

Lemma nodupb_NoDup l : nodupb l = true -> NoDup l.
Proof.
  induction l as [|x l IH]; intros H; constructor; cbn [nodupb] in H; apply andb_true_iff in H; destruct H as [H1 H2].
  - apply negb_true_iff in H1. apply memZ_false. exact H1.
  - apply IH. exact H2.
Qed.

Lemma cores_wholeb_sound T s : cores_wholeb T s = true -> cores_whole T s.
Proof.
  unfold cores_wholeb, cores_whole. rewrite forallb_forall. intros H x Hx Hc.
  specialize (H x Hx). apply orb_true_iff in H. destruct H as [H|H].
  - apply negb_true_iff in H. apply memZ_false in H. contradiction.
  - apply memZ_In. exact H.
Qed.

(* what a zero verdict of [take_code] on an observed success means *)
Lemma take_code_sound T avail n s sf ss :
  take_code T avail n (Some s) sf ss = 0 ->
  take_ok avail n s
  /\ (sf = true -> uniform_topo T = true -> cores_whole T s)
  /\ (ss = true -> cores_distinct T s).
Proof.
  unfold take_code. intros H.
  destruct (negb (strictly_asc s)) eqn:E1; [discriminate|]. apply negb_false_iff in E1.
  destruct (negb (subsetb s avail)) eqn:E2; [discriminate|]. apply negb_false_iff in E2.
  destruct (negb (lenZ s =? Z.max 0 n)) eqn:E3; [discriminate|]. apply negb_false_iff in E3. apply Z.eqb_eq in E3.
  destruct (sf && uniform_topo T && negb (cores_wholeb T s)) eqn:E4; [discriminate|].
  destruct (ss && negb (cores_distinctb T s)) eqn:E5; [discriminate|].
  split; [split; [apply strictly_asc_NoDup; exact E1|split; [apply subsetb_incl; exact E2|exact E3]]|].
  split.
  - intros Hsf Hu. rewrite Hsf, Hu in E4. cbn [andb] in E4. apply negb_false_iff in E4.
    apply cores_wholeb_sound. exact E4.
  - intros Hss. rewrite Hss in E5. cbn [andb] in E5. apply negb_false_iff in E5.
    unfold cores_distinct. apply nodupb_NoDup. exact E5.
Qed.

(* and on an observed failure: fewer CPUs of the topology were free than requested *)
Lemma take_code_sound_fail T avail n sf ss :
  take_code T avail n None sf ss = 0 -> lenZ (filter (fun i => memZ i (map cid T)) avail) < n.
Proof.
  unfold take_code. destruct (n <=? lenZ (filter (fun i => memZ i (map cid T)) avail)) eqn:E; [discriminate|].
  intros _. apply Z.leb_gt in E. exact E.
Qed.

(* ------------------------------------------------------------------ required policy, end to end *)
Lemma avail_of_topo o st rq : incl (avail_of o st rq) (map cid (o_topo o)).
Proof.
  unfold avail_of, available. cbn [fst]. intros x Hx. apply filter_In in Hx. tauto.
Qed.

(* a CPU set returned by Allocate under a required bind policy really has the shape the policy
   asks for *)
Lemma allocate_policy_sound o st rq numa s :
  NoDup (map cid (o_topo o)) ->
  allocate_cpuset o st rq numa = Some s -> r_required rq = true ->
  (r_bind rq = 1 -> uniform_topo (o_topo o) = true -> cores_whole (o_topo o) s)
  /\ (r_bind rq = 2 -> cores_distinct (o_topo o) s).
Proof.
  intros HT H Hreq.
  destruct (allocate_cpuset_spec o st rq numa s HT H) as [S1 [S2 [_ S5]]].
  specialize (S5 Hreq).
  assert (Hinc : incl s (map cid (o_topo o))) by (intros x Hx; apply (avail_of_topo o st rq); apply S2; exact Hx).
  unfold satisfied_policy in S5. split.
  - intros Hb Hu. rewrite Hb in S5. cbn in S5. apply full_sound; assumption.
  - intros Hb. rewrite Hb in S5. cbn in S5. apply spread_sound; assumption.
Qed.
