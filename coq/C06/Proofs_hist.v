(* C06 — resourceManager.Allocate on top of the ledger, and the history invariants:
   ledger = sum of the live pods, sharing limit, NUMA capacity. *)
From Coq Require Import List ZArith Bool Lia Permutation.
From Verif Require Import C06.Model C06.OldModel C06.Spec C06.Proofs_base C06.Proofs_numa C06.Proofs_ledger
  C06.Proofs_gen C06.Proofs_take C06.Proofs_take2 C06.Proofs_alloc.
Import ListNotations.
Open Scope Z_scope.

(* ------------------------------------------------------------------ allocateCPUSet *)
Lemma first_per_core_In seen l x : In x (first_per_core seen l) -> In x l.
Proof.
  revert seen. induction l as [|y l IH]; intros seen H; cbn [first_per_core] in H; [destruct H|].
  destruct (memZ (ccore y) seen); [right; eapply IH; exact H|].
  destruct H as [H|H]; [left; exact H|right; eapply IH; exact H].
Qed.

Lemma filter_by_policy_incl bind T avail : incl (filter_by_policy bind T avail) avail.
Proof.
  unfold filter_by_policy. intros i Hi.
  destruct (bind =? 1).
  - apply in_map_iff in Hi. destruct Hi as [x [E Hx]]. apply filter_In in Hx. destruct Hx as [Hx _].
    apply filter_In in Hx. destruct Hx as [_ Hx]. apply memZ_In in Hx. congruence.
  - destruct (bind =? 2); [|exact Hi].
    apply in_map_iff in Hi. destruct Hi as [x [E Hx]]. apply first_per_core_In in Hx.
    apply filter_In in Hx. destruct Hx as [_ Hx]. apply memZ_In in Hx. congruence.
Qed.

Lemma take_per_numa_spec o rq avail allocated : forall numa result s,
  NoDup (map cid (o_topo o)) ->
  take_per_numa o rq avail allocated numa result = Some s ->
  NoDup result -> incl result avail -> NoDup s /\ incl s avail.
Proof.
  induction numa as [|e t IH]; intros result s HT H Hnd Hinc; cbn [take_per_numa] in H.
  - inversion H; subst. auto.
  - set (in_node := filter (fun i => cnode (find_cpu (o_topo o) i) =? fst e)
                           (filter (fun i => memZ i (map cid (o_topo o))) avail)) in *.
    destruct (take_preferred (cfg_of o rq) in_node (r_pref rq) allocated
                (Z.min (lenZ in_node) (fst (snd e) / 1000)) (r_bind rq)) as [cpus|] eqn:E; [|discriminate].
    destruct (take_preferred_spec (cfg_of o rq) _ _ _ _ _ _ HT E) as [H1 [H2 _]].
    apply (IH _ _ HT H).
    + apply set_union_NoDup. exact Hnd.
    + intros x Hx. apply set_union_In in Hx. destruct Hx as [Hx|Hx]; [apply Hinc; exact Hx|].
      apply H2 in Hx. unfold in_node in Hx. apply filter_In in Hx. destruct Hx as [Hx _].
      apply filter_In in Hx. tauto.
Qed.

(* what getAvailableCPUs returns for this request (with its give-back sets) *)
Definition avail_of (o : nopts) (st : lstate) (rq : areq) : list Z :=
  fst (available (o_topo o) (o_maxref o) (o_reserved o) (l_cpus st) (givebacks rq)).

Lemma allocate_cpuset_spec o st rq numa s :
  NoDup (map cid (o_topo o)) ->
  allocate_cpuset o st rq numa = Some s ->
  NoDup s /\ incl s (avail_of o st rq)
  /\ lenZ s = Z.max 0 (r_n rq)
  /\ (r_required rq = true -> satisfied_policy (r_bind rq) (o_topo o) s = true).
Proof.
  intros HT H. unfold allocate_cpuset in H. unfold avail_of.
  destruct (available (o_topo o) (o_maxref o) (o_reserved o) (l_cpus st) (givebacks rq)) as [avail0 allocated] eqn:Ea.
  cbn [fst].
  set (avail := if r_required rq then filter_by_policy (r_bind rq) (o_topo o) avail0 else avail0) in *.
  assert (Hav : incl avail avail0).
  { unfold avail. destruct (r_required rq); [apply filter_by_policy_incl|apply incl_refl]. }
  destruct (lenZ avail <? r_n rq); [discriminate|].
  (* the per-NUMA stage *)
  assert (Hstage : forall result n',
            match numa with
            | [] => Some ([], r_n rq)
            | _ :: _ => match take_per_numa o rq avail allocated numa [] with
                        | Some r => if r_n rq - lenZ r =? 0 then Some (r, 0) else None
                        | None => None
                        end
            end = Some (result, n') ->
            NoDup result /\ incl result avail
            /\ ((numa = [] /\ result = [] /\ n' = r_n rq) \/ (numa <> [] /\ n' = 0 /\ lenZ result = r_n rq))).
  { intros result n' Hs. destruct numa as [|e t].
    - inversion Hs; subst. splits; [constructor|intros x []|left; auto].
    - destruct (take_per_numa o rq avail allocated (e :: t) []) as [r|] eqn:E; [|discriminate].
      destruct (r_n rq - lenZ r =? 0) eqn:E0; [|discriminate]. inversion Hs; subst.
      apply Z.eqb_eq in E0.
      destruct (take_per_numa_spec o rq avail allocated _ _ _ HT E ltac:(constructor) ltac:(intros x [])) as [H1 H2].
      splits; auto. right. splits; [discriminate|reflexivity|lia]. }
  destruct (match numa with
            | [] => Some ([], r_n rq)
            | _ :: _ => match take_per_numa o rq avail allocated numa [] with
                        | Some r => if r_n rq - lenZ r =? 0 then Some (r, 0) else None
                        | None => None
                        end
            end) as [[result n']|] eqn:Es; [|discriminate].
  destruct (Hstage result n' eq_refl) as [R1 [R2 R3]].
  (* the remaining CPUs *)
  assert (Hfinal : forall r,
            (if 0 <? n'
             then match take_preferred (cfg_of o rq) (filter (fun i => negb (memZ i result)) avail) (r_pref rq)
                                       allocated n' (r_bind rq) with
                  | Some cpus => Some (set_union result cpus)
                  | None => None
                  end
             else Some result) = Some r ->
            NoDup r /\ incl r avail /\ lenZ r = Z.max 0 (r_n rq)).
  { intros r Hr. destruct (0 <? n') eqn:En.
    - apply Z.ltb_lt in En.
      destruct R3 as [[N1 [N2 N3]]|[N1 [N2 N3]]]; [|lia]. subst result n'.
      destruct (take_preferred (cfg_of o rq) (filter (fun i => negb (memZ i [])) avail) (r_pref rq) allocated (r_n rq) (r_bind rq))
        as [cpus|] eqn:E; [|discriminate].
      inversion Hr; subst r.
      destruct (take_preferred_spec (cfg_of o rq) _ _ _ _ _ _ HT E) as [H1 [H2 [_ H4]]].
      rewrite set_union_nil_l, (dedup_id _ H1). splits; auto.
      intros x Hx. apply H2 in Hx. apply filter_In in Hx. tauto.
    - apply Z.ltb_ge in En. inversion Hr; subst r.
      destruct R3 as [[N1 [N2 N3]]|[N1 [N2 N3]]].
      + subst. cbn. splits; auto; try lia.
      + pose proof (lenZ_nonneg result). splits; auto; try lia. }
  destruct (if 0 <? n'
            then match take_preferred (cfg_of o rq) (filter (fun i => negb (memZ i result)) avail) (r_pref rq)
                                      allocated n' (r_bind rq) with
                 | Some cpus => Some (set_union result cpus)
                 | None => None
                 end
            else Some result) as [r|] eqn:Ef; [|discriminate].
  destruct (Hfinal r eq_refl) as [F1 [F2 F3]].
  destruct (r_required rq && negb (satisfied_policy (r_bind rq) (o_topo o) r)) eqn:Ep; [discriminate|].
  inversion H; subst s. splits; auto.
  - intros x Hx. apply Hav. apply F2. exact Hx.
  - intros Hreq. rewrite Hreq in Ep. cbn [andb] in Ep. apply negb_false_iff in Ep. exact Ep.
Qed.

(* ------------------------------------------------------------------ NUMA part of Allocate *)
Definition av_nonneg (av : list nres) : Prop := nres_nonneg av.

Lemma lookup_res_nonneg av nd : nres_nonneg av -> rle r0 (lookup_res nd av).
Proof.
  induction av as [|e av IH]; intros H; [cbn; unfold rle, r0; cbn; lia|].
  rewrite lookup_res_cons. destruct (fst e =? nd).
  - destruct (H e (or_introl eq_refl)). unfold rle, r0. cbn. lia.
  - apply IH. intros x Hx. apply H. right. exact Hx.
Qed.

Lemma lookupZ_cases k l : lookupZ k l = 0 \/ In (k, lookupZ k l) l.
Proof.
  induction l as [|[a v] l IH]; [left; reflexivity|]. cbn [lookupZ].
  destruct (a =? k) eqn:E.
  - apply Z.eqb_eq in E. subst. right. left. reflexivity.
  - destruct IH as [IH|IH]; [left; exact IH|right; right; exact IH].
Qed.

Lemma cpc_nonneg T : 0 <= cpc T.
Proof.
  unfold cpc, per. destruct (num_cores T =? 0) eqn:E; [lia|]. apply Z.eqb_neq in E.
  assert (0 <= num_cores T) by apply lenZ_nonneg.
  assert (0 <= num_cpus T) by apply lenZ_nonneg.
  apply Z.div_pos; lia.
Qed.

(* one resource of the split: amounts are non-negative and never above what the node had *)
Lemma distribute1_slot kind k req hav rc q nd (f : Z -> Z) hint :
  hav = map (fun nd => (nd, f nd)) hint ->
  (forall nd, 0 <= f nd) -> 0 <= k -> 0 <= req ->
  distribute1 kind k req hav = (rc, q) -> q = 0 ->
  0 <= lookupZ nd rc <= f nd.
Proof.
  intros Hhav Hf Hk Hreq H Hq. subst q.
  destruct (numa_exact_lemma kind k req hav rc H) as [_ [Hle Hnn]].
  destruct (lookupZ_cases nd rc) as [E|Hin]; [rewrite E; specialize (Hf nd); lia|].
  split.
  - apply (Hnn Hk) with (nd := nd); [| |exact Hin].
    + unfold qinv. destruct ((kind =? 1) || (kind =? 2)); lia.
    + intros p Hp. subst hav. apply in_map_iff in Hp. destruct Hp as [n0 [E _]]. subst p. cbn. apply Hf.
  - destruct (Hle _ _ Hin) as [av' [Ha Hb]]. subst hav. apply in_map_iff in Ha.
    destruct Ha as [n0 [E _]]. inversion E; subst. exact Hb.
Qed.

Lemma numa_sum_slots (P : nres -> bool) (g : Z -> res2) : forall hint nd,
  NoDup hint ->
  numa_sum (filter P (map (fun n0 => (n0, g n0)) hint)) nd
  = if memZ nd hint && P (nd, g nd) then g nd else r0.
Proof.
  induction hint as [|h t IH]; intros nd Hnd; [reflexivity|].
  inversion Hnd as [|? ? Hh Hnd']; subst. cbn [map filter].
  unfold memZ. cbn [existsb]. fold (memZ nd t). rewrite (Z.eqb_sym nd h).
  destruct (P (h, g h)) eqn:EP.
  - cbn [numa_sum fold_right]. fold (numa_sum (filter P (map (fun n0 => (n0, g n0)) t)) nd).
    cbn [fst snd]. rewrite (IH nd Hnd').
    destruct (h =? nd) eqn:E; cbn [orb].
    + apply Z.eqb_eq in E. subst nd. apply memZ_false in Hh. rewrite Hh, EP. cbn [andb].
      apply res2_eq; unfold r0; cbn [fst snd]; lia.
    + reflexivity.
  - rewrite (IH nd Hnd'). destruct (h =? nd) eqn:E; cbn [orb]; [|reflexivity].
    apply Z.eqb_eq in E. subst nd. apply memZ_false in Hh. rewrite Hh, EP. reflexivity.
Qed.

Lemma distribute_spec o rq hint av nr :
  NoDup hint -> nres_nonneg av ->
  distribute o rq hint av = Some nr ->
  nres_nonneg nr
  /\ (forall nd, rle (numa_sum nr nd) (lookup_res nd av))
  /\ (forall e, In e nr -> In (fst e) hint).
Proof.
  intros Hh Hav H. unfold distribute in H.
  set (fc := fun nd => fst (lookup_res nd av)) in *.
  set (fm := fun nd => snd (lookup_res nd av)) in *.
  assert (Hfc : forall nd, 0 <= fc nd) by (intros nd; destruct (lookup_res_nonneg av nd Hav) as [H1 _]; exact H1).
  assert (Hfm : forall nd, 0 <= fm nd) by (intros nd; destruct (lookup_res_nonneg av nd Hav) as [_ H1]; exact H1).
  match type of H with (let '(_, _) := ?X in _) = _ => destruct X as [rc qc] eqn:Ec end.
  match type of H with (let '(_, _) := ?X in _) = _ => destruct X as [rm qm] eqn:Em end.
  cbv beta iota in H.
  destruct (negb (qc =? 0) || negb (qm =? 0)) eqn:Eq; [discriminate|].
  apply orb_false_iff in Eq. destruct Eq as [Eq1 Eq2].
  apply negb_false_iff in Eq1. apply negb_false_iff in Eq2. apply Z.eqb_eq in Eq1. apply Z.eqb_eq in Eq2.
  inversion H; subst nr. clear H.
  assert (Hc : forall nd, 0 <= lookupZ nd rc <= fc nd).
  { intros nd. destruct (r_cpu rq <? 0) eqn:E.
    - inversion Ec; subst. cbn. specialize (Hfc nd). lia.
    - apply Z.ltb_ge in E.
      apply (distribute1_slot _ _ _ _ rc qc nd fc hint eq_refl Hfc (cpc_nonneg _) E Ec Eq1). }
  assert (Hm : forall nd, 0 <= lookupZ nd rm <= fm nd).
  { intros nd. destruct (r_mem rq <? 0) eqn:E.
    - inversion Em; subst. cbn. specialize (Hfm nd). lia.
    - apply Z.ltb_ge in E.
      apply (distribute1_slot 0 1 _ _ rm qm nd fm hint eq_refl Hfm ltac:(lia) E Em Eq2). }
  splits.
  - intros e He. apply filter_In in He. destruct He as [He _]. apply in_map_iff in He.
    destruct He as [nd [E _]]. subst e. cbn [fst snd]. specialize (Hc nd). specialize (Hm nd). lia.
  - intros nd.
    rewrite (numa_sum_slots _ (fun n0 => (lookupZ n0 rc, lookupZ n0 rm)) hint nd Hh).
    specialize (Hc nd). specialize (Hm nd). specialize (Hfc nd). specialize (Hfm nd).
    unfold fc, fm in *.
    destruct (memZ nd hint && _); unfold rle, r0; cbn [fst snd]; lia.
  - intros e He. apply filter_In in He. destruct He as [He _]. apply in_map_iff in He.
    destruct He as [nd [E Hnd]]. subst e. exact Hnd.
Qed.

(* getAvailableNUMANodeResources and trimNUMANodeResources *)
Lemma lookup_res_map_rel (R : res2 -> res2 -> Prop) (f : nres -> nres) l nd :
  (forall e, fst (f e) = fst e) -> (forall e, In e l -> R (snd (f e)) (snd e)) -> R r0 r0 ->
  R (lookup_res nd (map f l)) (lookup_res nd l).
Proof.
  intros Hk HR H0. induction l as [|e l IH]; [exact H0|].
  cbn [map]. rewrite !lookup_res_cons, Hk. destruct (fst e =? nd).
  - apply HR. left. reflexivity.
  - apply IH. intros x Hx. apply HR. right. exact Hx.
Qed.

Lemma numa_avail_nonneg o st : nres_nonneg (numa_avail o st).
Proof.
  unfold numa_avail. intros e He. apply in_map_iff in He. destruct He as [x [E _]]. subst e.
  cbn [fst snd]. lia.
Qed.

Lemma trim_spec o st rq av :
  nres_nonneg av ->
  nres_nonneg (trim o st rq av)
  /\ forall nd, rle (lookup_res nd (trim o st rq av)) (lookup_res nd av).
Proof.
  intros Hav. unfold trim. destruct (negb (r_required rq)).
  - split; [exact Hav|]. intros nd. unfold rle. lia.
  - split.
    + intros e He. apply in_map_iff in He. destruct He as [x [E Hx]]. subst e.
      destruct (Hav x Hx) as [H1 H2].
      destruct (fst (snd x) =? 0); [auto|].
      match goal with |- context [if ?b then _ else _] => destruct b end; cbn [fst snd]; auto.
      split; [|exact H2]. match goal with |- 0 <= lenZ ?l * 1000 => pose proof (lenZ_nonneg l) end. lia.
    + intros nd. apply (lookup_res_map_rel rle).
      * intros e. destruct (fst (snd e) =? 0); [reflexivity|].
        match goal with |- context [if ?b then _ else _] => destruct b end; reflexivity.
      * intros e _. destruct (fst (snd e) =? 0); [unfold rle; lia|].
        match goal with |- context [if ?b then _ else _] => destruct b eqn:Eb end; unfold rle; cbn [fst snd]; [|lia].
        apply Z.ltb_lt in Eb. lia.
      * unfold rle. lia.
Qed.

Lemma lookup_numa_avail o st nd :
  lookup_res nd (numa_avail o st)
  = if has_node nd (o_cap o)
    then (Z.max 0 (fst (lookup_res nd (o_cap o)) - fst (lookup_res nd (l_numa st))),
          Z.max 0 (snd (lookup_res nd (o_cap o)) - snd (lookup_res nd (l_numa st))))
    else r0.
Proof.
  unfold numa_avail. induction (o_cap o) as [|e l IH]; [reflexivity|].
  cbn [map]. rewrite !lookup_res_cons. cbn [fst]. unfold has_node. cbn [existsb]. fold (has_node nd l).
  destruct (fst e =? nd) eqn:E; cbn [orb].
  - apply Z.eqb_eq in E. subst nd. reflexivity.
  - exact IH.
Qed.

(* ------------------------------------------------------------------ Allocate *)
Lemma allocate_spec o st rq p :
  match r_hint rq with Some h => NoDup h | None => True end ->
  allocate o st rq = Some p ->
  p_uid p = r_uid rq
  /\ nres_nonneg (p_numa p)
  /\ (forall nd, rle (numa_sum (p_numa p) nd) (lookup_res nd (numa_avail o st)))
  /\ (r_bindreq rq = false -> p_cpus p = [])
  /\ (r_bindreq rq = true -> allocate_cpuset o st rq (p_numa p) = Some (p_cpus p)).
Proof.
  intros Hh H. unfold allocate in H.
  assert (Hn : forall nr,
            match r_hint rq with
            | Some hint => match o_cap o with
                           | [] => None
                           | _ :: _ => distribute o rq hint (trim o st rq (numa_avail o st))
                           end
            | None => Some []
            end = Some nr ->
            nres_nonneg nr /\ forall nd, rle (numa_sum nr nd) (lookup_res nd (numa_avail o st))).
  { intros nr Hnr. destruct (r_hint rq) as [hint|].
    - assert (Hd : distribute o rq hint (trim o st rq (numa_avail o st)) = Some nr).
      { revert Hnr. destruct (o_cap o); [discriminate|auto]. }
      destruct (trim_spec o st rq (numa_avail o st) (numa_avail_nonneg o st)) as [T1 T2].
      destruct (distribute_spec o rq hint _ nr Hh T1 Hd) as [D1 [D2 _]].
      split; [exact D1|]. intros nd. specialize (D2 nd). specialize (T2 nd). unfold rle in *. lia.
    - inversion Hnr; subst. split; [intros e []|]. intros nd. cbn.
      apply (lookup_res_nonneg _ nd (numa_avail_nonneg o st)). }
  destruct (match r_hint rq with
            | Some hint => match o_cap o with
                           | [] => None
                           | _ :: _ => distribute o rq hint (trim o st rq (numa_avail o st))
                           end
            | None => Some []
            end) as [nr|] eqn:En; [|discriminate].
  destruct (Hn nr eq_refl) as [N1 N2].
  destruct (r_bindreq rq) eqn:Eb.
  - destruct (allocate_cpuset o st rq nr) as [cpus|] eqn:Ec; [|discriminate].
    inversion H; subst p. cbn [p_uid p_numa p_cpus]. splits; auto. discriminate.
  - inversion H; subst p. cbn [p_uid p_numa p_cpus]. splits; auto. discriminate.
Qed.

Lemma allocate_wf o st rq p :
  NoDup (map cid (o_topo o)) ->
  match r_hint rq with Some h => NoDup h | None => True end ->
  allocate o st rq = Some p -> palloc_wf p /\ incl (p_cpus p) (avail_of o st rq).
Proof.
  intros HT Hh H. destruct (allocate_spec o st rq p Hh H) as [_ [A2 [_ [A4 A5]]]].
  destruct (r_bindreq rq).
  - destruct (allocate_cpuset_spec o st rq _ _ HT (A5 eq_refl)) as [C1 [C2 _]].
    split; [split; assumption|exact C2].
  - split; [split; [rewrite (A4 eq_refl); constructor|exact A2]|rewrite (A4 eq_refl); intros x []].
Qed.

(* ------------------------------------------------------------------ histories *)
Record wf_opts (o : nopts) : Prop := {
  wf_ids : NoDup (map cid (o_topo o));
  wf_maxref : 1 <= o_maxref o }.

Definition op_wf (x : op) : Prop :=
  match x with
  | OAlloc rq => match r_hint rq with Some h => NoDup h | None => True end
  | ORelease _ => True
  | OUpdate p => palloc_wf p
  | OAllocR rq _ _ => match r_hint rq with Some h => NoDup h | None => True end
  end.
(* a history of plain scheduling decisions only: no allocation restored from outside and no
   CPUs given back (for those see ghist_limit) *)
Definition op_sched (x : op) : Prop :=
  match x with
  | OUpdate _ => False
  | OAllocR _ _ _ => False
  | OAlloc rq => op_wf x /\ r_pref rq = [] /\ r_preempt rq = []
  | ORelease _ => True
  end.

Lemma run_fold (P : lstate -> Prop) (Q : op -> Prop) o :
  (forall st x, Q x -> P st -> P (fst (step o st x))) ->
  forall ops st, Forall Q ops -> P st -> P (fold_left (fun st x => fst (step o st x)) ops st).
Proof.
  intros Hstep. induction ops as [|x ops IH]; intros st HQ HP; cbn [fold_left]; [exact HP|].
  inversion HQ; subst. apply IH; [assumption|]. apply Hstep; assumption.
Qed.

Lemma step_linv o st x : wf_opts o -> op_wf x -> linv st -> linv (fst (step o st x)).
Proof.
  intros [HT _] Hx Hinv. destruct x as [rq|uid|p|rq host victim]; cbn [step].
  - destruct (allocate o st rq) as [p|] eqn:E; cbn [fst]; [|exact Hinv].
    apply update_inv; [exact Hinv|]. apply (allocate_wf o st rq p HT Hx E).
  - cbn [fst]. apply release_inv. exact Hinv.
  - cbn [fst]. destruct (palloc_empty p); [exact Hinv|]. apply update_inv; assumption.
  - destruct (allocate o st rq) as [p|] eqn:E; cbn [fst]; [|exact Hinv].
    apply update_inv; [|apply (allocate_wf o st rq p HT Hx E)].
    destruct victim; cbn [release_opt]; [apply release_inv|]; exact Hinv.
Qed.

Lemma hist_linv o ops : wf_opts o -> Forall op_wf ops -> linv (run o ops).
Proof.
  intros Ho Hops. unfold run. apply (run_fold linv op_wf o); [|exact Hops|exact linv_init].
  intros st x Hx Hst. apply step_linv; assumption.
Qed.

(* ---- sharing limit ---- *)
Lemma ref_in_entry cs a : NoDup (map aid cs) -> In a cs -> ref_in cs (aid a) = aref a.
Proof.
  induction cs as [|b cs IH]; intros Hnd Ha; [destruct Ha|].
  cbn [map] in Hnd. inversion Hnd as [|? ? Hb Hnd']; subst. rewrite ref_in_cons.
  destruct Ha as [Ha|Ha].
  - subst. rewrite Z.eqb_refl. reflexivity.
  - destruct (aid b =? aid a) eqn:E; [|apply IH; assumption].
    apply Z.eqb_eq in E. exfalso. apply Hb. rewrite E. apply in_map. exact Ha.
Qed.

Lemma avail_ref_lt o st rq i :
  r_pref rq = [] -> r_preempt rq = [] ->
  1 <= o_maxref o -> cs_wf (l_cpus st) -> In i (avail_of o st rq) -> ref_in (l_cpus st) i < o_maxref o.
Proof.
  intros E1 E2 Hm [Hnd Hpos] Hi. unfold avail_of, available, givebacks in Hi. rewrite E1, E2 in Hi.
  cbn [fold_left fst] in Hi.
  apply filter_In in Hi. destruct Hi as [_ Hi]. apply andb_true_iff in Hi. destruct Hi as [Hi _].
  apply negb_true_iff in Hi. apply memZ_false in Hi.
  destruct (has_id i (l_cpus st)) eqn:E.
  - apply has_id_In in E. apply in_map_iff in E. destruct E as [a [Ea Ha]]. subst i.
    rewrite (ref_in_entry _ a Hnd Ha).
    destruct (Z.lt_ge_cases (aref a) (o_maxref o)) as [Hlt|Hge]; [exact Hlt|].
    exfalso. apply Hi. apply in_map. apply filter_In. split; [exact Ha|]. apply Z.leb_le. lia.
  - rewrite ref_in_absent by exact E. lia.
Qed.

Lemma ref_of_pods_filter_le (f : palloc -> bool) ps i : ref_of_pods (filter f ps) i <= ref_of_pods ps i.
Proof.
  unfold ref_of_pods. induction ps as [|q ps IH]; [cbn; lia|]. cbn [filter].
  destruct (f q); cbn [filter]; destruct (memZ i (p_cpus q)); rewrite ?lenZ_cons; lia.
Qed.

Lemma step_limit o st x :
  wf_opts o -> op_sched x ->
  linv st /\ within_limit (o_maxref o) st ->
  linv (fst (step o st x)) /\ within_limit (o_maxref o) (fst (step o st x)).
Proof.
  intros Ho Hx [Hinv Hlim].
  assert (Hwf : op_wf x) by (destruct x; cbn in *; tauto).
  split; [apply step_linv; assumption|].
  destruct Ho as [HT Hm]. destruct x as [rq|uid|p|rq host victim]; cbn [step]; [| |destruct Hx|destruct Hx].
  - destruct Hx as [_ [Ep1 Ep2]].
    destruct (allocate o st rq) as [p|] eqn:E; cbn [fst]; [|exact Hlim].
    destruct (allocate_wf o st rq p HT Hwf E) as [_ Hinc].
    destruct Hinv as [Hcs [_ [_ [Hcpu _]]]].
    intros i. rewrite update_pods, ref_of_pods_app.
    pose proof (ref_of_pods_filter_le (fun q => negb (p_uid q =? p_uid p)) (l_pods st) i) as Hle.
    destruct (memZ i (p_cpus p)) eqn:Em.
    + apply memZ_In in Em. pose proof (avail_ref_lt o st rq i Ep1 Ep2 Hm Hcs (Hinc i Em)) as Hlt.
      rewrite Hcpu in Hlt. lia.
    + specialize (Hlim i). lia.
  - cbn [fst]. intros i. rewrite release_pods.
    pose proof (ref_of_pods_filter_le (fun q => negb (p_uid q =? uid)) (l_pods st) i). specialize (Hlim i). lia.
Qed.

Lemma hist_limit o ops :
  wf_opts o -> Forall op_sched ops -> within_limit (o_maxref o) (run o ops).
Proof.
  intros Ho Hops. unfold run.
  apply (run_fold (fun st => linv st /\ within_limit (o_maxref o) st) op_sched o).
  - intros st x Hx Hst. apply step_limit; assumption.
  - exact Hops.
  - split; [exact linv_init|]. intros i. unfold ref_of_pods. cbn. destruct Ho. lia.
Qed.

(* ---- NUMA capacity ---- *)
Lemma numa_of_pods_filter_le (f : palloc -> bool) ps nd :
  (forall p, In p ps -> palloc_wf p) ->
  rle (numa_of_pods (filter f ps) nd) (numa_of_pods ps nd) /\ rle r0 (numa_of_pods (filter f ps) nd).
Proof.
  unfold numa_of_pods. induction ps as [|q ps IH]; intros Hwf; [cbn; unfold rle, r0; cbn; lia|].
  destruct (IH ltac:(intros p Hp; apply Hwf; right; exact Hp)) as [I1 I2].
  destruct (Hwf q (or_introl eq_refl)) as [_ Hqn].
  pose proof (numa_sum_nonneg (p_numa q) nd Hqn) as Hq0. rewrite <- numa_of_pod_sum in Hq0.
  cbn [filter]. destruct (f q); cbn [fold_right]; unfold rle, r0 in *; cbn [fst snd] in *; lia.
Qed.

Lemma step_capacity o st x :
  wf_opts o -> op_sched x ->
  linv st /\ within_capacity o st ->
  linv (fst (step o st x)) /\ within_capacity o (fst (step o st x)).
Proof.
  intros Ho Hx [Hinv Hcap].
  assert (Hwf : op_wf x) by (destruct x; cbn in *; tauto).
  split; [apply step_linv; assumption|].
  destruct Ho as [HT Hm]. destruct x as [rq|uid|p|rq host victim]; cbn [step]; [| |destruct Hx|destruct Hx].
  - destruct (allocate o st rq) as [p|] eqn:E; cbn [fst]; [|exact Hcap].
    destruct (allocate_spec o st rq p Hwf E) as [_ [_ [A3 _]]].
    destruct Hinv as [_ [_ [Hpw [_ Hnuma]]]].
    intros nd Hnd. rewrite update_pods, numa_of_pods_app.
    destruct (numa_of_pods_filter_le (fun q => negb (p_uid q =? p_uid p)) (l_pods st) nd Hpw) as [F1 F2].
    specialize (A3 nd). rewrite lookup_numa_avail in A3.
    assert (Hhas : has_node nd (o_cap o) = true).
    { unfold has_node. apply existsb_exists. apply in_map_iff in Hnd. destruct Hnd as [e [Ee He]].
      exists e. split; [exact He|apply Z.eqb_eq; exact Ee]. }
    rewrite Hhas, Hnuma in A3. rewrite numa_of_pod_sum.
    destruct (Hcap nd Hnd) as [C1 C2].
    unfold rle, radd in *. cbn [fst snd] in *. lia.
  - cbn [fst]. intros nd Hnd. rewrite release_pods.
    destruct Hinv as [_ [_ [Hpw _]]].
    destruct (numa_of_pods_filter_le (fun q => negb (p_uid q =? uid)) (l_pods st) nd Hpw) as [F1 _].
    destruct (Hcap nd Hnd) as [C1 C2]. unfold rle in *. lia.
Qed.

Lemma hist_capacity o ops :
  wf_opts o -> nres_nonneg (o_cap o) -> Forall op_sched ops -> within_capacity o (run o ops).
Proof.
  intros Ho Hcapnn Hops. unfold run.
  apply (run_fold (fun st => linv st /\ within_capacity o st) op_sched o).
  - intros st x Hx Hst. apply step_capacity; assumption.
  - exact Hops.
  - split; [exact linv_init|]. intros nd Hnd. cbn.
    destruct (lookup_res_nonneg (o_cap o) nd Hcapnn) as [H1 H2]. unfold r0 in *. cbn in *. lia.
Qed.

Lemma hist_ledger_exact o ops : wf_opts o -> Forall op_wf ops -> ledger_exact (run o ops).
Proof. intros Ho Hops. destruct (hist_linv o ops Ho Hops) as [_ [_ [_ H]]]. exact H. Qed.

(* ------------------------------------------------------------------ witnesses *)
Lemma overshoot_topo_nodup : NoDup (map cid (c_topo (mkCfg overshoot_topo 1 0 true))).
Proof.
  cbn [c_topo]. replace (map cid overshoot_topo) with (dedup (map cid overshoot_topo)) by (vm_compute; reflexivity).
  apply dedup_NoDup.
Qed.

Lemma overshoot_len : lenZ [4; 5; 6; 7; 12; 13; 20; 21] <> 7.
Proof. vm_compute. discriminate. Qed.

Lemma ex_opts_wf : wf_opts (mkO overshoot_topo 1 [] true [(0, (8000, 64)); (1, (8000, 64)); (2, (8000, 64))]).
Proof. split; [exact overshoot_topo_nodup|cbn; lia]. Qed.

Lemma ex_hist_sched :
  Forall op_sched [OAlloc (mkR 1 4 true 1 false 0 (Some [0; 1]) 4000 8 [] []); ORelease 1;
                   OAlloc (mkR 2 2 true 2 true 1 None 2000 0 [] [])].
Proof.
  repeat constructor; cbn; auto; try (intros [H|[]]; discriminate); try (intros []).
Qed.

Lemma ex_uniform : uniform_topo overshoot_topo = true /\ wf_topo overshoot_topo = true.
Proof. split; vm_compute; reflexivity. Qed.

Lemma ex_d1 : distribute1 0 1 8 [(1, 10); (2, 2)] = ([(2, 2); (1, 6)], 0).
Proof. vm_compute. reflexivity. Qed.

(* regression for fix 43d7136: the old model variant violates exactness on this input, the
   current one returns exactly 7 CPUs *)
Lemma take_exact_old_refuted_lemma :
  take_cpus_old (mkCfg overshoot_topo 1 0 true) overshoot_avail [] 7 1 = Some [4; 5; 6; 7; 12; 13; 20; 21]
  /\ lenZ [4; 5; 6; 7; 12; 13; 20; 21] <> 7
  /\ take_cpus (mkCfg overshoot_topo 1 0 true) overshoot_avail [] 7 1 = Some [4; 5; 6; 7; 12; 13; 14].
Proof.
  split; [exact take_overshoot_old|]. split; [exact overshoot_len|exact take_overshoot_fixed].
Qed.
