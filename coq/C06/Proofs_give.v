(* C06 — CPUs given back to an allocation (preferredCPUs of a matched reservation,
   preemptibleCPUs of a victim): getAvailableCPUs offers a CPU only if the reference count that
   remains after the give-backs is within the sharing limit, and along every history of
   Allocate (with or without give-backs) / Release no CPU has more owners than the limit, an
   owner being a holder that is not nested in a live reservation holding the same CPU. *)
From Coq Require Import List ZArith Bool Lia Permutation.
From Verif Require Import C06.Model C06.Spec C06.Proofs_base C06.Proofs_ledger C06.Proofs_take
  C06.Proofs_hist.
Import ListNotations.
Open Scope Z_scope.

(* ------------------------------------------------------------------ getAvailableCPUs *)
Lemma max0_step r k : 0 <= k -> Z.max 0 (Z.max 0 (r - k) - 1) = Z.max 0 (r - (k + 1)).
Proof. lia. Qed.

Lemma giveback_fold i : forall prefs cs,
  (forall l, In l prefs -> NoDup l) -> cs_wf cs ->
  cs_wf (fold_left (fun cs p => fold_left cpu_dec p cs) prefs cs)
  /\ ref_in (fold_left (fun cs p => fold_left cpu_dec p cs) prefs cs) i
     = Z.max 0 (ref_in cs i - giveback_count prefs i).
Proof.
  induction prefs as [|l t IH]; intros cs Hnd Hwf; cbn [fold_left].
  - split; [exact Hwf|]. unfold giveback_count. cbn. pose proof (ref_in_nonneg cs i Hwf). lia.
  - destruct (fold_dec_spec l cs (Hnd l (or_introl eq_refl)) Hwf) as [Hwf' Href].
    destruct (IH (fold_left cpu_dec l cs) ltac:(intros l0 Hl0; apply Hnd; right; exact Hl0) Hwf') as [H1 H2].
    split; [exact H1|]. rewrite H2, Href. unfold giveback_count. cbn [map sumZ fold_right].
    fold (sumZ (map (fun l0 => if memZ i l0 then 1 else 0) t)).
    assert (Hc : 0 <= sumZ (map (fun l0 => if memZ i l0 then 1 else 0) t)).
    { clear. induction t as [|a t IH]; cbn; [lia|]. unfold sumZ in *. destruct (memZ i a); lia. }
    pose proof (ref_in_nonneg cs i Hwf).
    destruct (memZ i l); lia.
Qed.

Lemma not_busy_lt cs maxref i :
  1 <= maxref -> cs_wf cs ->
  ~ In i (map aid (filter (fun a => maxref <=? aref a) cs)) -> ref_in cs i < maxref.
Proof.
  intros Hm [Hnd Hpos] Hi. destruct (has_id i cs) eqn:E.
  - apply has_id_In in E. apply in_map_iff in E. destruct E as [a [Ea Ha]]. subst i.
    rewrite (ref_in_entry _ a Hnd Ha).
    destruct (Z.lt_ge_cases (aref a) maxref) as [Hlt|Hge]; [exact Hlt|].
    exfalso. apply Hi. apply in_map. apply filter_In. split; [exact Ha|]. apply Z.leb_le. lia.
  - rewrite ref_in_absent by exact E. lia.
Qed.

(* a CPU is offered only if it belongs to the topology, is not reserved, and the reference
   count remaining after the give-backs is below the sharing limit *)
Lemma available_sound T maxref rsv cs prefs i :
  1 <= maxref -> cs_wf cs -> (forall l, In l prefs -> NoDup l) ->
  In i (fst (available T maxref rsv cs prefs)) ->
  In i (map cid T) /\ ~ In i rsv /\ Z.max 0 (ref_in cs i - giveback_count prefs i) < maxref.
Proof.
  intros Hm Hwf Hnd Hi. unfold available in Hi. cbn [fst] in Hi.
  apply filter_In in Hi. destruct Hi as [HT Hi]. apply andb_true_iff in Hi. destruct Hi as [H1 H2].
  apply negb_true_iff in H1. apply memZ_false in H1. apply negb_true_iff in H2. apply memZ_false in H2.
  destruct (giveback_fold i prefs cs Hnd Hwf) as [Hwf' Href].
  splits; auto. rewrite <- Href. apply not_busy_lt; assumption.
Qed.

(* ------------------------------------------------------------------ list helpers *)
Lemma filter_and_len {A} (f k : A -> bool) l :
  lenZ (filter f l) = lenZ (filter (fun x => f x && k x) l) + lenZ (filter (fun x => f x && negb (k x)) l).
Proof.
  induction l as [|x l IH]; [reflexivity|]. cbn [filter].
  destruct (f x), (k x); cbn [andb negb]; rewrite ?lenZ_cons; lia.
Qed.

Lemma filter_filter {A} (f k : A -> bool) l : filter f (filter k l) = filter (fun x => k x && f x) l.
Proof.
  induction l as [|x l IH]; [reflexivity|]. cbn [filter]. destruct (k x); cbn [filter andb]; [|exact IH].
  destruct (f x); rewrite IH; reflexivity.
Qed.

Lemma filter_len_mono {A} (p q : A -> bool) l :
  (forall x, In x l -> p x = true -> q x = true) -> lenZ (filter p l) <= lenZ (filter q l).
Proof.
  induction l as [|x l IH]; intros H; [cbn; lia|]. cbn [filter].
  assert (IH' : lenZ (filter p l) <= lenZ (filter q l)) by (apply IH; intros y Hy; apply H; right; exact Hy).
  destruct (p x) eqn:Ep.
  - rewrite (H x (or_introl eq_refl) Ep). rewrite !lenZ_cons. lia.
  - destruct (q x); rewrite ?lenZ_cons; lia.
Qed.

Lemma NoDup_key_le1 {A} (g : A -> Z) l v :
  NoDup (map g l) -> lenZ (filter (fun e => g e =? v) l) <= 1.
Proof.
  induction l as [|x l IH]; intros H; [cbn; lia|]. cbn [map] in H. inversion H as [|? ? Hx Hnd]; subst.
  cbn [filter]. destruct (g x =? v) eqn:E; [|apply IH; exact Hnd].
  apply Z.eqb_eq in E. rewrite lenZ_cons.
  assert (filter (fun e => g e =? v) l = []); [|rewrite H0; cbn; lia].
  destruct (filter (fun e => g e =? v) l) as [|y t] eqn:Ef; [reflexivity|].
  exfalso. assert (Hy : In y (filter (fun e => g e =? v) l)) by (rewrite Ef; left; reflexivity).
  apply filter_In in Hy. destruct Hy as [Hy Ey]. apply Z.eqb_eq in Ey. apply Hx. rewrite E, <- Ey.
  apply in_map. exact Hy.
Qed.

Lemma existsb_false_filter {A} (p : A -> bool) l : existsb p l = false -> filter p l = [].
Proof.
  induction l as [|x l IH]; [reflexivity|]. cbn [existsb filter]. intros H.
  apply orb_false_iff in H. destruct H as [H1 H2]. rewrite H1. apply IH. exact H2.
Qed.

(* ------------------------------------------------------------------ lookups in the pod list *)
Lemma find_pod_filter x v ps :
  x <> v -> find_pod x (filter (fun q => negb (p_uid q =? v)) ps) = find_pod x ps.
Proof.
  intros Hx. unfold find_pod. induction ps as [|q ps IH]; [reflexivity|]. cbn [filter find].
  destruct (p_uid q =? v) eqn:E; cbn [negb].
  - apply Z.eqb_eq in E. assert (p_uid q =? x = false) as -> by (apply Z.eqb_neq; lia). exact IH.
  - cbn [find]. destruct (p_uid q =? x); [reflexivity|exact IH].
Qed.

Lemma find_pod_app_live x ps p :
  live ps x = true -> find_pod x (ps ++ [p]) = find_pod x ps.
Proof.
  unfold live, find_pod. induction ps as [|q ps IH]; cbn [app find]; [discriminate|].
  destruct (p_uid q =? x); [reflexivity|exact IH].
Qed.

Lemma find_pod_app_fresh ps p :
  find_pod (p_uid p) ps = None -> find_pod (p_uid p) (ps ++ [p]) = Some p.
Proof.
  unfold find_pod. induction ps as [|q ps IH]; cbn [app find]; intros H.
  - rewrite Z.eqb_refl. reflexivity.
  - destruct (p_uid q =? p_uid p); [discriminate|]. apply IH. exact H.
Qed.

Lemma live_cpus_filter x v ps :
  x <> v ->
  live (filter (fun q => negb (p_uid q =? v)) ps) x = live ps x
  /\ cpus_of (filter (fun q => negb (p_uid q =? v)) ps) x = cpus_of ps x.
Proof. intros H. unfold live, cpus_of. rewrite find_pod_filter by exact H. auto. Qed.

Lemma cpus_of_dead ps v : live ps v = false -> cpus_of ps v = [].
Proof. unfold live, cpus_of. destruct (find_pod v ps); [discriminate|reflexivity]. Qed.

(* ------------------------------------------------------------------ the edge invariant *)
Definition edges_wf (ps : list palloc) (es : list edge) : Prop :=
  NoDup (map e_guest es)
  /\ (forall e, In e es ->
        live ps (e_guest e) = true /\ live ps (e_host e) = true
        /\ incl (e_set e) (cpus_of ps (e_guest e)) /\ incl (e_set e) (cpus_of ps (e_host e))
        /\ ~ In (e_host e) (map e_guest es))
  /\ (forall h i, lenZ (filter (fun e => (e_host e =? h) && memZ i (e_set e)) es) <= 1).

Definition ginv (o : nopts) (st : lstate) (es : list edge) : Prop :=
  linv st /\ edges_wf (l_pods st) es
  /\ forall i, ref_of_pods (l_pods st) i <= o_maxref o + nest_count es i.

Lemma nest_count_nonneg es i : 0 <= nest_count es i.
Proof. apply lenZ_nonneg. Qed.

Lemma nest_count_app es e i :
  nest_count (es ++ [e]) i = nest_count es i + (if memZ i (e_set e) then 1 else 0).
Proof.
  unfold nest_count. rewrite filter_app, lenZ_app. cbn [filter]. destruct (memZ i (e_set e)); reflexivity.
Qed.

(* releasing v removes at most one nested hold per CPU, and only on v's own CPUs *)
Lemma nest_count_del ps es v i :
  edges_wf ps es ->
  nest_count es i - (if memZ i (cpus_of ps v) then 1 else 0) <= nest_count (edges_del es v) i
  /\ nest_count (edges_del es v) i <= nest_count es i.
Proof.
  intros [Hnd [Hwf Hinj]]. unfold nest_count, edges_del.
  set (f := fun e : edge => memZ i (e_set e)).
  set (k := fun e : edge => negb (e_guest e =? v) && negb (e_host e =? v)).
  rewrite (filter_and_len f k es). rewrite filter_filter.
  assert (Hsame : lenZ (filter (fun x => k x && f x) es) = lenZ (filter (fun x => f x && k x) es)).
  { f_equal. apply filter_ext. intros x. apply andb_comm. }
  rewrite Hsame.
  pose proof (lenZ_nonneg (filter (fun x => f x && negb (k x)) es)) as H0.
  split; [|lia].
  assert (Hrem : lenZ (filter (fun x => f x && negb (k x)) es) <= if memZ i (cpus_of ps v) then 1 else 0); [|lia].
  destruct (filter (fun x => f x && negb (k x)) es) as [|e0 t] eqn:Ef; [cbn; destruct (memZ i (cpus_of ps v)); lia|].
  rewrite <- Ef.
  assert (He0 : In e0 es /\ f e0 = true /\ k e0 = false).
  { assert (Hin : In e0 (filter (fun x => f x && negb (k x)) es)) by (rewrite Ef; left; reflexivity).
    apply filter_In in Hin. destruct Hin as [Hin Hb]. apply andb_true_iff in Hb. destruct Hb as [Hb1 Hb2].
    apply negb_true_iff in Hb2. auto. }
  destruct He0 as [Hin0 [Hf0 Hk0]].
  destruct (Hwf e0 Hin0) as [_ [_ [Hsg [Hsh _]]]].
  unfold f in Hf0. apply memZ_In in Hf0.
  assert (Hiv : memZ i (cpus_of ps v) = true).
  { unfold k in Hk0. apply andb_false_iff in Hk0. destruct Hk0 as [Hk0|Hk0]; apply negb_false_iff in Hk0;
      apply Z.eqb_eq in Hk0; apply memZ_In; rewrite <- Hk0; [apply Hsg|apply Hsh]; exact Hf0. }
  rewrite Hiv.
  destruct (existsb (fun e => e_guest e =? v) es) eqn:Eg.
  - (* v is a guest: it hosts nobody, and it is the guest of one edge only *)
    eapply Z.le_trans; [apply (filter_len_mono _ (fun e => e_guest e =? v))|apply NoDup_key_le1; exact Hnd].
    intros x Hx Hb. apply andb_true_iff in Hb. destruct Hb as [_ Hb]. apply negb_true_iff in Hb.
    unfold k in Hb. apply andb_false_iff in Hb. destruct Hb as [Hb|Hb]; apply negb_false_iff in Hb; [exact Hb|].
    exfalso. apply Z.eqb_eq in Hb. destruct (Hwf x Hx) as [_ [_ [_ [_ Hnh]]]]. apply Hnh. rewrite Hb.
    apply existsb_exists in Eg. destruct Eg as [y [Hy Ey]]. apply Z.eqb_eq in Ey. rewrite <- Ey.
    apply in_map. exact Hy.
  - (* v is not a guest: only edges hosted by v are removed, at most one of them holds i *)
    eapply Z.le_trans; [apply (filter_len_mono _ (fun e => (e_host e =? v) && memZ i (e_set e)))|apply Hinj].
    intros x Hx Hb. apply andb_true_iff in Hb. destruct Hb as [Hb1 Hb]. apply negb_true_iff in Hb.
    unfold k in Hb. apply andb_false_iff in Hb. destruct Hb as [Hb|Hb]; apply negb_false_iff in Hb.
    + exfalso. assert (Hex : existsb (fun e => e_guest e =? v) es = true) by (apply existsb_exists; exists x; auto).
      congruence.
    + rewrite Hb. exact Hb1.
Qed.

Lemma edges_del_wf ps es v :
  edges_wf ps es -> edges_wf (filter (fun q => negb (p_uid q =? v)) ps) (edges_del es v).
Proof.
  intros [Hnd [Hwf Hinj]]. unfold edges_del, edges_wf. splits.
  - apply NoDup_map_filter. exact Hnd.
  - intros e He. apply filter_In in He. destruct He as [He Hk]. apply andb_true_iff in Hk.
    destruct Hk as [Hk1 Hk2]. apply negb_true_iff in Hk1. apply negb_true_iff in Hk2.
    apply Z.eqb_neq in Hk1. apply Z.eqb_neq in Hk2.
    destruct (Hwf e He) as [W1 [W2 [W3 [W4 W5]]]].
    destruct (live_cpus_filter (e_guest e) v ps Hk1) as [L1 C1].
    destruct (live_cpus_filter (e_host e) v ps Hk2) as [L2 C2].
    rewrite L1, L2, C1, C2. splits; auto.
    intros Hin. apply W5. apply in_map_iff in Hin. destruct Hin as [y [Ey Hy]]. apply filter_In in Hy.
    apply in_map_iff. exists y. tauto.
  - intros h i. rewrite filter_filter.
    eapply Z.le_trans; [|apply (Hinj h i)]. apply filter_len_mono. intros x _ Hb.
    apply andb_true_iff in Hb. tauto.
Qed.

Lemma edges_del_dead ps es v : edges_wf ps es -> live ps v = false -> edges_del es v = es.
Proof.
  intros [_ [Hwf _]] Hv. unfold edges_del. apply filter_all_true. intros e He.
  destruct (Hwf e He) as [W1 [W2 _]]. apply andb_true_iff. split; apply negb_true_iff; apply Z.eqb_neq;
    intros E; rewrite E in *; congruence.
Qed.

(* ------------------------------------------------------------------ release *)
Lemma ref_of_pods_release st v i :
  linv st ->
  ref_of_pods (l_pods (release st v)) i
  = ref_of_pods (l_pods st) i - (if memZ i (cpus_of (l_pods st) v) then 1 else 0).
Proof.
  intros [_ [Hnd _]]. rewrite release_pods. unfold cpus_of.
  destruct (find_pod v (l_pods st)) as [p|] eqn:E.
  - apply ref_of_pods_remove; assumption.
  - rewrite filter_uid_absent by (apply find_pod_None; exact E). cbn. lia.
Qed.

Lemma release_ginv o st es v : ginv o st es -> ginv o (release st v) (edges_del es v).
Proof.
  intros [Hinv [Hwf Hlim]]. unfold ginv. splits.
  - apply release_inv. exact Hinv.
  - rewrite release_pods. apply edges_del_wf. exact Hwf.
  - intros i. rewrite (ref_of_pods_release st v i Hinv).
    destruct (nest_count_del (l_pods st) es v i Hwf) as [H1 _]. specialize (Hlim i). lia.
Qed.

(* ------------------------------------------------------------------ adding a fresh allocation *)
Lemma edges_wf_app_pod ps es p :
  edges_wf ps es -> find_pod (p_uid p) ps = None -> edges_wf (ps ++ [p]) es.
Proof.
  intros [Hnd [Hwf Hinj]] Hfresh. unfold edges_wf. splits; auto.
  intros e He. destruct (Hwf e He) as [W1 [W2 [W3 [W4 W5]]]].
  unfold live, cpus_of in *. rewrite !find_pod_app_live by assumption. splits; auto.
Qed.

Lemma add_ginv o st es p (host : option Z) :
  ginv o st es -> find_pod (p_uid p) (l_pods st) = None -> palloc_wf p ->
  match host with
  | Some h => live (l_pods st) h = true /\ h <> p_uid p /\ ~ In h (map e_guest es)
  | None => True
  end ->
  forall S,
  match host with
  | Some h => incl S (p_cpus p) /\ incl S (remaining (l_pods st) es h)
  | None => S = []
  end ->
  (forall i, memZ i (p_cpus p) = true ->
             ref_of_pods (l_pods st) i + 1 <= o_maxref o + nest_count es i + (if memZ i S then 1 else 0)) ->
  ginv o (add_pod st p)
       (match host with Some h => es ++ [(p_uid p, h, S)] | None => es end).
Proof.
  intros [Hinv [Hwf Hlim]] Hfresh Hp Hhost S HS Hnew.
  assert (Hpods : l_pods (add_pod st p) = l_pods st ++ [p]) by (unfold add_pod; rewrite Hfresh; reflexivity).
  assert (Hwf' : edges_wf (l_pods st ++ [p]) es) by (apply edges_wf_app_pod; assumption).
  assert (Hdead : live (l_pods st) (p_uid p) = false) by (unfold live; rewrite Hfresh; reflexivity).
  assert (Hnog : ~ In (p_uid p) (map e_guest es)).
  { intros Hin. apply in_map_iff in Hin. destruct Hin as [e [Ee He]]. destruct Hwf as [_ [W _]].
    destruct (W e He) as [W1 _]. rewrite Ee in W1. congruence. }
  assert (Hnoh : forall e, In e es -> e_host e <> p_uid p).
  { intros e He E. destruct Hwf as [_ [W _]]. destruct (W e He) as [_ [W2 _]]. rewrite E in W2. congruence. }
  unfold ginv. splits.
  - apply add_pod_inv; assumption.
  - rewrite Hpods. destruct host as [h|]; [|exact Hwf'].
    destruct Hhost as [Hlive [Hne Hng]]. destruct HS as [HS1 HS2].
    destruct Hwf' as [Hnd [Hw Hinj]]. unfold edges_wf. splits.
    + rewrite map_app. cbn [map]. apply NoDup_app_intro; [exact Hnd|repeat constructor; intros []|].
      intros x Hx [Hx'|[]]. cbn in Hx'. subst x. contradiction.
    + intros e He. apply in_app_or in He. destruct He as [He|[He|[]]].
      * destruct (Hw e He) as [W1 [W2 [W3 [W4 W5]]]]. splits; auto.
        rewrite map_app. cbn [map]. intros Hin. apply in_app_or in Hin. destruct Hin as [Hin|[Hin|[]]]; [contradiction|].
        cbn in Hin. apply (Hnoh e He). congruence.
      * subst e. cbn [e_guest e_host e_set fst snd].
        unfold live, cpus_of. rewrite (find_pod_app_fresh _ _ Hfresh), (find_pod_app_live h _ p Hlive).
        splits; auto.
        -- intros x Hx. apply HS2 in Hx. unfold remaining in Hx. apply filter_In in Hx. destruct Hx as [Hx _].
           exact Hx.
        -- rewrite map_app. cbn [map]. intros Hin. apply in_app_or in Hin. destruct Hin as [Hin|[Hin|[]]]; [contradiction|].
           cbn in Hin. congruence.
    + intros h' i. rewrite filter_app, lenZ_app. cbn [filter e_host e_set fst snd].
      destruct ((h =? h') && memZ i S) eqn:Eb; [|cbn; specialize (Hinj h' i); lia].
      apply andb_true_iff in Eb. destruct Eb as [Eb1 Eb2]. apply Z.eqb_eq in Eb1. subst h'.
      apply memZ_In in Eb2. apply HS2 in Eb2. unfold remaining in Eb2. apply filter_In in Eb2.
      destruct Eb2 as [_ Eb2]. apply negb_true_iff in Eb2.
      rewrite (existsb_false_filter _ _ Eb2). cbn. lia.
  - intros i. rewrite Hpods, ref_of_pods_app.
    assert (Hnc : nest_count es i + (if memZ i S then 1 else 0)
                  <= nest_count (match host with Some h => es ++ [(p_uid p, h, S)] | None => es end) i).
    { destruct host as [h|].
      - rewrite nest_count_app. cbn [e_set snd]. lia.
      - subst S. cbn. lia. }
    destruct (memZ i (p_cpus p)) eqn:Em.
    + specialize (Hnew i Em). lia.
    + specialize (Hlim i). destruct (memZ i S); lia.
Qed.

(* ------------------------------------------------------------------ one Allocate with give-backs *)
Definition op_valid_g (st : lstate) (es : list edge) (x : op) : Prop :=
  match x with
  | OAlloc rq =>
    match r_hint rq with Some h => NoDup h | None => True end
    /\ r_pref rq = [] /\ r_preempt rq = []
  | ORelease _ => True
  | OUpdate _ => False
  | OAllocR rq host victim =>
    match r_hint rq with Some h => NoDup h | None => True end
    /\ (host <> None -> find_pod (r_uid rq) (l_pods st) = None)
    /\ match host with
       | Some h => live (l_pods st) h = true /\ h <> r_uid rq /\ ~ In h (map e_guest es)
                   /\ NoDup (r_pref rq) /\ incl (r_pref rq) (remaining (l_pods st) es h)
       | None => r_pref rq = []
       end
    /\ match victim with
       | Some v => v <> r_uid rq /\ host <> Some v /\ r_preempt rq = cpus_of (l_pods st) v
       | None => r_preempt rq = []
       end
  end.

Definition gedges (o : nopts) (st : lstate) (es : list edge) (x : op) : list edge :=
  match x with
  | OAlloc rq => match allocate o st rq with Some _ => edges_del es (r_uid rq) | None => es end
  | ORelease uid => edges_del es uid
  | OUpdate p => edges_del es (p_uid p)
  | OAllocR rq host victim =>
    match allocate o st rq with Some p => edges_alloc es rq host victim (p_cpus p) | None => es end
  end.

Lemma cpus_of_NoDup st v : linv st -> NoDup (cpus_of (l_pods st) v).
Proof.
  intros [_ [_ [Hwf _]]]. unfold cpus_of. destruct (find_pod v (l_pods st)) as [p|] eqn:E; [|constructor].
  destruct (find_pod_Some _ _ _ E) as [Hin _]. destruct (Hwf p Hin). assumption.
Qed.

(* the core of the step: release the victim, release the pod's own old allocation, record the
   new one; [host] / [victim] / give-back sets as validated by op_valid_g *)
Lemma alloc_ginv o st es rq host victim p :
  wf_opts o -> ginv o st es ->
  match r_hint rq with Some h => NoDup h | None => True end ->
  allocate o st rq = Some p ->
  (host <> None -> find_pod (r_uid rq) (l_pods st) = None) ->
  match host with
  | Some h => live (l_pods st) h = true /\ h <> r_uid rq /\ ~ In h (map e_guest es)
              /\ NoDup (r_pref rq) /\ incl (r_pref rq) (remaining (l_pods st) es h)
  | None => r_pref rq = []
  end ->
  match victim with
  | Some v => v <> r_uid rq /\ host <> Some v /\ r_preempt rq = cpus_of (l_pods st) v
  | None => r_preempt rq = []
  end ->
  ginv o (update (release_opt st victim) p) (edges_alloc es rq host victim (p_cpus p)).
Proof.
  intros [HT Hm] Hg Hhint Hal Hfresh Hhost Hvict.
  pose proof Hg as [Hinv [Hwf Hlim]].
  destruct (allocate_wf o st rq p HT Hhint Hal) as [Hpwf Hinc].
  destruct (allocate_spec o st rq p Hhint Hal) as [Huid _].
  set (u := r_uid rq) in *.
  (* after releasing the victim and the pod's own old allocation *)
  set (st1 := release_opt st victim). set (es1 := edges_del_opt es victim).
  assert (Hg1 : ginv o st1 es1).
  { unfold st1, es1. destruct victim as [v|]; cbn [release_opt edges_del_opt]; [apply release_ginv|]; exact Hg. }
  assert (Hg2 : ginv o (release st1 u) (edges_del es1 u)) by (apply release_ginv; exact Hg1).
  assert (Hfresh2 : find_pod (p_uid p) (l_pods (release st1 u)) = None).
  { rewrite Huid, release_pods. destruct (find_pod u (filter (fun q => negb (p_uid q =? u)) (l_pods st1))) as [q|] eqn:E; [|reflexivity].
    exfalso. destruct (find_pod_Some _ _ _ E) as [Hin Hq]. apply filter_In in Hin. destruct Hin as [_ Hn].
    rewrite Hq, Z.eqb_refl in Hn. discriminate. }
  (* reference counts only went down, by one on the victim's CPUs *)
  assert (Hvc : forall i, ref_of_pods (l_pods (release st1 u)) i
                          <= ref_of_pods (l_pods st) i - (if memZ i (r_preempt rq) then 1 else 0)).
  { intros i. rewrite release_pods.
    pose proof (ref_of_pods_filter_le (fun q => negb (p_uid q =? u)) (l_pods st1) i) as H1.
    unfold st1 in *. clear Hg1 Hg2 Hfresh2. destruct victim as [v|]; cbn [release_opt] in *.
    - destruct Hvict as [_ [_ Ev]]. rewrite Ev. rewrite (ref_of_pods_release st v i Hinv) in H1. lia.
    - rewrite Hvict. cbn. lia. }
  (* what getAvailableCPUs guarantees for the CPUs of p *)
  assert (Hav : forall i, memZ i (p_cpus p) = true ->
                          ref_of_pods (l_pods st) i - (if memZ i (r_pref rq) then 1 else 0)
                          - (if memZ i (r_preempt rq) then 1 else 0) < o_maxref o).
  { intros i Hi. apply memZ_In in Hi. apply Hinc in Hi. unfold avail_of in Hi.
    destruct Hinv as [Hcs [_ [_ [Hcpu _]]]].
    assert (Hndl : forall l, In l (givebacks rq) -> NoDup l).
    { intros l [Hl|[Hl|[]]]; subst l.
      - destruct host as [h|]; [tauto|rewrite Hhost; constructor].
      - destruct victim as [v|]; [destruct Hvict as [_ [_ Ev]]; rewrite Ev; apply cpus_of_NoDup; exact (proj1 Hg)|rewrite Hvict; constructor]. }
    destruct (available_sound _ _ _ _ _ i Hm Hcs Hndl Hi) as [_ [_ Hlt]].
    rewrite Hcpu in Hlt. unfold givebacks, giveback_count in Hlt. cbn [map sumZ fold_right] in Hlt. lia. }
  unfold update. fold st1. unfold edges_alloc. fold es1.
  set (S := filter (fun i => memZ i (r_pref rq)) (p_cpus p)).
  assert (HSmem : forall i, memZ i (p_cpus p) = true -> memZ i S = memZ i (r_pref rq)).
  { intros i Hi. destruct (memZ i (r_pref rq)) eqn:E.
    - apply memZ_In. unfold S. apply filter_In. split; [apply memZ_In; exact Hi|exact E].
    - apply memZ_false. intros Hin. unfold S in Hin. apply filter_In in Hin. destruct Hin as [_ Hin]. congruence. }
  change (r_uid rq) with u. rewrite Huid.
  assert (Hgoal : ginv o (add_pod (release st1 u) p)
                       (match host with
                        | Some h => edges_del es1 u ++ [(p_uid p, h, S)]
                        | None => edges_del es1 u
                        end)).
  { apply (add_ginv o (release st1 u) (edges_del es1 u) p host Hg2 Hfresh2 Hpwf).
    - destruct host as [h|]; [|exact I]. destruct Hhost as [Hl [Hne [Hng _]]].
      assert (Hvh : victim <> Some h) by (destruct victim as [v|]; [destruct Hvict as [_ [Hv _]]; congruence|discriminate]).
      splits.
      + rewrite release_pods.
        destruct (live_cpus_filter h u (l_pods st1) Hne) as [L _]. rewrite L.
        unfold st1. destruct victim as [v|]; cbn [release_opt]; [|exact Hl].
        rewrite release_pods. assert (h <> v) by congruence.
        destruct (live_cpus_filter h v (l_pods st) H) as [L' _]. rewrite L'. exact Hl.
      + rewrite Huid. exact Hne.
      + intros Hin. apply Hng. apply in_map_iff in Hin. destruct Hin as [e [Ee He]].
        unfold edges_del in He. apply filter_In in He. destruct He as [He _].
        unfold es1 in He. destruct victim; cbn [edges_del_opt] in He; [unfold edges_del in He; apply filter_In in He; destruct He as [He _]|];
          apply in_map_iff; exists e; auto.
    - destruct host as [h|];
        [|unfold S; rewrite Hhost; clear; induction (p_cpus p) as [|x l IH]; cbn; auto].
      destruct Hhost as [Hl [Hne [Hng [Hnd Hrem]]]].
      split; [intros x Hx; unfold S in Hx; apply filter_In in Hx; tauto|].
      (* S stays inside the remaining CPUs of h: edges only disappeared, h's CPUs are unchanged *)
      intros x Hx. unfold S in Hx. apply filter_In in Hx. destruct Hx as [_ Hx]. apply memZ_In in Hx.
      apply Hrem in Hx. unfold remaining in *. apply filter_In in Hx. destruct Hx as [Hx1 Hx2].
      assert (Hvh : victim <> Some h) by (destruct victim as [v|]; [destruct Hvict as [_ [Hv _]]; congruence|discriminate]).
      apply filter_In. split.
      + rewrite release_pods. destruct (live_cpus_filter h u (l_pods st1) Hne) as [_ C]. rewrite C.
        unfold st1. destruct victim as [v|]; cbn [release_opt]; [|exact Hx1].
        rewrite release_pods. assert (h <> v) by congruence.
        destruct (live_cpus_filter h v (l_pods st) H) as [_ C']. rewrite C'. exact Hx1.
      + apply negb_true_iff. apply negb_true_iff in Hx2.
        destruct (existsb (fun e => (e_host e =? h) && memZ x (e_set e)) (edges_del es1 u)) eqn:Ex; [|reflexivity].
        exfalso. apply existsb_exists in Ex. destruct Ex as [e [He Hb]].
        assert (In e es).
        { unfold edges_del in He. apply filter_In in He. destruct He as [He _]. unfold es1 in He.
          destruct victim; cbn [edges_del_opt] in He; [unfold edges_del in He; apply filter_In in He; tauto|exact He]. }
        assert (existsb (fun e => (e_host e =? h) && memZ x (e_set e)) es = true) by (apply existsb_exists; exists e; auto).
        congruence.
    - intros i Hi. specialize (Hav i Hi). specialize (Hvc i). rewrite (HSmem i Hi).
      pose proof (nest_count_nonneg (edges_del es1 u) i).
      destruct host as [h|].
      + lia.
      + rewrite Hhost in *. cbn in *. lia. }
  rewrite Huid in Hgoal. exact Hgoal.
Qed.

Lemma step_ginv o st es x :
  wf_opts o -> ginv o st es -> op_valid_g st es x ->
  ginv o (fst (step o st x)) (gedges o st es x).
Proof.
  intros Ho Hg Hx. destruct x as [rq|uid|p|rq host victim]; cbn [step gedges].
  - destruct Hx as [Hh [E1 E2]].
    destruct (allocate o st rq) as [p|] eqn:E; cbn [fst]; [|exact Hg].
    apply (alloc_ginv o st es rq None None p Ho Hg Hh E); auto. intros H; congruence.
  - cbn [fst]. apply release_ginv. exact Hg.
  - destruct Hx.
  - destruct Hx as [Hh [Hf [Hhost Hvict]]].
    destruct (allocate o st rq) as [p|] eqn:E; cbn [fst]; [|exact Hg].
    apply (alloc_ginv o st es rq host victim p Ho Hg Hh E); auto.
Qed.

(* ------------------------------------------------------------------ histories *)
Fixpoint grun (o : nopts) (st : lstate) (es : list edge) (ops : list op) : lstate * list edge :=
  match ops with
  | [] => (st, es)
  | x :: t => grun o (fst (step o st x)) (gedges o st es x) t
  end.
Fixpoint gvalid (o : nopts) (st : lstate) (es : list edge) (ops : list op) : Prop :=
  match ops with
  | [] => True
  | x :: t => op_valid_g st es x /\ gvalid o (fst (step o st x)) (gedges o st es x) t
  end.

Lemma grun_run o : forall ops st es,
  fst (grun o st es ops) = fold_left (fun st x => fst (step o st x)) ops st.
Proof. induction ops as [|x t IH]; intros st es; cbn [grun fold_left]; [reflexivity|apply IH]. Qed.

Lemma grun_ginv o : forall ops st es,
  wf_opts o -> ginv o st es -> gvalid o st es ops ->
  ginv o (fst (grun o st es ops)) (snd (grun o st es ops)).
Proof.
  induction ops as [|x t IH]; intros st es Ho Hg Hv; cbn [grun]; [exact Hg|].
  destruct Hv as [Hx Hv]. apply IH; [exact Ho| |exact Hv]. apply step_ginv; assumption.
Qed.

Lemma ginv_init o : wf_opts o -> ginv o l_init [].
Proof.
  intros [_ Hm]. unfold ginv. splits.
  - exact linv_init.
  - unfold edges_wf. splits; [constructor|intros e []|intros h i; cbn; lia].
  - intros i. unfold ref_of_pods, nest_count. cbn. lia.
Qed.

(* no CPU has more owners than the sharing limit after any valid history with give-backs *)
Lemma ghist_limit o ops :
  wf_opts o -> gvalid o l_init [] ops ->
  fst (grun o l_init [] ops) = run o ops
  /\ within_limit_g (o_maxref o) (l_pods (run o ops)) (snd (grun o l_init [] ops))
  /\ ledger_exact (run o ops).
Proof.
  intros Ho Hv. pose proof (grun_run o ops l_init []) as Hr. fold (run o ops) in Hr.
  destruct (grun_ginv o ops l_init [] Ho (ginv_init o Ho) Hv) as [Hinv [_ Hlim]].
  rewrite Hr in *. splits; auto.
  - intros i. unfold owners. specialize (Hlim i). lia.
  - destruct Hinv as [_ [_ [_ H]]]. exact H.
Qed.

(* the give-back sets computed by Spec.concretize (what the harness and the extracted model
   pass to Allocate) always form a valid operation *)
Lemma concretize_valid st es rq0 host0 victim0 :
  linv st ->
  match r_hint rq0 with Some h => NoDup h | None => True end ->
  let '(rq, host, victim) := concretize (l_pods st) es rq0 host0 victim0 in
  op_valid_g st es (OAllocR rq host victim).
Proof.
  intros Hinv Hh. unfold concretize.
  set (ps := l_pods st). set (uid := r_uid rq0).
  set (host := match host0 with
               | Some h => if live ps h && negb (h =? uid) && negb (live ps uid)
                              && negb (existsb (fun e => e_guest e =? h) es)
                           then Some h else None
               | None => None
               end).
  set (victim := match victim0 with
                 | Some v => if live ps v && negb (v =? uid) && negb (live ps uid)
                                && negb (match host with Some h => h =? v | None => false end)
                             then Some v else None
                 | None => None
                 end).
  cbn [op_valid_g r_hint r_uid r_pref r_preempt]. splits.
  - exact Hh.
  - intros Hne. unfold host in Hne. destruct host0 as [h|]; [|congruence].
    destruct (live ps h && negb (h =? uid) && negb (live ps uid) && negb (existsb (fun e => e_guest e =? h) es)) eqn:E; [|congruence].
    apply andb_true_iff in E. destruct E as [E _]. apply andb_true_iff in E. destruct E as [_ E].
    apply negb_true_iff in E. unfold live in E. fold ps. destruct (find_pod uid ps); [discriminate|reflexivity].
  - unfold host. destruct host0 as [h|]; [|reflexivity].
    destruct (live ps h && negb (h =? uid) && negb (live ps uid) && negb (existsb (fun e => e_guest e =? h) es)) eqn:E; [|reflexivity].
    apply andb_true_iff in E. destruct E as [E E4]. apply andb_true_iff in E. destruct E as [E E3].
    apply andb_true_iff in E. destruct E as [E1 E2].
    apply negb_true_iff in E2. apply Z.eqb_neq in E2. apply negb_true_iff in E4.
    splits; auto.
    + intros Hin. apply in_map_iff in Hin. destruct Hin as [e [Ee He]].
      assert (existsb (fun e => e_guest e =? h) es = true) by (apply existsb_exists; exists e; split; [exact He|apply Z.eqb_eq; exact Ee]).
      congruence.
    + unfold remaining. apply NoDup_filter. apply cpus_of_NoDup. exact Hinv.
    + apply incl_refl.
  - unfold victim. destruct victim0 as [v|]; [|reflexivity].
    destruct (live ps v && negb (v =? uid) && negb (live ps uid)
              && negb (match host with Some h => h =? v | None => false end)) eqn:E; [|reflexivity].
    apply andb_true_iff in E. destruct E as [E E4]. apply andb_true_iff in E. destruct E as [E _].
    apply andb_true_iff in E. destruct E as [_ E2].
    apply negb_true_iff in E2. apply Z.eqb_neq in E2. apply negb_true_iff in E4.
    splits; auto. intros Hc. rewrite Hc in E4. rewrite Z.eqb_refl in E4. discriminate.
Qed.
