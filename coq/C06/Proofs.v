(* C06 — index of the proof files (see Properties.v for the exported statements):
     Proofs_base    list/set helpers            Proofs_numa   NUMA split
     Proofs_ledger  ledger add/release/update   Proofs_gen    candidate generators
     Proofs_take, Proofs_take2  takeCPUs        Proofs_alloc  results, policies, overshoot
     Proofs_hist    Allocate and the history invariants
     Proofs_spec    exact NUMA sums of Allocate, soundness of the deciders of Spec.v
     Proofs_main    takePreferredCPUs complete; the model passes take_code
     Proofs_give    CPUs given back (preferred / preemptible): available set and owner limit
     Proofs_conc    Update as one critical section: every interleaving, every intermediate state
     Proofs_event   informer events through podEventHandler: live pods of a history, invariants
     Proofs_dump    the model's dump passes clauses 21-25 after every history; wire round trip
     Proofs_race    Release and Update racing for the node's ledger: either order of the two sections *)
From Verif Require Export C06.Proofs_base C06.Proofs_numa C06.Proofs_ledger C06.Proofs_gen
  C06.Proofs_take C06.Proofs_take2 C06.Proofs_alloc C06.Proofs_hist C06.Proofs_spec C06.Proofs_main C06.Proofs_give C06.Proofs_conc C06.Proofs_event C06.Proofs_dump C06.Proofs_race.
