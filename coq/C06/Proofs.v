(* C06 — proofs about the model (see Properties.v for the exported statements). *)
From Coq Require Import List ZArith Bool Lia.
From Verif Require Import C06.Model C06.Spec.
Import ListNotations.
Open Scope Z_scope.

Lemma split_div_le q m : 0 <= q -> 0 < m -> split 0 1 q m <= q.
Proof.
  intros Hq Hm. unfold split. cbn [Z.eqb].
  apply Z.div_le_upper_bound; nia.
Qed.
