(* C06 — exported theorems only. *)
From Coq Require Import List ZArith Bool.
From Verif Require Import C06.Model C06.Spec C06.Proofs.
Open Scope Z_scope.

Theorem c06_split_le : forall q m, 0 <= q -> 0 < m -> split 0 1 q m <= q.
Proof. exact split_div_le. Qed.
Print Assumptions c06_split_le.
