(* C06 — exported theorems only: each is closed by [exact] and followed by Print Assumptions. *)
From Coq Require Import List ZArith Bool.
From Verif Require Import Lib.Interleave C06.Model C06.OldModel C06.Spec C06.Codec C06.Proofs.
Import ListNotations.
Open Scope Z_scope.

(* ---- CPU picking (takeCPUs) ---- *)
(* a successful pick is duplicate free, taken from the free CPUs of the topology, and has
   exactly the requested size — for every bind / exclusive policy and NUMA strategy *)
Theorem c06_take_exact : forall c avail allocated n bind s,
  NoDup (map cid (c_topo c)) ->
  take_cpus c avail allocated n bind = Some s ->
  NoDup s /\ incl s avail /\ incl s (map cid (c_topo c)) /\ lenZ s = Z.max 0 n.
Proof. exact take_cpus_spec. Qed.
Print Assumptions c06_take_exact.

(* regression for fix 43d7136: the model of the code before the fix returns 8 CPUs for a
   FullPCPUs request of 7 (exactness was false of it), the current model returns 7 *)
Example c06_take_exact_old_refuted :
  take_cpus_old (mkCfg overshoot_topo 1 0 true) overshoot_avail [] 7 1 = Some [4; 5; 6; 7; 12; 13; 20; 21]
  /\ lenZ [4; 5; 6; 7; 12; 13; 20; 21] <> 7
  /\ take_cpus (mkCfg overshoot_topo 1 0 true) overshoot_avail [] 7 1 = Some [4; 5; 6; 7; 12; 13; 14].
Proof. exact take_exact_old_refuted_lemma. Qed.

(* the search never fails while enough CPUs of the topology are free (all policies) *)
Theorem c06_take_complete : forall c avail allocated n bind,
  NoDup (map cid (c_topo c)) ->
  n <= lenZ (filter (fun x => memZ (cid x) avail) (c_topo c)) ->
  take_cpus c avail allocated n bind <> None.
Proof. exact take_cpus_complete. Qed.
Print Assumptions c06_take_complete.

(* takePreferredCPUs (reservation restore path): safe and exact *)
Theorem c06_take_preferred : forall c avail preferred allocated n bind s,
  NoDup (map cid (c_topo c)) ->
  take_preferred c avail preferred allocated n bind = Some s ->
  NoDup s /\ incl s avail /\ incl s (map cid (c_topo c)) /\ lenZ s = Z.max 0 n.
Proof. exact take_preferred_spec. Qed.
Print Assumptions c06_take_preferred.

(* ---- policy verification ---- *)
Theorem c06_fullpcpus_sound : forall T s,
  NoDup (map cid T) -> uniform_topo T = true -> NoDup s -> incl s (map cid T) ->
  determine_full T s = true -> cores_whole T s.
Proof. exact full_sound. Qed.
Print Assumptions c06_fullpcpus_sound.

Theorem c06_spread_sound : forall T s,
  NoDup (map cid T) -> NoDup s -> incl s (map cid T) ->
  determine_spread T s = true -> cores_distinct T s.
Proof. exact spread_sound. Qed.
Print Assumptions c06_spread_sound.

(* ---- allocateCPUSet (resourceManager.Allocate, CPU part) ---- *)
Theorem c06_allocate_cpuset : forall o st rq numa s,
  NoDup (map cid (o_topo o)) ->
  allocate_cpuset o st rq numa = Some s ->
  NoDup s /\ incl s (avail_of o st rq)
  /\ lenZ s = Z.max 0 (r_n rq)
  /\ (r_required rq = true -> satisfied_policy (r_bind rq) (o_topo o) s = true).
Proof. exact allocate_cpuset_spec. Qed.
Print Assumptions c06_allocate_cpuset.

(* a required FullPCPUs / SpreadByPCPUs policy that Allocate reports satisfied really is *)
Theorem c06_required_policy_sound : forall o st rq numa s,
  NoDup (map cid (o_topo o)) ->
  allocate_cpuset o st rq numa = Some s -> r_required rq = true ->
  (r_bind rq = 1 -> uniform_topo (o_topo o) = true -> cores_whole (o_topo o) s)
  /\ (r_bind rq = 2 -> cores_distinct (o_topo o) s).
Proof. exact allocate_policy_sound. Qed.
Print Assumptions c06_required_policy_sound.

(* ---- histories of Allocate+Update / Release / Update ---- *)
(* the ledger equals the from-scratch sum over the live pods after every history *)
Theorem c06_ledger : forall o ops,
  wf_opts o -> Forall op_wf ops -> ledger_exact (run o ops).
Proof. exact hist_ledger_exact. Qed.
Print Assumptions c06_ledger.

(* no CPU is held by more pods than the sharing limit, however allocations and releases
   interleave (default limit 1: the live pods' CPU sets are pairwise disjoint) *)
Theorem c06_sharing_limit : forall o ops,
  wf_opts o -> Forall op_sched ops -> within_limit (o_maxref o) (run o ops).
Proof. exact hist_limit. Qed.
Print Assumptions c06_sharing_limit.

(* ---- CPUs given back to the pod being scheduled (preferredCPUs of a matched reservation,
   preemptibleCPUs of a victim) ---- *)
(* getAvailableCPUs offers a CPU only if it is in the topology, not reserved, and the reference
   count remaining after the give-backs is below the sharing limit *)
Theorem c06_available_sound : forall T maxref rsv cs prefs i,
  1 <= maxref -> cs_wf cs -> (forall l, In l prefs -> NoDup l) ->
  In i (fst (available T maxref rsv cs prefs)) ->
  In i (map cid T) /\ ~ In i rsv /\ Z.max 0 (ref_in cs i - giveback_count prefs i) < maxref.
Proof. exact available_sound. Qed.
Print Assumptions c06_available_sound.

(* every history of Allocate (plain, out of a reservation's remaining CPUs, and/or preempting a
   victim whose CPUs are given back once) and Release: no CPU has more owners than the sharing
   limit, an owner being a live holder that is not nested in a live reservation holding the
   same CPU; and the ledger stays exact *)
Theorem c06_sharing_limit_giveback : forall o ops,
  wf_opts o -> gvalid o l_init [] ops ->
  fst (grun o l_init [] ops) = run o ops
  /\ within_limit_g (o_maxref o) (l_pods (run o ops)) (snd (grun o l_init [] ops))
  /\ ledger_exact (run o ops).
Proof. exact ghist_limit. Qed.
Print Assumptions c06_sharing_limit_giveback.

(* the give-back sets the harness / extracted model derive from the live allocations
   (Spec.concretize) always satisfy the validity condition of the theorem above *)
Theorem c06_concretize_valid : forall st es rq0 host0 victim0,
  linv st ->
  match r_hint rq0 with Some h => NoDup h | None => True end ->
  let '(rq, host, victim) := concretize (l_pods st) es rq0 host0 victim0 in
  op_valid_g st es (OAllocR rq host victim).
Proof. exact concretize_valid. Qed.
Print Assumptions c06_concretize_valid.

(* ---- concurrency at lock-section granularity (Update is one critical section) ---- *)
(* for every interleaving of Update calls that re-record a live pod p and every prefix of it
   (every point at which a concurrent Allocate can read the ledger): the ledger is exact, p is
   in it, and an Allocate is only given CPUs whose reference count is below the sharing limit;
   with the default limit 1 that is: none of p's CPUs *)
Theorem c06_conc_update : forall o st0 p ts l,
  wf_opts o -> linv st0 -> palloc_wf p -> palloc_empty p = false -> In p (l_pods st0) ->
  Lib.Interleave.interleaving ts l -> (forall t a, In t ts -> In a t -> a = OUpdate p) ->
  forall pre suf, l = pre ++ suf ->
  forall rq q,
    match r_hint rq with Some h => NoDup h | None => True end ->
    r_pref rq = [] -> r_preempt rq = [] ->
    allocate o (Lib.Interleave.exec (astep o) st0 pre) rq = Some q ->
    (forall i, In i (p_cpus q) -> ref_in (l_cpus (Lib.Interleave.exec (astep o) st0 pre)) i < o_maxref o)
    /\ (forall i, In i (p_cpus p) -> 1 <= ref_in (l_cpus (Lib.Interleave.exec (astep o) st0 pre)) i)
    /\ (o_maxref o = 1 -> forall i, In i (p_cpus q) -> ~ In i (p_cpus p)).
Proof. exact conc_update_allocate. Qed.
Print Assumptions c06_conc_update.

(* Release(rel) and Update(p) racing for the node's ledger (both fetch the NodeAllocation pointer,
   then lock it): whichever critical section runs first, on the same ledger, the ledger invariant
   holds, p is recorded and rel is gone — the state stream "conc" judges every race episode by *)
Theorem c06_race_release_update : forall st rel p,
  linv st -> palloc_wf p -> rel <> p_uid p ->
  let a := update (release st rel) p in
  let b := release (update st p) rel in
  linv a /\ linv b
  /\ In p (l_pods a) /\ In p (l_pods b)
  /\ ~ In rel (map p_uid (l_pods a)) /\ ~ In rel (map p_uid (l_pods b)).
Proof. exact race_release_update. Qed.
Print Assumptions c06_race_release_update.

Theorem c06_numa_capacity : forall o ops,
  wf_opts o -> nres_nonneg (o_cap o) -> Forall op_sched ops -> within_capacity o (run o ops).
Proof. exact hist_capacity. Qed.
Print Assumptions c06_numa_capacity.

(* ---- informer events (podEventHandler: watch events, re-list tombstones, ForgetPod hook) ---- *)
(* the handler turns every event into the resourceManager call that realises the property's
   reading of the event (Spec.event_effect, decided from the event's content alone) *)
Theorem c06_event_effect : forall e,
  match handle_event e with
  | Some (ORelease u) => event_effect e = EDead u
  | Some (OUpdate p) => event_effect e = ELive p /\ palloc_empty p = false
  | Some _ => False
  | None => event_effect e = ENone
  end.
Proof. exact handle_event_effect. Qed.
Print Assumptions c06_event_effect.

(* over every history of scheduler calls and informer events the ledger equals the from-scratch
   sum over the pods it records, and those pods are exactly the live pods recomputed from the
   history (Spec.live_next: the bookkeeping the decision procedure judges the implementation by) *)
Theorem c06_ledger_events : forall o hs,
  wf_opts o -> Forall item_wf hs ->
  ledger_exact (irun o hs) /\ l_pods (irun o hs) = live_hist o l_init [] hs.
Proof. exact ihist_ledger_live. Qed.
Print Assumptions c06_ledger_events.

(* a deletion reported by a watch event, by the tombstone of a re-list, or by the ForgetPod hook
   removes the pod: it is no longer recorded and the ledger is the sum over the remaining pods *)
Theorem c06_delete_event_forgets : forall o st e,
  wf_opts o -> linv st -> palloc_wf (ev_pod e) ->
  ev_is_deletion e = true -> ev_assigned e = true ->
  let st' := fst (istep o st (IEvent e)) in
  l_pods st' = pods_del (l_pods st) (p_uid (ev_pod e))
  /\ find_pod (p_uid (ev_pod e)) (l_pods st') = None
  /\ (forall i, ref_in (l_cpus st') i = ref_of_pods (pods_del (l_pods st) (p_uid (ev_pod e))) i)
  /\ (forall nd, lookup_res nd (l_numa st') = numa_of_pods (pods_del (l_pods st) (p_uid (ev_pod e))) nd).
Proof. exact event_delete_forgets. Qed.
Print Assumptions c06_delete_event_forgets.

(* sharing limit and NUMA capacity over histories that also contain informer events which do not
   restore an allocation from outside (deletes, tombstones, terminated / unassigned pods, ignored) *)
Theorem c06_sharing_limit_events : forall o hs,
  wf_opts o -> Forall item_sched hs -> within_limit (o_maxref o) (irun o hs).
Proof. exact ihist_limit. Qed.
Print Assumptions c06_sharing_limit_events.

Theorem c06_numa_capacity_events : forall o hs,
  wf_opts o -> nres_nonneg (o_cap o) -> Forall item_sched hs -> within_capacity o (irun o hs).
Proof. exact ihist_capacity. Qed.
Print Assumptions c06_numa_capacity_events.

(* ---- streams "ledger" / "conc": the dump clauses of the decision procedure ---- *)
(* in every state satisfying the ledger invariant the model's dump passes clauses 21-25 (ledger
   ascending, reference counts = recomputation from the pods, positive, NUMA ledger =
   recomputation, free CPUs = those below the limit and not reserved) *)
Theorem c06_dump_model_passes : forall o st es,
  wf_opts o -> linv st -> dump_code o (l_pods st) es false (dump_lobs o st) = 0.
Proof. exact dump_model_passes. Qed.
Print Assumptions c06_dump_model_passes.

(* ... hence after every history of scheduler calls and informer events, judged against the
   live pods recomputed from the history *)
Theorem c06_ledger_dump_passes : forall o hs es,
  wf_opts o -> Forall item_wf hs ->
  dump_code o (live_hist o l_init [] hs) es false (dump_lobs o (irun o hs)) = 0.
Proof. exact ihist_dump_passes. Qed.
Print Assumptions c06_ledger_dump_passes.

(* the wire encoding of the dump (run_case) decodes (prop_case) to the record judged above *)
Theorem c06_dump_wire : forall o st, dec_dump (dump o st) = (dump_lobs o st, []).
Proof. exact dec_dump_dump. Qed.
Print Assumptions c06_dump_wire.

(* ---- NUMA split ---- *)
Theorem c06_numa_exact : forall kind k req hav got,
  distribute1 kind k req hav = (got, 0) ->
  sumZ (map snd got) = req
  /\ (forall nd x, In (nd, x) got -> exists av, In (nd, av) hav /\ x <= av)
  /\ (0 <= k -> qinv kind req -> (forall p, In p hav -> 0 <= snd p) ->
      forall nd x, In (nd, x) got -> 0 <= x).
Proof. exact numa_exact_lemma. Qed.
Print Assumptions c06_numa_exact.

(* a freely divisible resource is placed whenever the hinted nodes together have enough,
   whichever node ids the hint names *)
Theorem c06_numa_complete : forall k req hav,
  0 <= req -> (forall p, In p hav -> 0 <= snd p) -> req <= sumZ (map snd hav) ->
  snd (distribute1 0 k req hav) = 0.
Proof. exact numa_complete_lemma. Qed.
Print Assumptions c06_numa_complete.

(* Allocate with a NUMA hint: exactly the requested amount of every requested resource, only on
   hinted nodes, never more from a node than it had free *)
Theorem c06_allocate_numa_exact : forall o st rq p hint,
  r_hint rq = Some hint -> NoDup hint ->
  allocate o st rq = Some p ->
  (0 <= r_cpu rq -> fst (sum_res (p_numa p)) = r_cpu rq)
  /\ (0 <= r_mem rq -> snd (sum_res (p_numa p)) = r_mem rq)
  /\ (forall e, In e (p_numa p) -> In (fst e) hint)
  /\ (forall nd, rle (numa_sum (p_numa p) nd) (lookup_res nd (numa_avail o st))).
Proof. exact allocate_numa_exact. Qed.
Print Assumptions c06_allocate_numa_exact.

(* ---- the decision procedure run on the implementation's observables is sound ---- *)
Theorem c06_take_code_sound : forall T avail n s sf ss,
  take_code T avail n (Some s) sf ss = 0 ->
  take_ok avail n s
  /\ (sf = true -> uniform_topo T = true -> cores_whole T s)
  /\ (ss = true -> cores_distinct T s).
Proof. exact take_code_sound. Qed.
Print Assumptions c06_take_code_sound.

Theorem c06_take_preferred_complete : forall c avail preferred allocated n bind,
  NoDup (map cid (c_topo c)) -> NoDup avail -> incl avail (map cid (c_topo c)) ->
  n <= lenZ avail ->
  take_preferred c avail preferred allocated n bind <> None.
Proof. exact take_preferred_complete. Qed.
Print Assumptions c06_take_preferred_complete.

(* stream "take": the decision procedure holds of the model's own observable, i.e.
   prop_case inp (run_case inp) = 0, for every well-formed input (all policies) *)
Theorem c06_take_model_passes : forall c avail preferred allocated n bind,
  NoDup (map cid (c_topo c)) -> NoDup avail -> incl avail (map cid (c_topo c)) ->
  match take_preferred c avail preferred allocated n bind with
  | Some s => take_code (c_topo c) avail n (Some (sortZ s))
                        (determine_full (c_topo c) s) (determine_spread (c_topo c) s) = 0
  | None => take_code (c_topo c) avail n None false false = 0
  end.
Proof. exact take_model_passes. Qed.
Print Assumptions c06_take_model_passes.

(* ---- non-vacuity ---- *)
Example c06_ex_opts : wf_opts (mkO overshoot_topo 1 [] true [(0, (8000, 64)); (1, (8000, 64)); (2, (8000, 64))]).
Proof. exact ex_opts_wf. Qed.
Example c06_ex_hist :
  Forall op_sched [OAlloc (mkR 1 4 true 1 false 0 (Some [0; 1]) 4000 8 [] []); ORelease 1;
                   OAlloc (mkR 2 2 true 2 true 1 None 2000 0 [] [])].
Proof. exact ex_hist_sched. Qed.
Example c06_ex_event_hist :
  let o := mkO overshoot_topo 1 [] true [] in
  let hs := [IOp (OAlloc (mkR 1 4 true 1 false 0 None 4000 0 [] []));
             IEvent (mkEv 3 true false false false (mkP 1 [] 0 []));
             IOp (OAlloc (mkR 2 4 true 1 false 0 None 4000 0 [] []))] in
  Forall item_sched hs
  /\ map p_uid (l_pods (irun o hs)) = [2]
  /\ map p_uid (l_pods (irun o (firstn 1 hs))) = [1].
Proof. exact ex_event_hist. Qed.
Example c06_ex_uniform : uniform_topo overshoot_topo = true /\ wf_topo overshoot_topo = true.
Proof. exact ex_uniform. Qed.
Example c06_ex_d1 : distribute1 0 1 8 [(1, 10); (2, 2)] = ([(2, 2); (1, 6)], 0).
Proof. exact ex_d1. Qed.
