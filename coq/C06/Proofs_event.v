(* C06 — informer events (podEventHandler): the handler turns every event into the
   resourceManager call that realises the property's reading of the event (Spec.event_effect);
   hence over every history of scheduler calls AND informer events (watch deletes, re-list
   tombstones, terminated / unassigned pods, malformed annotations, foreign objects) the pods
   the ledger records are exactly the live pods recomputed from the history, and the history
   invariants (exact ledger, sharing limit, NUMA capacity) carry over. *)
From Coq Require Import List ZArith Bool Lia.
From Verif Require Import C06.Model C06.Spec C06.Proofs_base C06.Proofs_ledger
  C06.Proofs_take C06.Proofs_alloc C06.Proofs_hist.
Import ListNotations.
Open Scope Z_scope.

Ltac zb_hyps := repeat match goal with
  | H : (_ =? _) = true |- _ => apply Z.eqb_eq in H
  | H : (_ =? _) = false |- _ => apply Z.eqb_neq in H
  | H : (_ <=? _) = true |- _ => apply Z.leb_le in H
  | H : (_ <=? _) = false |- _ => apply Z.leb_gt in H
  end.

(* ---- the handler realises the specification's reading of an event ---- *)
Lemma handle_event_effect e :
  match handle_event e with
  | Some (ORelease u) => event_effect e = EDead u
  | Some (OUpdate p) => event_effect e = ELive p /\ palloc_empty p = false
  | Some _ => False
  | None => event_effect e = ENone
  end.
Proof.
  unfold handle_event, event_effect, ev_carries_pod, ev_is_deletion, ev_update_pod, ev_delete_pod.
  destruct (ev_kind e =? 0) eqn:K0; destruct (ev_kind e =? 1) eqn:K1; destruct (ev_kind e =? 2) eqn:K2;
  destruct (ev_kind e =? 3) eqn:K3; destruct (ev_kind e =? 6) eqn:K6;
  destruct (0 <=? ev_kind e) eqn:R1; destruct (ev_kind e <=? 3) eqn:R2;
  try (exfalso; zb_hyps; lia); cbn;
  destruct (ev_assigned e), (ev_oldassigned e), (ev_terminated e), (ev_malformed e); cbn; try reflexivity;
  destruct (palloc_empty (ev_pod e)) eqn:E; cbn; try reflexivity; split; try reflexivity; exact E.
Qed.

(* ---- well-formed items ---- *)
Definition item_wf (h : item) : Prop :=
  match h with
  | IOp x => op_wf x
  | IEvent e => palloc_wf (ev_pod e)
  | IEcho _ => True
  end.

Lemma lower_wf st h x : linv st -> item_wf h -> lower (l_pods st) h = Some x -> op_wf x.
Proof.
  intros Hinv. destruct h as [y|e|uid]; cbn [lower item_wf]; intros Hw E.
  - inversion E; subst. exact Hw.
  - pose proof (handle_event_effect e) as H. rewrite E in H.
    destruct x as [rq|u|p|rq h v]; cbn [op_wf]; try exact I; try destruct H.
    unfold event_effect in H.
    repeat match type of H with
           | (if ?c then _ else _) = _ => destruct c; try discriminate
           end.
    inversion H; subst. exact Hw.
  - destruct (find_pod uid (l_pods st)) as [p|] eqn:F; [|discriminate]. inversion E; subst.
    cbn [op_wf]. destruct Hinv as [_ [_ [Hpw _]]]. apply Hpw. apply (find_pod_Some _ _ _ F).
Qed.

Lemma istep_linv o st h : wf_opts o -> item_wf h -> linv st -> linv (fst (istep o st h)).
Proof.
  intros Ho Hw Hinv. unfold istep. destruct (lower (l_pods st) h) as [x|] eqn:E; [|exact Hinv].
  apply step_linv; [exact Ho|exact (lower_wf st h x Hinv Hw E)|exact Hinv].
Qed.

Lemma irun_fold (P : lstate -> Prop) (Q : item -> Prop) o :
  (forall st h, Q h -> P st -> P (fst (istep o st h))) ->
  forall hs st, Forall Q hs -> P st -> P (fold_left (fun st h => fst (istep o st h)) hs st).
Proof.
  intros Hstep. induction hs as [|h hs IH]; intros st HQ HP; cbn [fold_left]; [exact HP|].
  inversion HQ; subst. apply IH; [assumption|]. apply Hstep; assumption.
Qed.

Lemma ihist_linv o hs : wf_opts o -> Forall item_wf hs -> linv (irun o hs).
Proof.
  intros Ho Hhs. unfold irun. apply (irun_fold linv item_wf o); [|exact Hhs|exact linv_init].
  intros st h Hh Hst. apply istep_linv; assumption.
Qed.

Lemma ihist_ledger_exact o hs : wf_opts o -> Forall item_wf hs -> ledger_exact (irun o hs).
Proof. intros Ho Hhs. destruct (ihist_linv o hs Ho Hhs) as [_ [_ [_ H]]]. exact H. Qed.

(* ---- the pods the ledger records are the live pods of the history ---- *)
Lemma update_pods_put st p : l_pods (update st p) = pods_put (l_pods st) p.
Proof. rewrite update_pods. reflexivity. Qed.
Lemma release_pods_del st uid : l_pods (release st uid) = pods_del (l_pods st) uid.
Proof. rewrite release_pods. reflexivity. Qed.

Lemma istep_live o st h :
  l_pods (fst (istep o st h)) = live_next (l_pods st) h (snd (istep o st h)).
Proof.
  unfold istep. destruct h as [x|e|u]; cbn [lower].
  - destruct x as [rq|uid|p|rq host victim]; cbn [step live_next].
    + destruct (allocate o st rq) as [p|]; cbn [fst snd]; [apply update_pods_put|reflexivity].
    + cbn [fst snd]. apply release_pods_del.
    + cbn [fst snd]. destruct (palloc_empty p); [reflexivity|apply update_pods_put].
    + destruct (allocate o st rq) as [p|]; cbn [fst snd]; [|reflexivity].
      rewrite update_pods_put. destruct victim; cbn [release_opt]; [rewrite release_pods_del|]; reflexivity.
  - pose proof (handle_event_effect e) as H. cbn [live_next].
    destruct (handle_event e) as [x|]; [|cbn [fst]; rewrite H; reflexivity].
    destruct x as [rq|uid|p|rq host victim]; [destruct H| | |destruct H]; cbn [step].
    + cbn [fst]. rewrite H. cbn [apply_effect]. apply release_pods_del.
    + destruct H as [H1 H2]. rewrite H1, H2. cbn [fst apply_effect]. apply update_pods_put.
  - cbn [live_next]. destruct (find_pod u (l_pods st)) as [p|]; [|reflexivity].
    cbn [step fst]. destruct (palloc_empty p); [reflexivity|apply update_pods_put].
Qed.

(* the live pods of a history, recomputed from its items and the allocations returned *)
Fixpoint live_hist (o : nopts) (st : lstate) (ps : list palloc) (hs : list item) : list palloc :=
  match hs with
  | [] => ps
  | h :: t => live_hist o (fst (istep o st h)) (live_next ps h (snd (istep o st h))) t
  end.

Lemma ihist_live_from o hs : forall st,
  l_pods (fold_left (fun st h => fst (istep o st h)) hs st) = live_hist o st (l_pods st) hs.
Proof.
  induction hs as [|h hs IH]; intros st; cbn [fold_left live_hist]; [reflexivity|].
  rewrite IH, istep_live. reflexivity.
Qed.

Lemma ihist_live o hs : l_pods (irun o hs) = live_hist o l_init [] hs.
Proof. unfold irun. rewrite ihist_live_from. reflexivity. Qed.

Lemma ihist_ledger_live o hs :
  wf_opts o -> Forall item_wf hs ->
  ledger_exact (irun o hs) /\ l_pods (irun o hs) = live_hist o l_init [] hs.
Proof. intros Ho Hhs. split; [exact (ihist_ledger_exact o hs Ho Hhs)|exact (ihist_live o hs)]. Qed.

(* a deletion reported in ANY of the three ways (watch event, tombstone of a re-list, ForgetPod
   hook) for a pod of this node removes it: afterwards the pod is not recorded and the ledger is
   the sum over the remaining pods *)
Lemma pods_del_absent ps uid : find_pod uid (pods_del ps uid) = None.
Proof.
  unfold find_pod, pods_del. induction ps as [|q ps IH]; [reflexivity|]. cbn [filter].
  destruct (p_uid q =? uid) eqn:E; cbn [negb]; [exact IH|]. cbn [find]. rewrite E. exact IH.
Qed.

Lemma event_delete_forgets o st e :
  wf_opts o -> linv st -> palloc_wf (ev_pod e) ->
  ev_is_deletion e = true -> ev_assigned e = true ->
  let st' := fst (istep o st (IEvent e)) in
  l_pods st' = pods_del (l_pods st) (p_uid (ev_pod e))
  /\ find_pod (p_uid (ev_pod e)) (l_pods st') = None
  /\ (forall i, ref_in (l_cpus st') i = ref_of_pods (pods_del (l_pods st) (p_uid (ev_pod e))) i)
  /\ (forall nd, lookup_res nd (l_numa st') = numa_of_pods (pods_del (l_pods st) (p_uid (ev_pod e))) nd).
Proof.
  intros Ho Hinv Hw Hd Ha st'.
  assert (Hp : l_pods st' = pods_del (l_pods st) (p_uid (ev_pod e))).
  { unfold st'. rewrite istep_live. cbn [live_next]. unfold event_effect.
    assert (Hc : ev_carries_pod e = true).
    { unfold ev_carries_pod, ev_is_deletion in *.
      destruct (ev_kind e =? 6); [apply orb_true_r|]. rewrite orb_false_r in *.
      apply orb_true_iff in Hd. destruct Hd as [Hd|Hd]; apply Z.eqb_eq in Hd; rewrite Hd; reflexivity. }
    rewrite Hc, Hd, Ha. reflexivity. }
  pose proof (istep_linv o st (IEvent e) Ho Hw Hinv) as [_ [_ [_ [L1 L2]]]]. fold st' in L1, L2.
  split; [exact Hp|]. split; [rewrite Hp; apply pods_del_absent|].
  split; [intros i; rewrite L1, Hp; reflexivity|intros nd; rewrite L2, Hp; reflexivity].
Qed.

(* ---- sharing limit and NUMA capacity over histories with informer events ---- *)
(* scheduling decisions, releases, every informer event that does not restore an allocation
   from outside (deletes, tombstones, terminated / unassigned pods, ignored events), and echoes
   of pods the ledger records *)
Definition item_sched (h : item) : Prop :=
  match h with
  | IOp x => op_sched x
  | IEvent e => match handle_event e with Some x => op_sched x | None => True end
  | IEcho _ => True
  end.

(* re-recording a pod the ledger records leaves every recomputed figure unchanged *)
Lemma ref_of_pods_put_same ps uid p i :
  NoDup (map p_uid ps) -> find_pod uid ps = Some p -> ref_of_pods (pods_put ps p) i = ref_of_pods ps i.
Proof.
  intros Hnd Hf. destruct (find_pod_Some _ _ _ Hf) as [_ Hu]. unfold pods_put. rewrite ref_of_pods_app, Hu.
  rewrite (ref_of_pods_remove ps uid p i Hnd Hf). lia.
Qed.
Lemma numa_of_pods_put_same ps uid p nd :
  NoDup (map p_uid ps) -> find_pod uid ps = Some p -> numa_of_pods (pods_put ps p) nd = numa_of_pods ps nd.
Proof.
  intros Hnd Hf. destruct (find_pod_Some _ _ _ Hf) as [_ Hu]. unfold pods_put. rewrite numa_of_pods_app, Hu.
  apply (numa_of_pods_remove ps uid p nd Hnd Hf).
Qed.

Lemma istep_sched_inv (P : lstate -> Prop) o :
  (forall st x, op_sched x -> linv st /\ P st -> linv (fst (step o st x)) /\ P (fst (step o st x))) ->
  (forall st uid p, linv st -> find_pod uid (l_pods st) = Some p -> P st ->
     P (if palloc_empty p then st else update st p)) ->
  wf_opts o ->
  forall st h, item_sched h -> linv st /\ P st -> linv (fst (istep o st h)) /\ P (fst (istep o st h)).
Proof.
  intros Hstep Hecho Ho st h Hh [Hinv HP]. unfold istep. destruct h as [x|e|u]; cbn [lower item_sched] in *.
  - apply Hstep; [exact Hh|split; assumption].
  - destruct (handle_event e) as [x|]; [|split; assumption]. apply Hstep; [exact Hh|split; assumption].
  - destruct (find_pod u (l_pods st)) as [p|] eqn:F; [|split; assumption]. cbn [step fst]. split.
    + destruct (palloc_empty p); [exact Hinv|]. apply update_inv; [exact Hinv|].
      destruct Hinv as [_ [_ [Hpw _]]]. apply Hpw. apply (find_pod_Some _ _ _ F).
    + apply (Hecho st u p Hinv F HP).
Qed.

Lemma ihist_limit o hs :
  wf_opts o -> Forall item_sched hs -> within_limit (o_maxref o) (irun o hs).
Proof.
  intros Ho Hhs. unfold irun.
  apply (irun_fold (fun st => linv st /\ within_limit (o_maxref o) st) item_sched o).
  - intros st h Hh Hst. apply (istep_sched_inv (within_limit (o_maxref o)) o); try assumption.
    + intros st0 x Hx H0. apply step_limit; assumption.
    + intros st0 uid p Hinv F Hlim. destruct (palloc_empty p); [exact Hlim|].
      intros i. rewrite update_pods_put. destruct Hinv as [_ [Hnd _]].
      rewrite (ref_of_pods_put_same _ uid p i Hnd F). apply Hlim.
  - exact Hhs.
  - split; [exact linv_init|]. intros i. unfold ref_of_pods. cbn. destruct Ho. lia.
Qed.

Lemma ihist_capacity o hs :
  wf_opts o -> nres_nonneg (o_cap o) -> Forall item_sched hs -> within_capacity o (irun o hs).
Proof.
  intros Ho Hcapnn Hhs. unfold irun.
  apply (irun_fold (fun st => linv st /\ within_capacity o st) item_sched o).
  - intros st h Hh Hst. apply (istep_sched_inv (within_capacity o) o); try assumption.
    + intros st0 x Hx H0. apply step_capacity; assumption.
    + intros st0 uid p Hinv F Hcap. destruct (palloc_empty p); [exact Hcap|].
      intros nd Hnd. rewrite update_pods_put. destruct Hinv as [_ [Hnodup _]].
      rewrite (numa_of_pods_put_same _ uid p nd Hnodup F). apply Hcap. exact Hnd.
  - exact Hhs.
  - split; [exact linv_init|]. intros nd Hnd. cbn.
    destruct (lookup_res_nonneg (o_cap o) nd Hcapnn) as [H1 H2]. unfold r0 in *. cbn in *. lia.
Qed.

(* non-vacuity: a pod is allocated, its deletion is missed and reported by a tombstone, and the
   CPUs are free for the next pod *)
Lemma ex_event_hist :
  let o := mkO overshoot_topo 1 [] true [] in
  let hs := [IOp (OAlloc (mkR 1 4 true 1 false 0 None 4000 0 [] []));
             IEvent (mkEv 3 true false false false (mkP 1 [] 0 []));
             IOp (OAlloc (mkR 2 4 true 1 false 0 None 4000 0 [] []))] in
  Forall item_sched hs
  /\ map p_uid (l_pods (irun o hs)) = [2]
  /\ map p_uid (l_pods (irun o (firstn 1 hs))) = [1].
Proof.
  cbn zeta. split; [|split; vm_compute; reflexivity].
  repeat constructor; cbn; auto.
Qed.
