(* C06 — the NUMA split (tryBestToDistributeEvenly / splitQuantity / allocateRes):
   exactness, bounds and completeness of [distribute1]. *)
From Coq Require Import List ZArith Bool Lia Permutation Sorting.Sorted.
From Verif Require Import C06.Model C06.Spec C06.Proofs_base.
Import ListNotations.
Open Scope Z_scope.

(* ------------------------------------------------------------------ the loop *)
Lemma dist_loop_sum : forall nodes kind k q m r q',
  dist_loop kind k q m nodes = (r, q') -> sumZ (map snd r) + q' = q.
Proof.
  induction nodes as [|[nd av] t IH]; intros kind k q m r q' H; cbn [dist_loop] in H.
  - inversion H; subst. cbn. lia.
  - destruct (dist_loop kind k (q - Z.min av (split kind k q m)) (m - 1) t) as [r1 q1] eqn:E.
    inversion H; subst. apply IH in E. cbn [map snd sumZ fold_right]. unfold sumZ in E. lia.
Qed.

Lemma dist_loop_le : forall nodes kind k q m r q' nd x,
  dist_loop kind k q m nodes = (r, q') -> In (nd, x) r ->
  exists av, In (nd, av) nodes /\ x <= av.
Proof.
  induction nodes as [|[n0 av] t IH]; intros kind k q m r q' nd x H Hin; cbn [dist_loop] in H.
  - inversion H; subst. destruct Hin.
  - destruct (dist_loop kind k (q - Z.min av (split kind k q m)) (m - 1) t) as [r1 q1] eqn:E.
    inversion H; subst. destruct Hin as [Hin|Hin].
    + inversion Hin; subst. exists av. split; [left; reflexivity|lia].
    + destruct (IH _ _ _ _ _ _ _ _ E Hin) as [av' [Ha Hb]]. exists av'. split; [right; exact Ha|exact Hb].
Qed.

(* range of the running remainder: non-negative for the divisible kind; for the whole-CPU
   kinds the rounding up of Value() can overshoot by less than one CPU *)
Definition qinv (kind q : Z) : Prop :=
  if (kind =? 1) || (kind =? 2) then -1000 < q else 0 <= q.

Lemma div_le_self a b : 0 <= a -> 0 < b -> a / b <= a.
Proof. intros Ha Hb. apply Z.div_le_upper_bound; nia. Qed.

Lemma split_bounds kind k q m :
  0 <= k -> 0 < m -> qinv kind q ->
  0 <= split kind k q m /\ qinv kind (q - split kind k q m).
Proof.
  intros Hk Hm Hq. unfold split, qinv in *.
  destruct (kind =? 1) eqn:E1; cbn [orb] in *.
  - assert (Hc : 0 <= (q + 999) / 1000) by (apply Z.div_pos; lia).
    assert (Hc2 : (q + 999) / 1000 * 1000 <= q + 999) by (pose proof (Z.mul_div_le (q + 999) 1000); lia).
    pose proof (div_le_self _ m Hc Hm) as Hd.
    assert (0 <= (q + 999) / 1000 / m) by (apply Z.div_pos; lia).
    split; nia.
  - destruct (kind =? 2) eqn:E2; cbn [orb] in *.
    + assert (Hc : 0 <= (q + 999) / 1000) by (apply Z.div_pos; lia).
      assert (Hc2 : (q + 999) / 1000 * 1000 <= q + 999) by (pose proof (Z.mul_div_le (q + 999) 1000); lia).
      destruct (Z.eq_dec k 0) as [K0|K0].
      * subst k. rewrite Zdiv_0_r. rewrite Zdiv_0_l. lia.
      * assert (Hk' : 0 < k) by lia.
        assert (H1 : 0 <= (q + 999) / 1000 / k) by (apply Z.div_pos; lia).
        assert (H2 : (q + 999) / 1000 / k * k <= (q + 999) / 1000)
          by (pose proof (Z.mul_div_le ((q + 999) / 1000) k Hk'); lia).
        assert (H3 : 0 <= (q + 999) / 1000 / k / m) by (apply Z.div_pos; lia).
        pose proof (div_le_self _ m H1 Hm) as H4.
        split; nia.
    + assert (0 <= q / m) by (apply Z.div_pos; lia).
      pose proof (div_le_self q m Hq Hm). split; lia.
Qed.

Lemma qinv_mono kind q s al : al <= s -> qinv kind (q - s) -> qinv kind (q - al).
Proof. unfold qinv. destruct ((kind =? 1) || (kind =? 2)); lia. Qed.

Lemma dist_loop_nonneg : forall nodes kind k q m r q',
  0 <= k -> m = lenZ nodes -> qinv kind q -> (forall p, In p nodes -> 0 <= snd p) ->
  dist_loop kind k q m nodes = (r, q') ->
  (forall p, In p r -> 0 <= snd p) /\ qinv kind q'.
Proof.
  induction nodes as [|[n0 av] t IH]; intros kind k q m r q' Hk Hm Hq Hav H; cbn [dist_loop] in H.
  - inversion H; subst. split; [intros p []|exact Hq].
  - destruct (dist_loop kind k (q - Z.min av (split kind k q m)) (m - 1) t) as [r1 q1] eqn:E.
    inversion H; subst. rewrite lenZ_cons in *.
    pose proof (lenZ_nonneg t) as Hl.
    destruct (split_bounds kind k q (1 + lenZ t) Hk ltac:(lia) Hq) as [Hs Hs'].
    assert (Hav0 : 0 <= av) by (apply (Hav (n0, av)); left; reflexivity).
    assert (Hq1 : qinv kind (q - Z.min av (split kind k q (1 + lenZ t))))
      by (eapply qinv_mono; [|exact Hs']; lia).
    destruct (IH kind k _ (1 + lenZ t - 1) r1 q' Hk ltac:(lia) Hq1
                 ltac:(intros p Hp; apply Hav; right; exact Hp) E) as [Ha Hb].
    split; [|exact Hb]. intros p [Hp|Hp]; [subst p; cbn [snd]; lia|apply Ha; exact Hp].
Qed.

(* ------------------------------------------------------------------ completeness *)
Lemma sum_ge_const (l : list (Z * Z)) c :
  (forall p, In p l -> c <= snd p) -> lenZ l * c <= sumZ (map snd l).
Proof.
  induction l as [|p l IH]; intros H; [cbn; lia|].
  rewrite lenZ_cons. cbn [map sumZ fold_right].
  assert (c <= snd p) by (apply H; left; reflexivity).
  assert (lenZ l * c <= sumZ (map snd l)) by (apply IH; intros q Hq; apply H; right; exact Hq).
  unfold sumZ in *. lia.
Qed.

(* hinted nodes visited in ascending order of their own free amount: the request is placed
   completely whenever it fits in total *)
Lemma dist_loop_complete : forall nodes k q r q',
  StronglySorted (fun a b => snd a <= snd b) nodes ->
  (forall p, In p nodes -> 0 <= snd p) ->
  0 <= q <= sumZ (map snd nodes) ->
  dist_loop 0 k q (lenZ nodes) nodes = (r, q') -> q' = 0.
Proof.
  induction nodes as [|[n0 av] t IH]; intros k q r q' Hs Hav Hq H; cbn [dist_loop] in H.
  - inversion H; subst. cbn in Hq. lia.
  - destruct (dist_loop 0 k (q - Z.min av (split 0 k q (lenZ ((n0, av) :: t)))) (lenZ ((n0, av) :: t) - 1) t)
      as [r1 q1] eqn:E.
    inversion H; subst. rewrite lenZ_cons in E.
    replace (1 + lenZ t - 1) with (lenZ t) in E by lia.
    inversion Hs as [|? ? Hs' Hall]; subst.
    pose proof (lenZ_nonneg t) as Hl.
    cbn [map snd sumZ fold_right] in Hq. fold (sumZ (map snd t)) in Hq.
    assert (Hav0 : 0 <= av) by (apply (Hav (n0, av)); left; reflexivity).
    set (m := 1 + lenZ t) in *. assert (Hm : 0 < m) by (unfold m; lia).
    unfold split in E. cbn [Z.eqb] in E.
    assert (Hd0 : 0 <= q / m) by (apply Z.div_pos; lia).
    pose proof (div_le_self q m ltac:(lia) Hm) as Hd1.
    eapply (IH k _ r1 q'); [exact Hs'| |  |exact E].
    + intros p Hp. apply Hav. right. exact Hp.
    + destruct (Z.le_gt_cases av (q / m)) as [Hc|Hc].
      * rewrite Z.min_l by exact Hc. lia.
      * rewrite Z.min_r by lia. split; [lia|].
        assert (Hge : lenZ t * (q / m + 1) <= sumZ (map snd t)).
        { apply sum_ge_const. intros p Hp. rewrite Forall_forall in Hall.
          specialize (Hall p Hp). cbn [snd] in Hall. lia. }
        pose proof (Z.div_mod q m ltac:(lia)) as Hdm.
        pose proof (Z.mod_pos_bound q m Hm) as Hmod.
        unfold m in *. nia.
Qed.

(* ------------------------------------------------------------------ distribute1 *)
Lemma avail_leb_key : avail_leb = key_leb (@snd Z Z).
Proof. reflexivity. Qed.

Lemma lookupZ_In : forall (l : list (Z * Z)) k v,
  NoDup (map fst l) -> In (k, v) l -> lookupZ k l = v.
Proof.
  induction l as [|[a b] l IH]; intros k v Hnd Hin; [destruct Hin|].
  cbn [lookupZ]. cbn [map fst] in Hnd. inversion Hnd as [|? ? Hx Hnd']; subst.
  destruct Hin as [Hin|Hin].
  - inversion Hin; subst. rewrite Z.eqb_refl. reflexivity.
  - destruct (a =? k) eqn:E.
    + apply Z.eqb_eq in E. subst. exfalso. apply Hx. apply in_map_iff. exists (k, v). auto.
    + apply IH; assumption.
Qed.

Lemma numa_exact_lemma kind k req hav got :
  distribute1 kind k req hav = (got, 0) ->
  sumZ (map snd got) = req
  /\ (forall nd x, In (nd, x) got -> exists av, In (nd, av) hav /\ x <= av)
  /\ (0 <= k -> qinv kind req -> (forall p, In p hav -> 0 <= snd p) ->
      forall nd x, In (nd, x) got -> 0 <= x).
Proof.
  unfold distribute1. intros H. split; [|split].
  - apply dist_loop_sum in H. lia.
  - intros nd x Hin. destruct (dist_loop_le _ _ _ _ _ _ _ _ _ H Hin) as [av [Ha Hb]].
    exists av. split; [|exact Hb]. apply (sort_by_In avail_leb hav). exact Ha.
  - intros Hk Hq Hav nd x Hin.
    assert (Hlen : lenZ hav = lenZ (sort_by avail_leb hav)).
    { unfold lenZ. f_equal. apply Permutation_length. apply Permutation_sym. apply sort_by_perm. }
    destruct (dist_loop_nonneg _ _ _ _ _ _ _ Hk Hlen Hq
                ltac:(intros p Hp; apply Hav; apply (sort_by_In avail_leb hav); exact Hp) H) as [Ha _].
    apply (Ha (nd, x) Hin).
Qed.

Lemma numa_complete_lemma k req hav :
  0 <= req -> (forall p, In p hav -> 0 <= snd p) -> req <= sumZ (map snd hav) ->
  snd (distribute1 0 k req hav) = 0.
Proof.
  intros Hreq Hav Hsum. unfold distribute1.
  destruct (dist_loop 0 k req (lenZ hav) (sort_by avail_leb hav)) as [r q'] eqn:E. cbn [snd].
  assert (Hperm : Permutation (sort_by avail_leb hav) hav) by apply sort_by_perm.
  assert (Hlen : lenZ hav = lenZ (sort_by avail_leb hav)).
  { unfold lenZ. f_equal. apply Permutation_length. apply Permutation_sym. exact Hperm. }
  rewrite Hlen in E.
  eapply dist_loop_complete; [| | |exact E].
  - rewrite avail_leb_key. apply sort_by_sorted.
  - intros p Hp. apply Hav. apply (sort_by_In avail_leb hav). exact Hp.
  - split; [exact Hreq|].
    assert (Hs : sumZ (map snd (sort_by avail_leb hav)) = sumZ (map snd hav)).
    { apply sumZ_perm. apply Permutation_map. exact Hperm. }
    lia.
Qed.
