(* C06, stream "take" — takePreferredCPUs / takeCPUs as a pure function.
   input : maxref n bind excl most  K (id sock node corelocal)*K  A avail*A  P pref*P  L (id ref excl)*L
   observable: [0] on error, else 1 k ids(ascending)*k fullpcpus_ok spread_ok *)
From Coq Require Import List ZArith Bool.
From Verif Require Import Lib.Wire C06.Model C06.Spec.
Import ListNotations.
Open Scope Z_scope.

Definition dec_cpu (l : list Z) : cpu * list Z :=
  match l with
  | i :: s :: n :: k :: t => (mkCpu i (s * 65536 + k) n s, t)
  | _ => (mkCpu 0 0 0 0, [])
  end.
Definition dec_ainfo (l : list Z) : ainfo * list Z :=
  match l with
  | i :: r :: e :: t => (mkA i r e, t)
  | _ => (mkA 0 0 0, [])
  end.

Record take_in := mkTI { ti_cfg : cfg; ti_n : Z; ti_bind : Z; ti_avail : list Z; ti_pref : list Z;
                         ti_allocated : list ainfo }.

Definition decode (inp : list Z) : take_in :=
  match inp with
  | maxref :: n :: bind :: excl :: most :: t =>
    let '(T, t1) := decode_seq dec_cpu t in
    let '(av, t2) := take_list t1 in
    let '(pf, t3) := take_list t2 in
    let '(al, _) := decode_seq dec_ainfo t3 in
    mkTI (mkCfg T maxref excl (zb most)) n bind (dedup av) (dedup pf) al
  | _ => mkTI (mkCfg [] 1 0 false) 0 0 [] [] []
  end.

Definition sortZ (l : list Z) : list Z := sort_by Z.leb l.

Definition run_case (inp : list Z) : list Z :=
  let i := decode inp in
  let T := c_topo (ti_cfg i) in
  match take_preferred (ti_cfg i) (ti_avail i) (ti_pref i) (ti_allocated i) (ti_n i) (ti_bind i) with
  | None => [0]
  | Some s => [1] ++ encode_list (sortZ s) ++ [bz (determine_full T s); bz (determine_spread T s)]
  end.

Definition dec_obs (obs : list Z) : option (option (list Z) * bool * bool) :=
  match obs with
  | [0] => Some (None, false, false)
  | 1 :: t => let '(s, r) := take_list t in
              match r with
              | [sf; ss] => Some (Some s, zb sf, zb ss)
              | _ => None
              end
  | _ => None
  end.

Definition prop_case (inp obs : list Z) : Z :=
  let i := decode inp in
  match dec_obs obs with
  | None => 99
  | Some (o, sf, ss) => take_code (c_topo (ti_cfg i)) (ti_avail i) (ti_n i) o sf ss
  end.

(* non-trivial: a well-formed topology, a request of at least two CPUs that fits, and some
   CPU already taken (so the free set is asymmetric) *)
Definition nontrivial_case (inp : list Z) : bool :=
  let i := decode inp in
  let T := c_topo (ti_cfg i) in
  wf_topo T && (2 <=? ti_n i) && (ti_n i <=? lenZ (ti_avail i)) && (lenZ (ti_avail i) <? lenZ T).

(* no known finding: the FullPCPUs overshoot was fixed in 43d7136 *)
Definition finding_sig (inp obs : list Z) : Z := 0.

Require Extraction.
Require Import ExtrOcamlBasic.
Extraction "model.ml" run_case prop_case nontrivial_case finding_sig.
