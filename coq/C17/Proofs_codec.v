(* C17 — the wire codec round-trips on the model's own observations, hence the theorem about
   exactly the two functions the driver runs: [prop_case inp (run_case inp) = 0] for every input. *)
From Coq Require Import List ZArith Bool Lia.
From Verif Require Import Lib.Wire C17.Model C17.Spec C17.Codec C17.Proofs_ver C17.Proofs_frame C17.Proofs_trace C17.Proofs.
Import ListNotations.
Open Scope Z_scope.

Lemma zb_bz b : zb (bz b) = b.
Proof. destruct b; reflexivity. Qed.

Lemma parse_effs_enc es : forall rest,
  parse_effs (length es) (flat_map enc_eff es ++ rest) = Some (es, rest).
Proof.
  induction es as [|e t IH]; intros rest; [reflexivity|].
  destruct e as [k ok [a1 a2 a3 a4 a5 a6 a7 a8 a9 a10] ph].
  cbn [length flat_map enc_eff enc_stamp ek eok est eph st_rex st_rphase st_rnode st_rsched st_rexpired
       st_rbound st_needp st_pdone st_puid st_pnode app parse_effs].
  cbn [length Nat.ltb Nat.leb firstn skipn].
  rewrite IH. unfold parse_eff, at_. cbn [nth].
  rewrite !zb_bz. destruct k; reflexivity.
Qed.

Lemma parse_job_enc j0 j : consts j = consts j0 -> parse_job j0 (enc_job j) = j.
Proof.
  unfold consts. intros C. inversion C. destruct j; cbn in *. unfold parse_job, at_. cbn.
  rewrite zb_bz. subst. reflexivity.
Qed.

Lemma parse_ores_enc r : parse_ores (enc_ores r) = r.
Proof. destruct r as [[[l o] n]|]; cbn; [|reflexivity]. unfold parse_ores, at_. cbn. rewrite !zb_bz. reflexivity. Qed.

Lemma split17 (a b rest : list Z) : length a = 14%nat -> length b = 4%nat ->
  Nat.ltb (length (a ++ b ++ rest)) 18 = false
  /\ firstn 14 (a ++ b ++ rest) = a
  /\ skipn 14 (firstn 18 (a ++ b ++ rest)) = b
  /\ skipn 18 (a ++ b ++ rest) = rest.
Proof.
  intros La Lb.
  do 15 (destruct a as [|? a]; try discriminate La).
  do 5 (destruct b as [|? b]; try discriminate Lb).
  cbn. repeat split; reflexivity.
Qed.

Lemma enc_job_length j : length (enc_job j) = 14%nat.
Proof. reflexivity. Qed.
Lemma enc_ores_length r : length (enc_ores r) = 4%nat.
Proof. destruct r as [[[? ?] ?]|]; reflexivity. Qed.

Lemma parse_obs_enc j0 obs :
  (forall o, In o obs -> consts (o_job o) = consts j0) ->
  parse_obs j0 (length obs) (flat_map enc_obs obs) = Some obs.
Proof.
  induction obs as [|o t IH]; intros C; [reflexivity|].
  cbn [length flat_map]. unfold enc_obs at 1. cbn [app parse_obs].
  destruct (Z.of_nat (length (o_effs o)) <? 0) eqn:N; [apply Z.ltb_lt in N; lia|].
  rewrite Nat2Z.id. rewrite <- !app_assoc. rewrite parse_effs_enc.
  destruct (split17 (enc_job (o_job o)) (enc_ores (o_res o)) (flat_map enc_obs t)
                    (enc_job_length _) (enc_ores_length _)) as (S1 & S2 & S3 & S4).
  rewrite S1, S2, S3, S4.
  rewrite IH by (intros; apply C; right; assumption).
  rewrite parse_job_enc by (apply C; left; reflexivity).
  rewrite parse_ores_enc. destruct o; reflexivity.
Qed.

(* every observation of a history carries the constant part of the initial job *)
Lemma obs_consts fx ops : forall s o, W s -> In o (obs_from fx s ops) -> consts (o_job o) = consts (sj s).
Proof.
  induction ops as [|op t IH]; intros s o HW I; [destruct I|].
  rewrite obs_from_cons in I. destruct I as [<-|I].
  - cbn [obs_of o_job]. apply step_consts; auto.
  - rewrite (IH _ _ (W_step fx s op HW) I). apply step_consts; auto.
Qed.

Lemma eq_listZ_refl l : eq_listZ l l = true.
Proof. induction l as [|x t IH]; cbn; [reflexivity|]. rewrite Z.eqb_refl, IH. reflexivity. Qed.

Theorem wire_model inp :
  prop_case inp (run_case inp) = 0
  \/ (prop_case inp (run_case inp) = 8 /\ finding_sig inp (run_case inp) = 2).
Proof.
  unfold prop_case, finding_sig. rewrite eq_listZ_refl.
  unfold run_case. destruct (decode inp) as [j0 ops].
  assert (L : length ops = length (observe j0 ops)).
  { unfold observe. rewrite observe_fx_eq. symmetry. apply obs_length. }
  rewrite L. rewrite parse_obs_enc.
  - destruct (prop_code_model j0 ops) as [P|P]; [left; exact P|right].
    rewrite P. split; [|reflexivity].
    unfold finding_code in P.
    destruct ((prop_code j0 ops (observe j0 ops) =? 7) && _); [discriminate|].
    destruct (prop_code j0 ops (observe j0 ops) =? 8) eqn:E; [apply Z.eqb_eq; exact E|discriminate].
  - intros o I. unfold observe in I. rewrite observe_fx_eq in I.
    apply (obs_consts _ _ _ _ (W_init j0) I).
Qed.
