(* C17 — wire codec: decoding of the flat-integer input into (initial job, operations), encoding
   of observations and the parser used on the implementation's observable. No proofs here. *)
From Coq Require Import List ZArith Bool.
From Verif Require Import Lib.Wire C17.Model C17.Spec.
Import ListNotations.
Open Scope Z_scope.

Definition OPW : nat := 12.

Definition at_ (l : list Z) (k : nat) : Z := nth k l 0.

(* fault mask -> 16 fault bits, bit k for the k-th API write of the reconcile *)
Definition bits (m : Z) : list bool := map (fun i => Z.testbit m (Z.of_nat i)) (seq 0 16).

Definition dec_res (a : list Z) : option res :=
  if zb (at_ a 1) then
    Some (mkRes (zb (at_ a 2)) (at_ a 3) (at_ a 4) (at_ a 5) (zb (at_ a 6)) (at_ a 7) (at_ a 8)
                (zb (at_ a 9)) (zb (at_ a 10)) (zb (at_ a 11)))
  else None.

Definition dec_pod (a : list Z) : option pod :=
  if zb (at_ a 1) then Some (mkPod (at_ a 2) (at_ a 3) (at_ a 4) (zb (at_ a 5))) else None.

Definition dec_op (a : list Z) : op :=
  let k := at_ a 0 in
  if k =? 0 then OReconcile (bits (at_ a 1))
  else if k =? 1 then OSetRes (dec_res a)
  else if k =? 2 then OSetPod (dec_pod a)
  else if k =? 3 then OSetBP (at_ a 1)
  else if k =? 4 then OTick (at_ a 1)
  else if k =? 5 then ORestart
  else if k =? 6 then OStale (at_ a 1)
  else if k =? 7 then OSched (at_ a 1)
  else OAlloc (at_ a 1).

Fixpoint dec_ops (n : nat) (l : list Z) : list op :=
  match n with
  | O => []
  | S n' => dec_op (firstn OPW l) :: dec_ops n' (skipn OPW l)
  end.

Definition decode (inp : list Z) : job * list op :=
  (init_job (Z.odd (at_ inp 0)) (zb (at_ inp 1)) (at_ inp 2) (zb (at_ inp 3)) (at_ inp 4) (zb (at_ inp 5)) (zb (at_ inp 6)) (at_ inp 7),
   dec_ops (Z.to_nat (at_ inp 8)) (skipn 9 inp)).

(* ---- observations -> integers ---- *)
Definition enc_stamp (s : stamp) : list Z :=
  [bz (st_rex s); st_rphase s; st_rnode s; st_rsched s; bz (st_rexpired s); st_rbound s;
   bz (st_needp s); bz (st_pdone s); st_puid s; st_pnode s].
Definition enc_kind (k : ekind) : Z := match k with EEvict => 1 | ECreate => 2 | EDelete => 3 | EWrite => 4 end.
Definition enc_eff (e : effect) : list Z := enc_kind (ek e) :: bz (eok e) :: enc_stamp (est e) ++ [eph e].
Definition enc_job (j : job) : list Z :=
  [phase j; sstatus j; reason j; jnode j; spodref j; puid j; bz (rref j);
   cRC j; cRS j; cEv j; cPS j; cPB j; cBR j; cRB j].
Definition enc_ores (r : option (bool * Z * bool)) : list Z :=
  match r with None => [0; 0; 0; 0] | Some (l, ow, on) => [1; bz l; ow; bz on] end.
Definition enc_obs (o : oobs) : list Z :=
  Z.of_nat (length (o_effs o)) :: flat_map enc_eff (o_effs o) ++ enc_job (o_job o) ++ enc_ores (o_res o).

(* ---- integers -> observations (the constant part of the job comes from the input) ---- *)
Definition parse_kind (k : Z) : option ekind :=
  if k =? 1 then Some EEvict else if k =? 2 then Some ECreate else if k =? 3 then Some EDelete
  else if k =? 4 then Some EWrite else None.

Definition parse_eff (a : list Z) : option effect :=
  match parse_kind (at_ a 0) with
  | Some k => Some (mkEff k (zb (at_ a 1))
                          (mkStamp (zb (at_ a 2)) (at_ a 3) (at_ a 4) (at_ a 5) (zb (at_ a 6)) (at_ a 7)
                                   (zb (at_ a 8)) (zb (at_ a 9)) (at_ a 10) (at_ a 11))
                          (at_ a 12))
  | None => None
  end.

Fixpoint parse_effs (n : nat) (l : list Z) : option (list effect * list Z) :=
  match n with
  | O => Some ([], l)
  | S n' =>
      if Nat.ltb (length l) 13 then None else
      match parse_eff (firstn 13 l) with
      | Some e => match parse_effs n' (skipn 13 l) with
                  | Some (es, r) => Some (e :: es, r)
                  | None => None
                  end
      | None => None
      end
  end.

Definition parse_job (j0 : job) (a : list Z) : job :=
  mkJob (paused j0) (direct j0) (ttl j0) (pvalid j0) (owner j0) (tmpl j0) (at_ a 5) (zb (at_ a 6))
        (at_ a 0) (at_ a 1) (at_ a 2) (at_ a 3) (at_ a 4)
        (at_ a 7) (at_ a 8) (at_ a 9) (at_ a 10) (at_ a 11) (at_ a 12) (at_ a 13).

Definition parse_ores (a : list Z) : option (bool * Z * bool) :=
  if zb (at_ a 0) then Some (zb (at_ a 1), at_ a 2, zb (at_ a 3)) else None.

Fixpoint parse_obs (j0 : job) (n : nat) (l : list Z) : option (list oobs) :=
  match n with
  | O => match l with [] => Some [] | _ => None end
  | S n' =>
      match l with
      | [] => None
      | k :: t =>
          if k <? 0 then None else
          match parse_effs (Z.to_nat k) t with
          | None => None
          | Some (es, r) =>
              if Nat.ltb (length r) 18 then None else
              match parse_obs j0 n' (skipn 18 r) with
              | Some os => Some (mkObs es (parse_job j0 (firstn 14 r)) (parse_ores (skipn 14 (firstn 18 r))) :: os)
              | None => None
              end
          end
      end
  end.

(* in how many operations the persisted job changes *)
Fixpoint changes (prev : job) (obs : list oobs) : nat :=
  match obs with
  | [] => O
  | o :: t => ((if job_eqb (o_job o) prev then 0 else 1) + changes (o_job o) t)%nat
  end.

(* ---- the four entry points of the generic driver (extracted by Extract.v) ---- *)
Definition run_case (inp : list Z) : list Z :=
  let '(j0, ops) := decode inp in
  flat_map enc_obs (observe j0 ops).

(* property decision on the implementation's observable; 0 = holds, otherwise clause number
   (9 = the observable does not parse: crash or truncated log) *)
Definition prop_case (inp obs : list Z) : Z :=
  let '(j0, ops) := decode inp in
  match parse_obs j0 (length ops) obs with
  | Some o => prop_code j0 ops o
  | None => 9
  end.

(* non-trivial: the model run issues at least one recorded API call other than a job write
   (eviction, reservation create or delete) and the job changes in at least two operations *)
Definition is_call (e : effect) : bool := match ek e with EWrite => false | _ => true end.
Definition nontrivial_case (inp : list Z) : bool :=
  let '(j0, ops) := decode inp in
  let obs := observe j0 ops in
  negb (Nat.eqb (length (filter is_call (flat_map o_effs obs))) 0) && Nat.leb 2 (changes j0 obs).

Fixpoint eq_listZ (a b : list Z) : bool :=
  match a, b with
  | [], [] => true
  | x :: a', y :: b' => (x =? y) && eq_listZ a' b'
  | _, _ => false
  end.

(* the known-finding shapes of the current tree: 2 = a job failed for timeout leaves behind a
   reservation it created but never recorded (Spec.finding_code) AND the implementation's whole
   observable is the one the faithful model predicts for this input — a leak in a history where the
   model adopts the reservation, records the reference and deletes it is a plain violation.
   Shape 1 (same-node check cached) was repaired by commit 025e424: a plain violation too. *)
Definition finding_sig (inp obs : list Z) : Z :=
  let '(j0, ops) := decode inp in
  match parse_obs j0 (length ops) obs with
  | Some o => if (finding_code j0 ops o =? 2) && eq_listZ obs (run_case inp) then 2 else 0
  | None => 0
  end.
