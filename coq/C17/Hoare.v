(* C17 — a small Hoare logic for the stage combinators of Model.v: [sat QS QG o] says that the
   outcome [o] of a stage satisfies [QS] if the reconcile stopped there and [QG] if it goes on. *)
From Coq Require Import List ZArith Bool Lia.
From Verif Require Import C17.Model.
Import ListNotations.
Open Scope Z_scope.

Definition sat (QS QG : ctx -> Prop) (o : outc) : Prop :=
  match o with Stop c => QS c | Go c => QG c end.

Lemma sat_andthen (QS R QG : ctx -> Prop) o g :
  sat QS R o -> (forall c, R c -> sat QS QG (g c)) -> sat QS QG (andthen o g).
Proof. destruct o; cbn; auto. Qed.

Lemma sat_halt (QS QG : ctx -> Prop) o : sat QS QS o -> sat QS QG (halt o).
Proof. destruct o; cbn; auto. Qed.

Lemma sat_weaken (QS QG QS' QG' : ctx -> Prop) o :
  sat QS QG o -> (forall c, QS c -> QS' c) -> (forall c, QG c -> QG' c) -> sat QS' QG' o.
Proof. destruct o; cbn; auto. Qed.

Lemma sat_ctx_of (Q : ctx -> Prop) o : sat Q Q o -> Q (ctx_of o).
Proof. destruct o; cbn; auto. Qed.

Lemma abort_stop c rs : exists c', abort c rs = Stop c'.
Proof.
  unfold abort, wjob, pop. destruct (cf c) as [|[|] ?]; cbn; try (eexists; reflexivity);
  destruct (cstale c); cbn; eexists; reflexivity.
Qed.

(* symbolic execution of one (small) stage: split on every test, reduce the combinators *)
Ltac stage_simpl :=
  cbn [andthen halt abort updcond wjob with_job with_res with_eff sat cj cr cf ce cstale cw fst snd].

Ltac stage_split1 :=
  match goal with
  | |- context [match cf ?c with _ => _ end] => destruct (cf c) as [|[|] ?] eqn:?
  | |- context [match ?l with [] => _ | _ :: _ => _ end] => destruct l as [|[|] ?]
  | |- context [if ?b then _ else _] => destruct b eqn:?
  | |- context [match ?x with Some _ => _ | None => _ end] => destruct x eqn:?
  end.

Ltac stage_exec := unfold abort, updcond, wjob, pop; stage_simpl; repeat (stage_split1; stage_simpl).

(* composition: [andthen (stage c) k] with a proved stage lemma [L : pre c -> sat QS R (stage c)] *)
Ltac hoare_bind L := eapply sat_andthen; [ eapply L; eauto | cbv beta; intros ? ? ].

Ltac enum_unfold :=
  unfold PH_EMPTY, PH_PENDING, PH_RUNNING, PH_SUCCEEDED, PH_FAILED, PH_ABORTED,
         SS_RC, SS_RS, SS_EV, SS_PS, SS_PB, SS_BR, SS_COMPLETE,
         RS_NONE, RS_TIMEOUT, RS_INVALIDPOD, RS_MISSINGPOD, RS_MISSINGRES, RS_EXPIRED, RS_FORBIDDEN,
         RS_UNSCHED, RS_FAILEDCREATE, RS_EVICTING, RS_EVICTCOMPLETE, RS_WAITBIND, RS_WAITREADY,
         C_NONE, C_TRUE, C_FALSE, RP_EMPTY, RP_PENDING, RP_AVAILABLE, RP_SUCCEEDED, RP_WAITING, RP_FAILED,
         SC_SCHEDULED, SC_UNSCHED, OW_OBJECT in *.
