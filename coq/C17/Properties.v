(* C17 — exported theorems only: each is closed by [exact] and followed by Print Assumptions. *)
From Coq Require Import List ZArith Bool.
From Verif Require Import C17.Model C17.Spec C17.Proofs.
Import ListNotations.
Open Scope Z_scope.

Theorem c17_terminal_absorbing_step : forall fx s f,
  terminal (phase (sj s)) = true -> reconcile fx s f = (s, []).
Proof. exact reconcile_terminal. Qed.
Print Assumptions c17_terminal_absorbing_step.
