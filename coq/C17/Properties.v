(* C17 — exported theorems only: each is closed by [exact] and followed by Print Assumptions.
   [fx] is the variant of the controller (Model.recheck_same_node; true = /repo since 025e424). *)
From Coq Require Import List ZArith Bool.
From Verif Require Import C17.Model C17.Spec C17.Codec C17.Proofs_ver C17.Proofs_wabs C17.Proofs_own C17.Proofs_trace C17.Proofs_spec
  C17.Proofs C17.Proofs_codec.
Import ListNotations.
Open Scope Z_scope.

(* [W s] (Proofs_ver): the assumed-cache guard is armed (the controller remembers the version the job
   has now) or the informer has no older version of the job to serve. It holds for the job as created,
   is preserved by every operation (c17_W_invariant) and makes the controller skip every lagging read
   (c17_lagging_read_skipped). *)
Theorem c17_W_invariant : forall fx s o, W s -> W (fst (step fx s o)).
Proof. exact W_step. Qed.
Print Assumptions c17_W_invariant.

Theorem c17_lagging_read_skipped : forall fx s f, W s -> lag_of s <> O ->
  reconcile fx s f = (unlag s, []).
Proof. exact lagging_read_skipped. Qed.
Print Assumptions c17_lagging_read_skipped.

(* ---- one reconcile: ANY persisted job, ANY environment, ANY fault bits, ANY informer lag ---- *)

(* reservation-first mode: an eviction call is only issued while the reservation exists, is not
   pending, not expired, is scheduled (or its preemption is complete), is not consumed by a pod, and
   sits on another node than the pod *)
Theorem c17_evict_guard : forall s f x, W s ->
  direct (sj s) = false -> In x (snd (reconcile true s f)) -> is_evict x = true ->
  secured (est x) /\ other_node (est x).
Proof. exact reconcile_evict_guard. Qed.
Print Assumptions c17_evict_guard.

(* succeeded / failed / aborted: job and reservation untouched, no call at all *)
Theorem c17_terminal_absorbing : forall fx s f, W s ->
  terminal (phase (sj s)) = true ->
  sj (fst (reconcile fx s f)) = sj s /\ sr (fst (reconcile fx s f)) = sr s /\ snd (reconcile fx s f) = [].
Proof. exact reconcile_terminal. Qed.
Print Assumptions c17_terminal_absorbing.

(* a reconcile that fails the job for timeout leaves no reservation behind (job with a ReservationRef) *)
Theorem c17_timeout_deletes_reservation : forall fx s f, W s ->
  timed_out (sj s) (sj (fst (reconcile fx s f))) = true -> rref (sj s) = true ->
  sr (fst (reconcile fx s f)) = None.
Proof. exact reconcile_timeout. Qed.
Print Assumptions c17_timeout_deletes_reservation.

(* without API errors: at most one eviction call per reconcile, none once an eviction is recorded in
   the job status, and the record is never lost *)
Theorem c17_reconcile_evicts_once : forall fx s f, W s -> existsb (fun b => b) f = false ->
  (length (filter is_evict (snd (reconcile fx s f))) <= 1)%nat
  /\ (cEv (sj s) = C_TRUE \/ cEv (sj s) = C_FALSE ->
      filter is_evict (snd (reconcile fx s f)) = []
      /\ (cEv (sj (fst (reconcile fx s f))) = C_TRUE \/ cEv (sj (fst (reconcile fx s f))) = C_FALSE)).
Proof. exact reconcile_no_faults_once. Qed.
Print Assumptions c17_reconcile_evicts_once.

(* at the granularity of API writes: walking the calls of one reconcile in order (every successful job
   write is a recorded call carrying the phase it persists), once a terminal phase is persisted no
   later write changes the phase and no eviction / reservation creation follows *)
Theorem c17_reconcile_write_absorbing : forall fx s f, W s ->
  wabs (phase (sj s)) (snd (reconcile fx s f)).
Proof. exact reconcile_wabs. Qed.
Print Assumptions c17_reconcile_write_absorbing.

(* the reservation the controller creates is allocate-once and has no current owner, whatever the
   user-supplied template of the job says (reservation.CreateOrUpdateReservationOptions) *)
Theorem c17_created_reservation_allocate_once : forall j p, good (new_res j p).
Proof. exact good_new. Qed.
Print Assumptions c17_created_reservation_allocate_once.

(* [good r]: allocate-once, and a current owner only together with phase Succeeded. [oinv own ro]: if the
   history says the reservation is the job's own creation ([own], Spec.mine_next), it exists and is good.
   One reconcile keeps the invariant (the controller only creates or deletes the object, and either
   ends the reconcile) and stamps every eviction call with the reservation it started with *)
Theorem c17_reconcile_own_invariant : forall fx s f own, W s -> oinv own (sr s) ->
  oinv (own_after own (snd (reconcile fx s f))) (sr (fst (reconcile fx s f)))
  /\ (forall x, In x (snd (reconcile fx s f)) -> is_evict x = true ->
      est x = stamp_of (sr s) (sp s) /\ eph x = puid_of (sp s)).
Proof. exact reconcile_own. Qed.
Print Assumptions c17_reconcile_own_invariant.

(* every operation keeps it: the scheduler's in-place transitions (schedule a pending reservation;
   allocate a pod from an available one, which consumes an allocate-once reservation) preserve
   [good]; replacing the object resets [own] *)
Theorem c17_step_own_invariant : forall fx s o own, W s -> oinv own (sr s) ->
  oinv (mine_next own o (obs_of (step fx s o))) (sr (fst (step fx s o))).
Proof. exact step_own. Qed.
Print Assumptions c17_step_own_invariant.

(* reservation-first mode: no eviction call while the job's own reservation lists a current owner *)
Theorem c17_reconcile_evict_unbound : forall fx s f own, W s -> oinv own (sr s) -> direct (sj s) = false ->
  own = true -> unbound_evicts (snd (reconcile fx s f)).
Proof. exact reconcile_unbound. Qed.
Print Assumptions c17_reconcile_evict_unbound.

(* ---- all histories of reconciles, environment events, faults, lagging reads and restarts, from ANY
        well-versioned start state ---- *)

Theorem c17_trace_evict_guard : forall fx ops s, W s -> direct (sj s) = false ->
  forall o e, In o (obs_from fx s ops) -> In e (o_effs o) -> is_evict e = true ->
  secured (est e) /\ (fx = true -> other_node (est e)).
Proof. exact trace_guard. Qed.
Print Assumptions c17_trace_evict_guard.

Theorem c17_trace_terminal_absorbing : forall fx ops s, W s -> absorbing (sj s) (obs_from fx s ops).
Proof. exact trace_absorbing. Qed.
Print Assumptions c17_trace_terminal_absorbing.

Theorem c17_trace_timeout_deletes : forall fx ops s, W s -> timeout_deletes (sj s) (obs_from fx s ops).
Proof. exact trace_timeout. Qed.
Print Assumptions c17_trace_timeout_deletes.

(* clause 11 for all histories *)
Theorem c17_trace_write_absorbing : forall fx ops s, W s -> write_absorbing (sj s) (obs_from fx s ops).
Proof. exact trace_wabs. Qed.
Print Assumptions c17_trace_write_absorbing.

(* clause 10 for all histories, from any start state whose reservation satisfies the invariant *)
Theorem c17_trace_evict_unbound : forall fx ops s own, W s -> oinv own (sr s) -> direct (sj s) = false ->
  evict_unbound own ops (obs_from fx s ops).
Proof. exact trace_unbound. Qed.
Print Assumptions c17_trace_evict_unbound.

(* clause 12 for all histories: the pod handed to the evictor is the pod as read from the API at that instant *)
Theorem c17_trace_evict_target : forall fx ops s, W s -> evict_target (obs_from fx s ops).
Proof. exact trace_target. Qed.
Print Assumptions c17_trace_evict_target.

(* with no API errors anywhere in the history the job evicts at most once *)
Theorem c17_evict_at_most_once : forall fx ops s, W s -> at_most_once ops (obs_from fx s ops).
Proof. exact trace_once. Qed.
Print Assumptions c17_evict_at_most_once.

(* ---- the property, over the same definitions Extract.v runs ---- *)

Theorem c17_prop_code_spec : forall j0 ops obs, prop_code j0 ops obs = 0 <-> C17_holds j0 ops obs.
Proof. exact prop_code_spec. Qed.
Print Assumptions c17_prop_code_spec.

(* clauses 1-7, 10, 11, 12 (everything but the strict timeout clause 8) for all histories of the current variant *)
Theorem c17_core_all_histories : forall j0 ops, C17_core j0 ops (observe_fx true j0 ops).
Proof. exact core_all_histories. Qed.
Print Assumptions c17_core_all_histories.

(* clause 8 (strict reading of "an expired job deletes its reservation") can only fail at a step that
   started WITHOUT a recorded ReservationRef — from any start state, in both variants *)
Theorem c17_leak_only_unrecorded : forall fx ops s mine, W s ->
  leak_only_unrecorded mine (sj s) ops (obs_from fx s ops) = true.
Proof. exact trace_leak_shape. Qed.
Print Assumptions c17_leak_only_unrecorded.

(* [observe] is the variant Extract.v runs (breaks if Model.recheck_same_node is flipped back):
   the property holds, or only clause 8 fails and the failure has the known shape sig 2 *)
Theorem c17_prop_code_model : forall j0 ops,
  prop_code j0 ops (observe j0 ops) = 0 \/ finding_code j0 ops (observe j0 ops) = 2.
Proof. exact prop_code_model. Qed.
Print Assumptions c17_prop_code_model.

(* clause 8 is refuted by the faithful model: known finding sig 2 (corpus case l1, replayed on the code) *)
Theorem c17_timeout_leak_refuted :
  exists inp, let '(j0, ops) := decode inp in
    prop_code j0 ops (observe j0 ops) = 8 /\ finding_code j0 ops (observe j0 ops) = 2.
Proof. exact timeout_leak_refuted. Qed.
Print Assumptions c17_timeout_leak_refuted.

(* the functions the driver runs (Extract.v extracts exactly these): on EVERY input the decision
   procedure accepts the model's own observable or reports exactly the known finding, so any other
   property failure reported by the check comes from the implementation's observable *)
Theorem c17_wire_model : forall inp,
  prop_case inp (run_case inp) = 0
  \/ (prop_case inp (run_case inp) = 8 /\ finding_sig inp (run_case inp) = 2).
Proof. exact wire_model. Qed.
Print Assumptions c17_wire_model.

(* ---- regression record of the finding repaired by 025e424 (variant argument false) ---- *)

Theorem c17_old_other_node_refuted :
  exists inp, let '(j0, ops) := decode inp in
    prop_code j0 ops (observe_fx false j0 ops) = 7 /\ prop_code j0 ops (observe_fx true j0 ops) = 0.
Proof. exact old_other_node_refuted. Qed.
Print Assumptions c17_old_other_node_refuted.

(* every violation of the old variant is a same-node eviction in a reconcile that started with the
   same-node check already cached in the job status (sig 1), or the timeout leak (sig 2) *)
Theorem c17_old_violations_are_the_known_shapes : forall j0 ops,
  prop_code j0 ops (observe_fx false j0 ops) = 0
  \/ finding_code j0 ops (observe_fx false j0 ops) = 1 \/ finding_code j0 ops (observe_fx false j0 ops) = 2.
Proof. exact old_only_known_shapes. Qed.
Print Assumptions c17_old_violations_are_the_known_shapes.

(* ---- non-vacuity ---- *)
Definition ex_pod1 := mkPod 1 1 2 true.
Definition ex_job := init_job false false 5 true 1 false false 0.
(* a migration that evicts exactly once and succeeds *)
Definition ex_happy : list op :=
  [OSetPod (Some ex_pod1); OReconcile []; OSetRes (Some (mkRes true RP_AVAILABLE 2 SC_SCHEDULED false 1 0 false false true));
   OReconcile []; OSetPod None; OSetRes (Some (mkRes true RP_SUCCEEDED 2 SC_SCHEDULED false 1 2 false false true));
   OReconcile []; OReconcile []; OTick 9; OReconcile []].
Example c17_ex_happy :
  count_evicts (observe ex_job ex_happy) = 1%nat
  /\ phase (o_job (last (observe ex_job ex_happy) (mkObs [] ex_job None))) = PH_SUCCEEDED
  /\ no_faults ex_happy = true.
Proof. vm_compute. repeat split. Qed.
(* a job that times out after its reservation was created: the reservation is deleted *)
Definition ex_timeout : list op :=
  [OSetPod (Some ex_pod1); OReconcile []; OTick 7; OReconcile []].
Example c17_ex_timeout :
  map (fun o => (phase (o_job o), reason (o_job o), o_res o)) (observe ex_job ex_timeout)
  = [(PH_PENDING, 0, None); (PH_RUNNING, 0, Some (true, 1, true)); (PH_RUNNING, 0, Some (true, 1, true)); (PH_FAILED, RS_TIMEOUT, None)].
Proof. vm_compute. reflexivity. Qed.
(* an eviction that is refused: reservation on the pod's own node *)
Example c17_ex_same_node :
  let ops := [OSetPod (Some ex_pod1); OReconcile [];
              OSetRes (Some (mkRes true RP_AVAILABLE 1 SC_SCHEDULED false 1 0 false false true)); OReconcile []] in
  count_evicts (observe ex_job ops) = 0%nat
  /\ reason (o_job (last (observe ex_job ops) (mkObs [] ex_job None))) = RS_FORBIDDEN.
Proof. vm_compute. split; reflexivity. Qed.
(* a lagging informer read one write behind (the version without the Evicting condition) right after
   the evicting reconcile: skipped by the guard, still exactly one eviction; W holds at the start *)
Example c17_ex_lagging :
  let ops := [OSetPod (Some ex_pod1); OReconcile [];
              OSetRes (Some (mkRes true RP_AVAILABLE 2 SC_SCHEDULED false 1 0 false false true)); OReconcile [];
              OStale 1; OReconcile []; OReconcile []] in
  count_evicts (observe ex_job ops) = 1%nat /\ W (init_state ex_job)
  /\ lag_of (fst (last (run true (init_state ex_job) (firstn 5 ops)) (init_state ex_job, []))) = 1%nat.
Proof. vm_compute. repeat split. right. reflexivity. Qed.

(* the scheduler hands the job's reservation to a sibling pod before the controller looks again: the
   job is failed (Forbidden) and nothing is evicted — also when the user's template asks for a
   reusable reservation (tmpl 3 = AllocateOnce false): the created object is allocate-once anyway.
   Without the allocation the same history evicts (with [own] true: clause 10 is not vacuous) *)
Definition ex_job_tmpl := init_job false false 0 true 1 false false 3.
Definition ex_sibling (alloc : bool) : list op :=
  [OSetPod (Some ex_pod1); OReconcile []; OSched 2] ++ (if alloc then [OAlloc 3] else []) ++ [OReconcile []; OReconcile []].
Example c17_ex_sibling :
  count_evicts (observe ex_job_tmpl (ex_sibling true)) = 0%nat
  /\ reason (o_job (last (observe ex_job_tmpl (ex_sibling true)) (mkObs [] ex_job None))) = RS_FORBIDDEN
  /\ map o_res (firstn 2 (observe ex_job_tmpl (ex_sibling true))) = [None; Some (true, 1, true)]
  /\ count_evicts (observe ex_job_tmpl (ex_sibling false)) = 1%nat
  /\ fold_left (fun own x => mine_next own (fst x) (snd x))
               (combine (firstn 3 (ex_sibling false)) (observe ex_job_tmpl (ex_sibling false))) false = true.
Proof. vm_compute. repeat split. Qed.
(* the decision procedure rejects an eviction against an own reservation that lists another owner, and a
   phase change / reservation creation after a terminal write inside one reconcile (what the model
   never does) *)
Example c17_ex_clauses_10_11_reject :
  let st := mkStamp true RP_AVAILABLE 2 SC_SCHEDULED false 3 false false 1 1 in
  unbound_evictsb [mkEff EEvict true st 0] = false
  /\ wabsb PH_PENDING [mkEff EWrite true stamp0 PH_FAILED; mkEff EWrite true stamp0 PH_RUNNING] = false
  /\ wabsb PH_PENDING [mkEff EWrite true stamp0 PH_FAILED; mkEff ECreate true stamp0 0] = false
  /\ wabsb PH_PENDING [mkEff EWrite true stamp0 PH_RUNNING; mkEff ECreate true stamp0 0; mkEff EWrite true stamp0 PH_RUNNING] = true.
Proof. vm_compute. repeat split. Qed.
