(* C17 — proofs about the model (see Properties.v for the exported statements). *)
From Coq Require Import List ZArith Bool Lia.
From Verif Require Import C17.Model C17.Spec.
Import ListNotations.
Open Scope Z_scope.

(* terminal phases short-circuit: the reconcile is the identity and records nothing *)
Lemma reconcile_terminal fx s f :
  terminal (phase (sj s)) = true -> reconcile fx s f = (s, []).
Proof.
  intros T. unfold reconcile. destruct (ignored (sj s) (sgen s)); [reflexivity|].
  unfold do_migrate. cbn [cj]. rewrite T.
  destruct (paused (sj s)); cbn [ctx_of cj cr ce]; destruct s; reflexivity.
Qed.
