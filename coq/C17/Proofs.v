(* C17 — the statements exported by Properties.v, assembled from the passes. *)
From Coq Require Import List ZArith Bool Lia.
From Verif Require Import C17.Model C17.Spec C17.Codec C17.Hoare C17.Proofs_ver C17.Proofs_once C17.Proofs_guard
  C17.Proofs_frame C17.Proofs_trace C17.Proofs_spec.
Import ListNotations.
Open Scope Z_scope.

(* ---- one reconcile, any well-versioned state ([W]), any faults ---- *)
Lemma reconcile_terminal fx s f : W s ->
  terminal (phase (sj s)) = true ->
  sj (fst (reconcile fx s f)) = sj s /\ sr (fst (reconcile fx s f)) = sr s /\ snd (reconcile fx s f) = [].
Proof. exact (reconcile_terminal_eq fx s f). Qed.

Lemma reconcile_evict_guard s f x : W s ->
  direct (sj s) = false -> In x (snd (reconcile true s f)) -> is_evict x = true ->
  secured (est x) /\ other_node (est x).
Proof.
  intros HW D I E. destruct (reconcile_guard true s f x HW D I E) as (S & [N|(F & _)]); [auto|discriminate].
Qed.

Lemma reconcile_timeout fx s f : W s ->
  timed_out (sj s) (sj (fst (reconcile fx s f))) = true -> rref (sj s) = true ->
  sr (fst (reconcile fx s f)) = None.
Proof. intros HW. apply (reconcile_frame fx s f HW). Qed.

Lemma reconcile_no_faults_once fx s f : W s -> existsb (fun b => b) f = false ->
  (length (filter is_evict (snd (reconcile fx s f))) <= 1)%nat
  /\ (cEv (sj s) = C_TRUE \/ cEv (sj s) = C_FALSE ->
      filter is_evict (snd (reconcile fx s f)) = []
      /\ (cEv (sj (fst (reconcile fx s f))) = C_TRUE \/ cEv (sj (fst (reconcile fx s f))) = C_FALSE)).
Proof.
  intros HW NF. destruct (reconcile_once fx s f HW NF) as (L & O & K). split; [exact L|].
  intros E. split; [|exact (K E)].
  unfold nev in *. destruct (filter is_evict (snd (reconcile fx s f))) as [|a [|b t]] eqn:F; auto.
  - destruct (O eq_refl) as (N & _). contradiction.
  - cbn in L. lia.
Qed.

(* the staleness guard: under [W] a lagging read is never acted upon, and [W] is an invariant *)
Lemma lagging_read_skipped fx s f : W s -> lag_of s <> O ->
  reconcile fx s f = (unlag s, []).
Proof.
  intros HW L. unfold reconcile. destruct (lag_of s) as [|k] eqn:E; [contradiction|].
  destruct HW as [HA|HO].
  - rewrite HA. unfold rejected.
    assert (H : sver s - Z.of_nat (S k) <? sver s = true) by (apply Z.ltb_lt; lia).
    rewrite H. reflexivity.
  - unfold lag_of in E. rewrite HO in E. cbn [length] in E. rewrite Nat.min_0_r in E. discriminate.
Qed.

(* ---- all histories, from the job as created ---- *)
Lemma core_fx fx j0 ops :
  length (observe_fx fx j0 ops) = length ops /\ evict_guard j0 (observe_fx fx j0 ops)
  /\ absorbing j0 (observe_fx fx j0 ops) /\ timeout_deletes j0 (observe_fx fx j0 ops)
  /\ at_most_once ops (observe_fx fx j0 ops) /\ frame j0 ops (observe_fx fx j0 ops)
  /\ (direct j0 = false -> evict_unbound false ops (observe_fx fx j0 ops))
  /\ write_absorbing j0 (observe_fx fx j0 ops)
  /\ evict_target (observe_fx fx j0 ops).
Proof.
  rewrite observe_fx_eq. repeat match goal with |- _ /\ _ => split end.
  - apply obs_length.
  - intros D o e Io Ie Ev. apply (trace_guard fx ops (init_state j0) (W_init j0) D o e Io Ie Ev).
  - apply (trace_absorbing fx ops (init_state j0) (W_init j0)).
  - apply (trace_timeout fx ops (init_state j0) (W_init j0)).
  - apply trace_once. apply W_init.
  - apply (trace_frame fx ops (init_state j0)).
  - intros D. apply (trace_unbound fx ops (init_state j0) false (W_init j0) (oinv_false _) D).
  - apply (trace_wabs fx ops (init_state j0) (W_init j0)).
  - apply (trace_target fx ops (init_state j0) (W_init j0)).
Qed.

(* clauses 1-7, 10, 11, 12 *)
Theorem core_all_histories j0 ops : C17_core j0 ops (observe_fx true j0 ops).
Proof.
  destruct (core_fx true j0 ops) as (L & G & A & T & O & F & U & Wa & Tg). unfold C17_core.
  repeat match goal with |- _ /\ _ => split end; auto.
  rewrite observe_fx_eq. intros D o e Io Ie Ev.
  apply (trace_guard true ops (init_state j0) (W_init j0) D o e Io Ie Ev). reflexivity.
Qed.

Lemma leak_shape fx j0 ops : leak_only_unrecorded false j0 ops (observe_fx fx j0 ops) = true.
Proof. rewrite observe_fx_eq. apply (trace_leak_shape fx ops (init_state j0) false (W_init j0)). Qed.

(* the current model: the property holds, or the only failing clause is the strict timeout clause 8
   and the failure has the shape of the known finding (sig 2) *)
Theorem prop_code_model j0 ops :
  prop_code j0 ops (observe j0 ops) = 0 \/ finding_code j0 ops (observe j0 ops) = 2.
Proof.
  unfold observe. change recheck_same_node with true.
  destruct (core_all_histories j0 ops) as (L & G & A & T & O & F & N & U & Wa & Tg).
  assert (P := prop_code_tail j0 ops _ L G A T O F).
  apply evict_other_nodeb_spec in N. apply unbound_guardb_spec in U. apply write_absorbingb_spec in Wa.
  apply evict_targetb_spec in Tg. rewrite N, U, Wa, Tg in P. cbn in P.
  unfold finding_code. rewrite P.
  destruct (timeout_cleansb false j0 ops (observe_fx true j0 ops)); cbn; [left; reflexivity|right].
  rewrite leak_shape. reflexivity.
Qed.

(* ---- the variant before commit 025e424 (regression record of the finding) ---- *)
Theorem old_only_known_shapes j0 ops :
  prop_code j0 ops (observe_fx false j0 ops) = 0
  \/ finding_code j0 ops (observe_fx false j0 ops) = 1 \/ finding_code j0 ops (observe_fx false j0 ops) = 2.
Proof.
  destruct (core_fx false j0 ops) as (L & G & A & T & O & F & U & Wa & Tg).
  assert (P := prop_code_tail j0 ops _ L G A T O F).
  apply unbound_guardb_spec in U. apply write_absorbingb_spec in Wa. apply evict_targetb_spec in Tg.
  rewrite U, Wa, Tg in P.
  unfold finding_code. rewrite P.
  destruct (evict_other_nodeb j0 (observe_fx false j0 ops)) eqn:N; cbn.
  - destruct (timeout_cleansb false j0 ops (observe_fx false j0 ops)); cbn; [left; reflexivity|right; right].
    rewrite leak_shape. reflexivity.
  - right; left. destruct (direct j0) eqn:D.
    + unfold evict_other_nodeb in N. rewrite D in N. discriminate.
    + rewrite observe_fx_eq. pose proof (trace_shape_old ops (init_state j0) (W_init j0) D) as Sh.
      cbn [init_state sj] in Sh. rewrite Sh. reflexivity.
Qed.

(* the corpus case f1: pod u1 on n1, reservation scheduled on n2, the eviction call fails once,
   the pod is replaced by u2 on n2, the retry evicts it *)
Definition witness_f1 : list Z :=
  [0;0;0;1;1;0;0;0;6; 2;1;1;1;2;1;0;0;0;0;0;0; 0;0;0;0;0;0;0;0;0;0;0;0; 1;1;1;2;2;1;0;1;0;0;0;1;
   0;4;0;0;0;0;0;0;0;0;0;0; 2;1;2;2;2;1;0;0;0;0;0;0; 0;0;0;0;0;0;0;0;0;0;0;0].

Theorem old_other_node_refuted :
  exists inp, let '(j0, ops) := decode inp in
    prop_code j0 ops (observe_fx false j0 ops) = 7 /\ prop_code j0 ops (observe_fx true j0 ops) = 0.
Proof. exists witness_f1. vm_compute. split; reflexivity. Qed.

(* the known finding sig 2 (corpus case l1, replayed on the real code with correspondence = true):
   the Update that records ReservationRef fails (4th write), the TTL passes before the next
   reconcile, the job is failed for timeout and the reservation it created still exists *)
Definition witness_l1 : list Z :=
  [0;0;5;1;1;0;0;0;4; 2;1;1;1;2;1;0;0;0;0;0;0; 0;8;0;0;0;0;0;0;0;0;0;0; 4;6;0;0;0;0;0;0;0;0;0;0;
   0;0;0;0;0;0;0;0;0;0;0;0].

Theorem timeout_leak_refuted :
  exists inp, let '(j0, ops) := decode inp in
    prop_code j0 ops (observe j0 ops) = 8 /\ finding_code j0 ops (observe j0 ops) = 2.
Proof. exists witness_l1. vm_compute. split; reflexivity. Qed.
