(* C17 — the trace theorems: inductions over the operation history on top of the per-reconcile
   lemmas (Proofs_guard, Proofs_once, Proofs_frame). Everything is stated from an ARBITRARY start
   state, so the start state of the harness ([init_state j0]) is a special case. *)
From Coq Require Import List ZArith Bool Lia.
From Verif Require Import C17.Model C17.Spec C17.Hoare C17.Proofs_ver C17.Proofs_once C17.Proofs_guard C17.Proofs_frame
  C17.Proofs_wabs C17.Proofs_own.
Import ListNotations.
Open Scope Z_scope.

Definition obs_from (fx : bool) (s : state) (ops : list op) : list oobs := map obs_of (run fx s ops).

Lemma obs_from_cons fx s o t :
  obs_from fx s (o :: t) = obs_of (step fx s o) :: obs_from fx (fst (step fx s o)) t.
Proof. reflexivity. Qed.

Lemma observe_fx_eq fx j0 ops : observe_fx fx j0 ops = obs_from fx (init_state j0) ops.
Proof. reflexivity. Qed.

(* ---- one step ---- *)
Lemma step_job_env fx s o :
  match o with OReconcile _ => True | _ => sj (fst (step fx s o)) = sj s /\ snd (step fx s o) = [] end.
Proof. destruct o; cbn; auto. Qed.

Lemma step_consts fx s o : W s -> consts (sj (fst (step fx s o))) = consts (sj s).
Proof.
  intros HW. destruct o; try reflexivity. cbn [step]. apply (reconcile_frame fx s faults HW).
Qed.

Lemma step_direct fx s o : W s -> direct (sj (fst (step fx s o))) = direct (sj s).
Proof. intros HW. pose proof (step_consts fx s o HW) as H. unfold consts in H. congruence. Qed.

Lemma step_terminal fx s o : W s -> terminal (phase (sj s)) = true ->
  sj (fst (step fx s o)) = sj s /\ snd (step fx s o) = [].
Proof.
  intros HW T. destruct o; try (cbn; auto; fail).
  cbn [step]. destruct (reconcile_terminal_eq fx s faults HW T) as (A & _ & B). auto.
Qed.

Lemma step_timeout fx s o : W s ->
  timed_out (sj s) (sj (fst (step fx s o))) = true -> rref (sj s) = true -> sr (fst (step fx s o)) = None.
Proof.
  intros HW.
  destruct o; try (cbn [step fst sj]; intros T; apply timed_out_failed in T;
                   destruct T as (T & P & _); rewrite (terminal_failed _ P) in T; discriminate).
  cbn [step]. apply (reconcile_frame fx s faults HW).
Qed.

Lemma step_guard fx s o x : W s ->
  direct (sj s) = false -> In x (snd (step fx s o)) -> is_evict x = true ->
  secured (est x) /\ (other_node (est x) \/ (fx = false /\ check_cached (sj s) = true)).
Proof.
  intros HW. destruct o; try (cbn; tauto). cbn [step]. apply reconcile_guard; auto.
Qed.

Lemma step_once fx s o : W s -> no_faults_op o = true ->
  let r := step fx s o in
  (nev (snd r) <= 1)%nat
  /\ (nev (snd r) = 1%nat -> ~ evd (sj s) /\ evd (sj (fst r)))
  /\ (evd (sj s) -> evd (sj (fst r))).
Proof.
  intros HW.
  destruct o; try (cbn; intros; repeat split; auto; try lia; intros; discriminate).
  cbn [step no_faults_op]. intros NF. apply reconcile_once; [exact HW|]. unfold nofault.
  apply negb_true_iff in NF. exact NF.
Qed.

(* ---- histories ---- *)
Lemma obs_length fx s ops : length (obs_from fx s ops) = length ops.
Proof. unfold obs_from. revert s. induction ops as [|o t IH]; intros s; cbn; auto. Qed.

Theorem trace_guard fx ops : forall s, W s -> direct (sj s) = false ->
  forall o e, In o (obs_from fx s ops) -> In e (o_effs o) -> is_evict e = true ->
  secured (est e) /\ (fx = true -> other_node (est e)).
Proof.
  induction ops as [|op t IH]; intros s HW D o e I; [destruct I|].
  rewrite obs_from_cons in I. destruct I as [<-|I].
  - cbn [obs_of o_effs]. intros Ie Ev. destruct (step_guard fx s op e HW D Ie Ev) as (S & N).
    split; [exact S|]. intros F. destruct N as [N|(F' & _)]; [exact N|congruence].
  - apply (IH (fst (step fx s op))); auto; [apply W_step; auto|]. rewrite step_direct; auto.
Qed.

Theorem trace_absorbing fx ops : forall s, W s -> absorbing (sj s) (obs_from fx s ops).
Proof.
  induction ops as [|op t IH]; intros s HW; [exact I|].
  rewrite obs_from_cons. cbn [absorbing obs_of o_job o_effs]. split; [|apply IH; apply W_step; auto].
  intros T. apply step_terminal; auto.
Qed.

Theorem trace_timeout fx ops : forall s, W s -> timeout_deletes (sj s) (obs_from fx s ops).
Proof.
  induction ops as [|op t IH]; intros s HW; [exact I|].
  rewrite obs_from_cons. cbn [timeout_deletes obs_of o_job o_res]. split; [|apply IH; apply W_step; auto].
  intros T R. rewrite (step_timeout fx s op HW T R). reflexivity.
Qed.

Theorem trace_frame fx ops : forall s, frame (sj s) ops (obs_from fx s ops).
Proof.
  induction ops as [|op t IH]; intros s; [exact I|].
  rewrite obs_from_cons. cbn [frame obs_of o_job o_effs]. split; [|apply IH].
  pose proof (step_job_env fx s op) as H. destruct op; auto.
Qed.

Lemma count_evicts_cons o t : count_evicts (o :: t) = (nev (o_effs o) + count_evicts t)%nat.
Proof. unfold count_evicts, nev. cbn. rewrite filter_app, app_length. reflexivity. Qed.

(* the count invariant: nothing recorded yet, or one eviction and the job remembers it *)
Lemma trace_once_gen fx ops : forall s, W s -> no_faults ops = true ->
  (evd (sj s) -> count_evicts (obs_from fx s ops) = 0%nat)
  /\ (count_evicts (obs_from fx s ops) <= 1)%nat.
Proof.
  induction ops as [|op t IH]; intros s HW NF; [cbn; auto|].
  cbn [no_faults forallb] in NF. apply andb_true_iff in NF. destruct NF as (NF1 & NF2).
  rewrite obs_from_cons, count_evicts_cons. cbn [obs_of o_effs].
  destruct (step_once fx s op HW NF1) as (L & O & K).
  destruct (IH (fst (step fx s op)) (W_step fx s op HW) NF2) as (Z0 & L1).
  split.
  - intros E. rewrite (Z0 (K E)).
    destruct (Nat.eq_dec (nev (snd (step fx s op))) 1) as [E1|E1]; [destruct (O E1) as (N & _); contradiction|lia].
  - destruct (Nat.eq_dec (nev (snd (step fx s op))) 1) as [E1|E1]; [|lia].
    destruct (O E1) as (_ & E'). rewrite (Z0 E'). lia.
Qed.

Theorem trace_once fx ops s : W s -> at_most_once ops (obs_from fx s ops).
Proof. intros HW NF. apply (trace_once_gen fx ops s HW NF). Qed.

(* old variant: every same-node eviction happens in an operation that started with the check cached *)
Theorem trace_shape_old ops : forall s, W s -> direct (sj s) = false ->
  same_node_only_cached (sj s) (obs_from false s ops) = true.
Proof.
  induction ops as [|op t IH]; intros s HW D; [reflexivity|].
  rewrite obs_from_cons. cbn [same_node_only_cached obs_of o_job]. apply andb_true_iff. split.
  - destruct (check_cached (sj s)) eqn:CC; [apply orb_true_r|]. rewrite orb_false_r.
    unfold evicts_other_node. cbn [o_effs]. apply forallb_forall. intros x Ix.
    destruct (is_evict x) eqn:Ev; [|reflexivity]. cbn.
    destruct (step_guard false s op x HW D Ix Ev) as (_ & [N|(_ & C)]); [|congruence].
    unfold other_node in N. unfold other_nodeb.
    destruct N as [N|N]; [rewrite N; reflexivity|].
    apply Z.eqb_neq in N. rewrite N. apply orb_true_r.
  - apply IH; [apply W_step; auto|]. rewrite step_direct; auto.
Qed.

(* clause 8 can only fail at a step that started without a recorded ReservationRef *)
Theorem trace_leak_shape fx ops : forall s mine, W s ->
  leak_only_unrecorded mine (sj s) ops (obs_from fx s ops) = true.
Proof.
  induction ops as [|op t IH]; intros s mine HW; [reflexivity|].
  rewrite obs_from_cons. cbn [leak_only_unrecorded obs_of o_job o_res]. apply andb_true_iff.
  split; [|apply IH; apply W_step; auto].
  destruct (timed_out (sj s) (sj (fst (step fx s op)))) eqn:T; [|reflexivity].
  destruct (rref (sj s)) eqn:R; [|rewrite !orb_true_r; reflexivity].
  rewrite (step_timeout fx s op HW T R). cbn. rewrite orb_true_r. reflexivity.
Qed.

(* clause 11: at the granularity of API writes, nothing follows the write of a terminal phase *)
Lemma step_wabs fx s o : W s -> wabs (phase (sj s)) (snd (step fx s o)).
Proof. intros HW. destruct o; try exact I. cbn [step]. apply reconcile_wabs; auto. Qed.

Theorem trace_wabs fx ops : forall s, W s -> write_absorbing (sj s) (obs_from fx s ops).
Proof.
  induction ops as [|op t IH]; intros s HW; [exact I|].
  rewrite obs_from_cons. cbn [write_absorbing obs_of o_job o_effs]. split; [|apply IH; apply W_step; auto].
  apply step_wabs; auto.
Qed.

(* clause 10: no eviction call against a reservation of the job's own making that lists a current
   owner — from any start state whose reservation satisfies the invariant for [own] *)
Theorem trace_unbound fx ops : forall s own, W s -> oinv own (sr s) -> direct (sj s) = false ->
  evict_unbound own ops (obs_from fx s ops).
Proof.
  induction ops as [|op t IH]; intros s own HW O D; [exact I|].
  rewrite obs_from_cons. cbn [evict_unbound obs_of o_effs]. split.
  - intros T. apply (step_unbound fx s op own HW O D T).
  - apply IH; [apply W_step; auto|apply step_own; auto|rewrite step_direct; auto].
Qed.

Lemma oinv_false ro : oinv false ro.
Proof. intros T; discriminate. Qed.

(* clause 12 *)
Theorem trace_target fx ops : forall s, W s -> evict_target (obs_from fx s ops).
Proof.
  induction ops as [|op t IH]; intros s HW o e I; [destruct I|].
  rewrite obs_from_cons in I. destruct I as [<-|I].
  - cbn [obs_of o_effs]. apply step_target; auto.
  - apply (IH (fst (step fx s op))); auto. apply W_step; auto.
Qed.
