(* C17 — pass D over the stages of one reconcile: the reservation object.
   Within one reconcile the controller changes the reservation only by creating it (always
   allocate-once, no current owner — whatever a user-supplied template says) or by deleting it, and
   both end the reconcile; so every eviction call of the reconcile is stamped with the reservation
   as it was when the reconcile started. Together with the scheduler's in-place transitions
   ([OSched], [OAlloc]) this gives the invariant behind clause 10: a reservation created by this job
   and not replaced by the environment since ([own], recomputed from the history) is allocate-once
   and lists a current owner only when its phase is Succeeded — and the gates never let an eviction
   pass against a Succeeded reservation. *)
From Coq Require Import List ZArith Bool Lia.
From Verif Require Import C17.Model C17.Spec C17.Hoare C17.Proofs_ver C17.Proofs_once C17.Proofs_guard.
Import ListNotations.
Open Scope Z_scope.

Definition good (r : res) : Prop := ronce r = true /\ (rbound r <> 0 -> res_succeeded r = true).
Definition oinv (own : bool) (ro : option res) : Prop := own = true -> exists r, ro = Some r /\ good r.
Definition own_after (own : bool) (l : list effect) : bool :=
  (own || existsb created_ok l) && negb (existsb deleted_ok l).

Lemma existsb_snoc {A} (f : A -> bool) l x : existsb f (l ++ [x]) = existsb f l || f x.
Proof. rewrite existsb_app. cbn. rewrite orb_false_r. reflexivity. Qed.

Lemma good_new j p : good (new_res j p).
Proof. unfold good, new_res. cbn. split; [reflexivity|intros N; contradiction N; reflexivity]. Qed.

Section PassD.
Variable fx : bool.
Variable e : renv.
Variable own0 : bool.
Variable r0 : option res.
Hypothesis O0 : oinv own0 r0.

(* evictions are stamped with the reservation of the start of the reconcile *)
Definition evst (l : list effect) : Prop :=
  forall x, In x l -> is_evict x = true -> est x = stamp_of r0 (epod e) /\ eph x = puid_of (epod e).
Definition DS (c : ctx) : Prop := oinv (own_after own0 (ce c)) (cr c) /\ evst (ce c).
Definition DG (c : ctx) : Prop :=
  cr c = r0 /\ existsb created_ok (ce c) = false /\ existsb deleted_ok (ce c) = false /\ evst (ce c).

Lemma evst_snoc l x : evst l ->
  (is_evict x = true -> est x = stamp_of r0 (epod e) /\ eph x = puid_of (epod e)) -> evst (l ++ [x]).
Proof.
  intros H Hx y I. apply in_app_or in I. destruct I as [I|[I|[]]]; [auto|subst; auto].
Qed.

Lemma oinv_same l ro : existsb created_ok l = false -> existsb deleted_ok l = false -> ro = r0 ->
  oinv (own_after own0 l) ro.
Proof.
  intros C D E. unfold own_after. rewrite C, D, orb_false_r, andb_true_r. subst. exact O0.
Qed.
Lemma oinv_deleted l ro : existsb deleted_ok l = true -> oinv (own_after own0 l) ro.
Proof. intros D. unfold own_after, oinv. rewrite D. cbn. rewrite andb_false_r. discriminate. Qed.
Lemma oinv_created l j p : oinv (own_after own0 l) (Some (new_res j p)).
Proof. intros _. eexists; split; [reflexivity|apply good_new]. Qed.

Lemma DS_of_DG c : DG c -> DS c.
Proof. intros (R & C & D & E). split; [apply oinv_same; auto|exact E]. Qed.

Ltac evs :=
  repeat first
    [ assumption
    | apply evst_snoc; [| cbn; intros; first [discriminate | split; congruence] ] ].

Ltac rwex :=
  rewrite ?existsb_snoc; cbn [created_ok deleted_ok ek eok];
  repeat match goal with Hx : existsb ?f ?l = false |- context [existsb ?f ?l] => rewrite Hx end;
  cbn [orb].

Ltac fin :=
  try discriminate; try congruence;
  match goal with H : DG _ |- _ => destruct H as (Hr & Hc & Hd & He) end;
  unfold DS, DG in *; cbn;
  repeat match goal with |- _ /\ _ => split end;
  rwex;
  try assumption; try reflexivity; try congruence;
  try (apply oinv_created);
  try (apply oinv_deleted; rwex; reflexivity);
  try (apply oinv_same; rwex; first [reflexivity | congruence]);
  evs.

Lemma D_timeout c : DG c -> sat DS DG (st_timeout e c).
Proof. intros H. unfold st_timeout. stage_exec; fin. Qed.
Lemma D_pending c : DG c -> sat DS DG (st_pending e c).
Proof. intros H. unfold st_pending. stage_exec; fin. Qed.
Lemma D_bound_by_other w c : DG c -> sat DS DG (st_bound_by_other w c).
Proof. intros H. unfold st_bound_by_other. stage_exec; fin. Qed.
Lemma D_recheck p c : DG c -> sat DS DG (st_recheck fx p c).
Proof. intros H. unfold st_recheck. stage_exec; fin. Qed.
Lemma D_evict_call c : DG c -> sat DS DG (st_evict_call e c).
Proof. intros H. unfold st_evict_call. stage_exec; fin. Qed.
Lemma D_evict c : DG c -> sat DS DG (st_evict fx e c).
Proof.
  intros H. unfold st_evict. stage_exec; try (fin; fail).
  all: hoare_bind D_bound_by_other; hoare_bind D_recheck; apply D_evict_call; auto.
Qed.
Lemma D_direct c : DG c -> sat DS DG (st_direct fx e c).
Proof. intros H. unfold st_direct. hoare_bind D_evict. stage_exec; fin. Qed.
Lemma D_create c : DG c -> sat DS DG (st_create e c).
Proof. intros H. unfold st_create. stage_exec; fin. Qed.
Lemma D_order c : DG c -> sat DS DG (st_order c).
Proof. intros H. unfold st_order. stage_exec; fin. Qed.
Lemma D_sync r c : DG c -> sat DS DG (st_sync r c).
Proof. intros H. unfold st_sync. stage_exec; fin. Qed.
Lemma D_gates r c : DG c -> sat DS DG (st_gates r c).
Proof. intros H. unfold st_gates. stage_exec; fin. Qed.
Lemma D_schedok r c : DG c -> sat DS DG (st_schedok e r c).
Proof. intros H. unfold st_schedok. stage_exec; fin. Qed.
Lemma D_pendingpod c : DG c -> sat DS DG (st_pendingpod e c).
Proof.
  intros H. unfold st_pendingpod. stage_exec; try (fin; fail).
  all: hoare_bind D_bound_by_other; stage_exec; fin.
Qed.
Lemma D_bind r c : DG c -> sat DS DG (st_bind r c).
Proof. intros H. unfold st_bind. stage_exec; fin. Qed.
Lemma D_bound r c : DG c -> sat DS DG (st_bound r c).
Proof. intros H. unfold st_bound. stage_exec; fin. Qed.
Lemma D_ready c : DG c -> sat DS DG (st_ready e c).
Proof. intros H. unfold st_ready. stage_exec; fin. Qed.
Lemma D_updcond get set v ss rs c : DG c -> sat DS DG (updcond get set v ss rs c).
Proof. intros H. stage_exec; fin. Qed.
Lemma D_final r c : DG c -> sat DS DG (st_final r c).
Proof.
  intros H. unfold st_final. eapply sat_andthen; [apply D_updcond; exact H|].
  intros c1 H1. cbv beta. stage_exec; fin.
Qed.
Lemma D_finish r c : DG c -> sat DS DG (st_finish e r c).
Proof.
  intros H. unfold st_finish. hoare_bind D_bind. hoare_bind D_bound. hoare_bind D_ready. apply D_final; auto.
Qed.
Lemma D_resfirst c : DG c -> sat DS DG (st_resfirst fx e c).
Proof.
  intros H. unfold st_resfirst. destruct (negb (rref (cj c))); [apply D_create; auto|].
  hoare_bind D_order. eapply sat_andthen; [apply D_updcond; eassumption|].
  intros c2 H2. cbv beta. destruct (cr c2) as [r|] eqn:R; [|stage_exec; fin].
  hoare_bind D_sync. hoare_bind D_gates. hoare_bind D_schedok.
  destruct (rowner r =? OW_OBJECT); [apply D_pendingpod; auto|].
  hoare_bind D_evict. apply D_finish; auto.
Qed.
Lemma D_do_migrate c : DG c -> sat DS DS (do_migrate fx e c).
Proof.
  intros H. unfold do_migrate.
  destruct (paused (cj c)); [apply DS_of_DG; auto|].
  destruct (terminal (phase (cj c))); [apply DS_of_DG; auto|].
  eapply sat_weaken with (QS := DS) (QG := DG); [|auto|apply DS_of_DG].
  hoare_bind D_timeout. hoare_bind D_pending.
  destruct (direct (cj c1)); [apply D_direct|apply D_resfirst]; auto.
Qed.
End PassD.

(* ---- one reconcile ---- *)
Lemma mine_next_reconcile own f ob :
  mine_next own (OReconcile f) ob = own_after own (o_effs ob).
Proof. reflexivity. Qed.

Lemma reconcile_own fx s f own : W s -> oinv own (sr s) ->
  oinv (own_after own (snd (reconcile fx s f))) (sr (fst (reconcile fx s f)))
  /\ (forall x, In x (snd (reconcile fx s f)) -> is_evict x = true ->
      est x = stamp_of (sr s) (sp s) /\ eph x = puid_of (sp s)).
Proof.
  intros HW O. destruct (reconcile_cases fx s f HW) as [E|(_ & E)]; rewrite E.
  - cbn. split; [|intros ? []]. unfold own_after. cbn. rewrite orb_false_r, andb_true_r. exact O.
  - cbn [fst snd after sr]. unfold core.
    set (e := mkREnv _ _ _ _). set (c := mkCtx _ _ _ _ _ _).
    assert (S : sat (DS e own (sr s)) (DS e own (sr s)) (do_migrate fx e c)).
    { apply D_do_migrate; [exact O|]. subst c. unfold DG, evst. cbn.
      split; [reflexivity|]. split; [reflexivity|]. split; [reflexivity|]. intros ? []. }
    apply sat_ctx_of in S. destruct S as (S1 & S2). split; [exact S1|]. exact S2.
Qed.

(* an eviction call of a reservation-first job against its own reservation: no current owner *)
Lemma reconcile_unbound fx s f own : W s -> oinv own (sr s) -> direct (sj s) = false ->
  own = true -> unbound_evicts (snd (reconcile fx s f)).
Proof.
  intros HW O D T x I Ev. left.
  destruct (reconcile_own fx s f own HW O) as (_ & St). destruct (St x I Ev) as (St1 & _). rewrite St1.
  destruct (reconcile_guard fx s f x HW D I Ev) as (Sec & _). rewrite St1 in Sec.
  destruct (O T) as (r & R & (_ & G)). rewrite R in *.
  destruct Sec as (_ & _ & _ & _ & NB).
  unfold stamp_of in *. destruct (sp s) as [p|]; cbn in *.
  all: destruct (Z.eq_dec (rbound r) 0) as [Z0|NZ]; [exact Z0|].
  all: specialize (G NZ); unfold res_succeeded in G; unfold st_bound_b in NB; cbn in NB; congruence.
Qed.

(* ---- the scheduler's transitions keep the invariant ---- *)
Lemma good_sched n r : good r -> good (res_sched n r).
Proof.
  intros (O & B). unfold res_sched.
  destruct (((rphase r =? RP_EMPTY) || (rphase r =? RP_PENDING)) && (0 <? n)) eqn:P; [|split; auto].
  split; [exact O|]. cbn. intros NZ. specialize (B NZ). unfold res_succeeded in B.
  apply andb_true_iff in P. destruct P as (P & _). apply Z.eqb_eq in B. rewrite B in P. discriminate.
Qed.

Lemma good_alloc u r : good r -> good (res_alloc u r).
Proof.
  intros (O & B). unfold res_alloc.
  destruct ((rphase r =? RP_AVAILABLE) && (0 <? u)); [|split; auto].
  rewrite O. split; [reflexivity|]. intros _. reflexivity.
Qed.

Lemma oinv_map own g ro : (forall r, good r -> good (g r)) -> oinv own ro -> oinv own (option_map g ro).
Proof.
  intros G O T. destruct (O T) as (r & R & H). subst. cbn. eexists; split; [reflexivity|auto].
Qed.

(* ---- one operation ---- *)
Lemma step_own fx s o own : W s -> oinv own (sr s) ->
  oinv (mine_next own o (obs_of (step fx s o))) (sr (fst (step fx s o))).
Proof.
  intros HW O. destruct o; cbn [step mine_next fst sr]; try exact O.
  - exact (proj1 (reconcile_own fx s faults own HW O)).
  - discriminate.
  - apply oinv_map; [apply good_sched|exact O].
  - apply oinv_map; [apply good_alloc|exact O].
Qed.

Lemma step_unbound fx s o own : W s -> oinv own (sr s) -> direct (sj s) = false ->
  own = true -> unbound_evicts (snd (step fx s o)).
Proof.
  intros HW O D T. destruct o; try (intros ? []).
  cbn [step]. apply (reconcile_unbound fx s faults own HW O D T).
Qed.

(* clause 12: the pod handed to the evictor is the pod the stamp was read from *)
Lemma st_puid_stamp r p : st_puid (stamp_of r p) = puid_of p.
Proof. unfold stamp_of. destruct p as [p|], r as [r|]; reflexivity. Qed.

Lemma reconcile_target fx s f x : W s -> In x (snd (reconcile fx s f)) -> is_evict x = true ->
  eph x = st_puid (est x).
Proof.
  intros HW I Ev.
  destruct (reconcile_own fx s f false HW (fun T => False_ind _ (Bool.diff_false_true T))) as (_ & St).
  destruct (St x I Ev) as (E1 & E2). rewrite E1, E2, st_puid_stamp. reflexivity.
Qed.

Lemma step_target fx s o x : W s -> In x (snd (step fx s o)) -> is_evict x = true -> eph x = st_puid (est x).
Proof. intros HW. destruct o; try (intros []). cbn [step]. apply reconcile_target; auto. Qed.
