(* C17 — pass B over the stages of one reconcile without API faults: at most one eviction call is
   issued, it is issued only when no eviction is recorded in the job status, and it leaves an
   Eviction condition behind; a recorded eviction is never forgotten. *)
From Coq Require Import List ZArith Bool Lia.
From Verif Require Import C17.Model C17.Spec C17.Hoare C17.Proofs_ver.
Import ListNotations.
Open Scope Z_scope.

Definition nev (l : list effect) : nat := length (filter is_evict l).
Arguments nev : simpl never.
(* an eviction is recorded in the job status *)
Definition evd (j : job) : Prop := cEv j = C_TRUE \/ cEv j = C_FALSE.

Lemma nev_snoc l x : nev (l ++ [x]) = (nev l + (if is_evict x then 1 else 0))%nat.
Proof. unfold nev. rewrite filter_app, app_length. cbn. destruct (is_evict x); reflexivity. Qed.

Lemma evd_dec j : evd j \/ ~ evd j.
Proof. unfold evd. destruct (Z.eq_dec (cEv j) C_TRUE), (Z.eq_dec (cEv j) C_FALSE); tauto. Qed.

(* no fault bit is set *)
Definition nofault (l : list bool) : Prop := existsb (fun b => b) l = false.
Lemma nofault_cons_true l : ~ nofault (true :: l).
Proof. unfold nofault. cbn. discriminate. Qed.
Lemma nofault_cons_false l : nofault (false :: l) -> nofault l.
Proof. unfold nofault. cbn. auto. Qed.

(* the two checks before the eviction call do not touch the context when they let it pass *)
Lemma bound_by_other_go w c c' : st_bound_by_other w c = Go c' -> c' = c.
Proof. unfold st_bound_by_other. stage_exec; intros E; inversion E; reflexivity. Qed.
Lemma recheck_go fx p c c' : st_recheck fx p c = Go c' -> c' = c.
Proof. unfold st_recheck. stage_exec; intros E; inversion E; reflexivity. Qed.

Section PassB.
Variable fx : bool.
Variable evd0 : Prop.   (* an eviction was recorded when the reconcile started *)

Definition K0 (c : ctx) : Prop :=
  (cstale c = false /\ nofault (cf c)) /\ nev (ce c) = 0%nat /\ (evd0 -> evd (cj c)).
Definition KF (c : ctx) : Prop :=
  (nev (ce c) <= 1)%nat /\ (nev (ce c) = 1%nat -> ~ evd0 /\ evd (cj c)) /\ (evd0 -> evd (cj c)).

Ltac fin :=
  match goal with H : K0 _ |- _ => destruct H as ((Hs & Hf) & Hn & He) end;
  try match goal with E : cstale _ = true |- _ => congruence end;
  try match goal with E : cf _ = true :: _, F : nofault (cf _) |- _ =>
        rewrite E in F; destruct (nofault_cons_true _ F) end;
  try match goal with E : cf _ = false :: ?l, F : nofault (cf _) |- _ =>
        assert (nofault l) by (rewrite E in F; exact (nofault_cons_false _ F)) end;
  try match goal with E : cf _ = [] |- _ => assert (nofault []) by reflexivity end;
  try match goal with F : nofault (true :: _) |- _ => destruct (nofault_cons_true _ F) end;
  try match goal with F : nofault (false :: _) |- _ => apply nofault_cons_false in F end;
  unfold K0, KF, evd in *; cbn; rewrite ?nev_snoc; cbn [is_evict ek];
  try congruence;
  repeat split; intros; try assumption; try lia; try congruence; auto.

Lemma B_timeout e c : K0 c -> sat KF K0 (st_timeout e c).
Proof. intros H. unfold st_timeout. stage_exec; fin. Qed.
Lemma B_pending e c : K0 c -> sat KF K0 (st_pending e c).
Proof. intros H. unfold st_pending. stage_exec; fin. Qed.
Lemma B_bound_by_other w c : K0 c -> sat KF K0 (st_bound_by_other w c).
Proof. intros H. unfold st_bound_by_other. stage_exec; fin. Qed.
Lemma B_recheck p c : K0 c -> sat KF K0 (st_recheck fx p c).
Proof. intros H. unfold st_recheck. stage_exec; fin. Qed.
Lemma B_evict_call e c : K0 c -> ~ evd (cj c) -> sat KF (fun _ => False) (st_evict_call e c).
Proof.
  intros H NE. unfold st_evict_call. stage_exec; fin.
  all: try (intros E0; apply NE; auto).
  all: enum_unfold; auto.
Qed.
Lemma KF_of_K0 c : K0 c -> KF c.
Proof. intros ((Hs & Hf) & Hn & He). unfold KF. repeat split; intros; try lia; auto. Qed.

Lemma B_evict e c : K0 c -> sat KF K0 (st_evict fx e c).
Proof.
  intros H. unfold st_evict. stage_exec; try (fin; fail).
  all: assert (NE : ~ evd (cj c))
    by (unfold evd; intros [E|E]; rewrite E in *; enum_unfold; cbn in *; congruence).
  all: destruct (st_bound_by_other 0 c) as [c1|c1] eqn:E1;
    [ pose proof (B_bound_by_other 0 c H) as S1; rewrite E1 in S1; exact S1
    | apply bound_by_other_go in E1; subst c1 ]; cbn [andthen].
  all: destruct (st_recheck fx p c) as [c2|c2] eqn:E2;
    [ pose proof (B_recheck p c H) as S2; rewrite E2 in S2; exact S2
    | apply recheck_go in E2; subst c2 ]; cbn [andthen].
  all: eapply sat_weaken; [apply B_evict_call; auto | auto | intros ? [] ].
Qed.
Lemma B_direct e c : K0 c -> sat KF K0 (st_direct fx e c).
Proof. intros H. unfold st_direct. hoare_bind B_evict. stage_exec; fin. Qed.
Lemma B_create e c : K0 c -> sat KF K0 (st_create e c).
Proof. intros H. unfold st_create. stage_exec; fin. Qed.
Lemma B_order c : K0 c -> sat KF K0 (st_order c).
Proof. intros H. unfold st_order. stage_exec; fin. Qed.
Lemma B_sync r c : K0 c -> sat KF K0 (st_sync r c).
Proof. intros H. unfold st_sync. stage_exec; fin. Qed.
Lemma B_gates r c : K0 c -> sat KF K0 (st_gates r c).
Proof. intros H. unfold st_gates. stage_exec; fin. Qed.
Lemma B_schedok e r c : K0 c -> sat KF K0 (st_schedok e r c).
Proof. intros H. unfold st_schedok. stage_exec; fin. Qed.
Lemma B_pendingpod e c : K0 c -> sat KF K0 (st_pendingpod e c).
Proof.
  intros H. unfold st_pendingpod. stage_exec; try (fin; fail).
  all: hoare_bind B_bound_by_other; stage_exec; fin.
Qed.
Lemma B_bind r c : K0 c -> sat KF K0 (st_bind r c).
Proof. intros H. unfold st_bind. stage_exec; fin. Qed.
Lemma B_bound r c : K0 c -> sat KF K0 (st_bound r c).
Proof. intros H. unfold st_bound. stage_exec; fin. Qed.
Lemma B_ready e c : K0 c -> sat KF K0 (st_ready e c).
Proof. intros H. unfold st_ready. stage_exec; fin. Qed.
Lemma B_final r c : K0 c -> sat KF K0 (st_final r c).
Proof. intros H. unfold st_final. stage_exec; fin. Qed.
Lemma B_finish e r c : K0 c -> sat KF K0 (st_finish e r c).
Proof.
  intros H. unfold st_finish. hoare_bind B_bind. hoare_bind B_bound. hoare_bind B_ready. apply B_final; auto.
Qed.
Lemma B_updRC c : K0 c -> sat KF K0 (updcond cRC set_cRC C_TRUE SS_RC RS_NONE c).
Proof. intros H. stage_exec; fin. Qed.
Lemma B_resfirst e c : K0 c -> sat KF K0 (st_resfirst fx e c).
Proof.
  intros H. unfold st_resfirst. destruct (negb (rref (cj c))); [apply B_create; auto|].
  hoare_bind B_order. hoare_bind B_updRC.
  destruct (cr c1) as [r|] eqn:R; [|stage_exec; fin].
  hoare_bind B_sync. hoare_bind B_gates. hoare_bind B_schedok.
  destruct (rowner r =? OW_OBJECT); [apply B_pendingpod; auto|].
  hoare_bind B_evict. apply B_finish; auto.
Qed.
Lemma B_do_migrate e c : K0 c -> sat KF K0 (do_migrate fx e c).
Proof.
  intros H. unfold do_migrate.
  destruct (paused (cj c)); [cbn; apply KF_of_K0; auto|].
  destruct (terminal (phase (cj c))); [cbn; apply KF_of_K0; auto|].
  hoare_bind B_timeout. hoare_bind B_pending.
  destruct (direct (cj c1)); [apply B_direct|apply B_resfirst]; auto.
Qed.
End PassB.

(* one reconcile without faults *)
Lemma reconcile_once fx s f : W s -> nofault f ->
  let r := reconcile fx s f in
  (nev (snd r) <= 1)%nat
  /\ (nev (snd r) = 1%nat -> ~ evd (sj s) /\ evd (sj (fst r)))
  /\ (evd (sj s) -> evd (sj (fst r))).
Proof.
  intros HW NF. cbv zeta. destruct (reconcile_cases fx s f HW) as [E|(_ & E)]; rewrite E.
  - cbn. repeat split; intros; auto; discriminate.
  - unfold core. set (o := do_migrate fx _ _).
    assert (S : sat (KF (evd (sj s))) (K0 (evd (sj s))) o).
    { apply B_do_migrate. unfold K0. cbn. auto. }
    assert (F : KF (evd (sj s)) (ctx_of o)).
    { destruct o; cbn in *; [exact S|apply KF_of_K0; exact S]. }
    cbn. exact F.
Qed.
