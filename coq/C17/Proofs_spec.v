(* C17 — the decision procedure of Spec.v decides the Props: [prop_code = 0 <-> C17_holds]. *)
From Coq Require Import List ZArith Bool Lia.
From Verif Require Import C17.Model C17.Spec.
Import ListNotations.
Open Scope Z_scope.

Lemma eqb_bool_eq a b : eqb_bool a b = true <-> a = b.
Proof. destruct a, b; cbn; split; auto; discriminate. Qed.

Lemma job_eqb_eq a b : job_eqb a b = true <-> a = b.
Proof.
  destruct a, b; unfold job_eqb; cbn.
  split.
  - intros H.
    repeat (apply andb_true_iff in H; let H' := fresh "E" in destruct H as (H & H')).
    repeat match goal with
           | H : eqb_bool _ _ = true |- _ => apply (proj1 (eqb_bool_eq _ _)) in H; subst
           | H : (_ =? _) = true |- _ => apply (proj1 (Z.eqb_eq _ _)) in H; subst
           end.
    reflexivity.
  - intros E; inversion E; subst. rewrite !Z.eqb_refl.
    repeat match goal with |- context [eqb_bool ?x ?x] =>
      replace (eqb_bool x x) with true by (destruct x; reflexivity) end.
    reflexivity.
Qed.

Lemma securedb_spec s : securedb s = true <-> secured s.
Proof.
  unfold securedb, secured. rewrite !andb_true_iff, orb_true_iff, !negb_true_iff. tauto.
Qed.

Lemma other_nodeb_spec s : other_nodeb s = true <-> other_node s.
Proof.
  unfold other_nodeb, other_node. rewrite orb_true_iff, negb_true_iff, Z.eqb_eq, Z.eqb_neq. tauto.
Qed.

Lemma forall_evictsb (P : stamp -> Prop) (pb : stamp -> bool) (obs : list oobs) :
  (forall s, pb s = true <-> P s) ->
  forallb (fun o => forallb (fun e => negb (is_evict e) || pb (est e)) (o_effs o)) obs = true
  <-> (forall o e, In o obs -> In e (o_effs o) -> is_evict e = true -> P (est e)).
Proof.
  intros PB. rewrite forallb_forall. split.
  - intros H o e Io Ie Ev. specialize (H o Io). rewrite forallb_forall in H. specialize (H e Ie).
    rewrite Ev in H. cbn in H. apply PB. exact H.
  - intros H o Io. apply forallb_forall. intros e Ie. destruct (is_evict e) eqn:Ev; [|reflexivity].
    cbn. apply PB. eauto.
Qed.

Lemma evict_guardb_spec j0 obs : evict_guardb j0 obs = true <-> evict_guard j0 obs.
Proof.
  unfold evict_guardb, evict_guard. destruct (direct j0); cbn.
  - split; [intros _ D; discriminate|reflexivity].
  - rewrite (forall_evictsb secured securedb obs securedb_spec). split; [auto|intros H; apply H; reflexivity].
Qed.

Lemma evict_other_nodeb_spec j0 obs : evict_other_nodeb j0 obs = true <-> evict_other_node j0 obs.
Proof.
  unfold evict_other_nodeb, evict_other_node. destruct (direct j0); cbn.
  - split; [intros _ D; discriminate|reflexivity].
  - rewrite (forall_evictsb other_node other_nodeb obs other_nodeb_spec). split; [auto|intros H; apply H; reflexivity].
Qed.

Lemma nil_effs_spec (l : list effect) : match l with [] => true | _ => false end = true <-> l = [].
Proof. destruct l; split; auto; discriminate. Qed.

Lemma absorbingb_spec obs : forall prev, absorbingb prev obs = true <-> absorbing prev obs.
Proof.
  induction obs as [|o t IH]; intros prev; cbn; [tauto|].
  rewrite andb_true_iff, IH, orb_true_iff, negb_true_iff, andb_true_iff, job_eqb_eq, nil_effs_spec.
  destruct (terminal (phase prev)); split; intros (A & B); split; auto.
  - destruct A as [A|A]; [discriminate|auto].
  - intros; discriminate.
Qed.

Lemma none_spec {A} (x : option A) : match x with None => true | _ => false end = true <-> x = None.
Proof. destruct x; split; auto; discriminate. Qed.

Lemma timeout_deletesb_spec obs : forall prev, timeout_deletesb prev obs = true <-> timeout_deletes prev obs.
Proof.
  induction obs as [|o t IH]; intros prev; cbn; [tauto|].
  rewrite andb_true_iff, IH, !orb_true_iff, !negb_true_iff, none_spec.
  destruct (timed_out prev (o_job o)), (rref prev); split; intros (A & B); split; auto;
    try (intros; discriminate).
  destruct A as [[A|A]|A]; try discriminate; auto.
Qed.

Lemma at_most_onceb_spec ops obs : at_most_onceb ops obs = true <-> at_most_once ops obs.
Proof.
  unfold at_most_onceb, at_most_once. rewrite orb_true_iff, negb_true_iff, Nat.leb_le.
  destruct (no_faults ops); split; auto.
  - intros [A|A]; [discriminate|auto].
  - intros _ D; discriminate.
Qed.

Lemma frameb_spec ops : forall obs prev, frameb prev ops obs = true <-> frame prev ops obs.
Proof.
  induction ops as [|o t IH]; intros obs prev; cbn; [tauto|].
  destruct obs as [|ob tb]; [tauto|].
  rewrite andb_true_iff, IH.
  destruct o; rewrite ?andb_true_iff, ?job_eqb_eq, ?nil_effs_spec; tauto.
Qed.

Lemma timeout_cleansb_spec ops : forall obs mine prev,
  timeout_cleansb mine prev ops obs = true <-> timeout_cleans mine prev ops obs.
Proof.
  induction ops as [|o t IH]; intros obs mine prev; cbn; [tauto|].
  destruct obs as [|ob tb]; [tauto|].
  rewrite andb_true_iff, IH, !orb_true_iff, !negb_true_iff. unfold is_none.
  destruct (timed_out prev (o_job ob)), mine, (o_res ob); split; intros (A & B); split; auto;
    try (intros; discriminate); try (intros; reflexivity).
  - destruct A as [[A|A]|A]; discriminate.
  - exfalso. specialize (A eq_refl eq_refl). discriminate.
Qed.

Lemma unbound_evictsb_spec l : unbound_evictsb l = true <-> unbound_evicts l.
Proof.
  unfold unbound_evictsb, unbound_evicts. rewrite forallb_forall. split.
  - intros H e I Ev. specialize (H e I). rewrite Ev in H. cbn in H.
    apply orb_true_iff in H. destruct H as [H|H]; apply Z.eqb_eq in H; auto.
  - intros H e I. destruct (is_evict e) eqn:Ev; [|reflexivity]. cbn.
    destruct (H e I Ev) as [E|E]; rewrite E; rewrite ?Z.eqb_refl, ?orb_true_r; reflexivity.
Qed.

Lemma evict_unboundb_spec ops : forall obs own,
  evict_unboundb own ops obs = true <-> evict_unbound own ops obs.
Proof.
  induction ops as [|o t IH]; intros obs own; cbn; [tauto|].
  destruct obs as [|ob tb]; [tauto|].
  rewrite andb_true_iff, IH, orb_true_iff, negb_true_iff, unbound_evictsb_spec.
  destruct own; split; intros (A & B); split; auto.
  - destruct A as [A|A]; [discriminate|auto].
  - intros; discriminate.
Qed.

Lemma after_terminal_okb_spec ph e : after_terminal_okb ph e = true <-> after_terminal_ok ph e.
Proof.
  unfold after_terminal_okb, after_terminal_ok. destruct (ek e); try rewrite Z.eqb_eq; split; auto; discriminate.
Qed.

Lemma wabsb_spec l : forall ph, wabsb ph l = true <-> wabs ph l.
Proof.
  induction l as [|e t IH]; intros ph; cbn; [tauto|].
  rewrite andb_true_iff, IH, orb_true_iff, negb_true_iff, after_terminal_okb_spec.
  destruct (terminal ph); split; intros (A & B); split; auto.
  - destruct A as [A|A]; [discriminate|auto].
  - intros; discriminate.
Qed.

Lemma write_absorbingb_spec obs : forall prev, write_absorbingb prev obs = true <-> write_absorbing prev obs.
Proof.
  induction obs as [|o t IH]; intros prev; cbn; [tauto|].
  rewrite andb_true_iff, IH, wabsb_spec. tauto.
Qed.

Lemma unbound_guardb_spec j0 ops obs :
  direct j0 || evict_unboundb false ops obs = true <-> (direct j0 = false -> evict_unbound false ops obs).
Proof.
  rewrite orb_true_iff, evict_unboundb_spec. destruct (direct j0); split; auto.
  - intros _ D; discriminate.
  - intros [D|H]; [discriminate|auto].
Qed.

Lemma evict_targetb_spec obs : evict_targetb obs = true <-> evict_target obs.
Proof.
  unfold evict_targetb, evict_target. rewrite forallb_forall. split.
  - intros H o e Io Ie Ev. specialize (H o Io). rewrite forallb_forall in H. specialize (H e Ie).
    rewrite Ev in H. cbn in H. apply Z.eqb_eq. exact H.
  - intros H o Io. apply forallb_forall. intros e Ie. destruct (is_evict e) eqn:Ev; [|reflexivity].
    cbn. apply Z.eqb_eq. eauto.
Qed.

Theorem prop_code_spec j0 ops obs : prop_code j0 ops obs = 0 <-> C17_holds j0 ops obs.
Proof.
  unfold prop_code, C17_holds, C17_core.
  rewrite <- evict_guardb_spec, <- absorbingb_spec, <- timeout_deletesb_spec,
          <- at_most_onceb_spec, <- frameb_spec, <- evict_other_nodeb_spec, <- timeout_cleansb_spec,
          <- unbound_guardb_spec, <- write_absorbingb_spec, <- evict_targetb_spec.
  destruct (Nat.eqb (length obs) (length ops)) eqn:L; cbn.
  2: { apply Nat.eqb_neq in L. split; [discriminate|tauto]. }
  apply Nat.eqb_eq in L.
  destruct (evict_guardb j0 obs); cbn; [|split; [discriminate|intros ((_&?&_)&_); discriminate]].
  destruct (absorbingb j0 obs); cbn; [|split; [discriminate|intros ((_&_&?&_)&_); discriminate]].
  destruct (timeout_deletesb j0 obs); cbn; [|split; [discriminate|intros ((_&_&_&?&_)&_); discriminate]].
  destruct (at_most_onceb ops obs); cbn; [|split; [discriminate|intros ((_&_&_&_&?&_)&_); discriminate]].
  destruct (frameb j0 ops obs); cbn; [|split; [discriminate|intros ((_&_&_&_&_&?&_)&_); discriminate]].
  destruct (evict_other_nodeb j0 obs); cbn; [|split; [discriminate|intros ((_&_&_&_&_&_&?&_)&_); discriminate]].
  destruct (direct j0 || evict_unboundb false ops obs); cbn;
    [|split; [discriminate|intros ((_&_&_&_&_&_&_&?&_)&_); discriminate]].
  destruct (write_absorbingb j0 obs); cbn; [|split; [discriminate|intros ((_&_&_&_&_&_&_&_&?&_)&_); discriminate]].
  destruct (evict_targetb obs); cbn; [|split; [discriminate|intros ((_&_&_&_&_&_&_&_&_&?)&_); discriminate]].
  destruct (timeout_cleansb false j0 ops obs); cbn; [|split; [discriminate|intros (_&?); discriminate]].
  tauto.
Qed.

(* with clauses 1-6 established, the code is decided by the last two tests *)
Lemma prop_code_tail j0 ops obs :
  length obs = length ops -> evict_guard j0 obs -> absorbing j0 obs -> timeout_deletes j0 obs ->
  at_most_once ops obs -> frame j0 ops obs ->
  prop_code j0 ops obs =
    if negb (evict_other_nodeb j0 obs) then 7
    else if negb (direct j0 || evict_unboundb false ops obs) then 10
    else if negb (write_absorbingb j0 obs) then 11
    else if negb (evict_targetb obs) then 12
    else if negb (timeout_cleansb false j0 ops obs) then 8 else 0.
Proof.
  intros L G A T O F. unfold prop_code.
  apply Nat.eqb_eq in L. rewrite L.
  apply evict_guardb_spec in G. apply absorbingb_spec in A. apply timeout_deletesb_spec in T.
  apply at_most_onceb_spec in O. apply frameb_spec in F.
  rewrite G, A, T, O, F. reflexivity.
Qed.
