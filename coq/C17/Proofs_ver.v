(* C17 — job versions, lagging informer reads and the assumed-cache guard.
   [W s]: the guard is armed (the controller remembers the version the job has now) or the informer
   has no older version to serve. Under [W] a reconcile is either skipped / a no-op on everything the
   property observes, or it runs [do_migrate] on the CURRENT job ([core]). [W] holds initially, after
   every operation, and in particular after a restart (empty cache, freshly listed informer). *)
From Coq Require Import List ZArith Bool Lia.
From Verif Require Import C17.Model.
Import ListNotations.
Open Scope Z_scope.

Definition W (s : state) : Prop := sass s = Some (sver s) \/ sold s = [].

Definition core (fx : bool) (s : state) (f : list bool) : ctx :=
  ctx_of (do_migrate fx (mkREnv (sp s) (sbp s) (snow s) (sgen s)) (mkCtx (sj s) (sr s) f [] false [])).

Definition after (s : state) (c : ctx) : state :=
  mkState (cj c) (cr c) (sp s) (sbp s) (snow s) (sgen s)
          (match cw c with [] => sold s | _ :: t => t ++ sj s :: sold s end)
          (sver s + Z.of_nat (length (cw c))) (Some (sver s + Z.of_nat (length (cw c)))) 0.

Lemma reconcile_cases fx s f : W s ->
  reconcile fx s f = (unlag s, [])
  \/ (ignored (sj s) (sgen s) = false /\ reconcile fx s f = (after s (core fx s f), ce (core fx s f))).
Proof.
  intros HW. unfold reconcile.
  assert (Fresh : lag_of s = O -> 
    (if rejected (sass s) (sver s - Z.of_nat 0) then (unlag s, @nil effect)
     else if ignored (sj s) (sgen s) then (unlag s, [])
     else (after s (core fx s f), ce (core fx s f))) = (unlag s, [])
    \/ (ignored (sj s) (sgen s) = false /\
        (if rejected (sass s) (sver s - Z.of_nat 0) then (unlag s, @nil effect)
         else if ignored (sj s) (sgen s) then (unlag s, [])
         else (after s (core fx s f), ce (core fx s f))) = (after s (core fx s f), ce (core fx s f)))).
  { intros _. destruct (rejected (sass s) (sver s - Z.of_nat 0)); [left; reflexivity|].
    destruct (ignored (sj s) (sgen s)); [left; reflexivity|right; split; reflexivity]. }
  unfold read_job. destruct (lag_of s) as [|k] eqn:L.
  - cbn [Nat.eqb negb]. specialize (Fresh eq_refl). unfold core, after in Fresh. cbn [Z.of_nat] in *. exact Fresh.
  - left. destruct HW as [HA|HO].
    + rewrite HA. unfold rejected.
      assert (sver s - Z.of_nat (S k) <? sver s = true) by (apply Z.ltb_lt; lia).
      rewrite H. reflexivity.
    + unfold lag_of in L. rewrite HO in L. cbn [length] in L. rewrite Nat.min_0_r in L. discriminate.
Qed.

Lemma W_unlag s : W s -> W (unlag s).
Proof. unfold W, unlag. cbn. auto. Qed.

Lemma W_after s c : W (after s c).
Proof. unfold W, after. cbn. left. reflexivity. Qed.

Lemma W_reconcile fx s f : W s -> W (fst (reconcile fx s f)).
Proof.
  intros HW. destruct (reconcile_cases fx s f HW) as [E|(_ & E)]; rewrite E; cbn [fst].
  - apply W_unlag; auto.
  - apply W_after.
Qed.

Lemma W_step fx s o : W s -> W (fst (step fx s o)).
Proof.
  intros HW. destruct o; try (unfold W in *; cbn; exact HW).
  - apply W_reconcile; auto.
  - unfold W. cbn. right. reflexivity.
Qed.

Lemma W_init j : W (init_state j).
Proof. unfold W. cbn. right. reflexivity. Qed.
