(* C17 — the property as Props over (initial job, operation history, observations) and its
   decision procedure [prop_code] (0 = holds, otherwise the number of the first failing clause).

   An observation is what the harness logs after every operation: the API calls recorded during
   the operation (evictions, reservation creations / deletions), each stamped with the reservation
   and the pod as they were at that instant, the persisted job, and whether the reservation exists. *)
From Coq Require Import List ZArith Bool.
From Verif Require Import C17.Model.
Import ListNotations.
Open Scope Z_scope.

Record oobs := mkObs {
  o_effs : list effect;
  o_job : job;
  o_res : option (bool * Z * bool)    (* reservation in the API: (has order label, owner kind, allocate-once) *)
}.

Definition obs_of (x : state * list effect) : oobs :=
  mkObs (snd x) (sj (fst x)) (option_map (fun r => (rlabel r, rowner r, ronce r)) (sr (fst x))).

(* the model's observations of a history, for a given variant of the controller and for the
   variant /repo currently is *)
Definition observe_fx (fx : bool) (j0 : job) (ops : list op) : list oobs := map obs_of (run fx (init_state j0) ops).
Definition observe : job -> list op -> list oobs := observe_fx recheck_same_node.

(* ---- clause 1: capacity is secured at the instant of every eviction (reservation-first mode) ---- *)
Definition st_pending_b (s : stamp) : bool := (st_rphase s =? RP_EMPTY) || (st_rphase s =? RP_PENDING).
Definition st_expired_b (s : stamp) : bool := (st_rphase s =? RP_FAILED) && st_rexpired s.
Definition st_scheduled_b (s : stamp) : bool := negb (st_rnode s =? 0) && (st_rsched s =? SC_SCHEDULED).
Definition st_preempted_b (s : stamp) : bool := st_needp s && st_pdone s.
Definition st_bound_b (s : stamp) : bool := st_rphase s =? RP_SUCCEEDED.

Definition secured (s : stamp) : Prop :=
  st_rex s = true                                   (* not missing *)
  /\ st_pending_b s = false                         (* not pending *)
  /\ st_expired_b s = false                         (* not expired *)
  /\ (st_scheduled_b s = true \/ st_preempted_b s = true)  (* scheduled (hence not unschedulable) or preemption complete *)
  /\ st_bound_b s = false.                          (* not consumed by some pod *)
Definition securedb (s : stamp) : bool :=
  st_rex s && negb (st_pending_b s) && negb (st_expired_b s)
  && (st_scheduled_b s || st_preempted_b s) && negb (st_bound_b s).

(* clause 7: ... on a node different from the pod's *)
Definition other_node (s : stamp) : Prop := st_rnode s = 0 \/ st_rnode s <> st_pnode s.
Definition other_nodeb (s : stamp) : bool := (st_rnode s =? 0) || negb (st_rnode s =? st_pnode s).

Definition is_evict (e : effect) : bool := match ek e with EEvict => true | _ => false end.

Definition evict_guard (j0 : job) (obs : list oobs) : Prop :=
  direct j0 = false ->
  forall o e, In o obs -> In e (o_effs o) -> is_evict e = true -> secured (est e).
Definition evict_guardb (j0 : job) (obs : list oobs) : bool :=
  direct j0 || forallb (fun o => forallb (fun e => negb (is_evict e) || securedb (est e)) (o_effs o)) obs.

Definition evict_other_node (j0 : job) (obs : list oobs) : Prop :=
  direct j0 = false ->
  forall o e, In o obs -> In e (o_effs o) -> is_evict e = true -> other_node (est e).
Definition evict_other_nodeb (j0 : job) (obs : list oobs) : bool :=
  direct j0 || forallb (fun o => forallb (fun e => negb (is_evict e) || other_nodeb (est e)) (o_effs o)) obs.

(* ---- clause 2: finished jobs stay finished and trigger nothing ---- *)
Definition eqb_bool (a b : bool) : bool := if a then b else negb b.
Definition job_eqb (a b : job) : bool :=
  eqb_bool (paused a) (paused b) && eqb_bool (direct a) (direct b) && (ttl a =? ttl b)
  && eqb_bool (pvalid a) (pvalid b) && (owner a =? owner b) && (tmpl a =? tmpl b) && (puid a =? puid b)
  && eqb_bool (rref a) (rref b) && (phase a =? phase b) && (sstatus a =? sstatus b)
  && (reason a =? reason b) && (jnode a =? jnode b) && (spodref a =? spodref b)
  && (cRC a =? cRC b) && (cRS a =? cRS b) && (cEv a =? cEv b) && (cPS a =? cPS b)
  && (cPB a =? cPB b) && (cBR a =? cBR b) && (cRB a =? cRB b).

(* [absorbing prev obs]: walking the observations with the job before each operation *)
Fixpoint absorbing (prev : job) (obs : list oobs) : Prop :=
  match obs with
  | [] => True
  | o :: t => (terminal (phase prev) = true -> o_job o = prev /\ o_effs o = []) /\ absorbing (o_job o) t
  end.
Fixpoint absorbingb (prev : job) (obs : list oobs) : bool :=
  match obs with
  | [] => true
  | o :: t => (negb (terminal (phase prev)) || (job_eqb (o_job o) prev && match o_effs o with [] => true | _ => false end))
              && absorbingb (o_job o) t
  end.

(* ---- clause 3: a job that is failed for timeout has deleted its reservation ---- *)
Definition timed_out (prev now : job) : bool :=
  negb (terminal (phase prev)) && (phase now =? PH_FAILED) && (reason now =? RS_TIMEOUT).
Fixpoint timeout_deletes (prev : job) (obs : list oobs) : Prop :=
  match obs with
  | [] => True
  | o :: t => (timed_out prev (o_job o) = true -> rref prev = true -> o_res o = None) /\ timeout_deletes (o_job o) t
  end.
Fixpoint timeout_deletesb (prev : job) (obs : list oobs) : bool :=
  match obs with
  | [] => true
  | o :: t => (negb (timed_out prev (o_job o)) || negb (rref prev) || match o_res o with None => true | _ => false end)
              && timeout_deletesb (o_job o) t
  end.

(* ---- clause 4: with no API errors a job evicts at most once ---- *)
Definition no_faults_op (o : op) : bool :=
  match o with OReconcile f => negb (existsb (fun b => b) f) | _ => true end.
Definition no_faults (ops : list op) : bool := forallb no_faults_op ops.
Definition count_evicts (obs : list oobs) : nat :=
  length (filter is_evict (flat_map o_effs obs)).
Definition at_most_once (ops : list op) (obs : list oobs) : Prop :=
  no_faults ops = true -> (count_evicts obs <= 1)%nat.
Definition at_most_onceb (ops : list op) (obs : list oobs) : bool :=
  negb (no_faults ops) || Nat.leb (count_evicts obs) 1.

(* ---- clause 5: only a reconcile touches the job or issues calls ---- *)
Fixpoint frame (prev : job) (ops : list op) (obs : list oobs) : Prop :=
  match ops, obs with
  | o :: t, ob :: tb =>
      (match o with OReconcile _ => True | _ => o_job ob = prev /\ o_effs ob = [] end) /\ frame (o_job ob) t tb
  | _, _ => True
  end.
Fixpoint frameb (prev : job) (ops : list op) (obs : list oobs) : bool :=
  match ops, obs with
  | o :: t, ob :: tb =>
      (match o with OReconcile _ => true
               | _ => job_eqb (o_job ob) prev && match o_effs ob with [] => true | _ => false end end)
      && frameb (o_job ob) t tb
  | _, _ => true
  end.

(* ---- clause 8: the strict reading of "an expired job deletes its reservation" ----
   [mine] = a reservation created by this job exists as far as the history tells: a successful
   create was recorded, no successful delete since, and the environment has not set or deleted the
   reservation since. When the job is failed for timeout while [mine], the reservation must be gone
   — whether or not its reference was ever recorded in the job. *)
Definition created_ok (e : effect) : bool := match ek e with ECreate => eok e | _ => false end.
Definition deleted_ok (e : effect) : bool := match ek e with EDelete => eok e | _ => false end.
Definition mine_next (mine : bool) (o : op) (ob : oobs) : bool :=
  match o with
  | OSetRes _ => false
  | OReconcile _ => (mine || existsb created_ok (o_effs ob)) && negb (existsb deleted_ok (o_effs ob))
  | _ => mine
  end.
Definition is_none {A} (x : option A) : bool := match x with None => true | _ => false end.
Fixpoint timeout_cleans (mine : bool) (prev : job) (ops : list op) (obs : list oobs) : Prop :=
  match ops, obs with
  | o :: t, ob :: tb =>
      (timed_out prev (o_job ob) = true -> mine = true -> o_res ob = None)
      /\ timeout_cleans (mine_next mine o ob) (o_job ob) t tb
  | _, _ => True
  end.
Fixpoint timeout_cleansb (mine : bool) (prev : job) (ops : list op) (obs : list oobs) : bool :=
  match ops, obs with
  | o :: t, ob :: tb =>
      (negb (timed_out prev (o_job ob)) || negb mine || is_none (o_res ob))
      && timeout_cleansb (mine_next mine o ob) (o_job ob) t tb
  | _, _ => true
  end.

(* ---- clause 10: "never while the reservation is ... bound to some other pod", judged on the
   reservation's CurrentOwners at the instant of the eviction call rather than on its phase ----
   [own] (= [mine] of clause 8) says, from the history alone, that the reservation in the API is the
   one this job created and that the environment has since acted on it only in place (OSched /
   OAlloc: the scheduler's status transitions), never replaced it. The controller is obliged to
   create it allocate-once, so the scheduler marks it Succeeded as soon as a pod is allocated from
   it; an eviction call against a reservation of its own making that lists a current owner is an
   eviction while the capacity has been taken by another pod. (For a reservation supplied or
   replaced by the environment, which may be reusable, only the phase is judged: clause 1.) *)
Definition unbound_evicts (l : list effect) : Prop :=
  forall e, In e l -> is_evict e = true -> st_rbound (est e) = 0 \/ st_rbound (est e) = st_puid (est e).
Definition unbound_evictsb (l : list effect) : bool :=
  forallb (fun e => negb (is_evict e) || (st_rbound (est e) =? 0) || (st_rbound (est e) =? st_puid (est e))) l.
Fixpoint evict_unbound (own : bool) (ops : list op) (obs : list oobs) : Prop :=
  match ops, obs with
  | o :: t, ob :: tb =>
      (own = true -> unbound_evicts (o_effs ob)) /\ evict_unbound (mine_next own o ob) t tb
  | _, _ => True
  end.
Fixpoint evict_unboundb (own : bool) (ops : list op) (obs : list oobs) : bool :=
  match ops, obs with
  | o :: t, ob :: tb =>
      (negb own || unbound_evictsb (o_effs ob)) && evict_unboundb (mine_next own o ob) t tb
  | _, _ => true
  end.

(* ---- clause 11: finished jobs stay finished at the granularity of API WRITES ----
   Within one operation, walking the recorded calls in order with the phase persisted so far
   (starting from the job as it was before the operation): once a terminal phase is persisted no
   later write of the job changes the phase and no eviction or reservation creation is attempted.
   (Clause 2 is the same statement at the granularity of operations.) *)
Definition after_terminal_ok (ph : Z) (e : effect) : Prop :=
  match ek e with EEvict | ECreate => False | EWrite => eph e = ph | EDelete => True end.
Definition after_terminal_okb (ph : Z) (e : effect) : bool :=
  match ek e with EEvict | ECreate => false | EWrite => eph e =? ph | EDelete => true end.
Definition ph_next (ph : Z) (e : effect) : Z := match ek e with EWrite => eph e | _ => ph end.
Fixpoint wabs (ph : Z) (l : list effect) : Prop :=
  match l with
  | [] => True
  | e :: t => (terminal ph = true -> after_terminal_ok ph e) /\ wabs (ph_next ph e) t
  end.
Fixpoint wabsb (ph : Z) (l : list effect) : bool :=
  match l with
  | [] => true
  | e :: t => (negb (terminal ph) || after_terminal_okb ph e) && wabsb (ph_next ph e) t
  end.
Fixpoint write_absorbing (prev : job) (obs : list oobs) : Prop :=
  match obs with
  | [] => True
  | o :: t => wabs (phase prev) (o_effs o) /\ write_absorbing (o_job o) t
  end.
Fixpoint write_absorbingb (prev : job) (obs : list oobs) : bool :=
  match obs with
  | [] => true
  | o :: t => wabsb (phase prev) (o_effs o) && write_absorbingb (o_job o) t
  end.

(* ---- clause 12: what is handed to the evictor is the target pod as it is in the API at that
   instant (same UID as the pod the stamp was read from), in either mode ---- *)
Definition evict_target (obs : list oobs) : Prop :=
  forall o e, In o obs -> In e (o_effs o) -> is_evict e = true -> eph e = st_puid (est e).
Definition evict_targetb (obs : list oobs) : bool :=
  forallb (fun o => forallb (fun e => negb (is_evict e) || (eph e =? st_puid (est e))) (o_effs o)) obs.

(* ---- the property ---- *)
(* clauses 1-7, 10, 11, 12 *)
Definition C17_core (j0 : job) (ops : list op) (obs : list oobs) : Prop :=
  length obs = length ops
  /\ evict_guard j0 obs
  /\ absorbing j0 obs
  /\ timeout_deletes j0 obs
  /\ at_most_once ops obs
  /\ frame j0 ops obs
  /\ evict_other_node j0 obs
  /\ (direct j0 = false -> evict_unbound false ops obs)
  /\ write_absorbing j0 obs
  /\ evict_target obs.

Definition C17_holds (j0 : job) (ops : list op) (obs : list oobs) : Prop :=
  C17_core j0 ops obs /\ timeout_cleans false j0 ops obs.

Definition prop_code (j0 : job) (ops : list op) (obs : list oobs) : Z :=
  if negb (Nat.eqb (length obs) (length ops)) then 9
  else if negb (evict_guardb j0 obs) then 1
  else if negb (absorbingb j0 obs) then 2
  else if negb (timeout_deletesb j0 obs) then 3
  else if negb (at_most_onceb ops obs) then 4
  else if negb (frameb j0 ops obs) then 5
  else if negb (evict_other_nodeb j0 obs) then 7
  else if negb (direct j0 || evict_unboundb false ops obs) then 10
  else if negb (write_absorbingb j0 obs) then 11
  else if negb (evict_targetb obs) then 12
  else if negb (timeout_cleansb false j0 ops obs) then 8
  else 0.

(* ---- shape of the known finding (sig 1): the same-node check is made once and cached ----
   abortJobIfReserveOnSameNode only runs while Status.NodeName is empty and the job has no
   ReservationScheduled=True condition. Every same-node eviction of a failing case happens in an
   operation that STARTED with that check already cached in the job status (so the pod was replaced,
   or the reservation moved, after the check). A same-node eviction in a reconcile that had to make
   the check itself is a different violation and is not matched. *)
Definition evicts_other_node (o : oobs) : bool :=
  forallb (fun e => negb (is_evict e) || other_nodeb (est e)) (o_effs o).
Definition check_cached (j : job) : bool := negb (jnode j =? 0) || (cRS j =? C_TRUE).
Fixpoint same_node_only_cached (prev : job) (obs : list oobs) : bool :=
  match obs with
  | [] => true
  | o :: t => (evicts_other_node o || check_cached prev) && same_node_only_cached (o_job o) t
  end.

(* ---- shape of the known finding sig 2: the leaked reservation was never recorded ----
   Every step at which clause 8 fails started with a job WITHOUT ReservationRef: the reservation was
   created by an earlier reconcile whose Update recording the reference failed, so deleteReservation
   had nothing to look up. (With a recorded reference clause 3 fails first: a plain violation.) *)
Fixpoint leak_only_unrecorded (mine : bool) (prev : job) (ops : list op) (obs : list oobs) : bool :=
  match ops, obs with
  | o :: t, ob :: tb =>
      (negb (timed_out prev (o_job ob)) || negb mine || is_none (o_res ob) || negb (rref prev))
      && leak_only_unrecorded (mine_next mine o ob) (o_job ob) t tb
  | _, _ => true
  end.

(* 1 = same-node check cached (repaired by 025e424: only the old variant shows it),
   2 = timeout leaves an unrecorded reservation behind, 0 = anything else *)
Definition finding_code (j0 : job) (ops : list op) (obs : list oobs) : Z :=
  if (prop_code j0 ops obs =? 7) && same_node_only_cached j0 obs then 1
  else if (prop_code j0 ops obs =? 8) && leak_only_unrecorded false j0 ops obs then 2
  else 0.
