(* C17 — pass A over the stages of one reconcile of a reservation-first job: every eviction call
   is stamped with a reservation that exists, is not pending, not expired, scheduled (or its
   preemption is complete) and not consumed; and it sits on another node than the pod — always in
   the repaired variant, and in the old variant unless the same-node check was already cached in
   the job status when the reconcile started. *)
From Coq Require Import List ZArith Bool Lia.
From Verif Require Import C17.Model C17.Spec C17.Hoare C17.Proofs_ver C17.Proofs_once.
Import ListNotations.
Open Scope Z_scope.

Definition gates_ok (r : res) : Prop :=
  res_pending r = false /\ res_expired r = false /\ (res_scheduled r = true \/ res_preempted r = true).

Lemma bound_by_other_go_free c c' r :
  st_bound_by_other 0 c = Go c' -> rref (cj c) = true -> cr c = Some r -> res_succeeded r = false.
Proof.
  unfold st_bound_by_other. intros E R C. rewrite R, C in E.
  destruct (res_succeeded r); [|reflexivity].
  cbn in E. destruct (abort_stop c RS_FORBIDDEN) as (c0 & A). rewrite A in E. discriminate.
Qed.

Lemma recheck_go_other p c c' r :
  st_recheck true p c = Go c' -> rref (cj c) = true -> cr c = Some r ->
  rnode r = 0 \/ rnode r <> pnode p.
Proof.
  unfold st_recheck. intros E R C. rewrite R, C in E. cbn in E.
  destruct (rnode r =? 0) eqn:Z0; [left; apply Z.eqb_eq; auto|].
  destruct (rnode r =? pnode p) eqn:Z1; [|right; apply Z.eqb_neq; auto].
  cbn in E. destruct (abort_stop c RS_FORBIDDEN) as (c0 & A). rewrite A in E. discriminate.
Qed.

Section PassA.
Variable fx : bool.
Variable e : renv.
Variable j0 : job.

Definition okeff (x : effect) : Prop :=
  secured (est x) /\ (other_node (est x) \/ (fx = false /\ check_cached j0 = true)).
Definition GA (c : ctx) : Prop := forall x, In x (ce c) -> is_evict x = true -> okeff x.
Definition IA (c : ctx) : Prop := direct (cj c) = false /\ GA c.
Definition EA (c : ctx) : Prop :=
  IA c /\ jnode (cj c) = jnode j0 /\ (cRS (cj c) = C_TRUE -> cRS j0 = C_TRUE).
Definition RA (r : res) (c : ctx) : Prop := EA c /\ cr c = Some r /\ rref (cj c) = true.
Definition nodeok (r : res) : Prop :=
  rnode r = 0 \/ (forall p, epod e = Some p -> rnode r <> pnode p) \/ check_cached j0 = true.
Definition PA (r : res) (c : ctx) : Prop :=
  IA c /\ cr c = Some r /\ rref (cj c) = true /\ gates_ok r /\ nodeok r.

Lemma GA_snoc l x : (forall y, In y l -> is_evict y = true -> okeff y) -> (is_evict x = true -> okeff x) ->
  forall y, In y (l ++ [x]) -> is_evict y = true -> okeff y.
Proof. intros H Hx y I. apply in_app_or in I. destruct I as [I|[I|[]]]; [auto|subst; auto]. Qed.

Lemma GA_app l l' : (forall y, In y l -> is_evict y = true -> okeff y) ->
  (forall y, In y l' -> is_evict y = true -> okeff y) ->
  forall y, In y (l ++ l') -> is_evict y = true -> okeff y.
Proof. intros H H' y I. apply in_app_or in I. destruct I as [I|I]; auto. Qed.

(* [In y (l ++ [a]) ++ [b]) ...]: the recorded calls so far, plus what this stage appended *)
Ltac ga_tail tac :=
  rewrite <- ?app_assoc in *; cbn [app] in *;
  match goal with HI : In ?x (?l ++ ?l') |- _ =>
    eapply (GA_app l l'); [ eauto | | exact HI | assumption ] end;
  let y := fresh "y" in let Hy := fresh "Hy" in
  intros y Hy; cbn in Hy; repeat (destruct Hy as [<-|Hy]); try contradiction; cbn; intros; tac.

Ltac openA :=
  repeat match goal with
  | H : RA _ _ |- _ => destruct H as (H & ? & ?)
  | H : EA _ |- _ => destruct H as (H & ? & ?)
  | H : IA _ |- _ => destruct H as (? & H)
  end.
Ltac fin :=
  openA; unfold RA, EA, IA, GA in *; cbn;
  repeat match goal with |- _ /\ _ => split end; intros; try assumption; try congruence;
  try (ga_tail discriminate);
  try (enum_unfold; congruence); auto.

Lemma A_timeout c : EA c -> sat IA EA (st_timeout e c).
Proof. intros H. unfold st_timeout. stage_exec; fin. Qed.
Lemma A_pending c : EA c -> sat IA EA (st_pending e c).
Proof. intros H. unfold st_pending. stage_exec; fin. Qed.
Lemma A_create c : EA c -> sat IA EA (st_create e c).
Proof. intros H. unfold st_create. stage_exec; fin. Qed.
Lemma A_order c : EA c -> sat IA EA (st_order c).
Proof. intros H. unfold st_order. stage_exec; fin. Qed.
Lemma A_updRC c : EA c -> sat IA EA (updcond cRC set_cRC C_TRUE SS_RC RS_NONE c).
Proof. intros H. stage_exec; fin. Qed.
Lemma A_sync r c : RA r c -> sat IA (RA r) (st_sync r c).
Proof. intros H. unfold st_sync. stage_exec; fin. Qed.

Lemma A_gates r c : RA r c -> sat IA (fun c' => RA r c' /\ gates_ok r) (st_gates r c).
Proof.
  intros H. unfold st_gates. stage_exec; try (fin; fail).
  all: split; [exact H|unfold gates_ok; repeat split; auto].
  all: right; unfold res_preempted;
    match goal with H1 : negb (rneedp _) = false, H2 : rpdone _ = true |- _ =>
      apply negb_false_iff in H1; rewrite H1, H2; reflexivity end.
Qed.

Lemma A_schedok r c : RA r c -> gates_ok r -> sat IA (PA r) (st_schedok e r c).
Proof.
  intros H GO. unfold st_schedok. stage_exec; try (fin; fail).
  all: unfold PA, nodeok, check_cached.
  all: try (openA; unfold IA, GA in *; cbn;
            repeat match goal with |- _ /\ _ => split end; try assumption; try congruence;
            try (intros; ga_tail discriminate)).
  (* rnode = 0, or Status.NodeName already set *)
  all: try match goal with
    | Hb : (rnode _ =? 0) || negb (jnode (cj _) =? 0) = true, Hj : jnode (cj _) = jnode j0 |- _ =>
        apply orb_true_iff in Hb; destruct Hb as [Z0|NZ];
        [ left; apply Z.eqb_eq; exact Z0 | right; right; rewrite <- Hj; rewrite NZ; reflexivity ]
    end.
  (* ReservationScheduled already True *)
  all: try match goal with
    | Hb : (cRS (cj _) =? C_TRUE) = true, Hc : cRS (cj _) = C_TRUE -> cRS j0 = C_TRUE |- _ =>
        right; right; apply Z.eqb_eq in Hb; rewrite (Hc Hb); apply orb_true_r
    end.
  (* the check was made now: another node, or no pod *)
  all: try match goal with
    | Ho : epod e = Some ?p, Hn : (rnode _ =? pnode ?p) = false |- _ =>
        right; left; intros p0 E0; rewrite E0 in Ho; inversion Ho; subst; apply Z.eqb_neq; assumption
    | Ho : epod e = None |- _ => right; left; intros p0 E0; congruence
    | Hm : match epod e with Some _ => _ | None => false end = false |- _ =>
        right; left; intros p0 E0; rewrite E0 in Hm; apply Z.eqb_neq; assumption
    end.
Qed.
Lemma A_bound_by_other w c : IA c -> sat IA IA (st_bound_by_other w c).
Proof. intros H. unfold st_bound_by_other. stage_exec; fin. Qed.
Lemma A_recheck p c : IA c -> sat IA IA (st_recheck fx p c).
Proof. intros H. unfold st_recheck. stage_exec; fin. Qed.
Lemma A_pendingpod c : IA c -> sat IA IA (st_pendingpod e c).
Proof.
  intros H. unfold st_pendingpod. stage_exec; try (fin; fail).
  all: hoare_bind A_bound_by_other; stage_exec; fin.
Qed.
Lemma A_bind r c : IA c -> sat IA IA (st_bind r c).
Proof. intros H. unfold st_bind. stage_exec; fin. Qed.
Lemma A_bound r c : IA c -> sat IA IA (st_bound r c).
Proof. intros H. unfold st_bound. stage_exec; fin. Qed.
Lemma A_ready c : IA c -> sat IA IA (st_ready e c).
Proof. intros H. unfold st_ready. stage_exec; fin. Qed.
Lemma A_final r c : IA c -> sat IA IA (st_final r c).
Proof. intros H. unfold st_final. stage_exec; fin. Qed.
Lemma A_finish r c : IA c -> sat IA IA (st_finish e r c).
Proof.
  intros H. unfold st_finish. hoare_bind A_bind. hoare_bind A_bound. hoare_bind A_ready. apply A_final; auto.
Qed.

(* the eviction call: the stamp is the reservation and pod the gates were evaluated on *)
Lemma A_evict_call r p c :
  IA c -> cr c = Some r -> epod e = Some p -> gates_ok r -> res_succeeded r = false ->
  (rnode r = 0 \/ rnode r <> pnode p \/ (fx = false /\ check_cached j0 = true)) ->
  sat IA IA (st_evict_call e c).
Proof.
  intros H C P (G1 & G2 & G3) NS NO. unfold st_evict_call. rewrite C, P.
  assert (OK : forall b z, okeff (mkEff EEvict b (stamp_of (Some r) (Some p)) z)).
  { intros b z. unfold okeff, secured, other_node. cbn.
    repeat match goal with |- _ /\ _ => split end; auto.
    destruct NO as [N|[N|N]]; auto. }
  stage_exec; openA; unfold IA, GA in *; cbn;
    repeat match goal with |- _ /\ _ => split end; intros; try assumption;
    ga_tail ltac:(first [discriminate | apply OK]).
Qed.

Lemma A_evict r c : PA r c -> sat IA IA (st_evict fx e c).
Proof.
  intros (H & C & R & GO & NO). unfold st_evict. stage_exec; try (fin; fail).
  all: destruct (st_bound_by_other 0 c) as [c1|c1] eqn:E1;
    [ pose proof (A_bound_by_other 0 c H) as S1; rewrite E1 in S1; exact S1 |]; cbn [andthen].
  all: pose proof (bound_by_other_go_free _ _ _ E1 R C) as NS.
  all: apply bound_by_other_go in E1; subst c1.
  all: destruct (st_recheck fx p c) as [c2|c2] eqn:E2;
    [ pose proof (A_recheck p c H) as S2; rewrite E2 in S2; exact S2 |]; cbn [andthen].
  all: assert (NO' : rnode r = 0 \/ rnode r <> pnode p \/ (fx = false /\ check_cached j0 = true))
    by (destruct fx;
        [ destruct (recheck_go_other _ _ _ _ E2 R C); auto
        | destruct NO as [N|[N|N]]; auto ]).
  all: apply recheck_go in E2; subst c2.
  all: eapply A_evict_call; eauto.
Qed.

Lemma A_resfirst c : EA c -> sat IA IA (st_resfirst fx e c).
Proof.
  intros H. unfold st_resfirst. destruct (negb (rref (cj c))) eqn:RR.
  { eapply sat_weaken; [apply A_create; auto|auto|intros ? (?&?); auto]. }
  apply negb_false_iff in RR.
  assert (W : forall c', EA c' -> IA c') by (intros ? (?&?); auto).
  eapply sat_andthen with (R := fun c' => EA c' /\ rref (cj c') = true).
  { unfold st_order. stage_exec; try (fin; fail); split; auto. }
  intros c1 (H1 & R1). cbv beta.
  eapply sat_andthen with (R := fun c' => EA c' /\ rref (cj c') = true /\ cr c' = cr c1).
  { stage_exec; try (fin; fail). all: repeat split; auto. all: fin. }
  intros c2 (H2 & R2 & C2). cbv beta.
  destruct (cr c2) as [r|] eqn:C; [|stage_exec; fin].
  assert (RA2 : RA r c2) by (unfold RA; auto).
  eapply sat_andthen; [apply A_sync; exact RA2|]. intros c3 H3. cbv beta.
  eapply sat_andthen; [apply A_gates; exact H3|]. intros c4 (H4 & GO). cbv beta.
  eapply sat_andthen; [apply A_schedok; [exact H4|exact GO]|]. intros c5 H5. cbv beta.
  destruct (rowner r =? OW_OBJECT).
  { apply A_pendingpod. destruct H5 as (?&?); auto. }
  eapply sat_andthen; [apply (A_evict r); exact H5|]. intros c6 H6. cbv beta. apply A_finish; auto.
Qed.

Lemma A_do_migrate c : EA c -> sat IA IA (do_migrate fx e c).
Proof.
  intros H. unfold do_migrate.
  assert (W : forall c', EA c' -> IA c') by (intros ? (?&?); auto).
  destruct (paused (cj c)); [cbn; auto|].
  destruct (terminal (phase (cj c))); [cbn; auto|].
  hoare_bind A_timeout. hoare_bind A_pending.
  destruct (direct (cj c1)) eqn:D.
  { destruct H1 as ((D' & _) & _). congruence. }
  apply A_resfirst; auto.
Qed.
End PassA.

(* one reconcile of a reservation-first job *)
Lemma reconcile_guard fx s f x : W s ->
  direct (sj s) = false -> In x (snd (reconcile fx s f)) -> is_evict x = true ->
  secured (est x) /\ (other_node (est x) \/ (fx = false /\ check_cached (sj s) = true)).
Proof.
  intros HW D. destruct (reconcile_cases fx s f HW) as [E|(_ & E)]; rewrite E; [cbn; tauto|].
  unfold core. set (e := mkREnv _ _ _ _). set (c := mkCtx _ _ _ _ _ _).
  assert (S : sat (IA fx (sj s)) (IA fx (sj s)) (do_migrate fx e c)).
  { apply A_do_migrate. unfold EA, IA, GA. subst c. cbn.
    repeat match goal with |- _ /\ _ => split end; auto. intros ? []. }
  apply sat_ctx_of in S. destruct S as (_ & G). cbn. intros I Ev. exact (G x I Ev).
Qed.
