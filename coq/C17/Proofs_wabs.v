(* C17 — pass E over the stages of one reconcile, at the granularity of API writes: every successful
   write of the job is a recorded call ([EWrite], carrying the phase it persists). Walking the calls
   of a reconcile in order, once a terminal phase has been persisted nothing else follows: no later
   write changes the phase, no eviction and no reservation creation is attempted (clause 11). In the
   model every write of a terminal phase is immediately followed by the end of the reconcile. *)
From Coq Require Import List ZArith Bool Lia.
From Verif Require Import C17.Model C17.Spec C17.Hoare C17.Proofs_ver C17.Proofs_once.
Import ListNotations.
Open Scope Z_scope.

(* the phase persisted after a list of calls *)
Fixpoint wlast (ph : Z) (l : list effect) : Z :=
  match l with [] => ph | e :: t => wlast (ph_next ph e) t end.

Lemma wlast_snoc l : forall ph e, wlast ph (l ++ [e]) = ph_next (wlast ph l) e.
Proof. induction l as [|a t IH]; intros ph e; cbn; auto. Qed.

Lemma wabs_snoc l : forall ph e,
  wabs ph l -> (terminal (wlast ph l) = true -> after_terminal_ok (wlast ph l) e) -> wabs ph (l ++ [e]).
Proof.
  induction l as [|a t IH]; intros ph e H Hx; cbn in *.
  - split; auto.
  - destruct H as (H1 & H2). split; auto.
Qed.

Section PassE.
Variable fx : bool.
Variable ph0 : Z.   (* the phase persisted when the reconcile started *)

(* stopped: the calls so far are fine; going on: moreover nothing terminal has been persisted *)
Definition ES (c : ctx) : Prop := wabs ph0 (ce c).
Definition EG (c : ctx) : Prop :=
  wabs ph0 (ce c) /\ terminal (wlast ph0 (ce c)) = false /\ terminal (phase (cj c)) = false.

Ltac snocs :=
  repeat first
    [ apply wabs_snoc; [| let T := fresh "T" in intros T; exfalso; revert T;
                           rewrite ?wlast_snoc; cbn [ph_next ek eph]; congruence ]
    | assumption ].

Ltac fin :=
  try discriminate; try congruence;
  match goal with H : EG _ |- _ => destruct H as (Hw & Hl & Hp) end;
  unfold ES, EG in *; cbn;
  repeat match goal with |- _ /\ _ => split end;
  rewrite ?wlast_snoc; cbn [ph_next ek eph phase set_puid set_rref set_phase set_failed set_complete set_sr
                            set_jnode set_spodref set_cRC set_cRS set_cEv set_cPS set_cPB set_cBR set_cRB];
  try assumption; try reflexivity; snocs.

Lemma E_timeout e c : EG c -> sat ES EG (st_timeout e c).
Proof. intros H. unfold st_timeout. stage_exec; fin. Qed.
Lemma E_pending e c : EG c -> sat ES EG (st_pending e c).
Proof. intros H. unfold st_pending. stage_exec; fin. Qed.
Lemma E_bound_by_other w c : EG c -> sat ES EG (st_bound_by_other w c).
Proof. intros H. unfold st_bound_by_other. stage_exec; fin. Qed.
Lemma E_recheck p c : EG c -> sat ES EG (st_recheck fx p c).
Proof. intros H. unfold st_recheck. stage_exec; fin. Qed.
Lemma E_evict_call e c : EG c -> sat ES EG (st_evict_call e c).
Proof. intros H. unfold st_evict_call. stage_exec; fin. Qed.
Lemma E_evict e c : EG c -> sat ES EG (st_evict fx e c).
Proof.
  intros H. unfold st_evict. stage_exec; try (fin; fail).
  all: hoare_bind E_bound_by_other; hoare_bind E_recheck; apply E_evict_call; auto.
Qed.
Lemma E_direct e c : EG c -> sat ES EG (st_direct fx e c).
Proof. intros H. unfold st_direct. hoare_bind E_evict. stage_exec; fin. Qed.
Lemma E_create e c : EG c -> sat ES EG (st_create e c).
Proof. intros H. unfold st_create. stage_exec; fin. Qed.
Lemma E_order c : EG c -> sat ES EG (st_order c).
Proof. intros H. unfold st_order. stage_exec; fin. Qed.
Lemma E_sync r c : EG c -> sat ES EG (st_sync r c).
Proof. intros H. unfold st_sync. stage_exec; fin. Qed.
Lemma E_gates r c : EG c -> sat ES EG (st_gates r c).
Proof. intros H. unfold st_gates. stage_exec; fin. Qed.
Lemma E_schedok e r c : EG c -> sat ES EG (st_schedok e r c).
Proof. intros H. unfold st_schedok. stage_exec; fin. Qed.
Lemma E_pendingpod e c : EG c -> sat ES EG (st_pendingpod e c).
Proof.
  intros H. unfold st_pendingpod. stage_exec; try (fin; fail).
  all: hoare_bind E_bound_by_other; stage_exec; fin.
Qed.
Lemma E_bind r c : EG c -> sat ES EG (st_bind r c).
Proof. intros H. unfold st_bind. stage_exec; fin. Qed.
Lemma E_bound r c : EG c -> sat ES EG (st_bound r c).
Proof. intros H. unfold st_bound. stage_exec; fin. Qed.
Lemma E_ready e c : EG c -> sat ES EG (st_ready e c).
Proof. intros H. unfold st_ready. stage_exec; fin. Qed.
Lemma E_updcond get set v ss rs c :
  (forall j x, phase (set j x) = phase j) ->
  EG c -> sat ES EG (updcond get set v ss rs c).
Proof.
  intros F H. stage_exec; try (fin; fail).
  all: destruct H as (Hw & Hl & Hp); unfold ES, EG; cbn;
    repeat match goal with |- _ /\ _ => split end;
    rewrite ?wlast_snoc; cbn [ph_next ek eph phase set_sr]; rewrite ?F; try assumption.
  all: apply wabs_snoc; [assumption|]; intros T; congruence.
Qed.
Lemma E_final r c : EG c -> sat ES EG (st_final r c).
Proof.
  intros H. unfold st_final. eapply sat_andthen.
  - apply E_updcond; [intros; reflexivity|exact H].
  - intros c1 H1. cbv beta. stage_exec; fin.
Qed.
Lemma E_finish e r c : EG c -> sat ES EG (st_finish e r c).
Proof.
  intros H. unfold st_finish. hoare_bind E_bind. hoare_bind E_bound. hoare_bind E_ready. apply E_final; auto.
Qed.
Lemma E_resfirst e c : EG c -> sat ES EG (st_resfirst fx e c).
Proof.
  intros H. unfold st_resfirst. destruct (negb (rref (cj c))); [apply E_create; auto|].
  hoare_bind E_order. eapply sat_andthen; [apply E_updcond; [intros; reflexivity|eassumption]|].
  intros c2 H2. cbv beta. destruct (cr c2) as [r|] eqn:R; [|stage_exec; fin].
  hoare_bind E_sync. hoare_bind E_gates. hoare_bind E_schedok.
  destruct (rowner r =? OW_OBJECT); [apply E_pendingpod; auto|].
  hoare_bind E_evict. apply E_finish; auto.
Qed.

Lemma ES_of_EG c : EG c -> ES c.
Proof. intros (H & _); exact H. Qed.

Lemma E_do_migrate e c : ce c = [] -> phase (cj c) = ph0 -> sat ES ES (do_migrate fx e c).
Proof.
  intros E0 P. unfold do_migrate.
  assert (S0 : ES c) by (unfold ES; rewrite E0; exact I).
  destruct (paused (cj c)); [exact S0|].
  destruct (terminal (phase (cj c))) eqn:T; [exact S0|].
  assert (G0 : EG c) by (unfold EG; rewrite E0; cbn; rewrite <- P; auto).
  eapply sat_weaken with (QS := ES) (QG := EG); [|auto|apply ES_of_EG].
  hoare_bind E_timeout. hoare_bind E_pending.
  destruct (direct (cj c1)); [apply E_direct|apply E_resfirst]; auto.
Qed.
End PassE.

(* one reconcile *)
Lemma reconcile_wabs fx s f : W s -> wabs (phase (sj s)) (snd (reconcile fx s f)).
Proof.
  intros HW. destruct (reconcile_cases fx s f HW) as [E|(_ & E)]; rewrite E; [exact I|].
  cbn [snd]. unfold core.
  apply (sat_ctx_of (ES (phase (sj s)))). apply E_do_migrate; reflexivity.
Qed.
