(* C17 — pass C over the stages of one reconcile: the constant part of the job is never written,
   ReservationRef is never cleared, and a reconcile that leaves the job Failed/Timeout has deleted
   the reservation the job refers to. *)
From Coq Require Import List ZArith Bool Lia.
From Verif Require Import C17.Model C17.Spec C17.Hoare C17.Proofs_ver.
Import ListNotations.
Open Scope Z_scope.

Definition consts (j : job) := (paused j, direct j, ttl j, pvalid j, owner j, tmpl j).

(* terminal phases short-circuit: nothing of the job or the reservation changes, nothing is recorded *)
Lemma core_terminal fx s f :
  terminal (phase (sj s)) = true -> cj (core fx s f) = sj s /\ cr (core fx s f) = sr s /\ ce (core fx s f) = [].
Proof.
  intros T. unfold core, do_migrate. cbn [cj]. rewrite T.
  destruct (paused (sj s)); cbn; auto.
Qed.

Lemma reconcile_terminal_eq fx s f : W s ->
  terminal (phase (sj s)) = true ->
  sj (fst (reconcile fx s f)) = sj s /\ sr (fst (reconcile fx s f)) = sr s /\ snd (reconcile fx s f) = [].
Proof.
  intros HW T. destruct (reconcile_cases fx s f HW) as [E|(_ & E)]; rewrite E; [cbn; auto|].
  cbn [fst snd after sj sr]. apply core_terminal; auto.
Qed.

Section PassC.
Variable fx : bool.
Variable j0 : job.

Definition CG (c : ctx) : Prop :=
  consts (cj c) = consts j0 /\ phase (cj c) <> PH_FAILED /\ (rref j0 = true -> rref (cj c) = true).
Definition CS (c : ctx) : Prop :=
  consts (cj c) = consts j0 /\ (rref j0 = true -> rref (cj c) = true)
  /\ (phase (cj c) = PH_FAILED -> reason (cj c) = RS_TIMEOUT -> rref (cj c) = true -> cr c = None).

Ltac fin :=
  match goal with H : CG _ |- _ => destruct H as (Hc & Hp & Hr) end;
  unfold CG, CS, consts in *; cbn;
  repeat split; intros; try assumption; try (enum_unfold; congruence); auto.

Lemma C_timeout e c : CG c -> sat CS CG (st_timeout e c).
Proof. intros H. unfold st_timeout. stage_exec; fin. Qed.
Lemma C_pending e c : CG c -> sat CS CG (st_pending e c).
Proof. intros H. unfold st_pending. stage_exec; fin. Qed.
Lemma C_bound_by_other w c : CG c -> sat CS CG (st_bound_by_other w c).
Proof. intros H. unfold st_bound_by_other. stage_exec; fin. Qed.
Lemma C_recheck p c : CG c -> sat CS CG (st_recheck fx p c).
Proof. intros H. unfold st_recheck. stage_exec; fin. Qed.
Lemma C_evict_call e c : CG c -> sat CS CG (st_evict_call e c).
Proof. intros H. unfold st_evict_call. stage_exec; fin. Qed.
Lemma C_evict e c : CG c -> sat CS CG (st_evict fx e c).
Proof.
  intros H. unfold st_evict. stage_exec; try (fin; fail).
  all: hoare_bind C_bound_by_other; hoare_bind C_recheck; apply C_evict_call; auto.
Qed.
Lemma C_direct e c : CG c -> sat CS CG (st_direct fx e c).
Proof. intros H. unfold st_direct. hoare_bind C_evict. stage_exec; fin. Qed.
Lemma C_create e c : CG c -> sat CS CG (st_create e c).
Proof. intros H. unfold st_create. stage_exec; fin. Qed.
Lemma C_order c : CG c -> sat CS CG (st_order c).
Proof. intros H. unfold st_order. stage_exec; fin. Qed.
Lemma C_sync r c : CG c -> sat CS CG (st_sync r c).
Proof. intros H. unfold st_sync. stage_exec; fin. Qed.
Lemma C_gates r c : CG c -> sat CS CG (st_gates r c).
Proof. intros H. unfold st_gates. stage_exec; fin. Qed.
Lemma C_schedok e r c : CG c -> sat CS CG (st_schedok e r c).
Proof. intros H. unfold st_schedok. stage_exec; fin. Qed.
Lemma C_pendingpod e c : CG c -> sat CS CG (st_pendingpod e c).
Proof.
  intros H. unfold st_pendingpod. stage_exec; try (fin; fail).
  all: hoare_bind C_bound_by_other; stage_exec; fin.
Qed.
Lemma C_bind r c : CG c -> sat CS CG (st_bind r c).
Proof. intros H. unfold st_bind. stage_exec; fin. Qed.
Lemma C_bound r c : CG c -> sat CS CG (st_bound r c).
Proof. intros H. unfold st_bound. stage_exec; fin. Qed.
Lemma C_ready e c : CG c -> sat CS CG (st_ready e c).
Proof. intros H. unfold st_ready. stage_exec; fin. Qed.
Lemma C_updcond get set v ss rs c :
  (forall j x, consts (set j x) = consts j /\ rref (set j x) = rref j /\ phase (set j x) = phase j) ->
  CG c -> sat CS CG (updcond get set v ss rs c).
Proof.
  intros F H. stage_exec; try (fin; fail).
  all: destruct H as (Hc & Hp & Hr); destruct (F (cj c) v) as (F1 & F2 & F3);
    unfold CG, CS, consts in *; cbn in *; repeat split; intros; try congruence; auto.
  all: try (rewrite F2; auto).
Qed.
Lemma C_final r c : CG c -> sat CS CG (st_final r c).
Proof.
  intros H. unfold st_final. eapply sat_andthen.
  - apply C_updcond; [intros; cbn; auto|exact H].
  - intros c1 H1. cbv beta. stage_exec; fin.
Qed.
Lemma C_finish e r c : CG c -> sat CS CG (st_finish e r c).
Proof.
  intros H. unfold st_finish. hoare_bind C_bind. hoare_bind C_bound. hoare_bind C_ready. apply C_final; auto.
Qed.
Lemma C_resfirst e c : CG c -> sat CS CG (st_resfirst fx e c).
Proof.
  intros H. unfold st_resfirst. destruct (negb (rref (cj c))); [apply C_create; auto|].
  hoare_bind C_order. eapply sat_andthen; [apply C_updcond; [intros; cbn; auto|eassumption]|].
  intros c2 H2. cbv beta. destruct (cr c2) as [r|] eqn:R; [|stage_exec; fin].
  hoare_bind C_sync. hoare_bind C_gates. hoare_bind C_schedok.
  destruct (rowner r =? OW_OBJECT); [apply C_pendingpod; auto|].
  hoare_bind C_evict. apply C_finish; auto.
Qed.
Lemma C_do_migrate e c : CG c -> sat CS CG (do_migrate fx e c).
Proof.
  intros H. unfold do_migrate.
  destruct (paused (cj c)); [cbn; destruct H as (?&?&?); repeat split; auto; intros; congruence|].
  destruct (terminal (phase (cj c))); [cbn; destruct H as (?&?&?); repeat split; auto; intros; congruence|].
  hoare_bind C_timeout. hoare_bind C_pending.
  destruct (direct (cj c1)); [apply C_direct|apply C_resfirst]; auto.
Qed.
End PassC.

Lemma terminal_failed ph : ph = PH_FAILED -> terminal ph = true.
Proof. intros ->. reflexivity. Qed.

Lemma timed_out_failed a b : timed_out a b = true ->
  terminal (phase a) = false /\ phase b = PH_FAILED /\ reason b = RS_TIMEOUT.
Proof.
  unfold timed_out. intros H. apply andb_true_iff in H. destruct H as (H & R).
  apply andb_true_iff in H. destruct H as (T & P).
  apply negb_true_iff in T. apply Z.eqb_eq in P. apply Z.eqb_eq in R. auto.
Qed.

(* one reconcile: what it never writes, and the reservation of a job it fails for timeout *)
Lemma reconcile_frame fx s f : W s ->
  let r := reconcile fx s f in
  consts (sj (fst r)) = consts (sj s)
  /\ (rref (sj s) = true -> rref (sj (fst r)) = true)
  /\ (timed_out (sj s) (sj (fst r)) = true -> rref (sj s) = true -> sr (fst r) = None)
  /\ sp (fst r) = sp s /\ sbp (fst r) = sbp s /\ snow (fst r) = snow s /\ sgen (fst r) = sgen s.
Proof.
  intros HW. cbv zeta.
  assert (Same : timed_out (sj s) (sj s) = true -> rref (sj s) = true -> sr s = None).
  { intros T. apply timed_out_failed in T. destruct T as (T & P & _).
    rewrite (terminal_failed _ P) in T. discriminate. }
  destruct (reconcile_cases fx s f HW) as [E|(_ & E)]; rewrite E.
  { cbn. repeat split; auto. }
  cbn [fst snd after sj sr sp sbp snow sgen].
  destruct (terminal (phase (sj s))) eqn:T.
  { destruct (core_terminal fx s f T) as (E1 & E2 & _). rewrite E1, E2. repeat split; auto. }
  unfold core. set (e := mkREnv _ _ _ _). set (c := mkCtx _ _ _ _ _ _).
  assert (S : sat (CS (sj s)) (CG (sj s)) (do_migrate fx e c)).
  { apply C_do_migrate. subst c. unfold CG. cbn. repeat split; auto.
    intros P. rewrite (terminal_failed _ P) in T. discriminate. }
  destruct (do_migrate fx e c) as [c'|c']; cbn [sat ctx_of] in *.
  - destruct S as (S1 & S2 & S3). repeat split; auto.
    intros TO R. apply timed_out_failed in TO. destruct TO as (_ & P & RS). apply S3; auto.
  - destruct S as (S1 & S2 & S3). repeat split; auto.
    intros TO R. apply timed_out_failed in TO. destruct TO as (_ & P & _). contradiction.
Qed.
