(* C17 — flat-integer interface of the model for the generic OCaml driver (definitions in Codec.v,
   so that Proofs_codec.v can state theorems about exactly what is extracted here).
   input  : direct paused ttl pvalid initphase rref0 createdBy tmpl nops, then nops records of 12 ints
            kind a1..a11:  0 Reconcile faultmask | 1 SetRes exists label phase node sched expired owner
            bound needp pdone once | 2 SetPod exists uid node sched ctrl | 3 SetBoundPod state | 4 Tick s | 5 Restart
            | 6 Stale k | 7 Sched node | 8 Alloc uid
   observable: per operation  nEff, nEff x (kind ok + 10 stamp ints + phase), 14 job ints, 4 reservation ints
            (effect kinds: 1 Evict 2 CreateReservation 3 DeleteReservation 4 successful job write) *)
From Coq Require Import List ZArith Bool.
From Verif Require Import Lib.Wire C17.Model C17.Spec C17.Codec.

Require Extraction.
Require Import ExtrOcamlBasic.
Extraction "model.ml" run_case prop_case nontrivial_case finding_sig.
