(* C17 — flat-integer interface of the model for the generic OCaml driver.
   input  : direct paused ttl pvalid initphase rref0 createdBy nops, then nops records of 11 ints
            kind a1..a10 (see Wire.v of this directory)
   observable: per operation  nEff, nEff x (kind ok + 10 stamp ints), 14 job ints, 3 reservation ints *)
From Coq Require Import List ZArith Bool.
From Verif Require Import Lib.Wire C17.Model C17.Spec C17.Codec.
Import ListNotations.
Open Scope Z_scope.

Definition run_case (inp : list Z) : list Z :=
  let '(j0, ops) := decode inp in
  flat_map enc_obs (observe j0 ops).

(* property decision on the implementation's observable; 0 = holds, otherwise clause number
   (9 = the observable does not parse: crash or truncated log) *)
Definition prop_case (inp obs : list Z) : Z :=
  let '(j0, ops) := decode inp in
  match parse_obs j0 (length ops) obs with
  | Some o => prop_code j0 ops o
  | None => 9
  end.

(* non-trivial: the model run issues at least one recorded API call and the job changes in at
   least two operations *)
Definition nontrivial_case (inp : list Z) : bool :=
  let '(j0, ops) := decode inp in
  let obs := observe j0 ops in
  negb (Nat.eqb (length (flat_map o_effs obs)) 0) && Nat.leb 2 (changes j0 obs).

(* no known finding on the current tree: the same-node finding (Spec.finding_code, sig 1 of the
   old variant) was repaired by commit 025e424, so a same-node eviction is a plain violation now *)
Definition finding_sig (inp obs : list Z) : Z := 0.

Require Extraction.
Require Import ExtrOcamlBasic.
Extraction "model.ml" run_case prop_case nontrivial_case finding_sig.
