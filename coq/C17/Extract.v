(* C17 — flat-integer interface of the model for the generic OCaml driver (definitions in Codec.v,
   so that Proofs_codec.v can state theorems about exactly what is extracted here).
   input  : direct paused ttl pvalid initphase rref0 createdBy nops, then nops records of 11 ints
            kind a1..a10:  0 Reconcile faultmask | 1 SetRes exists label phase node sched expired owner
            bound needp pdone | 2 SetPod exists uid node sched ctrl | 3 SetBoundPod state | 4 Tick s | 5 Restart
   observable: per operation  nEff, nEff x (kind ok + 10 stamp ints), 14 job ints, 3 reservation ints *)
From Coq Require Import List ZArith Bool.
From Verif Require Import Lib.Wire C17.Model C17.Spec C17.Codec.

Require Extraction.
Require Import ExtrOcamlBasic.
Extraction "model.ml" run_case prop_case nontrivial_case finding_sig.
