(* C17 — model of the PodMigrationJob controller
   (pkg/descheduler/controllers/migration/controller.go: Reconcile / doMigrate and everything it
   calls, reservation/interpreter.go, reservation/reservation.go predicates, util.UpdateCondition).

   A state is the persisted PodMigrationJob plus the environment the controller reads
   (the Reservation object, the target pod, the pod bound to the reservation, the clock, the
   controller generation). [reconcile] is one invocation of Reconciler.Reconcile with a list of
   fault bits, one consumed by every API write the controller issues (job update, job status update,
   reservation create / label update / delete, eviction call): a set bit makes that call fail.
   Within one reconcile the in-memory job equals the persisted job after every successful write and
   every failed write ends the reconcile (at most one more, error-ignoring write follows), so one
   job value is enough.
   Executable, total, no proofs in this file. *)
From Coq Require Import List ZArith Bool.
Import ListNotations.
Open Scope Z_scope.

(* ---- enumerations (wire values) ---- *)
(* job phase *)
Definition PH_EMPTY := 0. Definition PH_PENDING := 1. Definition PH_RUNNING := 2.
Definition PH_SUCCEEDED := 3. Definition PH_FAILED := 4. Definition PH_ABORTED := 5.
(* job Status.Status: type of the last updated condition, or Complete *)
Definition SS_RC := 1. Definition SS_RS := 2. Definition SS_EV := 4. Definition SS_PS := 5.
Definition SS_PB := 6. Definition SS_BR := 7. Definition SS_COMPLETE := 9.
(* job Status.Reason *)
Definition RS_NONE := 0. Definition RS_TIMEOUT := 1. Definition RS_INVALIDPOD := 2.
Definition RS_MISSINGPOD := 3. Definition RS_MISSINGRES := 4. Definition RS_EXPIRED := 5.
Definition RS_FORBIDDEN := 6. Definition RS_UNSCHED := 7. Definition RS_FAILEDCREATE := 8.
Definition RS_EVICTING := 9. Definition RS_EVICTCOMPLETE := 10. Definition RS_WAITBIND := 11.
Definition RS_WAITREADY := 12.
(* a job condition: 0 absent, 1 status True, 2 status False (one reason/message per type) *)
Definition C_NONE := 0. Definition C_TRUE := 1. Definition C_FALSE := 2.
(* reservation phase *)
Definition RP_EMPTY := 0. Definition RP_PENDING := 1. Definition RP_AVAILABLE := 2.
Definition RP_SUCCEEDED := 3. Definition RP_WAITING := 4. Definition RP_FAILED := 5.
(* reservation condition of type Scheduled: 0 none, 1 reason Scheduled/True,
   2 reason Unschedulable, 3 reason Scheduled/False *)
Definition SC_SCHEDULED := 1. Definition SC_UNSCHED := 2.
(* reservation owner kind: 0 none, 1 controller reference, 2 object reference (pending pod) *)
Definition OW_OBJECT := 2.

Record job := mkJob {
  paused : bool;      (* Spec.Paused *)
  direct : bool;      (* Spec.Mode = EvictDirectly *)
  ttl : Z;            (* Spec.TTL in seconds, 0 = none; creation time is 0 *)
  pvalid : bool;      (* Spec.PodRef has namespace and name *)
  owner : Z;          (* 0: no created-by annotation; g+1: created by controller generation g *)
  tmpl : Z;           (* Spec.ReservationOptions.Template as supplied by the user: 0 none; else o*4 + a with
                         a = 1 AllocateOnce nil, 2 true, 3 false and o = 0 no Owners, 1 a controller owner, 2 an object owner *)
  puid : Z;           (* Spec.PodRef.UID, 0 = empty *)
  rref : bool;        (* Spec.ReservationOptions.ReservationRef set *)
  phase : Z; sstatus : Z; reason : Z;
  jnode : Z;          (* Status.NodeName, 0 = empty *)
  spodref : Z;        (* Status.PodRef uid, 0 = nil *)
  cRC : Z; cRS : Z; cEv : Z; cPS : Z; cPB : Z; cBR : Z; cRB : Z  (* conditions *)
}.

Record res := mkRes {
  rlabel : bool;   (* has the reservation-order label *)
  rphase : Z; rnode : Z; rsched : Z;
  rexpired : bool; (* has a Ready condition with reason Expired *)
  rowner : Z;
  rbound : Z;      (* uid of Status.CurrentOwners[0], 0 = none *)
  rneedp : bool; rpdone : bool;  (* answers of the Preemption extension point *)
  ronce : bool     (* extension.IsReservationAllocateOnce: Spec.AllocateOnce is nil or true *)
}.

Record pod := mkPod { uid : Z; pnode : Z; psched : Z (* 0 no PodScheduled condition, 1 False, 2 True *); pctrl : bool }.

(* what a recorded API call is stamped with: reservation and pod as read at that instant *)
Record stamp := mkStamp {
  st_rex : bool; st_rphase : Z; st_rnode : Z; st_rsched : Z; st_rexpired : bool; st_rbound : Z;
  st_needp : bool; st_pdone : bool;
  st_puid : Z (* 0 = no pod *); st_pnode : Z }.

(* EWrite = a successful write of the job (Update or Status().Update); [eph] = the phase it persists;
   a job write carries the empty stamp. For EEvict [eph] = the UID of the pod object handed to the
   evictor; 0 for the other kinds *)
Inductive ekind := EEvict | ECreate | EDelete | EWrite.
Record effect := mkEff { ek : ekind; eok : bool; est : stamp; eph : Z }.
Definition stamp0 : stamp := mkStamp false 0 0 0 false 0 false false 0 0.

Record state := mkState {
  sj : job; sr : option res; sp : option pod;
  sbp : Z;   (* pod bound to the reservation: 0 missing, 1 not ready, 2 ready *)
  snow : Z;  (* seconds since the job was created *)
  sgen : Z;  (* controller generation (restarts) *)
  (* versions of the job and the controller's staleness guard (assumed_cache.go) *)
  sold : list job;      (* older versions of the job the informer can still serve, newest first *)
  sver : Z;             (* resourceVersion of [sj] (one step per successful job write) *)
  sass : option Z;      (* resourceVersion remembered by assumedCache.assume, None = nothing assumed *)
  slag : Z              (* how many job writes the informer lags behind at the next reconcile *)
}.

Inductive op :=
| OReconcile (faults : list bool)
| OSetRes (r : option res)
| OSetPod (p : option pod)
| OSetBP (b : Z)
| OTick (d : Z)
| ORestart
| OStale (k : Z)    (* the next reconcile reads the job as it was k job-writes ago *)
(* the scheduler acting on the reservation object IN PLACE (spec, labels, owners untouched): *)
| OSched (n : Z)    (* a pending reservation is scheduled on node n (reservationutil.SetReservationAvailable) *)
| OAlloc (u : Z).   (* pod u is allocated from the available reservation (reservation controller syncStatus):
                       CurrentOwners := [u], and the phase becomes Succeeded iff the reservation is allocate-once *)

(* ---- job setters ---- *)
Definition set_puid (j : job) (v : Z) : job :=
  mkJob (paused j) (direct j) (ttl j) (pvalid j) (owner j) (tmpl j) v (rref j) (phase j) (sstatus j) (reason j)
        (jnode j) (spodref j) (cRC j) (cRS j) (cEv j) (cPS j) (cPB j) (cBR j) (cRB j).
Definition set_rref (j : job) (v : bool) : job :=
  mkJob (paused j) (direct j) (ttl j) (pvalid j) (owner j) (tmpl j) (puid j) v (phase j) (sstatus j) (reason j)
        (jnode j) (spodref j) (cRC j) (cRS j) (cEv j) (cPS j) (cPB j) (cBR j) (cRB j).
Definition set_phase (j : job) (v : Z) : job :=
  mkJob (paused j) (direct j) (ttl j) (pvalid j) (owner j) (tmpl j) (puid j) (rref j) v (sstatus j) (reason j)
        (jnode j) (spodref j) (cRC j) (cRS j) (cEv j) (cPS j) (cPB j) (cBR j) (cRB j).
(* abort*: phase Failed with a reason (Status.Status untouched) *)
Definition set_failed (j : job) (rs : Z) : job :=
  mkJob (paused j) (direct j) (ttl j) (pvalid j) (owner j) (tmpl j) (puid j) (rref j) PH_FAILED (sstatus j) rs
        (jnode j) (spodref j) (cRC j) (cRS j) (cEv j) (cPS j) (cPB j) (cBR j) (cRB j).
(* phase Succeeded, status Complete, reason cleared *)
Definition set_complete (j : job) : job :=
  mkJob (paused j) (direct j) (ttl j) (pvalid j) (owner j) (tmpl j) (puid j) (rref j) PH_SUCCEEDED SS_COMPLETE RS_NONE
        (jnode j) (spodref j) (cRC j) (cRS j) (cEv j) (cPS j) (cPB j) (cBR j) (cRB j).
(* updateCondition: Status.Status := condition type, Status.Reason := condition reason *)
Definition set_sr (j : job) (ss rs : Z) : job :=
  mkJob (paused j) (direct j) (ttl j) (pvalid j) (owner j) (tmpl j) (puid j) (rref j) (phase j) ss rs
        (jnode j) (spodref j) (cRC j) (cRS j) (cEv j) (cPS j) (cPB j) (cBR j) (cRB j).
Definition set_jnode (j : job) (v : Z) : job :=
  mkJob (paused j) (direct j) (ttl j) (pvalid j) (owner j) (tmpl j) (puid j) (rref j) (phase j) (sstatus j) (reason j)
        v (spodref j) (cRC j) (cRS j) (cEv j) (cPS j) (cPB j) (cBR j) (cRB j).
Definition set_spodref (j : job) (v : Z) : job :=
  mkJob (paused j) (direct j) (ttl j) (pvalid j) (owner j) (tmpl j) (puid j) (rref j) (phase j) (sstatus j) (reason j)
        (jnode j) v (cRC j) (cRS j) (cEv j) (cPS j) (cPB j) (cBR j) (cRB j).
Definition set_cRC (j : job) (v : Z) : job :=
  mkJob (paused j) (direct j) (ttl j) (pvalid j) (owner j) (tmpl j) (puid j) (rref j) (phase j) (sstatus j) (reason j)
        (jnode j) (spodref j) v (cRS j) (cEv j) (cPS j) (cPB j) (cBR j) (cRB j).
Definition set_cRS (j : job) (v : Z) : job :=
  mkJob (paused j) (direct j) (ttl j) (pvalid j) (owner j) (tmpl j) (puid j) (rref j) (phase j) (sstatus j) (reason j)
        (jnode j) (spodref j) (cRC j) v (cEv j) (cPS j) (cPB j) (cBR j) (cRB j).
Definition set_cEv (j : job) (v : Z) : job :=
  mkJob (paused j) (direct j) (ttl j) (pvalid j) (owner j) (tmpl j) (puid j) (rref j) (phase j) (sstatus j) (reason j)
        (jnode j) (spodref j) (cRC j) (cRS j) v (cPS j) (cPB j) (cBR j) (cRB j).
Definition set_cPS (j : job) (v : Z) : job :=
  mkJob (paused j) (direct j) (ttl j) (pvalid j) (owner j) (tmpl j) (puid j) (rref j) (phase j) (sstatus j) (reason j)
        (jnode j) (spodref j) (cRC j) (cRS j) (cEv j) v (cPB j) (cBR j) (cRB j).
Definition set_cPB (j : job) (v : Z) : job :=
  mkJob (paused j) (direct j) (ttl j) (pvalid j) (owner j) (tmpl j) (puid j) (rref j) (phase j) (sstatus j) (reason j)
        (jnode j) (spodref j) (cRC j) (cRS j) (cEv j) (cPS j) v (cBR j) (cRB j).
Definition set_cBR (j : job) (v : Z) : job :=
  mkJob (paused j) (direct j) (ttl j) (pvalid j) (owner j) (tmpl j) (puid j) (rref j) (phase j) (sstatus j) (reason j)
        (jnode j) (spodref j) (cRC j) (cRS j) (cEv j) (cPS j) (cPB j) v (cRB j).
Definition set_cRB (j : job) (v : Z) : job :=
  mkJob (paused j) (direct j) (ttl j) (pvalid j) (owner j) (tmpl j) (puid j) (rref j) (phase j) (sstatus j) (reason j)
        (jnode j) (spodref j) (cRC j) (cRS j) (cEv j) (cPS j) (cPB j) (cBR j) v.

Definition set_rlabel (r : res) (v : bool) : res :=
  mkRes v (rphase r) (rnode r) (rsched r) (rexpired r) (rowner r) (rbound r) (rneedp r) (rpdone r) (ronce r).

(* ---- reservation predicates (reservation/reservation.go) ---- *)
Definition res_pending (r : res) : bool := (rphase r =? RP_EMPTY) || (rphase r =? RP_PENDING).
Definition res_expired (r : res) : bool := (rphase r =? RP_FAILED) && rexpired r.
Definition res_scheduled (r : res) : bool := negb (rnode r =? 0) && (rsched r =? SC_SCHEDULED).
Definition res_unsched_cond (r : res) : bool := rsched r =? SC_UNSCHED.
Definition res_succeeded (r : res) : bool := rphase r =? RP_SUCCEEDED.
Definition res_preempted (r : res) : bool := rneedp r && rpdone r.

(* reservation.GenerateReserveResourceOwners *)
Definition owner_kind (p : pod) : Z :=
  if psched p =? 1 then OW_OBJECT else if pctrl p then 1 else 0.
(* the object createReservation creates (reservation.CreateOrUpdateReservationOptions): name = job UID,
   order label set, empty status; Owners of a user-supplied template are kept, otherwise generated from
   the pod; AllocateOnce is FORCED to true whatever the template says *)
Definition tmpl_owner (t : Z) : Z := t / 4.
Definition new_res (j : job) (p : pod) : res :=
  mkRes true RP_EMPTY 0 0 false (if tmpl_owner (tmpl j) =? 0 then owner_kind p else tmpl_owner (tmpl j)) 0 false false true.

(* ---- the scheduler's two status transitions (environment) ---- *)
Definition res_sched (n : Z) (r : res) : res :=
  if ((rphase r =? RP_EMPTY) || (rphase r =? RP_PENDING)) && (0 <? n)
  then mkRes (rlabel r) RP_AVAILABLE n SC_SCHEDULED false (rowner r) (rbound r) (rneedp r) (rpdone r) (ronce r)
  else r.
Definition res_alloc (u : Z) (r : res) : res :=
  if (rphase r =? RP_AVAILABLE) && (0 <? u)
  then if ronce r
       then mkRes (rlabel r) RP_SUCCEEDED (rnode r) (rsched r) false (rowner r) u (rneedp r) (rpdone r) (ronce r)
       else mkRes (rlabel r) (rphase r) (rnode r) (rsched r) (rexpired r) (rowner r) u (rneedp r) (rpdone r) (ronce r)
  else r.

(* ---- one reconcile: context threaded through the stages ---- *)
Record ctx := mkCtx {
  cj : job; cr : option res;
  cf : list bool;       (* remaining fault bits *)
  ce : list effect;     (* recorded calls, oldest first *)
  cstale : bool;        (* the job was read from a lagging informer: every write of it conflicts *)
  cw : list job         (* versions of the job written by this reconcile, newest first *)
}.
Inductive outc := Stop (c : ctx) | Go (c : ctx).
Definition andthen (o : outc) (f : ctx -> outc) : outc :=
  match o with Stop c => Stop c | Go c => f c end.
Definition halt (o : outc) : outc := match o with Stop c => Stop c | Go c => Stop c end.
Definition ctx_of (o : outc) : ctx := match o with Stop c => c | Go c => c end.

(* next fault bit *)
Definition pop (c : ctx) : bool * ctx :=
  match cf c with
  | [] => (false, c)
  | b :: t => (b, mkCtx (cj c) (cr c) t (ce c) (cstale c) (cw c))
  end.
Definition with_job (c : ctx) (j : job) : ctx :=
  mkCtx j (cr c) (cf c) (ce c ++ [mkEff EWrite true stamp0 (phase j)]) (cstale c) (j :: cw c).
Definition with_res (c : ctx) (r : option res) : ctx := mkCtx (cj c) r (cf c) (ce c) (cstale c) (cw c).
Definition with_eff (c : ctx) (e : effect) : ctx := mkCtx (cj c) (cr c) (cf c) (ce c ++ [e]) (cstale c) (cw c).

(* a write of the job (Update or Status().Update): an injected failure, or a conflict because the
   in-memory job is not the latest version -> the reconcile ends, nothing persisted *)
Definition wjob (c : ctx) (j' : job) : outc :=
  let '(fail, c') := pop c in
  if fail then Stop c' else if cstale c' then Stop c' else Go (with_job c' j').

(* updateCondition: write only when the condition changes *)
Definition updcond (get : job -> Z) (set : job -> Z -> job) (v ss rs : Z) (c : ctx) : outc :=
  if get (cj c) =? v then Go c else wjob c (set_sr (set (cj c) v) ss rs).

Definition abort (c : ctx) (rs : Z) : outc := halt (wjob c (set_failed (cj c) rs)).

Definition stamp_of (r : option res) (p : option pod) : stamp :=
  let '(pu, pn) := match p with Some p => (uid p, pnode p) | None => (0, 0) end in
  match r with
  | Some r => mkStamp true (rphase r) (rnode r) (rsched r) (rexpired r) (rbound r) (rneedp r) (rpdone r) pu pn
  | None => mkStamp false 0 0 0 false 0 false false pu pn
  end.

Definition puid_of (p : option pod) : Z := match p with Some p => uid p | None => 0 end.

(* the part of the environment a reconcile only reads *)
Record renv := mkREnv { epod : option pod; ebp : Z; enow : Z; egen : Z }.

(* abortJobIfTimeout *)
Definition st_timeout (e : renv) (c : ctx) : outc :=
  if (ttl (cj c) =? 0) || (enow e <? ttl (cj c)) then Go c
  else
    let del :=   (* deleteReservation: Get, then Delete when it exists; NotFound is ignored *)
      if rref (cj c) then
        match cr c with
        | None => Go c
        | Some _ =>
            let '(fail, c') := pop c in
            if fail then Stop (with_eff c' (mkEff EDelete false (stamp_of (cr c) (epod e)) 0))
            else Go (with_res (with_eff c' (mkEff EDelete true (stamp_of (cr c) (epod e)) 0)) None)
        end
      else Go c in
    andthen del (fun c => abort c RS_TIMEOUT).

(* preparePendingJob *)
Definition st_pending (e : renv) (c : ctx) : outc :=
  if (phase (cj c) =? PH_EMPTY) || (phase (cj c) =? PH_PENDING) then
    if negb (pvalid (cj c)) then abort c RS_INVALIDPOD
    else match epod e with
         | None => abort c RS_MISSINGPOD
         | Some p =>
             andthen (wjob c (set_puid (cj c) (uid p)))
                     (fun c => wjob c (set_phase (cj c) PH_RUNNING))
         end
  else Go c.

(* abortJobIfReservationBoundByAnotherPod; [who] = uid of the pod passed in (0 = nil) *)
Definition st_bound_by_other (who : Z) (c : ctx) : outc :=
  if rref (cj c) then
    match cr c with
    | None => abort c RS_MISSINGRES
    | Some r =>
        if res_succeeded r && negb (negb (who =? 0) && negb (rbound r =? 0) && (rbound r =? who))
        then abort c RS_FORBIDDEN else Go c
    end
  else Go c.

(* ---- the stages that depend on the variant of the controller ----
   [fx] = "re-check the same-node condition right before the eviction call" (the repair proposed in
   findings/C17-same-node-after-pod-replaced.md). [recheck_same_node] below says which variant /repo
   currently is; everything from [st_evict] up to [run] takes the variant as its first argument. *)
Section Variant.
Variable fx : bool.

(* the re-check: abortJobIfReserveOnSameNode against the pod that is about to be evicted *)
Definition st_recheck (p : pod) (c : ctx) : outc :=
  if fx && rref (cj c) then
    match cr c with
    | None => Stop c
    | Some r => if negb (rnode r =? 0) && (rnode r =? pnode p) then abort c RS_FORBIDDEN else Go c
    end
  else Go c.

(* the eviction call itself and the Evicting condition that remembers it *)
Definition st_evict_call (e : renv) (c : ctx) : outc :=
  let '(fail, c') := pop c in
  let c'' := with_eff c' (mkEff EEvict (negb fail) (stamp_of (cr c) (epod e)) (puid_of (epod e))) in
  if fail then Stop c''
  else halt (updcond cEv set_cEv C_FALSE SS_EV RS_EVICTING c'').

(* evictPod: [Go] = eviction complete, [Stop] = everything else *)
Definition st_evict (e : renv) (c : ctx) : outc :=
  if cEv (cj c) =? C_TRUE then Go c
  else
    let gone := match epod e with
                | None => true
                | Some p => negb (cEv (cj c) =? C_NONE) && negb (puid (cj c) =? 0) && negb (puid (cj c) =? uid p)
                end in
    if gone then
      if negb (sstatus (cj c) =? SS_EV) then abort c RS_MISSINGPOD
      else updcond cEv set_cEv C_TRUE SS_EV RS_EVICTCOMPLETE c
    else if cEv (cj c) =? C_FALSE then Stop c          (* reason Evicting: wait *)
    else
      andthen (st_bound_by_other 0 c) (fun c =>
      andthen (match epod e with Some p => st_recheck p c | None => Go c end) (fun c =>
        st_evict_call e c)).

(* evictPodDirectly *)
Definition st_direct (e : renv) (c : ctx) : outc :=
  andthen (st_evict e c) (fun c => halt (wjob c (set_complete (cj c)))).

(* createReservation *)
Definition st_create (e : renv) (c : ctx) : outc :=
  match epod e with
  | None => abort c RS_MISSINGPOD
  | Some p =>
      let '(fail, c') := pop c in
      if fail then
        halt (updcond cRC set_cRC C_FALSE SS_RC RS_FAILEDCREATE
                      (with_eff c' (mkEff ECreate false (stamp_of (cr c) (epod e)) 0)))
      else
        let c'' := match cr c with
                   | Some _ => with_eff c' (mkEff ECreate false (stamp_of (cr c) (epod e)) 0)  (* AlreadyExists: adopt it *)
                   | None => with_res (with_eff c' (mkEff ECreate true (stamp_of (cr c) (epod e)) 0)) (Some (new_res (cj c) p))
                   end in
        halt (wjob c'' (set_rref (cj c'') true))
  end.

(* setReservationOrder. An unlabelled reservation of the harness has a nil label map: the code
   then fills a fresh map it never attaches to the object, so the Update it issues changes
   nothing (the write still happens, on every reconcile). *)
Definition st_order (c : ctx) : outc :=
  match cr c with
  | None => Stop c
  | Some r =>
      if rlabel r then Go c
      else let '(fail, c') := pop c in
           if fail then Stop c' else Go c'
  end.

(* syncReservationScheduleFailed *)
Definition st_sync (r : res) (c : ctx) : outc :=
  if ((cRS (cj c) =? C_NONE) || (cRS (cj c) =? C_FALSE)) && res_unsched_cond r
  then updcond cRS set_cRS C_FALSE SS_RS RS_UNSCHED c else Go c.

(* the reservation gates of doMigrate: pending / expired / unscheduled-and-no-preemption *)
Definition st_gates (r : res) (c : ctx) : outc :=
  if res_pending r then Stop c
  else if res_expired r then abort c RS_EXPIRED
  else if res_scheduled r then Go c
  else if negb (rneedp r) then abort c RS_UNSCHED
  else if rpdone r then Go c else Stop c.

(* prepareJobWithReservationScheduleSuccess (+ abortJobIfReserveOnSameNode) *)
Definition st_schedok (e : renv) (r : res) (c : ctx) : outc :=
  if (rnode r =? 0) || negb (jnode (cj c) =? 0) then Go c
  else if cRS (cj c) =? C_TRUE then Go c
  else
    let same := match epod e with Some p => rnode r =? pnode p | None => false end in
    if same then abort c RS_FORBIDDEN
    else wjob c (set_sr (set_cRS (set_jnode (cj c) (rnode r)) C_TRUE) SS_RS RS_NONE).

(* waitForPendingPodScheduled *)
Definition st_pendingpod (e : renv) (c : ctx) : outc :=
  match epod e with
  | None => abort c RS_MISSINGPOD
  | Some p =>
      if psched p =? 2 then
        if cPS (cj c) =? C_TRUE then Stop c
        else halt (wjob c (set_cPS (set_complete (cj c)) C_TRUE))
      else
        andthen (st_bound_by_other (uid p) c)
                (fun c => halt (updcond cPS set_cPS C_FALSE SS_PS RS_UNSCHED c))
  end.

(* waitForPodBindReservation *)
Definition st_bind (r : res) (c : ctx) : outc :=
  if cPB (cj c) =? C_TRUE then Go c
  else if rbound r =? 0 then halt (updcond cPB set_cPB C_FALSE SS_PB RS_WAITBIND c)
  else Go c.

(* handleReservationBoundSuccess (a nil bound pod is dereferenced: the reconcile panics) *)
Definition st_bound (r : res) (c : ctx) : outc :=
  if rbound r =? 0 then Stop c
  else if (spodref (cj c) =? 0) || negb (cRB (cj c) =? C_TRUE)
       then wjob c (set_spodref (set_cRB (cj c) C_TRUE) (rbound r)) else Go c.

(* waitForPodReady *)
Definition st_ready (e : renv) (c : ctx) : outc :=
  if cBR (cj c) =? C_TRUE then Go c
  else if ebp e =? 0 then Go c
  else if ebp e =? 1 then halt (updcond cBR set_cBR C_FALSE SS_BR RS_WAITREADY c)
  else Go c.

(* handleBoundPodReadySuccess and the final status update *)
Definition st_final (r : res) (c : ctx) : outc :=
  andthen (updcond cBR set_cBR C_TRUE SS_BR RS_NONE c) (fun c =>
    halt (wjob c (set_cPB (set_spodref (set_complete (cj c)) (rbound r)) C_TRUE))).

Definition st_finish (e : renv) (r : res) (c : ctx) : outc :=
  andthen (st_bind r c) (fun c =>
  andthen (st_bound r c) (fun c =>
  andthen (st_ready e c) (fun c => st_final r c))).

(* doMigrate after the mode switch, reservation-first *)
Definition st_resfirst (e : renv) (c : ctx) : outc :=
  if negb (rref (cj c)) then st_create e c
  else
    andthen (st_order c) (fun c =>
    andthen (updcond cRC set_cRC C_TRUE SS_RC RS_NONE c) (fun c =>
      match cr c with
      | None => abort c RS_MISSINGRES
      | Some r =>
          andthen (st_sync r c) (fun c =>
          andthen (st_gates r c) (fun c =>
          andthen (st_schedok e r c) (fun c =>
            if rowner r =? OW_OBJECT then st_pendingpod e c
            else andthen (st_evict e c) (fun c => st_finish e r c))))
      end)).

Definition terminal (ph : Z) : bool :=
  negb ((ph =? PH_EMPTY) || (ph =? PH_PENDING) || (ph =? PH_RUNNING)).

Definition do_migrate (e : renv) (c : ctx) : outc :=
  if paused (cj c) then Stop c
  else if terminal (phase (cj c)) then Stop c
  else
    andthen (st_timeout e c) (fun c =>
    andthen (st_pending e c) (fun c =>
      if direct (cj c) then st_direct e c else st_resfirst e c)).

(* Reconciler.Reconcile *)
Definition ignored (j : job) (gen : Z) : bool := negb (owner j =? 0) && negb (owner j =? gen + 1).

(* assumedCache.isNewOrSameObj: a job older than the one assumed is skipped *)
Definition rejected (a : option Z) (vr : Z) : bool :=
  match a with Some va => vr <? va | None => false end.

(* what the informer serves: the job [lag] writes ago, as far back as it can *)
Definition lag_of (s : state) : nat := Nat.min (Z.to_nat (slag s)) (length (sold s)).
Definition read_job (s : state) : job :=
  match lag_of s with O => sj s | S k => nth k (sold s) (sj s) end.

Definition unlag (s : state) : state :=
  mkState (sj s) (sr s) (sp s) (sbp s) (snow s) (sgen s) (sold s) (sver s) (sass s) 0.

Definition reconcile (s : state) (faults : list bool) : state * list effect :=
  let n := lag_of s in
  let stale := negb (Nat.eqb n 0) in
  let jr := read_job s in
  let vr := sver s - Z.of_nat n in
  if rejected (sass s) vr then (unlag s, [])
  else if ignored jr (sgen s) then (unlag s, [])
  else
    let c := ctx_of (do_migrate (mkREnv (sp s) (sbp s) (snow s) (sgen s)) (mkCtx jr (sr s) faults [] stale [])) in
    if stale then
      (* nothing of the job was written; assume() remembers the version that was read *)
      (mkState (sj s) (cr c) (sp s) (sbp s) (snow s) (sgen s) (sold s) (sver s) (Some vr) 0, ce c)
    else
      let ver' := sver s + Z.of_nat (length (cw c)) in
      (mkState (cj c) (cr c) (sp s) (sbp s) (snow s) (sgen s)
               (match cw c with [] => sold s | _ :: t => t ++ sj s :: sold s end)
               ver' (Some ver') 0, ce c).

(* a restarted controller has an empty assumed cache and a freshly listed informer, which cannot
   serve anything older than the job as it is now *)
Definition step (s : state) (o : op) : state * list effect :=
  match o with
  | OReconcile f => reconcile s f
  | OSetRes r => (mkState (sj s) r (sp s) (sbp s) (snow s) (sgen s) (sold s) (sver s) (sass s) (slag s), [])
  | OSetPod p => (mkState (sj s) (sr s) p (sbp s) (snow s) (sgen s) (sold s) (sver s) (sass s) (slag s), [])
  | OSetBP b => (mkState (sj s) (sr s) (sp s) b (snow s) (sgen s) (sold s) (sver s) (sass s) (slag s), [])
  | OTick d => (mkState (sj s) (sr s) (sp s) (sbp s) (snow s + d) (sgen s) (sold s) (sver s) (sass s) (slag s), [])
  | ORestart => (mkState (sj s) (sr s) (sp s) (sbp s) (snow s) (sgen s + 1) [] (sver s) None (slag s), [])
  | OStale k => (mkState (sj s) (sr s) (sp s) (sbp s) (snow s) (sgen s) (sold s) (sver s) (sass s) k, [])
  | OSched n => (mkState (sj s) (option_map (res_sched n) (sr s)) (sp s) (sbp s) (snow s) (sgen s) (sold s) (sver s) (sass s) (slag s), [])
  | OAlloc u => (mkState (sj s) (option_map (res_alloc u) (sr s)) (sp s) (sbp s) (snow s) (sgen s) (sold s) (sver s) (sass s) (slag s), [])
  end.

(* the history: every intermediate state and the effects of every operation *)
Fixpoint run (s : state) (ops : list op) : list (state * list effect) :=
  match ops with
  | [] => []
  | o :: t => let r := step s o in r :: run (fst r) t
  end.

End Variant.

(* which variant /repo is: true since commit 025e424 ("re-check the reservation's node against the
   pod right before evicting"); false = the same-node check is made once and cached in the job
   status (the code before that commit; findings/C17-same-node-after-pod-replaced.md) *)
Definition recheck_same_node : bool := true.

(* the job as created: no status except possibly phase Pending *)
Definition init_job (direct paused : bool) (ttl : Z) (pvalid : bool) (initphase : Z) (rref0 : bool) (createdby : bool) (tm : Z) : job :=
  mkJob paused direct ttl pvalid (if createdby then 1 else 0) tm 0 rref0 initphase 0 0 0 0 0 0 0 0 0 0 0.
Definition init_state (j : job) : state := mkState j None None 0 0 0 [] 0 None 0.
