(* C08 — stream "sched": wire format and entry points for schedules of lock sections (Sched.v).

   INPUT   cfg(21) [header extension]  nacts act*         (cfg, pod, metric, node as in Codec.v)
     act : 1 t node again | 2 t node | 3 t now pod | 13 t now pod(extended)
         | 4 t node metric | 5 t uid | 6 t | 8 t node(17) pod | 18 t node(17) pod(extended)
         | 7 t2 uid t now pod | 17 … pod(extended)   t2's DeletePod and t's AddOrUpdatePod, both past
           the unlocked deleted pre-check, queue for the same nodeInfo lock (delete first)
   OBSERVABLE  per action:  result, then for node 1..3
        0                                                       (no entry in the map)
      | 1 deleted locked hasMetric k uid*k [ sums(8) fresh(8) ]  (bracket iff hasMetric = 1)
     then for thread 1..3:  holds created ok
     result: Filter's status (-1: it has to wait for a creator's lock), else 0 *)
From Coq Require Import List ZArith Bool.
From Verif Require Import Lib.Wire Lib.SortX C08.Model C08.Spec C08.Codec C08.Sched.
Import ListNotations.
Open Scope Z_scope.

Definition dec_act (l : list Z) : act * list Z :=
  match l with
  | code0 :: t :: r =>
    let ext := 10 <? code0 in
    let code := if ext then code0 - 10 else code0 in
    let dpod := if ext then dec_pod_ext else dec_pod in
    if code =? 1 then
      match r with node :: again :: r1 => (AGetOrCreate t node (zb again), r1)
                 | _ => (ALoad 0 0, []) end
    else if code =? 2 then
      match r with node :: r1 => (ALoad t node, r1) | [] => (ALoad 0 0, []) end
    else if code =? 3 then
      match r with now :: r1 => let '(p, r2) := dpod r1 in (AAddPod t now p, r2)
                 | [] => (ALoad 0 0, []) end
    else if code =? 4 then
      match r with _ :: r1 => let '(m, r2) := dec_metric r1 in (AAddMetric t m, r2)
                 | [] => (ALoad 0 0, []) end
    else if code =? 5 then
      match r with uid :: r1 => (ADelPod t uid, r1) | [] => (ALoad 0 0, []) end
    else if code =? 6 then (ADelMetric t, r)
    else if code =? 7 then
      (* 7 t2 uid t now pod : t2's DeletePod and t's AddOrUpdatePod queue for the same lock *)
      match r with uid :: t1 :: now :: r1 => let '(p, r2) := dpod r1 in (ARace t uid t1 now p, r2)
                 | _ => (ALoad 0 0, []) end
    else
      let '(nd, r1) := dec_node r in
      let '(p, r2) := dpod r1 in (AFilter t nd p, r2)
  | _ => (ALoad 0 0, [])
  end.

Definition sdecode (inp : list Z) : config * list act :=
  let '(cfg, r) := dec_cfg_ext inp in
  (cfg, fst (decode_seq dec_act r)).

(* ---------------------------------------------------------------- observation *)
Definition threads : list Z := [1; 2; 3].

(* the sums a FRESH cache fed the nodeInfo's report and pods computes (Model.fresh_sums) *)
Definition sobs_node (cfg : config) (s : cstate) (node : Z) : list Z :=
  match visible s node with
  | None => [0]
  | Some o =>
    let n := o_n o in
    1 :: bz (o_del o) :: bz (negb (o_lock o =? 0)) :: bz (is_some (n_metric n))
      :: Z.of_nat (length (n_pods n)) :: sort_by Z.leb (map fst (n_pods n)) ++
    match n_metric n with
    | Some _ => flat_sums (n_sums n) ++ flat_sums (fresh_sums cfg n)
    | None => []
    end
  end.
Definition sobs_thread (s : cstate) (t : Z) : list Z :=
  let r := reg_of s t in
  match t_obj r with
  | Some (_, created, _) => [1; bz created; bz (t_ok r)]
  | None => [0; 0; bz (t_ok r)]
  end.
Definition sobserve (cfg : config) (s : cstate) : list Z :=
  flat_map (sobs_node cfg s) universe ++ flat_map (sobs_thread s) threads.

Fixpoint srun_obs (cfg : config) (s : cstate) (l : list act) : list Z :=
  match l with
  | [] => []
  | a :: r =>
    let s' := sstep cfg s a in
    act_result cfg s a :: sobserve cfg s' ++ srun_obs cfg s' r
  end.

(* ---------------------------------------------------------------- dropped events *)
(* an add-or-update whose SECOND try (the nodeInfo loaded by a getOrCreate with [again]) also
   meets a deleted nodeInfo is given up by the code (pod_assign_cache.go:313, :507) *)
Definition act_tid (a : act) : Z :=
  match a with
  | AGetOrCreate t _ _ | ALoad t _ | AAddPod t _ _ | AAddMetric t _ | ADelPod t _ | ADelMetric t
  | AFilter t _ _ => t
  | ARace _ _ t _ _ => t
  end.
Definition is_add (a : act) : bool :=
  match a with AAddPod _ _ _ | AAddMetric _ _ => true | _ => false end.
(* did this action consume the thread's register and report failure? *)
Definition add_failed (cfg : config) (s : cstate) (a : act) : bool :=
  is_add a && is_some (t_obj (reg_of s (act_tid a)))
  && negb (is_some (t_obj (reg_of (sstep cfg s a) (act_tid a))))
  && negb (t_ok (reg_of (sstep cfg s a) (act_tid a))).
Fixpoint drops_from (cfg : config) (s : cstate) (last : list (Z * bool)) (l : list act) : bool :=
  match l with
  | [] => false
  | a :: r =>
    let t := act_tid a in
    let was_last := match alookup t last with Some b => b | None => false end in
    (add_failed cfg s a && was_last)
    || drops_from cfg (sstep cfg s a)
         (match a with
          | AGetOrCreate _ _ again =>
            if (t =? 0) || (again && t_ok (reg_of s t)) then last else aset t again last
          | ALoad _ _ => aset t false last
          | _ => last
          end) r
  end.
Definition drops (cfg : config) (l : list act) : bool := drops_from cfg cs_init [] l.

(* ---------------------------------------------------------------- entry points *)
Definition sched_run_case (inp : list Z) : list Z :=
  let '(cfg, acts) := sdecode inp in srun_obs cfg cs_init acts.

(* 10 = what readers, the pod tables, the cached and the fresh sums or Filter show at some point
        of the schedule is not what the lock sections executed so far imply
    7 = a delivered event was given up (both tries of an add-or-update met a deleted nodeInfo) *)
Definition sched_prop_case (inp obs : list Z) : Z :=
  let '(cfg, acts) := sdecode inp in
  if negb (eq_listZ (srun_obs cfg cs_init acts) obs) then 10
  else if drops cfg acts then 7 else 0.

(* non-trivial: some thread's add-or-update or removal ran between the two lock sections of
   another thread's operation (a register was held across another thread's action), and a
   nodeInfo with a report and a counted estimate was visible at some point *)
Fixpoint interleaved_from (cfg : config) (s : cstate) (l : list act) : bool :=
  match l with
  | [] => false
  | a :: r =>
    existsb (fun t => negb (t =? act_tid a) && is_some (t_obj (reg_of s t))) threads
    || interleaved_from cfg (sstep cfg s a) r
  end.
Fixpoint live_from (cfg : config) (s : cstate) (l : list act) : bool :=
  match l with
  | [] => false
  | a :: r =>
    let s' := sstep cfg s a in
    existsb (fun k => match visible s' k with
                      | Some o => is_some (n_metric (o_n o)) && negb (vempty (s_nodeEst (n_sums (o_n o))))
                      | None => false end) universe
    || live_from cfg s' r
  end.
Definition sched_nontrivial_case (inp : list Z) : bool :=
  let '(cfg, acts) := sdecode inp in
  interleaved_from cfg cs_init acts && live_from cfg cs_init acts.

(* known-finding shape 2: an event given up after the second try, the implementation behaving
   exactly as the model of the code says (any other failure is reported) *)
Definition sched_finding_sig (inp obs : list Z) : Z :=
  if sched_prop_case inp obs =? 7 then 2 else 0.
