(* C08 — concrete witnesses (computed in the kernel by vm_compute): a regression example for the
   (fixed) retained-updateTime defect, and non-vacuity examples. *)
From Coq Require Import List ZArith Bool Lia.
From Verif Require Import C08.Model C08.Spec.
Import ListNotations.
Open Scope Z_scope.

Definition w_cfg : config :=
  mkCfg [Some 65; Some 95] [None; None] None (Some true) (Some 180) (Some false)
        false false None None [Some 100; Some 100] no_score.
Definition w_pod : pod :=
  mkPod 1 1 0 (Some 9000) 0 0 0 0 false 0 1 [mkCtr [100; 0] [0; 0]] [] None [None; None] (-1) (-1) 0 zero_time 0 zero_time.
Definition w_pm : list pmetric := [mkPM 1 (Some [10; 0]) true].
Definition w_info : option minfo := Some (mkMI [50; 0] [0; 0] []).
Definition w_m1 : metric := mkM (Some 1000) None w_info w_pm.   (* report with an update time *)
Definition w_m2 : metric := mkM None None w_info w_pm.          (* same report without one *)
Definition w_ops : list op := [OReserve 0 1 w_pod; OMetric 0 1 w_m1; OMetric 0 1 w_m2].

(* REGRESSION (defect fixed in /repo 56625eb).  The OLD AddOrUpdateNodeMetric kept the previous
   report's update time when the new report had none: *)
Definition set_metric_old (cfg : config) (node : Z) (m : metric) (c : cache) : cache :=
  let n := get_node c node in
  let ut := match m_ut m with Some t => t | None => n_ut n end in
  aset node (mkN (n_pods n) (Some m) ut (rebuild cfg m ut (n_pods n))) c.

(* with it, after the second report the cache still judged "not yet reflected" against the FIRST
   report's update time: nodeDelta stayed 0, while a fresh cache fed (w_m2, the pod) counts
   100 - 10 — the drift clause (1) of the property fails *)
Lemma old_sticky_variant_drifts :
  let c := set_metric_old w_cfg 1 w_m2 (run w_cfg [OReserve 0 1 w_pod; OMetric 0 1 w_m1]) in
  exists n, alookup 1 c = Some n
    /\ n_metric n = Some w_m2
    /\ s_nodeDelta (n_sums n) = [0; 0]
    /\ s_nodeDelta (fresh_sums w_cfg n) = [90; 209715200]
    /\ node_code w_cfg (Some n) (observe_node w_cfg c 1) = 1.
Proof.
  cbn zeta. eexists. split; [vm_compute; reflexivity|].
  split; [reflexivity|]. split; [vm_compute; reflexivity|]. split; vm_compute; reflexivity.
Qed.

(* the repaired code: the same history has no drift *)
Lemma untimed_report_no_drift :
  exists n, alookup 1 (run w_cfg w_ops) = Some n
    /\ n_metric n = Some w_m2
    /\ s_nodeDelta (n_sums n) = [90; 209715200]
    /\ fresh_sums w_cfg n = n_sums n.
Proof.
  eexists. split; [vm_compute; reflexivity|].
  split; [reflexivity|]. split; vm_compute; reflexivity.
Qed.

(* a history on which estimates, a should=false pod and Filter decisions all occur *)
Definition w_pod2 : pod :=
  mkPod 2 2 1 (Some 5000) 0 0 0 0 false 0 3 [mkCtr [40; 0] [0; 0]] [] None [None; None] (-1) (-1) 2 990 0 zero_time.
Definition w_node : nodeobj := mkNode 1 [200; 1000000000] None None.
Definition w_in : pod :=
  mkPod 9 9 0 (Some 9000) 0 0 0 0 false 0 1 [mkCtr [20; 0] [0; 0]] [] None [None; None] (-1) (-1) 0 zero_time 0 zero_time.
Definition w_m3 : metric := mkM (Some (-10)) None w_info w_pm.
Definition w_ops2 : list op :=
  [OReserve 0 1 w_pod; OMetric 0 1 w_m3; OAdd (-5) w_pod2; OFilter 0 w_node w_in;
   ODelete 0 w_pod2; OFilter 0 w_node w_in].

(* usage 50 + (100-10) + 40 + incoming 20 = 200 of 200 > 65 %: rejected; after the delete
   50 + 90 + 20 = 160 of 200 = 80 % > 65 %: still rejected; memory is under 95 % *)
Example w_filter_results :
  map fst (run_obs w_cfg [] w_ops2) = [0; 0; 0; 1; 0; 1].
Proof. vm_compute. reflexivity. Qed.

Definition w_node_big : nodeobj := mkNode 1 [400; 1000000000] None None.
Example w_filter_pass :
  filter w_cfg (run w_cfg [OReserve 0 1 w_pod; OMetric 0 1 w_m3]) w_node_big w_in = 0
  /\ filter w_cfg (run w_cfg [OReserve 0 1 w_pod; OMetric 0 1 w_m3]) w_node w_in = 1.
Proof. split; vm_compute; reflexivity. Qed.

(* an expired report: rejected (EnableScheduleWhenNodeMetricsExpired = false) *)
Definition w_m_old : metric := mkM (Some (-200)) None w_info w_pm.
Example w_filter_expired :
  filter w_cfg (run w_cfg [OMetric 0 1 w_m_old]) w_node_big w_in = 3.
Proof. vm_compute. reflexivity. Qed.

(* exact percentage ties are decided by the float64 evaluation: 115/200 = 57.5 % rounds to 57 *)
Example w_float_tie : pct_float 115 200 = 57 /\ round_div (100 * 115) 200 = 58 /\ pct_float 131 200 = 66.
Proof. vm_compute. repeat split; reflexivity. Qed.
