(* C08 — basic algebra: resource vectors, cached sums, association lists.
   (Proofs_Drift.v: the no-drift invariant; Proofs_Filter.v: the filter decision;
    Proofs_Main.v: the decision procedure on the model's own observations.) *)
From Coq Require Import List ZArith Bool Lia Permutation.
From Verif Require Import C08.Model C08.Spec.
Import ListNotations.
Open Scope Z_scope.

(* ------------------------------------------------------------------ vectors *)
Lemma vsub_vadd v c : vsub (vadd v c) c = v.
Proof.
  revert c. induction v as [|a v IH]; intro c; [reflexivity|].
  cbn [vadd vsub vzip]. f_equal; [lia|]. apply IH.
Qed.

Lemma vadd_swap v a b : vadd (vadd v a) b = vadd (vadd v b) a.
Proof.
  revert a b. induction v as [|x v IH]; intros a b; [reflexivity|].
  cbn [vadd vzip]. f_equal; [lia|]. apply IH.
Qed.

Lemma vadd_vsub_swap v a b : vadd (vsub v a) b = vsub (vadd v b) a.
Proof.
  revert a b. induction v as [|x v IH]; intros a b; [reflexivity|].
  cbn [vadd vsub vzip]. f_equal; [lia|]. apply IH.
Qed.

Lemma vadd_nil v : vadd v [] = v.
Proof.
  induction v as [|x v IH]; [reflexivity|].
  cbn [vadd vzip hd tl]. f_equal; [lia|]. exact IH.
Qed.

Lemma vzip_length f v y : length (vzip f v y) = length v.
Proof. revert y. induction v as [|x v IH]; intro y; cbn; [reflexivity|]. f_equal. apply IH. Qed.

Lemma vec_eqb_refl v : vec_eqb v v = true.
Proof.
  unfold vec_eqb. rewrite Nat.eqb_refl. cbn [andb].
  induction v as [|x v IH]; [reflexivity|].
  cbn [combine forallb fst snd]. rewrite Z.eqb_refl. exact IH.
Qed.

Lemma vec_eqb_eq a b : vec_eqb a b = true -> a = b.
Proof.
  unfold vec_eqb. intro H. apply andb_prop in H. destruct H as [Hl Hf].
  apply Nat.eqb_eq in Hl. revert b Hl Hf.
  induction a as [|x a IH]; intros [|y b] Hl Hf; try discriminate; [reflexivity|].
  cbn [combine forallb fst snd] in Hf. apply andb_prop in Hf. destruct Hf as [Hxy Hf].
  apply Z.eqb_eq in Hxy. subst y. f_equal. apply IH; [now inversion Hl|exact Hf].
Qed.

(* ------------------------------------------------------------------ sums *)
Lemma sums_sub_add s c : sums_sub (sums_add s c) c = s.
Proof. destruct s, c. unfold sums_sub, sums_add. cbn. now rewrite !vsub_vadd. Qed.

Lemma sums_add_swap s a b : sums_add (sums_add s a) b = sums_add (sums_add s b) a.
Proof.
  destruct s, a, b. unfold sums_add. cbn.
  f_equal; apply vadd_swap.
Qed.

Lemma sums_add_sub_swap s a b : sums_add (sums_sub s a) b = sums_sub (sums_add s b) a.
Proof.
  destruct s, a, b. unfold sums_add, sums_sub. cbn.
  f_equal; apply vadd_vsub_swap.
Qed.

Lemma sums_eqb_refl s : sums_eqb s s = true.
Proof. unfold sums_eqb. now rewrite !vec_eqb_refl. Qed.

Lemma sums_eqb_eq a b : sums_eqb a b = true -> a = b.
Proof.
  unfold sums_eqb. intro H.
  apply andb_prop in H. destruct H as [H H4].
  apply andb_prop in H. destruct H as [H H3].
  apply andb_prop in H. destruct H as [H1 H2].
  apply vec_eqb_eq in H1, H2, H3, H4. destruct a, b. cbn in *. now subst.
Qed.

Lemma list_eqb_refl {A} (eqb : A -> A -> bool) (l : list A) :
  (forall x, eqb x x = true) -> list_eqb eqb l l = true.
Proof. intro H. induction l as [|x l IH]; [reflexivity|]. cbn. now rewrite H, IH. Qed.

Lemma list_eqb_eq {A} (eqb : A -> A -> bool) (a b : list A) :
  (forall x y, eqb x y = true -> x = y) -> list_eqb eqb a b = true -> a = b.
Proof.
  intro H. revert b. induction a as [|x a IH]; intros [|y b] E; try discriminate; [reflexivity|].
  cbn in E. apply andb_prop in E. destruct E as [E1 E2]. f_equal; [now apply H|now apply IH].
Qed.

Lemma ovec_eqb_refl o : ovec_eqb o o = true.
Proof. destruct o; [apply vec_eqb_refl|reflexivity]. Qed.

Lemma ovec_eqb_eq a b : ovec_eqb a b = true -> a = b.
Proof.
  destruct a, b; cbn; try discriminate; [|reflexivity]. intro H. f_equal. now apply vec_eqb_eq.
Qed.

Lemma oz_eqb_refl o : oz_eqb o o = true.
Proof. destruct o; [apply Z.eqb_refl|reflexivity]. Qed.
Lemma ctr_eqb_refl c : ctr_eqb c c = true.
Proof. unfold ctr_eqb. now rewrite !vec_eqb_refl. Qed.
Lemma ictr_eqb_refl c : ictr_eqb c c = true.
Proof. unfold ictr_eqb. now rewrite Bool.eqb_reflx, ctr_eqb_refl. Qed.


(* adding the contributions of a list of pods to a start value *)
Definition addall (f : pinfo -> sums) (l : list (Z * pinfo)) (b : sums) : sums :=
  fold_left (fun s p => sums_add s (f (snd p))) l b.

Lemma addall_app f l1 l2 b : addall f (l1 ++ l2) b = addall f l2 (addall f l1 b).
Proof. unfold addall. apply fold_left_app. Qed.

Lemma addall_add_comm f l b x : addall f l (sums_add b x) = sums_add (addall f l b) x.
Proof.
  revert b. induction l as [|p l IH]; intro b; [reflexivity|].
  cbn [addall fold_left]. fold (addall f l (sums_add (sums_add b x) (f (snd p)))).
  rewrite sums_add_swap. rewrite IH. reflexivity.
Qed.

Lemma addall_mid f l1 x l2 b :
  addall f (l1 ++ x :: l2) b = sums_add (addall f (l1 ++ l2) b) (f (snd x)).
Proof.
  rewrite !addall_app. cbn [addall fold_left].
  fold (addall f l2 (sums_add (addall f l1 b) (f (snd x)))).
  apply addall_add_comm.
Qed.

Lemma addall_snoc f l x b : addall f (l ++ [x]) b = sums_add (addall f l b) (f (snd x)).
Proof. rewrite addall_app. reflexivity. Qed.

Lemma addall_perm f l l' b : Permutation l l' -> addall f l b = addall f l' b.
Proof.
  intro H. revert b. induction H as [|x l l' _ IH|x y l|l l' l'' _ IH1 _ IH2]; intro b.
  - reflexivity.
  - cbn [addall fold_left]. apply IH.
  - cbn [addall fold_left]. now rewrite sums_add_swap.
  - now rewrite IH1, IH2.
Qed.

Lemma rebuild_addall cfg m ut pods :
  rebuild cfg m ut pods = addall (contrib m ut) pods (base_sums cfg m).
Proof. reflexivity. Qed.

(* ------------------------------------------------------------------ association lists *)
Section AssocFacts.
  Context {A : Type}.
  Implicit Types (l : list (Z * A)).

  Lemma alookup_aset k k' a l :
    alookup k (aset k' a l) = if k' =? k then Some a else alookup k l.
  Proof.
    induction l as [|[k0 a0] l IH]; cbn [aset alookup].
    - destruct (k' =? k); reflexivity.
    - destruct (k0 =? k') eqn:E0; cbn [alookup].
      + apply Z.eqb_eq in E0. subst k0. destruct (k' =? k); reflexivity.
      + rewrite IH. destruct (k0 =? k) eqn:E1; [|reflexivity].
        apply Z.eqb_eq in E1. subst k0. now rewrite Z.eqb_sym, E0.
  Qed.

  Lemma alookup_aremove k k' l :
    alookup k (aremove k' l) = if k' =? k then None else alookup k l.
  Proof.
    induction l as [|[k0 a0] l IH]; cbn [aremove alookup].
    - destruct (k' =? k); reflexivity.
    - destruct (k0 =? k') eqn:E0.
      + apply Z.eqb_eq in E0. subst k0. rewrite IH. destruct (k' =? k); reflexivity.
      + cbn [alookup]. rewrite IH. destruct (k0 =? k) eqn:E1; [|reflexivity].
        apply Z.eqb_eq in E1. subst k0. now rewrite Z.eqb_sym, E0.
  Qed.

  Lemma alookup_none_notin k l : alookup k l = None -> ~ In k (map fst l).
  Proof.
    induction l as [|[k0 a0] l IH]; cbn [alookup map fst In]; [tauto|].
    destruct (k0 =? k) eqn:E; [discriminate|]. apply Z.eqb_neq in E.
    intros H [H1|H1]; [congruence|]. now apply IH.
  Qed.

  Lemma notin_alookup_none k l : ~ In k (map fst l) -> alookup k l = None.
  Proof.
    induction l as [|[k0 a0] l IH]; cbn [alookup map fst In]; [reflexivity|].
    intro H. destruct (k0 =? k) eqn:E.
    - apply Z.eqb_eq in E. tauto.
    - apply IH. tauto.
  Qed.

  Lemma alookup_split k l a :
    alookup k l = Some a ->
    exists l1 l2, l = l1 ++ (k, a) :: l2 /\ ~ In k (map fst l1).
  Proof.
    induction l as [|[k0 a0] l IH]; cbn [alookup]; [discriminate|].
    destruct (k0 =? k) eqn:E.
    - apply Z.eqb_eq in E. subst k0. intro H. injection H as ->.
      exists [], l. split; [reflexivity|]. cbn. tauto.
    - intro H. destruct (IH H) as (l1 & l2 & -> & Hn).
      exists ((k0, a0) :: l1), l2. split; [reflexivity|].
      cbn [map fst In]. apply Z.eqb_neq in E. tauto.
  Qed.

  Lemma aset_mid k a b l1 l2 :
    ~ In k (map fst l1) -> aset k b (l1 ++ (k, a) :: l2) = l1 ++ (k, b) :: l2.
  Proof.
    induction l1 as [|[k0 a0] l1 IH]; cbn [app aset map fst In]; intro H.
    - now rewrite Z.eqb_refl.
    - destruct (k0 =? k) eqn:E; [apply Z.eqb_eq in E; tauto|].
      f_equal. apply IH. tauto.
  Qed.

  Lemma aremove_notin k l : ~ In k (map fst l) -> aremove k l = l.
  Proof.
    induction l as [|[k0 a0] l IH]; cbn [aremove map fst In]; intro H; [reflexivity|].
    destruct (k0 =? k) eqn:E; [apply Z.eqb_eq in E; tauto|].
    f_equal. apply IH. tauto.
  Qed.

  Lemma aremove_mid k a l1 l2 :
    ~ In k (map fst l1) -> ~ In k (map fst l2) ->
    aremove k (l1 ++ (k, a) :: l2) = l1 ++ l2.
  Proof.
    induction l1 as [|[k0 a0] l1 IH]; cbn [app aremove map fst In]; intros H1 H2.
    - rewrite Z.eqb_refl. now apply aremove_notin.
    - destruct (k0 =? k) eqn:E; [apply Z.eqb_eq in E; tauto|].
      f_equal. apply IH; tauto.
  Qed.

  Lemma aset_notin k b l : ~ In k (map fst l) -> aset k b l = l ++ [(k, b)].
  Proof.
    induction l as [|[k0 a0] l IH]; cbn [app aset map fst In]; intro H; [reflexivity|].
    destruct (k0 =? k) eqn:E; [apply Z.eqb_eq in E; tauto|].
    f_equal. apply IH. tauto.
  Qed.

  Lemma aset_keys_in k b l x : In x (map fst (aset k b l)) <-> x = k \/ In x (map fst l).
  Proof.
    induction l as [|[k0 a0] l IH]; cbn [aset map fst In].
    - intuition.
    - destruct (k0 =? k) eqn:E; cbn [map fst In].
      + apply Z.eqb_eq in E. subst k0. intuition.
      + rewrite IH. intuition.
  Qed.

  Lemma aset_nodup k b l : NoDup (map fst l) -> NoDup (map fst (aset k b l)).
  Proof.
    induction l as [|[k0 a0] l IH]; cbn [aset map fst]; intro H.
    - constructor; [cbn; tauto|constructor].
    - inversion H as [|? ? Hn Hd]; subst. destruct (k0 =? k) eqn:E; cbn [map fst].
      + apply Z.eqb_eq in E. subst k0. now constructor.
      + constructor; [|now apply IH]. rewrite aset_keys_in. apply Z.eqb_neq in E.
        intros [H1|H1]; [congruence|tauto].
  Qed.

  Lemma aremove_keys_in k l x : In x (map fst (aremove k l)) <-> x <> k /\ In x (map fst l).
  Proof.
    induction l as [|[k0 a0] l IH]; cbn [aremove map fst In].
    - intuition.
    - destruct (k0 =? k) eqn:E; cbn [map fst In].
      + apply Z.eqb_eq in E. subst k0. rewrite IH. intuition congruence.
      + apply Z.eqb_neq in E. rewrite IH. intuition congruence.
  Qed.

  Lemma aremove_nodup k l : NoDup (map fst l) -> NoDup (map fst (aremove k l)).
  Proof.
    induction l as [|[k0 a0] l IH]; cbn [aremove map fst]; intro H; [constructor|].
    inversion H as [|? ? Hn Hd]; subst. destruct (k0 =? k) eqn:E; cbn [map fst].
    - now apply IH.
    - constructor; [|now apply IH]. rewrite aremove_keys_in. tauto.
  Qed.

  Lemma aset_in_values k b l x :
    In x (aset k b l) -> x = (k, b) \/ In x l.
  Proof.
    induction l as [|[k0 a0] l IH]; cbn [aset In].
    - intuition.
    - destruct (k0 =? k) eqn:E; cbn [In]; intuition.
  Qed.

  Lemma aremove_in_values k l x : In x (aremove k l) -> In x l.
  Proof.
    induction l as [|[k0 a0] l IH]; cbn [aremove In]; [tauto|].
    destruct (k0 =? k) eqn:E; cbn [In]; intuition.
  Qed.
End AssocFacts.
