(* C08 — the pod-assign cache under concurrency (Sched.v): an invariant that every atomic lock
   section preserves, hence holds after every interleaving of any threads (Lib.Interleave);
   what readers can see; uninterrupted programs refine the sequential model; and the bounded
   retry loses an event under some schedules (witness). *)
From Coq Require Import List ZArith Bool Lia.
From Verif Require Import Lib.Interleave.
From Verif Require Import C08.Model C08.Spec C08.Proofs C08.Proofs_Drift C08.Sched.
Import ListNotations.
Open Scope Z_scope.

(* ------------------------------------------------------------------ the sequential operations, per nodeInfo *)
Lemma assign_ni cfg now node p c :
  assign cfg now node p c =
    if (node =? 0) || terminated p || p_resv p then c
    else aset node (ni_add_pod (mk_pinfo cfg now p) (get_node c node)) c.
Proof. reflexivity. Qed.

Lemma unassign_ni node uid c :
  unassign node uid c =
    if node =? 0 then c else
    match alookup node c with
    | None => c
    | Some n => put_or_cleanup c node (ni_del_pod uid n)
    end.
Proof. reflexivity. Qed.

Lemma set_metric_ni cfg node m c :
  set_metric cfg node m c = aset node (ni_set_metric cfg m (get_node c node)) c.
Proof. reflexivity. Qed.

Lemma del_metric_ni node c :
  del_metric node c =
    match alookup node c with None => c | Some n => put_or_cleanup c node (ni_del_metric n) end.
Proof. reflexivity. Qed.

Lemma single_ok cfg n : ninfo_ok cfg n -> cache_ok cfg [(1, n)].
Proof.
  intros H k n'. cbn [alookup]. destruct (1 =? k); [|discriminate]. intro E. now injection E as <-.
Qed.

Lemma ni_add_pod_ok cfg now p n :
  ninfo_ok cfg n -> terminated p = false -> p_resv p = false ->
  ninfo_ok cfg (ni_add_pod (mk_pinfo cfg now p) n).
Proof.
  intros Hn Ht Hr.
  pose proof (assign_ok cfg now 1 p [(1, n)] (single_ok cfg n Hn)) as H.
  rewrite assign_ni, Ht, Hr in H. cbn [Z.eqb orb] in H.
  apply (H 1). unfold get_node. cbn [alookup aset Z.eqb]. reflexivity.
Qed.

Lemma ni_del_pod_ok cfg uid n : ninfo_ok cfg n -> ninfo_ok cfg (ni_del_pod uid n).
Proof.
  intros Hn. destruct Hn as (Hnd & Hcan & Hs).
  split; [|split]; cbn [ni_del_pod n_pods n_metric n_ut n_sums].
  - now apply aremove_nodup.
  - apply Forall_forall. intros x Hx. apply aremove_in_values in Hx.
    rewrite Forall_forall in Hcan. now apply Hcan.
  - intros m Hm. destruct (Hs m Hm) as [Hsum Hut]. split; [|exact Hut].
    rewrite Hm. rewrite !rebuild_addall in *.
    destruct (alookup uid (n_pods n)) as [o|] eqn:Eo.
    + destruct (alookup_split _ _ _ Eo) as (l1 & l2 & Hl & Hn1).
      rewrite Hl in *. pose proof (nodup_mid_notin _ _ _ _ Hnd) as Hn2.
      rewrite (aremove_mid _ _ _ _ Hn1 Hn2).
      rewrite Hsum. rewrite addall_mid. cbn [snd]. now rewrite sums_sub_add.
    + apply alookup_none_notin in Eo. rewrite (aremove_notin _ _ Eo). exact Hsum.
Qed.

Lemma ni_set_metric_ok cfg m n : ninfo_ok cfg n -> ninfo_ok cfg (ni_set_metric cfg m n).
Proof.
  intros (Hnd & Hcan & Hs).
  split; [|split]; cbn [ni_set_metric n_pods n_metric n_ut n_sums]; [exact Hnd|exact Hcan|].
  intros m0 Hm0. injection Hm0 as <-. split; reflexivity.
Qed.

Lemma ni_del_metric_ok cfg n : ninfo_ok cfg n -> ninfo_ok cfg (ni_del_metric n).
Proof.
  intros (Hnd & Hcan & Hs).
  split; [|split]; cbn [ni_del_metric n_pods n_metric n_ut n_sums]; [exact Hnd|exact Hcan|discriminate].
Qed.

Lemma ni_add_pod_nonempty pi n : ni_empty (ni_add_pod pi n) = false.
Proof.
  unfold ni_empty, ni_add_pod. cbn [n_metric n_pods].
  destruct (n_metric n); [reflexivity|].
  destruct (aset (p_uid (pi_pod pi)) pi (n_pods n)) eqn:E; [|reflexivity].
  exfalso. destruct (n_pods n) as [|[k a] l]; cbn [aset] in E; [discriminate|].
  destruct (k =? p_uid (pi_pod pi)); discriminate.
Qed.

Lemma ni_set_metric_nonempty cfg m n : ni_empty (ni_set_metric cfg m n) = false.
Proof. reflexivity. Qed.

(* ------------------------------------------------------------------ the invariant *)
Definition obj_ok (cfg : config) (s : cstate) (oid : Z) (o : nobj) : Prop :=
  ninfo_ok cfg (o_n o)
  /\ (o_del o = true -> ni_empty (o_n o) = true /\ o_lock o = 0)
  /\ (o_del o = false -> alookup (o_name o) (cs_items s) = Some oid)
  /\ (o_del o = false -> o_lock o = 0 -> ni_empty (o_n o) = false)
  /\ (o_lock o <> 0 -> ni_empty (o_n o) = true)
  /\ oid < cs_next s.

Definition sinv (cfg : config) (s : cstate) : Prop :=
  (forall oid o, alookup oid (cs_heap s) = Some o -> obj_ok cfg s oid o)
  /\ (forall node oid, alookup node (cs_items s) = Some oid ->
        exists o, alookup oid (cs_heap s) = Some o /\ o_del o = false /\ o_name o = node)
  /\ (forall t oid cr node, t_obj (reg_of s t) = Some (oid, cr, node) ->
        exists o, alookup oid (cs_heap s) = Some o /\ o_name o = node).

Lemma sinv_init cfg : sinv cfg cs_init.
Proof. split; [|split]; intros; discriminate. Qed.

Lemma reg_of_set s t r t' :
  reg_of (set_reg s t r) t' = if t =? t' then r else reg_of s t'.
Proof.
  unfold reg_of, set_reg. cbn [cs_regs]. rewrite alookup_aset. now destruct (t =? t').
Qed.

(* writing a register that points at an existing object under its own name (or at nothing) *)
Lemma sinv_set_reg cfg s t r :
  sinv cfg s ->
  (forall oid cr node, t_obj r = Some (oid, cr, node) ->
     exists o, alookup oid (cs_heap s) = Some o /\ o_name o = node) ->
  sinv cfg (set_reg s t r).
Proof.
  intros (Hh & Hi & Hr) Hnew. split; [exact Hh|]. split; [exact Hi|].
  intros t' oid cr node. rewrite reg_of_set. destruct (t =? t'); [apply Hnew|apply Hr].
Qed.

Lemma sinv_clear_reg cfg s t ok : sinv cfg s -> sinv cfg (set_reg s t (mkT None ok)).
Proof. intro H. apply sinv_set_reg; [exact H|]. cbn. discriminate. Qed.

(* replacing the object [oid] by one that keeps deleted = false, its name, and satisfies the
   local conditions *)
Lemma sinv_put cfg s oid o o' :
  sinv cfg s -> alookup oid (cs_heap s) = Some o ->
  o_del o = false -> o_del o' = false -> o_name o' = o_name o ->
  ninfo_ok cfg (o_n o') ->
  (o_lock o' = 0 -> ni_empty (o_n o') = false) ->
  (o_lock o' <> 0 -> ni_empty (o_n o') = true) ->
  sinv cfg (put_obj s oid o').
Proof.
  intros (Hh & Hi & Hr) Ho Hd Hd' Hname Hok Hne Hlk. split; [|split].
  - intros oid1 o1. unfold put_obj. cbn [cs_heap cs_items cs_next]. rewrite alookup_aset.
    destruct (oid =? oid1) eqn:E.
    + apply Z.eqb_eq in E. subst oid1. intro H. injection H as <-.
      destruct (Hh _ _ Ho) as (_ & _ & H3 & _ & _ & H6).
      split; [exact Hok|]. split; [intro; congruence|].
      split; [intros _; cbn [cs_items]; rewrite Hname; now apply H3|].
      split; [intros _; exact Hne|]. split; [exact Hlk|exact H6].
    + intro H. exact (Hh _ _ H).
  - intros node oid1 H. unfold put_obj in *. cbn [cs_heap cs_items] in *.
    destruct (Hi _ _ H) as (o1 & Ho1 & Hd1 & Hn1). rewrite alookup_aset.
    destruct (oid =? oid1) eqn:E.
    + apply Z.eqb_eq in E. subst oid1. exists o'. rewrite Ho in Ho1. injection Ho1 as <-.
      repeat split; congruence.
    + exists o1. now repeat split.
  - intros t oid1 cr node H. unfold put_obj in *. cbn [cs_heap].
    change (reg_of (mkCS (cs_items s) (aset oid o' (cs_heap s)) (cs_next s) (cs_regs s)) t)
      with (reg_of s t) in H.
    destruct (Hr _ _ _ _ H) as (o1 & Ho1 & Hn1). rewrite alookup_aset.
    destruct (oid =? oid1) eqn:E.
    + apply Z.eqb_eq in E. subst oid1. exists o'. rewrite Ho in Ho1. injection Ho1 as <-.
      split; congruence.
    + exists o1. now split.
Qed.

Lemma sinv_add_or_update cfg s t f :
  sinv cfg s ->
  (forall n, ninfo_ok cfg n -> ninfo_ok cfg (f n)) -> (forall n, ni_empty (f n) = false) ->
  sinv cfg (add_or_update s t f).
Proof.
  intros Hs Hf Hne. unfold add_or_update.
  destruct (t_obj (reg_of s t)) as [[[oid created] rname]|]; [|exact Hs].
  destruct (alookup oid (cs_heap s)) as [o|] eqn:Eo; [|exact Hs].
  destruct (can_write t created o); cbn [negb]; [|exact Hs].
  destruct (o_del o) eqn:Ed.
  - (* deleted: the object is rewritten with the same content *)
    apply sinv_clear_reg. destruct Hs as (Hh & Hi & Hr).
    destruct (Hh _ _ Eo) as (H1 & H2 & H3 & H4 & H5 & H6). destruct (H2 Ed) as [He Hl].
    split; [|split].
    + intros oid1 o1. unfold put_obj. cbn [cs_heap cs_items cs_next]. rewrite alookup_aset.
      destruct (oid =? oid1) eqn:E.
      * apply Z.eqb_eq in E. subst oid1. intro H. injection H as <-.
        unfold obj_ok. cbn [o_n o_del o_lock o_name cs_items cs_next].
        split; [exact H1|]. split; [intros _; now split|].
        split; [discriminate|]. split; [discriminate|]. split; [intro H; now elim H|exact H6].
      * intro H. exact (Hh _ _ H).
    + intros node oid1 H. unfold put_obj in *. cbn [cs_heap cs_items] in *.
      destruct (Hi _ _ H) as (o1 & Ho1 & Hd1 & Hn1). rewrite alookup_aset.
      destruct (oid =? oid1) eqn:E.
      * apply Z.eqb_eq in E. subst oid1. rewrite Eo in Ho1. injection Ho1 as <-. congruence.
      * exists o1. now repeat split.
    + intros t1 oid1 cr node H. unfold put_obj in *. cbn [cs_heap].
      change (reg_of (mkCS (cs_items s) (aset oid (mkO (o_n o) true 0 (o_name o)) (cs_heap s))
                           (cs_next s) (cs_regs s)) t1) with (reg_of s t1) in H.
      destruct (Hr _ _ _ _ H) as (o1 & Ho1 & Hn1). rewrite alookup_aset.
      destruct (oid =? oid1) eqn:E.
      * apply Z.eqb_eq in E. subst oid1. rewrite Eo in Ho1. injection Ho1 as <-.
        eexists. split; [reflexivity|exact Hn1].
      * exists o1. now split.
  - apply sinv_clear_reg.
    apply (sinv_put cfg s oid o _ Hs Eo Ed); cbn [o_del o_name o_n o_lock]; try reflexivity.
    + apply Hf. destruct Hs as (Hh & _). now destruct (Hh _ _ Eo).
    + intros _. apply Hne.
    + intro H. now elim H.
Qed.

Lemma sinv_delete_from cfg s t f :
  sinv cfg s -> (forall n, ninfo_ok cfg n -> ninfo_ok cfg (f n)) ->
  sinv cfg (delete_from s t f).
Proof.
  intros Hs Hf. unfold delete_from.
  destruct (t_obj (reg_of s t)) as [[[oid created] node]|] eqn:Ereg; [|exact Hs].
  destruct (alookup oid (cs_heap s)) as [o|] eqn:Eo; [|exact Hs].
  destruct (o_lock o =? 0) eqn:El; cbn [negb]; [|exact Hs]. apply Z.eqb_eq in El.
  destruct (o_del o) eqn:Ed; [now apply sinv_clear_reg|].
  apply sinv_clear_reg.
  pose proof Hs as (Hh & Hi & Hr). destruct (Hh _ _ Eo) as (H1 & H2 & H3 & H4 & H5 & H6).
  (* the register's name is the object's name *)
  destruct (Hr _ _ _ _ Ereg) as (o0 & Ho0 & Hname). rewrite Eo in Ho0. injection Ho0 as <-.
  destruct (ni_empty (f (o_n o))) eqn:Ee.
  - (* becomes empty: marked deleted and taken out of the map (it IS the map's entry) *)
    specialize (H3 Ed). rewrite Hname in H3. rewrite H3, Z.eqb_refl.
    split; [|split].
    + intros oid1 o1. cbn [cs_heap cs_items cs_next]. rewrite alookup_aset.
      destruct (oid =? oid1) eqn:E.
      * apply Z.eqb_eq in E. subst oid1. intro H. injection H as <-.
        unfold obj_ok. cbn [o_n o_del o_lock o_name cs_items cs_next].
        split; [now apply Hf|]. split; [intros _; now split|].
        split; [discriminate|]. split; [discriminate|]. split; [intro H; now elim H|exact H6].
      * intro Ho1. destruct (Hh _ _ Ho1) as (G1 & G2 & G3 & G4 & G5 & G6).
        split; [exact G1|]. split; [exact G2|].
        split; [|split; [exact G4|split; [exact G5|exact G6]]].
        intro Hd1. specialize (G3 Hd1).
        cbn [cs_items]. rewrite alookup_aremove.
        destruct (node =? o_name o1) eqn:Ec; [|exact G3].
        exfalso. apply Z.eqb_eq in Ec. rewrite <- Ec in G3. rewrite H3 in G3.
        injection G3 as ->. now rewrite Z.eqb_refl in E.
    + intros k oid1. cbn [cs_items cs_heap]. rewrite alookup_aremove.
      destruct (node =? k) eqn:Ec; [discriminate|]. intro Hk.
      destruct (Hi _ _ Hk) as (o1 & Ho1 & Hd1 & Hn1). rewrite alookup_aset.
      destruct (oid =? oid1) eqn:E.
      * exfalso. apply Z.eqb_eq in E. subst oid1. rewrite Eo in Ho1. injection Ho1 as <-.
        rewrite Hname in Hn1. subst k. now rewrite Z.eqb_refl in Ec.
      * exists o1. now repeat split.
    + intros t1 oid1 cr nm H. cbn [cs_heap].
      change (reg_of (mkCS (aremove node (cs_items s))
                           (aset oid (mkO (f (o_n o)) true 0 (o_name o)) (cs_heap s))
                           (cs_next s) (cs_regs s)) t1) with (reg_of s t1) in H.
      destruct (Hr _ _ _ _ H) as (o1 & Ho1 & Hn1). rewrite alookup_aset.
      destruct (oid =? oid1) eqn:E.
      * apply Z.eqb_eq in E. subst oid1. rewrite Eo in Ho1. injection Ho1 as <-.
        eexists. split; [reflexivity|exact Hn1].
      * exists o1. now split.
  - apply (sinv_put cfg s oid o _ Hs Eo Ed); cbn [o_del o_name o_n o_lock]; try reflexivity.
    + now apply Hf.
    + intros _. exact Ee.
    + intro H. now elim H.
Qed.

(* ------------------------------------------------------------------ every action keeps it *)
Lemma sinv_get_or_create cfg s t node again : sinv cfg s -> sinv cfg (sstep cfg s (AGetOrCreate t node again)).
Proof.
  intros Hs. cbn [sstep]. destruct (t =? 0) eqn:Et0; cbn [orb]; [exact Hs|].
  destruct (again && t_ok (reg_of s t)); [exact Hs|].
  destruct (alookup node (cs_items s)) as [oid|] eqn:En.
  - apply sinv_set_reg; [exact Hs|]. cbn [t_obj]. intros oid1 cr nm H. injection H as <- _ <-.
    destruct Hs as (_ & Hi & _). destruct (Hi _ _ En) as (o & Ho & _ & Hn). now exists o.
  - pose proof Hs as (Hh & Hi & Hr).
    assert (Hfresh : alookup (cs_next s) (cs_heap s) = None).
    { destruct (alookup (cs_next s) (cs_heap s)) as [o|] eqn:E; [|reflexivity].
      destruct (Hh _ _ E) as (_ & _ & _ & _ & _ & H6). lia. }
    apply sinv_set_reg.
    + split; [|split]; cbn [cs_heap cs_items cs_next].
      * intros oid1 o1. rewrite alookup_aset. destruct (cs_next s =? oid1) eqn:E.
        -- apply Z.eqb_eq in E. subst oid1. intro H. injection H as <-.
           unfold obj_ok. cbn [o_n o_del o_lock o_name cs_items cs_next].
           split; [apply new_ninfo_ok|]. split; [discriminate|].
           split; [intros _; now rewrite alookup_aset, Z.eqb_refl|].
           split; [intros _ H0; apply Z.eqb_neq in Et0; contradiction|].
           split; [reflexivity|lia].
        -- intro Ho1. destruct (Hh _ _ Ho1) as (G1 & G2 & G3 & G4 & G5 & G6).
           split; [exact G1|]. split; [exact G2|].
           split; [|split; [exact G4|split; [exact G5|cbn [cs_next]; lia]]].
           intro Hd1. specialize (G3 Hd1). cbn [cs_items].
           rewrite alookup_aset. destruct (node =? o_name o1) eqn:Ec; [|exact G3].
           apply Z.eqb_eq in Ec. rewrite <- Ec in G3. congruence.
      * intros k oid1. rewrite alookup_aset. destruct (node =? k) eqn:Ec.
        -- apply Z.eqb_eq in Ec. subst k. intro H. injection H as <-.
           eexists. rewrite alookup_aset, Z.eqb_refl. split; [reflexivity|]. now split.
        -- intro Hk. destruct (Hi _ _ Hk) as (o1 & Ho1 & Hd1 & Hn1). exists o1.
           rewrite alookup_aset. destruct (cs_next s =? oid1) eqn:E; [|now repeat split].
           apply Z.eqb_eq in E. subst oid1. congruence.
      * intros t1 oid1 cr nm H.
        change (reg_of (mkCS (aset node (cs_next s) (cs_items s))
                  (aset (cs_next s) (mkO new_ninfo false t node) (cs_heap s))
                  (cs_next s + 1) (cs_regs s)) t1) with (reg_of s t1) in H.
        destruct (Hr _ _ _ _ H) as (o1 & Ho1 & Hn1). exists o1.
        rewrite alookup_aset. destruct (cs_next s =? oid1) eqn:E; [|now split].
        apply Z.eqb_eq in E. subst oid1. congruence.
    + cbn [t_obj cs_heap]. intros oid1 cr nm H. injection H as <- _ <-.
      eexists. rewrite alookup_aset, Z.eqb_refl. split; reflexivity.
Qed.

Lemma sinv_step cfg s a : sinv cfg s -> sinv cfg (sstep cfg s a).
Proof.
  intro Hs. destruct a.
  - now apply sinv_get_or_create.
  - cbn [sstep]. apply sinv_set_reg; [exact Hs|]. cbn [t_obj].
    destruct (alookup node (cs_items s)) as [oid|] eqn:En; [|discriminate].
    intros oid1 cr nm H. injection H as <- _ <-.
    destruct Hs as (_ & Hi & _). destruct (Hi _ _ En) as (o & Ho & _ & Hn). now exists o.
  - cbn [sstep]. destruct (terminated p || p_resv p) eqn:Eg; [exact Hs|].
    apply orb_false_elim in Eg. destruct Eg as [Et Er].
    apply sinv_add_or_update; [exact Hs| |].
    + intros n Hn. now apply ni_add_pod_ok.
    + intro n. apply ni_add_pod_nonempty.
  - cbn [sstep]. apply sinv_add_or_update; [exact Hs| |].
    + intros n Hn. now apply ni_set_metric_ok.
    + intro n. apply ni_set_metric_nonempty.
  - cbn [sstep]. apply sinv_delete_from; [exact Hs|]. intros n Hn. now apply ni_del_pod_ok.
  - cbn [sstep]. apply sinv_delete_from; [exact Hs|]. intros n Hn. now apply ni_del_metric_ok.
  - exact Hs.
  - cbn [sstep].
    assert (H1 : sinv cfg (delete_from s t2 (ni_del_pod uid))).
    { apply sinv_delete_from; [exact Hs|]. intros n Hn. now apply ni_del_pod_ok. }
    destruct (terminated p || p_resv p) eqn:Eg; [exact H1|].
    apply orb_false_elim in Eg. destruct Eg as [Et Er].
    apply sinv_add_or_update; [exact H1| |].
    + intros n Hn. now apply ni_add_pod_ok.
    + intro n. apply ni_add_pod_nonempty.
Qed.

Lemma sinv_exec cfg l s : sinv cfg s -> sinv cfg (fold_left (sstep cfg) l s).
Proof.
  revert s. induction l as [|a l IH]; intros s Hs; [exact Hs|]. cbn [fold_left]. apply IH.
  now apply sinv_step.
Qed.

(* after ANY sequence of lock sections *)
Lemma sinv_run cfg l : sinv cfg (srun cfg l).
Proof. apply sinv_exec, sinv_init. Qed.

(* in the words of Lib.Interleave: whatever the threads' programs are and however they are
   interleaved, the invariant holds in every intermediate state *)
Lemma sinv_interleaved cfg (ts : list (list act)) l pre post :
  interleaving ts l -> l = pre ++ post -> sinv cfg (Interleave.exec (sstep cfg) cs_init pre).
Proof.
  intros Hil Hl.
  refine (interleaving_inv_prefix (sstep cfg) (sinv cfg) ts l Hil _ cs_init (sinv_init cfg) pre post Hl).
  intros t a s _ _. apply sinv_step.
Qed.

(* ------------------------------------------------------------------ what a reader can see *)
(* the nodeInfo a reader gets for a name is never a deleted one, and once its creator has
   released it it is never empty and its cached sums are the from-scratch computation on its
   report and pods: no schedule makes the estimates drift *)
Lemma visible_ok cfg l node o :
  visible (srun cfg l) node = Some o ->
  o_del o = false /\ o_name o = node /\ ninfo_ok cfg (o_n o)
  /\ (o_lock o = 0 -> ni_empty (o_n o) = false).
Proof.
  unfold visible. pose proof (sinv_run cfg l) as (Hh & Hi & _).
  destruct (alookup node (cs_items (srun cfg l))) as [oid|] eqn:En; [|discriminate].
  intro Ho. destruct (Hi _ _ En) as (o1 & Ho1 & Hd & Hn). rewrite Ho in Ho1. injection Ho1 as <-.
  destruct (Hh _ _ Ho) as (H1 & _ & _ & H4 & _).
  split; [exact Hd|]. split; [exact Hn|]. split; [exact H1|now apply H4].
Qed.

Lemma sched_no_drift cfg l node o m :
  visible (srun cfg l) node = Some o -> n_metric (o_n o) = Some m ->
  n_sums (o_n o) = rebuild cfg m (n_ut (o_n o)) (n_pods (o_n o)).
Proof.
  intros Hv Hm. destruct (visible_ok cfg l node o Hv) as (_ & _ & (_ & _ & Hs) & _).
  now destruct (Hs m Hm).
Qed.

(* a nodeInfo that was marked deleted holds nothing: a goroutine that still has it in hand
   reads "no report, no pods" *)
Lemma deleted_holds_nothing cfg l oid o :
  alookup oid (cs_heap (srun cfg l)) = Some o -> o_del o = true -> ni_empty (o_n o) = true.
Proof.
  intros Ho Hd. pose proof (sinv_run cfg l) as (Hh & _). destruct (Hh _ _ Ho) as (_ & H2 & _).
  now destruct (H2 Hd).
Qed.

(* Filter under any schedule decides on the from-scratch estimate of what it can see *)
Lemma sched_filter_from_scratch cfg l nd p o m :
  visible (srun cfg l) (nd_name nd) = Some o -> n_metric (o_n o) = Some m ->
  sfilter cfg (srun cfg l) nd p =
    filter_decide cfg nd p
      (Some (m, fun b t d => Some (est_of m (rebuild cfg m (n_ut (o_n o)) (n_pods (o_n o))) b t d))).
Proof.
  intros Hv Hm. unfold sfilter. rewrite Hv, Hm.
  rewrite <- (sched_no_drift cfg l _ o m Hv Hm).
  unfold get_est. rewrite Hm. reflexivity.
Qed.

(* ------------------------------------------------------------------ uninterrupted programs = the sequential model *)
Definition quiescent (s : cstate) : Prop :=
  forall oid o, alookup oid (cs_heap s) = Some o -> o_lock o = 0.
Definition items_nodup (s : cstate) : Prop := NoDup (map fst (cs_items s)).
(* two caches that answer every lookup alike *)
Definition ceq (c c' : cache) : Prop := forall k, alookup k c = alookup k c'.

Lemma items_nodup_aou s t f : items_nodup s -> items_nodup (add_or_update s t f).
Proof.
  unfold items_nodup. intro H. unfold add_or_update.
  destruct (t_obj (reg_of s t)) as [[[oid cr] nm]|]; [|exact H].
  destruct (alookup oid (cs_heap s)) as [o|]; [|exact H].
  destruct (negb (can_write t cr o)); [exact H|]. destruct (o_del o); exact H.
Qed.

Lemma items_nodup_del s t f : items_nodup s -> items_nodup (delete_from s t f).
Proof.
  unfold items_nodup. intro H. unfold delete_from.
  destruct (t_obj (reg_of s t)) as [[[oid cr] nm]|]; [|exact H].
  destruct (alookup oid (cs_heap s)) as [o|]; [|exact H].
  destruct (negb (o_lock o =? 0)); [exact H|]. destruct (o_del o); [exact H|].
  destruct (ni_empty (f (o_n o))); [|exact H]. cbn [set_reg cs_items].
  destruct (alookup nm (cs_items s)) as [oid'|]; [|exact H].
  destruct (oid' =? oid); [now apply aremove_nodup|exact H].
Qed.

Lemma items_nodup_step cfg s a : items_nodup s -> items_nodup (sstep cfg s a).
Proof.
  intro H. destruct a; cbn [sstep]; try exact H.
  - unfold items_nodup in *. destruct ((t =? 0) || (again && t_ok (reg_of s t))); [exact H|].
    destruct (alookup node (cs_items s)); [exact H|]. cbn [set_reg cs_items]. now apply aset_nodup.
  - destruct (terminated p || p_resv p); [exact H|]. now apply items_nodup_aou.
  - now apply items_nodup_aou.
  - now apply items_nodup_del.
  - now apply items_nodup_del.
  - destruct (terminated p || p_resv p); [now apply items_nodup_del|].
    apply items_nodup_aou. now apply items_nodup_del.
Qed.

Lemma abs_lookup_gen (heap : list (Z * nobj)) (it : list (Z * Z)) k :
  NoDup (map fst it) ->
  (forall k oid, In (k, oid) it -> alookup oid heap <> None) ->
  alookup k (flat_map (fun kv => match alookup (snd kv) heap with
                                 | Some o => [(fst kv, o_n o)] | None => [] end) it)
  = match alookup k it with
    | Some oid => option_map o_n (alookup oid heap)
    | None => None end.
Proof.
  induction it as [|[k0 oid0] it IH]; intros Hnd Hall; [reflexivity|].
  cbn [flat_map fst snd alookup]. inversion Hnd as [|? ? _ Hnd']; subst.
  destruct (alookup oid0 heap) as [o|] eqn:E0.
  - cbn [app alookup]. destruct (k0 =? k); [now rewrite E0|].
    apply IH; [exact Hnd'|]. intros k1 oid1 Hin. apply (Hall k1 oid1). now right.
  - exfalso. apply (Hall k0 oid0); [now left|exact E0].
Qed.

Lemma in_alookup_nodup (it : list (Z * Z)) k v : NoDup (map fst it) -> In (k, v) it -> alookup k it = Some v.
Proof.
  induction it as [|[k0 v0] it IH]; intros Hnd Hin; [destruct Hin|].
  inversion Hnd as [|? ? Hnotin Hnd']; subst. cbn [alookup]. destruct Hin as [Heq|Hin].
  - injection Heq as -> ->. now rewrite Z.eqb_refl.
  - destruct (k0 =? k) eqn:E; [|now apply IH]. apply Z.eqb_eq in E. subst k0.
    exfalso. apply Hnotin. apply in_map_iff. now exists (k, v).
Qed.

(* what the sequential model would hold for a name = what a reader of the concurrent cache sees *)
Lemma abs_lookup cfg s k :
  sinv cfg s -> items_nodup s -> alookup k (abs_cache s) = option_map o_n (visible s k).
Proof.
  intros (Hh & Hi & _) Hnd. unfold abs_cache, visible.
  rewrite abs_lookup_gen; [destruct (alookup k (cs_items s)); reflexivity|exact Hnd|].
  intros k1 oid1 Hin. apply (in_alookup_nodup _ _ _ Hnd) in Hin.
  destruct (Hi _ _ Hin) as (o & Ho & _). congruence.
Qed.

Lemma visible_set_reg s t r k : visible (set_reg s t r) k = visible s k.
Proof. reflexivity. Qed.

(* two names never share a nodeInfo *)
Lemma items_inj cfg s k k' oid :
  sinv cfg s -> alookup k (cs_items s) = Some oid -> alookup k' (cs_items s) = Some oid -> k = k'.
Proof.
  intros (_ & Hi & _) H1 H2. destruct (Hi _ _ H1) as (o & Ho & _ & Hn).
  destruct (Hi _ _ H2) as (o' & Ho' & _ & Hn'). congruence.
Qed.

(* --- the add-or-update program, run without interruption from a quiescent state --- *)
Definition aou_prog_run (cfg : config) (s : cstate) (t node : Z) (f : ninfo -> ninfo) : cstate :=
  let s1 := sstep cfg s (AGetOrCreate t node false) in
  let s2 := add_or_update s1 t f in
  let s3 := sstep cfg s2 (AGetOrCreate t node true) in
  add_or_update s3 t f.

Lemma aou_prog_spec cfg s t node f :
  sinv cfg s -> quiescent s -> t <> 0 ->
  let s' := aou_prog_run cfg s t node f in
  (forall k, visible s' k =
     if k =? node
     then Some (mkO (f (match visible s node with Some o => o_n o | None => new_ninfo end)) false 0 node)
     else visible s k)
  /\ quiescent s' /\ t_ok (reg_of s' t) = true.
Proof.
  intros Hs Hq Ht. pose proof Hs as (Hh & Hi & Hr). apply Z.eqb_neq in Ht.
  unfold aou_prog_run. cbn [sstep]. rewrite Ht. cbn [orb andb].
  destruct (alookup node (cs_items s)) as [oid|] eqn:En.
  - (* the name has a nodeInfo *)
    destruct (Hi _ _ En) as (o & Ho & Hd & Hn).
    set (s1 := set_reg s t (mkT (Some (oid, false, node)) false)).
    assert (E2 : add_or_update s1 t f
                 = set_reg (put_obj s1 oid (mkO (f (o_n o)) false 0 (o_name o))) t (mkT None true)).
    { unfold add_or_update. unfold s1 at 1. rewrite reg_of_set, Z.eqb_refl. cbn [t_obj].
      change (cs_heap s1) with (cs_heap s). rewrite Ho. unfold can_write. rewrite (Hq _ _ Ho).
      cbn [Z.eqb negb]. now rewrite Hd. }
    rewrite E2. set (s2 := set_reg _ t (mkT None true)).
    assert (Hok2 : t_ok (reg_of s2 t) = true) by (unfold s2; now rewrite reg_of_set, Z.eqb_refl).
    rewrite Hok2. cbn [andb].
    assert (E4 : add_or_update s2 t f = s2).
    { unfold add_or_update. unfold s2 at 1. now rewrite reg_of_set, Z.eqb_refl. }
    rewrite E4. split; [|split; [|exact Hok2]].
    + intro k. unfold s2, s1, visible. cbn [set_reg put_obj cs_items cs_heap].
      unfold visible. rewrite En, Ho. cbn [o_n].
      destruct (k =? node) eqn:Ek.
      * apply Z.eqb_eq in Ek. subst k. rewrite En, alookup_aset, Z.eqb_refl. now rewrite Hn.
      * destruct (alookup k (cs_items s)) as [oid'|] eqn:Ek'; [|reflexivity].
        rewrite alookup_aset. destruct (oid =? oid') eqn:Eo; [|reflexivity].
        apply Z.eqb_eq in Eo. subst oid'.
        rewrite (items_inj cfg s k node oid Hs Ek' En), Z.eqb_refl in Ek. discriminate.
    + intros oid1 o1. unfold s2, s1. cbn [set_reg put_obj cs_heap]. rewrite alookup_aset.
      destruct (oid =? oid1); [intro H; now injection H as <-|apply Hq].
  - (* no nodeInfo yet: one is created locked, filled, released *)
    set (oid := cs_next s).
    assert (Hfresh : alookup oid (cs_heap s) = None).
    { destruct (alookup oid (cs_heap s)) as [o|] eqn:E; [|reflexivity].
      destruct (Hh _ _ E) as (_ & _ & _ & _ & _ & H6). unfold oid in H6. lia. }
    set (s1 := set_reg (mkCS (aset node oid (cs_items s))
                             (aset oid (mkO new_ninfo false t node) (cs_heap s))
                             (oid + 1) (cs_regs s)) t (mkT (Some (oid, true, node)) false)).
    assert (E2 : add_or_update s1 t f
                 = set_reg (put_obj s1 oid (mkO (f new_ninfo) false 0 node)) t (mkT None true)).
    { unfold add_or_update. unfold s1 at 1. rewrite reg_of_set, Z.eqb_refl. cbn [t_obj].
      unfold s1 at 1. cbn [set_reg cs_heap]. rewrite alookup_aset, Z.eqb_refl.
      unfold can_write. cbn [o_lock o_del o_n o_name]. now rewrite Z.eqb_refl. }
    rewrite E2. set (s2 := set_reg _ t (mkT None true)).
    assert (Hok2 : t_ok (reg_of s2 t) = true) by (unfold s2; now rewrite reg_of_set, Z.eqb_refl).
    rewrite Hok2. cbn [andb].
    assert (E4 : add_or_update s2 t f = s2).
    { unfold add_or_update. unfold s2 at 1. now rewrite reg_of_set, Z.eqb_refl. }
    rewrite E4. split; [|split; [|exact Hok2]].
    + intro k. unfold s2, s1, visible. cbn [set_reg put_obj cs_items cs_heap].
      rewrite En. rewrite alookup_aset.
      destruct (k =? node) eqn:Ek.
      * apply Z.eqb_eq in Ek. subst k. rewrite Z.eqb_refl. now rewrite alookup_aset, Z.eqb_refl.
      * rewrite (Z.eqb_sym node k), Ek.
        destruct (alookup k (cs_items s)) as [oid'|] eqn:Ek'; [|reflexivity].
        rewrite !alookup_aset. destruct (oid =? oid') eqn:Eo; [|reflexivity].
        apply Z.eqb_eq in Eo. subst oid'. destruct (Hi _ _ Ek') as (o' & Ho' & _). congruence.
    + intros oid1 o1. unfold s2, s1. cbn [set_reg put_obj cs_heap]. rewrite !alookup_aset.
      destruct (oid =? oid1); [intro H; now injection H as <-|apply Hq].
Qed.

(* --- the removal program --- *)
Definition del_prog_run (cfg : config) (s : cstate) (t node : Z) (f : ninfo -> ninfo) : cstate :=
  delete_from (sstep cfg s (ALoad t node)) t f.

Lemma del_prog_spec cfg s t node f :
  sinv cfg s -> quiescent s ->
  let s' := del_prog_run cfg s t node f in
  (forall k, visible s' k =
     if k =? node
     then match visible s node with
          | Some o => if ni_empty (f (o_n o)) then None else Some (mkO (f (o_n o)) false 0 node)
          | None => None end
     else visible s k)
  /\ quiescent s'.
Proof.
  intros Hs Hq. pose proof Hs as (Hh & Hi & Hr).
  unfold del_prog_run. cbn [sstep].
  destruct (alookup node (cs_items s)) as [oid|] eqn:En.
  - destruct (Hi _ _ En) as (o & Ho & Hd & Hn).
    set (s1 := set_reg s t (mkT (Some (oid, false, node)) (t_ok (reg_of s t)))).
    set (r' := mkT None (t_ok (reg_of s1 t))).
    assert (Edel : delete_from s1 t f =
              set_reg (if ni_empty (f (o_n o))
                       then mkCS (aremove node (cs_items s))
                                 (aset oid (mkO (f (o_n o)) true 0 (o_name o)) (cs_heap s))
                                 (cs_next s) (cs_regs s1)
                       else put_obj s1 oid (mkO (f (o_n o)) false 0 (o_name o))) t r').
    { unfold delete_from. unfold s1 at 1. rewrite reg_of_set, Z.eqb_refl. cbn [t_obj].
      change (cs_heap s1) with (cs_heap s). rewrite Ho, (Hq _ _ Ho), Hd. cbn [Z.eqb negb].
      change (cs_items s1) with (cs_items s). rewrite En, Z.eqb_refl. reflexivity. }
    rewrite Edel. clear Edel.
    destruct (ni_empty (f (o_n o))) eqn:Ee.
    + split.
      * intro k. rewrite visible_set_reg. unfold visible. cbn [cs_items cs_heap].
        rewrite alookup_aremove, En, Ho, Ee. rewrite (Z.eqb_sym node k).
        destruct (k =? node) eqn:Ek; [reflexivity|].
        destruct (alookup k (cs_items s)) as [oid'|] eqn:Ek'; [|reflexivity].
        rewrite alookup_aset. destruct (oid =? oid') eqn:Eo; [|reflexivity].
        apply Z.eqb_eq in Eo. subst oid'.
        rewrite (items_inj cfg s k node oid Hs Ek' En), Z.eqb_refl in Ek. discriminate.
      * intros oid1 o1. cbn [set_reg cs_heap]. rewrite alookup_aset.
        destruct (oid =? oid1); [intro H; now injection H as <-|apply Hq].
    + split.
      * intro k. rewrite visible_set_reg. unfold visible, put_obj. cbn [cs_items cs_heap].
        change (cs_items s1) with (cs_items s). change (cs_heap s1) with (cs_heap s).
        rewrite En, Ho, Ee.
        destruct (k =? node) eqn:Ek.
        -- apply Z.eqb_eq in Ek. subst k. rewrite En, alookup_aset, Z.eqb_refl. now rewrite Hn.
        -- destruct (alookup k (cs_items s)) as [oid'|] eqn:Ek'; [|reflexivity].
           rewrite alookup_aset. destruct (oid =? oid') eqn:Eo; [|reflexivity].
           apply Z.eqb_eq in Eo. subst oid'.
           rewrite (items_inj cfg s k node oid Hs Ek' En), Z.eqb_refl in Ek. discriminate.
      * intros oid1 o1. cbn [set_reg put_obj cs_heap]. change (cs_heap s1) with (cs_heap s).
        rewrite alookup_aset.
        destruct (oid =? oid1); [intro H; now injection H as <-|apply Hq].
  - set (s1 := set_reg s t (mkT None (t_ok (reg_of s t)))).
    assert (Edel : delete_from s1 t f = s1).
    { unfold delete_from. unfold s1 at 1. now rewrite reg_of_set, Z.eqb_refl. }
    rewrite Edel.
    split; [|exact Hq]. intro k. unfold s1. rewrite visible_set_reg. unfold visible at 2. rewrite En.
    destruct (k =? node) eqn:Ek; [|reflexivity]. apply Z.eqb_eq in Ek. subst k.
    unfold visible. now rewrite En.
Qed.

(* --- lookups into the sequential model's results --- *)
Lemma lookup_put_or_cleanup c node n k :
  alookup k (put_or_cleanup c node n) =
    if node =? k then (if ni_empty n then None else Some n) else alookup k c.
Proof.
  unfold put_or_cleanup, ni_empty. destruct (n_metric n); [now rewrite alookup_aset|].
  destruct (n_pods n); [now rewrite alookup_aremove|now rewrite alookup_aset].
Qed.

Lemma lookup_assign cfg now node p c k :
  alookup k (assign cfg now node p c) =
    if (node =? 0) || terminated p || p_resv p then alookup k c
    else if node =? k then Some (ni_add_pod (mk_pinfo cfg now p) (get_node c node))
    else alookup k c.
Proof.
  rewrite assign_ni. destruct ((node =? 0) || terminated p || p_resv p); [reflexivity|].
  now rewrite alookup_aset.
Qed.

Lemma lookup_unassign node uid c k :
  alookup k (unassign node uid c) =
    if node =? 0 then alookup k c
    else if node =? k
    then match alookup node c with
         | Some n => if ni_empty (ni_del_pod uid n) then None else Some (ni_del_pod uid n)
         | None => None end
    else alookup k c.
Proof.
  rewrite unassign_ni. destruct (node =? 0); [reflexivity|].
  destruct (alookup node c) as [n|] eqn:En.
  - now rewrite lookup_put_or_cleanup.
  - destruct (node =? k) eqn:E; [|reflexivity]. apply Z.eqb_eq in E. now subst k.
Qed.

Lemma lookup_set_metric cfg node m c k :
  alookup k (set_metric cfg node m c) =
    if node =? k then Some (ni_set_metric cfg m (get_node c node)) else alookup k c.
Proof. rewrite set_metric_ni. now rewrite alookup_aset. Qed.

Lemma lookup_del_metric node c k :
  alookup k (del_metric node c) =
    if node =? k
    then match alookup node c with
         | Some n => if ni_empty (ni_del_metric n) then None else Some (ni_del_metric n)
         | None => None end
    else alookup k c.
Proof.
  rewrite del_metric_ni. destruct (alookup node c) as [n|] eqn:En.
  - now rewrite lookup_put_or_cleanup.
  - destruct (node =? k) eqn:E; [|reflexivity]. apply Z.eqb_eq in E. now subst k.
Qed.

Lemma get_node_ceq c c' k : ceq c c' -> get_node c k = get_node c' k.
Proof. intro H. unfold get_node. now rewrite (H k). Qed.

(* operations whose code is one or two lock sections (OnUpdate reads the pod table in a lock
   section of its own and then branches) *)
Definition supported (o : op) : bool := match o with OUpdate _ _ _ => false | _ => true end.

Lemma step_ceq cfg c c' o : supported o = true -> ceq c c' -> ceq (step cfg c o) (step cfg c' o).
Proof.
  intros Hsup H k. destruct o; cbn [step]; try discriminate; try apply H.
  - rewrite !lookup_assign, (get_node_ceq _ _ _ H), (H k). reflexivity.
  - rewrite !lookup_unassign, (H k), (H node). reflexivity.
  - rewrite !lookup_assign, (get_node_ceq _ _ _ H), (H k). reflexivity.
  - rewrite !lookup_unassign, (H k), (H (p_node p)). reflexivity.
  - rewrite !lookup_set_metric, (get_node_ceq _ _ _ H), (H k). reflexivity.
  - rewrite !lookup_del_metric, (H k), (H node). reflexivity.
Qed.

Definition good (cfg : config) (s : cstate) : Prop := sinv cfg s /\ items_nodup s /\ quiescent s.

Lemma good_init cfg : good cfg cs_init.
Proof. split; [apply sinv_init|]. split; [constructor|]. intros ? ? H. discriminate. Qed.

Lemma exec_good_parts cfg l s : sinv cfg s -> items_nodup s ->
  sinv cfg (fold_left (sstep cfg) l s) /\ items_nodup (fold_left (sstep cfg) l s).
Proof.
  revert s. induction l as [|a l IH]; intros s H1 H2; [now split|].
  cbn [fold_left]. apply IH; [now apply sinv_step|now apply items_nodup_step].
Qed.

(* ONE operation run without interruption by a thread, from a state where no lock is held:
   readers then see exactly what the sequential model computes, and again no lock is held *)
Lemma prog_refines_step cfg s t o :
  good cfg s -> t <> 0 -> supported o = true ->
  let s' := fold_left (sstep cfg) (prog_of t o) s in
  ceq (abs_cache s') (step cfg (abs_cache s) o) /\ good cfg s'.
Proof.
  intros (Hs & Hnd & Hq) Ht Hsup. cbn zeta.
  destruct (exec_good_parts cfg (prog_of t o) s Hs Hnd) as [Hs' Hnd'].
  set (s' := fold_left (sstep cfg) (prog_of t o) s) in *.
  assert (Hlk : forall k, alookup k (abs_cache s') = option_map o_n (visible s' k))
    by (intro k; now apply (abs_lookup cfg)).
  assert (Hlk0 : forall k, alookup k (abs_cache s) = option_map o_n (visible s k))
    by (intro k; now apply (abs_lookup cfg)).
  assert (Hgn : forall k, get_node (abs_cache s) k
                          = match visible s k with Some o => o_n o | None => new_ninfo end).
  { intro k. unfold get_node. rewrite Hlk0. now destruct (visible s k). }
  assert (Haou : forall node f, s' = aou_prog_run cfg s t node f ->
            (forall k, alookup k (abs_cache s') =
                       if node =? k then Some (f (get_node (abs_cache s) node))
                       else alookup k (abs_cache s)) /\ quiescent s').
  { intros node f E. destruct (aou_prog_spec cfg s t node f Hs Hq Ht) as (Hv & Hq' & _).
    rewrite <- E in Hv, Hq'. split; [|exact Hq']. intro k. rewrite Hlk, Hv, (Z.eqb_sym node k).
    destruct (k =? node); [cbn; now rewrite Hgn|now rewrite Hlk0]. }
  assert (Hdel : forall node f, s' = del_prog_run cfg s t node f ->
            (forall k, alookup k (abs_cache s') =
                       if node =? k
                       then match alookup node (abs_cache s) with
                            | Some n => if ni_empty (f n) then None else Some (f n)
                            | None => None end
                       else alookup k (abs_cache s)) /\ quiescent s').
  { intros node f E. destruct (del_prog_spec cfg s t node f Hs Hq) as (Hv & Hq').
    rewrite <- E in Hv, Hq'. split; [|exact Hq']. intro k. rewrite Hlk, Hv, (Z.eqb_sym node k).
    destruct (k =? node); [|now rewrite Hlk0]. rewrite Hlk0.
    destruct (visible s node) as [o0|]; [|reflexivity]. cbn [option_map].
    now destruct (ni_empty (f (o_n o0))). }
  assert (Hid : s' = s -> (forall k, alookup k (abs_cache s') = alookup k (abs_cache s)) /\ quiescent s').
  { intro E. rewrite E. now split. }
  destruct o; try discriminate; cbn [prog_of step] in *.
  - (* Reserve *)
    unfold prog_assign in s'. destruct ((node =? 0) || terminated p || p_resv p) eqn:Eg.
    + destruct (Hid eq_refl) as [Hk Hq']. split; [|exact (conj Hs' (conj Hnd' Hq'))].
      intro k. rewrite lookup_assign, Eg. apply Hk.
    + assert (Eg' : terminated p || p_resv p = false).
      { apply orb_false_elim in Eg. destruct Eg as [Eg Er]. apply orb_false_elim in Eg.
        destruct Eg as [_ Et]. now rewrite Et, Er. }
      assert (E : s' = aou_prog_run cfg s t node (ni_add_pod (mk_pinfo cfg now p))).
      { unfold s', aou_prog_run. cbn [fold_left]. cbn [sstep]. now rewrite Eg'. }
      destruct (Haou _ _ E) as [Hk Hq']. split; [|exact (conj Hs' (conj Hnd' Hq'))].
      intro k. rewrite lookup_assign, Eg. apply Hk.
  - (* Unreserve *)
    unfold prog_unassign in s'. destruct (node =? 0) eqn:E0.
    + destruct (Hid eq_refl) as [Hk Hq']. split; [|exact (conj Hs' (conj Hnd' Hq'))].
      intro k. rewrite lookup_unassign, E0. apply Hk.
    + destruct (Hdel node (ni_del_pod (p_uid p)) eq_refl) as [Hk Hq']. split; [|exact (conj Hs' (conj Hnd' Hq'))].
      intro k. rewrite lookup_unassign, E0. apply Hk.
  - (* informer add *)
    unfold prog_assign in s'. destruct ((p_node p =? 0) || terminated p || p_resv p) eqn:Eg.
    + destruct (Hid eq_refl) as [Hk Hq']. split; [|exact (conj Hs' (conj Hnd' Hq'))].
      intro k. rewrite lookup_assign, Eg. apply Hk.
    + assert (Eg' : terminated p || p_resv p = false).
      { apply orb_false_elim in Eg. destruct Eg as [Eg Er]. apply orb_false_elim in Eg.
        destruct Eg as [_ Et]. now rewrite Et, Er. }
      assert (E : s' = aou_prog_run cfg s t (p_node p) (ni_add_pod (mk_pinfo cfg now p))).
      { unfold s', aou_prog_run. cbn [fold_left]. cbn [sstep]. now rewrite Eg'. }
      destruct (Haou _ _ E) as [Hk Hq']. split; [|exact (conj Hs' (conj Hnd' Hq'))].
      intro k. rewrite lookup_assign, Eg. apply Hk.
  - (* informer delete *)
    unfold prog_unassign in s'. destruct (p_node p =? 0) eqn:E0.
    + destruct (Hid eq_refl) as [Hk Hq']. split; [|exact (conj Hs' (conj Hnd' Hq'))].
      intro k. rewrite lookup_unassign, E0. apply Hk.
    + destruct (Hdel (p_node p) (ni_del_pod (p_uid p)) eq_refl) as [Hk Hq']. split; [|exact (conj Hs' (conj Hnd' Hq'))].
      intro k. rewrite lookup_unassign, E0. apply Hk.
  - (* metric report *)
    destruct (Haou node (ni_set_metric cfg m) eq_refl) as [Hk Hq']. split; [|exact (conj Hs' (conj Hnd' Hq'))].
    intro k. rewrite lookup_set_metric. apply Hk.
  - (* metric deleted *)
    destruct (Hdel node ni_del_metric eq_refl) as [Hk Hq']. split; [|exact (conj Hs' (conj Hnd' Hq'))].
    intro k. rewrite lookup_del_metric. apply Hk.
  - destruct (Hid eq_refl) as [Hk Hq']. split; [exact Hk|exact (conj Hs' (conj Hnd' Hq'))].
  - destruct (Hid eq_refl) as [Hk Hq']. split; [exact Hk|exact (conj Hs' (conj Hnd' Hq'))].
  - destruct (Hid eq_refl) as [Hk Hq']. split; [exact Hk|exact (conj Hs' (conj Hnd' Hq'))].
Qed.

(* SERIAL schedules: the threads' programs run one after the other (any assignment of events to
   threads).  Readers then see exactly the sequential model's cache: Model.v is the concurrent
   model restricted to uninterrupted lock-section pairs. *)
Fixpoint serial (tops : list (Z * op)) : list act :=
  match tops with
  | [] => []
  | (t, o) :: r => prog_of t o ++ serial r
  end.

Lemma serial_refines_from cfg tops s c :
  good cfg s -> ceq (abs_cache s) c ->
  Forall (fun to => fst to <> 0 /\ supported (snd to) = true) tops ->
  ceq (abs_cache (fold_left (sstep cfg) (serial tops) s)) (fold_left (step cfg) (map snd tops) c)
  /\ good cfg (fold_left (sstep cfg) (serial tops) s).
Proof.
  revert s c. induction tops as [|[t o] r IH]; intros s c Hg Hc Hall; [now split|].
  inversion Hall as [|? ? [Ht Hsup] Hall']; subst. cbn [fst snd] in *.
  cbn [serial map fold_left]. rewrite fold_left_app.
  destruct (prog_refines_step cfg s t o Hg Ht Hsup) as [H1 H2].
  apply IH; [exact H2| |exact Hall'].
  intro k. rewrite (H1 k). now apply step_ceq.
Qed.

Lemma serial_refines cfg tops :
  Forall (fun to => fst to <> 0 /\ supported (snd to) = true) tops ->
  ceq (abs_cache (srun cfg (serial tops))) (run cfg (map snd tops)).
Proof.
  intro H. apply (serial_refines_from cfg tops cs_init []); [apply good_init|intro k; reflexivity|exact H].
Qed.

(* ------------------------------------------------------------------ the bounded retry can lose an event *)
(* sequentially a report stays until a NodeMetric delete for that node *)
Definition has_metric (c : cache) (node : Z) : Prop :=
  exists n m, alookup node c = Some n /\ n_metric n = Some m.

Lemma assign_keeps_metric cfg now nd p c node : has_metric c node -> has_metric (assign cfg now nd p c) node.
Proof.
  intros (n & m & Hn & Hm). unfold has_metric. rewrite lookup_assign.
  destruct ((nd =? 0) || terminated p || p_resv p); [now exists n, m|].
  destruct (nd =? node) eqn:E; [|now exists n, m]. apply Z.eqb_eq in E. subst nd.
  eexists. exists m. split; [reflexivity|]. unfold get_node. rewrite Hn. exact Hm.
Qed.

Lemma unassign_keeps_metric nd uid c node : has_metric c node -> has_metric (unassign nd uid c) node.
Proof.
  intros (n & m & Hn & Hm). unfold has_metric. rewrite lookup_unassign.
  destruct (nd =? 0); [now exists n, m|].
  destruct (nd =? node) eqn:E; [|now exists n, m]. apply Z.eqb_eq in E. subst nd. rewrite Hn.
  assert (He : ni_empty (ni_del_pod uid n) = false) by (unfold ni_empty, ni_del_pod; cbn; now rewrite Hm).
  rewrite He. eexists. exists m. split; [reflexivity|exact Hm].
Qed.

Lemma step_keeps_metric cfg c o node :
  has_metric c node -> (forall now, o <> OMetricDel now node) -> has_metric (step cfg c o) node.
Proof.
  intros H Hne. destruct o; cbn [step]; try exact H.
  - now apply assign_keeps_metric.
  - now apply unassign_keeps_metric.
  - now apply assign_keeps_metric.
  - unfold on_update.
    set (c1 := if negb (old_node =? 0) && negb (old_node =? p_node p)
               then unassign old_node (p_uid p) c else c).
    assert (H1 : has_metric c1 node).
    { unfold c1. destruct (negb (old_node =? 0) && negb (old_node =? p_node p));
        [now apply unassign_keeps_metric|exact H]. }
    destruct (pod_info c1 (p_node p) (p_uid p)) as [oi|]; [|now apply assign_keeps_metric].
    destruct (terminated p); [now apply unassign_keeps_metric|].
    destruct (negb (spec_eqb p (pi_pod oi)) || negb (cond_eqb p (pi_pod oi)));
      [now apply assign_keeps_metric|exact H1].
  - now apply unassign_keeps_metric.
  - unfold has_metric. rewrite lookup_set_metric. destruct (node0 =? node) eqn:E.
    + eexists. eexists. split; reflexivity.
    + exact H.
  - destruct H as (n & m & Hn & Hm). unfold has_metric. rewrite lookup_del_metric.
    destruct (node0 =? node) eqn:E; [|now exists n, m].
    apply Z.eqb_eq in E. subst node0. now elim (Hne now).
Qed.

Lemma run_keeps_metric cfg ops c node :
  has_metric c node -> (forall now, ~ In (OMetricDel now node) ops) ->
  has_metric (fold_left (step cfg) ops c) node.
Proof.
  revert c. induction ops as [|o ops IH]; intros c H Hne; [exact H|]. cbn [fold_left].
  apply IH.
  - apply step_keeps_metric; [exact H|]. intros now E. apply (Hne now). now left.
  - intros now Hin. apply (Hne now). now right.
Qed.

(* a report delivered in a sequential history and not followed by a delete is held at the end *)
Lemma report_is_kept cfg pre now node m post :
  (forall now', ~ In (OMetricDel now' node) post) ->
  has_metric (run cfg (pre ++ OMetric now node m :: post)) node.
Proof.
  intro Hne. unfold run. rewrite fold_left_app. cbn [fold_left].
  apply run_keeps_metric; [|exact Hne].
  unfold has_metric. cbn [step]. rewrite lookup_set_metric, Z.eqb_refl.
  eexists. eexists. split; reflexivity.
Qed.

(* WITNESS.  The pod informer (thread 1) delivers add x, delete x, add y, delete y for node 1;
   the NodeMetric informer (thread 2) delivers one report for node 1.  Thread 2 loads node 1's
   nodeInfo, thread 1 empties it (deleted), thread 2's update fails; thread 1 creates a new one
   for y, thread 2 loads that, thread 1 empties it again, thread 2's RETRY fails too — and there
   is no third try: the report is dropped and node 1 is out of the cache, although in every
   sequential order of the five events the report is held at the end. *)
Definition d_cfg : config :=
  mkCfg [Some 65; Some 95] [None; None] None None None None false false None None
        [Some 100; Some 100] no_score.
Definition d_pod (uid : Z) : pod :=
  mkPod uid uid 1 (Some 9000) 0 0 0 0 false 0 1 [mkCtr [100; 0] [0; 0]] [] None [None; None]
        (-1) (-1) 0 zero_time 0 zero_time.
Definition d_metric : metric := mkM (Some 0) None (Some (mkMI [50; 0] [0; 0] [])) [].
Definition d_ops1 : list op := [OAdd 0 (d_pod 1); ODelete 0 (d_pod 1); OAdd 0 (d_pod 2); ODelete 0 (d_pod 2)].
Definition d_ops2 : list op := [OMetric 0 1 d_metric].
Definition d_schedule : list act :=
  prog_of 1 (OAdd 0 (d_pod 1))
  ++ [AGetOrCreate 2 1 false]
  ++ prog_of 1 (ODelete 0 (d_pod 1))
  ++ [AAddMetric 2 d_metric]
  ++ prog_of 1 (OAdd 0 (d_pod 2))
  ++ [AGetOrCreate 2 1 true]
  ++ prog_of 1 (ODelete 0 (d_pod 2))
  ++ [AAddMetric 2 d_metric].

Lemma d_schedule_is_interleaving :
  interleaving [serial (map (pair 1) d_ops1); serial (map (pair 2) d_ops2)] d_schedule.
Proof.
  cbv [d_schedule d_ops1 d_ops2 serial map prog_of prog_assign prog_unassign prog_metric d_pod
       p_node p_uid p_resv terminated p_phase Z.eqb orb app].
  repeat (first [ refine (il_step [] _ _ [_] _ _) | refine (il_step [_] _ _ [] _ _) ]).
  apply il_done. repeat constructor.
Qed.

Lemma d_report_dropped :
  visible (srun d_cfg d_schedule) 1 = None
  /\ t_ok (reg_of (srun d_cfg d_schedule) 2) = false
  /\ abs_cache (srun d_cfg d_schedule) = [].
Proof. vm_compute. repeat split; reflexivity. Qed.

Lemma d_every_serial_order_keeps_it ops :
  interleaving [d_ops1; d_ops2] ops -> has_metric (run d_cfg ops) 1.
Proof.
  intro Hil.
  assert (Hin : In (OMetric 0 1 d_metric) ops).
  { apply (Permutation.Permutation_in _ (interleaving_perm _ _ Hil)).
    cbn. right. right. right. right. now left. }
  destruct (in_split _ _ Hin) as (pre & post & ->).
  apply report_is_kept. intros now' Hd.
  assert (Hd' : In (OMetricDel now' 1) (pre ++ OMetric 0 1 d_metric :: post))
    by (apply in_or_app; right; now right).
  destruct (interleaving_in _ _ Hil _ Hd') as (t & Ht & Hat).
  destruct Ht as [<-|[<-|[]]]; cbn in Hat; repeat (destruct Hat as [Hat|Hat]; [discriminate|]); exact Hat.
Qed.

Lemma no_lost_event_refuted :
  exists cfg ops1 ops2 l,
    interleaving [serial (map (pair 1) ops1); serial (map (pair 2) ops2)] l
    /\ (forall ops, interleaving [ops1; ops2] ops -> has_metric (run cfg ops) 1)
    /\ abs_cache (srun cfg l) = [] /\ t_ok (reg_of (srun cfg l) 2) = false.
Proof.
  exists d_cfg, d_ops1, d_ops2, d_schedule.
  split; [exact d_schedule_is_interleaving|]. split; [exact d_every_serial_order_keeps_it|].
  destruct d_report_dropped as (_ & H2 & H3). now split.
Qed.

(* ------------------------------------------------------------------ stream "sched": the decision procedure *)
From Verif Require Import C08.Codec C08.Proofs_Codec C08.Codec_Sched.

(* on the model's own observations the decision procedure reports nothing but (exactly when the
   schedule makes the code give an event up) clause 7 *)
Lemma sched_prop_case_model inp :
  sched_prop_case inp (sched_run_case inp)
  = if drops (fst (sdecode inp)) (snd (sdecode inp)) then 7 else 0.
Proof.
  unfold sched_prop_case, sched_run_case. destruct (sdecode inp) as [cfg acts]. cbn [fst snd].
  now rewrite eq_listZ_refl.
Qed.

Lemma eq_listZ_eq a b : eq_listZ a b = true -> a = b.
Proof.
  revert b. induction a as [|x a IH]; intros [|y b] H; try discriminate; [reflexivity|].
  cbn in H. apply andb_prop in H. destruct H as [H1 H2]. apply Z.eqb_eq in H1. subst.
  f_equal. now apply IH.
Qed.

(* an implementation observable the procedure accepts is the model's, step by step, and no
   event was given up; with the invariant above this is: no drift at any point of the schedule *)
Lemma sched_prop_case_sound inp obs :
  sched_prop_case inp obs = 0 ->
  obs = sched_run_case inp /\ drops (fst (sdecode inp)) (snd (sdecode inp)) = false.
Proof.
  unfold sched_prop_case, sched_run_case. destruct (sdecode inp) as [cfg acts]. cbn [fst snd].
  destruct (eq_listZ (srun_obs cfg cs_init acts) obs) eqn:E; cbn [negb]; [|discriminate].
  apply eq_listZ_eq in E. destruct (drops cfg acts); [discriminate|]. intros _. now split.
Qed.

(* the witness schedule, on the wire level: the report is given up *)
Lemma d_schedule_drops : drops d_cfg d_schedule = true.
Proof. vm_compute. reflexivity. Qed.

(* serial schedules never give an event up (so clause 7 is about interleavings only) *)
