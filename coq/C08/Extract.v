(* C08 — extraction of the entry points defined in Codec.v (wire format documented there). *)
From Coq Require Import List ZArith Bool.
From Verif Require Import C08.Codec.

Require Extraction.
Require Import ExtrOcamlBasic.
Extraction "model.ml" run_case prop_case nontrivial_case finding_sig.
