(* C08 — the decision procedure of Spec.v holds on the model's own observations of every
   history, and decides the Prop. *)
From Coq Require Import List ZArith Bool Lia.
From Verif Require Import Lib.SortX C08.Model C08.Spec C08.Proofs C08.Proofs_Drift.
Import ListNotations.
Open Scope Z_scope.

(* ------------------------------------------------------------------ one node *)
Lemma gets_estimates n m :
  n_metric n = Some m ->
  map (fun v => get_est n (fst (fst v)) (snd (fst v)) (snd v)) variants = estimates_of m (n_sums n).
Proof. intro Hm. unfold estimates_of, get_est. now rewrite Hm. Qed.

Lemma node_code_model cfg c k :
  cache_ok cfg c -> node_code cfg (alookup k c) (observe_node cfg c k) = 0.
Proof.
  intros Hc. unfold observe_node, node_code.
  destruct (alookup k c) as [n|] eqn:En; cbn [view_uids spec_uids no_uids]; [|reflexivity].
  rewrite (list_eqb_refl Z.eqb) by apply Z.eqb_refl. cbn [negb].
  cbn [spec_metric view_detail no_detail].
  destruct (n_metric n) as [m|] eqn:Em; [|reflexivity].
  pose proof (Hc _ _ En) as Hok.
  assert (Hf : fresh_sums cfg n = n_sums n) by apply (ninfo_fresh_equal cfg n m Hok Em).
  rewrite Hf, sums_eqb_refl. cbn [negb].
  destruct Hok as (_ & _ & Hs). destruct (Hs m Em) as [Hsum _].
  rewrite <- Hsum, sums_eqb_refl. cbn [negb].
  rewrite (gets_estimates n m Em).
  rewrite (list_eqb_refl ovec_eqb) by apply ovec_eqb_refl. reflexivity.
Qed.

Lemma nodes_code_model cfg c ks :
  cache_ok cfg c ->
  nodes_code cfg c ks (map (observe_node cfg c) ks) = 0.
Proof.
  intros Hc. induction ks as [|k ks IH]; [reflexivity|].
  cbn [map nodes_code]. now rewrite node_code_model, IH.
Qed.

(* ------------------------------------------------------------------ the Filter clause *)
Lemma variant_index_nth (F : bool -> Z -> Z -> option vec) b t d l i :
  variant_index (b, t, d) l = Some i ->
  nth i (map (fun v => F (fst (fst v)) (snd (fst v)) (snd v)) l) None = F b t d.
Proof.
  revert i. induction l as [|[[b' t'] d'] l IH]; intros i; cbn [variant_index]; [discriminate|].
  cbn [fst snd].
  destruct (Bool.eqb b' b && (t' =? t) && (d' =? d)) eqn:E.
  - intro H. injection H as <-. cbn [map nth fst snd].
    apply andb_prop in E. destruct E as [E E3]. apply andb_prop in E. destruct E as [E1 E2].
    apply Bool.eqb_prop in E1. apply Z.eqb_eq in E2, E3. now subst.
  - destruct (variant_index (b, t, d) l) as [j|]; [|discriminate].
    intro H. injection H as <-. cbn [map nth]. now apply IH.
Qed.

Lemma observe_nth cfg c k :
  existsb (Z.eqb k) universe = true ->
  nth (Nat.pred (Z.to_nat k)) (observe cfg c) None = observe_node cfg c k.
Proof.
  unfold universe, observe. cbn [existsb map].
  destruct (k =? 1) eqn:E1; [apply Z.eqb_eq in E1; now subst|].
  destruct (k =? 2) eqn:E2; [apply Z.eqb_eq in E2; now subst|].
  destruct (k =? 3) eqn:E3; [apply Z.eqb_eq in E3; now subst|].
  discriminate.
Qed.

Lemma filter_view_agrees cfg c nd p :
  variant_observed cfg nd p = true ->
  existsb (Z.eqb (nd_name nd)) universe = true ->
  filter cfg c nd p
  = filter_decide cfg nd p
      (view_state (spec_metric (alookup (nd_name nd) c))
                  (nth (Nat.pred (Z.to_nat (nd_name nd))) (observe cfg c) None)).
Proof.
  intros Hv Hu. rewrite (observe_nth _ _ _ Hu).
  unfold filter, node_view, observe_node, view_state.
  destruct (alookup (nd_name nd) c) as [n|]; cbn [spec_metric view_detail no_detail]; [|reflexivity].
  destruct (n_metric n) as [m|] eqn:Em; [|reflexivity].
  unfold filter_decide, variant_observed in *.
  destruct (daemonset p); [reflexivity|].
  destruct (select_thresholds (node_profile cfg nd) (is_prod p)) as [[[[thr isAgg] aggT] aggD] prodPod].
  destruct (vempty thr); [reflexivity|].
  destruct (variant_index (prodPod, aggT, aggD) variants) as [i|] eqn:Ei; [|discriminate].
  unfold view_get. rewrite Ei.
  rewrite (variant_index_nth (get_est n) _ _ _ _ _ Ei). reflexivity.
Qed.

Lemma score_view_agrees cfg c nd p :
  score_observed cfg p = true ->
  existsb (Z.eqb (nd_name nd)) universe = true ->
  score cfg c nd p
  = score_decide cfg nd p
      (view_state (spec_metric (alookup (nd_name nd) c))
                  (nth (Nat.pred (Z.to_nat (nd_name nd))) (observe cfg c) None)).
Proof.
  intros Hv Hu. rewrite (observe_nth _ _ _ Hu).
  unfold score, node_view, observe_node, view_state.
  destruct (alookup (nd_name nd) c) as [n|]; cbn [spec_metric view_detail no_detail]; [|reflexivity].
  destruct (n_metric n) as [m|] eqn:Em; [|reflexivity].
  unfold score_decide, score_observed in *.
  destruct (score_weights cfg); [|reflexivity].
  destruct (score_variant cfg p) as [[prodPod aggT] aggD].
  destruct (variant_index (prodPod, aggT, aggD) variants) as [i|] eqn:Ei; [|discriminate].
  unfold view_get. rewrite Ei.
  rewrite (variant_index_nth (get_est n) _ _ _ _ _ Ei). reflexivity.
Qed.

Lemma op_code_model cfg c o :
  op_code cfg c o (op_result cfg c o) (observe cfg (step cfg c o)) = 0.
Proof.
  destruct o; cbn [op_code op_result step]; try reflexivity.
  - destruct (variant_observed cfg nd p && existsb (Z.eqb (nd_name nd)) universe) eqn:E; [|reflexivity].
    apply andb_prop in E. destruct E as [E1 E2].
    rewrite <- (filter_view_agrees cfg c nd p E1 E2). now rewrite Z.eqb_refl.
  - destruct (score_observed cfg p && existsb (Z.eqb (nd_name nd)) universe) eqn:E; [|reflexivity].
    apply andb_prop in E. destruct E as [E1 E2].
    rewrite <- (score_view_agrees cfg c nd p E1 E2). now rewrite Z.eqb_refl.
Qed.

(* ------------------------------------------------------------------ whole histories *)
Lemma code_from_model cfg ops c :
  cache_ok cfg c -> code_from cfg c ops (run_obs cfg c ops) = 0.
Proof.
  revert c. induction ops as [|o ops IH]; intros c Hc; [reflexivity|].
  cbn [run_obs code_from].
  assert (Hc' : cache_ok cfg (step cfg c o)) by now apply step_ok.
  unfold observe at 1. rewrite (nodes_code_model cfg _ universe Hc'). cbn [Z.eqb negb].
  rewrite op_code_model. cbn [Z.eqb negb].
  now apply IH.
Qed.

(* MAIN: on EVERY history the property's decision procedure accepts the model's observations *)
Lemma prop_code_model cfg ops : prop_code cfg ops (run_obs cfg [] ops) = 0.
Proof. unfold prop_code. apply code_from_model, cache_ok_nil. Qed.

(* ------------------------------------------------------------------ soundness of the codes *)
Lemma node_code_sound cfg n o : node_code cfg n o = 0 -> node_ok cfg n o.
Proof.
  unfold node_code, node_ok.
  destruct (list_eqb Z.eqb (view_uids o) (spec_uids n)) eqn:Eu; cbn [negb]; [|discriminate].
  apply (list_eqb_eq Z.eqb) in Eu; [|intros x y; apply Z.eqb_eq].
  intro H. split; [exact Eu|].
  destruct (spec_metric n) as [m|]; destruct (view_detail o) as [[[old fresh] gets]|];
    try discriminate; [|exact I].
  destruct n as [x|]; [|discriminate].
  destruct (sums_eqb old fresh) eqn:E1; cbn [negb] in H; [|discriminate].
  destruct (sums_eqb old (rebuild cfg m (n_ut x) (n_pods x))) eqn:E2; cbn [negb] in H; [|discriminate].
  destruct (list_eqb ovec_eqb gets (estimates_of m old)) eqn:E3; cbn [negb] in H; [|discriminate].
  apply sums_eqb_eq in E1, E2. apply (list_eqb_eq ovec_eqb) in E3; [|apply ovec_eqb_eq].
  tauto.
Qed.

Lemma nodes_code_sound cfg c ks view : nodes_code cfg c ks view = 0 -> nodes_ok cfg c ks view.
Proof.
  revert view. induction ks as [|k ks IH]; intros [|o os]; cbn [nodes_code nodes_ok]; try discriminate; [tauto|].
  destruct (node_code cfg (alookup k c) o =? 0) eqn:E.
  - apply Z.eqb_eq in E. intro H. split; [now apply node_code_sound|now apply IH].
  - intro H. rewrite H in E. discriminate.
Qed.

Lemma op_code_sound cfg c o r view : op_code cfg c o r view = 0 -> op_ok cfg c o r view.
Proof.
  destruct o; cbn [op_code op_ok];
    try (destruct (r =? 0) eqn:E; [apply Z.eqb_eq in E; tauto|discriminate]).
  - intros H Hv Hu.
    assert (Hu' : existsb (Z.eqb (nd_name nd)) universe = true).
    { apply existsb_exists. exists (nd_name nd). split; [exact Hu|apply Z.eqb_refl]. }
    rewrite Hv, Hu' in H. cbn [andb] in H.
    match type of H with (if ?b then _ else _) = _ => destruct b eqn:E end; [|discriminate].
    now apply Z.eqb_eq in E.
  - intros H Hv Hu.
    assert (Hu' : existsb (Z.eqb (nd_name nd)) universe = true).
    { apply existsb_exists. exists (nd_name nd). split; [exact Hu|apply Z.eqb_refl]. }
    rewrite Hv, Hu' in H. cbn [andb] in H.
    match type of H with (if ?b then _ else _) = _ => destruct b eqn:E end; [|discriminate].
    now apply Z.eqb_eq in E.
Qed.

Lemma code_from_sound cfg ops c obs : code_from cfg c ops obs = 0 -> holds_from cfg c ops obs.
Proof.
  revert c obs. induction ops as [|o ops IH]; intros c [|[r view] obs]; cbn [code_from holds_from];
    try discriminate; [tauto|].
  destruct (nodes_code cfg (step cfg c o) universe view =? 0) eqn:E1; cbn [negb].
  2:{ intro H. rewrite H in E1. discriminate. }
  destruct (op_code cfg c o r view =? 0) eqn:E2; cbn [negb].
  2:{ intro H. rewrite H in E2. discriminate. }
  apply Z.eqb_eq in E1, E2. intro H.
  split; [now apply nodes_code_sound|]. split; [now apply op_code_sound|now apply IH].
Qed.

Lemma prop_code_sound cfg ops obs : prop_code cfg ops obs = 0 -> C08_holds cfg ops obs.
Proof. apply code_from_sound. Qed.

Lemma holds_model cfg ops : C08_holds cfg ops (run_obs cfg [] ops).
Proof. apply prop_code_sound, prop_code_model. Qed.

(* ------------------------------------------------------------------ completeness of the codes *)
Lemma node_code_complete cfg n o : node_ok cfg n o -> node_code cfg n o = 0.
Proof.
  unfold node_code, node_ok. intros [Hu H]. rewrite Hu.
  rewrite (list_eqb_refl Z.eqb) by apply Z.eqb_refl. cbn [negb].
  destruct (spec_metric n) as [m|]; destruct (view_detail o) as [[[old fresh] gets]|]; try tauto.
  destruct n as [x|]; [|tauto]. destruct H as (H1 & H2 & H3).
  rewrite <- H1, <- H2, H3, sums_eqb_refl. cbn [negb].
  now rewrite (list_eqb_refl ovec_eqb) by apply ovec_eqb_refl.
Qed.

Lemma nodes_code_complete cfg c ks view : nodes_ok cfg c ks view -> nodes_code cfg c ks view = 0.
Proof.
  revert view. induction ks as [|k ks IH]; intros [|o os]; cbn [nodes_code nodes_ok]; try tauto.
  intros [H1 H2]. rewrite (node_code_complete _ _ _ H1). cbn [Z.eqb]. now apply IH.
Qed.

Lemma op_code_complete cfg c o r view : op_ok cfg c o r view -> op_code cfg c o r view = 0.
Proof.
  destruct o; cbn [op_code op_ok]; try (intros ->; reflexivity).
  - intro H.
    destruct (variant_observed cfg nd p) eqn:Ev; cbn [andb]; [|reflexivity].
    destruct (existsb (Z.eqb (nd_name nd)) universe) eqn:Eu; [|reflexivity].
    apply existsb_exists in Eu. destruct Eu as (x & Hin & Hx). apply Z.eqb_eq in Hx. subst x.
    rewrite <- (H eq_refl Hin). now rewrite Z.eqb_refl.
  - intro H.
    destruct (score_observed cfg p) eqn:Ev; cbn [andb]; [|reflexivity].
    destruct (existsb (Z.eqb (nd_name nd)) universe) eqn:Eu; [|reflexivity].
    apply existsb_exists in Eu. destruct Eu as (x & Hin & Hx). apply Z.eqb_eq in Hx. subst x.
    rewrite <- (H eq_refl Hin). now rewrite Z.eqb_refl.
Qed.

Lemma code_from_complete cfg ops c obs : holds_from cfg c ops obs -> code_from cfg c ops obs = 0.
Proof.
  revert c obs. induction ops as [|o ops IH]; intros c [|[r view] obs]; cbn [code_from holds_from];
    try tauto.
  intros (H1 & H2 & H3).
  rewrite (nodes_code_complete _ _ _ _ H1), (op_code_complete _ _ _ _ _ H2). cbn [Z.eqb negb].
  now apply IH.
Qed.

Lemma prop_code_spec cfg ops obs : prop_code cfg ops obs = 0 <-> C08_holds cfg ops obs.
Proof. split; [apply code_from_sound|apply code_from_complete]. Qed.
