(* C08 — the pod-assign cache under concurrency: the lock sections of
   pkg/scheduler/plugins/loadaware/pod_assign_cache.go as atomic actions that threads interleave.

   The sequential model (Model.v) runs every event handler to completion.  The code does not:
   an add-or-update is  getOrCreateNodeInfo (the cache's sync.Map)  THEN  nodeInfo.AddOrUpdate…
   (the nodeInfo's mutex), a removal is  getNodeInfo  THEN  nodeInfo.Delete… (+ tryCleanup),
   and other goroutines (pod informer, NodeMetric informer, scheduling cycle, binding cycles)
   run between the two.  A nodeInfo that became empty is marked [deleted] and dropped from the
   map; an add-or-update that loaded it before must notice and retry with a fresh one — the
   code retries ONCE (pod_assign_cache.go:313, :507).

   State: the map name -> object id, a heap of nodeInfo objects (ninfo of Model.v + deleted flag
   + the writer lock a creator holds from getOrCreateNodeInfo until its first update), and per
   thread the nodeInfo it loaded.  Every action is one call of a real function of the code and
   is what the harness of stream "sched" drives; an action whose lock is held by another thread
   is not enabled and leaves the state alone. *)
From Coq Require Import List ZArith Bool.
From Verif Require Import C08.Model.
Import ListNotations.
Open Scope Z_scope.

(* ------------------------------------------------------------------ nodeInfo-level operations *)
(* nodeInfo.AddOrUpdatePod (:418), after the deleted checks *)
Definition ni_add_pod (pi : pinfo) (n : ninfo) : ninfo :=
  let uid := p_uid (pi_pod pi) in
  let old := alookup uid (n_pods n) in
  let s' := match n_metric n with
            | None => n_sums n
            | Some m =>
              let s1 := match old with
                        | Some o => sums_sub (n_sums n) (contrib m (n_ut n) o)
                        | None => n_sums n end in
              sums_add s1 (contrib m (n_ut n) pi)
            end in
  mkN (aset uid pi (n_pods n)) (n_metric n) (n_ut n) s'.

(* nodeInfo.DeletePod (:449), before tryCleanup *)
Definition ni_del_pod (uid : Z) (n : ninfo) : ninfo :=
  let s' := match n_metric n, alookup uid (n_pods n) with
            | Some m, Some o => sums_sub (n_sums n) (contrib m (n_ut n) o)
            | _, _ => n_sums n end in
  mkN (aremove uid (n_pods n)) (n_metric n) (n_ut n) s'.

(* nodeInfo.AddOrUpdateNodeMetric (:520) *)
Definition ni_set_metric (cfg : config) (m : metric) (n : ninfo) : ninfo :=
  mkN (n_pods n) (Some m) (fresh_ut m) (rebuild cfg m (fresh_ut m) (n_pods n)).

(* nodeInfo.DeleteNodeMetric (:604) *)
Definition ni_del_metric (n : ninfo) : ninfo := mkN (n_pods n) None (n_ut n) (n_sums n).

(* tryCleanup's test *)
Definition ni_empty (n : ninfo) : bool :=
  match n_metric n, n_pods n with None, [] => true | _, _ => false end.

(* ------------------------------------------------------------------ concurrent state *)
Record nobj := mkO {
  o_n : ninfo;
  o_del : bool;             (* nodeInfo.deleted *)
  o_lock : Z;               (* 0 = unlocked; t = write-locked by thread t, which created it *)
  o_name : Z                (* the name it was created for (ghost) *)
}.
(* what a thread holds between its two lock sections: the loaded nodeInfo and [created] *)
(* [t_obj] = (object id, created, the name it was asked for) *)
Record treg := mkT { t_obj : option (Z * bool * Z); t_ok : bool }.
Record cstate := mkCS {
  cs_items : list (Z * Z);            (* podAssignCache.items : name -> object id *)
  cs_heap : list (Z * nobj);
  cs_next : Z;
  cs_regs : list (Z * treg)
}.
Definition cs_init : cstate := mkCS [] [] 1 [].

Definition reg_of (s : cstate) (t : Z) : treg :=
  match alookup t (cs_regs s) with Some r => r | None => mkT None false end.
Definition set_reg (s : cstate) (t : Z) (r : treg) : cstate :=
  mkCS (cs_items s) (cs_heap s) (cs_next s) (aset t r (cs_regs s)).

Inductive act :=
(* getOrCreateNodeInfo(node); [again] = the retry of an add-or-update: skipped when the first
   try succeeded *)
| AGetOrCreate (t node : Z) (again : bool)
(* getNodeInfo(node) *)
| ALoad (t node : Z)
(* loaded.AddOrUpdatePod(podAssignInfo of p at clock now, created) *)
| AAddPod (t now : Z) (p : pod)
(* loaded.AddOrUpdateNodeMetric(m, cache, created) *)
| AAddMetric (t : Z) (m : metric)
(* loaded.DeletePod(name it was loaded under, uid, cache) *)
| ADelPod (t uid : Z)
(* loaded.DeleteNodeMetric(name it was loaded under, cache) *)
| ADelMetric (t : Z)
(* Plugin.Filter (reads through getNodeInfo + RLock); does not change the cache *)
| AFilter (t : Z) (nd : nodeobj) (p : pod)
(* two goroutines queue for the SAME nodeInfo's lock, having both passed the unlocked
   [deleted] pre-check: t2's DeletePod gets the lock first, t's AddOrUpdatePod second (the
   re-check of [deleted] under the lock decides) *)
| ARace (t2 uid t now : Z) (p : pod).

(* may thread t take the write lock of object o the way its register says? a creator already
   holds it; everybody else needs it free *)
Definition can_write (t : Z) (created : bool) (o : nobj) : bool :=
  if created then o_lock o =? t else o_lock o =? 0.

Definition put_obj (s : cstate) (oid : Z) (o : nobj) : cstate :=
  mkCS (cs_items s) (aset oid o (cs_heap s)) (cs_next s) (cs_regs s).

(* the common shape of AddOrUpdatePod / AddOrUpdateNodeMetric: not enabled -> wait; deleted ->
   unlock, report failure; else update, unlock, report success.  The register is consumed. *)
Definition add_or_update (s : cstate) (t : Z) (f : ninfo -> ninfo) : cstate :=
  match t_obj (reg_of s t) with
  | None => s
  | Some (oid, created, _) =>
    match alookup oid (cs_heap s) with
    | None => s
    | Some o =>
      if negb (can_write t created o) then s
      else if o_del o then
        set_reg (put_obj s oid (mkO (o_n o) true 0 (o_name o))) t (mkT None false)
      else
        set_reg (put_obj s oid (mkO (f (o_n o)) false 0 (o_name o))) t (mkT None true)
    end
  end.

(* the common shape of DeletePod / DeleteNodeMetric + tryCleanup *)
Definition delete_from (s : cstate) (t : Z) (f : ninfo -> ninfo) : cstate :=
  match t_obj (reg_of s t) with
  | None => s
  | Some (oid, _, node) =>
    match alookup oid (cs_heap s) with
    | None => s
    | Some o =>
      if negb (o_lock o =? 0) then s
      else if o_del o then set_reg s t (mkT None (t_ok (reg_of s t)))
      else
        let n' := f (o_n o) in
        let s1 :=
          if ni_empty n' then
            (* deleted = true; items.CompareAndDelete(node, this) *)
            mkCS (match alookup node (cs_items s) with
                  | Some oid' => if oid' =? oid then aremove node (cs_items s) else cs_items s
                  | None => cs_items s end)
                 (aset oid (mkO n' true 0 (o_name o)) (cs_heap s)) (cs_next s) (cs_regs s)
          else put_obj s oid (mkO n' false 0 (o_name o)) in
        set_reg s1 t (mkT None (t_ok (reg_of s t)))
    end
  end.

Definition sstep (cfg : config) (s : cstate) (a : act) : cstate :=
  match a with
  | AGetOrCreate t node again =>
    (* thread ids are not 0 (0 stands for "unlocked") *)
    if (t =? 0) || (again && t_ok (reg_of s t)) then s else
    match alookup node (cs_items s) with
    | Some oid => set_reg s t (mkT (Some (oid, false, node)) false)
    | None =>
      let oid := cs_next s in
      set_reg (mkCS (aset node oid (cs_items s))
                    (aset oid (mkO new_ninfo false t node) (cs_heap s))
                    (oid + 1) (cs_regs s))
              t (mkT (Some (oid, true, node)) false)
    end
  | ALoad t node =>
    set_reg s t (mkT (match alookup node (cs_items s) with
                      | Some oid => Some (oid, false, node) | None => None end)
                     (t_ok (reg_of s t)))
  | AAddPod t now p =>
    if terminated p || p_resv p then s
    else add_or_update s t (ni_add_pod (mk_pinfo cfg now p))
  | AAddMetric t m => add_or_update s t (ni_set_metric cfg m)
  | ADelPod t uid => delete_from s t (ni_del_pod uid)
  | ADelMetric t => delete_from s t ni_del_metric
  | AFilter _ _ _ => s
  | ARace t2 uid t now p =>
    let s1 := delete_from s t2 (ni_del_pod uid) in
    if terminated p || p_resv p then s1
    else add_or_update s1 t (ni_add_pod (mk_pinfo cfg now p))
  end.

Definition srun (cfg : config) (l : list act) : cstate := fold_left (sstep cfg) l cs_init.

(* ------------------------------------------------------------------ what readers see *)
(* the nodeInfo a reader gets for a name: the map's entry — unless a creator still holds its
   lock (the reader waits) *)
Definition visible (s : cstate) (node : Z) : option nobj :=
  match alookup node (cs_items s) with
  | Some oid => alookup oid (cs_heap s)
  | None => None
  end.
Definition reader_blocked (s : cstate) (node : Z) : bool :=
  match visible s node with Some o => negb (o_lock o =? 0) | None => false end.

(* the sequential cache a quiescent concurrent state stands for *)
Definition abs_cache (s : cstate) : cache :=
  flat_map (fun kv => match alookup (snd kv) (cs_heap s) with
                      | Some o => [(fst kv, o_n o)]
                      | None => [] end) (cs_items s).

Definition sfilter (cfg : config) (s : cstate) (nd : nodeobj) (p : pod) : Z :=
  filter_decide cfg nd p
    (match visible s (nd_name nd) with
     | Some o => match n_metric (o_n o) with
                 | Some m => Some (m, get_est (o_n o)) | None => None end
     | None => None end).

(* the result an action reports: Filter's status, -1 when it has to wait; for the second lock
   section of an add-or-update 1 = done, 2 = the nodeInfo was deleted meanwhile, 3 = waiting *)
Definition act_result (cfg : config) (s : cstate) (a : act) : Z :=
  match a with
  | AFilter _ nd p => if reader_blocked s (nd_name nd) then -1 else sfilter cfg s nd p
  | _ => 0
  end.

(* ------------------------------------------------------------------ thread programs *)
(* what one goroutine executes for one event (the retry is skipped when the first try worked) *)
Definition prog_assign (t now node : Z) (p : pod) : list act :=
  if (node =? 0) || terminated p || p_resv p then []
  else [AGetOrCreate t node false; AAddPod t now p; AGetOrCreate t node true; AAddPod t now p].
Definition prog_unassign (t node uid : Z) : list act :=
  if node =? 0 then [] else [ALoad t node; ADelPod t uid].
Definition prog_metric (t node : Z) (m : metric) : list act :=
  [AGetOrCreate t node false; AAddMetric t m; AGetOrCreate t node true; AAddMetric t m].
Definition prog_metric_del (t node : Z) : list act := [ALoad t node; ADelMetric t].

(* the program of a sequential-model operation (OnUpdate reads the pod table in a lock section of
   its own and branches on it; it is not given a program here) *)
Definition prog_of (t : Z) (o : op) : list act :=
  match o with
  | OReserve now node p => prog_assign t now node p
  | OUnreserve _ node p => prog_unassign t node (p_uid p)
  | OAdd now p => prog_assign t now (p_node p) p
  | ODelete _ p => prog_unassign t (p_node p) (p_uid p)
  | OMetric _ node m => prog_metric t node m
  | OMetricDel _ node => prog_metric_del t node
  | OFilter _ nd p => [AFilter t nd p]
  | _ => []
  end.
