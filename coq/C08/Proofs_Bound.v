(* C08 — Filter's pass verdict in exact arithmetic: the float64 percentage test implies an
   integer inequality on the from-scratch estimate, with an explicit rounding slack. *)
From Coq Require Import List ZArith Bool Lia.
From Verif Require Import C08.Model C08.Spec C08.Proofs C08.Proofs_Drift C08.Proofs_Filter C08.Proofs_Float.
Import ListNotations.
Open Scope Z_scope.

Lemma filter_pass_exact cfg ops nd p n m thr isAgg aggT aggD prodPod :
  alookup (nd_name nd) (run cfg ops) = Some n -> n_metric n = Some m ->
  daemonset p = false ->
  select_thresholds (node_profile cfg nd) (is_prod p) = (thr, isAgg, aggT, aggD, prodPod) ->
  expiry_applies cfg m = false -> is_some (m_info m) = true ->
  filter cfg (run cfg ops) nd p = 0 ->
  forall i, (i < length thr)%nat -> nth i thr 0 <> 0 ->
    let total := nth i (vadd (est_of m (rebuild cfg m (n_ut n) (n_pods n)) prodPod aggT aggD)
                             (est_vec cfg p)) 0 in
    let alloc := nth i (eff_alloc nd) 0 in
    0 < alloc -> 0 < total ->
    200 * ((K - 1) * (K - 1) * (K - 1)) * total
      < (2 * nth i thr 0 + 1) * (K * K * (K + 1)) * alloc.
Proof.
  intros Hn Hm Hds Hsel Hexp Hinfo Hpass i Hi Ht total alloc Ha Htot.
  apply pct_float_pass_bound; [exact Htot|exact Ha|].
  apply (proj1 (filter_sound_complete cfg ops nd p n m thr isAgg aggT aggD prodPod
                  Hn Hm Hds Hsel Hexp Hinfo) Hpass i Hi Ht).
  unfold alloc in Ha. lia.
Qed.
