(* C08 — flat-integer wire format: input decoding, observable printing / parsing, and the four
   entry points of the generic OCaml driver (extracted by Extract.v).

   INPUT   cfg(21) [-1 wC wM dom accProd sAggType sAggDur] nops op*
     cfg : thrC thrM pthrC pthrM  aggOn aggThrC aggThrM aggType aggDur  fexp  expFlag expVal  enab
           incSys allowCustom  ssFlag ssVal siFlag siVal  facC facM
           (map entries: -1 = key absent; fexp/enab: 0 nil, 1 false, 2 true)
           optional extension, announced by a negative integer where the op count would be: what
           only Score reads (ResourceWeights, DominantResourceWeight, ScoreAccordingProdUsage,
           Aggregated.ScoreAggregationType / ScoreAggregatedDuration)
     pod(19) : uid key node prio term resv ds reqC reqM limC limM cfC cfM csS csI schS schT iniS iniT
           (times: -999999999 = zero time; condition state 0 absent, 1 not True, 2 True;
            key < 100: namespace "default", else namespace ns<key/100>, name p<key mod 100>;
            one container; resource names follow the priority band)
     pod, extended form : pod(19) prioNil label qos kqos phase owner fam
                          nctr {reqC reqM limC limM}  ninit {always reqC reqM limC limM}  ohFlag ohC ohM
           (label 1..4 = koord-prod/mid/batch/free, other = unknown name; qos 1..5 = LSE LSR LS BE
            SYSTEM; kqos = status.qosClass 1..3 = Guaranteed Burstable BestEffort; phase 1 Succeeded
            2 Failed 3 Pending 4 Unknown; owner 1 DaemonSet, 2 ReplicaSet+DaemonSet, 3 ReplicaSet,
            4 kind "daemonset"; fam 1 cpu/memory 2 mid-* 3 batch-*; 0 = as the basic fields say)
     metric : utFlag ut ivFlag iv infoFlag usageC usageM sysC sysM
              nagg {dur ntypes {type flag vC vM}}  npods {key flag vC vM prod}
              (pod flag: 0 empty usage list, 1 usage, 2 nil entry, 3 only unknown resource names)
     node(17) : name allocC allocM rawFlag rawC rawM customFlag cuC cuM cpC cpM
                caggFlag caThrC caThrM caType caDurFlag caDur
     op : 1 now node pod | 2 now node pod | 3 now pod | 4 now oldnode pod (oldnode < 0: no old object)
        | 5 now pod wrap (2, 3: the tombstone holds / the object is not a pod)
        | 6 now node upd metric (upd 2, 3: not a NodeMetric / a nil one) | 7 now node wrap
        | 8 now pre node pod   Filter (pre: 0 new cycle, 1 new cycle + PreFilter, 2 same CycleState
                               as the previous Filter / Score: the next node of the cycle)
        | 9 now kind           a pod handler called with something that is not a pod
        | 10 now pre node pod  Score
        | 11..15, 18, 20       = 1..5, 8, 10 with the pod in the extended form
   OBSERVABLE  per op:  result, then for node 1..3:
        0                                              (no entry)
      | 1 hasMetric k uid*k [ old(8) fresh(8) {found c m}*8 ]   (bracket iff hasMetric = 1)
     sums are prodUsage nodeDelta prodDelta nodeEstimated, two integers each;
     result = Filter status (0 pass/skip, 1 usage, 2 aggregated usage, 3 expired) or the Score *)
From Coq Require Import List ZArith Bool.
From Verif Require Import Lib.Wire C08.Model C08.Spec.
Import ListNotations.
Open Scope Z_scope.

Definition oz (z : Z) : option Z := if z <? 0 then None else Some z.
Definition tz (z : Z) : Z := if z =? -999999999 then zero_time else z.
Definition ob3 (z : Z) : option bool := if z =? 0 then None else Some (z =? 2).
Definition fz (f v : Z) : option Z := if zb f then Some v else None.

Definition dec_cfg (l : list Z) : config * list Z :=
  match l with
  | thrC :: thrM :: pthrC :: pthrM :: aggOn :: aggThrC :: aggThrM :: aggType :: aggDur ::
    fexp :: expF :: expV :: enab :: incSys :: allowC :: ssF :: ssV :: siF :: siV ::
    facC :: facM :: r =>
    (mkCfg [oz thrC; oz thrM] [oz pthrC; oz pthrM]
       (if zb aggOn then Some (mkAgg [oz aggThrC; oz aggThrM] aggType aggDur) else None)
       (ob3 fexp) (fz expF expV) (ob3 enab) (zb incSys) (zb allowC)
       (fz ssF ssV) (fz siF siV) [oz facC; oz facM] no_score, r)
  | _ => (mkCfg [] [] None None None None false false None None [] no_score, [])
  end.
(* an optional header extension, announced by a negative integer where the op count would be:
     -1 wC wM dom accProd sAggType sAggDur     (what Score reads) *)
Definition dec_cfg_ext (l : list Z) : config * list Z :=
  let '(cfg, r) := dec_cfg l in
  match r with
  | mark :: wC :: wM :: dom :: accProd :: sT :: sD :: r' =>
    if mark <? 0 then
      (mkCfg (c_thr cfg) (c_prod_thr cfg) (c_agg cfg) (c_filter_expired cfg) (c_exp_seconds cfg)
         (c_enable_expired cfg) (c_include_sys cfg) (c_allow_custom cfg) (c_sec_sched cfg)
         (c_sec_init cfg) (c_factors cfg) (mkSC [oz wC; oz wM] dom (zb accProd) sT sD), r')
    else (cfg, r)
  | _ => (cfg, r)
  end.

Definition nn (z : Z) : Z := Z.max 0 z.      (* the harness omits entries that are not positive *)
Definition dflt_pod : pod :=
  mkPod 0 0 0 None 0 0 0 0 false 0 1 [] [] None [] (-1) (-1) 0 0 0 0.
(* the resource names a pod of the basic form declares under follow its priority band *)
Definition fam_of_band (prio : Z) : Z :=
  match cls_of_prio prio with CMid => 2 | CBatch => 3 | _ => 1 end.
Definition dec_pod (l : list Z) : pod * list Z :=
  match l with
  | uid :: key :: node :: prio :: term :: resv :: ds :: reqC :: reqM :: limC :: limM ::
    cfC :: cfM :: csS :: csI :: schS :: schT :: iniS :: iniT :: r =>
    (mkPod uid key node (Some prio) 0 0 0 (bz (zb term)) (zb resv) (bz (zb ds)) (fam_of_band prio)
       [mkCtr [nn reqC; nn reqM] [nn limC; nn limM]] [] None
       [oz cfC; oz cfM] csS csI schS (tz schT) iniS (tz iniT), r)
  | _ => (dflt_pod, [])
  end.
(* the extended form: the 19 basic fields, then
     prioNil label qos kqos phase owner fam  nctr {reqC reqM limC limM}
     ninit {always reqC reqM limC limM}  ohFlag ohC ohM
   phase / owner / fam 0 = as the basic fields say *)
Definition dec_ctr (l : list Z) : ctr * list Z :=
  match l with
  | a :: b :: c :: d :: r => (mkCtr [nn a; nn b] [nn c; nn d], r)
  | _ => (mkCtr [0; 0] [0; 0], [])
  end.
Definition dec_ictr (l : list Z) : (bool * ctr) * list Z :=
  match l with
  | al :: r => let '(c, r') := dec_ctr r in ((zb al, c), r')
  | [] => ((false, mkCtr [0; 0] [0; 0]), [])
  end.
Definition dec_pod_ext (l : list Z) : pod * list Z :=
  let '(p, r) := dec_pod l in
  match r with
  | prioNil :: label :: qos :: kqos :: phase :: owner :: fam :: r1 =>
    let '(ctrs, r2) := decode_seq dec_ctr r1 in
    let '(inits, r3) := decode_seq dec_ictr r2 in
    match r3 with
    | ohF :: ohC :: ohM :: r4 =>
      (mkPod (p_uid p) (p_key p) (p_node p) (if zb prioNil then None else p_prio p)
         label qos kqos (if phase =? 0 then p_phase p else phase) (p_resv p)
         (if owner =? 0 then p_owner p else owner)
         (if (1 <=? fam) && (fam <=? 3) then fam else p_fam p)
         (p_ctrs p ++ ctrs) inits (if zb ohF then Some [nn ohC; nn ohM] else None)
         (p_cf p) (p_cs_sched p) (p_cs_init p) (p_sch_s p) (p_sch_t p) (p_ini_s p) (p_ini_t p), r4)
    | _ => (p, [])
    end
  | _ => (p, [])
  end.

Definition dec_tu (l : list Z) : (Z * option vec) * list Z :=
  match l with
  | t :: f :: vC :: vM :: r => ((t, if zb f then Some [vC; vM] else None), r)
  | _ => ((0, None), [])
  end.
(* AggregatedUsage.Usage is a Go map: a later entry of the same type replaces an earlier one *)
Fixpoint dedupe_last (l : list (Z * option vec)) : list (Z * option vec) :=
  match l with
  | [] => []
  | tu :: r => if existsb (fun x => fst x =? fst tu) r then dedupe_last r else tu :: dedupe_last r
  end.
Definition dec_agg (l : list Z) : (Z * list (Z * option vec)) * list Z :=
  match l with
  | d :: r => let '(tus, r') := decode_seq dec_tu r in ((d, dedupe_last tus), r')
  | [] => ((0, []), [])
  end.
Definition dec_pm (l : list Z) : pmetric * list Z :=
  match l with
  | key :: f :: vC :: vM :: prod :: r =>
    (* f: 0 empty usage list, 1 usage, 2 a nil entry, 3 a usage list naming only other resources *)
    (mkPM key (if f =? 1 then Some [vC; vM] else if f =? 3 then Some [0; 0] else None) (zb prod), r)
  | _ => (mkPM 0 None false, [])
  end.
Definition dec_metric (l : list Z) : metric * list Z :=
  match l with
  | utF :: ut :: ivF :: iv :: infoF :: uC :: uM :: sC :: sM :: r =>
    let '(aggs, r1) := decode_seq dec_agg r in
    let '(pms, r2) := decode_seq dec_pm r1 in
    (mkM (fz utF ut) (fz ivF iv)
         (if zb infoF then Some (mkMI [uC; uM] [sC; sM] aggs) else None) pms, r2)
  | _ => (mkM None None None [], [])
  end.

Definition dec_node (l : list Z) : nodeobj * list Z :=
  match l with
  | name :: aC :: aM :: rawF :: rC :: rM :: cF :: cuC :: cuM :: cpC :: cpM ::
    caF :: caC :: caM :: caT :: caDF :: caD :: r =>
    (mkNode name [aC; aM] (if zb rawF then Some [oz rC; oz rM] else None)
       (if zb cF then
          Some ([oz cuC; oz cuM], [oz cpC; oz cpM],
                if zb caF then Some ([oz caC; oz caM], caT, fz caDF caD) else None)
        else None), r)
  | _ => (mkNode 0 [] None None, [])
  end.

(* op codes 11..15, 18 and 20 are 1..5, 8 and 10 with the pod in the extended form *)
Definition dec_op (l : list Z) : op * list Z :=
  match l with
  | code0 :: now :: r =>
    let ext := 10 <? code0 in
    let code := if ext then code0 - 10 else code0 in
    let dpod := if ext then dec_pod_ext else dec_pod in
    if code =? 1 then
      match r with node :: r1 => let '(p, r2) := dpod r1 in (OReserve now node p, r2)
                 | [] => (ONop 0, []) end
    else if code =? 2 then
      match r with node :: r1 => let '(p, r2) := dpod r1 in (OUnreserve now node p, r2)
                 | [] => (ONop 0, []) end
    else if code =? 3 then let '(p, r2) := dpod r in (OAdd now p, r2)
    else if code =? 4 then
      (* old node < 0: the old object is nil / not a pod *)
      match r with node :: r1 => let '(p, r2) := dpod r1 in (OUpdate now (nn node) p, r2)
                 | [] => (ONop 0, []) end
    else if code =? 5 then
      (* wrap: 0 the pod, 1 tombstone holding the pod, >= 2 tombstone holding / being something else *)
      let '(p, r2) := dpod r in
      ((if hdZ r2 <? 2 then ODelete now p else ONop now), tl r2)
    else if code =? 6 then
      (* upd: 0 add, 1 update, >= 2 the object is not a NodeMetric / a nil one *)
      match r with node :: upd :: r1 => let '(m, r2) := dec_metric r1 in
                                        ((if upd <? 2 then OMetric now node m else ONop now), r2)
                 | _ => (ONop 0, []) end
    else if code =? 7 then
      match r with node :: wrap :: r1 => ((if wrap <? 2 then OMetricDel now node else ONop now), r1)
                 | _ => (ONop 0, []) end
    else if code =? 8 then
      match r with _ :: r1 => let '(nd, r2) := dec_node r1 in
                              let '(p, r3) := dpod r2 in (OFilter now nd p, r3)
                 | [] => (ONop 0, []) end
    else if code =? 10 then
      match r with _ :: r1 => let '(nd, r2) := dec_node r1 in
                              let '(p, r3) := dpod r2 in (OScore now nd p, r3)
                 | [] => (ONop 0, []) end
    else
      (* 9 now kind: a pod event handler called with an object that is not a pod *)
      (ONop now, tl r)
  | _ => (ONop 0, [])
  end.

Definition decode (inp : list Z) : config * list op :=
  let '(cfg, r) := dec_cfg_ext inp in
  (cfg, fst (decode_seq dec_op r)).

(* ---------------------------------------------------------------- observable: print *)
Definition fix2 (v : vec) : list Z := [hd 0 v; hd 0 (tl v)].
Definition flat_sums (s : sums) : list Z :=
  fix2 (s_prodUsage s) ++ fix2 (s_nodeDelta s) ++ fix2 (s_prodDelta s) ++ fix2 (s_nodeEst s).
Definition flat_get (g : option vec) : list Z :=
  match g with Some v => 1 :: fix2 v | None => [0; 0; 0] end.
Definition flat_node (o : option nobs) : list Z :=
  match o with
  | None => [0]
  | Some x =>
    1 :: (match no_detail x with Some _ => 1 | None => 0 end)
      :: Z.of_nat (length (no_uids x)) :: no_uids x ++
    match no_detail x with
    | Some (old, fresh, gets) => flat_sums old ++ flat_sums fresh ++ flat_map flat_get gets
    | None => []
    end
  end.
Definition flat_obs (obs : list opobs) : list Z :=
  flat_map (fun rv => fst rv :: flat_map flat_node (snd rv)) obs.

(* ---------------------------------------------------------------- observable: parse *)
Definition par_vec (l : list Z) : vec * list Z :=
  match l with a :: b :: r => ([a; b], r) | _ => ([], []) end.
Definition par_sums (l : list Z) : sums * list Z :=
  let '(a, r1) := par_vec l in let '(b, r2) := par_vec r1 in
  let '(c, r3) := par_vec r2 in let '(d, r4) := par_vec r3 in (mkS a b c d, r4).
Definition par_get (l : list Z) : option vec * list Z :=
  match l with f :: a :: b :: r => (if zb f then Some [a; b] else None, r) | _ => (None, []) end.
Definition par_node (l : list Z) : option nobs * list Z :=
  match l with
  | ex :: r =>
    if zb ex then
      match r with
      | hasM :: k :: r1 =>
        let '(uids, r2) := take_n (Z.to_nat k) r1 in
        if zb hasM then
          let '(old, r3) := par_sums r2 in
          let '(fresh, r4) := par_sums r3 in
          let '(gets, r5) := decode_many par_get (length variants) r4 in
          (Some (mkNO uids (Some (old, fresh, gets))), r5)
        else (Some (mkNO uids None), r2)
      | _ => (None, [])
      end
    else (None, r)
  | [] => (None, [])
  end.
Definition par_op (l : list Z) : opobs * list Z :=
  match l with
  | res :: r => let '(view, r1) := decode_many par_node (length universe) r in ((res, view), r1)
  | [] => ((0, []), [])
  end.
(* None when the integers are not exactly [n] observations *)
Definition parse_obs (n : nat) (l : list Z) : option (list opobs) :=
  let '(obs, r) := decode_many par_op n l in
  if Nat.eqb (length l) (length (flat_obs obs)) && Nat.eqb (length r) 0 then Some obs else None.

(* ---------------------------------------------------------------- entry points *)
Definition run_case (inp : list Z) : list Z :=
  let '(cfg, ops) := decode inp in flat_obs (run_obs cfg [] ops).

Definition prop_case (inp obs : list Z) : Z :=
  let '(cfg, ops) := decode inp in
  match parse_obs (length ops) obs with
  | Some o => prop_code cfg ops o
  | None => 9
  end.

(* non-trivial: some intermediate state stores a metric together with an estimated pod whose
   estimate is counted (non-zero nodeEstimated), and the history also removes / re-assigns a
   pod or takes a Filter decision *)
Definition op_mutates (o : op) : bool :=
  match o with
  | OUnreserve _ _ _ | OUpdate _ _ _ | ODelete _ _ | OFilter _ _ _ | OMetricDel _ _
  | OScore _ _ _ => true
  | _ => false
  end.
Definition view_live (v : list (option nobs)) : bool :=
  existsb (fun o => match view_detail o with
                    | Some (old, _, _) => negb (vempty (s_nodeEst old))
                    | None => false end) v.
Definition nontrivial_case (inp : list Z) : bool :=
  let '(cfg, ops) := decode inp in
  existsb op_mutates ops && existsb (fun rv => view_live (snd rv)) (run_obs cfg [] ops).

(* no known-finding shape is left for this property (the retained-updateTime defect, formerly
   sig 1, is fixed in /repo 56625eb) *)
Definition finding_sig (inp obs : list Z) : Z := 0.

(* ------------------------------------------------------------------ stream "float" *)
(* direct boundary grid for the two float64 computations.
   INPUT  0 e t thr                           -> [status] of filterNodeUsage on one dimension
          1 prio reqC limC facC reqM limM facM -> [estC estM] of DefaultEstimator.EstimatePod *)
Definition float_run_case (inp : list Z) : list Z :=
  match inp with
  | 0 :: e :: t :: thr :: _ => [if usage_exceeds [thr; 0] [e; 0] [t; 0] then 1 else 0]
  | 1 :: prio :: reqC :: limC :: facC :: reqM :: limM :: facM :: _ =>
    est_list (cls_of_prio prio) est_defaults [reqC; reqM] [limC; limM] [oz facC; oz facM]
  | _ => []
  end.
Fixpoint eq_listZ (a b : list Z) : bool :=
  match a, b with
  | [], [] => true
  | x :: a', y :: b' => (x =? y) && eq_listZ a' b'
  | _, _ => false
  end.
(* the property on this stream: the verdict / the estimate is the one the (proved) float
   emulation gives; 7 = it is not *)
Definition float_prop_case (inp obs : list Z) : Z :=
  if eq_listZ (float_run_case inp) obs then 0 else 7.
Definition float_nontrivial_case (inp : list Z) : bool :=
  match inp with
  | 0 :: e :: t :: thr :: _ => negb (t =? 0) && negb (thr =? 0) && (0 <? e)
  | 1 :: prio :: reqC :: limC :: facC :: reqM :: limM :: facM :: _ =>
    (0 <? reqC + limC + reqM + limM)
  | _ => false
  end.
Definition float_finding_sig (inp obs : list Z) : Z := 0.
