(* C08 — flat-integer wire format: input decoding, observable printing / parsing, and the four
   entry points of the generic OCaml driver (extracted by Extract.v).

   INPUT   cfg(21) nops op*
     cfg : thrC thrM pthrC pthrM  aggOn aggThrC aggThrM aggType aggDur  fexp  expFlag expVal  enab
           incSys allowCustom  ssFlag ssVal siFlag siVal  facC facM
           (map entries: -1 = key absent; fexp/enab: 0 nil, 1 false, 2 true)
     pod(19) : uid key node prio term resv ds reqC reqM limC limM cfC cfM csS csI schS schT iniS iniT
           (times: -999999999 = zero time; condition state 0 absent, 1 not True, 2 True)
     metric : utFlag ut ivFlag iv infoFlag usageC usageM sysC sysM
              nagg {dur ntypes {type flag vC vM}}  npods {key flag vC vM prod}
     node(17) : name allocC allocM rawFlag rawC rawM customFlag cuC cuM cpC cpM
                caggFlag caThrC caThrM caType caDurFlag caDur
     op : 1 now node pod | 2 now node pod | 3 now pod | 4 now oldnode pod | 5 now pod wrap
        | 6 now node upd metric | 7 now node wrap | 8 now pre node pod
   OBSERVABLE  per op:  result, then for node 1..3:
        0                                              (no entry)
      | 1 hasMetric k uid*k [ old(8) fresh(8) {found c m}*8 ]   (bracket iff hasMetric = 1)
     sums are prodUsage nodeDelta prodDelta nodeEstimated, two integers each *)
From Coq Require Import List ZArith Bool.
From Verif Require Import Lib.Wire C08.Model C08.Spec.
Import ListNotations.
Open Scope Z_scope.

Definition oz (z : Z) : option Z := if z <? 0 then None else Some z.
Definition tz (z : Z) : Z := if z =? -999999999 then zero_time else z.
Definition ob3 (z : Z) : option bool := if z =? 0 then None else Some (z =? 2).
Definition fz (f v : Z) : option Z := if zb f then Some v else None.

Definition dec_cfg (l : list Z) : config * list Z :=
  match l with
  | thrC :: thrM :: pthrC :: pthrM :: aggOn :: aggThrC :: aggThrM :: aggType :: aggDur ::
    fexp :: expF :: expV :: enab :: incSys :: allowC :: ssF :: ssV :: siF :: siV ::
    facC :: facM :: r =>
    (mkCfg [oz thrC; oz thrM] [oz pthrC; oz pthrM]
       (if zb aggOn then Some (mkAgg [oz aggThrC; oz aggThrM] aggType aggDur) else None)
       (ob3 fexp) (fz expF expV) (ob3 enab) (zb incSys) (zb allowC)
       (fz ssF ssV) (fz siF siV) [oz facC; oz facM], r)
  | _ => (mkCfg [] [] None None None None false false None None [], [])
  end.

Definition dflt_pod : pod :=
  mkPod 0 0 0 0 false false false [] [] [] (-1) (-1) 0 0 0 0.
Definition dec_pod (l : list Z) : pod * list Z :=
  match l with
  | uid :: key :: node :: prio :: term :: resv :: ds :: reqC :: reqM :: limC :: limM ::
    cfC :: cfM :: csS :: csI :: schS :: schT :: iniS :: iniT :: r =>
    (mkPod uid key node prio (zb term) (zb resv) (zb ds) [reqC; reqM] [limC; limM]
       [oz cfC; oz cfM] csS csI schS (tz schT) iniS (tz iniT), r)
  | _ => (dflt_pod, [])
  end.

Definition dec_tu (l : list Z) : (Z * option vec) * list Z :=
  match l with
  | t :: f :: vC :: vM :: r => ((t, if zb f then Some [vC; vM] else None), r)
  | _ => ((0, None), [])
  end.
(* AggregatedUsage.Usage is a Go map: a later entry of the same type replaces an earlier one *)
Fixpoint dedupe_last (l : list (Z * option vec)) : list (Z * option vec) :=
  match l with
  | [] => []
  | tu :: r => if existsb (fun x => fst x =? fst tu) r then dedupe_last r else tu :: dedupe_last r
  end.
Definition dec_agg (l : list Z) : (Z * list (Z * option vec)) * list Z :=
  match l with
  | d :: r => let '(tus, r') := decode_seq dec_tu r in ((d, dedupe_last tus), r')
  | [] => ((0, []), [])
  end.
Definition dec_pm (l : list Z) : pmetric * list Z :=
  match l with
  | key :: f :: vC :: vM :: prod :: r =>
    (mkPM key (if zb f then Some [vC; vM] else None) (zb prod), r)
  | _ => (mkPM 0 None false, [])
  end.
Definition dec_metric (l : list Z) : metric * list Z :=
  match l with
  | utF :: ut :: ivF :: iv :: infoF :: uC :: uM :: sC :: sM :: r =>
    let '(aggs, r1) := decode_seq dec_agg r in
    let '(pms, r2) := decode_seq dec_pm r1 in
    (mkM (fz utF ut) (fz ivF iv)
         (if zb infoF then Some (mkMI [uC; uM] [sC; sM] aggs) else None) pms, r2)
  | _ => (mkM None None None [], [])
  end.

Definition dec_node (l : list Z) : nodeobj * list Z :=
  match l with
  | name :: aC :: aM :: rawF :: rC :: rM :: cF :: cuC :: cuM :: cpC :: cpM ::
    caF :: caC :: caM :: caT :: caDF :: caD :: r =>
    (mkNode name [aC; aM] (if zb rawF then Some [oz rC; oz rM] else None)
       (if zb cF then
          Some ([oz cuC; oz cuM], [oz cpC; oz cpM],
                if zb caF then Some ([oz caC; oz caM], caT, fz caDF caD) else None)
        else None), r)
  | _ => (mkNode 0 [] None None, [])
  end.

Definition dec_op (l : list Z) : op * list Z :=
  match l with
  | code :: now :: r =>
    if code =? 1 then
      match r with node :: r1 => let '(p, r2) := dec_pod r1 in (OReserve now node p, r2)
                 | [] => (OMetricDel 0 0, []) end
    else if code =? 2 then
      match r with node :: r1 => let '(p, r2) := dec_pod r1 in (OUnreserve now node p, r2)
                 | [] => (OMetricDel 0 0, []) end
    else if code =? 3 then let '(p, r2) := dec_pod r in (OAdd now p, r2)
    else if code =? 4 then
      match r with node :: r1 => let '(p, r2) := dec_pod r1 in (OUpdate now node p, r2)
                 | [] => (OMetricDel 0 0, []) end
    else if code =? 5 then let '(p, r2) := dec_pod r in (ODelete now p, tl r2)
    else if code =? 6 then
      match r with node :: _ :: r1 => let '(m, r2) := dec_metric r1 in (OMetric now node m, r2)
                 | _ => (OMetricDel 0 0, []) end
    else if code =? 7 then
      match r with node :: _ :: r1 => (OMetricDel now node, r1) | _ => (OMetricDel 0 0, []) end
    else
      match r with _ :: r1 => let '(nd, r2) := dec_node r1 in
                              let '(p, r3) := dec_pod r2 in (OFilter now nd p, r3)
                 | [] => (OMetricDel 0 0, []) end
  | _ => (OMetricDel 0 0, [])
  end.

Definition decode (inp : list Z) : config * list op :=
  let '(cfg, r) := dec_cfg inp in
  (cfg, fst (decode_seq dec_op r)).

(* ---------------------------------------------------------------- observable: print *)
Definition fix2 (v : vec) : list Z := [hd 0 v; hd 0 (tl v)].
Definition flat_sums (s : sums) : list Z :=
  fix2 (s_prodUsage s) ++ fix2 (s_nodeDelta s) ++ fix2 (s_prodDelta s) ++ fix2 (s_nodeEst s).
Definition flat_get (g : option vec) : list Z :=
  match g with Some v => 1 :: fix2 v | None => [0; 0; 0] end.
Definition flat_node (o : option nobs) : list Z :=
  match o with
  | None => [0]
  | Some x =>
    1 :: (match no_detail x with Some _ => 1 | None => 0 end)
      :: Z.of_nat (length (no_uids x)) :: no_uids x ++
    match no_detail x with
    | Some (old, fresh, gets) => flat_sums old ++ flat_sums fresh ++ flat_map flat_get gets
    | None => []
    end
  end.
Definition flat_obs (obs : list opobs) : list Z :=
  flat_map (fun rv => fst rv :: flat_map flat_node (snd rv)) obs.

(* ---------------------------------------------------------------- observable: parse *)
Definition par_vec (l : list Z) : vec * list Z :=
  match l with a :: b :: r => ([a; b], r) | _ => ([], []) end.
Definition par_sums (l : list Z) : sums * list Z :=
  let '(a, r1) := par_vec l in let '(b, r2) := par_vec r1 in
  let '(c, r3) := par_vec r2 in let '(d, r4) := par_vec r3 in (mkS a b c d, r4).
Definition par_get (l : list Z) : option vec * list Z :=
  match l with f :: a :: b :: r => (if zb f then Some [a; b] else None, r) | _ => (None, []) end.
Definition par_node (l : list Z) : option nobs * list Z :=
  match l with
  | ex :: r =>
    if zb ex then
      match r with
      | hasM :: k :: r1 =>
        let '(uids, r2) := take_n (Z.to_nat k) r1 in
        if zb hasM then
          let '(old, r3) := par_sums r2 in
          let '(fresh, r4) := par_sums r3 in
          let '(gets, r5) := decode_many par_get (length variants) r4 in
          (Some (mkNO uids (Some (old, fresh, gets))), r5)
        else (Some (mkNO uids None), r2)
      | _ => (None, [])
      end
    else (None, r)
  | [] => (None, [])
  end.
Definition par_op (l : list Z) : opobs * list Z :=
  match l with
  | res :: r => let '(view, r1) := decode_many par_node (length universe) r in ((res, view), r1)
  | [] => ((0, []), [])
  end.
(* None when the integers are not exactly [n] observations *)
Definition parse_obs (n : nat) (l : list Z) : option (list opobs) :=
  let '(obs, r) := decode_many par_op n l in
  if Nat.eqb (length l) (length (flat_obs obs)) && Nat.eqb (length r) 0 then Some obs else None.

(* ---------------------------------------------------------------- entry points *)
Definition run_case (inp : list Z) : list Z :=
  let '(cfg, ops) := decode inp in flat_obs (run_obs cfg [] ops).

Definition prop_case (inp obs : list Z) : Z :=
  let '(cfg, ops) := decode inp in
  match parse_obs (length ops) obs with
  | Some o => prop_code cfg ops o
  | None => 9
  end.

(* non-trivial: some intermediate state stores a metric together with an estimated pod whose
   estimate is counted (non-zero nodeEstimated), and the history also removes / re-assigns a
   pod or takes a Filter decision *)
Definition op_mutates (o : op) : bool :=
  match o with
  | OUnreserve _ _ _ | OUpdate _ _ _ | ODelete _ _ | OFilter _ _ _ | OMetricDel _ _ => true
  | _ => false
  end.
Definition view_live (v : list (option nobs)) : bool :=
  existsb (fun o => match view_detail o with
                    | Some (old, _, _) => negb (vempty (s_nodeEst old))
                    | None => false end) v.
Definition nontrivial_case (inp : list Z) : bool :=
  let '(cfg, ops) := decode inp in
  existsb op_mutates ops && existsb (fun rv => view_live (snd rv)) (run_obs cfg [] ops).

(* no known-finding shape is left for this property (the retained-updateTime defect, formerly
   sig 1, is fixed in /repo 56625eb) *)
Definition finding_sig (inp obs : list Z) : Z := 0.

(* ------------------------------------------------------------------ stream "float" *)
(* direct boundary grid for the two float64 computations.
   INPUT  0 e t thr                           -> [status] of filterNodeUsage on one dimension
          1 prio reqC limC facC reqM limM facM -> [estC estM] of DefaultEstimator.EstimatePod *)
Definition float_run_case (inp : list Z) : list Z :=
  match inp with
  | 0 :: e :: t :: thr :: _ => [if usage_exceeds [thr; 0] [e; 0] [t; 0] then 1 else 0]
  | 1 :: prio :: reqC :: limC :: facC :: reqM :: limM :: facM :: _ =>
    est_list (cls_of_prio prio) est_defaults [reqC; reqM] [limC; limM] [oz facC; oz facM]
  | _ => []
  end.
Fixpoint eq_listZ (a b : list Z) : bool :=
  match a, b with
  | [], [] => true
  | x :: a', y :: b' => (x =? y) && eq_listZ a' b'
  | _, _ => false
  end.
(* the property on this stream: the verdict / the estimate is the one the (proved) float
   emulation gives; 7 = it is not *)
Definition float_prop_case (inp obs : list Z) : Z :=
  if eq_listZ (float_run_case inp) obs then 0 else 7.
Definition float_nontrivial_case (inp : list Z) : bool :=
  match inp with
  | 0 :: e :: t :: thr :: _ => negb (t =? 0) && negb (thr =? 0) && (0 <? e)
  | 1 :: prio :: reqC :: limC :: facC :: reqM :: limM :: facM :: _ =>
    (0 <? reqC + limC + reqM + limM)
  | _ => false
  end.
Definition float_finding_sig (inp obs : list Z) : Z := 0.
