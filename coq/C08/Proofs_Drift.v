(* C08 — the no-drift invariant: after ANY history the sums cached for a node are exactly what
   AddOrUpdateNodeMetric would compute from scratch from the node's current report and pods. *)
From Coq Require Import List ZArith Bool Lia Permutation.
From Verif Require Import C08.Model C08.Spec C08.Proofs.
Import ListNotations.
Open Scope Z_scope.

(* ------------------------------------------------------------------ stored pod infos *)
Lemma pod_timestamp_idem now p : pod_timestamp (pod_timestamp now p) p = pod_timestamp now p.
Proof.
  unfold pod_timestamp.
  destruct ((p_sch_s p =? 2) && negb (p_sch_t p =? zero_time)); reflexivity.
Qed.

Lemma mk_pinfo_idem cfg now p :
  mk_pinfo cfg (pi_ts (mk_pinfo cfg now p)) (pi_pod (mk_pinfo cfg now p)) = mk_pinfo cfg now p.
Proof. unfold mk_pinfo. cbn [pi_ts pi_pod]. now rewrite pod_timestamp_idem. Qed.

(* an entry of podInfos is filed under its pod's uid and is what assign computes for that pod
   when the clock shows the recorded timestamp *)
Definition canon (cfg : config) (up : Z * pinfo) : Prop :=
  fst up = p_uid (pi_pod (snd up))
  /\ mk_pinfo cfg (pi_ts (snd up)) (pi_pod (snd up)) = snd up
  /\ terminated (pi_pod (snd up)) = false /\ p_resv (pi_pod (snd up)) = false.

Definition ninfo_ok (cfg : config) (n : ninfo) : Prop :=
  NoDup (map fst (n_pods n))
  /\ Forall (canon cfg) (n_pods n)
  /\ (forall m, n_metric n = Some m ->
        n_sums n = rebuild cfg m (n_ut n) (n_pods n)
        /\ n_ut n = fresh_ut m).

Definition cache_ok (cfg : config) (c : cache) : Prop :=
  forall k n, alookup k c = Some n -> ninfo_ok cfg n.

Lemma new_ninfo_ok cfg : ninfo_ok cfg new_ninfo.
Proof. repeat split; cbn; try constructor; discriminate. Qed.

Lemma cache_ok_nil cfg : cache_ok cfg [].
Proof. intros k n H. discriminate. Qed.

Lemma get_node_ok cfg c k : cache_ok cfg c -> ninfo_ok cfg (get_node c k).
Proof.
  intro H. unfold get_node. destruct (alookup k c) eqn:E; [eapply H; eassumption|apply new_ninfo_ok].
Qed.

Lemma cache_ok_aset cfg c k n : cache_ok cfg c -> ninfo_ok cfg n -> cache_ok cfg (aset k n c).
Proof.
  intros Hc Hn k' n'. rewrite alookup_aset. destruct (k =? k').
  - intro H. injection H as <-. exact Hn.
  - apply Hc.
Qed.

Lemma cache_ok_aremove cfg c k : cache_ok cfg c -> cache_ok cfg (aremove k c).
Proof.
  intros Hc k' n'. rewrite alookup_aremove. destruct (k =? k'); [discriminate|apply Hc].
Qed.

Lemma put_or_cleanup_ok cfg c k n :
  cache_ok cfg c -> ninfo_ok cfg n -> cache_ok cfg (put_or_cleanup c k n).
Proof.
  intros Hc Hn. unfold put_or_cleanup.
  destruct (n_metric n); [now apply cache_ok_aset|].
  destruct (n_pods n); [now apply cache_ok_aremove|now apply cache_ok_aset].
Qed.

Lemma nodup_mid_notin {A} (k : Z) (a : A) l1 l2 :
  NoDup (map fst (l1 ++ (k, a) :: l2)) -> ~ In k (map fst l2).
Proof.
  rewrite map_app. cbn [map fst]. intro H. apply NoDup_remove_2 in H.
  intro Hin. apply H. apply in_or_app. now right.
Qed.

(* ------------------------------------------------------------------ assign *)
Lemma assign_ok cfg now node p c : cache_ok cfg c -> cache_ok cfg (assign cfg now node p c).
Proof.
  intro Hc. unfold assign.
  destruct ((node =? 0) || terminated p || p_resv p) eqn:Eg; [exact Hc|].
  apply orb_false_elim in Eg. destruct Eg as [Eg Eresv].
  apply orb_false_elim in Eg. destruct Eg as [_ Eterm].
  apply cache_ok_aset; [exact Hc|].
  pose proof (get_node_ok cfg c node Hc) as (Hnd & Hcan & Hs).
  set (n := get_node c node) in *.
  set (pi := mk_pinfo cfg now p).
  split; [|split]; cbn [n_pods n_metric n_ut n_sums].
  - now apply aset_nodup.
  - apply Forall_forall. intros x Hx. apply aset_in_values in Hx. destruct Hx as [->|Hx].
    + split; [reflexivity|]. cbn [snd]. split; [apply mk_pinfo_idem|]. now split.
    + rewrite Forall_forall in Hcan. now apply Hcan.
  - intros m Hm. destruct (Hs m Hm) as [Hsum Hut]. split; [|exact Hut].
    rewrite Hm. rewrite !rebuild_addall in *.
    destruct (alookup (p_uid p) (n_pods n)) as [o|] eqn:Eo.
    + destruct (alookup_split _ _ _ Eo) as (l1 & l2 & Hl & Hn1).
      rewrite Hl in *. rewrite (aset_mid _ _ _ _ _ Hn1).
      rewrite Hsum. rewrite !addall_mid. cbn [snd]. now rewrite sums_sub_add.
    + apply alookup_none_notin in Eo. rewrite (aset_notin _ _ _ Eo).
      rewrite addall_snoc. cbn [snd]. now rewrite Hsum.
Qed.

(* ------------------------------------------------------------------ unassign *)
Lemma unassign_ok cfg node uid c : cache_ok cfg c -> cache_ok cfg (unassign node uid c).
Proof.
  intro Hc. unfold unassign.
  destruct (node =? 0); [exact Hc|].
  destruct (alookup node c) as [n|] eqn:En; [|exact Hc].
  apply put_or_cleanup_ok; [exact Hc|].
  destruct (Hc _ _ En) as (Hnd & Hcan & Hs).
  split; [|split]; cbn [n_pods n_metric n_ut n_sums].
  - now apply aremove_nodup.
  - apply Forall_forall. intros x Hx. apply aremove_in_values in Hx.
    rewrite Forall_forall in Hcan. now apply Hcan.
  - intros m Hm. destruct (Hs m Hm) as [Hsum Hut]. split; [|exact Hut].
    rewrite Hm. rewrite !rebuild_addall in *.
    destruct (alookup uid (n_pods n)) as [o|] eqn:Eo.
    + destruct (alookup_split _ _ _ Eo) as (l1 & l2 & Hl & Hn1).
      rewrite Hl in *. pose proof (nodup_mid_notin _ _ _ _ Hnd) as Hn2.
      rewrite (aremove_mid _ _ _ _ Hn1 Hn2).
      rewrite Hsum. rewrite addall_mid. cbn [snd]. now rewrite sums_sub_add.
    + apply alookup_none_notin in Eo. rewrite (aremove_notin _ _ Eo). exact Hsum.
Qed.

(* ------------------------------------------------------------------ metric events *)
Lemma set_metric_ok cfg node m c : cache_ok cfg c -> cache_ok cfg (set_metric cfg node m c).
Proof.
  intro Hc. unfold set_metric.
  apply cache_ok_aset; [exact Hc|].
  pose proof (get_node_ok cfg c node Hc) as (Hnd & Hcan & Hs).
  split; [|split]; cbn [n_pods n_metric n_ut n_sums]; [exact Hnd|exact Hcan|].
  intros m0 Hm0. injection Hm0 as <-. split; reflexivity.
Qed.

Lemma del_metric_ok cfg node c : cache_ok cfg c -> cache_ok cfg (del_metric node c).
Proof.
  intro Hc. unfold del_metric.
  destruct (alookup node c) as [n|] eqn:En; [|exact Hc].
  apply put_or_cleanup_ok; [exact Hc|].
  destruct (Hc _ _ En) as (Hnd & Hcan & Hs).
  split; [|split]; cbn [n_pods n_metric n_ut n_sums]; [exact Hnd|exact Hcan|discriminate].
Qed.

Lemma on_update_ok cfg now old_node p c :
  cache_ok cfg c -> cache_ok cfg (on_update cfg now old_node p c).
Proof.
  intro Hc. unfold on_update.
  set (c1 := if negb (old_node =? 0) && negb (old_node =? p_node p)
             then unassign old_node (p_uid p) c else c).
  assert (Hc1 : cache_ok cfg c1).
  { unfold c1. destruct (negb (old_node =? 0) && negb (old_node =? p_node p));
      [now apply unassign_ok|exact Hc]. }
  destruct (pod_info c1 (p_node p) (p_uid p)) as [o|]; [|now apply assign_ok].
  destruct (terminated p); [now apply unassign_ok|].
  destruct (negb (spec_eqb p (pi_pod o)) || negb (cond_eqb p (pi_pod o)));
    [now apply assign_ok|exact Hc1].
Qed.

Lemma step_ok cfg c o : cache_ok cfg c -> cache_ok cfg (step cfg c o).
Proof.
  intro Hc. destruct o; cbn [step].
  - now apply assign_ok.
  - now apply unassign_ok.
  - now apply assign_ok.
  - now apply on_update_ok.
  - now apply unassign_ok.
  - now apply set_metric_ok.
  - now apply del_metric_ok.
  - exact Hc.
  - exact Hc.
  - exact Hc.
Qed.

Lemma run_from_ok cfg ops c : cache_ok cfg c -> cache_ok cfg (fold_left (step cfg) ops c).
Proof.
  revert c. induction ops as [|o ops IH]; intros c Hc; [exact Hc|].
  cbn [fold_left]. apply IH. now apply step_ok.
Qed.

Lemma run_ok cfg ops : cache_ok cfg (run cfg ops).
Proof. apply run_from_ok, cache_ok_nil. Qed.

(* ------------------------------------------------------------------ the theorems *)
(* no drift: cached sums = from-scratch rebuild, after every history *)
Lemma no_drift cfg ops node n m :
  alookup node (run cfg ops) = Some n -> n_metric n = Some m ->
  n_sums n = rebuild cfg m (n_ut n) (n_pods n).
Proof.
  intros Hn Hm. destruct (run_ok cfg ops _ _ Hn) as (_ & _ & Hs). now apply Hs.
Qed.

(* deletePod is the exact inverse of addPod under an unchanged metric, updatePod = delete old +
   add new (the two algebraic facts the invariant rests on) *)
Lemma delete_inverts_add m ut s pi : sums_sub (sums_add s (contrib m ut pi)) (contrib m ut pi) = s.
Proof. apply sums_sub_add. Qed.

(* the from-scratch computation does not depend on the order the pods are visited in (Go map
   iteration order) *)
Lemma rebuild_perm cfg m ut pods pods' :
  Permutation pods pods' -> rebuild cfg m ut pods = rebuild cfg m ut pods'.
Proof. intro H. rewrite !rebuild_addall. now apply addall_perm. Qed.

(* re-assigning the stored pods (clock at their recorded timestamps) reproduces the stored infos *)
Lemma refeed_id cfg pods : Forall (canon cfg) pods -> refeed cfg pods = pods.
Proof.
  induction 1 as [|[u pi] l (_ & Hx & _) _ IH]; [reflexivity|].
  cbn [refeed map fst snd] in *. fold (refeed cfg l). rewrite IH. now rewrite Hx.
Qed.

(* the fresh cache fed the current report and pods holds the same sums *)
Lemma ninfo_fresh_equal cfg n m :
  ninfo_ok cfg n -> n_metric n = Some m -> fresh_sums cfg n = n_sums n.
Proof.
  intros (_ & Hcan & Hs) Hm.
  destruct (Hs m Hm) as [Hsum Hu].
  unfold fresh_sums. now rewrite Hm, (refeed_id _ _ Hcan), Hsum, Hu.
Qed.

Lemma fresh_equal cfg ops node n m :
  alookup node (run cfg ops) = Some n -> n_metric n = Some m ->
  fresh_sums cfg n = n_sums n.
Proof. intros Hn. apply ninfo_fresh_equal. eapply run_ok; eassumption. Qed.
