(* C08 — the fresh cache as a history: feeding an empty cache the node's current report and its
   current pods (in either order) reaches the same sums and the same estimates. *)
From Coq Require Import List ZArith Bool Lia.
From Verif Require Import C08.Model C08.Spec C08.Proofs C08.Proofs_Drift.
Import ListNotations.
Open Scope Z_scope.

(* re-assign a stored pod with the clock at its recorded timestamp *)
Definition reserve_op (node : Z) (up : Z * pinfo) : op :=
  OReserve (pi_ts (snd up)) node (pi_pod (snd up)).
Definition feed_metric_first (node : Z) (m : metric) (pods : list (Z * pinfo)) : list op :=
  OMetric 0 node m :: map (reserve_op node) pods.
Definition feed_pods_first (node : Z) (m : metric) (pods : list (Z * pinfo)) : list op :=
  map (reserve_op node) pods ++ [OMetric 0 node m].

Lemma get_node_aset c k n : get_node (aset k n c) k = n.
Proof. unfold get_node. now rewrite alookup_aset, Z.eqb_refl. Qed.

Lemma feed_pods_table cfg node rest :
  node <> 0 -> forall acc c,
  n_pods (get_node c node) = acc ->
  NoDup (map fst (acc ++ rest)) -> Forall (canon cfg) rest ->
  let c' := fold_left (step cfg) (map (reserve_op node) rest) c in
  n_pods (get_node c' node) = acc ++ rest
  /\ n_metric (get_node c' node) = n_metric (get_node c node)
  /\ n_ut (get_node c' node) = n_ut (get_node c node).
Proof.
  intro Hnode. induction rest as [|[u pi] rest IH]; intros acc c Hacc Hnd Hcan.
  - cbn. rewrite app_nil_r. tauto.
  - apply Forall_cons_iff in Hcan. destruct Hcan as [(Hu & Hmk & Ht & Hr) Hcan']. cbn [fst snd] in *.
    cbn [map fold_left]. unfold reserve_op at 2. cbn [snd step].
    set (c1 := assign cfg (pi_ts pi) node (pi_pod pi) c).
    assert (Hc1 : get_node c1 node
                  = mkN (acc ++ [(u, pi)]) (n_metric (get_node c node)) (n_ut (get_node c node))
                        (n_sums (get_node c1 node))).
    { unfold c1, assign. apply Z.eqb_neq in Hnode. rewrite Hnode, Ht, Hr. cbn [orb].
      rewrite get_node_aset. cbn [n_sums]. rewrite Hmk, Hacc, <- Hu.
      rewrite aset_notin; [reflexivity|].
      rewrite map_app in Hnd. cbn [map fst] in Hnd. apply NoDup_remove_2 in Hnd.
      intro Hin. apply Hnd. apply in_or_app. now left. }
    specialize (IH (acc ++ [(u, pi)]) c1).
    rewrite Hc1 in IH. cbn [n_pods n_metric n_ut] in IH.
    rewrite <- app_assoc in IH. cbn [app] in IH.
    apply IH; [reflexivity|exact Hnd|exact Hcan'].
Qed.

(* a node entry holding a metric is really in the cache *)
Lemma get_node_metric_lookup c k m :
  n_metric (get_node c k) = Some m -> alookup k c = Some (get_node c k).
Proof. unfold get_node. destruct (alookup k c); [reflexivity|discriminate]. Qed.

Lemma fed_metric_first cfg node m pods :
  node <> 0 -> NoDup (map fst pods) -> Forall (canon cfg) pods ->
  let n' := get_node (run cfg (feed_metric_first node m pods)) node in
  alookup node (run cfg (feed_metric_first node m pods)) = Some n'
  /\ n_pods n' = pods /\ n_metric n' = Some m /\ n_ut n' = fresh_ut m
  /\ n_sums n' = rebuild cfg m (fresh_ut m) pods.
Proof.
  intros Hnode Hnd Hcan. unfold run, feed_metric_first. cbn [fold_left step].
  set (c0 := set_metric cfg node m []).
  assert (H0 : get_node c0 node = mkN [] (Some m) (fresh_ut m) (rebuild cfg m (fresh_ut m) [])).
  { unfold c0, set_metric. rewrite get_node_aset. unfold get_node. cbn [alookup new_ninfo n_pods n_ut].
    unfold fresh_ut. reflexivity. }
  destruct (feed_pods_table cfg node pods Hnode [] c0) as (Hp & Hm & Hu);
    [now rewrite H0|exact Hnd|exact Hcan|].
  rewrite H0 in Hm, Hu. cbn [n_metric n_ut app] in *.
  set (c' := fold_left (step cfg) (map (reserve_op node) pods) c0) in *.
  pose proof (get_node_metric_lookup c' node m Hm) as Hl.
  repeat split; try assumption.
  pose proof (no_drift cfg (feed_metric_first node m pods) node _ m Hl Hm) as Hd.
  rewrite Hd, Hu, Hp. reflexivity.
Qed.

Lemma fed_pods_first cfg node m pods :
  node <> 0 -> NoDup (map fst pods) -> Forall (canon cfg) pods ->
  let n' := get_node (run cfg (feed_pods_first node m pods)) node in
  alookup node (run cfg (feed_pods_first node m pods)) = Some n'
  /\ n_pods n' = pods /\ n_metric n' = Some m /\ n_ut n' = fresh_ut m
  /\ n_sums n' = rebuild cfg m (fresh_ut m) pods.
Proof.
  intros Hnode Hnd Hcan. unfold run, feed_pods_first. rewrite fold_left_app. cbn [fold_left step].
  destruct (feed_pods_table cfg node pods Hnode [] []) as (Hp & Hm & Hu);
    [reflexivity|exact Hnd|exact Hcan|].
  set (c1 := fold_left (step cfg) (map (reserve_op node) pods) []) in *.
  cbn [app] in Hp. unfold get_node at 2 in Hm. unfold get_node at 2 in Hu.
  cbn [alookup new_ninfo n_metric n_ut] in Hm, Hu.
  unfold set_metric. rewrite get_node_aset. cbn [n_pods n_metric n_ut n_sums].
  rewrite alookup_aset, Z.eqb_refl, Hp.
  repeat split; reflexivity.
Qed.

(* c08_fresh_cache_equal *)
Lemma fresh_cache_equal cfg ops node n m :
  node <> 0 ->
  alookup node (run cfg ops) = Some n -> n_metric n = Some m ->
  forall feed, (feed = feed_metric_first \/ feed = feed_pods_first) ->
  exists n', alookup node (run cfg (feed node m (n_pods n))) = Some n'
    /\ n_pods n' = n_pods n /\ n_metric n' = Some m /\ n_sums n' = n_sums n
    /\ (forall prod t d, get_est n' prod t d = get_est n prod t d).
Proof.
  intros Hnode Hn Hm feed Hfeed.
  destruct (run_ok cfg ops _ _ Hn) as (Hnd & Hcan & Hs).
  destruct (Hs m Hm) as [Hsum Hfu].
  assert (Hfed : let n' := get_node (run cfg (feed node m (n_pods n))) node in
     alookup node (run cfg (feed node m (n_pods n))) = Some n'
     /\ n_pods n' = n_pods n /\ n_metric n' = Some m /\ n_ut n' = fresh_ut m
     /\ n_sums n' = rebuild cfg m (fresh_ut m) (n_pods n)).
  { destruct Hfeed as [->| ->]; [now apply fed_metric_first|now apply fed_pods_first]. }
  cbn zeta in Hfed. destruct Hfed as (Hl & Hp & Hm' & Hu' & Hs').
  eexists. split; [exact Hl|]. split; [exact Hp|]. split; [exact Hm'|].
  assert (Heq : n_sums (get_node (run cfg (feed node m (n_pods n))) node) = n_sums n).
  { now rewrite Hs', Hsum, Hfu. }
  split; [exact Heq|].
  intros prod t d. unfold get_est. now rewrite Hm', Hm, Heq.
Qed.
