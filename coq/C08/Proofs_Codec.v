(* C08 — the wire format round-trips on the model's observations, so the main theorem can be
   stated on exactly what the driver evaluates: prop_case inp (run_case inp) = 0. *)
From Coq Require Import List ZArith Bool Lia.
From Verif Require Import Lib.Wire C08.Model C08.Spec C08.Codec C08.Proofs C08.Proofs_Drift C08.Proofs_Main.
Import ListNotations.
Open Scope Z_scope.

(* ------------------------------------------------------------------ well-formed observations *)
Definition vwf (v : vec) : Prop := length v = dims.
Definition sums_wf (s : sums) : Prop :=
  vwf (s_prodUsage s) /\ vwf (s_nodeDelta s) /\ vwf (s_prodDelta s) /\ vwf (s_nodeEst s).
Definition get_wf (g : option vec) : Prop := match g with Some v => vwf v | None => True end.
Definition nobs_wf (o : option nobs) : Prop :=
  match o with
  | None => True
  | Some x => match no_detail x with
              | None => True
              | Some (old, fresh, gets) =>
                sums_wf old /\ sums_wf fresh /\ length gets = length variants /\ Forall get_wf gets
              end
  end.
Definition opobs_wf (rv : opobs) : Prop :=
  length (snd rv) = length universe /\ Forall nobs_wf (snd rv).

(* ------------------------------------------------------------------ parse after print *)
Lemma par_vec_flat v r : vwf v -> par_vec (fix2 v ++ r) = (v, r).
Proof.
  unfold vwf, dims. destruct v as [|a [|b [|c v]]]; cbn; try discriminate. reflexivity.
Qed.

Lemma par_sums_flat s r : sums_wf s -> par_sums (flat_sums s ++ r) = (s, r).
Proof.
  intros (H1 & H2 & H3 & H4). unfold par_sums, flat_sums.
  rewrite <- !app_assoc.
  rewrite (par_vec_flat _ _ H1), (par_vec_flat _ _ H2), (par_vec_flat _ _ H3), (par_vec_flat _ _ H4).
  now destruct s.
Qed.

Lemma par_get_flat g r : get_wf g -> par_get (flat_get g ++ r) = (g, r).
Proof.
  destruct g as [v|]; cbn [get_wf flat_get].
  - unfold vwf, dims. destruct v as [|a [|b [|c v]]]; cbn; try discriminate. reflexivity.
  - reflexivity.
Qed.

Lemma decode_many_flat {A} (par : list Z -> A * list Z) (flat : A -> list Z) (wf : A -> Prop) :
  (forall a r, wf a -> par (flat a ++ r) = (a, r)) ->
  forall l r, Forall wf l -> decode_many par (length l) (flat_map flat l ++ r) = (l, r).
Proof.
  intros Hpar l. induction l as [|a l IH]; intros r Hl; [reflexivity|].
  inversion Hl as [|? ? Ha Hl']; subst.
  cbn [length flat_map decode_many]. rewrite <- app_assoc, (Hpar _ _ Ha), (IH _ Hl'). reflexivity.
Qed.

Lemma take_n_app (l r : list Z) : take_n (Z.to_nat (Z.of_nat (length l))) (l ++ r) = (l, r).
Proof.
  rewrite Nat2Z.id. unfold take_n. f_equal.
  - rewrite firstn_app, Nat.sub_diag, firstn_all. cbn. apply app_nil_r.
  - rewrite skipn_app, Nat.sub_diag, skipn_all. reflexivity.
Qed.

Lemma par_node_flat o r : nobs_wf o -> par_node (flat_node o ++ r) = (o, r).
Proof.
  destruct o as [[uids det]|]; cbn [nobs_wf no_detail flat_node]; [|reflexivity].
  intro Hwf. cbn [app par_node]. change (zb 1) with true. cbn iota.
  rewrite <- app_assoc, take_n_app.
  destruct det as [[[old fresh] gets]|].
  - destruct Hwf as (Ho & Hf & Hl & Hg). change (zb 1) with true. cbn iota.
    rewrite <- !app_assoc, (par_sums_flat _ _ Ho), (par_sums_flat _ _ Hf).
    rewrite <- Hl, (decode_many_flat par_get flat_get get_wf par_get_flat _ _ Hg). reflexivity.
  - change (zb 0) with false. cbn iota. now rewrite app_nil_l.
Qed.

Definition flat_op (rv : opobs) : list Z := fst rv :: flat_map flat_node (snd rv).

Lemma par_op_flat rv r : opobs_wf rv -> par_op (flat_op rv ++ r) = (rv, r).
Proof.
  destruct rv as [res view]. intros [Hl Hv]. cbn [fst snd] in *. unfold flat_op. cbn [fst snd app par_op].
  rewrite <- Hl, (decode_many_flat par_node flat_node nobs_wf par_node_flat _ _ Hv). reflexivity.
Qed.

Lemma flat_obs_eq obs : flat_obs obs = flat_map flat_op obs.
Proof. reflexivity. Qed.

Lemma parse_flat obs : Forall opobs_wf obs -> parse_obs (length obs) (flat_obs obs) = Some obs.
Proof.
  intro H. unfold parse_obs.
  assert (Hd : decode_many par_op (length obs) (flat_obs obs) = (obs, [])).
  { rewrite flat_obs_eq. rewrite <- (app_nil_r (flat_map flat_op obs)).
    apply (decode_many_flat par_op flat_op opobs_wf par_op_flat _ _ H). }
  rewrite Hd. now rewrite Nat.eqb_refl.
Qed.

(* ------------------------------------------------------------------ the model's observations are well-formed *)
Lemma vwf_vadd v y : vwf v -> vwf (vadd v y).
Proof. unfold vwf, vadd. now rewrite vzip_length. Qed.
Lemma vwf_vzero : vwf vzero.
Proof. reflexivity. Qed.

Lemma sums_wf_add s c : sums_wf s -> sums_wf (sums_add s c).
Proof. intros (H1 & H2 & H3 & H4). repeat split; cbn; now apply vwf_vadd. Qed.

Lemma addall_wf f l b : sums_wf b -> sums_wf (addall f l b).
Proof.
  revert b. induction l as [|p l IH]; intros b Hb; [exact Hb|].
  cbn [addall fold_left]. apply IH. now apply sums_wf_add.
Qed.

Lemma rebuild_wf cfg m ut pods : sums_wf (rebuild cfg m ut pods).
Proof.
  rewrite rebuild_addall. apply addall_wf. unfold base_sums.
  split; [|repeat split; apply vwf_vzero]. cbn [s_prodUsage].
  destruct (m_info m); [|apply vwf_vzero]. destruct (c_include_sys cfg); [|apply vwf_vzero].
  apply vwf_vadd, vwf_vzero.
Qed.

Lemma est_of_wf m s prod t d : vwf (est_of m s prod t d).
Proof.
  unfold est_of. destruct prod; [apply vwf_vadd, vwf_vadd, vwf_vzero|].
  destruct (if t =? 0 then node_usage m else target_agg m t d);
    [apply vwf_vadd, vwf_vadd, vwf_vzero|apply vwf_vadd, vwf_vzero].
Qed.

Lemma observe_node_wf cfg c k : cache_ok cfg c -> nobs_wf (observe_node cfg c k).
Proof.
  intro Hc. unfold observe_node. destruct (alookup k c) as [n|] eqn:En; [|exact I].
  cbn [nobs_wf no_detail]. destruct (n_metric n) as [m|] eqn:Em; [|exact I].
  destruct (Hc _ _ En) as (_ & _ & Hs). destruct (Hs m Em) as [Hsum _].
  split; [rewrite Hsum; apply rebuild_wf|].
  split; [unfold fresh_sums; rewrite Em; apply rebuild_wf|].
  split; [now rewrite map_length|].
  apply Forall_forall. intros g Hg. apply in_map_iff in Hg. destruct Hg as (v & <- & _).
  unfold get_est. rewrite Em. cbn [get_wf]. apply est_of_wf.
Qed.

Lemma run_obs_wf cfg ops c : cache_ok cfg c -> Forall opobs_wf (run_obs cfg c ops).
Proof.
  revert c. induction ops as [|o ops IH]; intros c Hc; [constructor|].
  cbn [run_obs]. assert (Hc' : cache_ok cfg (step cfg c o)) by now apply step_ok.
  constructor; [|now apply IH].
  split; cbn [snd]; unfold observe; [now rewrite map_length|].
  apply Forall_forall. intros x Hx. apply in_map_iff in Hx. destruct Hx as (k & <- & _).
  now apply observe_node_wf.
Qed.

Lemma run_obs_length cfg ops c : length (run_obs cfg c ops) = length ops.
Proof. revert c. induction ops as [|o ops IH]; intro c; cbn [run_obs length]; [reflexivity|]. now rewrite IH. Qed.

(* ------------------------------------------------------------------ MAIN, on the wire *)
(* what the driver evaluates on the model's own output: for EVERY input, prop_case accepts
   run_case *)
Lemma prop_case_model inp : prop_case inp (run_case inp) = 0.
Proof.
  unfold prop_case, run_case. destruct (decode inp) as [cfg ops].
  rewrite <- (run_obs_length cfg ops []) at 1.
  rewrite parse_flat by (apply run_obs_wf, cache_ok_nil).
  apply prop_code_model.
Qed.

(* an implementation observable accepted by prop_case satisfies the property *)
Lemma prop_case_sound inp obs :
  prop_case inp obs = 0 ->
  exists o, parse_obs (length (snd (decode inp))) obs = Some o
            /\ C08_holds (fst (decode inp)) (snd (decode inp)) o.
Proof.
  unfold prop_case. destruct (decode inp) as [cfg ops]. cbn [fst snd].
  destruct (parse_obs (length ops) obs) as [o|]; [|discriminate].
  intro H. exists o. split; [reflexivity|]. now apply prop_code_sound.
Qed.

(* stream "float": the decision procedure accepts the model's own output *)
Lemma eq_listZ_refl l : eq_listZ l l = true.
Proof. induction l as [|x l IH]; [reflexivity|]. cbn. now rewrite Z.eqb_refl. Qed.

Lemma float_prop_case_model inp : float_prop_case inp (float_run_case inp) = 0.
Proof. unfold float_prop_case. now rewrite eq_listZ_refl. Qed.

(* and what it accepts is a verdict that the threshold loop of the model gives, for which the
   exact-arithmetic reading is Proofs_Float.pct_float_pass_bound / pct_float_reject_bound *)
Lemma float_pct_case e t thr obs :
  float_prop_case [0; e; t; thr] obs = 0 ->
  obs = [if (thr =? 0) || (t =? 0) then 0 else if pct_float e t <=? thr then 0 else 1].
Proof.
  unfold float_prop_case. cbn [float_run_case usage_exceeds hd tl].
  destruct (eq_listZ _ obs) eqn:E; [|discriminate]. intros _.
  assert (Heq : forall a b, eq_listZ a b = true -> a = b).
  { induction a as [|x a IH]; intros [|y b] H; try discriminate; [reflexivity|].
    cbn in H. apply andb_prop in H. destruct H as [H1 H2]. apply Z.eqb_eq in H1. subst.
    f_equal. now apply IH. }
  apply Heq in E. rewrite <- E.
  destruct ((thr =? 0) || (t =? 0)); cbn [Z.eqb orb]; [reflexivity|].
  destruct (pct_float e t <=? thr); reflexivity.
Qed.
