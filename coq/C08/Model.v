(* C08 — executable model of the load-aware scheduling plugin's pod-assign cache and filter
   (pkg/scheduler/plugins/loadaware/{pod_assign_cache,load_aware,helper}.go,
    estimator/default_estimator.go).  Total, executable, no proofs in this file.

   Quantities are Z in the unit the code uses (milli-CPU, bytes); times are Z seconds relative
   to the harness base instant (the instant [Exec] starts; wall clock "now" = 0); Go's zero
   time.Time is the constant [zero_time] (far below every generated instant, exactly as year 1
   is).  Node names, pod uids and pod namespace/name keys are Z ranks (0 = empty node name). *)
From Coq Require Import List ZArith Bool.
From Coq Require String.
From Verif Require Import Gen.Gen_consts Gen.Gen_funcs Gen.Gen_loadaware Gen.Gen_scores Lib.SortX.
Import ListNotations.
Open Scope Z_scope.

(* ------------------------------------------------------------------ ResourceVector *)
(* helper.go:174-273.  A vector is a list; the right operand of every pointwise operation is
   read with default 0, so that [None] (Go nil) can be passed as []. *)
Notation vec := (list Z).

Fixpoint vzip (f : Z -> Z -> Z) (v y : vec) : vec :=
  match v with
  | [] => []
  | a :: v' => f a (hd 0 y) :: vzip f v' (tl y)
  end.
Definition vadd : vec -> vec -> vec := vzip Z.add.                       (* v.Add(y) *)
Definition vsub : vec -> vec -> vec := vzip Z.sub.                       (* v.Sub(y) *)
Definition dpos : vec -> vec -> vec := vzip (fun a b => Z.max 0 (a - b)). (* max(0, x - y) *)
Definition dims : nat := 2.                                              (* cpu, memory (sorted names) *)
Definition vzero : vec := repeat 0 dims.                                 (* EmptyVec() *)
Definition vempty (v : vec) : bool := forallb (Z.eqb 0) v.               (* v.Empty() *)
Definition ovec (o : option vec) : vec := match o with Some v => v | None => [] end.
Definition is_some {A} (o : option A) : bool := match o with Some _ => true | None => false end.

Definition zero_time : Z := -64000000000.

(* ------------------------------------------------------------------ float64 emulation *)
(* The code computes two percentages in float64 (load_aware.go:326, default_estimator.go:106).
   They are reproduced bit-exactly on non-negative rationals: a double is the rational
   (num, den) with den a power of two; [fl53] is IEEE-754 round-to-nearest-even to a 53-bit
   significand (normal range; no overflow or subnormals for |values| < 2^200). *)
Definition rne_div (n d : Z) : Z :=
  let q := n / d in let r := n mod d in
  if 2 * r <? d then q else if d <? 2 * r then q + 1 else if Z.even q then q else q + 1.
Definition scl (n d e : Z) : Z * Z := if 0 <=? e then (n, d * 2 ^ e) else (n * 2 ^ (- e), d).
Definition flog2q (n d : Z) : Z :=
  let k := Z.log2 n - Z.log2 d in
  let '(a, b) := scl n d k in if b <=? a then k else k - 1.
Definition fl53 (n d : Z) : Z * Z :=
  if n <=? 0 then (0, 1) else
  let e := flog2q n d - 52 in
  let '(a, b) := scl n d e in
  let m := rne_div a b in
  if 0 <=? e then (m * 2 ^ e, 1) else (m, 2 ^ (- e)).
Definition f_of_int (z : Z) : Z * Z := fl53 z 1.
Definition fdiv (x y : Z * Z) : Z * Z := fl53 (fst x * snd y) (snd x * fst y).
Definition fmul (x y : Z * Z) : Z * Z := fl53 (fst x * fst y) (snd x * snd y).
(* math.Round: half away from zero, here on a non-negative double *)
Definition fround (x : Z * Z) : Z := (2 * fst x + snd x) / (2 * snd x).

(* int64(math.Round(float64(e) / float64(t) * 100))   (t <> 0) *)
Definition pct_float (e t : Z) : Z :=
  Z.sgn e * Z.sgn t *
  fround (fmul (fdiv (f_of_int (Z.abs e)) (f_of_int (Z.abs t))) (100, 1)).
(* int64(math.Round(float64(q) * float64(f) / 100)) *)
Definition scale_float (q f : Z) : Z :=
  Z.sgn q * Z.sgn f *
  fround (fdiv (fmul (f_of_int (Z.abs q)) (f_of_int (Z.abs f))) (100, 1)).
(* exact counterparts (round half away from zero of the exact rational), used in the theorems *)
Definition round_div (n d : Z) : Z := (2 * n + d) / (2 * d).             (* n >= 0, d > 0 *)

(* ------------------------------------------------------------------ configuration *)
(* LoadAwareSchedulingArgs (pkg/scheduler/apis/config/types.go:31). A threshold / factor map
   over (cpu, memory) is a list of optional values (None = key absent). *)
Notation omap := (list (option Z)).
Definition om_len_pos (m : omap) : bool := existsb is_some m.                 (* len(map) > 0 *)
Definition om_vec (m : omap) : vec := map (fun o => match o with Some v => v | None => 0 end) m. (* ToFactorVec *)

Record aggargs := mkAgg { ag_thr : omap; ag_type : Z; ag_dur : Z }.           (* type 0 = "" *)

(* what only Score reads: ResourceWeights, DominantResourceWeight, ScoreAccordingProdUsage,
   Aggregated.ScoreAggregationType / ScoreAggregatedDuration (used when Aggregated is set) *)
Record scorecfg := mkSC {
  sc_weights : omap; sc_dom : Z; sc_prod : bool; sc_aggT : Z; sc_aggD : Z }.
Definition no_score : scorecfg := mkSC [] 0 false 0 0.

Record config := mkCfg {
  c_thr : omap;                       (* UsageThresholds *)
  c_prod_thr : omap;                  (* ProdUsageThresholds *)
  c_agg : option aggargs;             (* Aggregated *)
  c_filter_expired : option bool;     (* FilterExpiredNodeMetrics *)
  c_exp_seconds : option Z;           (* NodeMetricExpirationSeconds *)
  c_enable_expired : option bool;     (* EnableScheduleWhenNodeMetricsExpired *)
  c_include_sys : bool;               (* ProdUsageIncludeSys *)
  c_allow_custom : bool;              (* AllowCustomizeEstimation *)
  c_sec_sched : option Z;             (* EstimatedSecondsAfterPodScheduled *)
  c_sec_init : option Z;              (* EstimatedSecondsAfterInitialized *)
  c_factors : omap;                   (* EstimatedScalingFactors *)
  c_score : scorecfg
}.

(* ------------------------------------------------------------------ pods *)
(* one container's declared requests / limits (cpu, memory) under the resource names of the
   pod's family; absent = 0 (the code treats a zero quantity and a missing key alike) *)
Record ctr := mkCtr { ct_req : vec; ct_lim : vec }.

(* condition state: 0 absent, 1 present and not True, 2 True *)
Record pod := mkPod {
  p_uid : Z; p_key : Z; p_node : Z;
  p_prio : option Z;                  (* spec.priority (None = nil) *)
  p_label : Z;                        (* koordinator.sh/priority-class label: 0 absent, 1 koord-prod,
                                         2 koord-mid, 3 koord-batch, 4 koord-free, other = unknown name *)
  p_qos : Z;                          (* koordinator.sh/qosClass label: 0 absent, 1 LSE, 2 LSR, 3 LS,
                                         4 BE, 5 SYSTEM, other = unknown name *)
  p_kqos : Z;                         (* status.qosClass: 0 empty, 1 Guaranteed, 2 Burstable, 3 BestEffort *)
  p_phase : Z;                        (* 0 Running, 1 Succeeded, 2 Failed, 3 Pending, 4 Unknown *)
  p_resv : bool;                      (* reservation's reserve pod *)
  p_owner : Z;                        (* owner references: 0 none, 1 [DaemonSet], 2 [ReplicaSet; DaemonSet],
                                         3 [ReplicaSet], 4 [kind "daemonset"] *)
  p_fam : Z;                          (* resource names its containers declare under: 1 cpu/memory,
                                         2 mid-cpu/mid-memory, 3 batch-cpu/batch-memory *)
  p_ctrs : list ctr;                  (* spec.containers *)
  p_inits : list (bool * ctr);        (* spec.initContainers; true = restartPolicy Always (sidecar) *)
  p_overhead : option vec;            (* spec.overhead (cpu, memory) *)
  p_cf : omap;                        (* custom scaling factors annotation *)
  p_cs_sched : Z; p_cs_init : Z;      (* custom seconds annotations, -1 = absent *)
  p_sch_s : Z; p_sch_t : Z;           (* PodScheduled condition *)
  p_ini_s : Z; p_ini_t : Z            (* Initialized condition *)
}.

(* util.IsPodTerminated *)
Definition terminated (p : pod) : bool := (p_phase p =? 1) || (p_phase p =? 2).
(* isDaemonSetPod (helper.go:137): some owner reference has Kind "DaemonSet" *)
Definition daemonset (p : pod) : bool := (p_owner p =? 1) || (p_owner p =? 2).

Inductive cls := CProd | CMid | CBatch | CFree | CNone.
Definition cls_of_prio (p : Z) : cls :=
  let s := getPriorityClassByPriority p in
  if String.eqb s PriorityProd then CProd
  else if String.eqb s PriorityMid then CMid
  else if String.eqb s PriorityBatch then CBatch
  else if String.eqb s PriorityFree then CFree
  else CNone.
(* GetPodPriorityClassByName *)
Definition cls_of_label (l : Z) : cls :=
  if l =? 1 then CProd else if l =? 2 then CMid else if l =? 3 then CBatch
  else if l =? 4 then CFree else CNone.
(* GetPodPriorityClassRaw (apis/extension/priority.go:71): the label wins over spec.priority *)
Definition raw_cls (p : pod) : cls :=
  if negb (p_label p =? 0) then cls_of_label (p_label p)
  else match p_prio p with Some v => cls_of_prio v | None => CNone end.

(* ---- PodRequests / PodLimits of k8s.io/component-helpers/resource (the sidecar-KEP formula):
   sum of the containers and restartable init containers, at least the peak of the init phase *)
Definition vmax : vec -> vec -> vec := vzip Z.max.
Definition sum_ctrs (sel : ctr -> vec) (l : list ctr) : vec :=
  fold_left (fun a c => vadd a (sel c)) l vzero.
Fixpoint init_walk (sel : ctr -> vec) (l : list (bool * ctr)) (total restartable imax : vec)
  : vec * vec :=
  match l with
  | [] => (total, imax)
  | (always, c) :: t =>
    if always then
      let r' := vadd restartable (sel c) in
      init_walk sel t (vadd total (sel c)) r' (vmax imax r')
    else init_walk sel t total restartable (vmax imax (vadd (vadd vzero (sel c)) restartable))
  end.
Definition aggregate (sel : ctr -> vec) (p : pod) : vec :=
  let '(total, imax) := init_walk sel (p_inits p) (sum_ctrs sel (p_ctrs p)) vzero vzero in
  vmax total imax.
(* the pod's requests / limits read under the resource names of family f (0 = no name):
   the containers count when they declare under that family; spec.overhead is in cpu/memory and
   is added to requests always, to limits only where a limit is set *)
Definition under (p : pod) (f : Z) (v : vec) : vec := if f =? p_fam p then v else vzero.
Definition pod_requests (p : pod) (f : Z) : vec :=
  let a := under p f (aggregate ct_req p) in
  if f =? 1 then vadd a (ovec (p_overhead p)) else a.
Definition pod_limits (p : pod) (f : Z) : vec :=
  let a := under p f (aggregate ct_lim p) in
  if f =? 1 then vzip (fun l o => if l =? 0 then l else l + o) a (ovec (p_overhead p)) else a.

(* qos.ComputePodQOS = BestEffort: no container or init container has a positive cpu / memory
   request or limit (only the native names count) *)
Definition ctr_empty (c : ctr) : bool := forallb (fun x => x <=? 0) (ct_req c ++ ct_lim c).
Definition computed_besteffort (p : pod) : bool :=
  if p_fam p =? 1
  then forallb ctr_empty (p_ctrs p) && forallb (fun ic => ctr_empty (snd ic)) (p_inits p)
  else true.
(* GetPodPriorityClassWithQoS (GetPodQoSClassWithDefault pod): a valid qosClass label decides
   (BE -> batch, LSE / LSR / LS / SYSTEM -> prod); otherwise the kubernetes QoS class does
   (status.qosClass when set, else computed: BestEffort -> BE -> batch; Guaranteed -> LSR and
   Burstable -> LS -> prod); an unknown status.qosClass gives no class *)
Definition qos_cls (p : pod) : cls :=
  if (1 <=? p_qos p) && (p_qos p <=? 5) then (if p_qos p =? 4 then CBatch else CProd)
  else if p_kqos p =? 0 then (if computed_besteffort p then CBatch else CProd)
  else if p_kqos p =? 3 then CBatch
  else if (p_kqos p =? 1) || (p_kqos p =? 2) then CProd
  else CNone.
(* GetPodPriorityClassWithDefault (apis/extension/priority_utils.go:37): pods without a
   koordinator priority class are classed by their QoS *)
Definition pod_cls (p : pod) : cls :=
  match raw_cls p with
  | CNone => qos_cls p
  | c => c
  end.
Definition is_prod (p : pod) : bool :=
  match pod_cls p with CProd => true | _ => false end.
(* TranslateResourceNameByPriorityClass: the family of names a class reads (0 = none) *)
Definition fam_of_cls (c : cls) : Z :=
  match c with CProd | CNone => 1 | CMid => 2 | CBatch => 3 | CFree => 0 end.

(* DefaultMilliCPURequest / DefaultMemoryRequest (default_estimator.go:35-38) are generated from
   the source into Gen.Gen_loadaware *)
Definition est_defaults : vec := [DefaultMilliCPURequest; DefaultMemoryRequest].

(* estimatedUsedByResource after TranslateResourceNameByPriorityClass: free pods have no
   translated name (always 0); mid-* resources have no default *)
Definition est_dim (c : cls) (dflt req lim factor : Z) : Z :=
  match c with
  | CFree => 0
  | _ =>
    let q := if req <? lim then lim else req in
    if q =? 0 then (match c with CMid => 0 | _ => dflt end)
    else let e := scale_float q factor in
         if (0 <? lim) && (lim <? e) then lim else e
  end.

(* the factor map EstimatePod uses: pod annotation (when allowed and non-empty) over the args *)
Definition factor_map (cfg : config) (p : pod) : omap :=
  if c_allow_custom cfg && om_len_pos (p_cf p) then
    map (fun cg => match fst cg with Some v => Some v | None => snd cg end)
        (combine (p_cf p) (c_factors cfg))
  else c_factors cfg.

Fixpoint est_list (c : cls) (dflts reqs lims : vec) (fs : omap) : vec :=
  match fs with
  | [] => []
  | f :: fs' =>
    (match f with
     | Some k => est_dim c (hd 0 dflts) (hd 0 reqs) (hd 0 lims) k
     | None => 0
     end) :: est_list c (tl dflts) (tl reqs) (tl lims) fs'
  end.

(* vectorizer.ToFactorVec(estimator.EstimatePod(pod)) *)
Definition est_vec (cfg : config) (p : pod) : vec :=
  let c := pod_cls p in
  est_list c est_defaults (pod_requests p (fam_of_cls c)) (pod_limits p (fam_of_cls c))
           (factor_map cfg p).

(* what the cache keeps per pod: podAssignInfo (pod_assign_cache.go:124) *)
Record pinfo := mkPI { pi_pod : pod; pi_ts : Z; pi_dl : Z; pi_est : option vec }.

Definition pod_timestamp (now : Z) (p : pod) : Z :=
  if (p_sch_s p =? 2) && negb (p_sch_t p =? zero_time) then p_sch_t p else now.

(* shouldEstimatePodDeadline (pod_assign_cache.go:328) *)
Definition pod_deadline (cfg : config) (p : pod) (ts : Z) : Z :=
  let aS0 := if c_allow_custom cfg then p_cs_sched p else -1 in
  let aI0 := if c_allow_custom cfg then p_cs_init p else -1 in
  let aS := match c_sec_sched cfg with Some s => if aS0 <? 0 then s else aS0 | None => aS0 end in
  let aI := match c_sec_init cfg with Some s => if aI0 <? 0 then s else aI0 | None => aI0 end in
  if (0 <? aI) && (p_ini_s p =? 2) && negb (p_ini_t p =? zero_time) then p_ini_t p + aI
  else if (0 <? aS) && negb (ts =? zero_time) then ts + aS
  else zero_time.

Definition mk_pinfo (cfg : config) (now : Z) (p : pod) : pinfo :=
  let v := est_vec cfg p in
  let ts := pod_timestamp now p in
  mkPI p ts (pod_deadline cfg p ts) (if vempty v then None else Some v).

(* ------------------------------------------------------------------ node metric *)
Record pmetric := mkPM { pm_key : Z; pm_usage : option vec; pm_prod : bool }.
(* one AggregatedUsage: duration and its (type, usage) entries (None = empty ResourceList) *)
Notation aggentry := (Z * list (Z * option vec))%type.
Record minfo := mkMI { mi_usage : vec; mi_sys : vec; mi_agg : list aggentry }.
Record metric := mkM {
  m_ut : option Z;                    (* Status.UpdateTime *)
  m_iv : option Z;                    (* Spec.CollectPolicy.ReportIntervalSeconds *)
  m_info : option minfo;              (* Status.NodeMetric *)
  m_pods : list pmetric               (* Status.PodsMetric *)
}.

Definition DefaultNodeMetricReportInterval : Z := 60.
Definition interval (m : metric) : Z :=
  match m_iv m with Some s => s | None => DefaultNodeMetricReportInterval end.

(* podUsages[key]: the last reported entry with a non-empty usage wins *)
Fixpoint pod_usage_in (l : list pmetric) (key : Z) (acc : option vec) : option vec :=
  match l with
  | [] => acc
  | pm :: t =>
    pod_usage_in t key
      (if (pm_key pm =? key) && is_some (pm_usage pm) then pm_usage pm else acc)
  end.
Definition pod_usage (m : metric) (key : Z) : option vec := pod_usage_in (m_pods m) key None.
(* prodPods.Has(key) *)
Definition prod_reported (m : metric) (key : Z) : bool :=
  existsb (fun pm => (pm_key pm =? key) && is_some (pm_usage pm) && pm_prod pm) (m_pods m).

Definition node_usage (m : metric) : option vec := option_map mi_usage (m_info m).

(* aggUsages: direct entries, then key {t, 0} := entry of the largest positive duration of t *)
Definition agg_flat (ai : list aggentry) : list (Z * Z * vec) :=
  flat_map (fun e => flat_map (fun tu =>
      match snd tu with Some v => [(fst tu, fst e, v)] | None => [] end) (snd e)) ai.
Fixpoint agg_direct (l : list (Z * Z * vec)) (t d : Z) (acc : option vec) : option vec :=
  match l with
  | [] => acc
  | (t', d', v) :: r => agg_direct r t d (if (t' =? t) && (d' =? d) then Some v else acc)
  end.
Fixpoint agg_maxdur (l : list (Z * Z * vec)) (t : Z) (acc : Z) : Z :=
  match l with
  | [] => acc
  | (t', d', _) :: r => agg_maxdur r t (if (t' =? t) && (acc <? d') then d' else acc)
  end.
Definition agg_lookup (m : metric) (t d : Z) : option vec :=
  match m_info m with
  | None => None
  | Some mi =>
    let l := agg_flat (mi_agg mi) in
    let md := agg_maxdur l t 0 in
    if (d =? 0) && (0 <? md) then agg_direct l t md None else agg_direct l t d None
  end.
(* getTargetAggregatedUsage *)
Definition target_agg (m : metric) (t d : Z) : option vec :=
  match agg_lookup m t d with
  | Some v => Some v
  | None => if d =? 0 then node_usage m else None
  end.

(* ------------------------------------------------------------------ cached sums *)
Record sums := mkS { s_prodUsage : vec; s_nodeDelta : vec; s_prodDelta : vec; s_nodeEst : vec }.
Definition sums_add (s c : sums) : sums :=
  mkS (vadd (s_prodUsage s) (s_prodUsage c)) (vadd (s_nodeDelta s) (s_nodeDelta c))
      (vadd (s_prodDelta s) (s_prodDelta c)) (vadd (s_nodeEst s) (s_nodeEst c)).
Definition sums_sub (s c : sums) : sums :=
  mkS (vsub (s_prodUsage s) (s_prodUsage c)) (vsub (s_nodeDelta s) (s_nodeDelta c))
      (vsub (s_prodDelta s) (s_prodDelta c)) (vsub (s_nodeEst s) (s_nodeEst c)).

(* the estimation condition of addPod / deletePod (pod_assign_cache.go:639, :691) *)
Definition should (m : metric) (ut : Z) (pi : pinfo) (u : option vec) : bool :=
  negb (is_some u)
  || (ut - interval m <? pi_ts pi)
  || (negb (pi_dl pi =? zero_time) && (ut <? pi_dl pi)).

(* what addPod adds (and deletePod takes away) for one pod under metric m / updateTime ut *)
Definition contrib (m : metric) (ut : Z) (pi : pinfo) : sums :=
  let key := p_key (pi_pod pi) in
  let u := pod_usage m key in
  let prod := is_prod (pi_pod pi) in
  let active := prod && prod_reported m key in
  let cPU := if active then ovec u else [] in
  match pi_est pi with
  | None => mkS cPU [] [] []
  | Some e =>
    let sh := should m ut pi u in
    let cND := if sh then dpos e (ovec u) else [] in
    let cPD :=
      if prod then
        (if negb active && is_some u then dpos e []
         else if sh then dpos e (ovec u) else [])
      else [] in
    mkS cPU cND cPD e
  end.

(* sums right after AddOrUpdateNodeMetric reset them, before the pods are re-added *)
Definition base_sums (cfg : config) (m : metric) : sums :=
  let pu := match m_info m with
            | Some mi => if c_include_sys cfg then vadd vzero (mi_sys mi) else vzero
            | None => vzero end in
  mkS pu vzero vzero vzero.

(* the from-scratch computation: reset, then addPod for every assigned pod *)
Definition rebuild (cfg : config) (m : metric) (ut : Z) (pods : list (Z * pinfo)) : sums :=
  fold_left (fun s p => sums_add s (contrib m ut (snd p))) pods (base_sums cfg m).

(* ------------------------------------------------------------------ association lists *)
Section Assoc.
  Context {A : Type}.
  Fixpoint alookup (k : Z) (l : list (Z * A)) : option A :=
    match l with
    | [] => None
    | (k', a) :: t => if k' =? k then Some a else alookup k t
    end.
  Fixpoint aset (k : Z) (a : A) (l : list (Z * A)) : list (Z * A) :=
    match l with
    | [] => [(k, a)]
    | (k', a') :: t => if k' =? k then (k, a) :: t else (k', a') :: aset k a t
    end.
  Fixpoint aremove (k : Z) (l : list (Z * A)) : list (Z * A) :=
    match l with
    | [] => []
    | (k', a') :: t => if k' =? k then aremove k t else (k', a') :: aremove k t
    end.
End Assoc.

(* ------------------------------------------------------------------ cache state *)
(* nodeInfo (pod_assign_cache.go:101).  podUsages / prodPods / nodeUsage / aggUsages /
   reportInterval are functions of the stored metric (they are written only together with it
   and read only while it is present); updateTime is kept as a field, as in the code (it is
   [fresh_ut] of the stored metric, an invariant proved in Proofs_Drift). *)
Record ninfo := mkN {
  n_pods : list (Z * pinfo);          (* podInfos, by uid *)
  n_metric : option metric;
  n_ut : Z;                           (* updateTime *)
  n_sums : sums
}.
Notation cache := (list (Z * ninfo)).

Definition zero_sums : sums := mkS [] [] [] [].
Definition new_ninfo : ninfo := mkN [] None zero_time zero_sums.
Definition get_node (c : cache) (node : Z) : ninfo :=
  match alookup node c with Some n => n | None => new_ninfo end.

(* tryCleanup *)
Definition put_or_cleanup (c : cache) (node : Z) (n : ninfo) : cache :=
  match n_metric n, n_pods n with
  | None, [] => aremove node c
  | _, _ => aset node n c
  end.

(* assign (pod_assign_cache.go:291) + nodeInfo.AddOrUpdatePod (:418) *)
Definition assign (cfg : config) (now : Z) (node : Z) (p : pod) (c : cache) : cache :=
  if (node =? 0) || terminated p || p_resv p then c else
  let pi := mk_pinfo cfg now p in
  let n := get_node c node in
  let old := alookup (p_uid p) (n_pods n) in
  let pods' := aset (p_uid p) pi (n_pods n) in
  let s' := match n_metric n with
            | None => n_sums n
            | Some m =>
              let s1 := match old with
                        | Some o => sums_sub (n_sums n) (contrib m (n_ut n) o)
                        | None => n_sums n end in
              sums_add s1 (contrib m (n_ut n) pi)
            end in
  aset node (mkN pods' (n_metric n) (n_ut n) s') c.

(* unAssign (:356) + nodeInfo.DeletePod (:449) *)
Definition unassign (node : Z) (uid : Z) (c : cache) : cache :=
  if node =? 0 then c else
  match alookup node c with
  | None => c
  | Some n =>
    let old := alookup uid (n_pods n) in
    let pods' := aremove uid (n_pods n) in
    let s' := match n_metric n, old with
              | Some m, Some o => sums_sub (n_sums n) (contrib m (n_ut n) o)
              | _, _ => n_sums n end in
    put_or_cleanup c node (mkN pods' (n_metric n) (n_ut n) s')
  end.

Definition vec_eqb (a b : vec) : bool :=
  (Nat.eqb (length a) (length b)) && forallb (fun xy => fst xy =? snd xy) (combine a b).
Fixpoint list_eqb {A} (eqb : A -> A -> bool) (a b : list A) : bool :=
  match a, b with
  | [], [] => true
  | x :: a', y :: b' => eqb x y && list_eqb eqb a' b'
  | _, _ => false
  end.
Definition oz_eqb (a b : option Z) : bool :=
  match a, b with Some x, Some y => x =? y | None, None => true | _, _ => false end.
Definition ovec_eqb (a b : option vec) : bool :=
  match a, b with Some x, Some y => vec_eqb x y | None, None => true | _, _ => false end.
Definition ctr_eqb (a b : ctr) : bool :=
  vec_eqb (ct_req a) (ct_req b) && vec_eqb (ct_lim a) (ct_lim b).
Definition ictr_eqb (a b : bool * ctr) : bool := Bool.eqb (fst a) (fst b) && ctr_eqb (snd a) (snd b).
(* reflect.DeepEqual on the Spec / on Status.Conditions of the pods the harness builds *)
Definition spec_eqb (a b : pod) : bool :=
  (p_node a =? p_node b) && oz_eqb (p_prio a) (p_prio b) && (p_fam a =? p_fam b)
  && list_eqb ctr_eqb (p_ctrs a) (p_ctrs b) && list_eqb ictr_eqb (p_inits a) (p_inits b)
  && ovec_eqb (p_overhead a) (p_overhead b).
Definition cond_eqb1 (s1 t1 s2 t2 : Z) : bool :=
  (s1 =? s2) && ((s1 =? 0) || (t1 =? t2)).
Definition cond_eqb (a b : pod) : bool :=
  cond_eqb1 (p_sch_s a) (p_sch_t a) (p_sch_s b) (p_sch_t b)
  && cond_eqb1 (p_ini_s a) (p_ini_t a) (p_ini_s b) (p_ini_t b).

(* getPodAssignInfo *)
Definition pod_info (c : cache) (node uid : Z) : option pinfo :=
  if node =? 0 then None else
  match alookup node c with Some n => alookup uid (n_pods n) | None => None end.

(* OnUpdate (:373) *)
Definition on_update (cfg : config) (now : Z) (old_node : Z) (p : pod) (c : cache) : cache :=
  let c1 := if negb (old_node =? 0) && negb (old_node =? p_node p)
            then unassign old_node (p_uid p) c else c in
  match pod_info c1 (p_node p) (p_uid p) with
  | None => assign cfg now (p_node p) p c1
  | Some o =>
    if terminated p then unassign (p_node p) (p_uid p) c1
    else if negb (spec_eqb p (pi_pod o)) || negb (cond_eqb p (pi_pod o))
    then assign cfg now (p_node p) p c1
    else c1
  end.

(* the update time a report sets: Status.UpdateTime, or the zero time when it has none
   (since fix 56625eb the previous report's time is not kept) *)
Definition fresh_ut (m : metric) : Z := match m_ut m with Some t => t | None => zero_time end.

(* nodeInfo.AddOrUpdateNodeMetric (:520) *)
Definition set_metric (cfg : config) (node : Z) (m : metric) (c : cache) : cache :=
  let n := get_node c node in
  let ut := fresh_ut m in
  aset node (mkN (n_pods n) (Some m) ut (rebuild cfg m ut (n_pods n))) c.

(* nodeInfo.DeleteNodeMetric (:604) *)
Definition del_metric (node : Z) (c : cache) : cache :=
  match alookup node c with
  | None => c
  | Some n => put_or_cleanup c node (mkN (n_pods n) None (n_ut n) (n_sums n))
  end.

(* GetNodeMetricAndEstimatedOfExisting (:160) for a stored metric m and cached sums s *)
Definition est_of (m : metric) (s : sums) (prod : bool) (aggT aggD : Z) : vec :=
  if prod then vadd (vadd vzero (s_prodUsage s)) (s_prodDelta s)
  else
    let usage := if aggT =? 0 then node_usage m else target_agg m aggT aggD in
    match usage with
    | Some u => vadd (vadd vzero u) (s_nodeDelta s)
    | None => vadd vzero (s_nodeEst s)
    end.
(* None = NotFound *)
Definition get_est (n : ninfo) (prod : bool) (aggT aggD : Z) : option vec :=
  match n_metric n with
  | None => None
  | Some m => Some (est_of m (n_sums n) prod aggT aggD)
  end.

(* ------------------------------------------------------------------ filter *)
(* the node object as Filter sees it *)
Record nodeobj := mkNode {
  nd_name : Z;
  nd_alloc : vec;                     (* Status.Allocatable *)
  nd_raw : option omap;               (* raw-allocatable annotation (amplified nodes) *)
  nd_custom : option (omap * omap * option (omap * Z * option Z))
                                      (* usage-thresholds annotation: usage, prod, aggregated(thr,type,duration) *)
}.

(* usageThresholdsFilterProfile; a nil vector is None *)
Record profile := mkProf {
  pr_thr : option vec; pr_prod : option vec; pr_agg : option (vec * Z * Z) }.

Definition om_opt (m : omap) : option vec := if om_len_pos m then Some (om_vec m) else None.

(* NewUsageThresholdsFilterProfile (helper.go:63) *)
Definition base_profile (cfg : config) : profile :=
  mkProf (om_opt (c_thr cfg)) (om_opt (c_prod_thr cfg))
    (match c_agg cfg with
     | Some a => if om_len_pos (ag_thr a) && negb (ag_type a =? 0)
                 then Some (om_vec (ag_thr a), ag_type a, ag_dur a) else None
     | None => None
     end).

(* generateUsageThresholdsFilterProfile (helper.go:85) *)
Definition node_profile (cfg : config) (nd : nodeobj) : profile :=
  let tfp := base_profile cfg in
  match nd_custom nd with
  | None => tfp
  | Some (cu, cp, cagg) =>
    let cagg' := match cagg with
                 | Some (thr, t, d) => if om_len_pos thr && negb (t =? 0) then cagg else None
                 | None => None end in
    if negb (om_len_pos cu) && negb (om_len_pos cp) && negb (is_some cagg') then tfp
    else mkProf (if om_len_pos cu then Some (om_vec cu) else pr_thr tfp)
                (if om_len_pos cp then Some (om_vec cp) else pr_prod tfp)
                (match cagg' with
                 | Some (thr, t, d) => Some (om_vec thr, t, match d with Some x => x | None => 0 end)
                 | None => pr_agg tfp
                 end)
  end.

(* DefaultEstimator.EstimateNode then ToVec *)
Definition eff_alloc (nd : nodeobj) : vec :=
  match nd_raw nd with
  | None => nd_alloc nd
  | Some raw =>
    map (fun ar => match snd ar with Some v => v | None => fst ar end)
        (combine (nd_alloc nd) raw)
  end.

(* which thresholds Filter uses: (thresholds, isAgg, aggType, aggDuration, prodPod) *)
Definition select_thresholds (pr : profile) (prod_pod_class : bool) : vec * bool * Z * Z * bool :=
  let prodPod := negb (vempty (ovec (pr_prod pr))) && prod_pod_class in
  if prodPod then (ovec (pr_prod pr), false, 0, 0, true)
  else match pr_agg pr with
       | Some (thr, t, d) => (thr, true, t, d, false)
       | None => (ovec (pr_thr pr), false, 0, 0, false)
       end.

(* isNodeMetricExpired; the wall clock is the base instant 0 *)
Definition metric_expired (m : metric) (exp : Z) : bool :=
  match m_ut m with
  | None => true
  | Some t => (0 <? exp) && (exp <=? 0 - t)
  end.

(* filterNodeUsage (load_aware.go:316): 0 = pass, otherwise rejected *)
Fixpoint usage_exceeds (thr est alloc : vec) : bool :=
  match thr with
  | [] => false
  | v :: thr' =>
    let total := hd 0 alloc in
    let e := hd 0 est in
    if (v =? 0) || (total =? 0) then usage_exceeds thr' (tl est) (tl alloc)
    else if pct_float e total <=? v then usage_exceeds thr' (tl est) (tl alloc)
    else true
  end.

(* status codes: 0 success/skip, 1 usage exceeds threshold, 2 aggregated usage exceeds
   threshold, 3 node metric expired.  [st] is what the cache holds for the node: its metric and
   the estimate of the existing pods per (prod, aggregation type, duration); None = NotFound *)
Definition filter_decide (cfg : config) (nd : nodeobj) (p : pod)
    (st : option (metric * (bool -> Z -> Z -> option vec))) : Z :=
  if daemonset p then 0 else
  let '(thr, isAgg, aggT, aggD, prodPod) := select_thresholds (node_profile cfg nd) (is_prod p) in
  if vempty thr then 0 else
  match st with
  | None => 0
  | Some (m, get) =>
    match get prodPod aggT aggD with
    | None => 0
    | Some est =>
      let exp_cfg := match c_filter_expired cfg, c_exp_seconds cfg with
                     | Some true, Some s => metric_expired m s
                     | _, _ => false end in
      if exp_cfg then
        (match c_enable_expired cfg with Some false => 3 | _ => 0 end)
      else if negb (is_some (m_info m)) then 0
      else if usage_exceeds thr (vadd est (est_vec cfg p)) (eff_alloc nd)
      then (if isAgg then 2 else 1) else 0
    end
  end.

Definition node_view (c : cache) (node : Z) : option (metric * (bool -> Z -> Z -> option vec)) :=
  match alookup node c with
  | Some n => match n_metric n with Some m => Some (m, get_est n) | None => None end
  | None => None
  end.

Definition filter (cfg : config) (c : cache) (nd : nodeobj) (p : pod) : Z :=
  filter_decide cfg nd p (node_view c (nd_name nd)).

(* ------------------------------------------------------------------ score *)
(* loadAwareSchedulingScorer (load_aware.go:345) over the REGENERATED leastUsedScore *)
Fixpoint scorer_loop (ws used alloc : vec) (acc : Z * Z * Z) : Z * Z * Z :=
  match ws with
  | [] => acc
  | w :: ws' =>
    let '(nodeScore, dominant, weightSum) := acc in
    let s := loadaware_leastUsedScore (hd 0 used) (hd 0 alloc) in
    scorer_loop ws' (tl used) (tl alloc)
      (nodeScore + s * w, (if s <? dominant then s else dominant), weightSum + w)
  end.
Definition scorer (dom : Z) (ws used alloc : vec) : Z :=
  let '(nodeScore, dominant, weightSum) :=
    scorer_loop ws used alloc
      (0, (if dom =? 0 then 0 else MaxNodeScore), (if dom =? 0 then 0 else dom)) in
  if weightSum <=? 0 then 0 else Z.quot (nodeScore + dominant * dom) weightSum.

(* Plugin.scoreWeights as New() sets it: nil when there is nothing to weigh *)
Definition score_weights (cfg : config) : option vec :=
  let ws := om_vec (sc_weights (c_score cfg)) in
  if (sc_dom (c_score cfg) =? 0) && vempty ws then None else Some ws.

(* which estimate Score asks the cache for: (prodPod, aggregation type, duration) *)
Definition score_variant (cfg : config) (p : pod) : bool * Z * Z :=
  let prodPod := sc_prod (c_score cfg) && is_prod p in
  match c_agg cfg with
  | Some _ =>
    if negb prodPod && negb (sc_aggT (c_score cfg) =? 0)
    then (prodPod, sc_aggT (c_score cfg), sc_aggD (c_score cfg)) else (prodPod, 0, 0)
  | None => (prodPod, 0, 0)
  end.

(* Plugin.Score (load_aware.go:235) *)
Definition score_decide (cfg : config) (nd : nodeobj) (p : pod)
    (st : option (metric * (bool -> Z -> Z -> option vec))) : Z :=
  match score_weights cfg with
  | None => 0
  | Some ws =>
    let '(prodPod, aggT, aggD) := score_variant cfg p in
    match st with
    | None => 0
    | Some (m, get) =>
      match get prodPod aggT aggD with
      | None => 0
      | Some est =>
        if (match c_exp_seconds cfg with Some s => metric_expired m s | None => false end) then 0
        else if negb (is_some (m_info m)) then 0
        else scorer (sc_dom (c_score cfg)) ws (vadd est (est_vec cfg p)) (eff_alloc nd)
      end
    end
  end.

Definition score (cfg : config) (c : cache) (nd : nodeobj) (p : pod) : Z :=
  score_decide cfg nd p (node_view c (nd_name nd)).

(* ------------------------------------------------------------------ operations *)
Inductive op :=
| OReserve (now node : Z) (p : pod)
| OUnreserve (now node : Z) (p : pod)
| OAdd (now : Z) (p : pod)
| OUpdate (now old_node : Z) (p : pod)
| ODelete (now : Z) (p : pod)
| OMetric (now node : Z) (m : metric)
| OMetricDel (now node : Z)
| OFilter (now : Z) (nd : nodeobj) (p : pod)
| ONop (now : Z)                      (* an event carrying an object of another type: ignored *)
| OScore (now : Z) (nd : nodeobj) (p : pod).

Definition step (cfg : config) (c : cache) (o : op) : cache :=
  match o with
  | OReserve now node p => assign cfg now node p c
  | OUnreserve _ node p => unassign node (p_uid p) c
  | OAdd now p => assign cfg now (p_node p) p c
  | OUpdate now old_node p => on_update cfg now old_node p c
  | ODelete _ p => unassign (p_node p) (p_uid p) c
  | OMetric _ node m => set_metric cfg node m c
  | OMetricDel _ node => del_metric node c
  | OFilter _ _ _ => c
  | ONop _ => c
  | OScore _ _ _ => c
  end.

Definition run (cfg : config) (ops : list op) : cache := fold_left (step cfg) ops [].

(* the result an operation reports (only Filter has one) *)
Definition op_result (cfg : config) (c : cache) (o : op) : Z :=
  match o with
  | OFilter _ nd p => filter cfg c nd p
  | OScore _ nd p => score cfg c nd p
  | _ => 0
  end.

(* ------------------------------------------------------------------ the fresh cache *)
(* a new podAssignCache fed node n's current metric report and its current pods: the pods are
   re-assigned (clock set to their recorded timestamp), then the sums are whatever the code
   computes for them *)
Definition refeed (cfg : config) (pods : list (Z * pinfo)) : list (Z * pinfo) :=
  map (fun up => (fst up, mk_pinfo cfg (pi_ts (snd up)) (pi_pod (snd up)))) pods.
Definition fresh_sums (cfg : config) (n : ninfo) : sums :=
  match n_metric n with
  | Some m => rebuild cfg m (fresh_ut m) (refeed cfg (n_pods n))
  | None => zero_sums
  end.

(* ------------------------------------------------------------------ observations *)
(* what the harness reads after every operation, for every node name of the universe:
   the uids in podInfos (ascending) and, while a metric is stored, the four cached sums, the
   same four sums of a fresh cache fed the node's current metric and pods, and
   GetNodeMetricAndEstimatedOfExisting for eight (prod, aggregation type, duration) variants *)
Definition universe : list Z := [1; 2; 3].
Definition variants : list (bool * Z * Z) :=
  [(true, 0, 0); (false, 0, 0);
   (false, 1, 0); (false, 1, 300); (false, 1, 600);
   (false, 2, 0); (false, 2, 300); (false, 2, 600)].

Record nobs := mkNO {
  no_uids : list Z;
  no_detail : option (sums * sums * list (option vec))   (* None while no metric is stored *)
}.
Notation opobs := (Z * list (option nobs))%type.           (* operation result, per-node view *)

Definition observe_node (cfg : config) (c : cache) (node : Z) : option nobs :=
  match alookup node c with
  | None => None
  | Some n =>
    Some (mkNO (sort_by Z.leb (map fst (n_pods n)))
      (match n_metric n with
       | None => None
       | Some _ => Some (n_sums n, fresh_sums cfg n,
                         map (fun v => get_est n (fst (fst v)) (snd (fst v)) (snd v)) variants)
       end))
  end.
Definition observe (cfg : config) (c : cache) : list (option nobs) :=
  map (observe_node cfg c) universe.

(* the observable of a history: one observation after every operation *)
Fixpoint run_obs (cfg : config) (c : cache) (ops : list op) : list opobs :=
  match ops with
  | [] => []
  | o :: t =>
    let c' := step cfg c o in
    (op_result cfg c o, observe cfg c') :: run_obs cfg c' t
  end.
