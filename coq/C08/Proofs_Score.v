(* C08 — Plugin.Score: the weighted least-used score over the REGENERATED leastUsedScore
   (Gen.Gen_scores.loadaware_leastUsedScore, facts in Lib.GenScores): range, antitonicity in the
   estimated usage, decision table, and the score on the cache reached by any history as a
   function of the from-scratch estimate. *)
From Coq Require Import List ZArith Bool Lia.
From Verif Require Import Gen.Gen_scores Lib.GenScores.
From Verif Require Import C08.Model C08.Spec C08.Proofs C08.Proofs_Drift C08.Proofs_Filter.
Import ListNotations.
Open Scope Z_scope.

Definition nnv (v : vec) : Prop := forall i, 0 <= nth i v 0.

Lemma nnv_hd v : nnv v -> 0 <= hd 0 v.
Proof. intro H. specialize (H 0%nat). now rewrite nth0_hd in H. Qed.
Lemma nnv_tl v : nnv v -> nnv (tl v).
Proof. intros H i. specialize (H (S i)). now rewrite nth_hd_tl in H. Qed.

Lemma least_score_range u a : 0 <= u -> 0 <= a -> 0 <= loadaware_leastUsedScore u a <= MaxNodeScore.
Proof. intros. rewrite loadaware_least_is_spec. now apply least_range. Qed.

Lemma least_score_antitone u u' a :
  0 <= u -> u <= u' -> 0 <= a -> loadaware_leastUsedScore u' a <= loadaware_leastUsedScore u a.
Proof. intros. rewrite !loadaware_least_is_spec. now apply least_antitone. Qed.

(* ------------------------------------------------------------------ the loop *)
Lemma scorer_loop_range ws used alloc ns d W :
  Forall (fun w => 0 <= w) ws -> nnv used -> nnv alloc -> 0 <= d <= MaxNodeScore ->
  let '(ns', d', W') := scorer_loop ws used alloc (ns, d, W) in
  ns <= ns' /\ ns' - ns <= MaxNodeScore * (W' - W) /\ W <= W' /\ 0 <= d' <= MaxNodeScore.
Proof.
  intros Hws. revert used alloc ns d W.
  induction Hws as [|w ws Hw _ IH]; intros used alloc ns d W Hu Ha Hd; cbn [scorer_loop].
  - lia.
  - pose proof (least_score_range (hd 0 used) (hd 0 alloc) (nnv_hd _ Hu) (nnv_hd _ Ha)) as Hs.
    set (s := loadaware_leastUsedScore (hd 0 used) (hd 0 alloc)) in *.
    assert (Hd' : 0 <= (if s <? d then s else d) <= MaxNodeScore) by (destruct (s <? d); lia).
    specialize (IH (tl used) (tl alloc) (ns + s * w) (if s <? d then s else d) (W + w)
                   (nnv_tl _ Hu) (nnv_tl _ Ha) Hd').
    destruct (scorer_loop ws (tl used) (tl alloc) (ns + s * w, (if s <? d then s else d), W + w))
      as [[ns' d'] W'].
    destruct IH as (H1 & H2 & H3 & H4). nia.
Qed.

(* two runs over the same weights and allocatable, the second with more usage everywhere *)
Lemma scorer_loop_antitone ws used used' alloc ns ns' d d' W :
  Forall (fun w => 0 <= w) ws -> nnv used -> (forall i, nth i used 0 <= nth i used' 0) -> nnv alloc ->
  ns' <= ns -> d' <= d ->
  let '(n1, d1, W1) := scorer_loop ws used alloc (ns, d, W) in
  let '(n2, d2, W2) := scorer_loop ws used' alloc (ns', d', W) in
  n2 <= n1 /\ d2 <= d1 /\ W2 = W1.
Proof.
  intros Hws. revert used used' alloc ns ns' d d' W.
  induction Hws as [|w ws Hw _ IH]; intros used used' alloc ns ns' d d' W Hu Hle Ha Hn Hd;
    cbn [scorer_loop].
  - lia.
  - assert (Hhd : hd 0 used <= hd 0 used') by (specialize (Hle 0%nat); now rewrite !nth0_hd in Hle).
    pose proof (least_score_antitone (hd 0 used) (hd 0 used') (hd 0 alloc)
                  (nnv_hd _ Hu) Hhd (nnv_hd _ Ha)) as Hs.
    set (s := loadaware_leastUsedScore (hd 0 used) (hd 0 alloc)) in *.
    set (s' := loadaware_leastUsedScore (hd 0 used') (hd 0 alloc)) in *.
    apply IH.
    + now apply nnv_tl.
    + intro i. specialize (Hle (S i)). now rewrite !nth_hd_tl in Hle.
    + now apply nnv_tl.
    + nia.
    + destruct (s <? d) eqn:E1, (s' <? d') eqn:E2;
        try apply Z.ltb_lt in E1; try apply Z.ltb_ge in E1;
        try apply Z.ltb_lt in E2; try apply Z.ltb_ge in E2; lia.
Qed.

(* ------------------------------------------------------------------ the scorer *)
(* the score lies on the scheduler's scale *)
Lemma scorer_range dom ws used alloc :
  0 <= dom -> Forall (fun w => 0 <= w) ws -> nnv used -> nnv alloc ->
  0 <= scorer dom ws used alloc <= MaxNodeScore.
Proof.
  intros Hdom Hws Hu Ha. unfold scorer.
  set (d0 := if dom =? 0 then 0 else MaxNodeScore). set (W0 := if dom =? 0 then 0 else dom).
  assert (Hd0 : 0 <= d0 <= MaxNodeScore) by (unfold d0, MaxNodeScore; destruct (dom =? 0); lia).
  pose proof (scorer_loop_range ws used alloc 0 d0 W0 Hws Hu Ha Hd0) as H.
  destruct (scorer_loop ws used alloc (0, d0, W0)) as [[ns d] W].
  destruct H as (H1 & H2 & H3 & H4).
  destruct (W <=? 0) eqn:EW; [unfold MaxNodeScore; lia|]. apply Z.leb_gt in EW.
  assert (HW0 : dom <= W0 + 0 /\ (dom = 0 \/ W0 = dom)).
  { unfold W0. destruct (dom =? 0) eqn:E; [apply Z.eqb_eq in E|]; lia. }
  assert (Hnum : 0 <= ns + d * dom) by nia.
  rewrite Z.quot_div_nonneg by lia.
  split; [apply Z.div_pos; lia|].
  apply Z.div_le_upper_bound; [lia|].
  destruct HW0 as [_ [Hz|Hz]]; [subst dom; unfold W0 in *; cbn [Z.eqb] in *; nia|].
  rewrite Hz in *. nia.
Qed.

(* more estimated usage never gives a higher score *)
Lemma scorer_antitone dom ws used used' alloc :
  0 <= dom -> Forall (fun w => 0 <= w) ws -> nnv used ->
  (forall i, nth i used 0 <= nth i used' 0) -> nnv alloc ->
  scorer dom ws used' alloc <= scorer dom ws used alloc.
Proof.
  intros Hdom Hws Hu Hle Ha. unfold scorer.
  set (d0 := if dom =? 0 then 0 else MaxNodeScore). set (W0 := if dom =? 0 then 0 else dom).
  assert (Hd0 : 0 <= d0 <= MaxNodeScore) by (unfold d0, MaxNodeScore; destruct (dom =? 0); lia).
  assert (Hu' : nnv used') by (intro i; specialize (Hu i); specialize (Hle i); lia).
  pose proof (scorer_loop_antitone ws used used' alloc 0 0 d0 d0 W0 Hws Hu Hle Ha
                ltac:(lia) ltac:(lia)) as H.
  pose proof (scorer_loop_range ws used alloc 0 d0 W0 Hws Hu Ha Hd0) as R1.
  pose proof (scorer_loop_range ws used' alloc 0 d0 W0 Hws Hu' Ha Hd0) as R2.
  destruct (scorer_loop ws used alloc (0, d0, W0)) as [[n1 d1] W1].
  destruct (scorer_loop ws used' alloc (0, d0, W0)) as [[n2 d2] W2].
  destruct H as (H1 & H2 & ->).
  destruct (W1 <=? 0) eqn:EW; [lia|]. apply Z.leb_gt in EW.
  destruct R1 as (A1 & _ & _ & A4). destruct R2 as (B1 & _ & _ & B4).
  rewrite !Z.quot_div_nonneg by nia.
  apply Z.div_le_mono; [lia|nia].
Qed.

(* nothing to weigh: Score is switched off *)
Lemma score_off cfg nd p st : score_weights cfg = None -> score_decide cfg nd p st = 0.
Proof. intro H. unfold score_decide. now rewrite H. Qed.

(* the complete decision of Score as one table *)
Lemma score_decide_table cfg nd p m get ws prodPod aggT aggD est :
  score_weights cfg = Some ws ->
  score_variant cfg p = (prodPod, aggT, aggD) ->
  get prodPod aggT aggD = Some est ->
  score_decide cfg nd p (Some (m, get)) =
    if (match c_exp_seconds cfg with Some s => metric_expired m s | None => false end) then 0
    else if negb (is_some (m_info m)) then 0
    else scorer (sc_dom (c_score cfg)) ws (vadd est (est_vec cfg p)) (eff_alloc nd).
Proof. intros Hw Hv Hg. unfold score_decide. now rewrite Hw, Hv, Hg. Qed.

Lemma score_no_metric cfg nd p : score_decide cfg nd p None = 0.
Proof. unfold score_decide. destruct (score_weights cfg); [|reflexivity]. now destruct (score_variant cfg p) as [[? ?] ?]. Qed.

Lemma nnv_om_vec m : Forall (fun o => match o with Some k => 0 <= k | None => True end) m ->
  Forall (fun w => 0 <= w) (om_vec m).
Proof.
  induction 1 as [|o m Ho _ IH]; cbn [om_vec map]; constructor; [|exact IH]. destruct o; lia.
Qed.

(* Score is always on the scheduler's scale, whatever the cache holds *)
Lemma score_decide_range cfg nd p st :
  0 <= sc_dom (c_score cfg) ->
  Forall (fun o => match o with Some k => 0 <= k | None => True end) (sc_weights (c_score cfg)) ->
  (forall m get b t d est, st = Some (m, get) -> get b t d = Some est -> nnv (vadd est (est_vec cfg p))) ->
  nnv (eff_alloc nd) ->
  0 <= score_decide cfg nd p st <= MaxNodeScore.
Proof.
  intros Hdom Hws Hest Ha. unfold score_decide.
  assert (H0 : 0 <= 0 <= MaxNodeScore) by (unfold MaxNodeScore; lia).
  destruct (score_weights cfg) as [ws|] eqn:Ew; [|exact H0].
  destruct (score_variant cfg p) as [[prodPod aggT] aggD].
  destruct st as [[m get]|]; [|exact H0].
  destruct (get prodPod aggT aggD) as [est|] eqn:Eg; [|exact H0].
  destruct (match c_exp_seconds cfg with Some s => metric_expired m s | None => false end); [exact H0|].
  destruct (negb (is_some (m_info m))); [exact H0|].
  unfold score_weights in Ew.
  destruct ((sc_dom (c_score cfg) =? 0) && vempty (om_vec (sc_weights (c_score cfg)))); [discriminate|].
  injection Ew as <-.
  apply scorer_range; [exact Hdom|now apply nnv_om_vec|eapply Hest; [reflexivity|exact Eg]|exact Ha].
Qed.

(* on the cache reached by ANY history the score is the scorer applied to the FROM-SCRATCH
   estimate of the node's current report and pods plus the incoming pod's estimate *)
Lemma score_from_scratch cfg ops nd p n m ws prodPod aggT aggD :
  alookup (nd_name nd) (run cfg ops) = Some n -> n_metric n = Some m ->
  score_weights cfg = Some ws ->
  score_variant cfg p = (prodPod, aggT, aggD) ->
  (match c_exp_seconds cfg with Some s => metric_expired m s | None => false end) = false ->
  is_some (m_info m) = true ->
  score cfg (run cfg ops) nd p =
    scorer (sc_dom (c_score cfg)) ws
      (vadd (est_of m (rebuild cfg m (n_ut n) (n_pods n)) prodPod aggT aggD) (est_vec cfg p))
      (eff_alloc nd).
Proof.
  intros Hn Hm Hw Hv He Hi. unfold score, node_view. rewrite Hn, Hm.
  rewrite (score_decide_table cfg nd p m (get_est n) ws prodPod aggT aggD
             (est_of m (n_sums n) prodPod aggT aggD) Hw Hv).
  - rewrite He, Hi. cbn [negb]. now rewrite (no_drift cfg ops _ n m Hn Hm).
  - unfold get_est. now rewrite Hm.
Qed.
