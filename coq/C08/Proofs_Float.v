(* C08 — error bound of the float64 emulation: every [fl53] rounding is within a relative
   2^-53 of its argument, hence a percentage that passes the threshold test is, in exact
   arithmetic, below threshold + 1/2 up to a factor (1 + 2^-53)/(1 - 2^-53)^3. *)
From Coq Require Import List ZArith Bool Lia.
From Verif Require Import C08.Model.
Import ListNotations.
Open Scope Z_scope.

(* ------------------------------------------------------------------ rounding a quotient *)
Lemma rne_div_err n d : 0 <= n -> 0 < d ->
  - d <= 2 * (rne_div n d * d - n) <= d.
Proof.
  intros Hn Hd. unfold rne_div.
  pose proof (Z.div_mod n d ltac:(lia)) as Hdm.
  pose proof (Z.mod_pos_bound n d Hd) as Hr.
  set (q := n / d) in *. set (r := n mod d) in *.
  destruct (2 * r <? d) eqn:E1; [apply Z.ltb_lt in E1; nia|apply Z.ltb_ge in E1].
  destruct (d <? 2 * r) eqn:E2; [apply Z.ltb_lt in E2; nia|apply Z.ltb_ge in E2].
  destruct (Z.even q); nia.
Qed.

(* ------------------------------------------------------------------ scaling by 2^e *)
Definition pP (e : Z) : Z := 2 ^ (Z.max e 0).
Definition pN (e : Z) : Z := 2 ^ (Z.max (- e) 0).

Lemma pP_pos e : 0 < pP e.
Proof. unfold pP. apply Z.pow_pos_nonneg; lia. Qed.
Lemma pN_pos e : 0 < pN e.
Proof. unfold pN. apply Z.pow_pos_nonneg; lia. Qed.

Lemma scl_eq n d e : scl n d e = (n * pN e, d * pP e).
Proof.
  unfold scl, pN, pP. destruct (0 <=? e) eqn:E; [apply Z.leb_le in E|apply Z.leb_gt in E].
  - rewrite (Z.max_r (- e) 0) by lia. rewrite (Z.max_l e 0) by lia.
    rewrite Z.pow_0_r, Z.mul_1_r. reflexivity.
  - rewrite (Z.max_l (- e) 0) by lia. rewrite (Z.max_r e 0) by lia.
    rewrite Z.pow_0_r, Z.mul_1_r. reflexivity.
Qed.

(* 2^e1 * 2^(-e2) style bookkeeping: pP e / pN e = 2^e *)
Lemma pPN_shift e f k : 0 <= k -> e = f - k -> pP e * pN f * 2 ^ k = pP f * pN e.
Proof.
  intros Hk He. unfold pP, pN. rewrite <- !Z.pow_add_r by lia. f_equal. lia.
Qed.

(* ------------------------------------------------------------------ floor(log2(n/d)) *)
Lemma flog2q_spec n d : 0 < n -> 0 < d ->
  let f := flog2q n d in
  d * pP f <= n * pN f < 2 * (d * pP f).
Proof.
  intros Hn Hd. unfold flog2q.
  pose proof (Z.log2_spec n Hn) as [Hn1 Hn2]. pose proof (Z.log2_spec d Hd) as [Hd1 Hd2].
  pose proof (Z.log2_nonneg n) as Hln. pose proof (Z.log2_nonneg d) as Hld.
  set (ln := Z.log2 n) in *. set (ld := Z.log2 d) in *.
  rewrite Z.pow_succ_r in Hn2, Hd2 by lia.
  set (k := ln - ld). rewrite scl_eq.
  (* 2^ln * pN k = 2^ld * pP k *)
  assert (Hk : 2 ^ ln * pN k = 2 ^ ld * pP k).
  { unfold pN, pP. rewrite <- !Z.pow_add_r by lia. f_equal. lia. }
  pose proof (pP_pos k) as HPk. pose proof (pN_pos k) as HNk.
  set (A := 2 ^ ln) in *. set (B := 2 ^ ld) in *.
  set (Pk := pP k) in *. set (Nk := pN k) in *.
  assert (H1 : n * Nk < 2 * A * Nk) by nia.
  assert (H2 : A * Nk <= n * Nk) by nia.
  assert (H3 : B * Pk <= d * Pk) by nia.
  assert (H4 : d * Pk < 2 * B * Pk) by nia.
  destruct (d * Pk <=? n * Nk) eqn:E; [apply Z.leb_le in E|apply Z.leb_gt in E]; cbn zeta.
  - split; [exact E|]. lia.
  - (* f = k - 1 *)
    assert (Hs : pP (k - 1) * pN k * 2 ^ 1 = pP k * pN (k - 1)) by (apply pPN_shift; lia).
    rewrite Z.pow_1_r in Hs. fold Pk Nk in Hs.
    pose proof (pP_pos (k - 1)) as HP1. pose proof (pN_pos (k - 1)) as HN1.
    set (P1 := pP (k - 1)) in *. set (N1 := pN (k - 1)) in *.
    split.
    + (* multiply by 2 * Nk > 0:  d*P1*2Nk = d*Pk*N1 < 2 B Pk N1 = 2 A Nk N1 <= 2 n Nk N1 *)
      apply (Z.mul_le_mono_pos_r _ _ (2 * Nk)); [lia|].
      assert (d * P1 * (2 * Nk) = d * Pk * N1) by nia.
      assert (d * Pk * N1 <= 2 * B * Pk * N1) by nia.
      assert (2 * B * Pk * N1 = 2 * A * Nk * N1) by nia.
      assert (2 * A * Nk * N1 <= 2 * n * Nk * N1) by nia.
      nia.
    + apply (Z.mul_lt_mono_pos_r Nk); [lia|].
      assert (2 * (d * P1) * Nk = d * Pk * N1) by nia.
      assert (n * N1 * Nk < d * Pk * N1) by nia.
      lia.
Qed.

(* ------------------------------------------------------------------ one rounding *)
Definition K : Z := 2 ^ 53.

Lemma fl53_err n d : 0 < n -> 0 < d ->
  0 < fst (fl53 n d) /\ 0 < snd (fl53 n d)
  /\ K * Z.abs (fst (fl53 n d) * d - n * snd (fl53 n d)) <= n * snd (fl53 n d).
Proof.
  intros Hn Hd. unfold fl53.
  destruct (n <=? 0) eqn:E0; [apply Z.leb_le in E0; lia|clear E0].
  pose proof (flog2q_spec n d Hn Hd) as Hf. cbn zeta in Hf.
  set (f := flog2q n d) in *. set (e := f - 52).
  rewrite scl_eq.
  assert (Hs : pP e * pN f * 2 ^ 52 = pP f * pN e) by (apply pPN_shift; unfold e; lia).
  pose proof (pP_pos e) as HPe. pose proof (pN_pos e) as HNe.
  pose proof (pP_pos f) as HPf. pose proof (pN_pos f) as HNf.
  set (Pe := pP e) in *. set (Ne := pN e) in *. set (Pf := pP f) in *. set (Nf := pN f) in *.
  set (a := n * Ne). set (b := d * Pe).
  assert (Hb : 0 < b) by (unfold b; nia).
  assert (Ha : 0 <= a) by (unfold a; nia).
  (* 2^52 * b <= a *)
  assert (Hlo : 2 ^ 52 * b <= a).
  { apply (Z.mul_le_mono_pos_r _ _ Nf); [lia|].
    assert (2 ^ 52 * b * Nf = d * Pf * Ne) by (unfold b; nia).
    assert (d * Pf * Ne <= n * Nf * Ne) by nia.
    unfold a. nia. }
  pose proof (rne_div_err a b Ha Hb) as Hm.
  set (m := rne_div a b) in *.
  assert (Hp52 : 0 < 2 ^ 52) by (apply Z.pow_pos_nonneg; lia).
  assert (Hmpos : 0 < m) by nia.
  assert (HK : K = 2 * 2 ^ 52) by reflexivity.
  destruct (0 <=? e) eqn:Ee; [apply Z.leb_le in Ee|apply Z.leb_gt in Ee]; cbn [fst snd].
  - (* result m * 2^e / 1, with Ne = 1 and Pe = 2^e *)
    assert (HNe1 : Ne = 1) by (unfold Ne, pN; rewrite Z.max_r by lia; reflexivity).
    assert (HPe2 : Pe = 2 ^ e) by (unfold Pe, pP; rewrite Z.max_l by lia; reflexivity).
    rewrite <- HPe2.
    split; [nia|]. split; [lia|].
    replace (m * Pe * d - n * 1) with (m * b - a) by (unfold a, b; rewrite HNe1; ring).
    rewrite Z.mul_1_r. replace n with a by (unfold a; rewrite HNe1; ring).
    rewrite HK. lia.
  - assert (HPe1 : Pe = 1) by (unfold Pe, pP; rewrite Z.max_r by lia; reflexivity).
    assert (HNe2 : Ne = 2 ^ (- e)) by (unfold Ne, pN; rewrite Z.max_l by lia; reflexivity).
    rewrite <- HNe2.
    split; [exact Hmpos|]. split; [lia|].
    replace (m * d - n * Ne) with (m * b - a) by (unfold a, b; rewrite HPe1; ring).
    fold a. rewrite HK. lia.
Qed.

(* ------------------------------------------------------------------ the percentage *)
Lemma fl53_lower n d : 0 < n -> 0 < d ->
  0 < fst (fl53 n d) /\ 0 < snd (fl53 n d)
  /\ (K - 1) * (n * snd (fl53 n d)) <= K * (fst (fl53 n d) * d)
  /\ K * (fst (fl53 n d) * d) <= (K + 1) * (n * snd (fl53 n d)).
Proof.
  intros Hn Hd. destruct (fl53_err n d Hn Hd) as (H1 & H2 & H3).
  split; [exact H1|]. split; [exact H2|].
  assert (HK : K = 9007199254740992) by reflexivity. rewrite HK in *.
  set (x := fst (fl53 n d) * d) in *. set (y := n * snd (fl53 n d)) in *. lia.
Qed.

Lemma K_gt1 : 1 < K.
Proof. reflexivity. Qed.

(* generic chaining step: from  k*x*b >= j*a*y ,  c*y'... see uses *)
Lemma pct_chain (k c e t En Ed Tn Td Qn Qd Rn Rd : Z) :
  1 < k -> 0 < e -> 0 < t ->
  0 < En -> 0 < Ed -> 0 < Tn -> 0 < Td -> 0 < Qn -> 0 < Qd -> 0 < Rn -> 0 < Rd ->
  (k - 1) * (e * Ed) <= k * (En * 1) ->
  k * (Tn * 1) <= (k + 1) * (t * Td) ->
  (k - 1) * (En * Td * Qd) <= k * (Qn * (Ed * Tn)) ->
  (k - 1) * (Qn * 100 * Rd) <= k * (Rn * (Qd * 1)) ->
  2 * Rn < c * Rd ->
  200 * ((k - 1) * (k - 1) * (k - 1)) * e < c * (k * k * (k + 1)) * t.
Proof.
  intros Hk He Ht HEn HEd HTn HTd HQn HQd HRn HRd H1 H2 H3 H4 H5.
  (* A *)
  assert (HA : 200 * (k - 1) * Qn < c * k * Qd).
  { destruct (Z.lt_ge_cases (200 * (k - 1) * Qn) (c * k * Qd)) as [H|H]; [exact H|exfalso].
    assert (c * k * Qd * Rd <= 200 * (k - 1) * Qn * Rd) by nia.
    assert (200 * (k - 1) * Qn * Rd <= 2 * k * Rn * Qd) by nia.
    assert (2 * Rn * (k * Qd) < c * Rd * (k * Qd)) by (apply Z.mul_lt_mono_pos_r; nia).
    nia. }
  assert (Hc : 0 < c) by nia.
  (* B *)
  assert (HB : 200 * ((k - 1) * (k - 1)) * (En * Td) < c * (k * k) * (Ed * Tn)).
  { destruct (Z.lt_ge_cases (200 * ((k - 1) * (k - 1)) * (En * Td)) (c * (k * k) * (Ed * Tn))) as [H|H];
      [exact H|exfalso].
    assert (c * (k * k) * (Ed * Tn) * Qd <= 200 * ((k - 1) * (k - 1)) * (En * Td) * Qd)
      by (apply Z.mul_le_mono_nonneg_r; lia).
    assert (200 * (k - 1) * ((k - 1) * (En * Td * Qd)) <= 200 * (k - 1) * (k * (Qn * (Ed * Tn))))
      by (apply Z.mul_le_mono_nonneg_l; nia).
    assert (200 * (k - 1) * Qn * (k * (Ed * Tn)) < c * k * Qd * (k * (Ed * Tn)))
      by (apply Z.mul_lt_mono_pos_r; nia).
    nia. }
  (* C *)
  assert (HC : 200 * ((k - 1) * (k - 1) * (k - 1)) * (e * Td) < c * (k * k * k) * Tn).
  { destruct (Z.lt_ge_cases (200 * ((k - 1) * (k - 1) * (k - 1)) * (e * Td)) (c * (k * k * k) * Tn)) as [H|H];
      [exact H|exfalso].
    assert (c * (k * k * k) * Tn * Ed <= 200 * ((k - 1) * (k - 1) * (k - 1)) * (e * Td) * Ed)
      by (apply Z.mul_le_mono_nonneg_r; lia).
    assert (200 * ((k - 1) * (k - 1)) * Td * ((k - 1) * (e * Ed))
            <= 200 * ((k - 1) * (k - 1)) * Td * (k * (En * 1)))
      by (apply Z.mul_le_mono_nonneg_l; nia).
    assert (200 * ((k - 1) * (k - 1)) * (En * Td) * k < c * (k * k) * (Ed * Tn) * k)
      by (apply Z.mul_lt_mono_pos_r; lia).
    nia. }
  (* D *)
  destruct (Z.lt_ge_cases (200 * ((k - 1) * (k - 1) * (k - 1)) * e) (c * (k * k * (k + 1)) * t)) as [H|H];
    [exact H|exfalso].
  assert (c * (k * k * (k + 1)) * t * Td <= 200 * ((k - 1) * (k - 1) * (k - 1)) * e * Td)
    by (apply Z.mul_le_mono_nonneg_r; lia).
  assert (c * (k * k) * (k * (Tn * 1)) <= c * (k * k) * ((k + 1) * (t * Td)))
    by (apply Z.mul_le_mono_nonneg_l; nia).
  nia.
Qed.

Lemma fround_le (rn rd thr : Z) : 0 < rd -> fround (rn, rd) <= thr -> 2 * rn < (2 * thr + 1) * rd.
Proof.
  intros Hd. unfold fround. cbn [fst snd]. intro H.
  pose proof (Z.div_mod (2 * rn + rd) (2 * rd) ltac:(lia)) as Hdm.
  pose proof (Z.mod_pos_bound (2 * rn + rd) (2 * rd) ltac:(lia)) as Hr.
  nia.
Qed.

(* a percentage that passes the comparison [pct_float e t <= thr] is, in exact arithmetic,
   below thr + 1/2 up to the factor K^2 (K+1) / (K-1)^3, K = 2^53 *)
Lemma pct_float_pass_bound e t thr : 0 < e -> 0 < t -> pct_float e t <= thr ->
  200 * ((K - 1) * (K - 1) * (K - 1)) * e < (2 * thr + 1) * (K * K * (K + 1)) * t.
Proof.
  intros He Ht. unfold pct_float.
  rewrite (Z.sgn_pos e He), (Z.sgn_pos t Ht), (Z.abs_eq e), (Z.abs_eq t) by lia.
  rewrite !Z.mul_1_l. unfold f_of_int, fdiv, fmul. cbn [fst snd].
  destruct (fl53_lower e 1 He ltac:(lia)) as (HEn & HEd & HE1 & _).
  destruct (fl53_lower t 1 Ht ltac:(lia)) as (HTn & HTd & _ & HT2).
  set (E := fl53 e 1) in *. set (T := fl53 t 1) in *.
  assert (Hqn : 0 < fst E * snd T) by nia. assert (Hqd : 0 < snd E * fst T) by nia.
  destruct (fl53_lower _ _ Hqn Hqd) as (HQn & HQd & HQ1 & _).
  set (Q := fl53 (fst E * snd T) (snd E * fst T)) in *.
  assert (Hrn : 0 < fst Q * 100) by lia. assert (Hrd : 0 < snd Q * 1) by lia.
  destruct (fl53_lower _ _ Hrn Hrd) as (HRn & HRd & HR1 & _).
  set (R := fl53 (fst Q * 100) (snd Q * 1)) in *.
  intro Hpass. rewrite (surjective_pairing R) in Hpass.
  apply (fround_le _ _ _ HRd) in Hpass.
  apply (pct_chain K (2 * thr + 1) e t (fst E) (snd E) (fst T) (snd T) (fst Q) (snd Q) (fst R) (snd R));
    try assumption; try exact K_gt1.
Qed.

(* ------------------------------------------------------------------ the reject side *)
Lemma pct_chain_up (k c e t En Ed Tn Td Qn Qd Rn Rd : Z) :
  1 < k -> 0 < e -> 0 < t ->
  0 < En -> 0 < Ed -> 0 < Tn -> 0 < Td -> 0 < Qn -> 0 < Qd -> 0 < Rn -> 0 < Rd ->
  k * (En * 1) <= (k + 1) * (e * Ed) ->
  (k - 1) * (t * Td) <= k * (Tn * 1) ->
  k * (Qn * (Ed * Tn)) <= (k + 1) * (En * Td * Qd) ->
  k * (Rn * (Qd * 1)) <= (k + 1) * (Qn * 100 * Rd) ->
  c * Rd <= 2 * Rn ->
  c * (k * k * (k - 1)) * t <= 200 * ((k + 1) * (k + 1) * (k + 1)) * e.
Proof.
  intros Hk He Ht HEn HEd HTn HTd HQn HQd HRn HRd H1 H2 H3 H4 H5.
  destruct (Z.le_gt_cases c 0) as [Hc|Hc]; [nia|].
  (* A *)
  assert (HA : c * k * Qd <= 200 * (k + 1) * Qn).
  { apply (Z.mul_le_mono_pos_r _ _ Rd HRd).
    assert (c * Rd * (k * Qd) <= 2 * Rn * (k * Qd)) by (apply Z.mul_le_mono_nonneg_r; nia).
    nia. }
  (* B *)
  assert (HB : c * (k * k) * (Ed * Tn) <= 200 * ((k + 1) * (k + 1)) * (En * Td)).
  { apply (Z.mul_le_mono_pos_r _ _ Qd HQd).
    assert (c * k * Qd * (k * (Ed * Tn)) <= 200 * (k + 1) * Qn * (k * (Ed * Tn)))
      by (apply Z.mul_le_mono_nonneg_r; nia).
    assert (200 * (k + 1) * (k * (Qn * (Ed * Tn))) <= 200 * (k + 1) * ((k + 1) * (En * Td * Qd)))
      by (apply Z.mul_le_mono_nonneg_l; nia).
    nia. }
  (* C *)
  assert (HC : c * (k * k * k) * Tn <= 200 * ((k + 1) * (k + 1) * (k + 1)) * (e * Td)).
  { apply (Z.mul_le_mono_pos_r _ _ Ed HEd).
    assert (c * (k * k) * (Ed * Tn) * k <= 200 * ((k + 1) * (k + 1)) * (En * Td) * k)
      by (apply Z.mul_le_mono_nonneg_r; lia).
    assert (200 * ((k + 1) * (k + 1)) * Td * (k * (En * 1))
            <= 200 * ((k + 1) * (k + 1)) * Td * ((k + 1) * (e * Ed)))
      by (apply Z.mul_le_mono_nonneg_l; nia).
    nia. }
  (* D *)
  apply (Z.mul_le_mono_pos_r _ _ Td HTd).
  assert (c * (k * k) * ((k - 1) * (t * Td)) <= c * (k * k) * (k * (Tn * 1)))
    by (apply Z.mul_le_mono_nonneg_l; nia).
  nia.
Qed.

Lemma fl53_upper n d : 0 < n -> 0 < d ->
  0 < fst (fl53 n d) /\ 0 < snd (fl53 n d)
  /\ (K - 1) * (n * snd (fl53 n d)) <= K * (fst (fl53 n d) * d)
  /\ K * (fst (fl53 n d) * d) <= (K + 1) * (n * snd (fl53 n d)).
Proof. exact (fl53_lower n d). Qed.

Lemma fround_gt (rn rd thr : Z) : 0 < rd -> thr < fround (rn, rd) -> (2 * thr + 1) * rd <= 2 * rn.
Proof.
  intros Hd. unfold fround. cbn [fst snd]. intro H.
  pose proof (Z.div_mod (2 * rn + rd) (2 * rd) ltac:(lia)) as Hdm.
  pose proof (Z.mod_pos_bound (2 * rn + rd) (2 * rd) ltac:(lia)) as Hr.
  nia.
Qed.

(* a percentage that fails the comparison is, in exact arithmetic, at least thr + 1/2 up to the
   factor K^2 (K-1) / (K+1)^3 *)
Lemma pct_float_reject_bound e t thr : 0 < e -> 0 < t -> thr < pct_float e t ->
  (2 * thr + 1) * (K * K * (K - 1)) * t <= 200 * ((K + 1) * (K + 1) * (K + 1)) * e.
Proof.
  intros He Ht. unfold pct_float.
  rewrite (Z.sgn_pos e He), (Z.sgn_pos t Ht), (Z.abs_eq e), (Z.abs_eq t) by lia.
  rewrite !Z.mul_1_l. unfold f_of_int, fdiv, fmul. cbn [fst snd].
  destruct (fl53_lower e 1 He ltac:(lia)) as (HEn & HEd & _ & HE2).
  destruct (fl53_lower t 1 Ht ltac:(lia)) as (HTn & HTd & HT1 & _).
  set (E := fl53 e 1) in *. set (T := fl53 t 1) in *.
  assert (Hqn : 0 < fst E * snd T) by nia. assert (Hqd : 0 < snd E * fst T) by nia.
  destruct (fl53_lower _ _ Hqn Hqd) as (HQn & HQd & _ & HQ2).
  set (Q := fl53 (fst E * snd T) (snd E * fst T)) in *.
  assert (Hrn : 0 < fst Q * 100) by lia. assert (Hrd : 0 < snd Q * 1) by lia.
  destruct (fl53_lower _ _ Hrn Hrd) as (HRn & HRd & _ & HR2).
  set (R := fl53 (fst Q * 100) (snd Q * 1)) in *.
  intro Hrej. rewrite (surjective_pairing R) in Hrej.
  apply (fround_gt _ _ _ HRd) in Hrej.
  apply (pct_chain_up K (2 * thr + 1) e t (fst E) (snd E) (fst T) (snd T) (fst Q) (snd Q) (fst R) (snd R));
    try assumption; try exact K_gt1.
Qed.
