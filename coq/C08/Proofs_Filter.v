(* C08 — the Filter decision: threshold soundness/completeness in from-scratch terms, the
   closed form of the estimate, the expiry decision table and the threshold-profile choice. *)
From Coq Require Import List ZArith Bool Lia.
From Verif Require Import C08.Model C08.Spec C08.Proofs C08.Proofs_Drift.
Import ListNotations.
Open Scope Z_scope.

(* ------------------------------------------------------------------ filterNodeUsage *)
Lemma nth_hd_tl {A} (d : A) i l : nth (S i) l d = nth i (tl l) d.
Proof. destruct l; [destruct i; reflexivity|reflexivity]. Qed.
Lemma nth0_hd (l : list Z) : nth 0 l 0 = hd 0 l.
Proof. destruct l; reflexivity. Qed.

(* the node passes the threshold loop iff every thresholded dimension with non-zero
   allocatable has its rounded percentage at or below the threshold *)
Lemma usage_exceeds_false thr est alloc :
  usage_exceeds thr est alloc = false <->
  (forall i, (i < length thr)%nat -> nth i thr 0 <> 0 -> nth i alloc 0 <> 0 ->
             pct_float (nth i est 0) (nth i alloc 0) <= nth i thr 0).
Proof.
  revert est alloc. induction thr as [|v thr IH]; intros est alloc; cbn [usage_exceeds length].
  - split; [intros _ i Hi; lia|reflexivity].
  - destruct ((v =? 0) || (hd 0 alloc =? 0)) eqn:E0.
    + rewrite IH. split.
      * intros H [|i] Hi Ht Ha.
        -- cbn [nth] in Ht. rewrite nth0_hd in Ha.
           apply orb_prop in E0. destruct E0 as [E|E]; apply Z.eqb_eq in E; congruence.
        -- cbn [nth] in Ht. rewrite !nth_hd_tl in *. apply H; [lia|exact Ht|exact Ha].
      * intros H i Hi Ht Ha. specialize (H (S i)). cbn [nth] in H. rewrite !nth_hd_tl in H.
        apply H; [lia|exact Ht|exact Ha].
    + apply orb_false_elim in E0. destruct E0 as [Ev Ea]. apply Z.eqb_neq in Ev, Ea.
      destruct (pct_float (hd 0 est) (hd 0 alloc) <=? v) eqn:Ep.
      * apply Z.leb_le in Ep. rewrite IH. split.
        -- intros H [|i] Hi Ht Ha.
           ++ cbn [nth]. now rewrite !nth0_hd.
           ++ cbn [nth] in Ht |- *. rewrite !nth_hd_tl in *. apply H; [lia|exact Ht|exact Ha].
        -- intros H i Hi Ht Ha. specialize (H (S i)). cbn [nth] in H. rewrite !nth_hd_tl in H.
           apply H; [lia|exact Ht|exact Ha].
      * apply Z.leb_gt in Ep. split; [discriminate|].
        intro H. specialize (H O). cbn [nth] in H. rewrite !nth0_hd in H.
        assert (pct_float (hd 0 est) (hd 0 alloc) <= v) by (apply H; [lia|exact Ev|exact Ea]). lia.
Qed.

Lemma nth_vzip f v y i : (i < length v)%nat -> nth i (vzip f v y) 0 = f (nth i v 0) (nth i y 0).
Proof.
  revert y i. induction v as [|a v IH]; intros y i Hi; [cbn in Hi; lia|].
  destruct i as [|i]; cbn [vzip nth].
  - now rewrite nth0_hd.
  - rewrite nth_hd_tl. apply IH. cbn in Hi. lia.
Qed.

Lemma nth_vadd v y i : (i < length v)%nat -> nth i (vadd v y) 0 = nth i v 0 + nth i y 0.
Proof. apply nth_vzip. Qed.

(* ------------------------------------------------------------------ decision table *)
(* whether the configuration asks Filter to look at the age of the report at all *)
Definition expiry_applies (cfg : config) (m : metric) : bool :=
  match c_filter_expired cfg, c_exp_seconds cfg with
  | Some true, Some s => metric_expired m s
  | _, _ => false
  end.

Lemma filter_daemonset cfg nd p st : daemonset p = true -> filter_decide cfg nd p st = 0.
Proof. intro H. unfold filter_decide. now rewrite H. Qed.

Lemma filter_no_metric cfg nd p : filter_decide cfg nd p None = 0.
Proof.
  unfold filter_decide. destruct (daemonset p); [reflexivity|].
  destruct (select_thresholds _ _) as [[[[thr isAgg] aggT] aggD] prodPod].
  now destruct (vempty thr).
Qed.

(* the full decision for a non-daemonset pod on a node with a stored report *)
Lemma filter_decide_table cfg nd p m get thr isAgg aggT aggD prodPod est :
  daemonset p = false ->
  select_thresholds (node_profile cfg nd) (is_prod p) = (thr, isAgg, aggT, aggD, prodPod) ->
  get prodPod aggT aggD = Some est ->
  filter_decide cfg nd p (Some (m, get)) =
    if vempty thr then 0
    else if expiry_applies cfg m then
      (match c_enable_expired cfg with Some false => 3 | _ => 0 end)
    else if negb (is_some (m_info m)) then 0
    else if usage_exceeds thr (vadd est (est_vec cfg p)) (eff_alloc nd)
    then (if isAgg then 2 else 1) else 0.
Proof.
  intros Hds Hsel Hget. unfold filter_decide, expiry_applies. rewrite Hds, Hsel, Hget. reflexivity.
Qed.

(* nodes without fresh metrics: rejected exactly when scheduling on expired metrics is
   explicitly disabled, skipped otherwise *)
Lemma filter_expired cfg nd p m get thr isAgg aggT aggD prodPod est :
  daemonset p = false ->
  select_thresholds (node_profile cfg nd) (is_prod p) = (thr, isAgg, aggT, aggD, prodPod) ->
  vempty thr = false ->
  get prodPod aggT aggD = Some est ->
  expiry_applies cfg m = true ->
  filter_decide cfg nd p (Some (m, get)) =
    match c_enable_expired cfg with Some false => 3 | _ => 0 end.
Proof.
  intros Hds Hsel Hthr Hget Hexp.
  rewrite (filter_decide_table _ _ _ _ _ _ _ _ _ _ _ Hds Hsel Hget). now rewrite Hthr, Hexp.
Qed.

Lemma metric_expired_spec m s :
  metric_expired m s = true <->
  (m_ut m = None \/ exists t, m_ut m = Some t /\ 0 < s /\ s <= 0 - t).
Proof.
  unfold metric_expired. destruct (m_ut m) as [t|].
  - rewrite andb_true_iff, Z.ltb_lt, Z.leb_le. split.
    + intros [H1 H2]. right. exists t. tauto.
    + intros [H|(t' & Ht & H1 & H2)]; [discriminate|]. injection Ht as <-. tauto.
  - split; [intros _; now left|reflexivity].
Qed.

(* a fresh report: the threshold loop alone decides *)
Lemma filter_fresh cfg nd p m get thr isAgg aggT aggD prodPod est :
  daemonset p = false ->
  select_thresholds (node_profile cfg nd) (is_prod p) = (thr, isAgg, aggT, aggD, prodPod) ->
  get prodPod aggT aggD = Some est ->
  expiry_applies cfg m = false -> is_some (m_info m) = true ->
  (filter_decide cfg nd p (Some (m, get)) = 0 <->
   (forall i, (i < length thr)%nat -> nth i thr 0 <> 0 -> nth i (eff_alloc nd) 0 <> 0 ->
      pct_float (nth i (vadd est (est_vec cfg p)) 0) (nth i (eff_alloc nd) 0) <= nth i thr 0)).
Proof.
  intros Hds Hsel Hget Hexp Hinfo.
  rewrite (filter_decide_table _ _ _ _ _ _ _ _ _ _ _ Hds Hsel Hget). rewrite Hexp, Hinfo. cbn [negb].
  rewrite <- usage_exceeds_false.
  destruct (vempty thr) eqn:Ev.
  - split; [intros _|reflexivity].
    (* all thresholds zero: nothing is thresholded *)
    apply usage_exceeds_false. intros i Hi Ht. exfalso. apply Ht.
    clear -Ev Hi. revert i Hi. induction thr as [|v thr IH]; intros i Hi; [cbn in Hi; lia|].
    cbn [vempty forallb] in Ev. apply andb_prop in Ev. destruct Ev as [E1 E2].
    apply Z.eqb_eq in E1. destruct i; [now cbn|]. cbn [nth]. apply IH; [exact E2|cbn in Hi; lia].
  - destruct (usage_exceeds thr (vadd est (est_vec cfg p)) (eff_alloc nd)).
    + split; [destruct isAgg; discriminate|discriminate].
    + tauto.
Qed.

(* ------------------------------------------------------------------ closed form of the sums *)
(* what one pod adds to nodeDelta: the amount by which its estimate exceeds its reported usage,
   when the report does not yet reflect it ([should]); nothing otherwise *)
Definition node_delta_term (m : metric) (ut : Z) (pi : pinfo) : vec :=
  match pi_est pi with
  | Some e => let u := pod_usage m (p_key (pi_pod pi)) in
              if should m ut pi u then dpos e (ovec u) else []
  | None => []
  end.
Definition node_est_term (pi : pinfo) : vec := ovec (pi_est pi).
Definition vsum_from (b : vec) (l : list vec) : vec := fold_left vadd l b.

Lemma addall_nodeDelta f l b :
  s_nodeDelta (addall f l b) = vsum_from (s_nodeDelta b) (map (fun p => s_nodeDelta (f (snd p))) l).
Proof.
  revert b. induction l as [|p l IH]; intro b; [reflexivity|].
  cbn [addall fold_left map vsum_from]. fold (addall f l (sums_add b (f (snd p)))).
  rewrite IH. reflexivity.
Qed.
Lemma addall_nodeEst f l b :
  s_nodeEst (addall f l b) = vsum_from (s_nodeEst b) (map (fun p => s_nodeEst (f (snd p))) l).
Proof.
  revert b. induction l as [|p l IH]; intro b; [reflexivity|].
  cbn [addall fold_left map vsum_from]. fold (addall f l (sums_add b (f (snd p)))).
  rewrite IH. reflexivity.
Qed.

Lemma contrib_nodeDelta m ut pi : s_nodeDelta (contrib m ut pi) = node_delta_term m ut pi.
Proof. unfold contrib, node_delta_term. destruct (pi_est pi); reflexivity. Qed.
Lemma contrib_nodeEst m ut pi : s_nodeEst (contrib m ut pi) = node_est_term pi.
Proof. unfold contrib, node_est_term. destruct (pi_est pi); reflexivity. Qed.

Lemma rebuild_nodeDelta cfg m ut pods :
  s_nodeDelta (rebuild cfg m ut pods)
  = vsum_from vzero (map (fun p => node_delta_term m ut (snd p)) pods).
Proof.
  rewrite rebuild_addall, addall_nodeDelta. f_equal.
  apply map_ext. intro p. apply contrib_nodeDelta.
Qed.
Lemma rebuild_nodeEst cfg m ut pods :
  s_nodeEst (rebuild cfg m ut pods) = vsum_from vzero (map (fun p => node_est_term (snd p)) pods).
Proof.
  rewrite rebuild_addall, addall_nodeEst. f_equal.
  apply map_ext. intro p. apply contrib_nodeEst.
Qed.

(* pointwise reading of a vector sum *)
Lemma nth_vsum_from b l i :
  (i < length b)%nat ->
  nth i (vsum_from b l) 0 = nth i b 0 + fold_right Z.add 0 (map (fun v => nth i v 0) l).
Proof.
  revert b. induction l as [|v l IH]; intros b Hi; cbn [vsum_from fold_left map fold_right]; [lia|].
  fold (vsum_from (vadd b v) l). rewrite IH by (unfold vadd; now rewrite vzip_length).
  rewrite nth_vadd by exact Hi. lia.
Qed.

(* ------------------------------------------------------------------ profile selection *)
Lemma select_prod pr cls :
  vempty (ovec (pr_prod pr)) = false -> cls = true ->
  select_thresholds pr cls = (ovec (pr_prod pr), false, 0, 0, true).
Proof. intros H ->. unfold select_thresholds. now rewrite H. Qed.

Lemma select_agg pr cls thr t d :
  (vempty (ovec (pr_prod pr)) = true \/ cls = false) -> pr_agg pr = Some (thr, t, d) ->
  select_thresholds pr cls = (thr, true, t, d, false).
Proof.
  intros H Ha. unfold select_thresholds. rewrite Ha.
  destruct H as [H|H]; rewrite H; [|rewrite andb_false_r]; reflexivity.
Qed.

Lemma select_whole pr cls :
  (vempty (ovec (pr_prod pr)) = true \/ cls = false) -> pr_agg pr = None ->
  select_thresholds pr cls = (ovec (pr_thr pr), false, 0, 0, false).
Proof.
  intros H Ha. unfold select_thresholds. rewrite Ha.
  destruct H as [H|H]; rewrite H; [|rewrite andb_false_r]; reflexivity.
Qed.

(* a node without the custom-thresholds annotation uses the plugin's profile *)
Lemma node_profile_default cfg nd : nd_custom nd = None -> node_profile cfg nd = base_profile cfg.
Proof. intro H. unfold node_profile. now rewrite H. Qed.

(* ------------------------------------------------------------------ soundness on histories *)
(* Filter on the cache reached by ANY history, stated on the from-scratch estimate *)
Lemma filter_sound_complete cfg ops nd p n m thr isAgg aggT aggD prodPod :
  alookup (nd_name nd) (run cfg ops) = Some n -> n_metric n = Some m ->
  daemonset p = false ->
  select_thresholds (node_profile cfg nd) (is_prod p) = (thr, isAgg, aggT, aggD, prodPod) ->
  expiry_applies cfg m = false -> is_some (m_info m) = true ->
  (filter cfg (run cfg ops) nd p = 0 <->
   (forall i, (i < length thr)%nat -> nth i thr 0 <> 0 -> nth i (eff_alloc nd) 0 <> 0 ->
      pct_float
        (nth i (vadd (est_of m (rebuild cfg m (n_ut n) (n_pods n)) prodPod aggT aggD)
                     (est_vec cfg p)) 0)
        (nth i (eff_alloc nd) 0) <= nth i thr 0)).
Proof.
  intros Hn Hm Hds Hsel Hexp Hinfo.
  unfold filter, node_view. rewrite Hn, Hm.
  rewrite <- (no_drift cfg ops _ _ _ Hn Hm).
  apply (filter_fresh cfg nd p m (get_est n) thr isAgg aggT aggD prodPod
           (est_of m (n_sums n) prodPod aggT aggD)); try assumption.
  unfold get_est. now rewrite Hm.
Qed.

(* the estimate of the existing pods for the whole-node profile, in the words of the property:
   last reported usage plus, for every pod whose usage the report does not yet reflect, the
   amount by which its estimate exceeds its reported usage *)
Lemma whole_node_estimate cfg m ut pods u i :
  node_usage m = Some u -> (i < dims)%nat ->
  nth i (est_of m (rebuild cfg m ut pods) false 0 0) 0
  = nth i u 0 + fold_right Z.add 0 (map (fun p => nth i (node_delta_term m ut (snd p)) 0) pods).
Proof.
  intros Hu Hi. unfold est_of. cbn [Z.eqb]. rewrite Hu.
  assert (Hl : length (vadd vzero u) = dims) by (unfold vadd; now rewrite vzip_length).
  rewrite nth_vadd by lia. rewrite nth_vadd by (cbn; exact Hi).
  rewrite rebuild_nodeDelta, nth_vsum_from by (cbn; exact Hi).
  rewrite map_map.
  replace (nth i vzero 0) with 0 by (unfold vzero, dims; destruct i as [|[|[|i]]]; reflexivity).
  lia.
Qed.

(* without any usage to start from (aggregated profile with no matching statistics) the
   estimate is the sum of the full estimates *)
Lemma no_usage_estimate cfg m ut pods t d i :
  t <> 0 -> target_agg m t d = None -> (i < dims)%nat ->
  nth i (est_of m (rebuild cfg m ut pods) false t d) 0
  = fold_right Z.add 0 (map (fun p => nth i (node_est_term (snd p)) 0) pods).
Proof.
  intros Ht Ha Hi. unfold est_of. apply Z.eqb_neq in Ht. rewrite Ht, Ha.
  rewrite nth_vadd by (cbn; exact Hi).
  rewrite rebuild_nodeEst, nth_vsum_from by (cbn; exact Hi). rewrite map_map.
  replace (nth i vzero 0) with 0 by (unfold vzero, dims; destruct i as [|[|[|i]]]; reflexivity).
  lia.
Qed.

(* each term is non-negative and at most the pod's estimate when usages are non-negative *)
Lemma node_delta_term_nonneg m ut pi i : 0 <= nth i (node_delta_term m ut pi) 0.
Proof.
  unfold node_delta_term. destruct (pi_est pi) as [e|]; [|destruct i; cbn; lia].
  destruct (should m ut pi _); [|destruct i; cbn; lia].
  destruct (Nat.lt_ge_cases i (length e)) as [H|H].
  - unfold dpos. rewrite nth_vzip by exact H. lia.
  - rewrite nth_overflow; [lia|]. unfold dpos. now rewrite vzip_length.
Qed.

(* ------------------------------------------------------------------ the other profiles *)
(* aggregated profile with matching statistics: that usage plus the same per-pod terms *)
Lemma agg_estimate cfg m ut pods t d u i :
  t <> 0 -> target_agg m t d = Some u -> (i < dims)%nat ->
  nth i (est_of m (rebuild cfg m ut pods) false t d) 0
  = nth i u 0 + fold_right Z.add 0 (map (fun p => nth i (node_delta_term m ut (snd p)) 0) pods).
Proof.
  intros Ht Hu Hi. unfold est_of. apply Z.eqb_neq in Ht. rewrite Ht, Hu.
  rewrite nth_vadd by (unfold vadd; rewrite vzip_length; exact Hi).
  rewrite nth_vadd by (cbn; exact Hi).
  rewrite rebuild_nodeDelta, nth_vsum_from by (cbn; exact Hi).
  rewrite map_map.
  replace (nth i vzero 0) with 0 by (unfold vzero, dims; destruct i as [|[|[|i]]]; reflexivity).
  lia.
Qed.

(* prod profile: usage of the pods that both claim to be prod and are reported as prod
   (+ system usage when configured), plus for every prod pod its estimate in excess of that
   usage — in full when the pod is not reported as prod *)
Definition prod_usage_term (m : metric) (pi : pinfo) : vec :=
  let key := p_key (pi_pod pi) in
  if is_prod (pi_pod pi) && prod_reported m key then ovec (pod_usage m key) else [].
Definition prod_delta_term (m : metric) (ut : Z) (pi : pinfo) : vec :=
  match pi_est pi with
  | Some e =>
    let key := p_key (pi_pod pi) in
    let u := pod_usage m key in
    if is_prod (pi_pod pi) then
      (if negb (prod_reported m key) && is_some u then dpos e []
       else if should m ut pi u then dpos e (ovec u) else [])
    else []
  | None => []
  end.

Lemma addall_prodUsage f l b :
  s_prodUsage (addall f l b) = vsum_from (s_prodUsage b) (map (fun p => s_prodUsage (f (snd p))) l).
Proof.
  revert b. induction l as [|p l IH]; intro b; [reflexivity|].
  cbn [addall fold_left map vsum_from]. fold (addall f l (sums_add b (f (snd p)))).
  rewrite IH. reflexivity.
Qed.
Lemma addall_prodDelta f l b :
  s_prodDelta (addall f l b) = vsum_from (s_prodDelta b) (map (fun p => s_prodDelta (f (snd p))) l).
Proof.
  revert b. induction l as [|p l IH]; intro b; [reflexivity|].
  cbn [addall fold_left map vsum_from]. fold (addall f l (sums_add b (f (snd p)))).
  rewrite IH. reflexivity.
Qed.

Lemma contrib_prodUsage m ut pi : s_prodUsage (contrib m ut pi) = prod_usage_term m pi.
Proof. unfold contrib, prod_usage_term. destruct (pi_est pi); reflexivity. Qed.
Lemma contrib_prodDelta m ut pi : s_prodDelta (contrib m ut pi) = prod_delta_term m ut pi.
Proof.
  unfold contrib, prod_delta_term. destruct (pi_est pi); [|reflexivity]. cbn [s_prodDelta].
  destruct (is_prod (pi_pod pi)); cbn [andb]; [|reflexivity].
  destruct (prod_reported m (p_key (pi_pod pi))); reflexivity.
Qed.

Lemma prod_estimate cfg m ut pods i :
  (i < dims)%nat ->
  nth i (est_of m (rebuild cfg m ut pods) true 0 0) 0
  = nth i (s_prodUsage (base_sums cfg m)) 0
    + fold_right Z.add 0 (map (fun p => nth i (prod_usage_term m (snd p)) 0) pods)
    + fold_right Z.add 0 (map (fun p => nth i (prod_delta_term m ut (snd p)) 0) pods).
Proof.
  intro Hi. unfold est_of.
  assert (Hb : length (s_prodUsage (base_sums cfg m)) = dims).
  { unfold base_sums. destruct (m_info m) as [mi|]; [|reflexivity].
    destruct (c_include_sys cfg); [|reflexivity]. cbn [s_prodUsage]. unfold vadd. now rewrite vzip_length. }
  rewrite nth_vadd by (unfold vadd; rewrite vzip_length; exact Hi).
  rewrite nth_vadd by (cbn; exact Hi).
  rewrite !rebuild_addall, addall_prodUsage, addall_prodDelta.
  rewrite !nth_vsum_from by (try rewrite Hb; cbn; exact Hi).
  rewrite !map_map.
  replace (nth i vzero 0) with 0 by (unfold vzero, dims; destruct i as [|[|[|i]]]; reflexivity).
  cbn [base_sums s_prodDelta].
  replace (nth i (s_prodDelta (base_sums cfg m)) 0) with 0
    by (unfold base_sums; cbn [s_prodDelta]; unfold vzero, dims; destruct i as [|[|[|i]]]; reflexivity).
  rewrite (map_ext (fun p => nth i (s_prodUsage (contrib m ut (snd p))) 0)
                   (fun p => nth i (prod_usage_term m (snd p)) 0))
    by (intro p; now rewrite contrib_prodUsage).
  rewrite (map_ext (fun p => nth i (s_prodDelta (contrib m ut (snd p))) 0)
                   (fun p => nth i (prod_delta_term m ut (snd p)) 0))
    by (intro p; now rewrite contrib_prodDelta).
  replace (nth i vzero 0) with 0 by (unfold vzero, dims; destruct i as [|[|[|i]]]; reflexivity).
  lia.
Qed.
