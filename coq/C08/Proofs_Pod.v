(* C08 — the pod the estimator and the cache see: priority-class derivation (label, spec.priority
   band, QoS default), the aggregation of containers / init containers / overhead into the pod's
   requests and limits, and the estimate computed from them. *)
From Coq Require Import List ZArith Bool Lia.
From Verif Require Import C08.Model C08.Spec C08.Proofs C08.Proofs_Drift C08.Proofs_Filter C08.Proofs_Float.
Import ListNotations.
Open Scope Z_scope.

(* ------------------------------------------------------------------ the priority class *)
(* a recognised priority-class label decides alone *)
Lemma cls_label_wins p :
  (1 <=? p_label p) && (p_label p <=? 4) = true -> pod_cls p = cls_of_label (p_label p).
Proof.
  intro H. apply andb_prop in H. destruct H as [H1 H2]. apply Z.leb_le in H1, H2.
  unfold pod_cls, raw_cls. destruct (p_label p =? 0) eqn:E0; [apply Z.eqb_eq in E0; lia|].
  cbn [negb]. unfold cls_of_label.
  destruct (p_label p =? 1) eqn:E1; [reflexivity|].
  destruct (p_label p =? 2) eqn:E2; [reflexivity|].
  destruct (p_label p =? 3) eqn:E3; [reflexivity|].
  destruct (p_label p =? 4) eqn:E4; [reflexivity|].
  apply Z.eqb_neq in E1, E2, E3, E4. lia.
Qed.

(* without a label, a spec.priority inside a koordinator band decides *)
Lemma cls_band_next p v :
  p_label p = 0 -> p_prio p = Some v -> cls_of_prio v <> CNone -> pod_cls p = cls_of_prio v.
Proof.
  intros Hl Hp Hc. unfold pod_cls, raw_cls. rewrite Hl, Hp. cbn [Z.eqb negb].
  destruct (cls_of_prio v); try reflexivity. now elim Hc.
Qed.

(* a pod without koordinator priority class (unknown label, no spec.priority, priority outside
   the bands) is classed by its QoS: prod unless best-effort *)
Lemma cls_qos_default p : raw_cls p = CNone -> pod_cls p = qos_cls p.
Proof. intro H. unfold pod_cls. now rewrite H. Qed.

Lemma qos_cls_table p :
  qos_cls p =
    if (1 <=? p_qos p) && (p_qos p <=? 5) then (if p_qos p =? 4 then CBatch else CProd)
    else if p_kqos p =? 0 then (if computed_besteffort p then CBatch else CProd)
    else if p_kqos p =? 3 then CBatch
    else if (p_kqos p =? 1) || (p_kqos p =? 2) then CProd else CNone.
Proof. reflexivity. Qed.

(* an ordinary kubernetes pod (no koordinator labels, any priority outside the bands) that
   requests cpu or memory counts as a prod pod *)
Lemma plain_pod_is_prod p c :
  raw_cls p = CNone -> p_qos p = 0 -> p_kqos p = 0 -> p_fam p = 1 ->
  In c (p_ctrs p) -> ctr_empty c = false -> is_prod p = true.
Proof.
  intros Hr Hq Hk Hf Hin Hc. unfold is_prod. rewrite (cls_qos_default p Hr).
  unfold qos_cls. rewrite Hq, Hk. cbn [Z.leb Z.eqb andb Z.compare].
  unfold computed_besteffort. rewrite Hf. cbn [Z.eqb].
  assert (Hfa : forallb ctr_empty (p_ctrs p) = false).
  { destruct (forallb ctr_empty (p_ctrs p)) eqn:E; [|reflexivity].
    rewrite forallb_forall in E. now rewrite (E c Hin) in Hc. }
  now rewrite Hfa.
Qed.

(* ------------------------------------------------------------------ aggregation *)
Definition vnn (v : vec) : Prop := length v = dims /\ Forall (fun x => 0 <= x) v.
Definition ctr_wf (sel : ctr -> vec) (c : ctr) : Prop := vnn (sel c).

Lemma vnn_zero : vnn vzero.
Proof. split; [reflexivity|]. repeat constructor; lia. Qed.

Lemma vnn_nth v i : vnn v -> 0 <= nth i v 0.
Proof.
  intros [_ H]. revert i. induction H as [|x l Hx _ IH]; intros [|i]; cbn; try lia. apply IH.
Qed.

Lemma vnn_intro v : length v = dims -> (forall i, 0 <= nth i v 0) -> vnn v.
Proof.
  intros Hl Hn. split; [exact Hl|].
  unfold dims in Hl. destruct v as [|a [|b [|c v]]]; try discriminate.
  repeat constructor; [apply (Hn 0%nat)|apply (Hn 1%nat)].
Qed.

Lemma vnn_vadd a b : vnn a -> vnn b -> vnn (vadd a b).
Proof.
  intros Ha Hb. apply vnn_intro; [unfold vadd; rewrite vzip_length; apply Ha|].
  intro i. destruct (Nat.ltb_spec i (length a)) as [Hi|Hi].
  - rewrite nth_vadd by exact Hi. pose proof (vnn_nth a i Ha). pose proof (vnn_nth b i Hb). lia.
  - rewrite nth_overflow; [lia|]. unfold vadd. now rewrite vzip_length.
Qed.

Lemma nth_vmax v y i : (i < length v)%nat -> nth i (vmax v y) 0 = Z.max (nth i v 0) (nth i y 0).
Proof. apply nth_vzip. Qed.

Lemma vnn_vmax a b : vnn a -> vnn b -> vnn (vmax a b).
Proof.
  intros Ha Hb. apply vnn_intro; [unfold vmax; rewrite vzip_length; apply Ha|].
  intro i. destruct (Nat.ltb_spec i (length a)) as [Hi|Hi].
  - rewrite nth_vmax by exact Hi. pose proof (vnn_nth a i Ha). lia.
  - rewrite nth_overflow; [lia|]. unfold vmax. now rewrite vzip_length.
Qed.

Lemma sum_ctrs_from sel l b i :
  vnn b -> Forall (ctr_wf sel) l ->
  vnn (fold_left (fun a c => vadd a (sel c)) l b)
  /\ nth i (fold_left (fun a c => vadd a (sel c)) l b) 0
     = nth i b 0 + fold_right Z.add 0 (map (fun c => nth i (sel c) 0) l).
Proof.
  intros Hb Hl. revert b Hb. induction Hl as [|c l Hc _ IH]; intros b Hb; cbn [fold_left map fold_right].
  - split; [exact Hb|lia].
  - destruct (IH (vadd b (sel c)) (vnn_vadd _ _ Hb Hc)) as [H1 H2]. split; [exact H1|].
    rewrite H2. destruct (Nat.ltb_spec i (length b)) as [Hi|Hi].
    + rewrite nth_vadd by exact Hi. lia.
    + rewrite (nth_overflow (vadd b (sel c))) by (unfold vadd; now rewrite vzip_length).
      rewrite (nth_overflow b) by exact Hi.
      rewrite (nth_overflow (sel c)); [lia|]. destruct Hb as [Hb _], Hc as [Hc _]. lia.
Qed.

(* the sum over the regular containers, dimension by dimension *)
Lemma sum_ctrs_nth sel l i :
  Forall (ctr_wf sel) l ->
  vnn (sum_ctrs sel l)
  /\ nth i (sum_ctrs sel l) 0 = fold_right Z.add 0 (map (fun c => nth i (sel c) 0) l).
Proof.
  intro Hl. destruct (sum_ctrs_from sel l vzero i vnn_zero Hl) as [H1 H2]. split; [exact H1|].
  unfold sum_ctrs. rewrite H2. unfold vzero, dims. destruct i as [|[|i]]; cbn; try lia.
  destruct i; cbn; lia.
Qed.

(* the walk over the init containers: the total grows by the restartable ones, and the init
   peak is at least every init container's own declaration *)
Lemma init_walk_props sel l total r imax i :
  vnn total -> vnn r -> vnn imax -> Forall (fun bc => ctr_wf sel (snd bc)) l ->
  let '(t', m') := init_walk sel l total r imax in
  vnn t' /\ vnn m'
  /\ nth i total 0 <= nth i t' 0
  /\ nth i imax 0 <= nth i m' 0
  /\ (forall b c, In (b, c) l -> nth i (sel c) 0 <= nth i m' 0).
Proof.
  intros Ht Hr Hm Hl. revert total r imax Ht Hr Hm.
  induction Hl as [|[b c] l Hc _ IH]; intros total r imax Ht Hr Hm; cbn [init_walk].
  - split; [exact Ht|]. split; [exact Hm|]. split; [lia|]. split; [lia|]. intros b c Hin. destruct Hin.
  - cbn [snd] in Hc. destruct b.
    + set (r' := vadd r (sel c)). assert (Hr' : vnn r') by now apply vnn_vadd.
      specialize (IH (vadd total (sel c)) r' (vmax imax r') (vnn_vadd _ _ Ht Hc) Hr' (vnn_vmax _ _ Hm Hr')).
      destruct (init_walk sel l (vadd total (sel c)) r' (vmax imax r')) as [t' m'].
      destruct IH as (H1 & H2 & H3 & H4 & H5). split; [exact H1|]. split; [exact H2|].
      assert (Hlen : forall v, vnn v -> (i < length v)%nat \/ (length v <= i)%nat) by (intros; lia).
      assert (Hmax : nth i imax 0 <= nth i (vmax imax r') 0 /\ nth i r' 0 <= nth i (vmax imax r') 0).
      { destruct (Nat.ltb_spec i (length imax)) as [Hi|Hi].
        - rewrite nth_vmax by exact Hi. lia.
        - rewrite (nth_overflow (vmax imax r')) by (unfold vmax; now rewrite vzip_length).
          rewrite (nth_overflow imax) by exact Hi.
          rewrite (nth_overflow r'); [lia|]. destruct Hm as [Hm _], Hr' as [Hr' _]. lia. }
      assert (Hadd : nth i total 0 <= nth i (vadd total (sel c)) 0).
      { destruct (Nat.ltb_spec i (length total)) as [Hi|Hi].
        - rewrite nth_vadd by exact Hi. pose proof (vnn_nth (sel c) i Hc). lia.
        - rewrite (nth_overflow (vadd total (sel c))) by (unfold vadd; now rewrite vzip_length).
          rewrite (nth_overflow total) by exact Hi. lia. }
      assert (Hsel : nth i (sel c) 0 <= nth i r' 0).
      { unfold r'. destruct (Nat.ltb_spec i (length r)) as [Hi|Hi].
        - rewrite nth_vadd by exact Hi. pose proof (vnn_nth r i Hr). lia.
        - rewrite (nth_overflow (sel c)); [apply vnn_nth; exact Hr'|].
          destruct Hr as [Hr _], Hc as [Hc _]. lia. }
      split; [lia|]. split; [lia|].
      intros b0 c0 [Heq|Hin]; [injection Heq as _ <-; lia|now apply (H5 b0)].
    + set (u := vadd (vadd vzero (sel c)) r).
      assert (Hu : vnn u) by (apply vnn_vadd; [apply vnn_vadd; [apply vnn_zero|exact Hc]|exact Hr]).
      specialize (IH total r (vmax imax u) Ht Hr (vnn_vmax _ _ Hm Hu)).
      destruct (init_walk sel l total r (vmax imax u)) as [t' m'].
      destruct IH as (H1 & H2 & H3 & H4 & H5). split; [exact H1|]. split; [exact H2|].
      assert (Hmax : nth i imax 0 <= nth i (vmax imax u) 0 /\ nth i u 0 <= nth i (vmax imax u) 0).
      { destruct (Nat.ltb_spec i (length imax)) as [Hi|Hi].
        - rewrite nth_vmax by exact Hi. lia.
        - rewrite (nth_overflow (vmax imax u)) by (unfold vmax; now rewrite vzip_length).
          rewrite (nth_overflow imax) by exact Hi.
          rewrite (nth_overflow u); [lia|]. destruct Hm as [Hm _], Hu as [Hu _]. lia. }
      assert (Hsel : nth i (sel c) 0 <= nth i u 0).
      { unfold u. destruct (Nat.ltb_spec i dims) as [Hi|Hi].
        - rewrite nth_vadd by (unfold vadd; rewrite vzip_length; exact Hi).
          rewrite nth_vadd by exact Hi.
          pose proof (vnn_nth r i Hr). pose proof (vnn_nth vzero i vnn_zero).
          assert (nth i vzero 0 = 0).
          { unfold vzero, dims in *. destruct i as [|[|i]]; cbn; try lia. }
          lia.
        - rewrite (nth_overflow (sel c)); [apply vnn_nth; exact Hu|]. destruct Hc as [Hc _]. lia. }
      split; [exact H3|]. split; [lia|].
      intros b0 c0 [Heq|Hin]; [injection Heq as _ <-; lia|now apply (H5 b0)].
Qed.

Definition pod_wf (sel : ctr -> vec) (p : pod) : Prop :=
  Forall (ctr_wf sel) (p_ctrs p) /\ Forall (fun bc => ctr_wf sel (snd bc)) (p_inits p).

(* PodRequests / PodLimits before overhead: at least the sum of the regular containers, and at
   least every single init container *)
Lemma aggregate_lower sel p i :
  pod_wf sel p ->
  vnn (aggregate sel p)
  /\ fold_right Z.add 0 (map (fun c => nth i (sel c) 0) (p_ctrs p)) <= nth i (aggregate sel p) 0
  /\ (forall b c, In (b, c) (p_inits p) -> nth i (sel c) 0 <= nth i (aggregate sel p) 0).
Proof.
  intros [Hc Hi]. unfold aggregate.
  destruct (sum_ctrs_nth sel (p_ctrs p) i Hc) as [Hs Hn].
  pose proof (init_walk_props sel (p_inits p) (sum_ctrs sel (p_ctrs p)) vzero vzero i
                Hs vnn_zero vnn_zero Hi) as H.
  destruct (init_walk sel (p_inits p) (sum_ctrs sel (p_ctrs p)) vzero vzero) as [t' m'].
  destruct H as (H1 & H2 & H3 & H4 & H5).
  split; [now apply vnn_vmax|].
  assert (Hmax : nth i t' 0 <= nth i (vmax t' m') 0 /\ nth i m' 0 <= nth i (vmax t' m') 0).
  { destruct (Nat.ltb_spec i (length t')) as [Hlt|Hge].
    - rewrite nth_vmax by exact Hlt. lia.
    - rewrite (nth_overflow (vmax t' m')) by (unfold vmax; now rewrite vzip_length).
      rewrite (nth_overflow t') by exact Hge.
      rewrite (nth_overflow m'); [lia|]. destruct H1 as [H1 _], H2 as [H2 _]. lia. }
  split; [rewrite <- Hn; lia|].
  intros b c Hin. specialize (H5 b c Hin). lia.
Qed.

(* a pod with one container, no init containers: the aggregation is that container (the shape
   the model covered before containers were modelled) *)
Lemma aggregate_single sel p c a b :
  p_ctrs p = [c] -> p_inits p = [] -> sel c = [a; b] -> 0 <= a -> 0 <= b ->
  aggregate sel p = [a; b].
Proof.
  intros Hc Hi Hs Ha Hb. unfold aggregate. rewrite Hc, Hi. cbn [init_walk sum_ctrs fold_left].
  rewrite Hs. cbn. f_equal; [lia|]. f_equal. lia.
Qed.

Lemma pod_requests_single p c a b :
  p_ctrs p = [c] -> p_inits p = [] -> p_overhead p = None -> ct_req c = [a; b] -> 0 <= a -> 0 <= b ->
  pod_requests p (p_fam p) = [a; b].
Proof.
  intros Hc Hi Ho Hs Ha Hb. unfold pod_requests, under. rewrite Z.eqb_refl, Ho.
  rewrite (aggregate_single ct_req p c a b Hc Hi Hs Ha Hb). cbn [ovec].
  destruct (p_fam p =? 1); [|reflexivity]. cbn. f_equal; [lia|]. f_equal. lia.
Qed.

(* the requests the estimator reads for a pod of its own family are at least the sum of the
   containers plus (cpu / memory family) the overhead *)
Lemma pod_requests_lower p i :
  pod_wf ct_req p -> (i < dims)%nat ->
  fold_right Z.add 0 (map (fun c => nth i (ct_req c) 0) (p_ctrs p))
    + (if p_fam p =? 1 then nth i (ovec (p_overhead p)) 0 else 0)
  <= nth i (pod_requests p (p_fam p)) 0.
Proof.
  intros Hwf Hi. destruct (aggregate_lower ct_req p i Hwf) as (Hv & Hsum & _).
  unfold pod_requests, under. rewrite Z.eqb_refl.
  destruct (p_fam p =? 1); [|lia].
  rewrite nth_vadd by (destruct Hv as [Hv _]; rewrite Hv; exact Hi). lia.
Qed.

(* ------------------------------------------------------------------ the estimate is never negative *)
Lemma fl53_nonneg n d : 0 < d -> 0 <= fst (fl53 n d) /\ 0 < snd (fl53 n d).
Proof.
  intro Hd. destruct (Z.le_gt_cases n 0) as [Hn|Hn].
  - unfold fl53. destruct (n <=? 0) eqn:E; [cbn; lia|apply Z.leb_gt in E; lia].
  - destruct (fl53_err n d Hn Hd) as (H1 & H2 & _). lia.
Qed.

Lemma fround_nonneg x : 0 <= fst x -> 0 < snd x -> 0 <= fround x.
Proof. intros H1 H2. unfold fround. apply Z.div_pos; lia. Qed.

Lemma scale_float_nonneg q f : 0 <= q -> 0 <= f -> 0 <= scale_float q f.
Proof.
  intros Hq Hf. unfold scale_float.
  assert (0 <= Z.sgn q) by (destruct q; cbn; lia).
  assert (0 <= Z.sgn f) by (destruct f; cbn; lia).
  assert (0 <= fround (fdiv (fmul (f_of_int (Z.abs q)) (f_of_int (Z.abs f))) (100, 1))).
  { unfold fdiv, fmul, f_of_int. cbn [fst snd].
    destruct (fl53_nonneg (Z.abs q) 1 ltac:(lia)) as [A1 A2].
    destruct (fl53_nonneg (Z.abs f) 1 ltac:(lia)) as [B1 B2].
    set (E := fl53 (Z.abs q) 1) in *. set (T := fl53 (Z.abs f) 1) in *.
    destruct (fl53_nonneg (fst E * fst T) (snd E * snd T) ltac:(nia)) as [C1 C2].
    set (Q := fl53 (fst E * fst T) (snd E * snd T)) in *.
    destruct (fl53_nonneg (fst Q * 1) (snd Q * 100) ltac:(lia)) as [D1 D2].
    now apply fround_nonneg. }
  nia.
Qed.

Lemma est_dim_nonneg c dflt req lim k :
  0 <= dflt -> 0 <= req -> 0 <= lim -> 0 <= k -> 0 <= est_dim c dflt req lim k.
Proof.
  intros Hd Hr Hl Hk. unfold est_dim. destruct c; try lia;
  (set (q := if req <? lim then lim else req);
   assert (0 <= q) by (unfold q; destruct (req <? lim); lia);
   destruct (q =? 0); [try lia|];
   pose proof (scale_float_nonneg q k ltac:(assumption) Hk);
   destruct ((0 <? lim) && (lim <? scale_float q k)); lia).
Qed.

Lemma est_list_nonneg c dflts reqs lims fs i :
  (forall j, 0 <= nth j dflts 0) -> (forall j, 0 <= nth j reqs 0) -> (forall j, 0 <= nth j lims 0) ->
  Forall (fun o => match o with Some k => 0 <= k | None => True end) fs ->
  0 <= nth i (est_list c dflts reqs lims fs) 0.
Proof.
  intros Hd Hr Hl Hf. revert dflts reqs lims Hd Hr Hl i.
  induction Hf as [|f fs Hfk _ IH]; intros dflts reqs lims Hd Hr Hl i; cbn [est_list].
  - destruct i; cbn; lia.
  - destruct i as [|i]; cbn [nth].
    + destruct f as [k|]; [|lia]. apply est_dim_nonneg; try exact Hfk.
      * specialize (Hd 0%nat). now rewrite nth0_hd in Hd.
      * specialize (Hr 0%nat). now rewrite nth0_hd in Hr.
      * specialize (Hl 0%nat). now rewrite nth0_hd in Hl.
    + apply IH; intro j.
      * specialize (Hd (S j)). now rewrite nth_hd_tl in Hd.
      * specialize (Hr (S j)). now rewrite nth_hd_tl in Hr.
      * specialize (Hl (S j)). now rewrite nth_hd_tl in Hl.
Qed.

(* ------------------------------------------------------------------ what the cache stores *)
(* after ANY history every pod held for a node is live (not Succeeded / Failed) and is not a
   reservation's reserve pod, and is filed under its own uid *)
Lemma stored_pods_live cfg ops node n uid pi :
  alookup node (run cfg ops) = Some n -> alookup uid (n_pods n) = Some pi ->
  terminated (pi_pod pi) = false /\ p_resv (pi_pod pi) = false /\ p_uid (pi_pod pi) = uid.
Proof.
  intros Hn Hp. destruct (run_ok cfg ops _ _ Hn) as (_ & Hcan & _).
  rewrite Forall_forall in Hcan.
  destruct (alookup_split _ _ _ Hp) as (l1 & l2 & Hl & _).
  assert (Hin : In (uid, pi) (n_pods n)) by (rewrite Hl; apply in_or_app; right; now left).
  destruct (Hcan _ Hin) as (H1 & _ & H3 & H4). cbn [fst snd] in *. now subst.
Qed.
