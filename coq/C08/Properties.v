(* C08 — exported theorems only: each is closed by [exact] and followed by Print Assumptions. *)
From Coq Require Import List ZArith Bool.
From Verif Require Import C08.Model C08.Spec C08.Proofs.
Open Scope Z_scope.

Theorem c08_sub_inverts_add : forall v c, vsub (vadd v c) c = v.
Proof. exact vsub_vadd. Qed.
Print Assumptions c08_sub_inverts_add.
