(* C08 — exported theorems only: each is closed by [exact] and followed by Print Assumptions. *)
From Coq Require Import List ZArith Bool Permutation.
From Verif Require Import Gen.Gen_scores Lib.Interleave.
From Verif Require Import C08.Model C08.Spec C08.Proofs C08.Proofs_Drift C08.Proofs_Fresh
  C08.Proofs_Filter C08.Proofs_Main C08.Proofs_Table C08.Proofs_Float C08.Proofs_Bound
  C08.Codec C08.Proofs_Codec C08.Proofs_Witness C08.Proofs_Pod C08.Proofs_Score C08.Sched C08.Proofs_Sched.
Import ListNotations.
Open Scope Z_scope.

(* ---- estimates never drift ---- *)

(* after ANY history the sums cached for a node equal the from-scratch computation (reset +
   addPod for every assigned pod) on its current report and pods *)
Theorem c08_no_drift : forall cfg ops node n m,
  alookup node (run cfg ops) = Some n -> n_metric n = Some m ->
  n_sums n = rebuild cfg m (n_ut n) (n_pods n).
Proof. exact no_drift. Qed.
Print Assumptions c08_no_drift.

Theorem c08_delete_inverts_add : forall m ut s pi,
  sums_sub (sums_add s (contrib m ut pi)) (contrib m ut pi) = s.
Proof. exact delete_inverts_add. Qed.
Print Assumptions c08_delete_inverts_add.

(* the from-scratch computation does not depend on the visiting order (Go map iteration) *)
Theorem c08_rebuild_order_irrelevant : forall cfg m ut pods pods',
  Permutation pods pods' -> rebuild cfg m ut pods = rebuild cfg m ut pods'.
Proof. exact rebuild_perm. Qed.
Print Assumptions c08_rebuild_order_irrelevant.

(* a fresh cache fed the node's current report and pods, in either order, holds the same sums
   and returns the same estimates — for ALL histories *)
Theorem c08_fresh_cache_equal : forall cfg ops node n m,
  node <> 0 ->
  alookup node (run cfg ops) = Some n -> n_metric n = Some m ->
  forall feed, (feed = feed_metric_first \/ feed = feed_pods_first) ->
  exists n', alookup node (run cfg (feed node m (n_pods n))) = Some n'
    /\ n_pods n' = n_pods n /\ n_metric n' = Some m /\ n_sums n' = n_sums n
    /\ (forall prod t d, get_est n' prod t d = get_est n prod t d).
Proof. exact fresh_cache_equal. Qed.
Print Assumptions c08_fresh_cache_equal.

(* the same for the fresh sums as the observation function computes them *)
Theorem c08_fresh_sums_equal : forall cfg ops node n m,
  alookup node (run cfg ops) = Some n -> n_metric n = Some m ->
  fresh_sums cfg n = n_sums n.
Proof. exact fresh_equal. Qed.
Print Assumptions c08_fresh_sums_equal.

(* ---- load-aware filtering ---- *)

(* on the cache reached by ANY history, for a non-daemonset pod and a node whose report is
   fresh as configured: Filter passes iff in every thresholded dimension with non-zero
   allocatable the (float64-rounded) percentage of  from-scratch estimate of the existing pods
   + the incoming pod's estimate  is at or below the threshold *)
Theorem c08_filter_sound : forall cfg ops nd p n m thr isAgg aggT aggD prodPod,
  alookup (nd_name nd) (run cfg ops) = Some n -> n_metric n = Some m ->
  daemonset p = false ->
  select_thresholds (node_profile cfg nd) (is_prod p) = (thr, isAgg, aggT, aggD, prodPod) ->
  expiry_applies cfg m = false -> is_some (m_info m) = true ->
  (filter cfg (run cfg ops) nd p = 0 <->
   (forall i, (i < length thr)%nat -> nth i thr 0 <> 0 -> nth i (eff_alloc nd) 0 <> 0 ->
      pct_float
        (nth i (vadd (est_of m (rebuild cfg m (n_ut n) (n_pods n)) prodPod aggT aggD)
                     (est_vec cfg p)) 0)
        (nth i (eff_alloc nd) 0) <= nth i thr 0)).
Proof. exact filter_sound_complete. Qed.
Print Assumptions c08_filter_sound.

(* the float64 percentage test in exact arithmetic (K = 2^53): whatever passes
   [pct_float e t <= thr] has  100 e / t  <  (thr + 1/2) * K^2 (K+1) / (K-1)^3 *)
Theorem c08_pct_float_pass_bound : forall e t thr, 0 < e -> 0 < t -> pct_float e t <= thr ->
  200 * ((K - 1) * (K - 1) * (K - 1)) * e < (2 * thr + 1) * (K * K * (K + 1)) * t.
Proof. exact pct_float_pass_bound. Qed.
Print Assumptions c08_pct_float_pass_bound.

Theorem c08_pct_float_reject_bound : forall e t thr, 0 < e -> 0 < t -> thr < pct_float e t ->
  (2 * thr + 1) * (K * K * (K - 1)) * t <= 200 * ((K + 1) * (K + 1) * (K + 1)) * e.
Proof. exact pct_float_reject_bound. Qed.
Print Assumptions c08_pct_float_reject_bound.

(* every float64 rounding of the emulation is within relative 2^-53 *)
Theorem c08_fl53_error : forall n d, 0 < n -> 0 < d ->
  0 < fst (fl53 n d) /\ 0 < snd (fl53 n d)
  /\ K * Z.abs (fst (fl53 n d) * d - n * snd (fl53 n d)) <= n * snd (fl53 n d).
Proof. exact fl53_err. Qed.
Print Assumptions c08_fl53_error.

(* Filter passes only if, in every thresholded dimension, the from-scratch estimate plus the
   incoming pod's estimate stays below (threshold + 1/2) % of the allocatable, up to the
   float64 slack factor K^2 (K+1) / (K-1)^3 = 1 + 2^-51 *)
Theorem c08_filter_pass_exact : forall cfg ops nd p n m thr isAgg aggT aggD prodPod,
  alookup (nd_name nd) (run cfg ops) = Some n -> n_metric n = Some m ->
  daemonset p = false ->
  select_thresholds (node_profile cfg nd) (is_prod p) = (thr, isAgg, aggT, aggD, prodPod) ->
  expiry_applies cfg m = false -> is_some (m_info m) = true ->
  filter cfg (run cfg ops) nd p = 0 ->
  forall i, (i < length thr)%nat -> nth i thr 0 <> 0 ->
    let total := nth i (vadd (est_of m (rebuild cfg m (n_ut n) (n_pods n)) prodPod aggT aggD)
                             (est_vec cfg p)) 0 in
    let alloc := nth i (eff_alloc nd) 0 in
    0 < alloc -> 0 < total ->
    200 * ((K - 1) * (K - 1) * (K - 1)) * total
      < (2 * nth i thr 0 + 1) * (K * K * (K + 1)) * alloc.
Proof. exact filter_pass_exact. Qed.
Print Assumptions c08_filter_pass_exact.

(* the whole-node estimate in the words of the property: last reported usage plus, for every
   pod whose usage the report does not yet reflect, max(0, estimate - reported usage) *)
Theorem c08_whole_node_estimate : forall cfg m ut pods u i,
  node_usage m = Some u -> (i < dims)%nat ->
  nth i (est_of m (rebuild cfg m ut pods) false 0 0) 0
  = nth i u 0 + fold_right Z.add 0 (map (fun p => nth i (node_delta_term m ut (snd p)) 0) pods).
Proof. exact whole_node_estimate. Qed.
Print Assumptions c08_whole_node_estimate.

Theorem c08_aggregated_estimate : forall cfg m ut pods t d u i,
  t <> 0 -> target_agg m t d = Some u -> (i < dims)%nat ->
  nth i (est_of m (rebuild cfg m ut pods) false t d) 0
  = nth i u 0 + fold_right Z.add 0 (map (fun p => nth i (node_delta_term m ut (snd p)) 0) pods).
Proof. exact agg_estimate. Qed.
Print Assumptions c08_aggregated_estimate.

Theorem c08_prod_estimate : forall cfg m ut pods i,
  (i < dims)%nat ->
  nth i (est_of m (rebuild cfg m ut pods) true 0 0) 0
  = nth i (s_prodUsage (base_sums cfg m)) 0
    + fold_right Z.add 0 (map (fun p => nth i (prod_usage_term m (snd p)) 0) pods)
    + fold_right Z.add 0 (map (fun p => nth i (prod_delta_term m ut (snd p)) 0) pods).
Proof. exact prod_estimate. Qed.
Print Assumptions c08_prod_estimate.

Theorem c08_no_usage_estimate : forall cfg m ut pods t d i,
  t <> 0 -> target_agg m t d = None -> (i < dims)%nat ->
  nth i (est_of m (rebuild cfg m ut pods) false t d) 0
  = fold_right Z.add 0 (map (fun p => nth i (node_est_term (snd p)) 0) pods).
Proof. exact no_usage_estimate. Qed.
Print Assumptions c08_no_usage_estimate.

(* decision table: daemonset pods and nodes without a report are skipped; a node whose report
   is expired (or has no update time) while expiry filtering is configured is rejected exactly
   when EnableScheduleWhenNodeMetricsExpired = false, skipped otherwise *)
Theorem c08_filter_daemonset : forall cfg nd p st, daemonset p = true -> filter_decide cfg nd p st = 0.
Proof. exact filter_daemonset. Qed.
Print Assumptions c08_filter_daemonset.

Theorem c08_filter_no_metric : forall cfg nd p, filter_decide cfg nd p None = 0.
Proof. exact filter_no_metric. Qed.
Print Assumptions c08_filter_no_metric.

Theorem c08_expired_behaviour : forall cfg nd p m get thr isAgg aggT aggD prodPod est,
  daemonset p = false ->
  select_thresholds (node_profile cfg nd) (is_prod p) = (thr, isAgg, aggT, aggD, prodPod) ->
  vempty thr = false ->
  get prodPod aggT aggD = Some est ->
  expiry_applies cfg m = true ->
  filter_decide cfg nd p (Some (m, get)) =
    match c_enable_expired cfg with Some false => 3 | _ => 0 end.
Proof. exact filter_expired. Qed.
Print Assumptions c08_expired_behaviour.

Theorem c08_metric_expired_spec : forall m s,
  metric_expired m s = true <->
  (m_ut m = None \/ exists t, m_ut m = Some t /\ 0 < s /\ s <= 0 - t).
Proof. exact metric_expired_spec. Qed.
Print Assumptions c08_metric_expired_spec.

(* the complete decision of Filter as one table *)
Theorem c08_filter_decision_table : forall cfg nd p m get thr isAgg aggT aggD prodPod est,
  daemonset p = false ->
  select_thresholds (node_profile cfg nd) (is_prod p) = (thr, isAgg, aggT, aggD, prodPod) ->
  get prodPod aggT aggD = Some est ->
  filter_decide cfg nd p (Some (m, get)) =
    if vempty thr then 0
    else if expiry_applies cfg m then
      (match c_enable_expired cfg with Some false => 3 | _ => 0 end)
    else if negb (is_some (m_info m)) then 0
    else if usage_exceeds thr (vadd est (est_vec cfg p)) (eff_alloc nd)
    then (if isAgg then 2 else 1) else 0.
Proof. exact filter_decide_table. Qed.
Print Assumptions c08_filter_decision_table.

(* threshold profile choice: prod thresholds for prod pods when configured, else the
   aggregated profile when configured, else the whole-node thresholds *)
Theorem c08_profile_select_prod : forall pr cls,
  vempty (ovec (pr_prod pr)) = false -> cls = true ->
  select_thresholds pr cls = (ovec (pr_prod pr), false, 0, 0, true).
Proof. exact select_prod. Qed.
Print Assumptions c08_profile_select_prod.

Theorem c08_profile_select_agg : forall pr cls thr t d,
  (vempty (ovec (pr_prod pr)) = true \/ cls = false) -> pr_agg pr = Some (thr, t, d) ->
  select_thresholds pr cls = (thr, true, t, d, false).
Proof. exact select_agg. Qed.
Print Assumptions c08_profile_select_agg.

Theorem c08_profile_select_whole : forall pr cls,
  (vempty (ovec (pr_prod pr)) = true \/ cls = false) -> pr_agg pr = None ->
  select_thresholds pr cls = (ovec (pr_thr pr), false, 0, 0, false).
Proof. exact select_whole. Qed.
Print Assumptions c08_profile_select_whole.

(* ---- which pods are "currently assigned" to a node: effect and frame of the pod events ---- *)

Theorem c08_table_assign : forall cfg now node p c node' uid',
  pod_info (assign cfg now node p c) node' uid' =
    if storable node p && (node' =? node) && (uid' =? p_uid p)
    then Some (mk_pinfo cfg now p) else pod_info c node' uid'.
Proof. exact pod_info_assign. Qed.
Print Assumptions c08_table_assign.

Theorem c08_table_unassign : forall node uid c node' uid',
  pod_info (unassign node uid c) node' uid' =
    if (node' =? node) && (uid' =? uid) then None else pod_info c node' uid'.
Proof. exact pod_info_unassign. Qed.
Print Assumptions c08_table_unassign.

(* no ghost load after spec.nodeName changes *)
Theorem c08_update_leaves_old_node : forall cfg now old p c,
  old <> 0 -> old <> p_node p ->
  pod_info (on_update cfg now old p c) old (p_uid p) = None.
Proof. exact on_update_leaves_old_node. Qed.
Print Assumptions c08_update_leaves_old_node.

Theorem c08_update_stores : forall cfg now old p c,
  storable (p_node p) p = true ->
  exists pi, pod_info (on_update cfg now old p c) (p_node p) (p_uid p) = Some pi
    /\ spec_eqb p (pi_pod pi) = true /\ cond_eqb p (pi_pod pi) = true.
Proof. exact on_update_stores. Qed.
Print Assumptions c08_update_stores.

Theorem c08_update_drops_terminated : forall cfg now old p c,
  terminated p = true -> pod_info (on_update cfg now old p c) (p_node p) (p_uid p) = None.
Proof. exact on_update_drops_terminated. Qed.
Print Assumptions c08_update_drops_terminated.

Theorem c08_reserve_unreserve_table : forall cfg now node p c node' uid',
  pod_info c node (p_uid p) = None ->
  pod_info (unassign node (p_uid p) (assign cfg now node p c)) node' uid' = pod_info c node' uid'.
Proof. exact reserve_unreserve_table. Qed.
Print Assumptions c08_reserve_unreserve_table.

(* frames: events that do not name node k leave its whole entry (pods, report, sums) alone;
   the entry (k, u) of the pod table is the one left by the last event that touched it *)
Theorem c08_node_frame : forall cfg ops c k,
  forallb (fun o => negb (involves o k)) ops = true ->
  alookup k (fold_left (step cfg) ops c) = alookup k c.
Proof. exact run_node_frame. Qed.
Print Assumptions c08_node_frame.

Theorem c08_table_frame : forall cfg ops c k u,
  forallb (fun o => negb (touches o k u)) ops = true ->
  pod_info (fold_left (step cfg) ops c) k u = pod_info c k u.
Proof. exact run_table_frame. Qed.
Print Assumptions c08_table_frame.

(* ---- Score: the same estimates, ranked (over the REGENERATED leastUsedScore) ---- *)

Theorem c08_scorer_range : forall dom ws used alloc,
  0 <= dom -> Forall (fun w => 0 <= w) ws -> nnv used -> nnv alloc ->
  0 <= scorer dom ws used alloc <= MaxNodeScore.
Proof. exact scorer_range. Qed.
Print Assumptions c08_scorer_range.

(* more estimated usage (in every dimension) never ranks a node higher *)
Theorem c08_scorer_antitone : forall dom ws used used' alloc,
  0 <= dom -> Forall (fun w => 0 <= w) ws -> nnv used ->
  (forall i, nth i used 0 <= nth i used' 0) -> nnv alloc ->
  scorer dom ws used' alloc <= scorer dom ws used alloc.
Proof. exact scorer_antitone. Qed.
Print Assumptions c08_scorer_antitone.

Theorem c08_score_decision_table : forall cfg nd p m get ws prodPod aggT aggD est,
  score_weights cfg = Some ws ->
  score_variant cfg p = (prodPod, aggT, aggD) ->
  get prodPod aggT aggD = Some est ->
  score_decide cfg nd p (Some (m, get)) =
    if (match c_exp_seconds cfg with Some s => metric_expired m s | None => false end) then 0
    else if negb (is_some (m_info m)) then 0
    else scorer (sc_dom (c_score cfg)) ws (vadd est (est_vec cfg p)) (eff_alloc nd).
Proof. exact score_decide_table. Qed.
Print Assumptions c08_score_decision_table.

Theorem c08_score_off : forall cfg nd p st, score_weights cfg = None -> score_decide cfg nd p st = 0.
Proof. exact score_off. Qed.
Print Assumptions c08_score_off.

Theorem c08_score_no_metric : forall cfg nd p, score_decide cfg nd p None = 0.
Proof. exact score_no_metric. Qed.
Print Assumptions c08_score_no_metric.

Theorem c08_score_range : forall cfg nd p st,
  0 <= sc_dom (c_score cfg) ->
  Forall (fun o => match o with Some k => 0 <= k | None => True end) (sc_weights (c_score cfg)) ->
  (forall m get b t d est, st = Some (m, get) -> get b t d = Some est -> nnv (vadd est (est_vec cfg p))) ->
  nnv (eff_alloc nd) ->
  0 <= score_decide cfg nd p st <= MaxNodeScore.
Proof. exact score_decide_range. Qed.
Print Assumptions c08_score_range.

(* on the cache reached by ANY history, Score ranks the node by the FROM-SCRATCH estimate of its
   current report and pods plus the incoming pod's estimate (no drift reaches the ranking) *)
Theorem c08_score_from_scratch : forall cfg ops nd p n m ws prodPod aggT aggD,
  alookup (nd_name nd) (run cfg ops) = Some n -> n_metric n = Some m ->
  score_weights cfg = Some ws ->
  score_variant cfg p = (prodPod, aggT, aggD) ->
  (match c_exp_seconds cfg with Some s => metric_expired m s | None => false end) = false ->
  is_some (m_info m) = true ->
  score cfg (run cfg ops) nd p =
    scorer (sc_dom (c_score cfg)) ws
      (vadd (est_of m (rebuild cfg m (n_ut n) (n_pods n)) prodPod aggT aggD) (est_vec cfg p))
      (eff_alloc nd).
Proof. exact score_from_scratch. Qed.
Print Assumptions c08_score_from_scratch.

(* ---- the pod as the estimator and the cache see it ---- *)

(* priority class: a recognised koordinator.sh/priority-class label decides alone; without a
   label a spec.priority inside a band decides; everything else is classed by QoS *)
Theorem c08_class_label_wins : forall p,
  (1 <=? p_label p) && (p_label p <=? 4) = true -> pod_cls p = cls_of_label (p_label p).
Proof. exact cls_label_wins. Qed.
Print Assumptions c08_class_label_wins.

Theorem c08_class_band_next : forall p v,
  p_label p = 0 -> p_prio p = Some v -> cls_of_prio v <> CNone -> pod_cls p = cls_of_prio v.
Proof. exact cls_band_next. Qed.
Print Assumptions c08_class_band_next.

Theorem c08_class_qos_default : forall p, raw_cls p = CNone -> pod_cls p = qos_cls p.
Proof. exact cls_qos_default. Qed.
Print Assumptions c08_class_qos_default.

(* an ordinary kubernetes pod (no koordinator label, priority outside the bands or absent)
   that declares cpu or memory is accounted as a prod pod *)
Theorem c08_plain_pod_is_prod : forall p c,
  raw_cls p = CNone -> p_qos p = 0 -> p_kqos p = 0 -> p_fam p = 1 ->
  In c (p_ctrs p) -> ctr_empty c = false -> is_prod p = true.
Proof. exact plain_pod_is_prod. Qed.
Print Assumptions c08_plain_pod_is_prod.

(* pod requests / limits (before overhead) dominate the sum of the regular containers and every
   single init container, for any number of containers and (restartable) init containers *)
Theorem c08_aggregate_lower : forall sel p i,
  pod_wf sel p ->
  vnn (aggregate sel p)
  /\ fold_right Z.add 0 (map (fun c => nth i (sel c) 0) (p_ctrs p)) <= nth i (aggregate sel p) 0
  /\ (forall b c, In (b, c) (p_inits p) -> nth i (sel c) 0 <= nth i (aggregate sel p) 0).
Proof. exact aggregate_lower. Qed.
Print Assumptions c08_aggregate_lower.

Theorem c08_pod_requests_lower : forall p i,
  pod_wf ct_req p -> (i < dims)%nat ->
  fold_right Z.add 0 (map (fun c => nth i (ct_req c) 0) (p_ctrs p))
    + (if p_fam p =? 1 then nth i (ovec (p_overhead p)) 0 else 0)
  <= nth i (pod_requests p (p_fam p)) 0.
Proof. exact pod_requests_lower. Qed.
Print Assumptions c08_pod_requests_lower.

(* single-container pods: the aggregation is the container (conservative extension) *)
Theorem c08_pod_requests_single : forall p c a b,
  p_ctrs p = [c] -> p_inits p = [] -> p_overhead p = None -> ct_req c = [a; b] -> 0 <= a -> 0 <= b ->
  pod_requests p (p_fam p) = [a; b].
Proof. exact pod_requests_single. Qed.
Print Assumptions c08_pod_requests_single.

(* an estimate is never negative (so no pod can lower a node's estimated utilisation) *)
Theorem c08_estimate_nonneg : forall c dflts reqs lims fs i,
  (forall j, 0 <= nth j dflts 0) -> (forall j, 0 <= nth j reqs 0) -> (forall j, 0 <= nth j lims 0) ->
  Forall (fun o => match o with Some k => 0 <= k | None => True end) fs ->
  0 <= nth i (est_list c dflts reqs lims fs) 0.
Proof. exact est_list_nonneg. Qed.
Print Assumptions c08_estimate_nonneg.

(* after ANY history the pods held for a node are live (never Succeeded / Failed) and never a
   reservation's reserve pod *)
Theorem c08_stored_pods_live : forall cfg ops node n uid pi,
  alookup node (run cfg ops) = Some n -> alookup uid (n_pods n) = Some pi ->
  terminated (pi_pod pi) = false /\ p_resv (pi_pod pi) = false /\ p_uid (pi_pod pi) = uid.
Proof. exact stored_pods_live. Qed.
Print Assumptions c08_stored_pods_live.

(* ---- the cache under concurrency: lock sections as atomic actions (Sched.v) ---- *)

(* whatever the threads' programs are and however their lock sections interleave, in EVERY
   intermediate state: every nodeInfo is internally consistent (sums = from-scratch rebuild), the
   map holds no deleted nodeInfo, a deleted one holds nothing, a released one is never empty *)
Theorem c08_sched_invariant : forall cfg (ts : list (list act)) l pre post,
  interleaving ts l -> l = pre ++ post -> sinv cfg (Interleave.exec (sstep cfg) cs_init pre).
Proof. exact sinv_interleaved. Qed.
Print Assumptions c08_sched_invariant.

Theorem c08_sched_invariant_any : forall cfg l, sinv cfg (srun cfg l).
Proof. exact sinv_run. Qed.
Print Assumptions c08_sched_invariant_any.

(* no schedule makes the estimates drift: what a reader gets for a name is never a deleted
   nodeInfo, and its cached sums are the from-scratch computation on its report and pods *)
Theorem c08_sched_no_drift : forall cfg l node o m,
  visible (srun cfg l) node = Some o -> n_metric (o_n o) = Some m ->
  n_sums (o_n o) = rebuild cfg m (n_ut (o_n o)) (n_pods (o_n o)).
Proof. exact sched_no_drift. Qed.
Print Assumptions c08_sched_no_drift.

Theorem c08_sched_visible : forall cfg l node o,
  visible (srun cfg l) node = Some o ->
  o_del o = false /\ o_name o = node /\ ninfo_ok cfg (o_n o)
  /\ (o_lock o = 0 -> ni_empty (o_n o) = false).
Proof. exact visible_ok. Qed.
Print Assumptions c08_sched_visible.

Theorem c08_sched_deleted_holds_nothing : forall cfg l oid o,
  alookup oid (cs_heap (srun cfg l)) = Some o -> o_del o = true -> ni_empty (o_n o) = true.
Proof. exact deleted_holds_nothing. Qed.
Print Assumptions c08_sched_deleted_holds_nothing.

(* Filter, at any point of any schedule, decides on the from-scratch estimate of the nodeInfo it
   can see *)
Theorem c08_sched_filter_from_scratch : forall cfg l nd p o m,
  visible (srun cfg l) (nd_name nd) = Some o -> n_metric (o_n o) = Some m ->
  sfilter cfg (srun cfg l) nd p =
    filter_decide cfg nd p
      (Some (m, fun b t d => Some (est_of m (rebuild cfg m (n_ut (o_n o)) (n_pods (o_n o))) b t d))).
Proof. exact sched_filter_from_scratch. Qed.
Print Assumptions c08_sched_filter_from_scratch.

(* serial schedules (each event's lock sections uninterrupted; any assignment of events to
   threads) ARE the sequential model: Model.v is the concurrent model restricted to them *)
Theorem c08_sched_serial_refines : forall cfg tops,
  Forall (fun to => fst to <> 0 /\ supported (snd to) = true) tops ->
  ceq (abs_cache (srun cfg (serial tops))) (run cfg (map snd tops)).
Proof. exact serial_refines. Qed.
Print Assumptions c08_sched_serial_refines.

(* sequentially a delivered report is held until a NodeMetric delete for the node *)
Theorem c08_report_is_kept : forall cfg pre now node m post,
  (forall now', ~ In (OMetricDel now' node) post) ->
  has_metric (run cfg (pre ++ OMetric now node m :: post)) node.
Proof. exact report_is_kept. Qed.
Print Assumptions c08_report_is_kept.

(* REFUTED under concurrency: "no delivered event is lost".  The add-or-update retries once; a
   schedule in which the loaded nodeInfo is emptied by another goroutine before BOTH tries drops
   the event: here a metric report, which every sequential order of the same events keeps *)
Theorem c08_sched_no_lost_event_refuted :
  exists cfg ops1 ops2 l,
    interleaving [serial (map (pair 1) ops1); serial (map (pair 2) ops2)] l
    /\ (forall ops, interleaving [ops1; ops2] ops -> has_metric (run cfg ops) 1)
    /\ abs_cache (srun cfg l) = [] /\ t_ok (reg_of (srun cfg l) 2) = false.
Proof. exact no_lost_event_refuted. Qed.
Print Assumptions c08_sched_no_lost_event_refuted.

(* ---- the decision procedure run on implementation observables ---- *)

(* MAIN: on EVERY history the property's decision procedure accepts the model's own
   observations (what Extract.run_case prints) *)
Theorem c08_prop_code_model : forall cfg ops, prop_code cfg ops (run_obs cfg [] ops) = 0.
Proof. exact prop_code_model. Qed.
Print Assumptions c08_prop_code_model.

(* the decision procedure decides the Prop *)
Theorem c08_prop_code_spec : forall cfg ops obs,
  prop_code cfg ops obs = 0 <-> C08_holds cfg ops obs.
Proof. exact prop_code_spec. Qed.
Print Assumptions c08_prop_code_spec.

Theorem c08_holds_model : forall cfg ops, C08_holds cfg ops (run_obs cfg [] ops).
Proof. exact holds_model. Qed.
Print Assumptions c08_holds_model.

(* MAIN, on the wire: exactly what the driver evaluates (Extract.v extracts these definitions):
   for EVERY input, prop_case accepts run_case *)
Theorem c08_prop_case_model : forall inp, prop_case inp (run_case inp) = 0.
Proof. exact prop_case_model. Qed.
Print Assumptions c08_prop_case_model.

(* an implementation observable accepted by prop_case satisfies the property *)
Theorem c08_prop_case_sound : forall inp obs,
  prop_case inp obs = 0 ->
  exists o, parse_obs (length (snd (decode inp))) obs = Some o
            /\ C08_holds (fst (decode inp)) (snd (decode inp)) o.
Proof. exact prop_case_sound. Qed.
Print Assumptions c08_prop_case_sound.

(* stream "float" (direct grid on filterNodeUsage / EstimatePod) *)
Theorem c08_float_prop_case_model : forall inp, float_prop_case inp (float_run_case inp) = 0.
Proof. exact float_prop_case_model. Qed.
Print Assumptions c08_float_prop_case_model.

Theorem c08_float_pct_case : forall e t thr obs,
  float_prop_case [0; e; t; thr] obs = 0 ->
  obs = [if (thr =? 0) || (t =? 0) then 0 else if pct_float e t <=? thr then 0 else 1].
Proof. exact float_pct_case. Qed.
Print Assumptions c08_float_pct_case.

(* ---- non-vacuity ---- *)
Example c08_ex_filter_results : map fst (run_obs w_cfg [] w_ops2) = [0; 0; 0; 1; 0; 1].
Proof. exact w_filter_results. Qed.
Example c08_ex_filter_pass_and_reject :
  filter w_cfg (run w_cfg [OReserve 0 1 w_pod; OMetric 0 1 w_m3]) w_node_big w_in = 0
  /\ filter w_cfg (run w_cfg [OReserve 0 1 w_pod; OMetric 0 1 w_m3]) w_node w_in = 1.
Proof. exact w_filter_pass. Qed.
Example c08_ex_filter_expired : filter w_cfg (run w_cfg [OMetric 0 1 w_m_old]) w_node_big w_in = 3.
Proof. exact w_filter_expired. Qed.
(* regression for the defect fixed in /repo 56625eb: the OLD variant of AddOrUpdateNodeMetric
   (previous update time kept) fails the drift clause on this history; the repaired one does not *)
Example c08_ex_old_sticky_variant_drifts :
  let c := set_metric_old w_cfg 1 w_m2 (run w_cfg [OReserve 0 1 w_pod; OMetric 0 1 w_m1]) in
  exists n, alookup 1 c = Some n
    /\ n_metric n = Some w_m2
    /\ s_nodeDelta (n_sums n) = [0; 0]
    /\ s_nodeDelta (fresh_sums w_cfg n) = [90; 209715200]
    /\ node_code w_cfg (Some n) (observe_node w_cfg c 1) = 1.
Proof. exact old_sticky_variant_drifts. Qed.
Example c08_ex_untimed_report_no_drift :
  exists n, alookup 1 (run w_cfg w_ops) = Some n
    /\ n_metric n = Some w_m2
    /\ s_nodeDelta (n_sums n) = [90; 209715200]
    /\ fresh_sums w_cfg n = n_sums n.
Proof. exact untimed_report_no_drift. Qed.
Example c08_ex_float_tie :
  pct_float 115 200 = 57 /\ round_div (100 * 115) 200 = 58 /\ pct_float 131 200 = 66.
Proof. exact w_float_tie. Qed.
