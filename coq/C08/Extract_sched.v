(* C08 — extraction of the entry points of stream "sched" (defined in Codec_Sched.v). *)
From Coq Require Import List ZArith Bool.
From Verif Require C08.Codec_Sched.

Definition run_case := C08.Codec_Sched.sched_run_case.
Definition prop_case := C08.Codec_Sched.sched_prop_case.
Definition nontrivial_case := C08.Codec_Sched.sched_nontrivial_case.
Definition finding_sig := C08.Codec_Sched.sched_finding_sig.

Require Extraction.
Require Import ExtrOcamlBasic.
Extraction "model.ml" run_case prop_case nontrivial_case finding_sig.
