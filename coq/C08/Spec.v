(* C08 — the property as a Prop over (history, observations) and its decision procedure.

   An observation (Model.opobs) is what the harness reads from the implementation after one
   operation: the operation's result (the Filter status) and, for every node of the universe,
   the uids held for it and — while a metric report is stored — the four cached sums, the four
   sums of a FRESH cache fed the node's current report and pods, and the estimate of existing
   pods GetNodeMetricAndEstimatedOfExisting returns for eight (prod, aggregation) variants.

   Clause ids returned by [prop_code] (0 = holds):
     8  the pods held for a node are not the pods the events assigned to it
     1  cached sums differ from those of the fresh cache                     (drift)
     2  cached sums differ from the from-scratch computation [rebuild] on the node's current
        report and assigned pods                                             (drift)
     3  a returned estimate is not usage + delta of the stored report and sums
     5  a Filter status is not the threshold / expiry decision on the estimate the cache
        returned for the node
     6  a Score is not the weighted least-used score of that estimate plus the incoming pod
     9  malformed observation *)
From Coq Require Import List ZArith Bool.
From Verif Require Import Lib.SortX C08.Model.
Import ListNotations.
Open Scope Z_scope.

Definition sums_eqb (a b : sums) : bool :=
  vec_eqb (s_prodUsage a) (s_prodUsage b) && vec_eqb (s_nodeDelta a) (s_nodeDelta b)
  && vec_eqb (s_prodDelta a) (s_prodDelta b) && vec_eqb (s_nodeEst a) (s_nodeEst b).
(* ---------------------------------------------------------------- one node's view *)
(* [n] is what the events imply for the node (None: nothing assigned, no report) *)
Definition spec_uids (n : option ninfo) : list Z :=
  match n with Some x => sort_by Z.leb (map fst (n_pods x)) | None => [] end.
Definition spec_metric (n : option ninfo) : option metric :=
  match n with Some x => n_metric x | None => None end.

Definition view_uids (o : option nobs) : list Z :=
  match o with Some x => no_uids x | None => [] end.
Definition view_detail (o : option nobs) : option (sums * sums * list (option vec)) :=
  match o with Some x => no_detail x | None => None end.

Definition estimates_of (m : metric) (s : sums) : list (option vec) :=
  map (fun v => Some (est_of m s (fst (fst v)) (snd (fst v)) (snd v))) variants.

Definition node_ok (cfg : config) (n : option ninfo) (o : option nobs) : Prop :=
  view_uids o = spec_uids n /\
  match spec_metric n, view_detail o, n with
  | Some m, Some (old, fresh, gets), Some x =>
      old = fresh
      /\ old = rebuild cfg m (n_ut x) (n_pods x)
      /\ gets = estimates_of m old
  | None, None, _ => True
  | _, _, _ => False
  end.

Definition node_code (cfg : config) (n : option ninfo) (o : option nobs) : Z :=
  if negb (list_eqb Z.eqb (view_uids o) (spec_uids n)) then 8 else
  match spec_metric n, view_detail o, n with
  | Some m, Some (old, fresh, gets), Some x =>
      if negb (sums_eqb old fresh) then 1
      else if negb (sums_eqb old (rebuild cfg m (n_ut x) (n_pods x))) then 2
      else if negb (list_eqb ovec_eqb gets (estimates_of m old)) then 3
      else 0
  | None, None, _ => 0
  | _, _, _ => 9
  end.

(* ---------------------------------------------------------------- the Filter decision *)
Fixpoint variant_index (v : bool * Z * Z) (l : list (bool * Z * Z)) : option nat :=
  match l with
  | [] => None
  | (b, t, d) :: r =>
    if Bool.eqb b (fst (fst v)) && (t =? snd (fst v)) && (d =? snd v) then Some O
    else option_map S (variant_index v r)
  end.

(* the estimate the implementation's cache returned, read from its observation *)
Definition view_get (gets : list (option vec)) (prod : bool) (t d : Z) : option vec :=
  match variant_index (prod, t, d) variants with
  | Some i => nth i gets None
  | None => None
  end.

(* is the variant Filter asks for one of the observed ones? *)
Definition variant_observed (cfg : config) (nd : nodeobj) (p : pod) : bool :=
  let '(_, _, aggT, aggD, prodPod) := select_thresholds (node_profile cfg nd) (is_prod p) in
  is_some (variant_index (prodPod, aggT, aggD) variants).

Definition score_observed (cfg : config) (p : pod) : bool :=
  let '(prodPod, aggT, aggD) := score_variant cfg p in
  is_some (variant_index (prodPod, aggT, aggD) variants).

Definition view_state (m : option metric) (o : option nobs)
  : option (metric * (bool -> Z -> Z -> option vec)) :=
  match m, view_detail o with
  | Some mm, Some (_, _, gets) => Some (mm, view_get gets)
  | _, _ => None
  end.

(* result of an operation against the state BEFORE it and the view AFTER it (Filter does not
   change the cache) *)
Definition op_ok (cfg : config) (c : cache) (o : op) (r : Z) (view : list (option nobs)) : Prop :=
  match o with
  | OFilter _ nd p =>
    variant_observed cfg nd p = true ->
    In (nd_name nd) universe ->
    r = filter_decide cfg nd p
          (view_state (spec_metric (alookup (nd_name nd) c))
                      (nth (Nat.pred (Z.to_nat (nd_name nd))) view None))
  | OScore _ nd p =>
    score_observed cfg p = true ->
    In (nd_name nd) universe ->
    r = score_decide cfg nd p
          (view_state (spec_metric (alookup (nd_name nd) c))
                      (nth (Nat.pred (Z.to_nat (nd_name nd))) view None))
  | _ => r = 0
  end.
Definition op_code (cfg : config) (c : cache) (o : op) (r : Z) (view : list (option nobs)) : Z :=
  match o with
  | OFilter _ nd p =>
    if variant_observed cfg nd p && existsb (Z.eqb (nd_name nd)) universe then
      if r =? filter_decide cfg nd p
                (view_state (spec_metric (alookup (nd_name nd) c))
                            (nth (Nat.pred (Z.to_nat (nd_name nd))) view None))
      then 0 else 5
    else 0
  | OScore _ nd p =>
    if score_observed cfg p && existsb (Z.eqb (nd_name nd)) universe then
      if r =? score_decide cfg nd p
                (view_state (spec_metric (alookup (nd_name nd) c))
                            (nth (Nat.pred (Z.to_nat (nd_name nd))) view None))
      then 0 else 6
    else 0
  | _ => if r =? 0 then 0 else 9
  end.

(* ---------------------------------------------------------------- whole histories *)
Fixpoint nodes_ok (cfg : config) (c : cache) (nodes : list Z) (view : list (option nobs)) : Prop :=
  match nodes, view with
  | [], [] => True
  | k :: ns, o :: os => node_ok cfg (alookup k c) o /\ nodes_ok cfg c ns os
  | _, _ => False
  end.
Fixpoint nodes_code (cfg : config) (c : cache) (nodes : list Z) (view : list (option nobs)) : Z :=
  match nodes, view with
  | [], [] => 0
  | k :: ns, o :: os =>
    let r := node_code cfg (alookup k c) o in
    if r =? 0 then nodes_code cfg c ns os else r
  | _, _ => 9
  end.

(* the property for a history [ops] started in cache state [c] *)
Fixpoint holds_from (cfg : config) (c : cache) (ops : list op) (obs : list opobs) : Prop :=
  match ops, obs with
  | [], [] => True
  | o :: t, (r, view) :: obs' =>
    let c' := step cfg c o in
    nodes_ok cfg c' universe view /\ op_ok cfg c o r view /\ holds_from cfg c' t obs'
  | _, _ => False
  end.
Fixpoint code_from (cfg : config) (c : cache) (ops : list op) (obs : list opobs) : Z :=
  match ops, obs with
  | [], [] => 0
  | o :: t, (r, view) :: obs' =>
    let c' := step cfg c o in
    let a := nodes_code cfg c' universe view in
    if negb (a =? 0) then a else
    let b := op_code cfg c o r view in
    if negb (b =? 0) then b else code_from cfg c' t obs'
  | _, _ => 9
  end.

Definition C08_holds (cfg : config) (ops : list op) (obs : list opobs) : Prop :=
  holds_from cfg [] ops obs.
Definition prop_code (cfg : config) (ops : list op) (obs : list opobs) : Z :=
  code_from cfg [] ops obs.
