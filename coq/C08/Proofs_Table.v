(* C08 — which pods the cache holds for a node: effect and frame of every pod event on the pod
   table (the "pods currently assigned to it" of the property). *)
From Coq Require Import List ZArith Bool Lia.
From Verif Require Import C08.Model C08.Spec C08.Proofs.
Import ListNotations.
Open Scope Z_scope.

Definition storable (node : Z) (p : pod) : bool := negb ((node =? 0) || terminated p || p_resv p).

Lemma pod_info_zero c uid : pod_info c 0 uid = None.
Proof. reflexivity. Qed.

(* assign files the pod under (node, uid) and touches no other entry *)
Lemma pod_info_assign cfg now node p c node' uid' :
  pod_info (assign cfg now node p c) node' uid' =
    if storable node p && (node' =? node) && (uid' =? p_uid p)
    then Some (mk_pinfo cfg now p) else pod_info c node' uid'.
Proof.
  unfold assign, storable.
  destruct ((node =? 0) || terminated p || p_resv p) eqn:Eg; cbn [negb andb]; [reflexivity|].
  apply orb_false_elim in Eg. destruct Eg as [Eg _]. apply orb_false_elim in Eg. destruct Eg as [En _].
  unfold pod_info. destruct (node' =? 0) eqn:E0.
  - destruct (node' =? node) eqn:E1; [|reflexivity].
    apply Z.eqb_eq in E0, E1. subst. discriminate.
  - rewrite alookup_aset. rewrite (Z.eqb_sym node' node).
    destruct (node =? node') eqn:E1; [|reflexivity].
    apply Z.eqb_eq in E1. subst node'. cbn [n_pods]. rewrite alookup_aset.
    rewrite (Z.eqb_sym uid' (p_uid p)).
    destruct (p_uid p =? uid'); [reflexivity|].
    unfold get_node. destruct (alookup node c); reflexivity.
Qed.

(* unassign removes (node, uid) and touches no other entry *)
Lemma pod_info_unassign node uid c node' uid' :
  pod_info (unassign node uid c) node' uid' =
    if (node' =? node) && (uid' =? uid) then None else pod_info c node' uid'.
Proof.
  unfold unassign. destruct (node =? 0) eqn:E0.
  - apply Z.eqb_eq in E0. subst node.
    destruct (node' =? 0) eqn:E1; [|reflexivity]. apply Z.eqb_eq in E1. subst node'.
    now destruct (uid' =? uid).
  - destruct (alookup node c) as [n|] eqn:En.
    + unfold pod_info. destruct (node' =? 0) eqn:E1.
      * apply Z.eqb_eq in E1. subst node'. now destruct ((0 =? node) && (uid' =? uid)).
      * unfold put_or_cleanup. cbn [n_metric n_pods].
        destruct (node' =? node) eqn:E2.
        -- apply Z.eqb_eq in E2. subst node'. rewrite En. cbn [andb].
           assert (Hrem : alookup uid' (aremove uid (n_pods n))
                          = if uid' =? uid then None else alookup uid' (n_pods n)).
           { rewrite alookup_aremove. now rewrite (Z.eqb_sym uid uid'). }
           destruct (n_metric n).
           ++ rewrite alookup_aset, Z.eqb_refl. cbn [n_pods]. exact Hrem.
           ++ destruct (aremove uid (n_pods n)) eqn:Er.
              ** rewrite alookup_aremove, Z.eqb_refl. rewrite <- Hrem. reflexivity.
              ** rewrite alookup_aset, Z.eqb_refl. cbn [n_pods]. exact Hrem.
        -- cbn [andb].
           assert (Hne : (node =? node') = false) by now rewrite Z.eqb_sym.
           destruct (n_metric n); [now rewrite alookup_aset, Hne|].
           destruct (aremove uid (n_pods n)); [now rewrite alookup_aremove, Hne|now rewrite alookup_aset, Hne].
    + destruct (node' =? node) eqn:E2; [|reflexivity].
      apply Z.eqb_eq in E2. subst node'.
      destruct (uid' =? uid); [|reflexivity]. cbn [andb].
      unfold pod_info. rewrite E0, En. reflexivity.
Qed.

Lemma spec_eqb_refl p : spec_eqb p p = true.
Proof.
  unfold spec_eqb. rewrite !Z.eqb_refl, oz_eqb_refl, ovec_eqb_refl.
  rewrite (list_eqb_refl ctr_eqb) by apply ctr_eqb_refl.
  now rewrite (list_eqb_refl ictr_eqb) by apply ictr_eqb_refl.
Qed.
Lemma cond_eqb_refl p : cond_eqb p p = true.
Proof.
  unfold cond_eqb, cond_eqb1. rewrite !Z.eqb_refl. cbn [andb]. now rewrite !orb_true_r.
Qed.

(* no ghost load: after an update event that moves the pod, the old node no longer holds it *)
Lemma on_update_leaves_old_node cfg now old p c :
  old <> 0 -> old <> p_node p ->
  pod_info (on_update cfg now old p c) old (p_uid p) = None.
Proof.
  intros H0 Hne. unfold on_update.
  apply Z.eqb_neq in H0, Hne. rewrite H0, Hne. cbn [negb andb].
  set (c1 := unassign old (p_uid p) c).
  assert (H1 : pod_info c1 old (p_uid p) = None).
  { unfold c1. rewrite pod_info_unassign, !Z.eqb_refl. reflexivity. }
  destruct (pod_info c1 (p_node p) (p_uid p)) as [o|].
  - destruct (terminated p).
    + rewrite pod_info_unassign, Hne. exact H1.
    + destruct (negb (spec_eqb p (pi_pod o)) || negb (cond_eqb p (pi_pod o))); [|exact H1].
      rewrite pod_info_assign, Hne. now rewrite andb_false_r.
  - rewrite pod_info_assign, Hne. now rewrite andb_false_r.
Qed.

(* after an update event for a live pod bound to a node, the cache holds for (node, uid) an
   info whose pod has the event's spec and conditions *)
Lemma on_update_stores cfg now old p c :
  storable (p_node p) p = true ->
  exists pi, pod_info (on_update cfg now old p c) (p_node p) (p_uid p) = Some pi
    /\ spec_eqb p (pi_pod pi) = true /\ cond_eqb p (pi_pod pi) = true.
Proof.
  intro Hst. unfold on_update.
  set (c1 := if negb (old =? 0) && negb (old =? p_node p) then unassign old (p_uid p) c else c).
  assert (Hterm : terminated p = false).
  { unfold storable in Hst. apply negb_true_iff in Hst.
    apply orb_false_elim in Hst. destruct Hst as [Hst _]. now apply orb_false_elim in Hst. }
  assert (Hnew : exists pi, pod_info (assign cfg now (p_node p) p c1) (p_node p) (p_uid p) = Some pi
            /\ spec_eqb p (pi_pod pi) = true /\ cond_eqb p (pi_pod pi) = true).
  { exists (mk_pinfo cfg now p). rewrite pod_info_assign, Hst, !Z.eqb_refl. cbn [andb].
    split; [reflexivity|]. cbn [mk_pinfo pi_pod]. split; [apply spec_eqb_refl|apply cond_eqb_refl]. }
  destruct (pod_info c1 (p_node p) (p_uid p)) as [o|] eqn:Eo; [|exact Hnew].
  rewrite Hterm.
  destruct (spec_eqb p (pi_pod o)) eqn:Es; cbn [negb orb]; [|exact Hnew].
  destruct (cond_eqb p (pi_pod o)) eqn:Ec; cbn [negb]; [|exact Hnew].
  exists o. now rewrite Eo.
Qed.

(* a terminated pod is dropped from its node *)
Lemma on_update_drops_terminated cfg now old p c :
  terminated p = true -> pod_info (on_update cfg now old p c) (p_node p) (p_uid p) = None.
Proof.
  intro Ht. unfold on_update.
  set (c1 := if negb (old =? 0) && negb (old =? p_node p) then unassign old (p_uid p) c else c).
  destruct (pod_info c1 (p_node p) (p_uid p)) as [o|] eqn:Eo.
  - rewrite Ht. rewrite pod_info_unassign, !Z.eqb_refl. reflexivity.
  - rewrite pod_info_assign. unfold storable. rewrite Ht, orb_true_r. cbn [negb andb orb]. exact Eo.
Qed.

(* Reserve followed by Unreserve of a pod the node did not hold restores every table entry *)
Lemma reserve_unreserve_table cfg now node p c node' uid' :
  pod_info c node (p_uid p) = None ->
  pod_info (unassign node (p_uid p) (assign cfg now node p c)) node' uid' = pod_info c node' uid'.
Proof.
  intro Hn. rewrite pod_info_unassign, pod_info_assign.
  destruct ((node' =? node) && (uid' =? p_uid p)) eqn:E.
  - apply andb_prop in E. destruct E as [E1 E2]. apply Z.eqb_eq in E1, E2. subst. now rewrite Hn.
  - now rewrite <- andb_assoc, E, andb_false_r.
Qed.

(* ------------------------------------------------------------------ frames *)
(* events of other nodes never change what the cache holds for node k *)
Definition involves (o : op) (k : Z) : bool :=
  match o with
  | OReserve _ node _ | OUnreserve _ node _ => node =? k
  | OAdd _ p | ODelete _ p => p_node p =? k
  | OUpdate _ old p => (old =? k) || (p_node p =? k)
  | OMetric _ node _ | OMetricDel _ node => node =? k
  | OFilter _ _ _ | ONop _ | OScore _ _ _ => false
  end.

Lemma put_or_cleanup_other (c : cache) node n k :
  (node =? k) = false -> alookup k (put_or_cleanup c node n) = alookup k c.
Proof.
  intro H. unfold put_or_cleanup.
  destruct (n_metric n); [now rewrite alookup_aset, H|].
  destruct (n_pods n); [now rewrite alookup_aremove, H|now rewrite alookup_aset, H].
Qed.

Lemma assign_other cfg now node p c k :
  (node =? k) = false -> alookup k (assign cfg now node p c) = alookup k c.
Proof.
  intro H. unfold assign. destruct ((node =? 0) || terminated p || p_resv p); [reflexivity|].
  now rewrite alookup_aset, H.
Qed.

Lemma unassign_other node uid c k :
  (node =? k) = false -> alookup k (unassign node uid c) = alookup k c.
Proof.
  intro H. unfold unassign. destruct (node =? 0); [reflexivity|].
  destruct (alookup node c); [|reflexivity]. now apply put_or_cleanup_other.
Qed.

Lemma step_node_frame cfg c o k :
  involves o k = false -> alookup k (step cfg c o) = alookup k c.
Proof.
  destruct o; cbn [involves step]; intro H.
  - now apply assign_other.
  - now apply unassign_other.
  - now apply assign_other.
  - apply orb_false_elim in H. destruct H as [H1 H2]. unfold on_update.
    set (c1 := if negb (old_node =? 0) && negb (old_node =? p_node p)
               then unassign old_node (p_uid p) c else c).
    assert (Hc1 : alookup k c1 = alookup k c).
    { unfold c1. destruct (negb (old_node =? 0) && negb (old_node =? p_node p));
        [now apply unassign_other|reflexivity]. }
    destruct (pod_info c1 (p_node p) (p_uid p)) as [o|]; [|now rewrite assign_other].
    destruct (terminated p); [now rewrite unassign_other|].
    destruct (negb (spec_eqb p (pi_pod o)) || negb (cond_eqb p (pi_pod o)));
      [now rewrite assign_other|exact Hc1].
  - now apply unassign_other.
  - unfold set_metric. now rewrite alookup_aset, H.
  - unfold del_metric. destruct (alookup node c); [|reflexivity]. now apply put_or_cleanup_other.
  - reflexivity.
  - reflexivity.
  - reflexivity.
Qed.

Lemma run_node_frame cfg ops c k :
  forallb (fun o => negb (involves o k)) ops = true ->
  alookup k (fold_left (step cfg) ops c) = alookup k c.
Proof.
  revert c. induction ops as [|o ops IH]; intros c H; [reflexivity|].
  cbn [forallb] in H. apply andb_prop in H. destruct H as [Ho Hops].
  cbn [fold_left]. rewrite IH by exact Hops. apply step_node_frame. now apply negb_true_iff.
Qed.

(* the entry (k, u) of the pod table is changed only by events about pod u that name node k;
   metric events never change the pod table *)
Definition touches (o : op) (k u : Z) : bool :=
  match o with
  | OReserve _ node p | OUnreserve _ node p => (node =? k) && (p_uid p =? u)
  | OAdd _ p | ODelete _ p => (p_node p =? k) && (p_uid p =? u)
  | OUpdate _ old p => (p_uid p =? u) && ((old =? k) || (p_node p =? k))
  | _ => false
  end.

Lemma pod_info_set_metric cfg node m c k u :
  pod_info (set_metric cfg node m c) k u = pod_info c k u.
Proof.
  unfold pod_info, set_metric. destruct (k =? 0); [reflexivity|].
  rewrite alookup_aset. destruct (node =? k) eqn:E; [|reflexivity].
  apply Z.eqb_eq in E. subst k. cbn [n_pods]. unfold get_node.
  destruct (alookup node c); reflexivity.
Qed.

Lemma pod_info_del_metric node c k u : pod_info (del_metric node c) k u = pod_info c k u.
Proof.
  unfold pod_info, del_metric. destruct (k =? 0); [reflexivity|].
  destruct (alookup node c) as [n|] eqn:En; [|reflexivity].
  destruct (node =? k) eqn:E; [|now rewrite put_or_cleanup_other].
  apply Z.eqb_eq in E. subst k. rewrite En. unfold put_or_cleanup. cbn [n_metric n_pods].
  destruct (n_pods n) eqn:Ep.
  - now rewrite alookup_aremove, Z.eqb_refl.
  - rewrite alookup_aset, Z.eqb_refl. cbn [n_pods]. reflexivity.
Qed.

Lemma step_table_frame cfg c o k u :
  touches o k u = false -> pod_info (step cfg c o) k u = pod_info c k u.
Proof.
  destruct o; cbn [touches step]; intro H.
  - rewrite pod_info_assign. rewrite (Z.eqb_sym k node), (Z.eqb_sym u (p_uid p)).
    rewrite <- andb_assoc, H. now rewrite andb_false_r.
  - rewrite pod_info_unassign. now rewrite (Z.eqb_sym k node), (Z.eqb_sym u (p_uid p)), H.
  - rewrite pod_info_assign. rewrite (Z.eqb_sym k (p_node p)), (Z.eqb_sym u (p_uid p)).
    rewrite <- andb_assoc, H. now rewrite andb_false_r.
  - unfold on_update.
    set (c1 := if negb (old_node =? 0) && negb (old_node =? p_node p)
               then unassign old_node (p_uid p) c else c).
    assert (Hc1 : pod_info c1 k u = pod_info c k u).
    { unfold c1. destruct (negb (old_node =? 0) && negb (old_node =? p_node p)); [|reflexivity].
      rewrite pod_info_unassign. rewrite (Z.eqb_sym k old_node), (Z.eqb_sym u (p_uid p)).
      destruct (p_uid p =? u); [|now rewrite andb_false_r].
      cbn [andb] in H. apply orb_false_elim in H. destruct H as [H1 _]. now rewrite H1. }
    assert (Hmatch : (k =? p_node p) && (u =? p_uid p) = false).
    { rewrite (Z.eqb_sym k (p_node p)), (Z.eqb_sym u (p_uid p)).
      destruct (p_uid p =? u); [|now rewrite andb_false_r].
      cbn [andb] in H. apply orb_false_elim in H. destruct H as [_ H2]. now rewrite H2. }
    destruct (pod_info c1 (p_node p) (p_uid p)) as [o|].
    + destruct (terminated p).
      * now rewrite pod_info_unassign, Hmatch.
      * destruct (negb (spec_eqb p (pi_pod o)) || negb (cond_eqb p (pi_pod o))); [|exact Hc1].
        rewrite pod_info_assign, <- andb_assoc, Hmatch. now rewrite andb_false_r.
    + rewrite pod_info_assign, <- andb_assoc, Hmatch. now rewrite andb_false_r.
  - rewrite pod_info_unassign. now rewrite (Z.eqb_sym k (p_node p)), (Z.eqb_sym u (p_uid p)), H.
  - apply pod_info_set_metric.
  - apply pod_info_del_metric.
  - reflexivity.
  - reflexivity.
  - reflexivity.
Qed.

(* after any history, the entry (k, u) is the one left by the last event that touched it *)
Lemma run_table_frame cfg ops c k u :
  forallb (fun o => negb (touches o k u)) ops = true ->
  pod_info (fold_left (step cfg) ops c) k u = pod_info c k u.
Proof.
  revert c. induction ops as [|o ops IH]; intros c H; [reflexivity|].
  cbn [forallb] in H. apply andb_prop in H. destruct H as [Ho Hops].
  cbn [fold_left]. rewrite IH by exact Hops. apply step_table_frame. now apply negb_true_iff.
Qed.
