(* C04 — proofs, part 1: finite sets as lists, reflection of the boolean checks, and the
   membership partition at the level of one gang (every lock-protected section of gang.go). *)
From Coq Require Import List ZArith Bool Lia.
From Verif Require Import C04.Model C04.Spec.
Import ListNotations.
Open Scope Z_scope.

(* ---------- sets ---------- *)
Lemma memZ_In x l : memZ x l = true <-> In x l.
Proof.
  induction l as [|y t IH]; simpl.
  - split; [discriminate | tauto].
  - rewrite orb_true_iff, IH, Z.eqb_eq. split; intros [H|H]; auto.
Qed.

Lemma memZ_nIn x l : memZ x l = false <-> ~ In x l.
Proof. rewrite <- memZ_In. destruct (memZ x l); split; congruence. Qed.

Lemma sadd_In y x l : In y (sadd x l) <-> y = x \/ In y l.
Proof.
  unfold sadd. destruct (memZ x l) eqn:E.
  - apply memZ_In in E. split; [auto | intros [->|H]; auto].
  - simpl. split; intros [H|H]; auto.
Qed.

Lemma srem_In y x l : In y (srem x l) <-> y <> x /\ In y l.
Proof.
  unfold srem. rewrite filter_In, negb_true_iff, Z.eqb_neq. tauto.
Qed.

Lemma sadd_NoDup x l : NoDup l -> NoDup (sadd x l).
Proof.
  intros H. unfold sadd. destruct (memZ x l) eqn:E; [exact H|].
  constructor; [apply memZ_nIn; exact E | exact H].
Qed.

Lemma srem_NoDup x l : NoDup l -> NoDup (srem x l).
Proof. intros H. apply NoDup_filter. exact H. Qed.

Lemma nodupb_NoDup l : nodupb l = true <-> NoDup l.
Proof.
  induction l as [|x t IH]; simpl.
  - split; [constructor | reflexivity].
  - rewrite andb_true_iff, negb_true_iff, memZ_nIn, IH. split.
    + intros [H1 H2]. constructor; assumption.
    + intros H. inversion H; subst. split; assumption.
Qed.

Lemma subsetb_spec a b : subsetb a b = true <-> (forall x, In x a -> In x b).
Proof.
  unfold subsetb. rewrite forallb_forall. split; intros H x Hx.
  - apply memZ_In. apply H. exact Hx.
  - apply memZ_In. apply H. exact Hx.
Qed.

Lemma disjointb_spec a b : disjointb a b = true <-> (forall x, In x a -> ~ In x b).
Proof.
  unfold disjointb. rewrite forallb_forall. split; intros H x Hx.
  - apply memZ_nIn. apply negb_true_iff. apply H. exact Hx.
  - apply negb_true_iff. apply memZ_nIn. apply H. exact Hx.
Qed.

Lemma set_eqb_spec a b : set_eqb a b = true <-> same_set a b.
Proof.
  unfold set_eqb, same_set. rewrite andb_true_iff, !subsetb_spec. split.
  - intros [H1 H2] x. split; auto.
  - intros H. split; intros x Hx; apply H; exact Hx.
Qed.

Lemma set_eqb_refl a : set_eqb a a = true.
Proof. apply set_eqb_spec. intros x. tauto. Qed.

Lemma is_nil_spec {A} (l : list A) : is_nil l = true <-> l = [].
Proof. destruct l; simpl; split; congruence. Qed.

(* ---------- reflection of the partition check ---------- *)
Lemma wpart4b_spec c p w b : wpart4b c p w b = true <-> wpart4 c p w b.
Proof.
  unfold wpart4b, wpart4.
  rewrite !andb_true_iff, !nodupb_NoDup, !subsetb_spec, !disjointb_spec. tauto.
Qed.

Lemma part4b_spec c p w b : part4b c p w b = true <-> part4 c p w b.
Proof.
  unfold part4b, part4. rewrite andb_true_iff, wpart4b_spec, forallb_forall.
  split; intros [H1 H2]; split; try exact H1; intros q Hq.
  - specialize (H2 q Hq). rewrite !orb_true_iff, !memZ_In in H2. tauto.
  - rewrite !orb_true_iff, !memZ_In. specialize (H2 q Hq). tauto.
Qed.

Lemma part4_exactly_one c p w b q :
  part4 c p w b -> In q c ->
  (In q p /\ ~ In q w /\ ~ In q b) \/ (~ In q p /\ In q w /\ ~ In q b) \/ (~ In q p /\ ~ In q w /\ In q b).
Proof.
  intros [(_ & _ & _ & _ & Hpc & _ & _ & Hpw & Hpb & Hwb) Hcov] Hq.
  destruct (Hcov q Hq) as [H|[H|H]].
  - left. auto.
  - right; left. split; [|split]; auto. intros Hp. apply (Hpw q Hp H).
  - right; right. split; [|split]; auto.
    + intros Hp. apply (Hpb q Hp H).
    + intros Hw. apply (Hwb q Hw H).
Qed.

(* ---------- the partition of one gang under the sections of gang.go ---------- *)
Definition gwpart (x : gang) : Prop := wpart4 (g_children x) (g_pending x) (g_waiting x) (g_bound x).
Definition gpart (x : gang) : Prop := part4 (g_children x) (g_pending x) (g_waiting x) (g_bound x).

Ltac sets :=
  repeat match goal with
  | H : context [In _ (sadd _ _)] |- _ => rewrite sadd_In in H
  | H : context [In _ (srem _ _)] |- _ => rewrite srem_In in H
  | |- context [In _ (sadd _ _)] => rewrite sadd_In
  | |- context [In _ (srem _ _)] => rewrite srem_In
  end.

Ltac nodups := repeat first [apply sadd_NoDup | apply srem_NoDup]; assumption.

Lemma gwpart_set_child p node x : gwpart x -> gwpart (g_set_child p node x).
Proof.
  unfold gwpart, g_set_child, wpart4. cbn [g_children g_pending g_waiting g_bound g_with_sets].
  intros (Nc & Np & Nw & Nb & Hpc & Hwc & Hbc & Hpw & Hpb & Hwb).
  destruct (negb node && negb (memZ p (g_waiting x)) && negb (memZ p (g_bound x))) eqn:E.
  - apply andb_true_iff in E. destruct E as [E E3]. apply andb_true_iff in E. destruct E as [E1 E2].
    apply negb_true_iff in E2, E3. apply memZ_nIn in E2, E3.
    repeat split; try nodups; intros q Hq; sets.
    + destruct Hq as [->|Hq]; auto.
    + auto.
    + auto.
    + destruct Hq as [->|Hq]; auto.
    + destruct Hq as [->|Hq]; auto.
  - repeat split; try nodups; intros q Hq; sets; auto.
Qed.

Lemma gwpart_add_assumed p x :
  gwpart x -> ~ In p (g_bound x) -> In p (g_children x) -> gwpart (g_add_assumed p x).
Proof.
  unfold gwpart, g_add_assumed, wpart4. cbn [g_children g_pending g_waiting g_bound g_with_sets].
  intros (Nc & Np & Nw & Nb & Hpc & Hwc & Hbc & Hpw & Hpb & Hwb) Hb Hc.
  repeat split; try nodups; intros q Hq; sets.
  - apply Hpc. tauto.
  - destruct Hq as [->|Hq]; auto.
  - intros [->|H]; [tauto | apply (Hpw q); tauto].
  - apply Hpb. tauto.
  - destruct Hq as [->|Hq]; auto.
Qed.

Lemma gwpart_del_assumed p x : gwpart x -> gwpart (g_del_assumed p x).
Proof.
  unfold gwpart, g_del_assumed, wpart4. intros (Nc & Np & Nw & Nb & Hpc & Hwc & Hbc & Hpw & Hpb & Hwb).
  destruct (memZ p (g_waiting x)) eqn:Ew; [|repeat split; assumption].
  apply memZ_In in Ew. cbn [g_children g_pending g_waiting g_bound g_with_sets].
  destruct (memZ p (g_children x)) eqn:Ec.
  - apply memZ_In in Ec. repeat split; try nodups; intros q Hq; sets.
    + destruct Hq as [->|Hq]; auto.
    + apply Hwc. tauto.
    + intros [Hne Hw]. destruct Hq as [->|Hq]; [congruence | apply (Hpw q Hq Hw)].
    + destruct Hq as [->|Hq]; [apply Hwb; exact Ew | apply Hpb; exact Hq].
    + apply Hwb. tauto.
  - repeat split; try nodups; intros q Hq; sets; auto.
    + apply Hwc. tauto.
    + intros [_ Hw]. apply (Hpw q Hq Hw).
    + apply Hwb. tauto.
Qed.

Lemma gwpart_add_bound p x : gwpart x -> In p (g_children x) -> gwpart (g_add_bound p x).
Proof.
  unfold gwpart, g_add_bound, wpart4. cbn [g_children g_pending g_waiting g_bound g_with_sets].
  intros (Nc & Np & Nw & Nb & Hpc & Hwc & Hbc & Hpw & Hpb & Hwb) Hc.
  repeat split; try nodups; intros q Hq; sets.
  - apply Hpc. tauto.
  - apply Hwc. tauto.
  - destruct Hq as [->|Hq]; auto.
  - intros [_ Hw]. apply (Hpw q); tauto.
  - intros [->|H]; [tauto | apply (Hpb q); tauto].
  - intros [->|H]; [tauto | apply (Hwb q); tauto].
Qed.

Lemma gwpart_delete_pod p x : gwpart x -> gwpart (g_delete_pod p x).
Proof.
  unfold gwpart, g_delete_pod, wpart4. cbn [g_children g_pending g_waiting g_bound g_with_sets].
  intros (Nc & Np & Nw & Nb & Hpc & Hwc & Hbc & Hpw & Hpb & Hwb).
  repeat split; try nodups; intros q Hq; sets.
  - split; [tauto | apply Hpc; tauto].
  - split; [tauto | apply Hwc; tauto].
  - split; [tauto | apply Hbc; tauto].
  - intros [_ Hw]. apply (Hpw q); tauto.
  - intros [_ H]. apply (Hpb q); tauto.
  - intros [_ H]. apply (Hwb q); tauto.
Qed.

(* the cover clause, per entry point *)
Lemma gpart_pod_event p node x : gpart x -> gpart (g_pod_event p node x).
Proof.
  intros [Hw Hcov]. split.
  - unfold g_pod_event. destruct node; [apply gwpart_add_bound|]; try (apply gwpart_set_child; exact Hw).
    unfold g_set_child. cbn [g_children g_with_sets]. apply sadd_In. left. reflexivity.
  - unfold g_pod_event. destruct node.
    + unfold g_add_bound, g_set_child.
      cbn [g_children g_pending g_waiting g_bound g_with_sets negb andb].
      intros q Hq. sets. destruct (Z.eq_dec q p) as [->|Hne]; [tauto|].
      destruct Hq as [->|Hq]; [congruence|]. destruct (Hcov q Hq) as [H|[H|H]]; tauto.
    + unfold g_set_child. cbn [g_children g_pending g_waiting g_bound g_with_sets negb andb].
      intros q Hq. sets.
      destruct (memZ p (g_waiting x)) eqn:E2; cbn [negb andb].
      * apply memZ_In in E2. destruct Hq as [->|Hq]; [tauto | apply Hcov; exact Hq].
      * destruct (memZ p (g_bound x)) eqn:E3; cbn [negb].
        -- apply memZ_In in E3. destruct Hq as [->|Hq]; [tauto | apply Hcov; exact Hq].
        -- sets. destruct Hq as [->|Hq]; [tauto|]. destruct (Hcov q Hq) as [H|[H|H]]; tauto.
Qed.

Lemma gpart_add_assumed p x :
  gpart x -> ~ In p (g_bound x) -> In p (g_children x) -> gpart (g_add_assumed p x).
Proof.
  intros [Hw Hcov] Hb Hc. split; [apply gwpart_add_assumed; assumption|].
  unfold g_add_assumed. cbn [g_children g_pending g_waiting g_bound g_with_sets].
  intros q Hq. sets. destruct (Z.eq_dec q p) as [->|Hne]; [tauto|].
  destruct (Hcov q Hq) as [H|[H|H]]; tauto.
Qed.

Lemma gpart_del_assumed p x : gpart x -> gpart (g_del_assumed p x).
Proof.
  intros [Hw Hcov]. split; [apply gwpart_del_assumed; assumption|].
  unfold g_del_assumed. destruct (memZ p (g_waiting x)) eqn:Ew; [|exact Hcov].
  cbn [g_children g_pending g_waiting g_bound g_with_sets].
  intros q Hq. destruct (memZ p (g_children x)) eqn:Ec.
  - sets. destruct (Z.eq_dec q p) as [->|Hne]; [tauto|].
    destruct (Hcov q Hq) as [H|[H|H]]; tauto.
  - apply memZ_nIn in Ec. sets. assert (q <> p) by (intros ->; tauto).
    destruct (Hcov q Hq) as [H'|[H'|H']]; tauto.
Qed.

Lemma gpart_add_bound p x : gpart x -> In p (g_children x) -> gpart (g_add_bound p x).
Proof.
  intros [Hw Hcov] Hc. split; [apply gwpart_add_bound; assumption|].
  unfold g_add_bound. cbn [g_children g_pending g_waiting g_bound g_with_sets].
  intros q Hq. sets. destruct (Z.eq_dec q p) as [->|Hne]; [tauto|].
  destruct (Hcov q Hq) as [H|[H|H]]; tauto.
Qed.

Lemma gpart_delete_pod p x : gpart x -> gpart (g_delete_pod p x).
Proof.
  intros [Hw Hcov]. split; [apply gwpart_delete_pod; assumption|].
  unfold g_delete_pod. cbn [g_children g_pending g_waiting g_bound g_with_sets].
  intros q Hq. sets. destruct Hq as [Hne Hq]. destruct (Hcov q Hq) as [H|[H|H]]; tauto.
Qed.

Lemma gpart_new_gang g r : gpart (new_gang g r).
Proof.
  unfold gpart, new_gang, part4, wpart4. cbn.
  repeat split; try apply NoDup_nil; intros q Hq; destruct Hq.
Qed.

Lemma gpart_with_info x r : gpart x -> gpart (g_with_info x r).
Proof. intros H. exact H. Qed.

Lemma gpart_init_by_pod g c x : gpart x -> gpart (init_by_pod g c x).
Proof. intros H. unfold init_by_pod. destruct (g_init x); exact H. Qed.

Lemma gpart_init_by_pg g c x : gpart x -> gpart (init_by_pg g c x).
Proof. intros H. exact H. Qed.
