(* C04 — proofs, part 5: concurrent informer goroutines. For histories without delete events, what
   every gang is after ALL interleavings of the handlers' lock sections is the same, and it is what the
   declaration tracker computes from the events in any handler-atomic order (e.g. history order). *)
From Coq Require Import List ZArith Bool Lia Permutation.
From Verif Require Import Lib.Interleave Lib.InterleaveX.
From Verif Require Import C04.Model C04.Spec C04.Sections C04.Proofs C04.Proofs_state C04.Proofs_decl.
Import ListNotations.
Open Scope Z_scope.

(* ---------- a handler run atomically = its sections one after the other ---------- *)
Lemma d_upd_some g f ds d : assocZ g ds = Some d -> d_upd g f ds = putZ g (f d) ds.
Proof. unfold d_upd. intros ->. reflexivity. Qed.

Lemma d_upd_put g f d ds : d_upd g f (putZ g d ds) = putZ g (f d) ds.
Proof. unfold d_upd. rewrite assocZ_putZ_same, putZ_putZ. reflexivity. Qed.

Lemma pod_secs_step h ds p : run_secs (pod_secs h p) ds = decl_pod h ds p.
Proof.
  unfold pod_secs, decl_pod, run_secs. cbv zeta. destruct (gang_of h p =? 0); [reflexivity|].
  set (g := gang_of h p). unfold decl_get.
  destruct (assocZ g ds) as [d|] eqn:E.
  - (* the gang is in the cache *)
    destruct (has_label h p); cbn [orb app fold_left asec_step]; rewrite E.
    + rewrite (d_upd_some g _ ds d E). reflexivity.
    + rewrite (d_upd_some g (d_init_pod g (acfg_of h g)) ds d E), d_upd_put.
      unfold d_init_pod, d_add_child. destruct (d_init d); reflexivity.
  - destruct (has_label h p); cbn [orb app fold_left asec_step]; rewrite E.
    + rewrite d_upd_put. reflexivity.
    + rewrite !d_upd_put. reflexivity.
Qed.

Lemma secs_step h ds o : is_delete o = false -> run_secs (secs_of h o) ds = decl_step h ds o.
Proof.
  destruct o; cbn [is_delete secs_of decl_step]; try discriminate; intros _; try reflexivity.
  - apply pod_secs_step.
  - destruct terminated; [reflexivity | apply pod_secs_step].
  - destruct (valid_gid h g); [|reflexivity]. unfold run_secs, decl_get. cbn [fold_left asec_step].
    destruct (assocZ g ds) as [d|] eqn:E.
    + rewrite (d_upd_some g _ ds d E). reflexivity.
    + rewrite d_upd_put. reflexivity.
  - destruct (valid_gid h g); [|reflexivity]. unfold run_secs, d_upd. cbn [fold_left asec_step]. unfold d_upd.
    destruct (assocZ g ds); reflexivity.
Qed.

Lemma run_secs_app a b ds : run_secs (a ++ b) ds = run_secs b (run_secs a ds).
Proof. unfold run_secs. apply fold_left_app. Qed.

Lemma secs_run h : forall le ds,
  Forall (fun o => is_delete o = false) le ->
  run_secs (flat_map (secs_of h) le) ds = fold_left (decl_step h) le ds.
Proof.
  induction le as [|o le IH]; intros ds Hd; [reflexivity|].
  inversion Hd; subst. cbn [flat_map fold_left]. rewrite run_secs_app, secs_step by assumption.
  apply IH. assumption.
Qed.

(* ---------- projection on one gang ---------- *)
Definition act (g : Z) (od : option decl) (a : asec) : option decl :=
  match a with
  | AEnsure g' => if g' =? g then match od with Some _ => od | None => Some (decl0 g') end else od
  | AInitPod g' c => if g' =? g then option_map (d_init_pod g' c) od else od
  | AInitPg g' c => if g' =? g then option_map (decl_cfg g' c true) od else od
  | AChild g' p => if g' =? g then option_map (d_add_child p) od else od
  end.

Lemma assoc_d_upd g g' f ds :
  assocZ g (d_upd g' f ds) = if g' =? g then option_map f (assocZ g ds) else assocZ g ds.
Proof.
  unfold d_upd. destruct (g' =? g) eqn:E.
  - apply Z.eqb_eq in E. subst g'. destruct (assocZ g ds) as [d|] eqn:Ed.
    + rewrite assocZ_putZ_same. reflexivity.
    + rewrite Ed. reflexivity.
  - apply Z.eqb_neq in E. destruct (assocZ g' ds); [|reflexivity].
    apply assocZ_putZ_other. congruence.
Qed.

Lemma assoc_step g ds a : assocZ g (asec_step ds a) = act g (assocZ g ds) a.
Proof.
  destruct a as [g'|g' c|g' c|g' p]; cbn [asec_step act]; try apply assoc_d_upd.
  destruct (g' =? g) eqn:E.
  - apply Z.eqb_eq in E. subst g'. destruct (assocZ g ds) as [d|] eqn:Ed; [exact Ed|].
    apply assocZ_putZ_same.
  - apply Z.eqb_neq in E. destruct (assocZ g' ds); [reflexivity|].
    apply assocZ_putZ_other. congruence.
Qed.

Lemma assoc_run g : forall l ds, assocZ g (run_secs l ds) = fold_left (act g) l (assocZ g ds).
Proof.
  induction l as [|a l IH]; intros ds; [reflexivity|].
  unfold run_secs in *. cbn [fold_left]. rewrite IH, assoc_step. reflexivity.
Qed.

(* ---------- the gang is in the cache: total actions ---------- *)
Definition act' (g : Z) (d : decl) (a : asec) : decl :=
  match a with
  | AEnsure _ => d
  | AInitPod g' c => if g' =? g then d_init_pod g' c d else d
  | AInitPg g' c => if g' =? g then decl_cfg g' c true d else d
  | AChild g' p => if g' =? g then d_add_child p d else d
  end.

Definition is_ensure (g : Z) (a : asec) : bool := match a with AEnsure g' => g' =? g | _ => false end.

Lemma fold_act_some g : forall l d, fold_left (act g) l (Some d) = Some (fold_left (act' g) l d).
Proof.
  induction l as [|a l IH]; intros d; [reflexivity|]. cbn [fold_left].
  assert (H : act g (Some d) a = Some (act' g d a)).
  { destruct a as [g'|g' c|g' c|g' p]; cbn [act act']; destruct (g' =? g); reflexivity. }
  rewrite H. apply IH.
Qed.

Lemma memZ_cons_other g g' seen : g' <> g -> memZ g (g' :: seen) = memZ g seen.
Proof. intros H. cbn [memZ]. destruct (g =? g') eqn:E; [apply Z.eqb_eq in E; congruence | reflexivity]. Qed.

Lemma fold_act_none g : forall l seen,
  guardedb seen l = true -> memZ g seen = false ->
  fold_left (act g) l None
  = if existsb (is_ensure g) l then Some (fold_left (act' g) l (decl0 g)) else None.
Proof.
  induction l as [|a l IH]; intros seen Hg Hs; [reflexivity|].
  cbn [fold_left existsb].
  destruct a as [g'|g' c|g' c|g' p]; cbn [guardedb] in Hg; cbn [act act' is_ensure];
    try (apply andb_true_iff in Hg; destruct Hg as [Hm Hg];
         destruct (g' =? g) eqn:E; [apply Z.eqb_eq in E; subst g'; congruence | cbn [orb]; apply (IH seen Hg Hs)]).
  destruct (g' =? g) eqn:E.
  - apply Z.eqb_eq in E. subst g'. cbn [orb]. apply fold_act_some.
  - apply Z.eqb_neq in E. cbn [orb]. apply (IH (g' :: seen) Hg). rewrite memZ_cons_other by exact E. exact Hs.
Qed.

(* ---------- what the total actions compute ---------- *)
Fixpoint childs (g : Z) (l : list asec) : list Z :=
  match l with
  | [] => []
  | AChild g' p :: t => if g' =? g then p :: childs g t else childs g t
  | _ :: t => childs g t
  end.
Fixpoint pgs (g : Z) (l : list asec) : list cfg :=
  match l with
  | [] => []
  | AInitPg g' c :: t => if g' =? g then c :: pgs g t else pgs g t
  | _ :: t => pgs g t
  end.
Definition is_initpod (g : Z) (a : asec) : bool := match a with AInitPod g' _ => g' =? g | _ => false end.

(* the declaration part after [l]: the last PodGroup declaration if there is one; else, for a gang
   that was not declared yet, the pods' declaration [c0] if a pod section ran; else unchanged *)
Definition cfg_after (g : Z) (c0 : cfg) (l : list asec) (d : decl) : decl :=
  match rev (pgs g l) with
  | c :: _ => decl_cfg g c true d
  | [] => if d_init d then d else if existsb (is_initpod g) l then decl_cfg g c0 false d else d
  end.

Definition cfg_eq (a b : decl) : Prop :=
  d_init a = d_init b /\ d_strict a = d_strict b /\ d_policy a = d_policy b /\ d_min a = d_min b
  /\ d_group a = d_group b /\ d_crd a = d_crd b.

Lemma cfg_eq_refl a : cfg_eq a a. Proof. repeat split. Qed.

Lemma children_fold g : forall l d q,
  In q (d_children (fold_left (act' g) l d)) <-> In q (d_children d) \/ In q (childs g l).
Proof.
  induction l as [|a l IH]; intros d q; cbn [fold_left childs]; [simpl; tauto|].
  rewrite IH. destruct a as [g'|g' c|g' c|g' p]; cbn [act']; try tauto.
  - destruct (g' =? g); [|tauto]. unfold d_init_pod. destruct (d_init d); cbn; tauto.
  - destruct (g' =? g); [|tauto]. cbn. tauto.
  - destruct (g' =? g); [|tauto]. unfold d_add_child. cbn [d_children decl_children].
    rewrite sadd_In. cbn [In]. split; intros H; intuition.
Qed.

Lemma cfg_eq_trans a b c : cfg_eq a b -> cfg_eq b c -> cfg_eq a c.
Proof. unfold cfg_eq. intros (A1 & A2 & A3 & A4 & A5 & A6) (B1 & B2 & B3 & B4 & B5 & B6). repeat split; congruence. Qed.

Lemma cfg_eq_decl_cfg g c b d1 d2 : cfg_eq (decl_cfg g c b d1) (decl_cfg g c b d2).
Proof. repeat split. Qed.

Lemma cfg_after_cons g c0 a l d :
  (forall c, a = AInitPod g c -> c = c0) ->
  cfg_eq (cfg_after g c0 l (act' g d a)) (cfg_after g c0 (a :: l) d).
Proof.
  intros Hc. unfold cfg_after.
  destruct a as [g'|g' c|g' c|g' p]; cbn [act' pgs existsb is_initpod].
  - apply cfg_eq_refl.
  - destruct (g' =? g) eqn:E; cbn [orb]; [|apply cfg_eq_refl].
    apply Z.eqb_eq in E. subst g'. assert (c = c0) by (apply Hc; reflexivity). subst c.
    destruct (rev (pgs g l)) as [|c1 t]; [|apply cfg_eq_decl_cfg].
    unfold d_init_pod. destruct (d_init d) eqn:Ei; [rewrite Ei; apply cfg_eq_refl|].
    cbn [d_init decl_cfg]. apply cfg_eq_refl.
  - destruct (g' =? g) eqn:E; [|apply cfg_eq_refl].
    apply Z.eqb_eq in E. subst g'. cbn [rev].
    destruct (rev (pgs g l)) as [|c1 t]; cbn [app]; [|apply cfg_eq_decl_cfg].
    cbn [d_init decl_cfg]. apply cfg_eq_refl.
  - destruct (g' =? g) eqn:E; [|apply cfg_eq_refl].
    destruct (rev (pgs g l)) as [|c1 t]; [|apply cfg_eq_decl_cfg].
    unfold d_add_child. cbn [d_init decl_children].
    destruct (d_init d); [repeat split|]. destruct (existsb (is_initpod g) l); repeat split.
Qed.

Lemma cfg_fold g c0 : forall l d,
  (forall c, In (AInitPod g c) l -> c = c0) ->
  cfg_eq (fold_left (act' g) l d) (cfg_after g c0 l d).
Proof.
  induction l as [|a l IH]; intros d Hc.
  - unfold cfg_after. cbn. destruct (d_init d); apply cfg_eq_refl.
  - cbn [fold_left]. eapply cfg_eq_trans.
    + apply IH. intros c H. apply Hc. right. exact H.
    + apply cfg_after_cons. intros c ->. apply Hc. left. reflexivity.
Qed.

(* ---------- invariance under reordering ---------- *)
Lemma childs_In g q : forall l, In q (childs g l) <-> In (AChild g q) l.
Proof.
  induction l as [|a l IH]; [simpl; tauto|].
  destruct a as [g'|g' c|g' c|g' p]; cbn [childs In]; try (rewrite IH; split; [auto | intros [H|H]; [discriminate | exact H]]).
  destruct (g' =? g) eqn:E.
  - apply Z.eqb_eq in E. subst g'. cbn [In]. rewrite IH. split; intros [H|H]; auto; [left; congruence | left; inversion H; reflexivity].
  - apply Z.eqb_neq in E. rewrite IH. split; [auto | intros [H|H]; [inversion H; congruence | exact H]].
Qed.

Lemma existsb_perm {A} (f : A -> bool) l1 l2 : Permutation l1 l2 -> existsb f l1 = existsb f l2.
Proof.
  induction 1; simpl; try congruence.
  - destruct (f x), (f y); reflexivity.
Qed.

Lemma pgs_filter g l : pgs g l = pgs g (filter (is_initpg g) l).
Proof.
  induction l as [|a l IH]; [reflexivity|].
  destruct a as [g'|g' c|g' c|g' p]; cbn [pgs filter is_initpg]; try exact IH.
  destruct (g' =? g) eqn:E; cbn [pgs]; rewrite ?E, IH; reflexivity.
Qed.

(* two runs of the same sections, PodGroup sections of [g] in the same relative order *)
Lemma fold_act'_eqv g c0 l1 l2 d :
  Permutation l1 l2 -> filter (is_initpg g) l1 = filter (is_initpg g) l2 ->
  (forall c, In (AInitPod g c) l1 -> c = c0) ->
  decl_eqv (fold_left (act' g) l1 d) (fold_left (act' g) l2 d).
Proof.
  intros Hp Hf Hc.
  assert (Hc2 : forall c, In (AInitPod g c) l2 -> c = c0).
  { intros c H. apply Hc. eapply Permutation_in; [apply Permutation_sym; exact Hp | exact H]. }
  pose proof (cfg_fold g c0 l1 d Hc) as H1. pose proof (cfg_fold g c0 l2 d Hc2) as H2.
  assert (Ha : cfg_after g c0 l1 d = cfg_after g c0 l2 d).
  { unfold cfg_after. rewrite (pgs_filter g l1), (pgs_filter g l2), Hf, (existsb_perm _ l1 l2 Hp). reflexivity. }
  rewrite Ha in H1. unfold cfg_eq in *. unfold decl_eqv.
  destruct H1 as (A1 & A2 & A3 & A4 & A5 & A6), H2 as (B1 & B2 & B3 & B4 & B5 & B6).
  repeat split; try congruence; intros Hq; apply children_fold; apply children_fold in Hq;
    (destruct Hq as [Hq|Hq]; [left; exact Hq | right]);
    apply childs_In; apply childs_In in Hq;
    [eapply Permutation_in; [exact Hp | exact Hq]
    | eapply Permutation_in; [apply Permutation_sym; exact Hp | exact Hq]].
Qed.

(* ---------- guardedness of interleavings ---------- *)
Lemma guardedb_mono : forall l seen seen',
  (forall g, memZ g seen = true -> memZ g seen' = true) -> guardedb seen l = true -> guardedb seen' l = true.
Proof.
  induction l as [|a l IH]; intros seen seen' Hs Hg; [reflexivity|].
  destruct a as [g'|g' c|g' c|g' p]; cbn [guardedb] in *;
    try (apply andb_true_iff in Hg; destruct Hg as [Hm Hg]; apply andb_true_iff; split; [apply Hs; exact Hm | apply (IH seen); assumption]).
  apply (IH (g' :: seen)); [|exact Hg]. intros g. cbn [memZ]. rewrite !orb_true_iff. intros [H|H]; [left; exact H | right; apply Hs; exact H].
Qed.

Lemma guarded_interleaving ts l : interleaving ts l ->
  forall seen, Forall (fun t => guardedb seen t = true) ts -> guardedb seen l = true.
Proof.
  induction 1 as [ts Hnil | pre a t post l Hil IH]; intros seen Hall; [reflexivity|].
  assert (Hat : guardedb seen (a :: t) = true).
  { rewrite Forall_forall in Hall. apply Hall. apply in_or_app. right. left. reflexivity. }
  assert (Hrest : forall seen', (forall g, memZ g seen = true -> memZ g seen' = true) ->
                  guardedb seen' t = true -> Forall (fun t => guardedb seen' t = true) (pre ++ t :: post)).
  { intros seen' Hs Ht. rewrite Forall_forall in *. intros t' Hin.
    apply in_app_or in Hin. destruct Hin as [Hin|[<-|Hin]].
    - apply (guardedb_mono t' seen); [exact Hs|]. apply Hall. apply in_or_app. left. exact Hin.
    - exact Ht.
    - apply (guardedb_mono t' seen); [exact Hs|]. apply Hall. apply in_or_app. right. right. exact Hin. }
  destruct a as [g'|g' c|g' c|g' p]; cbn [guardedb] in *;
    try (apply andb_true_iff in Hat; destruct Hat as [Hm Ht]; apply andb_true_iff; split; [exact Hm|];
         apply IH; apply Hrest; [auto | exact Ht]).
  apply IH. apply Hrest; [|exact Hat]. intros g Hg. cbn [memZ]. rewrite Hg. apply orb_true_r.
Qed.

(* ---------- all interleavings of the sections agree ---------- *)
Definition pod_cfg_ok (h : hdr) (l : list asec) : Prop := forall g c, In (AInitPod g c) l -> c = acfg_of h g.

Lemma pod_cfg_secs h o : pod_cfg_ok h (secs_of h o).
Proof.
  intros g c. destruct o; cbn [secs_of]; try (intros []).
  - unfold pod_secs. destruct (gang_of h p =? 0); [intros []|]. cbn [In]. intros [H|H]; [discriminate|].
    apply in_app_or in H. destruct H as [H|[H|[]]]; [|discriminate].
    destruct (has_label h p); [destruct H|]. destruct H as [H|[]]. inversion H. reflexivity.
  - destruct terminated; [intros []|].
    unfold pod_secs. destruct (gang_of h p =? 0); [intros []|]. cbn [In]. intros [H|H]; [discriminate|].
    apply in_app_or in H. destruct H as [H|[H|[]]]; [|discriminate].
    destruct (has_label h p); [destruct H|]. destruct H as [H|[]]. inversion H. reflexivity.
  - destruct (valid_gid h g0); [|intros []]. intros [H|[H|[]]]; discriminate.
  - destruct (valid_gid h g0); [|intros []]. intros [H|[]]; discriminate.
Qed.

Lemma pod_cfg_threads h tes l :
  interleaving (map (flat_map (secs_of h)) tes) l -> pod_cfg_ok h l.
Proof.
  intros Hil g c Hin. destruct (interleaving_in _ _ Hil _ Hin) as [t [Ht Hat]].
  apply in_map_iff in Ht. destruct Ht as [te [<- _]].
  apply in_flat_map in Hat. destruct Hat as [o [_ Ho]]. apply (pod_cfg_secs h o g c Ho).
Qed.

Theorem sections_confluent h tes l1 l2 :
  let ts := map (flat_map (secs_of h)) tes in
  Forall (fun t => guardedb [] t = true) ts ->
  (forall g, busy (map (filter (is_initpg g)) ts) <= 1)%nat ->
  interleaving ts l1 -> interleaving ts l2 ->
  forall g, decl_opt_eqv (assocZ g (run_secs l1 [])) (assocZ g (run_secs l2 [])).
Proof.
  intros ts Hg Hpg H1 H2 g.
  rewrite !assoc_run. cbn [assocZ].
  assert (Hp : Permutation l1 l2) by (eapply interleaving_perm2; eassumption).
  assert (G1 : guardedb [] l1 = true) by (apply (guarded_interleaving ts l1 H1); exact Hg).
  assert (G2 : guardedb [] l2 = true) by (apply (guarded_interleaving ts l2 H2); exact Hg).
  rewrite (fold_act_none g l1 [] G1 eq_refl), (fold_act_none g l2 [] G2 eq_refl).
  rewrite (existsb_perm _ l1 l2 Hp).
  destruct (existsb (is_ensure g) l2); [|exact I].
  cbn [decl_opt_eqv]. apply (fold_act'_eqv g (acfg_of h g)); [exact Hp | |].
  - rewrite (interleaving_filter_single (is_initpg g) ts l1 H1 (Hpg g)).
    rewrite (interleaving_filter_single (is_initpg g) ts l2 H2 (Hpg g)). reflexivity.
  - intros c Hc. apply (pod_cfg_threads h tes l1 H1 g c Hc).
Qed.

(* ... and they agree with the declaration tracker run over the events in any handler-atomic order *)
Theorem concurrent_informers_confluent h tes l le :
  let ts := map (flat_map (secs_of h)) tes in
  Forall (fun t => guardedb [] t = true) ts ->
  (forall g, busy (map (filter (is_initpg g)) ts) <= 1)%nat ->
  Forall (Forall (fun o => is_delete o = false)) tes ->
  interleaving ts l -> interleaving tes le ->
  forall g, decl_opt_eqv (assocZ g (run_secs l [])) (assocZ g (fold_left (decl_step h) le [])).
Proof.
  intros ts Hg Hpg Hnd Hl Hle g.
  assert (Hd : Forall (fun o => is_delete o = false) le).
  { apply Forall_forall. intros o Ho. destruct (interleaving_in _ _ Hle o Ho) as [t [Ht Hot]].
    rewrite Forall_forall in Hnd. specialize (Hnd t Ht). rewrite Forall_forall in Hnd. apply Hnd. exact Hot. }
  rewrite <- (secs_run h le [] Hd).
  apply (sections_confluent h tes l (flat_map (secs_of h) le)); try assumption.
  apply interleaving_expand. exact Hle.
Qed.

(* ---------- the threads of the stream "race" satisfy the hypotheses ---------- *)
Lemma interleaving3 {A} (c : A -> Z) : forall l,
  (forall a, In a l -> c a = 0 \/ c a = 1 \/ c a = 2) ->
  interleaving [filter (fun a => c a =? 0) l; filter (fun a => c a =? 1) l; filter (fun a => c a =? 2) l] l.
Proof.
  induction l as [|a l IH]; intros Hc.
  - constructor. repeat constructor.
  - assert (IH' := IH (fun b Hb => Hc b (or_intror Hb))).
    cbn [filter]. destruct (Hc a (or_introl eq_refl)) as [E|[E|E]]; rewrite E; cbn [Z.eqb Pos.eqb].
    + apply (il_step [] a _ [_; _]). exact IH'.
    + apply (il_step [_] a _ [_]). exact IH'.
    + apply (il_step [_; _] a _ []). exact IH'.
Qed.

Lemma source_of_range o : source_of o = 0 \/ source_of o = 1 \/ source_of o = 2.
Proof. destruct o; cbn [source_of]; try (destruct (Z.even p)); auto. Qed.

Lemma race_threads_interleaving evs : interleaving (race_threads evs) evs.
Proof. unfold race_threads. apply interleaving3. intros a _. apply source_of_range. Qed.

Lemma mono_no_delete : forall ops added, Forall (fun o => is_delete o = false) (mono_from added ops).
Proof.
  induction ops as [|o ops IH]; intros added; [constructor|].
  destruct o; cbn [mono_from]; try apply IH; try (constructor; [reflexivity | apply IH]).
  destruct (memZ g added); [constructor; [reflexivity | apply IH] | apply IH].
Qed.

Lemma guardedb_app seen a b :
  guardedb seen a = true -> (forall seen', (forall g, memZ g seen = true -> memZ g seen' = true) -> guardedb seen' b = true) ->
  guardedb seen (a ++ b) = true.
Proof.
  revert seen. induction a as [|x a IH]; intros seen Ha Hb; [apply Hb; auto|].
  destruct x as [g'|g' c|g' c|g' p]; cbn [app guardedb] in *;
    try (apply andb_true_iff in Ha; destruct Ha as [Hm Ha]; apply andb_true_iff; split; [exact Hm | apply IH; assumption]).
  apply IH; [exact Ha|]. intros seen' Hs. apply Hb. intros g Hg. apply Hs. cbn [memZ]. rewrite Hg. apply orb_true_r.
Qed.

Lemma guardedb_pod_secs h p seen : guardedb seen (pod_secs h p) = true.
Proof.
  unfold pod_secs. destruct (gang_of h p =? 0); [reflexivity|]. cbn [guardedb].
  destruct (has_label h p); cbn [app guardedb memZ]; rewrite Z.eqb_refl; reflexivity.
Qed.

(* pod threads: every handler starts by making sure of its gang *)
Lemma guardedb_pod_thread h : forall evs seen,
  Forall (fun o => source_of o <> 0) evs -> guardedb seen (flat_map (secs_of h) evs) = true.
Proof.
  induction evs as [|o evs IH]; intros seen Hs; [reflexivity|]. inversion Hs; subst.
  cbn [flat_map]. apply guardedb_app; [|intros seen' _; apply IH; assumption].
  destruct o; cbn [secs_of source_of] in *; try congruence; try reflexivity.
  - apply guardedb_pod_secs.
  - destruct terminated; [reflexivity | apply guardedb_pod_secs].
Qed.

(* PodGroup thread of a monotone history: an update comes after the add of the same gang *)
Lemma guardedb_pg_thread h : forall ops added seen,
  (forall g, memZ g added = true -> valid_gid h g = true -> memZ g seen = true) ->
  guardedb seen (flat_map (secs_of h) (filter (fun o => source_of o =? 0) (mono_from added ops))) = true.
Proof.
  induction ops as [|o ops IH]; intros added seen Hinv; [reflexivity|].
  destruct o; cbn [mono_from]; try (apply IH; exact Hinv).
  - (* PodAdd *) cbn [filter source_of]. destruct (Z.even p); cbn [Z.eqb]; apply IH; exact Hinv.
  - cbn [filter source_of]. destruct (Z.even p); cbn [Z.eqb]; apply IH; exact Hinv.
  - (* PGAdd *)
    cbn [filter source_of Z.eqb flat_map secs_of]. destruct (valid_gid h g) eqn:Ev; cbn [app guardedb memZ].
    + rewrite Z.eqb_refl. cbn [orb andb]. apply IH. intros g' Hm Hv. cbn [memZ] in *.
      destruct (g' =? g); [reflexivity|]. cbn [orb] in *. apply Hinv; assumption.
    + apply IH. intros g' Hm Hv. cbn [memZ] in Hm. destruct (g' =? g) eqn:E.
      * apply Z.eqb_eq in E. subst g'. congruence.
      * cbn [orb] in Hm. apply Hinv; assumption.
  - (* PGUpdate *)
    destruct (memZ g added) eqn:Em; [|apply IH; exact Hinv].
    cbn [filter source_of Z.eqb flat_map secs_of]. destruct (valid_gid h g) eqn:Ev; cbn [app guardedb].
    + rewrite (Hinv g Em Ev). cbn [andb]. apply IH. exact Hinv.
    + apply IH. exact Hinv.
Qed.

Lemma filter_initpg_pod_thread h g : forall evs,
  Forall (fun o => source_of o <> 0) evs -> filter (is_initpg g) (flat_map (secs_of h) evs) = [].
Proof.
  induction evs as [|o evs IH]; intros Hs; [reflexivity|]. inversion Hs; subst.
  cbn [flat_map]. rewrite filter_app, IH by assumption. rewrite app_nil_r.
  destruct o; cbn [secs_of source_of] in *; try congruence; try reflexivity.
  - unfold pod_secs. destruct (gang_of h p =? 0); [reflexivity|]. destruct (has_label h p); reflexivity.
  - destruct terminated; [reflexivity|].
    unfold pod_secs. destruct (gang_of h p =? 0); [reflexivity|]. destruct (has_label h p); reflexivity.
Qed.

Lemma filter_source_neq evs k : k <> 0 -> Forall (fun o => source_of o <> 0) (filter (fun o => source_of o =? k) evs).
Proof.
  intros Hk. apply Forall_forall. intros o Ho. apply filter_In in Ho. destruct Ho as [_ Ho].
  apply Z.eqb_eq in Ho. congruence.
Qed.

(* the stream "race": whatever the interleaving of the lock sections of the three informer goroutines
   on the monotone part of a history, every gang ends as the declaration tracker says for history order *)
Theorem race_figures_interleaving_independent h ops l :
  let evs := mono_ops ops in
  interleaving (map (flat_map (secs_of h)) (race_threads evs)) l ->
  forall g, decl_opt_eqv (assocZ g (run_secs l [])) (assocZ g (fold_left (decl_step h) evs [])).
Proof.
  intros evs Hl g.
  apply (concurrent_informers_confluent h (race_threads evs) l evs); try exact Hl.
  - unfold race_threads. cbn [map]. repeat constructor.
    + apply (guardedb_pg_thread h ops [] []). intros g' H. discriminate.
    + apply guardedb_pod_thread. apply filter_source_neq. discriminate.
    + apply guardedb_pod_thread. apply filter_source_neq. discriminate.
  - intros g'. unfold race_threads. cbn [map]. unfold busy. cbn [filter].
    rewrite (filter_initpg_pod_thread h g' (filter (fun o => source_of o =? 1) evs)) by (apply filter_source_neq; discriminate).
    rewrite (filter_initpg_pod_thread h g' (filter (fun o => source_of o =? 2) evs)) by (apply filter_source_neq; discriminate).
    cbn [nonemptyb]. destruct (nonemptyb _); cbn [length]; lia.
  - unfold race_threads. repeat constructor; apply Forall_forall; intros o Ho; apply filter_In in Ho; destruct Ho as [Ho _];
      pose proof (mono_no_delete ops []) as Hm; rewrite Forall_forall in Hm; apply Hm; exact Ho.
  - apply race_threads_interleaving.
Qed.

(* ---------- why get-or-create has to be one section ---------- *)
(* a creator that stores a new gang without looking again (lookup under a read lock, store under the write
   lock): the store as its own action *)
Definition overwrite (g : Z) (ds : dstate) : dstate := putZ g (decl0 g) ds.

(* pod goroutine: ensure, setChild; PodGroup goroutine: (lookup missed earlier) store, tryInitByPodGroup.
   The member added between the PodGroup goroutine's lookup and its store is lost. *)
Example nonatomic_create_loses_member :
  let h := mkHdr 1 [(1, true)] [dflt_cfg] in
  let c := mkCfg 1 0 2 [] in
  let atomic := run_secs [AEnsure 1; AChild 1 0; AEnsure 1; AInitPg 1 c] [] in
  let split := run_secs [AInitPg 1 c] (overwrite 1 (run_secs [AEnsure 1; AChild 1 0] [])) in
  option_map d_children (assocZ 1 atomic) = Some [0]
  /\ option_map d_children (assocZ 1 split) = Some []
  /\ option_map d_children (assocZ 1 (fold_left (decl_step h) [PodAdd 0 false; PGAdd 1 c] [])) = Some [0].
Proof. vm_compute. repeat split. Qed.
