(* C04 — proofs, part 2b: the declaration tracker of Spec.v ([decl_step], a function of the informer
   events alone) is refined by the cache model: the declaration part of every gang of every reachable
   state is the tracked one. *)
From Coq Require Import List ZArith Bool Lia.
From Verif Require Import C04.Model C04.Spec C04.Proofs C04.Proofs_state.
Import ListNotations.
Open Scope Z_scope.

Definition decl_of (x : gang) : decl :=
  mkDecl (g_init x) (g_strict x) (g_policy x) (g_min x) (g_group x) (g_crd x) (g_children x).
Definition proj (s : state) : dstate := map (fun kv => (fst kv, decl_of (snd kv))) (st_gangs s).

(* ---------- association lists under map ---------- *)
Lemma map_putZ {A B} (f : A -> B) k v (l : list (Z * A)) :
  map (fun kv => (fst kv, f (snd kv))) (putZ k v l) = putZ k (f v) (map (fun kv => (fst kv, f (snd kv))) l).
Proof.
  induction l as [|[k' v'] t IH]; simpl; [reflexivity|].
  destruct (k =? k'); simpl; [reflexivity | rewrite IH; reflexivity].
Qed.

Lemma map_delZ {A B} (f : A -> B) k (l : list (Z * A)) :
  map (fun kv => (fst kv, f (snd kv))) (delZ k l) = delZ k (map (fun kv => (fst kv, f (snd kv))) l).
Proof.
  induction l as [|[k' v'] t IH]; simpl; [reflexivity|].
  destruct (k' =? k); simpl; [exact IH | rewrite IH; reflexivity].
Qed.

Lemma putZ_same_id {A} k (v : A) l : assocZ k l = Some v -> putZ k v l = l.
Proof.
  induction l as [|[k' v'] t IH]; simpl; [discriminate|].
  destruct (k =? k') eqn:E.
  - apply Z.eqb_eq in E. subst. intros H. inversion H. reflexivity.
  - intros H. rewrite (IH H). reflexivity.
Qed.

Lemma putZ_putZ {A} k (a b : A) l : putZ k b (putZ k a l) = putZ k b l.
Proof.
  induction l as [|[k' v'] t IH]; simpl.
  - rewrite Z.eqb_refl. reflexivity.
  - destruct (k =? k') eqn:E; simpl.
    + rewrite Z.eqb_refl. reflexivity.
    + rewrite E, IH. reflexivity.
Qed.

Lemma delZ_putZ {A} k (a : A) l : delZ k (putZ k a l) = delZ k l.
Proof.
  induction l as [|[k' v'] t IH]; simpl.
  - rewrite Z.eqb_refl. reflexivity.
  - destruct (k =? k') eqn:E; simpl.
    + apply Z.eqb_eq in E. subst. rewrite Z.eqb_refl. reflexivity.
    + rewrite IH. reflexivity.
Qed.

(* ---------- projection of the cache helpers ---------- *)
Lemma proj_get s g : assocZ g (proj s) = option_map decl_of (get_gang s g).
Proof. unfold proj, get_gang. apply assocZ_map. Qed.

Lemma proj_put s g x : proj (put_gang s g x) = putZ g (decl_of x) (proj s).
Proof. unfold proj, put_gang. cbn [st_gangs]. apply map_putZ. Qed.

Lemma proj_del s g : proj (del_gang s g) = delZ g (proj s).
Proof. unfold proj, del_gang. cbn [st_gangs]. apply map_delZ. Qed.

Lemma proj_same s s' : st_gangs s' = st_gangs s -> proj s' = proj s.
Proof. unfold proj. intros ->. reflexivity. Qed.

Lemma proj_set_sat s g : proj (set_sat s g) = proj s.
Proof. unfold set_sat. destruct (get_gang s g); [apply proj_same|]; reflexivity. Qed.

Lemma proj_drop s x : proj (drop_group_if_empty s x) = proj s.
Proof.
  unfold drop_group_if_empty.
  match goal with |- proj (if ?c then _ else _) = _ => destruct c end; [apply proj_same|]; reflexivity.
Qed.

Lemma proj_attach s g : proj (attach_group_info s g) = proj s.
Proof.
  unfold attach_group_info. destruct (get_gang s g) as [x|] eqn:E; [|reflexivity].
  assert (Hid : forall s1 r, st_gangs s1 = st_gangs s -> proj (put_gang s1 g (g_with_info x r)) = proj s).
  { intros s1 r E1. rewrite proj_put, (proj_same s s1 E1). apply putZ_same_id.
    rewrite proj_get, E. reflexivity. }
  destruct (assocL (g_group x) (st_gmap s)) as [r|]; cbv beta iota zeta.
  - destruct (i_initd (info_at s (g_info x))); [reflexivity | apply Hid; reflexivity].
  - match goal with |- proj (if ?c then _ else _) = _ => destruct c end;
      [apply proj_same; reflexivity | apply Hid; reflexivity].
Qed.

(* get_or_create followed by one update of the gang = one [putZ] on the declarations *)
Lemma proj_create_upd s g f fd :
  (forall x, decl_of (f x) = fd (decl_of x)) ->
  proj (upd_gang (get_or_create s g) g f) = putZ g (fd (decl_get (proj s) g)) (proj s).
Proof.
  intros Hf. unfold decl_get. rewrite proj_get.
  unfold get_or_create, upd_gang. destruct (get_gang s g) as [x|] eqn:E.
  - rewrite E. cbn [option_map]. rewrite proj_put, Hf. reflexivity.
  - cbn [option_map]. unfold get_gang. cbn [st_gangs]. rewrite assocZ_putZ_same.
    unfold proj, put_gang. cbn [st_gangs]. rewrite putZ_putZ, map_putZ, Hf. reflexivity.
Qed.

Lemma proj_upd s g f fd :
  (forall x, decl_of (f x) = fd (decl_of x)) ->
  proj (upd_gang s g f) = match assocZ g (proj s) with Some d => putZ g (fd d) (proj s) | None => proj s end.
Proof.
  intros Hf. rewrite proj_get. unfold upd_gang. destruct (get_gang s g) as [x|]; cbn [option_map]; [|reflexivity].
  rewrite proj_put, Hf. reflexivity.
Qed.

(* updates that do not change the declaration part *)
Lemma proj_upd_id s g f : (forall x, decl_of (f x) = decl_of x) -> proj (upd_gang s g f) = proj s.
Proof.
  intros Hf. unfold upd_gang. destruct (get_gang s g) as [x|] eqn:E; [|reflexivity].
  rewrite proj_put, Hf. apply putZ_same_id. rewrite proj_get, E. reflexivity.
Qed.

(* ---------- every step of the model refines [decl_step] ---------- *)
Lemma proj_pod_event h s p node : proj (pod_event h s p node) = decl_pod h (proj s) p.
Proof.
  unfold pod_event, decl_pod. cbv zeta. destruct (gang_of h p =? 0); [reflexivity|].
  set (g := gang_of h p).
  assert (Hsat : forall s', proj (if node then set_sat (set_sat s' g) g else s') = proj s').
  { intros s'. destruct node; [rewrite !proj_set_sat|]; reflexivity. }
  rewrite Hsat.
  destruct (has_label h p); cbn [orb].
  - (* label pod: only the child is recorded *)
    rewrite (proj_create_upd s g (g_pod_event p node)
               (fun d => decl_children d (sadd p (d_children d)))); [reflexivity|].
    intros x. unfold g_pod_event, g_set_child, g_add_bound, decl_of, decl_children.
    destruct node; reflexivity.
  - (* annotation pod: declares the gang if it is undeclared *)
    set (fi := init_by_pod g (acfg_of h g)).
    set (fdi := fun d => if d_init d then d else decl_cfg g (acfg_of h g) false d).
    assert (Hfi : forall x, decl_of (fi x) = fdi (decl_of x)).
    { intros x. unfold fi, fdi, init_by_pod. change (d_init (decl_of x)) with (g_init x).
      destruct (g_init x) eqn:Ei; reflexivity. }
    assert (Hfc : forall x, decl_of (g_pod_event p node x)
                            = (fun d => decl_children d (sadd p (d_children d))) (decl_of x)).
    { intros x. unfold g_pod_event, g_set_child, g_add_bound, decl_of, decl_children. destruct node; reflexivity. }
    rewrite (proj_upd _ g _ _ Hfc), proj_attach, (proj_create_upd s g fi fdi Hfi).
    rewrite assocZ_putZ_same, putZ_putZ. unfold fdi. reflexivity.
Qed.

Lemma proj_step h s o : proj (fst (step h s o)) = decl_step h (proj s) o.
Proof.
  destruct o; cbn [step fst decl_step].
  - apply proj_pod_event.
  - destruct terminated; [reflexivity | apply proj_pod_event].
  - unfold pod_delete. destruct (gang_of h p =? 0); [reflexivity|].
    rewrite proj_get. destruct (get_gang s (gang_of h p)) as [x|]; cbn [option_map]; [|reflexivity].
    cbv zeta.
    change (d_crd (decl_children (decl_of x) (srem p (d_children (decl_of x))))) with (g_crd (g_delete_pod p x)).
    change (d_children (decl_children (decl_of x) (srem p (d_children (decl_of x))))) with (g_children (g_delete_pod p x)).
    destruct (negb (g_crd (g_delete_pod p x)) && is_nil (g_children (g_delete_pod p x))).
    + rewrite proj_drop, proj_del, proj_put. apply delZ_putZ.
    + rewrite proj_put. reflexivity.
  - unfold pg_add. destruct (valid_gid h g); cbn [negb]; [|reflexivity]. cbv zeta.
    assert (Hp : proj (upd_gang (get_or_create s g) g (init_by_pg g c))
                 = putZ g (decl_cfg g c true (decl_get (proj s) g)) (proj s)).
    { apply (proj_create_upd s g (init_by_pg g c) (decl_cfg g c true)). intros x. reflexivity. }
    destruct (get_gang (upd_gang (get_or_create s g) g (init_by_pg g c)) g) as [x|]; [|exact Hp].
    match goal with |- proj (if ?c then _ else _) = _ => destruct c end; rewrite ?proj_attach; exact Hp.
  - unfold pg_update. destruct (valid_gid h g); cbn [negb]; [|reflexivity].
    rewrite proj_get. destruct (get_gang s g) as [x0|] eqn:E0; cbn [option_map]; [|reflexivity]. cbv zeta.
    assert (Hp : proj (upd_gang s g (init_by_pg g c)) = putZ g (decl_cfg g c true (decl_of x0)) (proj s)).
    { rewrite (proj_upd s g (init_by_pg g c) (decl_cfg g c true)) by (intros x; reflexivity).
      rewrite proj_get, E0. reflexivity. }
    destruct (get_gang (upd_gang s g (init_by_pg g c)) g) as [x|]; [|exact Hp].
    match goal with |- proj (if ?c then _ else _) = _ => destruct c end; rewrite ?proj_attach; exact Hp.
  - unfold pg_delete. destruct (valid_gid h g); cbn [negb]; [|reflexivity].
    rewrite proj_get. destruct (get_gang s g) as [x|]; cbn [option_map]; [|reflexivity].
    rewrite proj_drop, proj_del. reflexivity.
  - unfold permit. cbv zeta. destruct (gang_of h p =? 0); [reflexivity|].
    destruct (get_gang s (gang_of h p)) as [x|] eqn:E; [|reflexivity].
    assert (Hp : proj (put_gang s (gang_of h p) (g_add_assumed p x)) = proj s).
    { rewrite proj_put. apply putZ_same_id. rewrite proj_get, E. reflexivity. }
    match goal with |- proj (fst (if ?c then _ else _)) = _ => destruct c end; cbn [fst];
      (etransitivity; [apply proj_same; reflexivity | exact Hp]).
  - unfold unreserve. cbv zeta.
    set (s0 := set_fw s (srem p (st_fw s))).
    assert (H0 : proj s0 = proj s) by (apply proj_same; reflexivity).
    destruct (gang_of h p =? 0); [exact H0|].
    destruct (get_gang s0 (gang_of h p)) as [x|] eqn:E; [|exact H0].
    assert (Hp : proj (put_gang s0 (gang_of h p) (g_del_assumed p x)) = proj s).
    { rewrite proj_put, <- H0. apply putZ_same_id. rewrite proj_get, E. cbn [option_map]. f_equal.
      unfold g_del_assumed. destruct (memZ p (g_waiting x)); reflexivity. }
    match goal with |- proj (fst (if ?c then _ else _)) = _ => destruct c end; cbn [fst]; [|exact Hp].
    unfold reject_group. cbn [fst]. etransitivity; [apply proj_same; reflexivity | exact Hp].
  - unfold post_bind, add_bound. destruct (gang_of h p =? 0); [reflexivity|].
    rewrite proj_set_sat. apply proj_upd_id. intros x. reflexivity.
  - unfold after_post_filter. destruct (gang_of h p =? 0); [reflexivity|].
    destruct (get_gang s (gang_of h p)) as [x|]; [|reflexivity].
    destruct (exempt s x); [reflexivity|]. destruct (g_strict x); reflexivity.
  - reflexivity.
Qed.

(* ---------- the model's observation matches its projection ---------- *)
Lemma eqb_refl_bool b : Bool.eqb b b = true.
Proof. destruct b; reflexivity. Qed.

Lemma decl_agreesb_of s x : decl_agreesb (decl_of x) (gview_of s x) = true.
Proof.
  unfold decl_agreesb, decl_of, gview_of. cbn.
  rewrite !eqb_refl_bool, !Z.eqb_refl, !set_eqb_refl. reflexivity.
Qed.

Lemma decl_match_atb_proj s g : decl_match_atb (proj s) (view s) g = true.
Proof.
  unfold decl_match_atb. rewrite proj_get, vget_view.
  destruct (get_gang s g) as [x|]; cbn [option_map]; [apply decl_agreesb_of | reflexivity].
Qed.

Lemma decl_matchb_proj s : decl_matchb (proj s) (view s) = true.
Proof. unfold decl_matchb. apply forallb_forall. intros g _. apply decl_match_atb_proj. Qed.

(* ---------- soundness of the boolean check ---------- *)
Lemma assocZ_notin {A} k (l : list (Z * A)) : ~ In k (map fst l) -> assocZ k l = None.
Proof.
  induction l as [|[k' v'] t IH]; simpl; [reflexivity|]. intros H.
  destruct (k =? k') eqn:E; [apply Z.eqb_eq in E; subst; tauto|]. apply IH. tauto.
Qed.

Lemma In_dec_Z (k : Z) (l : list Z) : In k l \/ ~ In k l.
Proof. destruct (in_dec Z.eq_dec k l); auto. Qed.

Lemma decl_agreesb_spec d x : decl_agreesb d x = true -> decl_agrees d x.
Proof.
  unfold decl_agreesb, decl_agrees. rewrite !andb_true_iff, !Z.eqb_eq, !set_eqb_spec.
  intros [[[[[[H1 H2] H3] H4] H5] H6] H7].
  apply Bool.eqb_prop in H1, H2, H6. tauto.
Qed.

Lemma decl_matchb_sound ds v : decl_matchb ds v = true -> decl_match ds v.
Proof.
  unfold decl_matchb, decl_match. rewrite forallb_forall. intros H g.
  destruct (In_dec_Z g (map fst ds ++ map fst (sv_gangs v))) as [Hin|Hnin].
  - specialize (H g Hin). unfold decl_match_atb in H. unfold decl_match_at.
    destruct (assocZ g ds), (vget v g); try discriminate; [apply decl_agreesb_spec; exact H | exact I].
  - unfold decl_match_at.
    rewrite (assocZ_notin g ds) by (intros Hc; apply Hnin, in_or_app; left; exact Hc).
    unfold vget. rewrite (assocZ_notin g (sv_gangs v)) by (intros Hc; apply Hnin, in_or_app; right; exact Hc).
    exact I.
Qed.
