(* C04 — proofs, part 2c: the group-record tracker of Spec.v ([rec_step], clause 9) is refined by the
   cache model: which record every gang is wired to, the gang-group map and the once-satisfied flags of
   every reachable state are the tracked ones. *)
From Coq Require Import List ZArith Bool Lia.
From Verif Require Import C04.Model C04.Spec C04.Proofs C04.Proofs_state C04.Proofs_decl.
Import ListNotations.
Open Scope Z_scope.

Definition rs_of (s : state) : rstate :=
  mkR (map (fun kv => (fst kv, g_info (snd kv))) (st_gangs s)) (st_infos s) (st_gmap s).

Lemma rs_get s g : assocZ g (r_ptr (rs_of s)) = option_map g_info (get_gang s g).
Proof. unfold rs_of, get_gang. cbn [r_ptr]. apply assocZ_map. Qed.

Lemma rs_info s r : r_info (rs_of s) r = info_at s r.
Proof. reflexivity. Qed.

Lemma rs_same s s' :
  st_gangs s' = st_gangs s -> st_infos s' = st_infos s -> st_gmap s' = st_gmap s -> rs_of s' = rs_of s.
Proof. unfold rs_of. intros -> -> ->. reflexivity. Qed.

Lemma rs_put s g x :
  rs_of (put_gang s g x) = mkR (putZ g (g_info x) (r_ptr (rs_of s))) (st_infos s) (st_gmap s).
Proof. unfold rs_of, put_gang. cbn [st_gangs st_infos st_gmap r_ptr]. rewrite map_putZ. reflexivity. Qed.

Lemma rs_put_same s g x x' :
  get_gang s g = Some x -> g_info x' = g_info x -> rs_of (put_gang s g x') = rs_of s.
Proof.
  intros E Hi. rewrite rs_put.
  assert (H : putZ g (g_info x') (r_ptr (rs_of s)) = r_ptr (rs_of s)).
  { apply putZ_same_id. rewrite rs_get, E, Hi. reflexivity. }
  rewrite H. reflexivity.
Qed.

Lemma rs_upd_same s g f : (forall x, g_info (f x) = g_info x) -> rs_of (upd_gang s g f) = rs_of s.
Proof.
  intros Hf. unfold upd_gang. destruct (get_gang s g) as [x|] eqn:E; [|reflexivity].
  apply (rs_put_same s g x); [exact E | apply Hf].
Qed.

Lemma rs_del s g : rs_of (del_gang s g) = mkR (delZ g (r_ptr (rs_of s))) (st_infos s) (st_gmap s).
Proof. unfold rs_of, del_gang. cbn [st_gangs st_infos st_gmap r_ptr]. rewrite map_delZ. reflexivity. Qed.

Lemma rs_ensure s g : rs_of (get_or_create s g) = r_ensure g (rs_of s).
Proof.
  unfold get_or_create, r_ensure. rewrite rs_get.
  destruct (get_gang s g) as [x|]; cbn [option_map]; [reflexivity|].
  unfold rs_of. cbn [st_gangs st_infos st_gmap r_ptr r_infos r_gmap]. rewrite map_putZ. reflexivity.
Qed.

Lemma rs_attach s g :
  rs_of (attach_group_info s g)
  = match get_gang s g with Some x => r_attach g (g_group x) (rs_of s) | None => rs_of s end.
Proof.
  unfold attach_group_info. destruct (get_gang s g) as [x|] eqn:E; [|reflexivity].
  unfold r_attach. rewrite rs_get, E. cbn [option_map].
  change (r_gmap (rs_of s)) with (st_gmap s).
  destruct (assocL (g_group x) (st_gmap s)) as [r|]; cbv beta iota zeta.
  - rewrite rs_info. destruct (i_initd (info_at s (g_info x))); [reflexivity|].
    rewrite rs_put. reflexivity.
  - set (s1 := mkState (st_gangs s) (st_infos s ++ [mkInfo true (g_group x) false])
                       ((g_group x, length (st_infos s)) :: st_gmap s) (st_fw s)).
    change (mkR (r_ptr (rs_of s)) (r_infos (rs_of s) ++ [mkInfo true (g_group x) false])
                ((g_group x, length (r_infos (rs_of s))) :: st_gmap s)) with (rs_of s1).
    rewrite rs_info. destruct (i_initd (info_at s1 (g_info x))); [reflexivity|].
    rewrite rs_put. reflexivity.
Qed.

Lemma rs_set_sat s g : rs_of (set_sat s g) = r_setsat g (rs_of s).
Proof.
  unfold set_sat, r_setsat. rewrite rs_get. destruct (get_gang s g) as [x|]; reflexivity.
Qed.

Lemma upd_nth_idem {A} (f : A -> A) n l : (forall a, f (f a) = f a) -> upd_nth n f (upd_nth n f l) = upd_nth n f l.
Proof.
  intros Hf. revert n. induction l as [|a l IH]; intros [|n]; simpl; try reflexivity.
  - rewrite Hf. reflexivity.
  - rewrite IH. reflexivity.
Qed.

Lemma r_setsat_idem g rs : r_setsat g (r_setsat g rs) = r_setsat g rs.
Proof.
  unfold r_setsat. destruct (assocZ g (r_ptr rs)) as [r|] eqn:E; cbn [r_ptr]; rewrite E; [|reflexivity].
  cbn [r_infos r_gmap]. rewrite upd_nth_idem; [reflexivity|]. intros a. reflexivity.
Qed.

Lemma forallb_ext_in' {A} (f g : A -> bool) l : (forall a, In a l -> f a = g a) -> forallb f l = forallb g l.
Proof.
  induction l as [|a l IH]; intros H; simpl; [reflexivity|].
  rewrite (H a (or_introl eq_refl)), IH; [reflexivity|]. intros b Hb. apply H. right. exact Hb.
Qed.

Lemma get_del_gang s g g' : get_gang (del_gang s g) g' = if g' =? g then None else get_gang s g'.
Proof.
  unfold get_gang, del_gang. cbn [st_gangs]. destruct (g' =? g) eqn:E.
  - apply Z.eqb_eq in E. subst. apply assocZ_delZ_same.
  - apply Z.eqb_neq in E. apply assocZ_delZ_other. exact E.
Qed.

Lemma get_put_gang s g x g' : get_gang (put_gang s g x) g' = if g' =? g then Some x else get_gang s g'.
Proof.
  unfold get_gang, put_gang. cbn [st_gangs]. destruct (g' =? g) eqn:E.
  - apply Z.eqb_eq in E. subst. apply assocZ_putZ_same.
  - apply Z.eqb_neq in E. apply assocZ_putZ_other. exact E.
Qed.

(* the gang [g] (value [x] in [s]) leaves the cache: [s1] is [s] with [g] removed and nothing else
   touched; [y] has the group and record of [x] *)
Lemma rs_drop s g x y :
  get_gang s g = Some x -> g_group y = g_group x -> g_info y = g_info x ->
  forall s1, st_gangs s1 = delZ g (st_gangs s) -> st_infos s1 = st_infos s -> st_gmap s1 = st_gmap s ->
  rs_of (drop_group_if_empty s1 y) = r_drop (proj s) g (decl_of x) (rs_of s).
Proof.
  intros E Hg Hi s1 H1 H2 H3. unfold drop_group_if_empty, r_drop. rewrite rs_get, E. cbn [option_map].
  assert (Hall : forallb (fun g' => match get_gang s1 g' with None => true | Some _ => false end) (g_group y)
                 = forallb (fun g' => (g' =? g) || match assocZ g' (proj s) with None => true | Some _ => false end)
                           (d_group (decl_of x))).
  { cbn [d_group decl_of]. rewrite Hg. apply forallb_ext_in'. intros g' _.
    unfold get_gang. rewrite H1. destruct (g' =? g) eqn:Eg.
    - apply Z.eqb_eq in Eg. subst. rewrite assocZ_delZ_same. reflexivity.
    - apply Z.eqb_neq in Eg. rewrite assocZ_delZ_other by exact Eg. cbn [orb].
      rewrite proj_get. unfold get_gang. destruct (assocZ g' (st_gangs s)); reflexivity. }
  rewrite Hall.
  assert (Hk : i_key (info_at s1 (g_info y)) = i_key (r_info (rs_of s) (g_info x))).
  { rewrite rs_info, Hi. unfold info_at. rewrite H2. reflexivity. }
  destruct (forallb _ (d_group (decl_of x))); unfold rs_of; cbn [st_gangs st_infos st_gmap r_ptr r_infos r_gmap];
    rewrite ?H1, ?H2, ?H3, ?map_delZ, ?Hk; reflexivity.
Qed.

(* ---------- every step of the model refines [rec_step] ---------- *)
Lemma decl_get_proj s g :
  decl_get (proj s) g = match get_gang s g with Some x => decl_of x | None => decl0 g end.
Proof. unfold decl_get. rewrite proj_get. destruct (get_gang s g); reflexivity. Qed.

Lemma get_create_same s g :
  get_gang (get_or_create s g) g
  = Some (match get_gang s g with Some x => x | None => new_gang g (length (st_infos s)) end).
Proof.
  unfold get_or_create. destruct (get_gang s g) as [x|] eqn:E; [exact E|].
  unfold get_gang. cbn [st_gangs]. apply assocZ_putZ_same.
Qed.

Lemma rs_pod_event h s p node : rs_of (pod_event h s p node) = rec_pod h (proj s) (rs_of s) p node.
Proof.
  unfold pod_event, rec_pod. cbv zeta. destruct (gang_of h p =? 0); [reflexivity|].
  set (g := gang_of h p).
  set (s1 := get_or_create s g).
  assert (H1 : rs_of s1 = r_ensure g (rs_of s)) by apply rs_ensure.
  set (s2 := if has_label h p then s1 else attach_group_info (upd_gang s1 g (init_by_pod g (acfg_of h g))) g).
  assert (H2 : rs_of s2 =
               if has_label h p then r_ensure g (rs_of s)
               else r_attach g (if d_init (decl_get (proj s) g) then d_group (decl_get (proj s) g)
                                else norm_group g (c_group (acfg_of h g))) (r_ensure g (rs_of s))).
  { unfold s2. destruct (has_label h p); [exact H1|].
    rewrite rs_attach.
    assert (Hu : rs_of (upd_gang s1 g (init_by_pod g (acfg_of h g))) = rs_of s1).
    { apply rs_upd_same. intros x. unfold init_by_pod. destruct (g_init x); reflexivity. }
    rewrite Hu, H1.
    unfold upd_gang. unfold s1 at 1 2. rewrite get_create_same. rewrite get_put_gang, Z.eqb_refl.
    f_equal. rewrite decl_get_proj.
    destruct (get_gang s g) as [x|]; unfold init_by_pod.
    + cbn [d_init d_group decl_of]. destruct (g_init x); reflexivity.
    + cbn. reflexivity. }
  assert (H3 : rs_of (upd_gang s2 g (g_pod_event p node)) = rs_of s2).
  { apply rs_upd_same. intros x. unfold g_pod_event, g_set_child, g_add_bound. destruct node; reflexivity. }
  destruct node.
  - rewrite !rs_set_sat, r_setsat_idem, H3, H2. reflexivity.
  - rewrite H3, H2. reflexivity.
Qed.

Lemma pending_of_view s g :
  pending_of (view s) g = match get_gang s g with Some x => g_pending x | None => [] end.
Proof. unfold pending_of. rewrite vget_view. destruct (get_gang s g); reflexivity. Qed.

Lemma rs_step h s o : rs_of (fst (step h s o)) = rec_step h (view s) (proj s) (rs_of s) o.
Proof.
  destruct o; cbn [step fst rec_step].
  - apply rs_pod_event.
  - destruct terminated; [reflexivity | apply rs_pod_event].
  - (* PodDelete *)
    unfold pod_delete. destruct (gang_of h p =? 0); [reflexivity|].
    rewrite proj_get. destruct (get_gang s (gang_of h p)) as [x|] eqn:E; cbn [option_map]; [|reflexivity].
    cbv zeta.
    change (d_crd (decl_children (decl_of x) (srem p (d_children (decl_of x))))) with (g_crd (g_delete_pod p x)).
    change (d_children (decl_children (decl_of x) (srem p (d_children (decl_of x))))) with (g_children (g_delete_pod p x)).
    destruct (negb (g_crd (g_delete_pod p x)) && is_nil (g_children (g_delete_pod p x))).
    + apply (rs_drop s (gang_of h p) x (g_delete_pod p x) E); try reflexivity.
      unfold del_gang, put_gang. cbn [st_gangs]. apply delZ_putZ.
    + apply (rs_put_same s (gang_of h p) x); [exact E | reflexivity].
  - (* PGAdd *)
    unfold pg_add. destruct (valid_gid h g); cbn [negb]; [|reflexivity]. cbv zeta.
    set (s1 := upd_gang (get_or_create s g) g (init_by_pg g c)).
    assert (H1 : rs_of s1 = r_ensure g (rs_of s)).
    { unfold s1. rewrite rs_upd_same by (intros x; reflexivity). apply rs_ensure. }
    assert (Hg : get_gang s1 g
                 = Some (init_by_pg g c (match get_gang s g with Some x => x | None => new_gang g (length (st_infos s)) end))).
    { unfold s1, upd_gang. rewrite get_create_same, get_put_gang, Z.eqb_refl. reflexivity. }
    rewrite Hg.
    assert (Hc : gang_worth (init_by_pg g c (match get_gang s g with Some x => x | None => new_gang g (length (st_infos s)) end))
                 && is_nil (g_pending (init_by_pg g c (match get_gang s g with Some x => x | None => new_gang g (length (st_infos s)) end)))
                 = (c_min c <=? lenZ (d_children (decl_get (proj s) g))) && is_nil (pending_of (view s) g)).
    { rewrite decl_get_proj, pending_of_view. unfold gang_worth.
      destruct (get_gang s g) as [x|]; reflexivity. }
    rewrite Hc.
    destruct ((c_min c <=? lenZ (d_children (decl_get (proj s) g))) && is_nil (pending_of (view s) g)); [exact H1|].
    rewrite rs_attach, Hg, H1. reflexivity.
  - (* PGUpdate *)
    unfold pg_update. destruct (valid_gid h g); cbn [negb]; [|reflexivity].
    rewrite proj_get. destruct (get_gang s g) as [x0|] eqn:E0; cbn [option_map]; [|reflexivity]. cbv zeta.
    set (s1 := upd_gang s g (init_by_pg g c)).
    assert (H1 : rs_of s1 = rs_of s) by (apply rs_upd_same; intros x; reflexivity).
    assert (Hg : get_gang s1 g = Some (init_by_pg g c x0)).
    { unfold s1, upd_gang. rewrite E0, get_put_gang, Z.eqb_refl. reflexivity. }
    rewrite Hg.
    assert (Hc : negb (gang_worth x0) && gang_worth (init_by_pg g c x0) && is_nil (g_pending (init_by_pg g c x0))
                 = negb (d_init (decl_of x0) && (d_min (decl_of x0) <=? lenZ (d_children (decl_of x0))))
                   && (c_min c <=? lenZ (d_children (decl_of x0))) && is_nil (pending_of (view s) g)).
    { rewrite pending_of_view, E0. reflexivity. }
    rewrite Hc.
    match goal with |- rs_of (if ?c then _ else _) = _ => destruct c end; [exact H1|].
    rewrite rs_attach, Hg, H1. reflexivity.
  - (* PGDelete *)
    unfold pg_delete. destruct (valid_gid h g); cbn [negb]; [|reflexivity].
    rewrite proj_get. destruct (get_gang s g) as [x|] eqn:E; cbn [option_map]; [|reflexivity].
    apply (rs_drop s g x x E); reflexivity.
  - (* Permit *)
    unfold permit. cbv zeta. destruct (gang_of h p =? 0); [reflexivity|].
    destruct (get_gang s (gang_of h p)) as [x|] eqn:E; [|reflexivity].
    assert (Hp : rs_of (put_gang s (gang_of h p) (g_add_assumed p x)) = rs_of s)
      by (apply (rs_put_same s _ x); [exact E | reflexivity]).
    match goal with |- rs_of (fst (if ?c then _ else _)) = _ => destruct c end; cbn [fst];
      (etransitivity; [apply rs_same; reflexivity | exact Hp]).
  - (* Unreserve *)
    unfold unreserve. cbv zeta.
    set (s0 := set_fw s (srem p (st_fw s))).
    assert (H0 : rs_of s0 = rs_of s) by (apply rs_same; reflexivity).
    destruct (gang_of h p =? 0); [exact H0|].
    destruct (get_gang s0 (gang_of h p)) as [x|] eqn:E; [|exact H0].
    assert (Hp : rs_of (put_gang s0 (gang_of h p) (g_del_assumed p x)) = rs_of s).
    { rewrite <- H0. apply (rs_put_same s0 _ x); [exact E|].
      unfold g_del_assumed. destruct (memZ p (g_waiting x)); reflexivity. }
    match goal with |- rs_of (fst (if ?c then _ else _)) = _ => destruct c end; cbn [fst]; [|exact Hp].
    unfold reject_group. cbn [fst]. etransitivity; [apply rs_same; reflexivity | exact Hp].
  - (* PostBind *)
    unfold post_bind, add_bound. destruct (gang_of h p =? 0); [reflexivity|].
    rewrite rs_set_sat. f_equal. apply rs_upd_same. intros x. reflexivity.
  - (* AfterPostFilter *)
    unfold after_post_filter. destruct (gang_of h p =? 0); [reflexivity|].
    destruct (get_gang s (gang_of h p)) as [x|]; [|reflexivity].
    destruct (exempt s x); [reflexivity|]. destruct (g_strict x); reflexivity.
  - reflexivity.
Qed.

(* the group records of the cache after any history are the ones tracked from the history *)
Fixpoint rec_run (h : hdr) (s : state) (rs : rstate) (ops : list op) : rstate :=
  match ops with
  | [] => rs
  | o :: t => rec_run h (fst (step h s o)) (rec_step h (view s) (proj s) rs o) t
  end.

Theorem records_follow_history h ops :
  rs_of (exec h init_state ops) = rec_run h init_state rstate0 ops.
Proof.
  change rstate0 with (rs_of init_state). generalize init_state.
  induction ops as [|o ops IH]; intros s; [reflexivity|].
  unfold exec in *. cbn [fold_left rec_run]. rewrite IH, rs_step. reflexivity.
Qed.

(* ---------- the model's observation matches its projection ---------- *)
Lemma list_eqb_refl l : list_eqb l l = true.
Proof. induction l as [|x l IH]; simpl; [reflexivity | rewrite Z.eqb_refl; exact IH]. Qed.

Lemma list_eqb_eq a b : list_eqb a b = true <-> a = b.
Proof.
  revert b. induction a as [|x a IH]; intros [|y b]; simpl; try (split; [discriminate | congruence]).
  - split; reflexivity.
  - rewrite andb_true_iff, Z.eqb_eq, IH. split; [intros [-> ->]; reflexivity | intros H; inversion H; auto].
Qed.

Lemma rec_eqb_eq a b : rec_eqb a b = true <-> a = b.
Proof.
  destruct a as [k1 b1], b as [k2 b2]. unfold rec_eqb. cbn [fst snd].
  rewrite andb_true_iff, list_eqb_eq. split.
  - intros [-> H]. apply Bool.eqb_prop in H. subst. reflexivity.
  - intros H. inversion H. subst. split; [reflexivity | apply eqb_refl_bool].
Qed.

Lemma rec_inb_In a l : rec_inb a l = true <-> In a l.
Proof.
  unfold rec_inb. rewrite existsb_exists. split.
  - intros [x [Hx He]]. apply rec_eqb_eq in He. subst. exact Hx.
  - intros H. exists a. split; [exact H | apply rec_eqb_eq; reflexivity].
Qed.

Lemma recs_eqb_spec a b : recs_eqb a b = true <-> (forall e, In e a <-> In e b).
Proof.
  unfold recs_eqb. rewrite andb_true_iff, !forallb_forall. split.
  - intros [H1 H2] e. split; intros H; [apply rec_inb_In, H1 | apply rec_inb_In, H2]; exact H.
  - intros H. split; intros e He; apply rec_inb_In, H; exact He.
Qed.

Lemma opt_rec_eqb_eq a b : opt_rec_eqb a b = true <-> a = b.
Proof.
  destruct a as [x|], b as [y|]; cbn [opt_rec_eqb]; try (split; [discriminate | congruence]).
  - rewrite rec_eqb_eq. split; congruence.
  - split; reflexivity.
Qed.

Lemma r_recs_rs_of s : r_recs (rs_of s) = sv_recs (view s).
Proof. reflexivity. Qed.

Lemma wire_view s g : assocZ g (sv_wire (view s)) = r_wire (rs_of s) g.
Proof.
  unfold r_wire. rewrite rs_get. unfold view. cbn [sv_wire].
  rewrite (assocZ_map (fun x => rec_of s (g_info x))). destruct (assocZ g (st_gangs s)) eqn:E; unfold get_gang; rewrite E; reflexivity.
Qed.

Lemma rec_matchb_rs_of s : rec_matchb (rs_of s) (view s) = true.
Proof.
  unfold rec_matchb. apply andb_true_iff. split.
  - apply recs_eqb_spec. intros e. rewrite r_recs_rs_of. tauto.
  - apply forallb_forall. intros g _. unfold gang_rec_okb.
    rewrite vget_view, wire_view. unfold r_sat. rewrite rs_get.
    destruct (get_gang s g) as [y|]; cbn [option_map]; [|reflexivity].
    apply andb_true_iff. split; [apply eqb_refl_bool | apply opt_rec_eqb_eq; reflexivity].
Qed.

(* ---------- soundness of the boolean check ---------- *)
Lemma rec_matchb_sound rs v : rec_matchb rs v = true -> rec_match rs v.
Proof.
  unfold rec_matchb, rec_match. rewrite andb_true_iff, recs_eqb_spec, forallb_forall.
  intros [H1 H2]. split; [exact H1|]. intros g x E.
  assert (Hin : In g (map fst (sv_gangs v))).
  { unfold vget in E. apply assocZ_In in E. apply (in_map fst) in E. exact E. }
  specialize (H2 g Hin). unfold gang_rec_okb in H2. rewrite E in H2.
  destruct (r_sat rs g) as [b|]; [|discriminate].
  apply andb_true_iff in H2. destruct H2 as [Hb Hw].
  apply Bool.eqb_prop in Hb. apply opt_rec_eqb_eq in Hw. subst b. auto.
Qed.
