(* C04 — proofs, part 2d: no stale group record. As long as every gang in the cache is wired to the map's
   record of its own declared group and the gangs of a group agree on the group, every record in the map has
   a gang of its group id in the cache — so a group that comes back after all its gangs left starts with a
   fresh, unsatisfied record. Proved on the trackers ([decl_step], [rec_step]) and transferred to the model.
   The hypothesis is needed: findings/C04-stale-group-record.md ([stale_record_witness]). *)
From Coq Require Import List ZArith Bool Lia.
From Verif Require Import C04.Model C04.Spec C04.Proofs C04.Proofs_state C04.Proofs_decl C04.Proofs_rec.
Import ListNotations.
Open Scope Z_scope.

Definition t_wired (ds : dstate) (rs : rstate) : Prop :=
  forall g d, assocZ g ds = Some d ->
    exists r, assocZ g (r_ptr rs) = Some r /\ i_initd (r_info rs r) = true
              /\ i_key (r_info rs r) = d_group d /\ assocL (d_group d) (r_gmap rs) = Some r.
Definition t_consistent (ds : dstate) : Prop :=
  forall g d g' d', assocZ g ds = Some d -> assocZ g' ds = Some d' -> In g' (d_group d) -> d_group d' = d_group d.
Definition t_keys_live (ds : dstate) (rs : rstate) : Prop :=
  forall K r, assocL K (r_gmap rs) = Some r -> exists g d, assocZ g ds = Some d /\ d_group d = K.

(* ---------- the heap of records ---------- *)
Definition keeps (rs rs' : rstate) : Prop :=
  forall r, i_initd (r_info rs r) = true ->
    i_initd (r_info rs' r) = true /\ i_key (r_info rs' r) = i_key (r_info rs r).

Lemma keeps_refl rs : keeps rs rs. Proof. intros r H. auto. Qed.
Lemma keeps_trans a b c : keeps a b -> keeps b c -> keeps a c.
Proof. intros H1 H2 r H. destruct (H1 r H) as [A B]. destruct (H2 r A) as [C D]. split; congruence. Qed.

Lemma initd_lt (l : list info) r : i_initd (nth r l placeholder) = true -> (r < length l)%nat.
Proof.
  intros H. destruct (Nat.lt_ge_cases r (length l)) as [Hl|Hl]; [exact Hl|].
  rewrite nth_overflow in H by exact Hl. discriminate.
Qed.

Lemma keeps_app rs i :
  keeps rs (mkR (r_ptr rs) (r_infos rs ++ [i]) (r_gmap rs)).
Proof.
  intros r H. unfold r_info in *. cbn [r_infos]. rewrite app_nth1 by (apply initd_lt; exact H). auto.
Qed.

Lemma nth_upd_nth_key r0 : forall l r,
  i_key (nth r (upd_nth r0 (fun i => mkInfo (i_initd i) (i_key i) true) l) placeholder) = i_key (nth r l placeholder)
  /\ i_initd (nth r (upd_nth r0 (fun i => mkInfo (i_initd i) (i_key i) true) l) placeholder) = i_initd (nth r l placeholder).
Proof.
  induction r0 as [|r0 IH]; intros [|a l] [|r]; simpl; auto.
Qed.

Lemma keeps_ensure g rs : keeps rs (r_ensure g rs).
Proof.
  unfold r_ensure. destruct (assocZ g (r_ptr rs)); [apply keeps_refl|].
  intros r H. unfold r_info in *. cbn [r_infos]. rewrite app_nth1 by (apply initd_lt; exact H). auto.
Qed.

Lemma keeps_setsat g rs : keeps rs (r_setsat g rs).
Proof.
  unfold r_setsat. destruct (assocZ g (r_ptr rs)) as [r0|]; [|apply keeps_refl].
  intros r H. unfold r_info in *. cbn [r_infos]. destruct (nth_upd_nth_key r0 (r_infos rs) r) as [A B].
  rewrite A, B. auto.
Qed.

Lemma keeps_same_infos rs rs' : r_infos rs' = r_infos rs -> keeps rs rs'.
Proof. intros E r H. unfold r_info in *. rewrite E. auto. Qed.

Lemma keeps_attach g key rs : keeps rs (r_attach g key rs).
Proof.
  unfold r_attach. destruct (assocZ g (r_ptr rs)) as [r0|]; [|apply keeps_refl].
  destruct (assocL key (r_gmap rs)) as [r1|]; cbv beta iota zeta.
  - destruct (i_initd (r_info rs r0)); apply keeps_same_infos; reflexivity.
  - match goal with |- keeps _ (if ?c then _ else _) => destruct c end;
      intros r H; unfold r_info in *; cbn [r_infos]; rewrite app_nth1 by (apply initd_lt; exact H); auto.
Qed.

Lemma keeps_drop ds g d rs : keeps rs (r_drop ds g d rs).
Proof. unfold r_drop. destruct (assocZ g (r_ptr rs)); apply keeps_same_infos; reflexivity. Qed.

(* ---------- the pointer of a wired gang does not move ---------- *)
Definition ptr_stays (rs rs' : rstate) (g : Z) : Prop :=
  forall r, assocZ g (r_ptr rs) = Some r -> i_initd (r_info rs r) = true -> assocZ g (r_ptr rs') = Some r.

Lemma ptr_ensure g0 rs g : ptr_stays rs (r_ensure g0 rs) g.
Proof.
  intros r E _. unfold r_ensure. destruct (assocZ g0 (r_ptr rs)) eqn:E0; [exact E|]. cbn [r_ptr].
  rewrite assocZ_putZ_other; [exact E|]. intros ->. congruence.
Qed.

Lemma ptr_setsat g0 rs g : ptr_stays rs (r_setsat g0 rs) g.
Proof. intros r E _. unfold r_setsat. destruct (assocZ g0 (r_ptr rs)); exact E. Qed.

Lemma ptr_attach g0 key rs g : ptr_stays rs (r_attach g0 key rs) g.
Proof.
  intros r E Hi. unfold r_attach. destruct (assocZ g0 (r_ptr rs)) as [r0|] eqn:E0; [|exact E].
  destruct (Z.eq_dec g g0) as [->|Hne].
  - assert (r0 = r) by congruence. subst r0.
    destruct (assocL key (r_gmap rs)) as [r1|]; cbv beta iota zeta.
    + rewrite Hi. exact E.
    + assert (H : i_initd (r_info (mkR (r_ptr rs) (r_infos rs ++ [mkInfo true key false])
                                       ((key, length (r_infos rs)) :: r_gmap rs)) r) = true)
        by (apply (keeps_app rs (mkInfo true key false) r Hi)).
      unfold r_info in *. cbn [r_infos] in *. rewrite H. exact E.
  - destruct (assocL key (r_gmap rs)) as [r1|]; cbv beta iota zeta;
      match goal with |- assocZ g (r_ptr (if ?c then _ else _)) = _ => destruct c end; cbn [r_ptr];
      try exact E; rewrite assocZ_putZ_other by exact Hne; exact E.
Qed.

Lemma ptr_stays_trans a b c g : keeps a b -> ptr_stays a b g -> ptr_stays b c g -> ptr_stays a c g.
Proof. intros K H1 H2 r E Hi. apply H2; [apply H1; assumption | apply (K r Hi)]. Qed.

(* ---------- the map ---------- *)
Lemma assocL_delL K k l r : assocL K (delL k l) = Some r -> K <> k /\ assocL K l = Some r.
Proof.
  induction l as [|[k' v] t IH]; simpl; [discriminate|].
  destruct (list_eqb k' k) eqn:Ek; cbn [negb].
  - intros H. destruct (IH H) as [A B]. split; [exact A|].
    destruct (list_eqb K k') eqn:E; [|exact B].
    apply list_eqb_eq in E, Ek. subst. congruence.
  - cbn [assocL fst]. destruct (list_eqb K k') eqn:E.
    + intros H. split; [|exact H]. apply list_eqb_eq in E. subst. intros ->. rewrite list_eqb_refl in Ek. discriminate.
    + exact IH.
Qed.

Lemma gmap_attach g key rs K r :
  assocL K (r_gmap (r_attach g key rs)) = Some r -> assocL K (r_gmap rs) = Some r \/ (K = key /\ assocZ g (r_ptr rs) <> None).
Proof.
  unfold r_attach. destruct (assocZ g (r_ptr rs)) as [r0|]; [|auto].
  destruct (assocL key (r_gmap rs)) as [r1|] eqn:Ek; cbv beta iota zeta.
  - match goal with |- assocL K (r_gmap (if ?c then _ else _)) = _ -> _ => destruct c end; cbn [r_gmap]; auto.
  - assert (H : forall rs2, r_gmap rs2 = (key, length (r_infos rs)) :: r_gmap rs ->
                assocL K (r_gmap rs2) = Some r -> assocL K (r_gmap rs) = Some r \/ (K = key /\ Some r0 <> None)).
    { intros rs2 -> H. cbn [assocL] in H. destruct (list_eqb K key) eqn:E; [|auto].
      right. split; [apply list_eqb_eq; exact E | discriminate]. }
    match goal with |- assocL K (r_gmap (if ?c then _ else _)) = _ -> _ => destruct c end; apply H; reflexivity.
Qed.

Lemma gmap_ensure g rs : r_gmap (r_ensure g rs) = r_gmap rs.
Proof. unfold r_ensure. destruct (assocZ g (r_ptr rs)); reflexivity. Qed.
Lemma gmap_setsat g rs : r_gmap (r_setsat g rs) = r_gmap rs.
Proof. unfold r_setsat. destruct (assocZ g (r_ptr rs)); reflexivity. Qed.

(* ---------- a gang leaves the cache ---------- *)
Lemma leave_keys_live ds rs g d :
  assocZ g ds = Some d -> t_wired ds rs -> t_consistent ds -> t_keys_live ds rs ->
  t_keys_live (delZ g ds) (r_drop ds g d rs).
Proof.
  intros E Hw Hc Hk K r'. unfold r_drop.
  destruct (Hw g d E) as (r & Ep & Hi & Hkey & Hm). rewrite Ep. cbn [r_gmap].
  set (absent := fun g' => (g' =? g) || match assocZ g' ds with None => true | Some _ => false end).
  destruct (forallb absent (d_group d)) eqn:Ea.
  - rewrite Hkey. intros H. apply assocL_delL in H. destruct H as [Hne H].
    destruct (Hk K r' H) as (g2 & d2 & E2 & G2).
    exists g2, d2. split; [|exact G2]. rewrite assocZ_delZ_other; [exact E2|].
    intros ->. rewrite E in E2. inversion E2. subst d2. congruence.
  - intros H. destruct (Hk K r' H) as (g2 & d2 & E2 & G2).
    destruct (Z.eq_dec g2 g) as [->|Hne].
    + rewrite E in E2. inversion E2. subst d2. clear E2.
      assert (Hex : exists g', In g' (d_group d) /\ absent g' = false).
      { clear -Ea. induction (d_group d) as [|a l IH]; [discriminate|]. cbn [forallb] in Ea.
        destruct (absent a) eqn:Eab.
        - destruct (IH Ea) as (g' & Hin & Hab). exists g'. split; [right; exact Hin | exact Hab].
        - exists a. split; [left; reflexivity | exact Eab]. }
      destruct Hex as (g' & Hin & Hab). unfold absent in Hab. apply orb_false_iff in Hab. destruct Hab as [Hne Hl].
      apply Z.eqb_neq in Hne. destruct (assocZ g' ds) as [d1|] eqn:E1; [|discriminate].
      exists g', d1. split; [rewrite assocZ_delZ_other by exact Hne; exact E1|].
      rewrite <- G2. apply (Hc g d g' d1 E E1 Hin).
    + exists g2, d2. split; [rewrite assocZ_delZ_other by exact Hne; exact E2 | exact G2].
Qed.

(* ---------- events that do not delete ---------- *)
Definition is_del (o : op) : bool := match o with PodDelete _ | PGDelete _ => true | _ => false end.

Lemma persist h ds o g d :
  is_del o = false -> assocZ g ds = Some d -> exists d2, assocZ g (decl_step h ds o) = Some d2.
Proof.
  intros Hd E. destruct o; cbn [decl_step is_del] in *; try discriminate; eauto.
  - unfold decl_pod. destruct (gang_of h p =? 0); [eauto|]. cbv zeta.
    destruct (Z.eq_dec g (gang_of h p)) as [->|Hne]; [rewrite assocZ_putZ_same; eauto|].
    rewrite assocZ_putZ_other by exact Hne. eauto.
  - destruct terminated; [eauto|]. unfold decl_pod. destruct (gang_of h p =? 0); [eauto|]. cbv zeta.
    destruct (Z.eq_dec g (gang_of h p)) as [->|Hne]; [rewrite assocZ_putZ_same; eauto|].
    rewrite assocZ_putZ_other by exact Hne. eauto.
  - destruct (valid_gid h g0); [|eauto].
    destruct (Z.eq_dec g g0) as [->|Hne]; [rewrite assocZ_putZ_same; eauto|].
    rewrite assocZ_putZ_other by exact Hne. eauto.
  - destruct (valid_gid h g0); [|eauto]. destruct (assocZ g0 ds) as [d0|]; [|eauto].
    destruct (Z.eq_dec g g0) as [->|Hne]; [rewrite assocZ_putZ_same; eauto|].
    rewrite assocZ_putZ_other by exact Hne. eauto.
Qed.

Lemma rec_pod_facts h ds rs p node :
  keeps rs (rec_pod h ds rs p node)
  /\ (forall g, ptr_stays rs (rec_pod h ds rs p node) g)
  /\ (forall K r, assocL K (r_gmap (rec_pod h ds rs p node)) = Some r ->
        assocL K (r_gmap rs) = Some r
        \/ exists d2, assocZ (gang_of h p) (decl_pod h ds p) = Some d2 /\ d_group d2 = K).
Proof.
  unfold rec_pod. cbv zeta. destruct (gang_of h p =? 0) eqn:Eg.
  { split; [apply keeps_refl|]. split; [intros g r E _; exact E | auto]. }
  set (g0 := gang_of h p).
  set (key := if d_init (decl_get ds g0) then d_group (decl_get ds g0) else norm_group g0 (c_group (acfg_of h g0))).
  set (rs2 := if has_label h p then r_ensure g0 rs else r_attach g0 key (r_ensure g0 rs)).
  assert (K2 : keeps rs rs2).
  { unfold rs2. destruct (has_label h p); [apply keeps_ensure|].
    eapply keeps_trans; [apply keeps_ensure | apply keeps_attach]. }
  assert (P2 : forall g, ptr_stays rs rs2 g).
  { intros g. unfold rs2. destruct (has_label h p); [apply ptr_ensure|].
    apply (ptr_stays_trans rs (r_ensure g0 rs)); [apply keeps_ensure | apply ptr_ensure | apply ptr_attach]. }
  assert (G2 : forall K r, assocL K (r_gmap rs2) = Some r ->
                 assocL K (r_gmap rs) = Some r \/ (has_label h p = false /\ K = key)).
  { intros K r. unfold rs2. destruct (has_label h p).
    - rewrite gmap_ensure. auto.
    - intros H. apply gmap_attach in H. rewrite gmap_ensure in H. destruct H as [H|[H _]]; auto. }
  assert (Hgrp : has_label h p = false ->
                 exists d2, assocZ g0 (decl_pod h ds p) = Some d2 /\ d_group d2 = key).
  { intros Hl. unfold key, g0. unfold decl_pod. rewrite Eg, Hl. cbv zeta. cbn [orb].
    rewrite assocZ_putZ_same. eexists. split; [reflexivity|].
    destruct (d_init (decl_get ds (gang_of h p))); reflexivity. }
  destruct node.
  - split; [eapply keeps_trans; [exact K2 | apply keeps_setsat]|]. split.
    + intros g. apply (ptr_stays_trans rs rs2); [exact K2 | apply P2 | apply ptr_setsat].
    + intros K r. rewrite gmap_setsat. intros H. destruct (G2 K r H) as [H1|[Hl ->]]; [auto|].
      right. apply Hgrp. exact Hl.
  - split; [exact K2|]. split; [exact P2|].
    intros K r H. destruct (G2 K r H) as [H1|[Hl ->]]; [auto|]. right. apply Hgrp. exact Hl.
Qed.

(* the facts shared by all non-deleting steps *)
Lemma nondel_facts h prev ds rs o :
  is_del o = false ->
  keeps rs (rec_step h prev ds rs o)
  /\ (forall g, ptr_stays rs (rec_step h prev ds rs o) g)
  /\ (forall K r, assocL K (r_gmap (rec_step h prev ds rs o)) = Some r ->
        assocL K (r_gmap rs) = Some r
        \/ exists g d2, assocZ g (decl_step h ds o) = Some d2 /\ d_group d2 = K).
Proof.
  intros Hd.
  assert (Triv : forall ds', keeps rs rs /\ (forall g, ptr_stays rs rs g)
                 /\ (forall K r, assocL K (r_gmap rs) = Some r -> assocL K (r_gmap rs) = Some r
                       \/ exists g d2, assocZ g ds' = Some d2 /\ d_group d2 = K)).
  { intros ds'. split; [apply keeps_refl|]. split; [intros g r E _; exact E | auto]. }
  destruct o; cbn [is_del] in Hd; try discriminate; cbn [rec_step]; try apply Triv.
  - destruct (rec_pod_facts h ds rs p node) as (A & B & C). split; [exact A|]. split; [exact B|].
    intros K r H. destruct (C K r H) as [H1|[d2 H2]]; [auto|]. right. exists (gang_of h p), d2. exact H2.
  - destruct terminated; [apply Triv|].
    destruct (rec_pod_facts h ds rs p node) as (A & B & C). split; [exact A|]. split; [exact B|].
    intros K r H. destruct (C K r H) as [H1|[d2 H2]]; [auto|]. right. exists (gang_of h p), d2. exact H2.
  - (* PGAdd *)
    cbn [decl_step]. destruct (valid_gid h g); [|apply Triv].
    match goal with |- context [if ?c then r_ensure g rs else _] => destruct c end.
    + split; [apply keeps_ensure|]. split; [intros g'; apply ptr_ensure|].
      intros K r. rewrite gmap_ensure. auto.
    + split; [eapply keeps_trans; [apply keeps_ensure | apply keeps_attach]|]. split.
      * intros g'. apply (ptr_stays_trans rs (r_ensure g rs)); [apply keeps_ensure | apply ptr_ensure | apply ptr_attach].
      * intros K r H. apply gmap_attach in H. rewrite gmap_ensure in H. destruct H as [H|[-> _]]; [auto|].
        right. exists g. rewrite assocZ_putZ_same. eexists. split; reflexivity.
  - (* PGUpdate *)
    cbn [decl_step]. destruct (valid_gid h g); [|apply Triv].
    destruct (assocZ g ds) as [d0|] eqn:E0; [|apply Triv]. cbv zeta.
    match goal with |- context [if ?c then rs else _] => destruct c end; [apply Triv|].
    split; [apply keeps_attach|]. split; [intros g'; apply ptr_attach|].
    intros K r H. apply gmap_attach in H. destruct H as [H|[-> _]]; [auto|].
    right. exists g. rewrite assocZ_putZ_same. eexists. split; reflexivity.
  - (* PostBind *)
    destruct (gang_of h p =? 0); [apply Triv|].
    split; [apply keeps_setsat|]. split; [intros g'; apply ptr_setsat|].
    intros K r. rewrite gmap_setsat. auto.
Qed.

(* ---------- one step ---------- *)
Theorem keys_live_step h prev ds rs o :
  t_wired ds rs -> t_consistent ds -> t_keys_live ds rs ->
  t_wired (decl_step h ds o) (rec_step h prev ds rs o) ->
  t_keys_live (decl_step h ds o) (rec_step h prev ds rs o).
Proof.
  intros Hw Hc Hk Hw'.
  destruct (is_del o) eqn:Hd.
  - (* delete events *)
    destruct o; cbn [is_del] in Hd; try discriminate; cbn [decl_step rec_step].
    + destruct (gang_of h p =? 0); [exact Hk|].
      destruct (assocZ (gang_of h p) ds) as [d|] eqn:E; [|exact Hk]. cbv zeta.
      match goal with |- context [if ?c then delZ _ _ else _] => destruct c end.
      * apply leave_keys_live; assumption.
      * intros K r H. destruct (Hk K r H) as (g2 & d2 & E2 & G2).
        destruct (Z.eq_dec g2 (gang_of h p)) as [->|Hne].
        -- rewrite E in E2. inversion E2. subst d2. eexists _, _. rewrite assocZ_putZ_same. split; [reflexivity | exact G2].
        -- exists g2, d2. rewrite assocZ_putZ_other by exact Hne. auto.
    + destruct (valid_gid h g); [|exact Hk]. destruct (assocZ g ds) as [d|] eqn:E; [|exact Hk].
      apply leave_keys_live; assumption.
  - destruct (nondel_facts h prev ds rs o Hd) as (Kp & Ps & Gm).
    intros K r H. destruct (Gm K r H) as [H1|H2]; [|exact H2].
    destruct (Hk K r H1) as (g2 & d2 & E2 & G2).
    destruct (persist h ds o g2 d2 Hd E2) as [d3 E3].
    exists g2, d3. split; [exact E3|].
    destruct (Hw g2 d2 E2) as (r2 & Ep & Hi & Hkey & _).
    destruct (Hw' g2 d3 E3) as (r3 & Ep' & _ & Hkey' & _).
    rewrite (Ps g2 r2 Ep Hi) in Ep'. inversion Ep'. subst r3.
    destruct (Kp r2 Hi) as [_ Hk2]. congruence.
Qed.

(* ---------- transfer to the model, over histories ---------- *)
Definition t_wiredb (ds : dstate) (rs : rstate) : bool :=
  forallb (fun kv : Z * decl =>
    match assocZ (fst kv) (r_ptr rs) with
    | Some r => i_initd (r_info rs r) && list_eqb (i_key (r_info rs r)) (d_group (snd kv))
                && match assocL (d_group (snd kv)) (r_gmap rs) with Some r' => Nat.eqb r' r | None => false end
    | None => false
    end) ds.
Definition t_consistentb (ds : dstate) : bool :=
  forallb (fun kv : Z * decl => forallb (fun kv' : Z * decl =>
    if memZ (fst kv') (d_group (snd kv)) then list_eqb (d_group (snd kv')) (d_group (snd kv)) else true) ds) ds.

Lemma t_wiredb_sound ds rs : t_wiredb ds rs = true -> t_wired ds rs.
Proof.
  unfold t_wiredb, t_wired. rewrite forallb_forall. intros H g d E.
  specialize (H (g, d) (assocZ_In g d ds E)). cbn [fst snd] in H.
  destruct (assocZ g (r_ptr rs)) as [r|]; [|discriminate]. exists r.
  apply andb_true_iff in H. destruct H as [H H3]. apply andb_true_iff in H. destruct H as [H1 H2].
  apply list_eqb_eq in H2. destruct (assocL (d_group d) (r_gmap rs)) as [r'|]; [|discriminate].
  apply Nat.eqb_eq in H3. subst r'. auto.
Qed.

Lemma t_consistentb_sound ds : t_consistentb ds = true -> t_consistent ds.
Proof.
  unfold t_consistentb, t_consistent. rewrite forallb_forall. intros H g d g' d' E E' Hin.
  specialize (H (g, d) (assocZ_In g d ds E)). rewrite forallb_forall in H.
  specialize (H (g', d') (assocZ_In g' d' ds E')). cbn [fst snd] in H.
  apply memZ_In in Hin. rewrite Hin in H. apply list_eqb_eq. exact H.
Qed.

(* the guard, as a predicate on histories (decidable: every conjunct is a boolean equation) *)
Fixpoint well_wired (h : hdr) (s : state) (ops : list op) : Prop :=
  t_wiredb (proj s) (rs_of s) = true /\ t_consistentb (proj s) = true
  /\ match ops with [] => True | o :: t => well_wired h (fst (step h s o)) t end.

Definition keys_live (s : state) : Prop := t_keys_live (proj s) (rs_of s).

Theorem no_stale_record h : forall ops s,
  keys_live s -> well_wired h s ops -> keys_live (exec h s ops).
Proof.
  induction ops as [|o ops IH]; intros s Hk Hw; [exact Hk|].
  destruct Hw as (W & C & Hw). unfold exec. cbn [fold_left]. apply IH; [|exact Hw].
  unfold keys_live. rewrite proj_step, rs_step.
  apply keys_live_step; try assumption.
  - apply t_wiredb_sound. exact W.
  - apply t_consistentb_sound. exact C.
  - rewrite <- proj_step, <- rs_step. apply t_wiredb_sound.
    destruct ops; cbn [well_wired] in Hw; destruct Hw as (W' & _); exact W'.
Qed.

Lemma keys_live_init : keys_live init_state.
Proof. intros K r H. discriminate. Qed.

(* when the last gang has left, the map is empty: nothing survives into the next life of a group *)
Corollary empty_cache_empty_map h ops :
  well_wired h init_state ops -> st_gangs (exec h init_state ops) = [] -> st_gmap (exec h init_state ops) = [].
Proof.
  intros Hw He. pose proof (no_stale_record h ops init_state keys_live_init Hw) as Hk.
  unfold keys_live, t_keys_live in Hk. change (r_gmap (rs_of (exec h init_state ops))) with (st_gmap (exec h init_state ops)) in Hk.
  destruct (st_gmap (exec h init_state ops)) as [|[K r] t]; [reflexivity|].
  destruct (Hk K r) as (g & d & E & _).
  - cbn [assocL]. rewrite list_eqb_refl. reflexivity.
  - unfold proj in E. rewrite He in E. discriminate.
Qed.

(* non-vacuity of the guard: two annotation gangs of one group run, are released together, bound, and deleted *)
Definition exw_hdr : hdr :=
  mkHdr 2 [(1, false); (2, false)] [mkCfg 1 0 2 [1; 2]; mkCfg 1 0 2 [1; 2]].
Definition exw_ops : list op :=
  [PodAdd 0 false; PodAdd 1 false; Permit 0; Permit 1; PostBind 0; PostBind 1; PodDelete 0; PodDelete 1].
Example well_wired_example :
  well_wired exw_hdr init_state exw_ops
  /\ st_gangs (exec exw_hdr init_state exw_ops) = []
  /\ option_map (fun o => sv_recs (snd o)) (nth_error (run exw_hdr exw_ops) 5) = Some [([1; 2], true)].
Proof. vm_compute. repeat split. Qed.

(* the guard is needed: the history of findings/C04-stale-group-record.md leaves a satisfied record in the
   map of an empty cache, and the re-submitted gang's first member is released alone (min 3) *)
Definition stale_hdr : hdr := mkHdr 2 [(2, true); (1, true)] [dflt_cfg; dflt_cfg].
Definition stale_ops : list op :=
  [PGAdd 1 (mkCfg 1 0 2 [1]); PGUpdate 1 (mkCfg 1 0 2 [1; 2]); PGAdd 2 (mkCfg 1 0 2 [1; 2]);
   PodAdd 0 true; PodDelete 0; PGDelete 2; PGDelete 1;
   PGAdd 1 (mkCfg 3 0 2 [1; 2]); PGAdd 2 (mkCfg 3 0 2 [1; 2]); PodAdd 1 false; Permit 1].
Theorem stale_record_witness :
  let l := run stale_hdr stale_ops in
  option_map (fun o => (sv_gangs (snd o), sv_recs (snd o))) (nth_error l 6) = Some ([], [([1; 2], true)])
  /\ option_map (fun o => o_res (fst o)) (nth_error l 10) = Some res_success
  /\ option_map (fun o => option_map (fun x => (v_min x, v_waiting x, v_bound x)) (vget (snd o) 1)) (nth_error l 10)
     = Some (Some (3, [1], []))
  /\ ~ well_wired stale_hdr init_state stale_ops.
Proof.
  split; [vm_compute; reflexivity|]. split; [vm_compute; reflexivity|]. split; [vm_compute; reflexivity|].
  intros H. vm_compute in H. repeat match goal with H : _ /\ _ |- _ => destruct H end; discriminate.
Qed.
