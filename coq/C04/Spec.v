(* C04 — the property as Props over (history, observations) and its decision procedure
   [prop_code] (0 = holds; otherwise the number of the first failing clause).

   An observation is what the harness logs after every operation: the Permit result, the
   Allow / Reject calls the framework handle saw, the framework's waiting map, and for every
   gang in the cache its GetGangSummary projection ([gview]).

   clause 1  partition        every gang: pending, waiting and bound ⊆ children (only current members
                              are in the sets), pairwise disjoint, every child in one of them, no
                              duplicates — checked as long as the history is protocol conformant (no
                              Permit for a bound pod, no Permit / PostBind for a pod that is not a
                              child; see [permit_guard_viol])
   clause 2  release safety   Allow calls only in a Permit that returns Success, and Success only
                              when every gang of the pod's gang group exists and is valid for permit
                              — as the code counts, and (conformant histories) counting only the
                              waiting / bound pods that really are children of the gang
   clause 3  allow all        on Success exactly the framework-waiting pods of the group's gangs are
                              allowed; on Wait the pod is parked
   clause 4  strict reject    Unreserve / AfterPostFilter of a strict, non-exempt gang rejects exactly
                              the framework-waiting pods of the group's gangs; nothing else rejects
   clause 5  result code      NotSpecified / NotFound exactly when the pod names no gang / the gang
                              is not in the cache
   clause 6  otherwise waits  Permit returns Wait only when some gang of the group is not valid
   clause 7  frame            informer events and PostBind do not touch the framework's waiting map *)
From Coq Require Import List ZArith Bool.
From Verif Require Import C04.Model.
Import ListNotations.
Open Scope Z_scope.

Definition vget (v : sview) (g : Z) : option gview := assocZ g (sv_gangs v).

Definition subsetb (a b : list Z) : bool := forallb (fun x => memZ x b) a.
Definition set_eqb (a b : list Z) : bool := subsetb a b && subsetb b a.
Definition disjointb (a b : list Z) : bool := forallb (fun x => negb (memZ x b)) a.
Fixpoint nodupb (l : list Z) : bool :=
  match l with [] => true | x :: t => negb (memZ x t) && nodupb t end.

(* ---------- clause 1: the membership partition ---------- *)
(* [wpart4]: what every single lock-protected section preserves; [part4] adds that every child
   is in one of the three sets, which holds between entry points *)
Definition wpart4 (c p w b : list Z) : Prop :=
  NoDup c /\ NoDup p /\ NoDup w /\ NoDup b
  /\ (forall q, In q p -> In q c)
  /\ (forall q, In q w -> In q c)
  /\ (forall q, In q b -> In q c)
  /\ (forall q, In q p -> ~ In q w)
  /\ (forall q, In q p -> ~ In q b)
  /\ (forall q, In q w -> ~ In q b).
Definition part4 (c p w b : list Z) : Prop :=
  wpart4 c p w b /\ (forall q, In q c -> In q p \/ In q w \/ In q b).

Definition wpart4b (c p w b : list Z) : bool :=
  nodupb c && nodupb p && nodupb w && nodupb b
  && subsetb p c && subsetb w c && subsetb b c && disjointb p w && disjointb p b && disjointb w b.
Definition part4b (c p w b : list Z) : bool :=
  wpart4b c p w b && forallb (fun q => memZ q p || memZ q w || memZ q b) c.

Definition partition_ok (x : gview) : Prop :=
  part4 (v_children x) (v_pending x) (v_waiting x) (v_bound x).
Definition part_okb (x : gview) : bool :=
  part4b (v_children x) (v_pending x) (v_waiting x) (v_bound x).

(* "exactly one of the pending, waiting or bound sets" *)
Definition exactly_one (x : gview) (p : Z) : Prop :=
  (In p (v_pending x) /\ ~ In p (v_waiting x) /\ ~ In p (v_bound x))
  \/ (~ In p (v_pending x) /\ In p (v_waiting x) /\ ~ In p (v_bound x))
  \/ (~ In p (v_pending x) /\ ~ In p (v_waiting x) /\ In p (v_bound x)).

Definition all_part_okb (v : sview) : bool := forallb (fun kv => part_okb (snd kv)) (sv_gangs v).
Definition all_partition_ok (v : sview) : Prop := forall g x, In (g, x) (sv_gangs v) -> partition_ok x.

(* outside the scheduling framework's protocol: a Permit for a pod that the cache holds as bound
   (an assigned pod is never scheduled again), and a Permit / PostBind for a pod that is not a child
   of its gang at that moment (never added, or deleted while its scheduling cycle was in flight) *)
Definition permit_guard_viol (h : hdr) (prev : sview) (o : op) : bool :=
  match o with
  | Permit p => match vget prev (gang_of h p) with
                | Some x => memZ p (v_bound x) || negb (memZ p (v_children x))
                | None => false end
  | PostBind p => match vget prev (gang_of h p) with
                  | Some x => negb (memZ p (v_children x))
                  | None => false end
  | _ => false
  end.

(* ---------- clause 2: a gang has its minimum number of members holding resources ---------- *)
Definition valid_for_permit (x : gview) : Prop :=
  v_init x = true /\
  ((v_policy x = pol_only_waiting /\ v_min x <= lenZ (v_waiting x))
   \/ (v_policy x = pol_waiting_and_running /\ v_min x <= lenZ (v_waiting x) + lenZ (v_bound x))
   \/ (v_policy x <> pol_only_waiting /\ v_policy x <> pol_waiting_and_running
       /\ (v_min x <= lenZ (v_waiting x) \/ v_sat x = true))).

Definition validb (x : gview) : bool :=
  v_init x &&
  (if v_policy x =? pol_only_waiting then v_min x <=? lenZ (v_waiting x)
   else if v_policy x =? pol_waiting_and_running then v_min x <=? lenZ (v_waiting x) + lenZ (v_bound x)
   else (v_min x <=? lenZ (v_waiting x)) || v_sat x).

(* the same, counting only the members that really are children of the gang *)
Definition real_members (x : gview) : gview :=
  mkGview (v_init x) (v_strict x) (v_policy x) (v_min x) (v_group x) (v_crd x) (v_sat x) (v_children x)
          (v_pending x) (filter (fun q => memZ q (v_children x)) (v_waiting x))
          (filter (fun q => memZ q (v_children x)) (v_bound x)).
Definition group_valid_real (v : sview) (grp : list Z) : Prop :=
  forall g', In g' grp -> exists y, vget v g' = Some y /\ valid_for_permit (real_members y).
Definition group_validb_real (v : sview) (grp : list Z) : bool :=
  forallb (fun g' => match vget v g' with Some y => validb (real_members y) | None => false end) grp.

Definition group_valid (v : sview) (grp : list Z) : Prop :=
  forall g', In g' grp -> exists y, vget v g' = Some y /\ valid_for_permit y.
Definition group_validb (v : sview) (grp : list Z) : bool :=
  forallb (fun g' => match vget v g' with Some y => validb y | None => false end) grp.

(* strict mode, and not (once-satisfied policy and already satisfied) *)
Definition must_reject (x : gview) : bool :=
  v_strict x && negb ((v_policy x =? pol_once_satisfied) && v_sat x).

Definition members (h : hdr) (grp fw : list Z) : list Z := filter (in_group h grp) fw.
Definition others (h : hdr) (grp fw : list Z) : list Z := filter (fun q => negb (in_group h grp q)) fw.

(* ---------- per-operation decision ---------- *)
Definition quiet (r : out) (cur : sview) (fw' : list Z) : bool :=
  is_nil (o_rejected r) && set_eqb (sv_fw cur) fw'.

Definition check_permit (h : hdr) (strict : bool) (prev : sview) (p : Z) (r : out) (cur : sview) : Z :=
  let g := gang_of h p in
  match (if g =? 0 then None else vget cur g) with
  | None =>
      if negb (is_nil (o_allowed r)) then 2
      else if negb (is_nil (o_rejected r)) then 4
      else if negb (o_res r =? (if g =? 0 then res_not_specified else res_not_found)) then 5
      else if set_eqb (sv_fw cur) (sv_fw prev) then 0 else 7
  | Some x =>
      if negb (is_nil (o_rejected r)) then 4
      else if o_res r =? res_success then
        if negb (group_validb cur (v_group x)) then 2
        else if strict && negb (group_validb_real cur (v_group x)) then 2
        else if set_eqb (o_allowed r) (members h (v_group x) (sv_fw prev))
                && set_eqb (sv_fw cur) (others h (v_group x) (sv_fw prev)) then 0 else 3
      else if o_res r =? res_wait then
        if negb (is_nil (o_allowed r)) then 2
        else if group_validb cur (v_group x) then 6
        else if set_eqb (sv_fw cur) (p :: sv_fw prev) then 0 else 3
      else 5
  end.

(* Unreserve ([unres] = true: the framework first drops the pod from its waiting map) and AfterPostFilter *)
Definition check_rollback (h : hdr) (unres : bool) (prev : sview) (p : Z) (r : out) (cur : sview) : Z :=
  let g := gang_of h p in
  let fw' := if unres then srem p (sv_fw prev) else sv_fw prev in
  if negb (is_nil (o_allowed r)) then 2
  else if negb (o_res r =? 0) then 5
  else match (if g =? 0 then None else vget cur g) with
  | None => if quiet r cur fw' then 0 else 4
  | Some x =>
      if must_reject x
      then if set_eqb (o_rejected r) (members h (v_group x) fw')
              && set_eqb (sv_fw cur) (others h (v_group x) fw') then 0 else 4
      else if quiet r cur fw' then 0 else 4
  end.

Definition check_event (prev : sview) (r : out) (cur : sview) : Z :=
  if negb (is_nil (o_allowed r)) then 2
  else if negb (is_nil (o_rejected r)) then 4
  else if negb (o_res r =? 0) then 5
  else if set_eqb (sv_fw cur) (sv_fw prev) then 0 else 7.

Definition check_op (h : hdr) (strict : bool) (prev : sview) (o : op) (r : out) (cur : sview) : Z :=
  match o with
  | Permit p => check_permit h strict prev p r cur
  | Unreserve p => check_rollback h true prev p r cur
  | AfterPostFilter p => check_rollback h false prev p r cur
  | _ => check_event prev r cur
  end.

Definition step_code (h : hdr) (tainted : bool) (prev : sview) (o : op) (r : out) (cur : sview) : Z :=
  if negb tainted && negb (all_part_okb cur) then 1 else check_op h (negb tainted) prev o r cur.

Fixpoint prop_walk (h : hdr) (tainted : bool) (prev : sview) (ops : list op) (l : list obs) : Z :=
  match ops, l with
  | [], [] => 0
  | o :: ops', (r, cur) :: l' =>
      let tainted' := tainted || permit_guard_viol h prev o in
      let c := step_code h tainted' prev o r cur in
      if c =? 0 then prop_walk h tainted' cur ops' l' else c
  | _, _ => 9
  end.

Definition prop_code (h : hdr) (ops : list op) (l : list obs) : Z :=
  prop_walk h false (view init_state) ops l.

(* ---------- the same as Props ---------- *)
Definition same_set (a b : list Z) : Prop := forall x, In x a <-> In x b.

(* the Permit clause: released only when the whole group qualifies, then everybody is released;
   otherwise the pod waits *)
Definition permit_holds (h : hdr) (strict : bool) (prev : sview) (p : Z) (r : out) (cur : sview) : Prop :=
  o_rejected r = [] /\
  match (if gang_of h p =? 0 then None else vget cur (gang_of h p)) with
  | None => o_allowed r = [] /\ o_res r <> res_success /\ o_res r <> res_wait
            /\ same_set (sv_fw cur) (sv_fw prev)
  | Some x =>
      (o_res r = res_success /\ group_valid cur (v_group x)
       /\ (strict = true -> group_valid_real cur (v_group x))
       /\ same_set (o_allowed r) (members h (v_group x) (sv_fw prev))
       /\ same_set (sv_fw cur) (others h (v_group x) (sv_fw prev)))
      \/ (o_res r = res_wait /\ ~ group_valid cur (v_group x) /\ o_allowed r = []
          /\ same_set (sv_fw cur) (p :: sv_fw prev))
  end.

(* the roll-back clause: strict mode rejects every waiting member of the group *)
Definition rollback_holds (h : hdr) (unres : bool) (prev : sview) (p : Z) (r : out) (cur : sview) : Prop :=
  let fw' := if unres then srem p (sv_fw prev) else sv_fw prev in
  o_allowed r = [] /\
  match (if gang_of h p =? 0 then None else vget cur (gang_of h p)) with
  | None => o_rejected r = [] /\ same_set (sv_fw cur) fw'
  | Some x =>
      if must_reject x
      then same_set (o_rejected r) (members h (v_group x) fw')
           /\ same_set (sv_fw cur) (others h (v_group x) fw')
      else o_rejected r = [] /\ same_set (sv_fw cur) fw'
  end.

Definition event_holds (prev : sview) (r : out) (cur : sview) : Prop :=
  o_allowed r = [] /\ o_rejected r = [] /\ same_set (sv_fw cur) (sv_fw prev).

Definition op_holds (h : hdr) (strict : bool) (prev : sview) (o : op) (r : out) (cur : sview) : Prop :=
  match o with
  | Permit p => permit_holds h strict prev p r cur
  | Unreserve p => rollback_holds h true prev p r cur
  | AfterPostFilter p => rollback_holds h false prev p r cur
  | _ => event_holds prev r cur
  end.

Fixpoint holds_walk (h : hdr) (tainted : bool) (prev : sview) (ops : list op) (l : list obs) : Prop :=
  match ops, l with
  | [], [] => True
  | o :: ops', (r, cur) :: l' =>
      let tainted' := tainted || permit_guard_viol h prev o in
      (tainted' = false -> all_partition_ok cur)
      /\ op_holds h (negb tainted') prev o r cur
      /\ holds_walk h tainted' cur ops' l'
  | _, _ => False
  end.

Definition C04_holds (h : hdr) (ops : list op) (l : list obs) : Prop :=
  holds_walk h false (view init_state) ops l.
