(* C04 — the property as Props over (history, observations) and its decision procedure
   [prop_code] (0 = holds; otherwise the number of the first failing clause).

   An observation is what the harness logs after every operation: the Permit result, the
   Allow / Reject calls the framework handle saw, the framework's waiting map, and for every
   gang in the cache its GetGangSummary projection ([gview]).

   clause 1  partition        every gang: pending, waiting and bound ⊆ children (only current members
                              are in the sets), pairwise disjoint, every child in one of them, no
                              duplicates — checked as long as the history is protocol conformant (no
                              Permit for a bound pod, no Permit / PostBind for a pod that is not a
                              child; see [permit_guard_viol])
   clause 2  release safety   Allow calls only in a Permit that returns Success, and Success only
                              when every gang of the pod's gang group exists and is valid for permit
                              — as the code counts, and (conformant histories) counting only the
                              waiting / bound pods that really are children of the gang
   clause 3  allow all        on Success exactly the framework-waiting pods of the group's gangs are
                              allowed; on Wait the pod is parked
   clause 4  strict reject    Unreserve / AfterPostFilter of a strict, non-exempt gang rejects exactly
                              the framework-waiting pods of the group's gangs; nothing else rejects
   clause 5  result code      NotSpecified / NotFound exactly when the pod names no gang / the gang
                              is not in the cache
   clause 6  otherwise waits  Permit returns Wait only when some gang of the group is not valid
   clause 7  frame            informer events and PostBind do not touch the framework's waiting map
   clause 8  declaration      after every op the gangs in the cache are exactly the gangs declared by
                              the informer events so far, with the declared mode / policy / minimum /
                              gang group / origin and member set ([decl_step], recomputed from the
                              history, not read from the cache) — so clauses 2-6 are judged against
                              the declared group and minimum
   clause 9  group records    after every op the cache's gang-group records (gangGroupInfoMap), the
                              record every gang is wired to and its once-satisfied flag are the ones
                              recomputed from the history ([rec_step]: a record is born unsatisfied when
                              the first gang attaches under its group id, is marked by a bind of a gang
                              wired to it, and leaves the map with the last gang of the group) — so
                              "not yet satisfied" in clauses 2-6 is the history's, not the cache's *)
From Coq Require Import List ZArith Bool.
From Verif Require Import C04.Model.
Import ListNotations.
Open Scope Z_scope.

Definition vget (v : sview) (g : Z) : option gview := assocZ g (sv_gangs v).

Definition subsetb (a b : list Z) : bool := forallb (fun x => memZ x b) a.
Definition set_eqb (a b : list Z) : bool := subsetb a b && subsetb b a.
Definition same_set0 (a b : list Z) : Prop := forall x, In x a <-> In x b.
Definition disjointb (a b : list Z) : bool := forallb (fun x => negb (memZ x b)) a.
Fixpoint nodupb (l : list Z) : bool :=
  match l with [] => true | x :: t => negb (memZ x t) && nodupb t end.

(* ---------- clause 1: the membership partition ---------- *)
(* [wpart4]: what every single lock-protected section preserves; [part4] adds that every child
   is in one of the three sets, which holds between entry points *)
Definition wpart4 (c p w b : list Z) : Prop :=
  NoDup c /\ NoDup p /\ NoDup w /\ NoDup b
  /\ (forall q, In q p -> In q c)
  /\ (forall q, In q w -> In q c)
  /\ (forall q, In q b -> In q c)
  /\ (forall q, In q p -> ~ In q w)
  /\ (forall q, In q p -> ~ In q b)
  /\ (forall q, In q w -> ~ In q b).
Definition part4 (c p w b : list Z) : Prop :=
  wpart4 c p w b /\ (forall q, In q c -> In q p \/ In q w \/ In q b).

Definition wpart4b (c p w b : list Z) : bool :=
  nodupb c && nodupb p && nodupb w && nodupb b
  && subsetb p c && subsetb w c && subsetb b c && disjointb p w && disjointb p b && disjointb w b.
Definition part4b (c p w b : list Z) : bool :=
  wpart4b c p w b && forallb (fun q => memZ q p || memZ q w || memZ q b) c.

Definition partition_ok (x : gview) : Prop :=
  part4 (v_children x) (v_pending x) (v_waiting x) (v_bound x).
Definition part_okb (x : gview) : bool :=
  part4b (v_children x) (v_pending x) (v_waiting x) (v_bound x).

(* "exactly one of the pending, waiting or bound sets" *)
Definition exactly_one (x : gview) (p : Z) : Prop :=
  (In p (v_pending x) /\ ~ In p (v_waiting x) /\ ~ In p (v_bound x))
  \/ (~ In p (v_pending x) /\ In p (v_waiting x) /\ ~ In p (v_bound x))
  \/ (~ In p (v_pending x) /\ ~ In p (v_waiting x) /\ In p (v_bound x)).

Definition all_part_okb (v : sview) : bool := forallb (fun kv => part_okb (snd kv)) (sv_gangs v).
Definition all_partition_ok (v : sview) : Prop := forall g x, In (g, x) (sv_gangs v) -> partition_ok x.

(* outside the scheduling framework's protocol: a Permit for a pod that the cache holds as bound
   (an assigned pod is never scheduled again), and a Permit / PostBind for a pod that is not a child
   of its gang at that moment (never added, or deleted while its scheduling cycle was in flight) *)
Definition permit_guard_viol (h : hdr) (prev : sview) (o : op) : bool :=
  match o with
  | Permit p => match vget prev (gang_of h p) with
                | Some x => memZ p (v_bound x) || negb (memZ p (v_children x))
                | None => false end
  | PostBind p => match vget prev (gang_of h p) with
                  | Some x => negb (memZ p (v_children x))
                  | None => false end
  | _ => false
  end.

(* ---------- clause 2: a gang has its minimum number of members holding resources ---------- *)
Definition valid_for_permit (x : gview) : Prop :=
  v_init x = true /\
  ((v_policy x = pol_only_waiting /\ v_min x <= lenZ (v_waiting x))
   \/ (v_policy x = pol_waiting_and_running /\ v_min x <= lenZ (v_waiting x) + lenZ (v_bound x))
   \/ (v_policy x <> pol_only_waiting /\ v_policy x <> pol_waiting_and_running
       /\ (v_min x <= lenZ (v_waiting x) \/ v_sat x = true))).

Definition validb (x : gview) : bool :=
  v_init x &&
  (if v_policy x =? pol_only_waiting then v_min x <=? lenZ (v_waiting x)
   else if v_policy x =? pol_waiting_and_running then v_min x <=? lenZ (v_waiting x) + lenZ (v_bound x)
   else (v_min x <=? lenZ (v_waiting x)) || v_sat x).

(* the same, counting only the members that really are children of the gang *)
Definition real_members (x : gview) : gview :=
  mkGview (v_init x) (v_strict x) (v_policy x) (v_min x) (v_group x) (v_crd x) (v_sat x) (v_children x)
          (v_pending x) (filter (fun q => memZ q (v_children x)) (v_waiting x))
          (filter (fun q => memZ q (v_children x)) (v_bound x)).
Definition group_valid_real (v : sview) (grp : list Z) : Prop :=
  forall g', In g' grp -> exists y, vget v g' = Some y /\ valid_for_permit (real_members y).
Definition group_validb_real (v : sview) (grp : list Z) : bool :=
  forallb (fun g' => match vget v g' with Some y => validb (real_members y) | None => false end) grp.

Definition group_valid (v : sview) (grp : list Z) : Prop :=
  forall g', In g' grp -> exists y, vget v g' = Some y /\ valid_for_permit y.
Definition group_validb (v : sview) (grp : list Z) : bool :=
  forallb (fun g' => match vget v g' with Some y => validb y | None => false end) grp.

(* strict mode, and not (once-satisfied policy and already satisfied) *)
Definition must_reject (x : gview) : bool :=
  v_strict x && negb ((v_policy x =? pol_once_satisfied) && v_sat x).

Definition members (h : hdr) (grp fw : list Z) : list Z := filter (in_group h grp) fw.
Definition others (h : hdr) (grp fw : list Z) : list Z := filter (fun q => negb (in_group h grp q)) fw.

(* ---------- clause 8: what a gang IS, recomputed from the history ----------
   The declaration of a gang (initialised, mode, match policy, minimum, gang group, origin) and its
   member set are a function of the informer events alone: a gang appears with the first pod or
   PodGroup event that names it; annotation pods declare it once, while it is undeclared; every
   PodGroup add / update event re-declares it; it disappears with its PodGroup's delete event, or
   (no PodGroup declaration) with its last member. [decl_step] tracks exactly that, independently of
   the cache's own bookkeeping, and the observed gangs are judged against it after every op. *)
Record decl := mkDecl {
  d_init : bool; d_strict : bool; d_policy : Z; d_min : Z; d_group : list Z; d_crd : bool;
  d_children : list Z }.
Notation dstate := (list (Z * decl)).

Definition decl0 (g : Z) : decl := mkDecl false true pol_once_satisfied 0 [g] false [].
Definition decl_cfg (g : Z) (c : cfg) (crd : bool) (d : decl) : decl :=
  mkDecl true (norm_strict (c_mode c)) (norm_policy (c_policy c)) (c_min c) (norm_group g (c_group c)) crd
         (d_children d).
Definition decl_children (d : decl) (c : list Z) : decl :=
  mkDecl (d_init d) (d_strict d) (d_policy d) (d_min d) (d_group d) (d_crd d) c.
Definition decl_get (ds : dstate) (g : Z) : decl :=
  match assocZ g ds with Some d => d | None => decl0 g end.

Definition decl_pod (h : hdr) (ds : dstate) (p : Z) : dstate :=
  let g := gang_of h p in
  if g =? 0 then ds else
  let d := decl_get ds g in
  let d1 := if has_label h p || d_init d then d else decl_cfg g (acfg_of h g) false d in
  putZ g (decl_children d1 (sadd p (d_children d1))) ds.

Definition decl_step (h : hdr) (ds : dstate) (o : op) : dstate :=
  match o with
  | PodAdd p _ => decl_pod h ds p
  | PodUpdate p _ terminated => if terminated then ds else decl_pod h ds p
  | PodDelete p =>
      let g := gang_of h p in
      if g =? 0 then ds else
      match assocZ g ds with
      | None => ds
      | Some d =>
          let d' := decl_children d (srem p (d_children d)) in
          if negb (d_crd d') && is_nil (d_children d') then delZ g ds else putZ g d' ds
      end
  | PGAdd g c => if valid_gid h g then putZ g (decl_cfg g c true (decl_get ds g)) ds else ds
  | PGUpdate g c =>
      if valid_gid h g
      then match assocZ g ds with Some d => putZ g (decl_cfg g c true d) ds | None => ds end
      else ds
  | PGDelete g =>
      if valid_gid h g
      then match assocZ g ds with Some _ => delZ g ds | None => ds end
      else ds
  | _ => ds
  end.

Definition decl_agrees (d : decl) (x : gview) : Prop :=
  d_init d = v_init x /\ d_strict d = v_strict x /\ d_policy d = v_policy x /\ d_min d = v_min x
  /\ same_set0 (d_group d) (v_group x) /\ d_crd d = v_crd x /\ same_set0 (d_children d) (v_children x).
Definition decl_agreesb (d : decl) (x : gview) : bool :=
  Bool.eqb (d_init d) (v_init x) && Bool.eqb (d_strict d) (v_strict x) && (d_policy d =? v_policy x)
  && (d_min d =? v_min x) && set_eqb (d_group d) (v_group x) && Bool.eqb (d_crd d) (v_crd x)
  && set_eqb (d_children d) (v_children x).

Definition decl_match_at (ds : dstate) (v : sview) (g : Z) : Prop :=
  match assocZ g ds, vget v g with
  | Some d, Some x => decl_agrees d x
  | None, None => True
  | _, _ => False
  end.
Definition decl_match_atb (ds : dstate) (v : sview) (g : Z) : bool :=
  match assocZ g ds, vget v g with
  | Some d, Some x => decl_agreesb d x
  | None, None => true
  | _, _ => false
  end.
(* the gangs in the cache are exactly the declared ones, with the declared figures and members *)
Definition decl_match (ds : dstate) (v : sview) : Prop := forall g, decl_match_at ds v g.
Definition decl_matchb (ds : dstate) (v : sview) : bool :=
  forallb (decl_match_atb ds v) (map fst ds ++ map fst (sv_gangs v)).

(* ---------- clause 9: the gang-group records, recomputed from the history ----------
   A GangGroupInfo record carries the sticky once-satisfied flag shared by the gangs of a group.
   [rec_step] tracks, from the operations alone (plus the declarations tracked by [decl_step] and the
   pending set of the previous observation for the "nothing to activate" early return of
   onPodGroupAdd/Update), which record every gang is wired to, which records the cache's map holds
   under which group id, and which records have seen a bind. Records are numbered by creation. *)
Record rstate := mkR { r_ptr : list (Z * nat); r_infos : list info; r_gmap : list (list Z * nat) }.
Definition rstate0 : rstate := mkR [] [] [].
Definition r_info (rs : rstate) (r : nat) : info := nth r (r_infos rs) placeholder.

(* a gang that enters the cache starts with a private, uninitialised record *)
Definition r_ensure (g : Z) (rs : rstate) : rstate :=
  match assocZ g (r_ptr rs) with
  | Some _ => rs
  | None => mkR (putZ g (length (r_infos rs)) (r_ptr rs)) (r_infos rs ++ [placeholder]) (r_gmap rs)
  end.

(* the record of group id [key] is looked up (created unsatisfied when the map has none); the gang
   is wired to it unless it is already wired to an initialised record *)
Definition r_attach (g : Z) (key : list Z) (rs : rstate) : rstate :=
  match assocZ g (r_ptr rs) with
  | None => rs
  | Some r0 =>
      let '(rs1, r) :=
        match assocL key (r_gmap rs) with
        | Some r => (rs, r)
        | None => let r := length (r_infos rs) in
                  (mkR (r_ptr rs) (r_infos rs ++ [mkInfo true key false]) ((key, r) :: r_gmap rs), r)
        end in
      if i_initd (r_info rs1 r0) then rs1 else mkR (putZ g r (r_ptr rs1)) (r_infos rs1) (r_gmap rs1)
  end.

(* a bind of a member marks the record the gang is wired to *)
Definition r_setsat (g : Z) (rs : rstate) : rstate :=
  match assocZ g (r_ptr rs) with
  | Some r => mkR (r_ptr rs) (upd_nth r (fun i => mkInfo (i_initd i) (i_key i) true) (r_infos rs)) (r_gmap rs)
  | None => rs
  end.

(* gang [g] (declaration [d]) leaves the cache; when no gang of its declared group is left, the
   record it was wired to leaves the map *)
Definition r_drop (ds : dstate) (g : Z) (d : decl) (rs : rstate) : rstate :=
  match assocZ g (r_ptr rs) with
  | None => rs
  | Some r =>
      let absent g' := (g' =? g) || match assocZ g' ds with None => true | Some _ => false end in
      mkR (delZ g (r_ptr rs)) (r_infos rs)
          (if forallb absent (d_group d) then delL (i_key (r_info rs r)) (r_gmap rs) else r_gmap rs)
  end.

Definition pending_of (prev : sview) (g : Z) : list Z :=
  match vget prev g with Some x => v_pending x | None => [] end.

Definition rec_pod (h : hdr) (ds : dstate) (rs : rstate) (p : Z) (node : bool) : rstate :=
  let g := gang_of h p in
  if g =? 0 then rs else
  let rs1 := r_ensure g rs in
  let rs2 := if has_label h p then rs1
             else let d := decl_get ds g in
                  r_attach g (if d_init d then d_group d else norm_group g (c_group (acfg_of h g))) rs1 in
  if node then r_setsat g rs2 else rs2.

(* [ds]: the declarations BEFORE the op *)
Definition rec_step (h : hdr) (prev : sview) (ds : dstate) (rs : rstate) (o : op) : rstate :=
  match o with
  | PodAdd p node => rec_pod h ds rs p node
  | PodUpdate p node terminated => if terminated then rs else rec_pod h ds rs p node
  | PodDelete p =>
      let g := gang_of h p in
      if g =? 0 then rs else
      match assocZ g ds with
      | None => rs
      | Some d =>
          let d' := decl_children d (srem p (d_children d)) in
          if negb (d_crd d') && is_nil (d_children d') then r_drop ds g d rs else rs
      end
  | PGAdd g c =>
      if valid_gid h g then
        let rs1 := r_ensure g rs in
        if (c_min c <=? lenZ (d_children (decl_get ds g))) && is_nil (pending_of prev g) then rs1
        else r_attach g (norm_group g (c_group c)) rs1
      else rs
  | PGUpdate g c =>
      if valid_gid h g then
        match assocZ g ds with
        | None => rs
        | Some d0 =>
            let n := lenZ (d_children d0) in
            if negb (d_init d0 && (d_min d0 <=? n)) && (c_min c <=? n) && is_nil (pending_of prev g) then rs
            else r_attach g (norm_group g (c_group c)) rs
        end
      else rs
  | PGDelete g =>
      if valid_gid h g then match assocZ g ds with Some d => r_drop ds g d rs | None => rs end else rs
  | PostBind p => let g := gang_of h p in if g =? 0 then rs else r_setsat g rs
  | _ => rs
  end.

(* what the tracker expects to see *)
Definition r_recs (rs : rstate) : list (list Z * bool) :=
  map (fun kr => (fst kr, i_sat (r_info rs (snd kr)))) (r_gmap rs).
Definition r_sat (rs : rstate) (g : Z) : option bool := option_map (fun r => i_sat (r_info rs r)) (assocZ g (r_ptr rs)).
Definition r_wire (rs : rstate) (g : Z) : option (list Z * bool) :=
  option_map (fun r => (i_key (r_info rs r), i_initd (r_info rs r))) (assocZ g (r_ptr rs)).

Definition rec_eqb (a b : list Z * bool) : bool := list_eqb (fst a) (fst b) && Bool.eqb (snd a) (snd b).
Definition rec_inb (a : list Z * bool) (l : list (list Z * bool)) : bool := existsb (rec_eqb a) l.
Definition recs_eqb (a b : list (list Z * bool)) : bool :=
  forallb (fun e => rec_inb e b) a && forallb (fun e => rec_inb e a) b.
Definition opt_rec_eqb (a b : option (list Z * bool)) : bool :=
  match a, b with Some x, Some y => rec_eqb x y | None, None => true | _, _ => false end.

Definition gang_rec_okb (rs : rstate) (v : sview) (g : Z) : bool :=
  match vget v g with
  | None => true
  | Some x =>
      match r_sat rs g with
      | Some b => Bool.eqb (v_sat x) b && opt_rec_eqb (assocZ g (sv_wire v)) (r_wire rs g)
      | None => false
      end
  end.
Definition rec_matchb (rs : rstate) (v : sview) : bool :=
  recs_eqb (r_recs rs) (sv_recs v) && forallb (gang_rec_okb rs v) (map fst (sv_gangs v)).

(* the map holds exactly the tracked records with the tracked flags; every gang in the cache shows the
   flag of, and is wired to, the tracked record *)
Definition rec_match (rs : rstate) (v : sview) : Prop :=
  (forall e, In e (r_recs rs) <-> In e (sv_recs v))
  /\ forall g x, vget v g = Some x ->
       r_sat rs g = Some (v_sat x) /\ assocZ g (sv_wire v) = r_wire rs g.

(* ---------- per-operation decision ---------- *)
Definition quiet (r : out) (cur : sview) (fw' : list Z) : bool :=
  is_nil (o_rejected r) && set_eqb (sv_fw cur) fw'.

Definition check_permit (h : hdr) (strict : bool) (prev : sview) (p : Z) (r : out) (cur : sview) : Z :=
  let g := gang_of h p in
  match (if g =? 0 then None else vget cur g) with
  | None =>
      if negb (is_nil (o_allowed r)) then 2
      else if negb (is_nil (o_rejected r)) then 4
      else if negb (o_res r =? (if g =? 0 then res_not_specified else res_not_found)) then 5
      else if set_eqb (sv_fw cur) (sv_fw prev) then 0 else 7
  | Some x =>
      if negb (is_nil (o_rejected r)) then 4
      else if o_res r =? res_success then
        if negb (group_validb cur (v_group x)) then 2
        else if strict && negb (group_validb_real cur (v_group x)) then 2
        else if set_eqb (o_allowed r) (members h (v_group x) (sv_fw prev))
                && set_eqb (sv_fw cur) (others h (v_group x) (sv_fw prev)) then 0 else 3
      else if o_res r =? res_wait then
        if negb (is_nil (o_allowed r)) then 2
        else if group_validb cur (v_group x) then 6
        else if set_eqb (sv_fw cur) (p :: sv_fw prev) then 0 else 3
      else 5
  end.

(* Unreserve ([unres] = true: the framework first drops the pod from its waiting map) and AfterPostFilter *)
Definition check_rollback (h : hdr) (unres : bool) (prev : sview) (p : Z) (r : out) (cur : sview) : Z :=
  let g := gang_of h p in
  let fw' := if unres then srem p (sv_fw prev) else sv_fw prev in
  if negb (is_nil (o_allowed r)) then 2
  else if negb (o_res r =? 0) then 5
  else match (if g =? 0 then None else vget cur g) with
  | None => if quiet r cur fw' then 0 else 4
  | Some x =>
      if must_reject x
      then if set_eqb (o_rejected r) (members h (v_group x) fw')
              && set_eqb (sv_fw cur) (others h (v_group x) fw') then 0 else 4
      else if quiet r cur fw' then 0 else 4
  end.

Definition check_event (prev : sview) (r : out) (cur : sview) : Z :=
  if negb (is_nil (o_allowed r)) then 2
  else if negb (is_nil (o_rejected r)) then 4
  else if negb (o_res r =? 0) then 5
  else if set_eqb (sv_fw cur) (sv_fw prev) then 0 else 7.

Definition check_op (h : hdr) (strict : bool) (prev : sview) (o : op) (r : out) (cur : sview) : Z :=
  match o with
  | Permit p => check_permit h strict prev p r cur
  | Unreserve p => check_rollback h true prev p r cur
  | AfterPostFilter p => check_rollback h false prev p r cur
  | _ => check_event prev r cur
  end.

Definition step_code (h : hdr) (tainted : bool) (ds : dstate) (rs : rstate) (prev : sview) (o : op) (r : out) (cur : sview) : Z :=
  if negb tainted && negb (all_part_okb cur) then 1
  else if negb (decl_matchb ds cur) then 8
  else if negb (rec_matchb rs cur) then 9
  else check_op h (negb tainted) prev o r cur.

(* [ds], [rs]: the declarations / group records after the ops walked so far; [prev]: the previous
   observation. 10 = the observation list does not have one entry per op *)
Fixpoint prop_walk (h : hdr) (tainted : bool) (ds : dstate) (rs : rstate) (prev : sview) (ops : list op) (l : list obs) : Z :=
  match ops, l with
  | [], [] => 0
  | o :: ops', (r, cur) :: l' =>
      let tainted' := tainted || permit_guard_viol h prev o in
      let ds' := decl_step h ds o in
      let rs' := rec_step h prev ds rs o in
      let c := step_code h tainted' ds' rs' prev o r cur in
      if c =? 0 then prop_walk h tainted' ds' rs' cur ops' l' else c
  | _, _ => 10
  end.

Definition prop_code (h : hdr) (ops : list op) (l : list obs) : Z :=
  prop_walk h false [] rstate0 (view init_state) ops l.

(* ---------- the same as Props ---------- *)
Notation same_set := same_set0.

(* the Permit clause: released only when the whole group qualifies, then everybody is released;
   otherwise the pod waits *)
Definition permit_holds (h : hdr) (strict : bool) (prev : sview) (p : Z) (r : out) (cur : sview) : Prop :=
  o_rejected r = [] /\
  match (if gang_of h p =? 0 then None else vget cur (gang_of h p)) with
  | None => o_allowed r = [] /\ o_res r <> res_success /\ o_res r <> res_wait
            /\ same_set (sv_fw cur) (sv_fw prev)
  | Some x =>
      (o_res r = res_success /\ group_valid cur (v_group x)
       /\ (strict = true -> group_valid_real cur (v_group x))
       /\ same_set (o_allowed r) (members h (v_group x) (sv_fw prev))
       /\ same_set (sv_fw cur) (others h (v_group x) (sv_fw prev)))
      \/ (o_res r = res_wait /\ ~ group_valid cur (v_group x) /\ o_allowed r = []
          /\ same_set (sv_fw cur) (p :: sv_fw prev))
  end.

(* the roll-back clause: strict mode rejects every waiting member of the group *)
Definition rollback_holds (h : hdr) (unres : bool) (prev : sview) (p : Z) (r : out) (cur : sview) : Prop :=
  let fw' := if unres then srem p (sv_fw prev) else sv_fw prev in
  o_allowed r = [] /\
  match (if gang_of h p =? 0 then None else vget cur (gang_of h p)) with
  | None => o_rejected r = [] /\ same_set (sv_fw cur) fw'
  | Some x =>
      if must_reject x
      then same_set (o_rejected r) (members h (v_group x) fw')
           /\ same_set (sv_fw cur) (others h (v_group x) fw')
      else o_rejected r = [] /\ same_set (sv_fw cur) fw'
  end.

Definition event_holds (prev : sview) (r : out) (cur : sview) : Prop :=
  o_allowed r = [] /\ o_rejected r = [] /\ same_set (sv_fw cur) (sv_fw prev).

Definition op_holds (h : hdr) (strict : bool) (prev : sview) (o : op) (r : out) (cur : sview) : Prop :=
  match o with
  | Permit p => permit_holds h strict prev p r cur
  | Unreserve p => rollback_holds h true prev p r cur
  | AfterPostFilter p => rollback_holds h false prev p r cur
  | _ => event_holds prev r cur
  end.

Fixpoint holds_walk (h : hdr) (tainted : bool) (ds : dstate) (rs : rstate) (prev : sview) (ops : list op) (l : list obs) : Prop :=
  match ops, l with
  | [], [] => True
  | o :: ops', (r, cur) :: l' =>
      let tainted' := tainted || permit_guard_viol h prev o in
      let ds' := decl_step h ds o in
      let rs' := rec_step h prev ds rs o in
      (tainted' = false -> all_partition_ok cur)
      /\ decl_match ds' cur
      /\ rec_match rs' cur
      /\ op_holds h (negb tainted') prev o r cur
      /\ holds_walk h tainted' ds' rs' cur ops' l'
  | _, _ => False
  end.

Definition C04_holds (h : hdr) (ops : list op) (l : list obs) : Prop :=
  holds_walk h false [] rstate0 (view init_state) ops l.
