(* C04 — model of the coscheduling gang cache and of the permit / unreserve / post-bind /
   after-post-filter entry points
     pkg/scheduler/plugins/coscheduling/core/{core,gang,gang_cache,ganggroup}.go
     pkg/scheduler/plugins/coscheduling/coscheduling.go (Permit = core Permit + AllowGangGroup).
   Executable, total, no proofs in this file.

   Identifiers: pods and gangs are integers (the harness derives names "ns/pNN", "ns/gNN" from them).
   Sets (Go maps keyed by pod id) are duplicate-free lists; their order is irrelevant.
   GangGroupInfo objects are shared between gangs by pointer in the Go code, so they live in a heap
   ([st_infos], reference = index) and the cache's gangGroupInfoMap maps a group id (the sorted
   list of gang ids) to a reference. *)
From Coq Require Import List ZArith Bool.
Import ListNotations.
Open Scope Z_scope.

(* ---------- finite sets of integers as duplicate-free lists ---------- *)
Fixpoint memZ (x : Z) (l : list Z) : bool :=
  match l with [] => false | y :: t => (x =? y) || memZ x t end.
Definition sadd (x : Z) (l : list Z) : list Z := if memZ x l then l else x :: l.
Definition srem (x : Z) (l : list Z) : list Z := filter (fun y => negb (y =? x)) l.
Definition is_nil {A} (l : list A) : bool := match l with [] => true | _ => false end.
Definition lenZ {A} (l : list A) : Z := Z.of_nat (length l).

Fixpoint list_eqb (a b : list Z) : bool :=
  match a, b with
  | [], [] => true
  | x :: a', y :: b' => (x =? y) && list_eqb a' b'
  | _, _ => false
  end.

(* ---------- objects ---------- *)
(* match policies *)
Definition pol_only_waiting : Z := 0.
Definition pol_waiting_and_running : Z := 1.
Definition pol_once_satisfied : Z := 2.

Record gang := mkGang {
  g_init : bool;          (* HasGangInit *)
  g_strict : bool;        (* Mode = Strict *)
  g_policy : Z;           (* GangMatchPolicy, normalised to 0..2 *)
  g_min : Z;              (* MinRequiredNumber *)
  g_group : list Z;       (* GangGroup (sorted gang ids) *)
  g_crd : bool;           (* GangFrom = GangFromPodGroupCrd *)
  g_info : nat;           (* GangGroupInfo pointer *)
  g_children : list Z;
  g_pending : list Z;
  g_waiting : list Z;     (* WaitingForBindChildren *)
  g_bound : list Z }.

Record info := mkInfo {
  i_initd : bool;         (* Initialized (false for the private placeholder made by NewGang) *)
  i_key : list Z;         (* GangGroupId ([] for the placeholder's "") *)
  i_sat : bool }.         (* OnceResourceSatisfied *)

Record state := mkState {
  st_gangs : list (Z * gang);        (* gangCache.gangItems *)
  st_infos : list info;              (* heap of GangGroupInfo objects *)
  st_gmap : list (list Z * nat);     (* gangCache.gangGroupInfoMap *)
  st_fw : list Z }.                  (* the framework's waiting-pod map *)

Definition init_state : state := mkState [] [] [] [].

(* a gang declaration: annotations of a pod / spec+annotations of a PodGroup *)
Record cfg := mkCfg { c_min : Z; c_mode : Z; c_policy : Z; c_group : list Z }.

(* static part of a case: which gang a pod names and how (label -> PodGroup, or annotations),
   and the declaration carried by the annotation pods of each gang *)
Record hdr := mkHdr {
  h_ngangs : Z;
  h_pods : list (Z * bool);          (* pod i: (gang, has PodGroup label) *)
  h_acfg : list cfg }.               (* gang g: nth (g-1) *)

Definition dflt_cfg : cfg := mkCfg 0 0 2 [].

Definition pod_rec (h : hdr) (p : Z) : Z * bool :=
  if p <? 0 then (0, false) else nth (Z.to_nat p) (h_pods h) (0, false).
(* 0 = the pod names no gang *)
Definition gang_of (h : hdr) (p : Z) : Z :=
  let g := fst (pod_rec h p) in if (1 <=? g) && (g <=? h_ngangs h) then g else 0.
Definition has_label (h : hdr) (p : Z) : bool := snd (pod_rec h p).
Definition acfg_of (h : hdr) (g : Z) : cfg := nth (Z.to_nat (g - 1)) (h_acfg h) dflt_cfg.

Inductive op :=
| PodAdd (p : Z) (node : bool)
| PodUpdate (p : Z) (node : bool) (terminated : bool)
| PodDelete (p : Z)
| PGAdd (g : Z) (c : cfg)
| PGUpdate (g : Z) (c : cfg)
| PGDelete (g : Z)
| Permit (p : Z)
| Unreserve (p : Z)
| PostBind (p : Z)
| AfterPostFilter (p : Z)
| Nop.

(* Permit results *)
Definition res_success : Z := 0.
Definition res_wait : Z := 1.
Definition res_not_found : Z := 2.
Definition res_not_specified : Z := 3.

Record out := mkOut { o_res : Z; o_allowed : list Z; o_rejected : list Z }.
Definition out0 : out := mkOut 0 [] [].

(* ---------- association lists ---------- *)
Fixpoint assocZ {A} (k : Z) (l : list (Z * A)) : option A :=
  match l with [] => None | (k', v) :: t => if k =? k' then Some v else assocZ k t end.
Fixpoint putZ {A} (k : Z) (v : A) (l : list (Z * A)) : list (Z * A) :=
  match l with
  | [] => [(k, v)]
  | (k', v') :: t => if k =? k' then (k, v) :: t else (k', v') :: putZ k v t
  end.
Definition delZ {A} (k : Z) (l : list (Z * A)) : list (Z * A) :=
  filter (fun kv => negb (fst kv =? k)) l.

Fixpoint assocL (k : list Z) (l : list (list Z * nat)) : option nat :=
  match l with [] => None | (k', v) :: t => if list_eqb k k' then Some v else assocL k t end.
Definition delL (k : list Z) (l : list (list Z * nat)) : list (list Z * nat) :=
  filter (fun kv => negb (list_eqb (fst kv) k)) l.

Fixpoint upd_nth {A} (n : nat) (f : A -> A) (l : list A) : list A :=
  match l, n with
  | [], _ => []
  | x :: t, O => f x :: t
  | x :: t, S n' => x :: upd_nth n' f t
  end.

(* ---------- state accessors ---------- *)
Definition placeholder : info := mkInfo false [] false.

Definition get_gang (s : state) (g : Z) : option gang := assocZ g (st_gangs s).
Definition put_gang (s : state) (g : Z) (x : gang) : state :=
  mkState (putZ g x (st_gangs s)) (st_infos s) (st_gmap s) (st_fw s).
Definition del_gang (s : state) (g : Z) : state :=
  mkState (delZ g (st_gangs s)) (st_infos s) (st_gmap s) (st_fw s).
Definition upd_gang (s : state) (g : Z) (f : gang -> gang) : state :=
  match get_gang s g with Some x => put_gang s g (f x) | None => s end.
Definition info_at (s : state) (r : nat) : info := nth r (st_infos s) placeholder.
Definition upd_info (s : state) (r : nat) (f : info -> info) : state :=
  mkState (st_gangs s) (upd_nth r f (st_infos s)) (st_gmap s) (st_fw s).
Definition set_fw (s : state) (fw : list Z) : state :=
  mkState (st_gangs s) (st_infos s) (st_gmap s) fw.
Definition gang_sat (s : state) (x : gang) : bool := i_sat (info_at s (g_info x)).

(* ---------- gang-local transitions (each is one lock-protected section of gang.go) ---------- *)
Definition g_with_sets (x : gang) (c p w b : list Z) : gang :=
  mkGang (g_init x) (g_strict x) (g_policy x) (g_min x) (g_group x) (g_crd x) (g_info x) c p w b.
Definition g_with_info (x : gang) (r : nat) : gang :=
  mkGang (g_init x) (g_strict x) (g_policy x) (g_min x) (g_group x) (g_crd x) r
         (g_children x) (g_pending x) (g_waiting x) (g_bound x).
Definition g_with_cfg (x : gang) (strict : bool) (policy mn : Z) (grp : list Z) (crd : bool) : gang :=
  mkGang true strict policy mn grp crd (g_info x)
         (g_children x) (g_pending x) (g_waiting x) (g_bound x).

(* gang.go:396 setChild *)
Definition g_set_child (p : Z) (node : bool) (x : gang) : gang :=
  g_with_sets x (sadd p (g_children x))
    (if negb node && negb (memZ p (g_waiting x)) && negb (memZ p (g_bound x))
     then sadd p (g_pending x) else g_pending x)
    (g_waiting x) (g_bound x).
(* gang.go:420 addAssumedPod *)
Definition g_add_assumed (p : Z) (x : gang) : gang :=
  g_with_sets x (g_children x) (srem p (g_pending x)) (sadd p (g_waiting x)) (g_bound x).
(* gang.go:432 delAssumedPod *)
Definition g_del_assumed (p : Z) (x : gang) : gang :=
  if memZ p (g_waiting x)
  then g_with_sets x (g_children x)
         (if memZ p (g_children x) then sadd p (g_pending x) else g_pending x)
         (srem p (g_waiting x)) (g_bound x)
  else x.
(* gang.go:492 addBoundPod (set part) *)
Definition g_add_bound (p : Z) (x : gang) : gang :=
  g_with_sets x (g_children x) (srem p (g_pending x)) (srem p (g_waiting x)) (sadd p (g_bound x)).
(* gang.go:278 deletePod (set part) *)
Definition g_delete_pod (p : Z) (x : gang) : gang :=
  g_with_sets x (srem p (g_children x)) (srem p (g_pending x)) (srem p (g_waiting x)) (srem p (g_bound x)).

(* onPodAddInternal: setChild, then addBoundPod when the pod carries a node name *)
Definition g_pod_event (p : Z) (node : bool) (x : gang) : gang :=
  let y := g_set_child p node x in if node then g_add_bound p y else y.

(* NewGang *)
Definition new_gang (g : Z) (r : nat) : gang :=
  mkGang false true pol_once_satisfied 0 [g] false r [] [] [] [].

(* gang.go:557 isGangValidForPermit *)
Definition gang_valid (s : state) (x : gang) : bool :=
  g_init x &&
  (if g_policy x =? pol_only_waiting then g_min x <=? lenZ (g_waiting x)
   else if g_policy x =? pol_waiting_and_running then g_min x <=? lenZ (g_waiting x) + lenZ (g_bound x)
   else (g_min x <=? lenZ (g_waiting x)) || gang_sat s x).

(* isGangWorthRequeue *)
Definition gang_worth (x : gang) : bool := g_init x && (g_min x <=? lenZ (g_children x)).

(* ---------- cache-level helpers ---------- *)
(* getGangFromCacheByGangId(id, true) *)
Definition get_or_create (s : state) (g : Z) : state :=
  match get_gang s g with
  | Some _ => s
  | None =>
      let r := length (st_infos s) in
      mkState (putZ g (new_gang g r) (st_gangs s)) (st_infos s ++ [placeholder]) (st_gmap s) (st_fw s)
  end.

(* getGangGroupInfo(id, group, true) followed by gang.SetGangGroupInfo *)
Definition attach_group_info (s : state) (g : Z) : state :=
  match get_gang s g with
  | None => s
  | Some x =>
      let key := g_group x in
      let '(s1, r) :=
        match assocL key (st_gmap s) with
        | Some r => (s, r)
        | None =>
            let r := length (st_infos s) in
            (mkState (st_gangs s) (st_infos s ++ [mkInfo true key false]) ((key, r) :: st_gmap s) (st_fw s), r)
        end in
      if i_initd (info_at s1 (g_info x)) then s1 else put_gang s1 g (g_with_info x r)
  end.

Definition norm_policy (p : Z) : Z := if (p =? 0) || (p =? 1) then p else pol_once_satisfied.
Definition norm_strict (m : Z) : bool := negb (m =? 1).
Definition norm_group (g : Z) (grp : list Z) : list Z := if is_nil grp then [g] else grp.

(* tryInitByPodConfig: only when the gang has not been initialised *)
Definition init_by_pod (g : Z) (c : cfg) (x : gang) : gang :=
  if g_init x then x
  else g_with_cfg x (norm_strict (c_mode c)) (norm_policy (c_policy c)) (c_min c) (norm_group g (c_group c)) false.
(* tryInitByPodGroup: unconditional *)
Definition init_by_pg (g : Z) (c : cfg) (x : gang) : gang :=
  g_with_cfg x (norm_strict (c_mode c)) (norm_policy (c_policy c)) (c_min c) (norm_group g (c_group c)) true.

Definition set_sat (s : state) (g : Z) : state :=
  match get_gang s g with
  | Some x => upd_info s (g_info x) (fun i => mkInfo (i_initd i) (i_key i) true)
  | None => s
  end.

(* addBoundPod: sets + OnceResourceSatisfied *)
Definition add_bound (s : state) (g p : Z) : state := set_sat (upd_gang s g (g_add_bound p)) g.

(* the tail shared by onPodDelete / onPodGroupDelete: when no gang of x's group is left in the
   cache, the group info x points to is dropped from gangGroupInfoMap *)
Definition drop_group_if_empty (s : state) (x : gang) : state :=
  if forallb (fun g' => match get_gang s g' with None => true | Some _ => false end) (g_group x)
  then mkState (st_gangs s) (st_infos s) (delL (i_key (info_at s (g_info x))) (st_gmap s)) (st_fw s)
  else s.

(* ---------- informer handlers (gang_cache.go) ---------- *)
Definition pod_event (h : hdr) (s : state) (p : Z) (node : bool) : state :=
  let g := gang_of h p in
  if g =? 0 then s else
  let s1 := get_or_create s g in
  let s2 := if has_label h p then s1
            else attach_group_info (upd_gang s1 g (init_by_pod g (acfg_of h g))) g in
  (* setChild, and for a pod that already has a node: addBoundPod + setResourceSatisfied *)
  let s3 := upd_gang s2 g (g_pod_event p node) in
  if node then set_sat (set_sat s3 g) g else s3.

Definition pod_delete (h : hdr) (s : state) (p : Z) : state :=
  let g := gang_of h p in
  if g =? 0 then s else
  match get_gang s g with
  | None => s
  | Some x =>
      let x' := g_delete_pod p x in
      let s1 := put_gang s g x' in
      if negb (g_crd x') && is_nil (g_children x')
      then drop_group_if_empty (del_gang s1 g) x'
      else s1
  end.

Definition valid_gid (h : hdr) (g : Z) : bool := (1 <=? g) && (g <=? h_ngangs h).

Definition pg_add (h : hdr) (s : state) (g : Z) (c : cfg) : state :=
  if negb (valid_gid h g) then s else
  let s1 := upd_gang (get_or_create s g) g (init_by_pg g c) in
  match get_gang s1 g with
  | None => s1
  | Some x =>
      (* "gang basic check pass, delivery an activate": returns early when there is no pending child *)
      if gang_worth x && is_nil (g_pending x) then s1 else attach_group_info s1 g
  end.

Definition pg_update (h : hdr) (s : state) (g : Z) (c : cfg) : state :=
  if negb (valid_gid h g) then s else
  match get_gang s g with
  | None => s
  | Some x0 =>
      let s1 := upd_gang s g (init_by_pg g c) in
      match get_gang s1 g with
      | None => s1
      | Some x =>
          if negb (gang_worth x0) && gang_worth x && is_nil (g_pending x) then s1
          else attach_group_info s1 g
      end
  end.

Definition pg_delete (h : hdr) (s : state) (g : Z) : state :=
  if negb (valid_gid h g) then s else
  match get_gang s g with
  | None => s
  | Some x => drop_group_if_empty (del_gang s g) x
  end.

(* ---------- scheduling-cycle entry points (core.go) ---------- *)
Definition in_group (h : hdr) (grp : list Z) (q : Z) : bool := memZ (gang_of h q) grp.

(* core.go:544 Permit, then coscheduling.go:203: AllowGangGroup on Success; a pod told to wait is
   parked in the framework's waiting map *)
Definition all_valid (s : state) (grp : list Z) : bool :=
  forallb (fun g' => match get_gang s g' with Some y => gang_valid s y | None => false end) grp.

Definition permit (h : hdr) (s : state) (p : Z) : state * out :=
  let g := gang_of h p in
  if g =? 0 then (s, mkOut res_not_specified [] []) else
  match get_gang s g with
  | None => (s, mkOut res_not_found [] [])
  | Some x =>
      let s1 := put_gang s g (g_add_assumed p x) in
      let grp := g_group x in
      if all_valid s1 grp
      then (set_fw s1 (filter (fun q => negb (in_group h grp q)) (st_fw s1)),
            mkOut res_success (filter (in_group h grp) (st_fw s1)) [])
      else (set_fw s1 (sadd p (st_fw s1)), mkOut res_wait [] [])
  end.

(* core.go:610 rejectGangGroup over the framework's waiting pods *)
Definition reject_group (h : hdr) (s : state) (grp : list Z) : state * out :=
  (set_fw s (filter (fun q => negb (in_group h grp q)) (st_fw s)),
   mkOut 0 [] (filter (in_group h grp) (st_fw s))).

Definition exempt (s : state) (x : gang) : bool := (g_policy x =? pol_once_satisfied) && gang_sat s x.

(* core.go:577 Unreserve (the framework has already removed the pod from its waiting map) *)
Definition unreserve (h : hdr) (s : state) (p : Z) : state * out :=
  let s0 := set_fw s (srem p (st_fw s)) in
  let g := gang_of h p in
  if g =? 0 then (s0, out0) else
  match get_gang s0 g with
  | None => (s0, out0)
  | Some x =>
      let x' := g_del_assumed p x in
      let s1 := put_gang s0 g x' in
      if negb (exempt s1 x') && g_strict x' then reject_group h s1 (g_group x') else (s1, out0)
  end.

(* core.go:386 AfterPostFilter *)
Definition after_post_filter (h : hdr) (s : state) (p : Z) : state * out :=
  let g := gang_of h p in
  if g =? 0 then (s, out0) else
  match get_gang s g with
  | None => (s, out0)
  | Some x =>
      if exempt s x then (s, out0)
      else if g_strict x then reject_group h s (g_group x) else (s, out0)
  end.

(* core.go:627 PostBind *)
Definition post_bind (h : hdr) (s : state) (p : Z) : state :=
  let g := gang_of h p in
  if g =? 0 then s else add_bound s g p.

Definition step (h : hdr) (s : state) (o : op) : state * out :=
  match o with
  | PodAdd p node => (pod_event h s p node, out0)
  | PodUpdate p node term => (if term then s else pod_event h s p node, out0)
  | PodDelete p => (pod_delete h s p, out0)
  | PGAdd g c => (pg_add h s g c, out0)
  | PGUpdate g c => (pg_update h s g c, out0)
  | PGDelete g => (pg_delete h s g, out0)
  | Permit p => permit h s p
  | Unreserve p => unreserve h s p
  | PostBind p => (post_bind h s p, out0)
  | AfterPostFilter p => after_post_filter h s p
  | Nop => (s, out0)
  end.

(* ---------- observations ---------- *)
Record gview := mkGview {
  v_init : bool; v_strict : bool; v_policy : Z; v_min : Z; v_group : list Z; v_crd : bool;
  v_sat : bool; v_children : list Z; v_pending : list Z; v_waiting : list Z; v_bound : list Z }.

Definition gview_of (s : state) (x : gang) : gview :=
  mkGview (g_init x) (g_strict x) (g_policy x) (g_min x) (g_group x) (g_crd x) (gang_sat s x)
          (g_children x) (g_pending x) (g_waiting x) (g_bound x).

(* [sv_recs]: gangCache.gangGroupInfoMap as (group id, OnceResourceSatisfied of the record);
   [sv_wire]: per gang, the GangGroupInfo object it points to as (its GangGroupId, Initialized) *)
Record sview := mkSview {
  sv_fw : list Z; sv_gangs : list (Z * gview);
  sv_recs : list (list Z * bool); sv_wire : list (Z * (list Z * bool)) }.

Definition rec_of (s : state) (r : nat) : list Z * bool := (i_key (info_at s r), i_initd (info_at s r)).

Definition view (s : state) : sview :=
  mkSview (st_fw s) (map (fun kv => (fst kv, gview_of s (snd kv))) (st_gangs s))
          (map (fun kr => (fst kr, i_sat (info_at s (snd kr)))) (st_gmap s))
          (map (fun kv => (fst kv, rec_of s (g_info (snd kv)))) (st_gangs s)).

Notation obs := (out * sview)%type.

(* all intermediate states / observations of a history *)
Fixpoint run_from (h : hdr) (s : state) (ops : list op) : list obs :=
  match ops with
  | [] => []
  | o :: t => let '(s', r) := step h s o in (r, view s') :: run_from h s' t
  end.
Definition run (h : hdr) (ops : list op) : list obs := run_from h init_state ops.

Definition exec (h : hdr) (s : state) (ops : list op) : state :=
  fold_left (fun s o => fst (step h s o)) ops s.
