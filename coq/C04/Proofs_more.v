(* C04 — proofs, part 4: interleavings of lock-protected sections, the once-satisfied flag,
   and concrete witnesses (TOCTOU inside Permit, the unguarded partition sentence). *)
From Coq Require Import List ZArith Bool Lia.
From Verif Require Import Lib.Interleave C04.Model C04.Spec C04.Proofs C04.Proofs_state C04.Proofs_rec C04.Proofs_main.
Import ListNotations.
Open Scope Z_scope.

(* ---------- sections of gang.go acting on one gang object ---------- *)
Inductive sec :=
| SSetChild (p : Z) (node : bool)
| SAddAssumed (p : Z)
| SDelAssumed (p : Z)
| SAddBound (p : Z)
| SDeletePod (p : Z).

Definition sec_apply (x : gang) (a : sec) : gang :=
  match a with
  | SSetChild p node => g_set_child p node x
  | SAddAssumed p => g_add_assumed p x
  | SDelAssumed p => g_del_assumed p x
  | SAddBound p => g_add_bound p x
  | SDeletePod p => g_delete_pod p x
  end.

(* the flag records a violation of the framework protocol: addAssumedPod (Permit) for a pod that
   is in BoundChildren, addAssumedPod / addBoundPod (PostBind) for a pod that is not a child *)
Definition sec_viol (x : gang) (a : sec) : bool :=
  match a with
  | SAddAssumed p => memZ p (g_bound x) || negb (memZ p (g_children x))
  | SAddBound p => negb (memZ p (g_children x))
  | _ => false
  end.
Definition sec_step (st : gang * bool) (a : sec) : gang * bool :=
  (sec_apply (fst st) a, snd st || sec_viol (fst st) a).

Definition sec_inv (st : gang * bool) : Prop := snd st = false -> gwpart (fst st).

Lemma sec_step_inv st a : sec_inv st -> sec_inv (sec_step st a).
Proof.
  destruct st as [x t]. unfold sec_inv, sec_step. cbn [fst snd]. intros H Ht.
  apply orb_false_iff in Ht. destruct Ht as [Ht Hg]. specialize (H Ht).
  destruct a; cbn [sec_apply sec_viol] in *.
  - apply gwpart_set_child; exact H.
  - apply orb_false_iff in Hg. destruct Hg as [Hb Hc]. apply negb_false_iff in Hc.
    apply gwpart_add_assumed; [exact H | apply memZ_nIn; exact Hb | apply memZ_In; exact Hc].
  - apply gwpart_del_assumed; exact H.
  - apply negb_false_iff in Hg. apply gwpart_add_bound; [exact H | apply memZ_In; exact Hg].
  - apply gwpart_delete_pod; exact H.
Qed.

(* whatever the goroutines (threads of sections) are and however their sections interleave,
   after every prefix no pod is in two of the sets and pending pods are children *)
Theorem sections_interleaving (ts : list (list sec)) (l : list sec) (x0 : gang) :
  interleaving ts l -> gwpart x0 ->
  forall pre suf, l = pre ++ suf ->
    snd (Interleave.exec sec_step (x0, false) pre) = false ->
    gwpart (fst (Interleave.exec sec_step (x0, false) pre)).
Proof.
  intros Hil H0 pre suf E.
  apply (interleaving_inv_prefix sec_step sec_inv ts l Hil) with (q := suf).
  - intros t a s _ _ Hs. apply sec_step_inv. exact Hs.
  - intros _. exact H0.
  - exact E.
Qed.

(* between the two sections of onPodAddInternal for a pod with a node name the new child is in
   none of the sets *)
Example cover_transient :
  let x := g_set_child 7 true (new_gang 1 0) in
  let y := g_add_bound 7 x in
  memZ 7 (g_children x) = true /\ memZ 7 (g_pending x) = false /\ memZ 7 (g_waiting x) = false
  /\ memZ 7 (g_bound x) = false
  /\ part4b (g_children x) (g_pending x) (g_waiting x) (g_bound x) = false
  /\ part4b (g_children y) (g_pending y) (g_waiting y) (g_bound y) = true.
Proof. vm_compute. repeat split. Qed.

(* ---------- the once-satisfied flag ---------- *)
Definition sat_at (s : state) (r : nat) : bool := i_sat (info_at s r).

Lemma nth_app_placeholder (l : list info) i r :
  i_sat i = false -> i_sat (nth r (l ++ [i]) placeholder) = i_sat (nth r l placeholder).
Proof.
  intros Hi. destruct (Nat.lt_ge_cases r (length l)) as [H|H].
  - rewrite app_nth1 by exact H. reflexivity.
  - rewrite app_nth2 by exact H. rewrite (nth_overflow l) by exact H.
    destruct (r - length l)%nat as [|[|k]]; simpl; auto.
Qed.

Lemma sat_get_or_create s g r : sat_at (get_or_create s g) r = sat_at s r.
Proof.
  unfold get_or_create. destruct (get_gang s g); [reflexivity|].
  unfold sat_at, info_at. cbn [st_infos]. apply nth_app_placeholder. reflexivity.
Qed.
Lemma sat_upd_gang s g f r : sat_at (upd_gang s g f) r = sat_at s r.
Proof. unfold upd_gang. destruct (get_gang s g); reflexivity. Qed.
Lemma sat_attach s g r : sat_at (attach_group_info s g) r = sat_at s r.
Proof.
  unfold attach_group_info. destruct (get_gang s g) as [x|]; [|reflexivity].
  destruct (assocL (g_group x) (st_gmap s)); cbv beta iota zeta.
  - match goal with |- sat_at (if ?c then _ else _) _ = _ => destruct c end; reflexivity.
  - match goal with |- sat_at (if ?c then _ else _) _ = _ => destruct c end;
      unfold sat_at, info_at; cbn [st_infos put_gang]; apply nth_app_placeholder; reflexivity.
Qed.
Lemma sat_drop s x r : sat_at (drop_group_if_empty s x) r = sat_at s r.
Proof. unfold drop_group_if_empty. match goal with |- sat_at (if ?c then _ else _) _ = _ => destruct c end; reflexivity. Qed.

Lemma sat_upd_nth l r r' :
  i_sat (nth r' (upd_nth r (fun i => mkInfo (i_initd i) (i_key i) true) l) placeholder)
  = i_sat (nth r' l placeholder) || (Nat.eqb r r' && Nat.ltb r (length l)).
Proof.
  revert r r'. induction l as [|a l IH]; intros r r'; simpl.
  - destruct r, r'; simpl; rewrite ?andb_false_r; reflexivity.
  - destruct r as [|r]; destruct r' as [|r']; simpl.
    + rewrite orb_true_r. reflexivity.
    + rewrite orb_false_r. reflexivity.
    + rewrite orb_false_r. reflexivity.
    + rewrite IH. reflexivity.
Qed.

Lemma sat_set_sat_mono s g r : sat_at s r = true -> sat_at (set_sat s g) r = true.
Proof.
  unfold set_sat. destruct (get_gang s g) as [x|]; [|auto].
  unfold sat_at, info_at, upd_info. cbn [st_infos]. rewrite sat_upd_nth. intros ->. reflexivity.
Qed.

Definition binds (o : op) : Prop :=
  (exists p, o = PostBind p) \/ (exists p, o = PodAdd p true) \/ (exists p t, o = PodUpdate p true t).

Lemma sat_pod_event_nonode h s p r : sat_at (pod_event h s p false) r = sat_at s r.
Proof.
  unfold pod_event. cbv zeta. destruct (gang_of h p =? 0); [reflexivity|].
  rewrite sat_upd_gang. destruct (has_label h p).
  - apply sat_get_or_create.
  - rewrite sat_attach, sat_upd_gang. apply sat_get_or_create.
Qed.

Lemma sat_pod_event_mono h s p node r : sat_at s r = true -> sat_at (pod_event h s p node) r = true.
Proof.
  intros H. destruct node; [|rewrite sat_pod_event_nonode; exact H].
  unfold pod_event. cbv zeta. destruct (gang_of h p =? 0); [exact H|].
  apply sat_set_sat_mono, sat_set_sat_mono. rewrite sat_upd_gang. destruct (has_label h p).
  - rewrite sat_get_or_create. exact H.
  - rewrite sat_attach, sat_upd_gang, sat_get_or_create. exact H.
Qed.

Lemma sat_pod_delete h s p r : sat_at (pod_delete h s p) r = sat_at s r.
Proof.
  unfold pod_delete. destruct (gang_of h p =? 0); [reflexivity|].
  destruct (get_gang s (gang_of h p)); [|reflexivity]. cbv zeta.
  match goal with |- sat_at (if ?c then _ else _) _ = _ => destruct c end; rewrite ?sat_drop; reflexivity.
Qed.
Lemma sat_pg_add h s g c r : sat_at (pg_add h s g c) r = sat_at s r.
Proof.
  unfold pg_add. destruct (negb (valid_gid h g)); [reflexivity|]. cbv zeta.
  destruct (get_gang _ g); [match goal with |- sat_at (if ?c then _ else _) _ = _ => destruct c end|];
  rewrite ?sat_attach, sat_upd_gang, sat_get_or_create; reflexivity.
Qed.
Lemma sat_pg_update h s g c r : sat_at (pg_update h s g c) r = sat_at s r.
Proof.
  unfold pg_update. destruct (negb (valid_gid h g)); [reflexivity|].
  destruct (get_gang s g); [|reflexivity]. cbv zeta.
  destruct (get_gang _ g); [match goal with |- sat_at (if ?c then _ else _) _ = _ => destruct c end|];
  rewrite ?sat_attach, sat_upd_gang; reflexivity.
Qed.
Lemma sat_pg_delete h s g r : sat_at (pg_delete h s g) r = sat_at s r.
Proof.
  unfold pg_delete. destruct (negb (valid_gid h g)); [reflexivity|].
  destruct (get_gang s g); [|reflexivity]. rewrite sat_drop. reflexivity.
Qed.
Lemma sat_permit h s p r : sat_at (fst (permit h s p)) r = sat_at s r.
Proof.
  unfold permit. cbv zeta. destruct (gang_of h p =? 0); [reflexivity|].
  destruct (get_gang s (gang_of h p)); [|reflexivity].
  match goal with |- sat_at (fst (if ?c then _ else _)) _ = _ => destruct c end; reflexivity.
Qed.
Lemma sat_unreserve h s p r : sat_at (fst (unreserve h s p)) r = sat_at s r.
Proof.
  unfold unreserve. cbv zeta. destruct (gang_of h p =? 0); [reflexivity|].
  destruct (get_gang _ (gang_of h p)); [|reflexivity].
  match goal with |- sat_at (fst (if ?c then _ else _)) _ = _ => destruct c end; reflexivity.
Qed.
Lemma sat_apf h s p r : sat_at (fst (after_post_filter h s p)) r = sat_at s r.
Proof.
  unfold after_post_filter. destruct (gang_of h p =? 0); [reflexivity|].
  destruct (get_gang s (gang_of h p)) as [x|]; [|reflexivity].
  destruct (exempt s x); [reflexivity|]. destruct (g_strict x); reflexivity.
Qed.

(* OnceResourceSatisfied of any GangGroupInfo object is irreversible, and only a bind (PostBind,
   or a pod event that carries a node name) sets it *)
Theorem once_satisfied_only_by_bind h s o r :
  (sat_at s r = true -> sat_at (fst (step h s o)) r = true)
  /\ (sat_at s r = false -> sat_at (fst (step h s o)) r = true -> binds o).
Proof.
  destruct o; cbn [step fst].
  - split; [apply sat_pod_event_mono|]. destruct node.
    + intros _ _. right; left. eexists; reflexivity.
    + rewrite sat_pod_event_nonode. congruence.
  - destruct terminated; [split; [auto | congruence]|].
    split; [apply sat_pod_event_mono|]. destruct node.
    + intros _ _. right; right. do 2 eexists; reflexivity.
    + rewrite sat_pod_event_nonode. congruence.
  - rewrite sat_pod_delete. split; [auto | congruence].
  - rewrite sat_pg_add. split; [auto | congruence].
  - rewrite sat_pg_update. split; [auto | congruence].
  - rewrite sat_pg_delete. split; [auto | congruence].
  - rewrite sat_permit. split; [auto | congruence].
  - rewrite sat_unreserve. split; [auto | congruence].
  - split.
    + unfold post_bind, add_bound. destruct (gang_of h p =? 0); [auto|].
      intros H. apply sat_set_sat_mono. rewrite sat_upd_gang. exact H.
    + intros _ _. left. eexists; reflexivity.
  - rewrite sat_apf. split; [auto | congruence].
  - split; [auto | congruence].
Qed.

(* ---------- witnesses ---------- *)
(* two gangs of one group, one pod each, only-waiting policy, min 1 *)
Definition ex_hdr : hdr :=
  mkHdr 2 [(1, false); (2, false)] [mkCfg 1 0 0 [1; 2]; mkCfg 1 0 0 [1; 2]].

(* Permit decomposed into its lock-protected sections (core.go:555-566): addAssumedPod, then one
   isGangValidForPermit per gang of the group. A pod deletion between two checks: both checks
   answer true, Permit returns Success, but at that moment gang 1 no longer exists. *)
Example permit_toctou :
  let s := exec ex_hdr init_state [PodAdd 0 false; PodAdd 1 false; Permit 0] in
  let s1 := upd_gang s 2 (g_add_assumed 1) in
  let check (st : state) (g : Z) := match get_gang st g with Some y => gang_valid st y | None => false end in
  let s2 := pod_delete ex_hdr s1 0 in
  check s1 1 = true /\ check s2 2 = true /\ all_valid s2 [1; 2] = false.
Proof. vm_compute. repeat split. Qed.

(* the partition sentence without the protocol guard is false of the model: a Permit for a pod
   the cache holds as bound puts it into waiting and bound, and the Unreserve that follows moves
   it to pending and bound *)
Definition ex1_hdr : hdr := mkHdr 1 [(1, false)] [mkCfg 1 0 0 [1]].

Theorem partition_unguarded_refuted :
  exists h ops, ~ all_partition_ok (view (exec h init_state ops)).
Proof.
  exists ex1_hdr, [PodAdd 0 false; Permit 0; PostBind 0; Permit 0].
  intros H. apply all_part_okb_spec in H. vm_compute in H. discriminate.
Qed.

Example partition_unguarded_pending_and_bound :
  let s := exec ex1_hdr init_state [PodAdd 0 false; Permit 0; PostBind 0; Permit 0; Unreserve 0] in
  match get_gang s 1 with
  | Some x => memZ 0 (g_pending x) && memZ 0 (g_bound x)
  | None => false
  end = true.
Proof. vm_compute. reflexivity. Qed.

(* a delete event that overtakes PostBind (outside the guard): the deleted pod stays in bound *)
Definition ex2_hdr : hdr := mkHdr 1 [(1, false); (1, false)] [mkCfg 1 0 0 [1]].
Example postbind_after_delete :
  let ops := [PodAdd 0 false; PodAdd 1 false; Permit 0; PodDelete 0] in
  let s := exec ex2_hdr init_state ops in
  conformant ex2_hdr init_state ops
  /\ permit_ok ex2_hdr s (PostBind 0) = false
  /\ all_part_okb (view s) = true
  /\ all_part_okb (view (fst (step ex2_hdr s (PostBind 0)))) = false.
Proof. vm_compute. repeat split. Qed.

(* non-vacuity: a conformant history in which a whole group of two gangs is released at once *)
Example release_example :
  let ops := [PodAdd 0 false; PodAdd 1 false; Permit 0; Permit 1] in
  conformant ex_hdr init_state ops
  /\ map (fun o => (o_res (fst o), o_allowed (fst o))) (run ex_hdr ops)
     = [(0, []); (0, []); (res_wait, []); (res_success, [0])].
Proof. vm_compute. repeat split. Qed.

(* non-vacuity: strict mode, a rolled-back member rejects the waiting members of the whole group *)
Definition ex3_hdr : hdr :=
  mkHdr 2 [(1, false); (2, false); (2, false)] [mkCfg 1 0 0 [1; 2]; mkCfg 2 0 0 [1; 2]].
Example strict_reject_example :
  let ops := [PodAdd 0 false; PodAdd 1 false; PodAdd 2 false; Permit 0; Permit 1; Unreserve 1] in
  map (fun o => (o_res (fst o), o_rejected (fst o))) (run ex3_hdr ops)
  = [(0, []); (0, []); (0, []); (res_wait, []); (res_wait, []); (0, [0])].
Proof. vm_compute. reflexivity. Qed.

(* non-vacuity of clause 9: a gang (PodGroup, min 3) runs and is satisfied, its group is re-declared,
   pods and PodGroup are deleted, and the gang is submitted again under the same name: the new gang is
   not satisfied, its first member waits in Permit, and the map holds exactly the fresh record *)
Definition ex4_hdr : hdr :=
  mkHdr 2 [(1, true); (1, true); (1, true); (1, true)] [dflt_cfg; dflt_cfg].
Definition ex4_ops : list op :=
  [PGAdd 1 (mkCfg 3 0 2 [1]); PodAdd 0 false; PodAdd 1 false; PodAdd 2 false;
   Permit 0; Permit 1; Permit 2; PostBind 0; PostBind 1; PostBind 2;
   PGUpdate 1 (mkCfg 3 0 2 [1; 2]);
   PodDelete 0; PodDelete 1; PodDelete 2; PGDelete 1;
   PGAdd 1 (mkCfg 3 0 2 [1]); PodAdd 3 false; Permit 3].
Example resubmitted_group_unsatisfied :
  let l := run ex4_hdr ex4_ops in
  map (fun o => o_res (fst o)) (firstn 3 (skipn 4 l)) = [res_wait; res_wait; res_success]
  /\ option_map v_sat (vget (snd (nth 10 l (out0, view init_state))) 1) = Some true
  /\ sv_recs (snd (nth 14 l (out0, view init_state))) = [([1; 2], false)]
  /\ option_map (fun o => (o_res (fst o), option_map v_sat (vget (snd o) 1), sv_recs (snd o))) (nth_error l 17)
     = Some (res_wait, Some false, [([1], false); ([1; 2], false)]).
Proof. vm_compute. repeat split. Qed.

(* no bind, no satisfied record: along a history without PostBind and without node-carrying pod events,
   no GangGroupInfo object (in the map or private) is once-satisfied *)
Definition bindsb (o : op) : bool :=
  match o with PostBind _ | PodAdd _ true | PodUpdate _ true _ => true | _ => false end.

Lemma bindsb_spec o : binds o -> bindsb o = true.
Proof. intros [[p ->]|[[p ->]|[p [t ->]]]]; reflexivity. Qed.

Theorem no_bind_no_satisfied h : forall ops s,
  (forall r, sat_at s r = false) -> forallb (fun o => negb (bindsb o)) ops = true ->
  forall r, sat_at (exec h s ops) r = false.
Proof.
  induction ops as [|o ops IH]; intros s Hs Hb r; [apply Hs|].
  cbn [forallb] in Hb. apply andb_true_iff in Hb. destruct Hb as [Ho Hb].
  unfold exec. cbn [fold_left]. apply (IH (fst (step h s o))); [|exact Hb].
  intros r'. destruct (sat_at (fst (step h s o)) r') eqn:E; [|reflexivity].
  destruct (once_satisfied_only_by_bind h s o r') as [_ H2].
  specialize (H2 (Hs r') E). apply bindsb_spec in H2. rewrite H2 in Ho. discriminate.
Qed.
