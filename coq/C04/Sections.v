(* C04 — the informer handlers decomposed into their lock-protected sections, acting on what a gang IS
   (the declaration state [dstate] of Spec.v: exists / initialised / mode / policy / minimum / group /
   origin / member set). Definitions only; proofs in Proofs_conc.v.

     getGangFromCacheByGangId(id, true)   one section under the cache lock: look up, create if missing
     tryInitByPodConfig / tryInitByPodGroup / setChild   one section each under the gang's lock

   A handler holds the *Gang it got from the cache; as long as no delete event runs (monotone histories)
   that object is the cache entry, so the later sections of the handler are updates of the entry
   ([d_upd]; onPodGroupUpdate looks the gang up without creating it and returns when it is missing, which
   is [d_upd] on a missing entry). *)
From Coq Require Import List ZArith Bool.
From Verif Require Import C04.Model C04.Spec.
Import ListNotations.
Open Scope Z_scope.

Inductive asec :=
| AEnsure (g : Z)                (* getGangFromCacheByGangId(g, true) *)
| AInitPod (g : Z) (c : cfg)     (* tryInitByPodConfig *)
| AInitPg (g : Z) (c : cfg)      (* tryInitByPodGroup *)
| AChild (g p : Z).              (* setChild *)

Definition d_upd (g : Z) (f : decl -> decl) (ds : dstate) : dstate :=
  match assocZ g ds with Some d => putZ g (f d) ds | None => ds end.
Definition d_init_pod (g : Z) (c : cfg) (d : decl) : decl := if d_init d then d else decl_cfg g c false d.
Definition d_add_child (p : Z) (d : decl) : decl := decl_children d (sadd p (d_children d)).

Definition asec_step (ds : dstate) (a : asec) : dstate :=
  match a with
  | AEnsure g => match assocZ g ds with Some _ => ds | None => putZ g (decl0 g) ds end
  | AInitPod g c => d_upd g (d_init_pod g c) ds
  | AInitPg g c => d_upd g (decl_cfg g c true) ds
  | AChild g p => d_upd g (d_add_child p) ds
  end.
Definition run_secs (l : list asec) (ds : dstate) : dstate := fold_left asec_step l ds.

Definition pod_secs (h : hdr) (p : Z) : list asec :=
  let g := gang_of h p in
  if g =? 0 then []
  else AEnsure g :: (if has_label h p then [] else [AInitPod g (acfg_of h g)]) ++ [AChild g p].

(* the sections of one informer handler (the sections that only touch the pending / waiting / bound sets
   or the group records are left out: they do not change what the gang is) *)
Definition secs_of (h : hdr) (o : op) : list asec :=
  match o with
  | PodAdd p _ => pod_secs h p
  | PodUpdate p _ terminated => if terminated then [] else pod_secs h p
  | PGAdd g c => if valid_gid h g then [AEnsure g; AInitPg g c] else []
  | PGUpdate g c => if valid_gid h g then [AInitPg g c] else []
  | _ => []
  end.

Definition is_delete (o : op) : bool :=
  match o with PodDelete _ | PGDelete _ => true | _ => false end.

(* every section that updates gang g comes after a section that made sure g is in the cache
   ([seen]: the gangs made sure of so far) *)
Fixpoint guardedb (seen : list Z) (l : list asec) : bool :=
  match l with
  | [] => true
  | AEnsure g :: t => guardedb (g :: seen) t
  | AInitPod g _ :: t | AInitPg g _ :: t | AChild g _ :: t => memZ g seen && guardedb seen t
  end.

Definition is_initpg (g : Z) (a : asec) : bool :=
  match a with AInitPg g' _ => g' =? g | _ => false end.

(* equality of what a gang is, member sets compared as sets *)
Definition decl_eqv (a b : decl) : Prop :=
  d_init a = d_init b /\ d_strict a = d_strict b /\ d_policy a = d_policy b /\ d_min a = d_min b
  /\ d_group a = d_group b /\ d_crd a = d_crd b /\ same_set0 (d_children a) (d_children b).
Definition decl_opt_eqv (a b : option decl) : Prop :=
  match a, b with
  | Some x, Some y => decl_eqv x y
  | None, None => True
  | _, _ => False
  end.

(* ---- the stream "race": monotone part of a history and its split into informer goroutines ---- *)
Fixpoint mono_from (added : list Z) (ops : list op) : list op :=
  match ops with
  | [] => []
  | o :: t =>
      match o with
      | PodAdd _ _ | PodUpdate _ _ _ => o :: mono_from added t
      | PGAdd g _ => o :: mono_from (g :: added) t
      | PGUpdate g _ => if memZ g added then o :: mono_from added t else mono_from added t
      | _ => mono_from added t
      end
  end.
Definition mono_ops (ops : list op) : list op := mono_from [] ops.

(* 0: PodGroup informer, 1 / 2: pod events of even / odd pods *)
Definition source_of (o : op) : Z :=
  match o with
  | PodAdd p _ | PodUpdate p _ _ | PodDelete p => if Z.even p then 1 else 2
  | _ => 0
  end.
Definition race_threads (evs : list op) : list (list op) :=
  [filter (fun o => source_of o =? 0) evs; filter (fun o => source_of o =? 1) evs;
   filter (fun o => source_of o =? 2) evs].
