(* C04 — stream "history": entry points for the generic OCaml driver (definitions in Codec.v). *)
From Verif Require Import C04.Codec.
Require Extraction.
Require Import ExtrOcamlBasic.
Extraction "model.ml" run_case prop_case nontrivial_case finding_sig.
