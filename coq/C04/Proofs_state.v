(* C04 — proofs, part 2: the partition as an invariant of the whole cache over entry points,
   and the per-operation clauses (release safety, allow all, strict reject, frame). *)
From Coq Require Import List ZArith Bool Lia.
From Verif Require Import C04.Model C04.Spec C04.Proofs.
Import ListNotations.
Open Scope Z_scope.

(* ---------- association lists ---------- *)
Lemma assocZ_putZ_same {A} k (v : A) l : assocZ k (putZ k v l) = Some v.
Proof.
  induction l as [|[k' v'] t IH]; simpl.
  - rewrite Z.eqb_refl. reflexivity.
  - destruct (k =? k') eqn:E; simpl.
    + rewrite Z.eqb_refl. reflexivity.
    + rewrite E. exact IH.
Qed.

Lemma assocZ_putZ_other {A} k k2 (v : A) l : k2 <> k -> assocZ k2 (putZ k v l) = assocZ k2 l.
Proof.
  intros Hne. induction l as [|[k' v'] t IH]; simpl.
  - apply Z.eqb_neq in Hne. rewrite Hne. reflexivity.
  - destruct (k =? k') eqn:E; simpl.
    + apply Z.eqb_eq in E. subst k'. apply Z.eqb_neq in Hne. rewrite Hne. reflexivity.
    + destruct (k2 =? k'); [reflexivity | exact IH].
Qed.

Lemma assocZ_In {A} k (v : A) l : assocZ k l = Some v -> In (k, v) l.
Proof.
  induction l as [|[k' v'] t IH]; simpl; [discriminate|].
  destruct (k =? k') eqn:E.
  - apply Z.eqb_eq in E. subst. intros H. inversion H. left. reflexivity.
  - intros H. right. apply IH. exact H.
Qed.

Lemma In_putZ {A} (kv : Z * A) k v l : In kv (putZ k v l) -> kv = (k, v) \/ In kv l.
Proof.
  induction l as [|[k' v'] t IH]; simpl.
  - intros [H|[]]. left. symmetry. exact H.
  - destruct (k =? k'); simpl.
    + intros [H|H]; [left; symmetry; exact H | right; right; exact H].
    + intros [H|H]; [right; left; exact H|]. destruct (IH H) as [H'|H']; [left; exact H' | right; right; exact H'].
Qed.

Lemma In_delZ {A} (kv : Z * A) k l : In kv (delZ k l) -> In kv l.
Proof. unfold delZ. rewrite filter_In. tauto. Qed.

Lemma assocZ_delZ_same {A} k (l : list (Z * A)) : assocZ k (delZ k l) = None.
Proof.
  induction l as [|[k' v'] t IH]; simpl; [reflexivity|].
  destruct (k' =? k) eqn:E; simpl.
  - exact IH.
  - rewrite Z.eqb_sym, E. exact IH.
Qed.

Lemma assocZ_delZ_other {A} k k2 (l : list (Z * A)) : k2 <> k -> assocZ k2 (delZ k l) = assocZ k2 l.
Proof.
  intros Hne. induction l as [|[k' v'] t IH]; simpl; [reflexivity|].
  destruct (k' =? k) eqn:E; simpl.
  - apply Z.eqb_eq in E. subst k'. apply Z.eqb_neq in Hne. rewrite Hne. exact IH.
  - destruct (k2 =? k'); [reflexivity | exact IH].
Qed.

Lemma assocZ_map {A B} (f : A -> B) k (l : list (Z * A)) :
  assocZ k (map (fun kv => (fst kv, f (snd kv))) l) = option_map f (assocZ k l).
Proof.
  induction l as [|[k' v'] t IH]; simpl; [reflexivity|].
  destruct (k =? k'); [reflexivity | exact IH].
Qed.

(* ---------- the invariant ---------- *)
Definition all_part (s : state) : Prop := forall g x, In (g, x) (st_gangs s) -> gpart x.

Lemma all_part_init : all_part init_state.
Proof. intros g x []. Qed.

Lemma all_part_same s s' : st_gangs s' = st_gangs s -> all_part s -> all_part s'.
Proof. intros E H g x Hin. rewrite E in Hin. apply (H g x Hin). Qed.

Lemma all_part_get s g x : all_part s -> get_gang s g = Some x -> gpart x.
Proof. intros H E. apply (H g x). apply assocZ_In. exact E. Qed.

Lemma all_part_put s g x : all_part s -> gpart x -> all_part (put_gang s g x).
Proof.
  intros H Hx g' x' Hin. simpl in Hin. apply In_putZ in Hin. destruct Hin as [E|Hin].
  - inversion E; subst. exact Hx.
  - apply (H g' x' Hin).
Qed.

Lemma all_part_del s g : all_part s -> all_part (del_gang s g).
Proof. intros H g' x' Hin. simpl in Hin. apply In_delZ in Hin. apply (H g' x' Hin). Qed.

Lemma all_part_upd s g f :
  all_part s -> (forall x, get_gang s g = Some x -> gpart x -> gpart (f x)) -> all_part (upd_gang s g f).
Proof.
  intros H Hf. unfold upd_gang. destruct (get_gang s g) as [x|] eqn:E; [|exact H].
  apply all_part_put; [exact H|]. apply Hf; [reflexivity|]. apply (all_part_get s g x H E).
Qed.

Lemma all_part_get_or_create s g : all_part s -> all_part (get_or_create s g).
Proof.
  intros H. unfold get_or_create. destruct (get_gang s g) eqn:E; [exact H|].
  intros g' x' Hin. simpl in Hin. apply In_putZ in Hin. destruct Hin as [E'|Hin].
  - inversion E'; subst. apply gpart_new_gang.
  - apply (H g' x' Hin).
Qed.

Lemma all_part_attach s g : all_part s -> all_part (attach_group_info s g).
Proof.
  intros H. unfold attach_group_info. destruct (get_gang s g) as [x|] eqn:E; [|exact H].
  pose proof (all_part_get s g x H E) as Hx.
  destruct (assocL (g_group x) (st_gmap s)) as [r|].
  - destruct (i_initd (info_at s (g_info x))); [exact H|]. apply all_part_put; assumption.
  - cbv beta iota zeta. match goal with |- all_part (if ?c then _ else _) => destruct c end.
    + eapply all_part_same; [|exact H]. reflexivity.
    + apply all_part_put; [|exact Hx]. eapply all_part_same; [|exact H]. reflexivity.
Qed.

Lemma all_part_set_sat s g : all_part s -> all_part (set_sat s g).
Proof.
  intros H. unfold set_sat. destruct (get_gang s g); [|exact H].
  eapply all_part_same; [|exact H]. reflexivity.
Qed.

Lemma all_part_set_fw s fw : all_part s -> all_part (set_fw s fw).
Proof. intros H. eapply all_part_same; [|exact H]. reflexivity. Qed.

Lemma all_part_drop s x : all_part s -> all_part (drop_group_if_empty s x).
Proof.
  intros H. unfold drop_group_if_empty.
  match goal with |- all_part (if ?c then _ else _) => destruct c end; [|exact H].
  eapply all_part_same; [|exact H]. reflexivity.
Qed.

(* protocol guard, on states *)
Definition permit_ok (h : hdr) (s : state) (o : op) : bool :=
  match o with
  | Permit p => match get_gang s (gang_of h p) with
                | Some x => negb (memZ p (g_bound x)) && memZ p (g_children x)
                | None => true end
  | PostBind p => match get_gang s (gang_of h p) with
                  | Some x => memZ p (g_children x)
                  | None => true end
  | _ => true
  end.

Lemma all_part_pod_event h s p node : all_part s -> all_part (pod_event h s p node).
Proof.
  intros H. unfold pod_event. cbv zeta. destruct (gang_of h p =? 0); [exact H|].
  set (g := gang_of h p).
  assert (H1 : all_part (get_or_create s g)) by (apply all_part_get_or_create; exact H).
  assert (H2 : all_part (if has_label h p then get_or_create s g
                         else attach_group_info (upd_gang (get_or_create s g) g (init_by_pod g (acfg_of h g))) g)).
  { destruct (has_label h p); [exact H1|]. apply all_part_attach. apply all_part_upd; [exact H1|].
    intros x _ Hx. apply gpart_init_by_pod. exact Hx. }
  assert (H3 : forall s2, all_part s2 -> all_part (upd_gang s2 g (g_pod_event p node))).
  { intros s2 Hs2. apply all_part_upd; [exact Hs2|]. intros x _ Hx. apply gpart_pod_event. exact Hx. }
  destruct node; [apply all_part_set_sat, all_part_set_sat|]; apply H3; exact H2.
Qed.

Lemma all_part_pod_delete h s p : all_part s -> all_part (pod_delete h s p).
Proof.
  intros H. unfold pod_delete. destruct (gang_of h p =? 0); [exact H|].
  destruct (get_gang s (gang_of h p)) as [x|] eqn:E; [|exact H].
  pose proof (all_part_get _ _ _ H E) as Hx.
  assert (H1 : all_part (put_gang s (gang_of h p) (g_delete_pod p x))).
  { apply all_part_put; [exact H|]. apply gpart_delete_pod. exact Hx. }
  cbv zeta. match goal with |- all_part (if ?c then _ else _) => destruct c end; [|exact H1].
  apply all_part_drop. apply all_part_del. exact H1.
Qed.

Lemma all_part_pg_add h s g c : all_part s -> all_part (pg_add h s g c).
Proof.
  intros H. unfold pg_add. destruct (negb (valid_gid h g)); [exact H|].
  assert (H1 : all_part (upd_gang (get_or_create s g) g (init_by_pg g c))).
  { apply all_part_upd; [apply all_part_get_or_create; exact H|]. intros x _ Hx. exact Hx. }
  cbv zeta. destruct (get_gang _ g) as [x|]; [|exact H1].
  match goal with |- all_part (if ?c then _ else _) => destruct c end; [exact H1|].
  apply all_part_attach. exact H1.
Qed.

Lemma all_part_pg_update h s g c : all_part s -> all_part (pg_update h s g c).
Proof.
  intros H. unfold pg_update. destruct (negb (valid_gid h g)); [exact H|].
  destruct (get_gang s g) as [x0|]; [|exact H].
  assert (H1 : all_part (upd_gang s g (init_by_pg g c))).
  { apply all_part_upd; [exact H|]. intros x _ Hx. exact Hx. }
  cbv zeta. destruct (get_gang _ g) as [x|]; [|exact H1].
  match goal with |- all_part (if ?c then _ else _) => destruct c end; [exact H1|].
  apply all_part_attach. exact H1.
Qed.

Lemma all_part_pg_delete h s g : all_part s -> all_part (pg_delete h s g).
Proof.
  intros H. unfold pg_delete. destruct (negb (valid_gid h g)); [exact H|].
  destruct (get_gang s g) as [x|]; [|exact H].
  apply all_part_drop. apply all_part_del. exact H.
Qed.

Lemma all_part_permit h s p : all_part s -> permit_ok h s (Permit p) = true -> all_part (fst (permit h s p)).
Proof.
  intros H Hg. unfold permit. unfold permit_ok in Hg. cbv zeta.
  destruct (gang_of h p =? 0); [exact H|].
  destruct (get_gang s (gang_of h p)) as [x|] eqn:E; [|exact H].
  apply andb_true_iff in Hg. destruct Hg as [Hg Hc].
  apply negb_true_iff, memZ_nIn in Hg. apply memZ_In in Hc.
  assert (H1 : all_part (put_gang s (gang_of h p) (g_add_assumed p x))).
  { apply all_part_put; [exact H|]. apply gpart_add_assumed; [|exact Hg|exact Hc]. apply (all_part_get _ _ _ H E). }
  match goal with |- all_part (fst (if ?c then _ else _)) => destruct c end; simpl;
  apply all_part_set_fw; exact H1.
Qed.

Lemma all_part_reject h s grp : all_part s -> all_part (fst (reject_group h s grp)).
Proof. intros H. unfold reject_group. simpl. apply all_part_set_fw. exact H. Qed.

Lemma all_part_unreserve h s p : all_part s -> all_part (fst (unreserve h s p)).
Proof.
  intros H. unfold unreserve.
  assert (H0 : all_part (set_fw s (srem p (st_fw s)))) by (apply all_part_set_fw; exact H).
  cbv zeta. destruct (gang_of h p =? 0); [exact H0|].
  destruct (get_gang _ (gang_of h p)) as [x|] eqn:E; [|exact H0].
  assert (H1 : all_part (put_gang (set_fw s (srem p (st_fw s))) (gang_of h p) (g_del_assumed p x))).
  { apply all_part_put; [exact H0|]. apply gpart_del_assumed. apply (all_part_get _ _ _ H0 E). }
  match goal with |- all_part (fst (if ?c then _ else _)) => destruct c end.
  - apply all_part_reject. exact H1.
  - exact H1.
Qed.

Lemma all_part_apf h s p : all_part s -> all_part (fst (after_post_filter h s p)).
Proof.
  intros H. unfold after_post_filter.
  destruct (gang_of h p =? 0); [exact H|].
  destruct (get_gang s (gang_of h p)) as [x|]; [|exact H].
  destruct (exempt s x); [exact H|]. destruct (g_strict x); [|exact H].
  apply all_part_reject. exact H.
Qed.

Lemma all_part_post_bind h s p :
  all_part s -> permit_ok h s (PostBind p) = true -> all_part (post_bind h s p).
Proof.
  intros H Hg. unfold post_bind. destruct (gang_of h p =? 0); [exact H|].
  unfold add_bound. apply all_part_set_sat. apply all_part_upd; [exact H|].
  intros x Ex Hx. unfold permit_ok in Hg. rewrite Ex in Hg. apply memZ_In in Hg.
  apply gpart_add_bound; assumption.
Qed.

Lemma all_part_step h s o : all_part s -> permit_ok h s o = true -> all_part (fst (step h s o)).
Proof.
  intros H Hg. destruct o; simpl.
  - apply all_part_pod_event; exact H.
  - destruct terminated; [exact H | apply all_part_pod_event; exact H].
  - apply all_part_pod_delete; exact H.
  - apply all_part_pg_add; exact H.
  - apply all_part_pg_update; exact H.
  - apply all_part_pg_delete; exact H.
  - apply all_part_permit; assumption.
  - apply all_part_unreserve; exact H.
  - apply all_part_post_bind; assumption.
  - apply all_part_apf; exact H.
  - exact H.
Qed.

(* ---------- views ---------- *)
Lemma vget_view s g : vget (view s) g = option_map (gview_of s) (get_gang s g).
Proof. unfold vget, view, get_gang. simpl. apply assocZ_map. Qed.

Lemma all_part_view s : all_part s <-> all_partition_ok (view s).
Proof.
  unfold all_part, all_partition_ok, view. simpl. split; intros H g x Hin.
  - apply in_map_iff in Hin. destruct Hin as [[g' x'] [E Hin]]. simpl in E. inversion E; subst.
    apply (H g x' Hin).
  - apply (H g (gview_of s x)). apply in_map_iff. exists (g, x). split; [reflexivity | exact Hin].
Qed.

Lemma all_part_okb_spec v : all_part_okb v = true <-> all_partition_ok v.
Proof.
  unfold all_part_okb, all_partition_ok. rewrite forallb_forall. split.
  - intros H g x Hin. apply part4b_spec. apply (H (g, x) Hin).
  - intros H [g x] Hin. apply part4b_spec. apply (H g x Hin).
Qed.

Lemma permit_guard_view h s o : permit_guard_viol h (view s) o = negb (permit_ok h s o).
Proof.
  destruct o; try reflexivity; simpl; rewrite vget_view;
  destruct (get_gang s (gang_of h p)) as [x|]; simpl; try reflexivity.
  rewrite negb_andb, negb_involutive. reflexivity.
Qed.

(* ---------- validity for permit ---------- *)
Lemma validb_gview s x : validb (gview_of s x) = gang_valid s x.
Proof. reflexivity. Qed.

Lemma group_validb_view s grp : group_validb (view s) grp = all_valid s grp.
Proof.
  unfold group_validb, all_valid. induction grp as [|g' t IH]; simpl; [reflexivity|].
  rewrite IH, vget_view. destruct (get_gang s g'); reflexivity.
Qed.

Lemma validb_spec x : validb x = true <-> valid_for_permit x.
Proof.
  unfold validb, valid_for_permit, pol_only_waiting, pol_waiting_and_running.
  rewrite andb_true_iff.
  destruct (v_policy x =? 0) eqn:E0; [apply Z.eqb_eq in E0|apply Z.eqb_neq in E0].
  - rewrite Z.leb_le. split; [intros [H1 H2]; split; [exact H1 | left; split; assumption]|].
    intros [H1 [[_ H2]|[[H2 _]|[H2 _]]]]; try (split; assumption); congruence.
  - destruct (v_policy x =? 1) eqn:E1; [apply Z.eqb_eq in E1|apply Z.eqb_neq in E1].
    + rewrite Z.leb_le. split; [intros [H1 H2]; split; [exact H1 | right; left; split; assumption]|].
      intros [H1 [[H2 _]|[[_ H2]|[_ [H2 _]]]]]; try (split; assumption); congruence.
    + rewrite orb_true_iff, Z.leb_le. split.
      * intros [H1 H2]. split; [exact H1|]. right; right. repeat split; assumption.
      * intros [H1 [[H2 _]|[[H2 _]|[_ [_ H2]]]]]; try congruence. split; assumption.
Qed.

Lemma group_validb_spec v grp : group_validb v grp = true <-> group_valid v grp.
Proof.
  unfold group_validb, group_valid. rewrite forallb_forall. split.
  - intros H g' Hin. specialize (H g' Hin). destruct (vget v g') as [y|]; [|discriminate].
    exists y. split; [reflexivity | apply validb_spec; exact H].
  - intros H g' Hin. destruct (H g' Hin) as [y [E Hy]]. rewrite E. apply validb_spec. exact Hy.
Qed.

Lemma filter_subset_id (c w : list Z) :
  (forall q, In q w -> In q c) -> filter (fun q => memZ q c) w = w.
Proof.
  induction w as [|a w IH]; intros H; simpl; [reflexivity|].
  assert (Ha : memZ a c = true) by (apply memZ_In, H; left; reflexivity).
  rewrite Ha, IH; [reflexivity|]. intros q Hq. apply H. right. exact Hq.
Qed.

Lemma validb_real_gview s x : gpart x -> validb (real_members (gview_of s x)) = validb (gview_of s x).
Proof.
  intros [(_ & _ & _ & _ & _ & Hwc & Hbc & _) _].
  unfold validb, real_members. cbn [v_init v_policy v_min v_waiting v_bound v_sat v_children gview_of].
  rewrite (filter_subset_id _ _ Hwc), (filter_subset_id _ _ Hbc). reflexivity.
Qed.

Lemma group_validb_real_view s grp :
  all_part s -> group_validb_real (view s) grp = group_validb (view s) grp.
Proof.
  intros H. unfold group_validb_real, group_validb. induction grp as [|g' t IH]; simpl; [reflexivity|].
  rewrite IH, vget_view. destruct (get_gang s g') as [y|] eqn:E; simpl; [|reflexivity].
  rewrite (validb_real_gview s y (all_part_get s g' y H E)). reflexivity.
Qed.

Lemma group_validb_real_spec v grp : group_validb_real v grp = true <-> group_valid_real v grp.
Proof.
  unfold group_validb_real, group_valid_real. rewrite forallb_forall. split.
  - intros H g' Hin. specialize (H g' Hin). destruct (vget v g') as [y|]; [|discriminate].
    exists y. split; [reflexivity | apply validb_spec; exact H].
  - intros H g' Hin. destruct (H g' Hin) as [y [E Hy]]. rewrite E. apply validb_spec. exact Hy.
Qed.

(* ---------- frame: what does not touch the framework's waiting map / the infos ---------- *)
Lemma fw_get_or_create s g : st_fw (get_or_create s g) = st_fw s.
Proof. unfold get_or_create. destruct (get_gang s g); reflexivity. Qed.
Lemma fw_upd_gang s g f : st_fw (upd_gang s g f) = st_fw s.
Proof. unfold upd_gang. destruct (get_gang s g); reflexivity. Qed.
Lemma fw_attach s g : st_fw (attach_group_info s g) = st_fw s.
Proof.
  unfold attach_group_info. destruct (get_gang s g) as [x|]; [|reflexivity].
  destruct (assocL (g_group x) (st_gmap s)); cbv zeta beta iota;
  match goal with |- st_fw (if ?c then _ else _) = _ => destruct c end; reflexivity.
Qed.
Lemma fw_set_sat s g : st_fw (set_sat s g) = st_fw s.
Proof. unfold set_sat. destruct (get_gang s g); reflexivity. Qed.
Lemma fw_drop s x : st_fw (drop_group_if_empty s x) = st_fw s.
Proof. unfold drop_group_if_empty. match goal with |- st_fw (if ?c then _ else _) = _ => destruct c end; reflexivity. Qed.

Lemma fw_pod_event h s p node : st_fw (pod_event h s p node) = st_fw s.
Proof.
  unfold pod_event. destruct (gang_of h p =? 0); [reflexivity|]. cbv zeta.
  destruct node; rewrite ?fw_set_sat, fw_upd_gang; destruct (has_label h p);
  rewrite ?fw_attach, ?fw_upd_gang, fw_get_or_create; reflexivity.
Qed.
Lemma fw_pod_delete h s p : st_fw (pod_delete h s p) = st_fw s.
Proof.
  unfold pod_delete. destruct (gang_of h p =? 0); [reflexivity|].
  destruct (get_gang s (gang_of h p)); [|reflexivity]. cbv zeta.
  match goal with |- st_fw (if ?c then _ else _) = _ => destruct c end; rewrite ?fw_drop; reflexivity.
Qed.
Lemma fw_pg_add h s g c : st_fw (pg_add h s g c) = st_fw s.
Proof.
  unfold pg_add. destruct (negb (valid_gid h g)); [reflexivity|]. cbv zeta.
  destruct (get_gang _ g); [match goal with |- st_fw (if ?c then _ else _) = _ => destruct c end|];
  rewrite ?fw_attach, fw_upd_gang, fw_get_or_create; reflexivity.
Qed.
Lemma fw_pg_update h s g c : st_fw (pg_update h s g c) = st_fw s.
Proof.
  unfold pg_update. destruct (negb (valid_gid h g)); [reflexivity|].
  destruct (get_gang s g); [|reflexivity]. cbv zeta.
  destruct (get_gang _ g); [match goal with |- st_fw (if ?c then _ else _) = _ => destruct c end|];
  rewrite ?fw_attach, fw_upd_gang; reflexivity.
Qed.
Lemma fw_pg_delete h s g : st_fw (pg_delete h s g) = st_fw s.
Proof.
  unfold pg_delete. destruct (negb (valid_gid h g)); [reflexivity|].
  destruct (get_gang s g); [|reflexivity]. rewrite fw_drop. reflexivity.
Qed.
Lemma fw_post_bind h s p : st_fw (post_bind h s p) = st_fw s.
Proof.
  unfold post_bind, add_bound. destruct (gang_of h p =? 0); [reflexivity|].
  rewrite fw_set_sat, fw_upd_gang. reflexivity.
Qed.

(* ---------- the per-operation clauses hold of every model step ---------- *)
Lemma check_event_ok s s' : st_fw s' = st_fw s -> check_event (view s) out0 (view s') = 0.
Proof.
  intros E. unfold check_event. simpl. rewrite E, set_eqb_refl. reflexivity.
Qed.

Lemma same_set_sadd p l : set_eqb (sadd p l) (p :: l) = true.
Proof. apply set_eqb_spec. intros x. rewrite sadd_In. simpl. split; intros [H|H]; auto. Qed.

Lemma vget_put_same s g x : vget (view (put_gang s g x)) g = Some (gview_of (put_gang s g x) x).
Proof. rewrite vget_view. unfold get_gang. simpl. rewrite assocZ_putZ_same. reflexivity. Qed.

Lemma check_permit_ok h strict s p :
  (strict = true -> all_part (fst (permit h s p))) ->
  check_permit h strict (view s) p (snd (permit h s p)) (view (fst (permit h s p))) = 0.
Proof.
  intros Hstrict. revert Hstrict.
  unfold permit, check_permit. cbv zeta.
  destruct (gang_of h p =? 0) eqn:Eg.
  - intros _. simpl. rewrite set_eqb_refl. reflexivity.
  - destruct (get_gang s (gang_of h p)) as [x|] eqn:E.
    + cbv zeta.
      set (s1 := put_gang s (gang_of h p) (g_add_assumed p x)).
      destruct (all_valid s1 (g_group x)) eqn:Ev; cbn [fst snd]; intros Hstrict.
      * assert (Hreal : strict && negb (group_validb_real
                   (view (set_fw s1 (filter (fun q => negb (in_group h (g_group x) q)) (st_fw s1)))) (g_group x)) = false).
        { destruct strict; [|reflexivity]. cbn [andb]. rewrite group_validb_real_view by (apply Hstrict; reflexivity).
          rewrite group_validb_view. change (all_valid s1 (g_group x)) with (all_valid (set_fw s1 (filter (fun q => negb (in_group h (g_group x) q)) (st_fw s1))) (g_group x)) in Ev. rewrite Ev. reflexivity. }
        rewrite vget_view. unfold get_gang. cbn [st_gangs set_fw s1 put_gang].
        rewrite assocZ_putZ_same. cbn [option_map o_rejected o_res o_allowed is_nil negb gview_of v_group g_group g_add_assumed g_with_sets].
        change (res_success =? res_success) with true. cbv iota.
        rewrite group_validb_view.
        assert (Ev' : all_valid (set_fw s1 (filter (fun q => negb (in_group h (g_group x) q)) (st_fw s1))) (g_group x) = true)
          by exact Ev.
        rewrite Ev'. cbn [negb]. rewrite Hreal. unfold members, others. cbn [sv_fw view st_fw set_fw s1 put_gang].
        rewrite !set_eqb_refl. reflexivity.
      * rewrite vget_view. unfold get_gang. cbn [st_gangs set_fw s1 put_gang].
        rewrite assocZ_putZ_same. cbn [option_map o_rejected o_res o_allowed is_nil negb gview_of v_group g_group g_add_assumed g_with_sets].
        change (res_wait =? res_success) with false. change (res_wait =? res_wait) with true. cbv iota.
        rewrite group_validb_view.
        assert (Ev' : all_valid (set_fw s1 (sadd p (st_fw s1))) (g_group x) = false) by exact Ev.
        rewrite Ev'. cbn [sv_fw view st_fw set_fw s1 put_gang].
        rewrite same_set_sadd. reflexivity.
    + cbn [fst snd]. intros _. rewrite vget_view, E. simpl. rewrite set_eqb_refl. reflexivity.
Qed.

Lemma must_reject_gview s x : must_reject (gview_of s x) = negb (exempt s x) && g_strict x.
Proof. unfold must_reject, exempt. simpl. apply andb_comm. Qed.

Lemma check_reject_ok h s0 g x fw' (d : Z) :
  get_gang s0 g = Some x -> st_fw s0 = fw' -> negb (exempt s0 x) && g_strict x = true ->
  let r := reject_group h s0 (g_group x) in
  match vget (view (fst r)) g with
  | None => d
  | Some x =>
      if must_reject x
      then if set_eqb (o_rejected (snd r)) (members h (v_group x) fw')
              && set_eqb (sv_fw (view (fst r))) (others h (v_group x) fw') then 0 else 4
      else if quiet (snd r) (view (fst r)) fw' then 0 else 4
  end = 0.
Proof.
  intros E Efw Hm. cbv zeta. unfold reject_group. cbn [fst snd].
  rewrite vget_view. unfold get_gang. cbn [st_gangs set_fw]. unfold get_gang in E. rewrite E.
  cbn [option_map].
  assert (Hm' : must_reject (gview_of (set_fw s0 (filter (fun q => negb (in_group h (g_group x) q)) (st_fw s0))) x) = true)
    by (rewrite must_reject_gview; exact Hm).
  rewrite Hm'. cbn [o_rejected v_group gview_of sv_fw view st_fw set_fw]. unfold members, others.
  rewrite Efw, !set_eqb_refl. reflexivity.
Qed.

Lemma check_unreserve_ok h s p :
  check_rollback h true (view s) p (snd (unreserve h s p)) (view (fst (unreserve h s p))) = 0.
Proof.
  unfold unreserve, check_rollback. cbv zeta.
  set (s0 := set_fw s (srem p (st_fw s))).
  destruct (gang_of h p =? 0) eqn:Eg.
  - cbn [fst snd out0 o_allowed o_res is_nil negb]. change (0 =? 0) with true. cbn [negb].
    unfold quiet. cbn. rewrite set_eqb_refl. reflexivity.
  - destruct (get_gang s0 (gang_of h p)) as [x|] eqn:E.
    + set (x' := g_del_assumed p x). set (s1 := put_gang s0 (gang_of h p) x').
      destruct (negb (exempt s1 x') && g_strict x') eqn:Em.
      * assert (Ea : o_allowed (snd (reject_group h s1 (g_group x'))) = []) by reflexivity.
        assert (Er : o_res (snd (reject_group h s1 (g_group x'))) = 0) by reflexivity.
        rewrite Ea, Er. cbn [is_nil negb]. change (0 =? 0) with true. cbn [negb].
        apply (check_reject_ok h s1 (gang_of h p) x' (srem p (sv_fw (view s))) _).
        -- unfold s1, get_gang. simpl. apply assocZ_putZ_same.
        -- reflexivity.
        -- exact Em.
      * cbn [fst snd out0 o_allowed o_res is_nil negb]. change (0 =? 0) with true. cbn [negb].
        unfold s1 at 1. rewrite vget_put_same. fold s1. rewrite must_reject_gview, Em.
        unfold quiet. cbn. rewrite set_eqb_refl. reflexivity.
    + cbn [fst snd out0 o_allowed o_res is_nil negb]. change (0 =? 0) with true. cbn [negb].
      rewrite vget_view, E. unfold quiet. cbn. rewrite set_eqb_refl. reflexivity.
Qed.

Lemma check_apf_ok h s p :
  check_rollback h false (view s) p (snd (after_post_filter h s p)) (view (fst (after_post_filter h s p))) = 0.
Proof.
  unfold after_post_filter, check_rollback. cbv zeta.
  destruct (gang_of h p =? 0) eqn:Eg.
  - cbn [fst snd out0 o_allowed o_res is_nil negb]. change (0 =? 0) with true. cbn [negb].
    unfold quiet. cbn. rewrite set_eqb_refl. reflexivity.
  - destruct (get_gang s (gang_of h p)) as [x|] eqn:E.
    + destruct (exempt s x) eqn:Ex; [|destruct (g_strict x) eqn:Es].
      * cbn [fst snd out0 o_allowed o_res is_nil negb]. change (0 =? 0) with true. cbn [negb].
        rewrite vget_view, E. cbn [option_map]. rewrite must_reject_gview, Ex. cbn [negb andb].
        unfold quiet. cbn. rewrite set_eqb_refl. reflexivity.
      * assert (Ea : o_allowed (snd (reject_group h s (g_group x))) = []) by reflexivity.
        assert (Er : o_res (snd (reject_group h s (g_group x))) = 0) by reflexivity.
        rewrite Ea, Er. cbn [is_nil negb]. change (0 =? 0) with true. cbn [negb].
        apply (check_reject_ok h s (gang_of h p) x (sv_fw (view s)) _).
        -- exact E.
        -- reflexivity.
        -- rewrite Ex, Es. reflexivity.
      * cbn [fst snd out0 o_allowed o_res is_nil negb]. change (0 =? 0) with true. cbn [negb].
        rewrite vget_view, E. cbn [option_map]. rewrite must_reject_gview, Ex, Es. cbn [negb andb].
        unfold quiet. cbn. rewrite set_eqb_refl. reflexivity.
    + cbn [fst snd out0 o_allowed o_res is_nil negb]. change (0 =? 0) with true. cbn [negb].
      rewrite vget_view, E. unfold quiet. cbn. rewrite set_eqb_refl. reflexivity.
Qed.

Lemma check_op_ok h strict s o :
  (strict = true -> all_part (fst (step h s o))) ->
  check_op h strict (view s) o (snd (step h s o)) (view (fst (step h s o))) = 0.
Proof.
  intros Hstrict. destruct o; cbn [step check_op fst snd] in *.
  - apply check_event_ok. apply fw_pod_event.
  - apply check_event_ok. destruct terminated; [reflexivity | apply fw_pod_event].
  - apply check_event_ok. apply fw_pod_delete.
  - apply check_event_ok. apply fw_pg_add.
  - apply check_event_ok. apply fw_pg_update.
  - apply check_event_ok. apply fw_pg_delete.
  - apply check_permit_ok. exact Hstrict.
  - apply check_unreserve_ok.
  - apply check_event_ok. apply fw_post_bind.
  - apply check_apf_ok.
  - apply check_event_ok. reflexivity.
Qed.
