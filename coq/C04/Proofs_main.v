(* C04 — proofs, part 3: the decision procedure is sound for the Props, and the main theorem:
   the property holds of every observation of every history of the model. *)
From Coq Require Import List ZArith Bool Lia.
From Verif Require Import C04.Model C04.Spec C04.Proofs C04.Proofs_state C04.Proofs_decl C04.Proofs_rec.
Import ListNotations.
Open Scope Z_scope.

(* ---------- soundness of the boolean checks ---------- *)
Lemma check_event_sound prev r cur : check_event prev r cur = 0 -> event_holds prev r cur.
Proof.
  unfold check_event, event_holds.
  destruct (is_nil (o_allowed r)) eqn:Ea; cbn [negb]; [|discriminate].
  destruct (is_nil (o_rejected r)) eqn:Er; cbn [negb]; [|discriminate].
  destruct (o_res r =? 0); cbn [negb]; [|discriminate].
  destruct (set_eqb (sv_fw cur) (sv_fw prev)) eqn:Ef; [|discriminate].
  intros _. apply is_nil_spec in Ea, Er. apply set_eqb_spec in Ef. auto.
Qed.

Lemma check_permit_sound h strict prev p r cur :
  check_permit h strict prev p r cur = 0 -> permit_holds h strict prev p r cur.
Proof.
  unfold check_permit, permit_holds. cbv zeta.
  destruct (if gang_of h p =? 0 then None else vget cur (gang_of h p)) as [x|].
  - destruct (is_nil (o_rejected r)) eqn:Er; cbn [negb]; [|discriminate].
    apply is_nil_spec in Er. intros H. split; [exact Er|].
    destruct (o_res r =? res_success) eqn:E0.
    + apply Z.eqb_eq in E0.
      destruct (group_validb cur (v_group x)) eqn:Ev; cbn [negb] in H; [|discriminate].
      destruct (strict && negb (group_validb_real cur (v_group x))) eqn:Esr; [discriminate|].
      destruct (set_eqb (o_allowed r) (members h (v_group x) (sv_fw prev))) eqn:E1; [|discriminate].
      destruct (set_eqb (sv_fw cur) (others h (v_group x) (sv_fw prev))) eqn:E2; [|discriminate].
      left. apply group_validb_spec in Ev. apply set_eqb_spec in E1, E2.
      repeat split; auto; try apply E1; try apply E2.
      intros Hs. rewrite Hs in Esr. cbn [andb] in Esr. apply negb_false_iff in Esr.
      apply group_validb_real_spec. exact Esr.
    + destruct (o_res r =? res_wait) eqn:E1; [|discriminate]. apply Z.eqb_eq in E1.
      destruct (is_nil (o_allowed r)) eqn:Ea; cbn [negb] in H; [|discriminate].
      destruct (group_validb cur (v_group x)) eqn:Ev; [discriminate|].
      destruct (set_eqb (sv_fw cur) (p :: sv_fw prev)) eqn:E2; [|discriminate].
      right. apply is_nil_spec in Ea. apply set_eqb_spec in E2.
      repeat split; auto.
      * intros Hv. apply group_validb_spec in Hv. congruence.
      * apply E2.
      * apply E2.
  - destruct (is_nil (o_allowed r)) eqn:Ea; cbn [negb]; [|discriminate].
    destruct (is_nil (o_rejected r)) eqn:Er; cbn [negb]; [|discriminate].
    apply is_nil_spec in Ea, Er.
    match goal with |- (if negb (o_res r =? ?c) then _ else _) = 0 -> _ => destruct (o_res r =? c) eqn:Ec end;
      cbn [negb]; [|discriminate].
    destruct (set_eqb (sv_fw cur) (sv_fw prev)) eqn:Ef; [|discriminate].
    intros _. apply set_eqb_spec in Ef. apply Z.eqb_eq in Ec.
    repeat split; auto; try apply Ef;
      rewrite Ec; destruct (gang_of h p =? 0); unfold res_not_specified, res_not_found, res_success, res_wait; lia.
Qed.

Lemma quiet_sound r cur fw' : quiet r cur fw' = true -> o_rejected r = [] /\ same_set (sv_fw cur) fw'.
Proof.
  unfold quiet. rewrite andb_true_iff, is_nil_spec, set_eqb_spec. tauto.
Qed.

Lemma check_rollback_sound h u prev p r cur :
  check_rollback h u prev p r cur = 0 -> rollback_holds h u prev p r cur.
Proof.
  unfold check_rollback, rollback_holds. cbv zeta.
  destruct (is_nil (o_allowed r)) eqn:Ea; cbn [negb]; [|discriminate].
  destruct (o_res r =? 0); cbn [negb]; [|discriminate].
  apply is_nil_spec in Ea. intros H. split; [exact Ea|].
  destruct (if gang_of h p =? 0 then None else vget cur (gang_of h p)) as [x|].
  - destruct (must_reject x).
    + match type of H with (if ?a && ?b then _ else _) = _ => destruct a eqn:E1; [destruct b eqn:E2|] end;
        try discriminate.
      apply set_eqb_spec in E1, E2. auto.
    + match type of H with (if ?a then _ else _) = _ => destruct a eqn:E1 end; [|discriminate].
      apply quiet_sound. exact E1.
  - match type of H with (if ?a then _ else _) = _ => destruct a eqn:E1 end; [|discriminate].
    apply quiet_sound. exact E1.
Qed.

Lemma check_op_sound h strict prev o r cur :
  check_op h strict prev o r cur = 0 -> op_holds h strict prev o r cur.
Proof.
  destruct o; cbn [check_op op_holds];
    first [apply check_event_sound | apply check_permit_sound | apply check_rollback_sound].
Qed.

Theorem prop_walk_sound h : forall ops l tainted ds rs prev,
  prop_walk h tainted ds rs prev ops l = 0 -> holds_walk h tainted ds rs prev ops l.
Proof.
  induction ops as [|o ops IH]; intros l tainted ds rs prev; destruct l as [|[r cur] l]; simpl;
    try discriminate; [tauto|].
  unfold step_code.
  set (t' := tainted || permit_guard_viol h prev o).
  set (ds' := decl_step h ds o).
  set (rs' := rec_step h prev ds rs o).
  destruct (negb t' && negb (all_part_okb cur)) eqn:E1; [discriminate|].
  destruct (decl_matchb ds' cur) eqn:E8; cbn [negb]; [|discriminate].
  destruct (rec_matchb rs' cur) eqn:E9; cbn [negb]; [|discriminate].
  destruct (check_op h (negb t') prev o r cur =? 0) eqn:E2.
  - apply Z.eqb_eq in E2. intros H. split; [|split; [|split; [|split]]].
    + intros Ht. rewrite Ht in E1. cbn [negb andb] in E1. apply negb_false_iff in E1.
      apply all_part_okb_spec. exact E1.
    + apply decl_matchb_sound. exact E8.
    + apply rec_matchb_sound. exact E9.
    + apply check_op_sound. exact E2.
    + apply IH. exact H.
  - intros H. rewrite H in E2. discriminate.
Qed.

Theorem prop_code_sound h ops l : prop_code h ops l = 0 -> C04_holds h ops l.
Proof. apply prop_walk_sound. Qed.

(* ---------- the main theorem ---------- *)
Lemma prop_walk_run h : forall ops s tainted,
  (tainted = false -> all_part s) ->
  prop_walk h tainted (proj s) (rs_of s) (view s) ops (run_from h s ops) = 0.
Proof.
  induction ops as [|o ops IH]; intros s tainted Hinv; simpl; [reflexivity|].
  destruct (step h s o) as [s' r] eqn:Es.
  assert (Es' : s' = fst (step h s o)) by (rewrite Es; reflexivity).
  assert (Er : r = snd (step h s o)) by (rewrite Es; reflexivity).
  set (t' := tainted || permit_guard_viol h (view s) o).
  assert (Hinv' : t' = false -> all_part s').
  { intros Ht. unfold t' in Ht. apply orb_false_iff in Ht. destruct Ht as [Ht Hg].
    rewrite permit_guard_view in Hg. apply negb_false_iff in Hg.
    rewrite Es'. apply all_part_step; [apply Hinv; exact Ht | exact Hg]. }
  assert (Hds : decl_step h (proj s) o = proj s') by (rewrite Es'; symmetry; apply proj_step).
  assert (Hrs : rec_step h (view s) (proj s) (rs_of s) o = rs_of s') by (rewrite Es'; symmetry; apply rs_step).
  rewrite Hds, Hrs.
  assert (Hc : step_code h t' (proj s') (rs_of s') (view s) o r (view s') = 0).
  { unfold step_code. rewrite decl_matchb_proj, rec_matchb_rs_of. cbn [negb]. destruct t' eqn:Et; cbn [negb andb].
    - rewrite Es', Er. apply check_op_ok. discriminate.
    - assert (Hp : all_part_okb (view s') = true).
      { apply all_part_okb_spec. apply all_part_view. apply Hinv'. reflexivity. }
      rewrite Hp. cbn [negb]. rewrite Es', Er. apply check_op_ok. intros _. rewrite <- Es'. apply Hinv'. reflexivity. }
  rewrite Hc. cbn. apply IH. exact Hinv'.
Qed.

Theorem prop_code_run h ops : prop_code h ops (run h ops) = 0.
Proof.
  unfold prop_code, run. apply (prop_walk_run h ops init_state false). intros _. apply all_part_init.
Qed.

Theorem C04_holds_run h ops : C04_holds h ops (run h ops).
Proof. apply prop_code_sound. apply prop_code_run. Qed.

(* ---------- the partition after every prefix of a protocol-conformant history ---------- *)
Fixpoint conformant (h : hdr) (s : state) (ops : list op) : Prop :=
  match ops with
  | [] => True
  | o :: t => permit_ok h s o = true /\ conformant h (fst (step h s o)) t
  end.

Lemma exec_app h s a b : exec h s (a ++ b) = exec h (exec h s a) b.
Proof. unfold exec. apply fold_left_app. Qed.

Lemma all_part_exec h : forall pre s suf,
  all_part s -> conformant h s (pre ++ suf) -> all_part (exec h s pre).
Proof.
  induction pre as [|o pre IH]; intros s suf Hs Hc; simpl; [exact Hs|].
  simpl in Hc. destruct Hc as [Hg Hc]. apply (IH _ suf); [|exact Hc].
  apply all_part_step; assumption.
Qed.

Theorem partition_every_prefix h ops pre suf :
  conformant h init_state ops -> ops = pre ++ suf ->
  forall g x, get_gang (exec h init_state pre) g = Some x ->
    gpart x /\
    forall p, In p (g_children x) ->
      (In p (g_pending x) /\ ~ In p (g_waiting x) /\ ~ In p (g_bound x))
      \/ (~ In p (g_pending x) /\ In p (g_waiting x) /\ ~ In p (g_bound x))
      \/ (~ In p (g_pending x) /\ ~ In p (g_waiting x) /\ In p (g_bound x)).
Proof.
  intros Hc -> g x E.
  assert (Hx : gpart x).
  { apply (all_part_get (exec h init_state pre) g x); [|exact E].
    apply (all_part_exec h pre init_state suf); [apply all_part_init | exact Hc]. }
  split; [exact Hx|]. intros p Hp. apply (part4_exactly_one _ _ _ _ p Hx Hp).
Qed.

(* the declarations and member sets of the cache after any history are the ones tracked from the
   informer events alone *)
Theorem declarations_follow_history h ops :
  proj (exec h init_state ops) = fold_left (decl_step h) ops [].
Proof.
  change (@nil (Z * decl)) with (proj init_state). generalize init_state.
  induction ops as [|o ops IH]; intros s; [reflexivity|].
  unfold exec in *. cbn [fold_left]. rewrite IH, proj_step. reflexivity.
Qed.

(* ---------- per-step statements on model states ---------- *)
Theorem release_iff_group_valid h s p s' r :
  step h s (Permit p) = (s', r) ->
  forall x, get_gang s' (gang_of h p) = Some x -> gang_of h p <> 0 ->
  (o_res r = res_success <-> group_valid (view s') (v_group (gview_of s' x)))
  /\ (o_res r = res_success \/ o_res r = res_wait).
Proof.
  intros Es x Ex Hg.
  pose proof (check_permit_ok h false s p) as Hc. cbn [step] in Es. rewrite Es in Hc. cbn [fst snd] in Hc.
  specialize (Hc ltac:(discriminate)).
  apply check_permit_sound in Hc. destruct Hc as [_ Hc].
  apply Z.eqb_neq in Hg. rewrite Hg, vget_view, Ex in Hc. cbn [option_map] in Hc.
  destruct Hc as [(H1 & H2 & _)|(H1 & H2 & _)].
  - split; [tauto | left; exact H1].
  - split; [|right; exact H1]. split; [|tauto]. rewrite H1. discriminate.
Qed.

(* under the protocol guard the members counted by a Success really are children of their gangs *)
Theorem release_counts_real_members h s p s' r :
  all_part s -> permit_ok h s (Permit p) = true ->
  step h s (Permit p) = (s', r) -> o_res r = res_success ->
  forall x, get_gang s' (gang_of h p) = Some x -> gang_of h p <> 0 ->
  group_valid_real (view s') (g_group x).
Proof.
  intros Hs Hg Es Hr x Ex Hne.
  assert (Hs' : all_part s').
  { replace s' with (fst (step h s (Permit p))) by (rewrite Es; reflexivity). apply all_part_step; assumption. }
  pose proof (check_permit_ok h true s p) as Hc. cbn [step] in Es. rewrite Es in Hc. cbn [fst snd] in Hc.
  specialize (Hc (fun _ => Hs')).
  apply check_permit_sound in Hc. destruct Hc as [_ Hc].
  apply Z.eqb_neq in Hne. rewrite Hne, vget_view, Ex in Hc. cbn [option_map] in Hc.
  destruct Hc as [(_ & _ & H3 & _)|(H1 & _)]; [apply H3; reflexivity | rewrite H1 in Hr; discriminate].
Qed.

Theorem allow_only_on_success h s o s' r :
  step h s o = (s', r) -> o_allowed r <> [] -> exists p, o = Permit p /\ o_res r = res_success.
Proof.
  intros Es Hne.
  pose proof (check_op_ok h false s o) as Hc. rewrite Es in Hc. cbn [fst snd] in Hc.
  specialize (Hc ltac:(discriminate)).
  apply check_op_sound in Hc.
  destruct o; cbn [op_holds] in Hc;
    try (destruct Hc as [Ha _]; congruence).
  exists p. split; [reflexivity|].
  destruct Hc as [_ Hc].
  destruct (if gang_of h p =? 0 then None else vget (view s') (gang_of h p)).
  - destruct Hc as [(H1 & _)|(_ & _ & H1 & _)]; [exact H1 | congruence].
  - destruct Hc as (H1 & _). congruence.
Qed.

Theorem allow_all_on_success h s p s' r :
  step h s (Permit p) = (s', r) -> o_res r = res_success ->
  exists x, get_gang s' (gang_of h p) = Some x /\
    forall q, In q (st_fw s) -> In (gang_of h q) (g_group x) -> In q (o_allowed r) /\ ~ In q (st_fw s').
Proof.
  intros Es Hr.
  pose proof (check_permit_ok h false s p) as Hc. cbn [step] in Es. rewrite Es in Hc. cbn [fst snd] in Hc.
  specialize (Hc ltac:(discriminate)).
  apply check_permit_sound in Hc. destruct Hc as [_ Hc].
  destruct (gang_of h p =? 0) eqn:Eg.
  - destruct Hc as (_ & H1 & _). congruence.
  - rewrite vget_view in Hc. destruct (get_gang s' (gang_of h p)) as [x|]; cbn [option_map] in Hc.
    + exists x. split; [reflexivity|].
      destruct Hc as [(_ & _ & _ & Ha & Hf)|(H1 & _)]; [|rewrite H1 in Hr; discriminate].
      intros q Hq Hg. cbn in Ha, Hf. split.
      * apply Ha. unfold members. apply filter_In. split; [exact Hq|]. unfold in_group. apply memZ_In. exact Hg.
      * intros Hin. apply Hf in Hin. unfold others in Hin. apply filter_In in Hin. destruct Hin as [_ Hn].
        apply negb_true_iff in Hn. unfold in_group in Hn. apply memZ_nIn in Hn. tauto.
    + destruct Hc as (_ & H1 & _). congruence.
Qed.

Theorem strict_reject_all h s o p s' r :
  (o = Unreserve p \/ o = AfterPostFilter p) ->
  step h s o = (s', r) ->
  forall x, get_gang s' (gang_of h p) = Some x -> gang_of h p <> 0 ->
  g_strict x = true -> ~ (g_policy x = pol_once_satisfied /\ gang_sat s' x = true) ->
  forall q, q <> p \/ o = AfterPostFilter p -> In q (st_fw s) -> In (gang_of h q) (g_group x) ->
    In q (o_rejected r) /\ ~ In q (st_fw s').
Proof.
  intros Ho Es x Ex Hg Hs Hne q Hq Hin Hgrp.
  pose proof (check_op_ok h false s o) as Hc. rewrite Es in Hc. cbn [fst snd] in Hc.
  specialize (Hc ltac:(discriminate)).
  apply check_op_sound in Hc.
  assert (Hm : must_reject (gview_of s' x) = true).
  { unfold must_reject. cbn. rewrite Hs. cbn. apply negb_true_iff. apply andb_false_iff.
    destruct (g_policy x =? pol_once_satisfied) eqn:E; [|left; reflexivity].
    right. apply Z.eqb_eq in E. destruct (gang_sat s' x); [exfalso; apply Hne; auto | reflexivity]. }
  apply Z.eqb_neq in Hg.
  assert (Hmem : forall fw', In q fw' -> In q (members h (g_group x) fw')).
  { intros fw' H. unfold members. apply filter_In. split; [exact H|]. unfold in_group. apply memZ_In. exact Hgrp. }
  assert (Hoth : forall fw', ~ In q (others h (g_group x) fw')).
  { intros fw' H. unfold others in H. apply filter_In in H. destruct H as [_ H].
    apply negb_true_iff in H. unfold in_group in H. apply memZ_nIn in H. tauto. }
  destruct Ho as [-> | ->]; cbn [op_holds] in Hc; unfold rollback_holds in Hc; cbv zeta in Hc;
    rewrite Hg, vget_view, Ex in Hc; cbn [option_map] in Hc; rewrite Hm in Hc;
    destruct Hc as (_ & Hr & Hf); cbn [v_group gview_of] in Hr, Hf; cbn in Hr, Hf.
  - destruct Hq as [Hq | Hq]; [|discriminate].
    split; [apply Hr, Hmem; apply srem_In; tauto|]. intros H. apply Hf in H. apply (Hoth _ H).
  - split; [apply Hr, Hmem; exact Hin|]. intros H. apply Hf in H. apply (Hoth _ H).
Qed.
