(* C04 — exported theorems only: each is closed by [exact] and followed by Print Assumptions. *)
From Coq Require Import List ZArith Bool.
From Verif Require Import Lib.Interleave Lib.InterleaveX.
From Verif Require Import C04.Model C04.Spec C04.Proofs C04.Proofs_state C04.Proofs_decl C04.Proofs_rec C04.Proofs_wire C04.Proofs_main C04.Proofs_more C04.Sections C04.Proofs_conc.
Import ListNotations.
Open Scope Z_scope.

(* MAIN: for every case header and every finite history of pod / PodGroup events, Permit,
   Unreserve, PostBind and AfterPostFilter calls (any order, any interleaving of entry points),
   the decision procedure that the check runs on the implementation's observations accepts the
   model's observations ([run] and [prop_code] are exactly what Extract.v executes). *)
Theorem c04_main : forall h ops, prop_code h ops (run h ops) = 0.
Proof. exact prop_code_run. Qed.
Print Assumptions c04_main.

(* the decision procedure is sound for the property written as Props *)
Theorem c04_prop_code_sound : forall h ops l, prop_code h ops l = 0 -> C04_holds h ops l.
Proof. exact prop_code_sound. Qed.
Print Assumptions c04_prop_code_sound.

Theorem c04_holds : forall h ops, C04_holds h ops (run h ops).
Proof. exact C04_holds_run. Qed.
Print Assumptions c04_holds.

(* what a gang is (declared mode / policy / minimum / group / origin, member set) after any history
   is a function of the informer events alone: the cache refines the tracker [decl_step] that
   prop_code runs next to the implementation's observations (clause 8) *)
Theorem c04_declarations_follow_history : forall h ops,
  proj (exec h init_state ops) = fold_left (decl_step h) ops [].
Proof. exact declarations_follow_history. Qed.
Print Assumptions c04_declarations_follow_history.

(* which gang-group record every gang is wired to, which records the cache's map holds and which of
   them are once-satisfied after any history are the ones the tracker [rec_step] recomputes from the
   operations (clause 9; the tracker is fed the model's own previous observation and declarations) *)
Theorem c04_records_follow_history : forall h ops,
  rs_of (exec h init_state ops) = rec_run h init_state rstate0 ops.
Proof. exact records_follow_history. Qed.
Print Assumptions c04_records_follow_history.

(* membership partition: after every prefix of every protocol-conformant history (no Permit for a
   pod the cache holds as bound, no Permit / PostBind for a pod that is not a child of its gang at
   that moment), every child of every gang is in exactly one of pending / waiting / bound, and
   pending, waiting and bound contain only current children ([gpart]; duplicate free) *)
Theorem c04_partition : forall h ops pre suf,
  conformant h init_state ops -> ops = pre ++ suf ->
  forall g x, get_gang (exec h init_state pre) g = Some x ->
    gpart x /\
    forall p, In p (g_children x) ->
      (In p (g_pending x) /\ ~ In p (g_waiting x) /\ ~ In p (g_bound x))
      \/ (~ In p (g_pending x) /\ In p (g_waiting x) /\ ~ In p (g_bound x))
      \/ (~ In p (g_pending x) /\ ~ In p (g_waiting x) /\ In p (g_bound x)).
Proof. exact partition_every_prefix. Qed.
Print Assumptions c04_partition.

(* one step, any state (reachable or not) *)
Theorem c04_partition_step : forall h s o,
  all_part s -> permit_ok h s o = true -> all_part (fst (step h s o)).
Proof. exact all_part_step. Qed.
Print Assumptions c04_partition_step.

(* all interleavings of the lock-protected sections of gang.go on one gang object, by any number
   of goroutines: no pod is ever in two of the sets, pending pods are children, no duplicates *)
Theorem c04_partition_sections : forall (ts : list (list sec)) (l : list sec) (x0 : gang),
  interleaving ts l -> gwpart x0 ->
  forall pre suf, l = pre ++ suf ->
    snd (Interleave.exec sec_step (x0, false) pre) = false ->
    gwpart (fst (Interleave.exec sec_step (x0, false) pre)).
Proof. exact sections_interleaving. Qed.
Print Assumptions c04_partition_sections.

(* concurrent informer goroutines (PodGroup informer, Pod informer, Reservation informer), handlers
   decomposed into their lock sections (get-or-create of the cache entry under the cache lock;
   tryInitByPodConfig / tryInitByPodGroup / setChild under the gang lock). For event threads without delete
   events in which every section that updates a gang comes after a get-or-create of that gang in the same
   thread, and the PodGroup sections of one gang all sit in one thread: ALL interleavings of the sections
   leave every gang the same (declaration equal, member sets equal as sets) ... *)
Theorem c04_sections_confluent : forall h (tes : list (list op)) l1 l2,
  let ts := map (flat_map (secs_of h)) tes in
  Forall (fun t => guardedb [] t = true) ts ->
  (forall g, busy (map (filter (is_initpg g)) ts) <= 1)%nat ->
  interleaving ts l1 -> interleaving ts l2 ->
  forall g, decl_opt_eqv (assocZ g (run_secs l1 [])) (assocZ g (run_secs l2 [])).
Proof. exact sections_confluent. Qed.
Print Assumptions c04_sections_confluent.

(* ... namely as the declaration tracker of clause 8 says for any handler-atomic order of the events *)
Theorem c04_concurrent_informers_confluent : forall h (tes : list (list op)) l le,
  let ts := map (flat_map (secs_of h)) tes in
  Forall (fun t => guardedb [] t = true) ts ->
  (forall g, busy (map (filter (is_initpg g)) ts) <= 1)%nat ->
  Forall (Forall (fun o => is_delete o = false)) tes ->
  interleaving ts l -> interleaving tes le ->
  forall g, decl_opt_eqv (assocZ g (run_secs l [])) (assocZ g (fold_left (decl_step h) le [])).
Proof. exact concurrent_informers_confluent. Qed.
Print Assumptions c04_concurrent_informers_confluent.

(* the stream "race" (no hypothesis left): for every history, the monotone part split over the three
   informer goroutines satisfies the hypotheses above, so the figures the harness projects at quiescence
   are, for every interleaving of the lock sections, the ones [race_figs] computes in history order *)
Theorem c04_race_figures_interleaving_independent : forall h ops l,
  let evs := mono_ops ops in
  interleaving (map (flat_map (secs_of h)) (race_threads evs)) l ->
  forall g, decl_opt_eqv (assocZ g (run_secs l [])) (assocZ g (fold_left (decl_step h) evs [])).
Proof. exact race_figures_interleaving_independent. Qed.
Print Assumptions c04_race_figures_interleaving_independent.

(* Permit returns Success exactly when every gang of the pod's group exists and has its minimum
   number of members holding resources; otherwise it returns Wait (any state) *)
Theorem c04_release_only_when_satisfied : forall h s p s' r,
  step h s (Permit p) = (s', r) ->
  forall x, get_gang s' (gang_of h p) = Some x -> gang_of h p <> 0 ->
  (o_res r = res_success <-> group_valid (view s') (v_group (gview_of s' x)))
  /\ (o_res r = res_success \/ o_res r = res_wait).
Proof. exact release_iff_group_valid. Qed.
Print Assumptions c04_release_only_when_satisfied.

(* ... and in a conformant state the members counted are real: every gang of the group has its
   minimum number of CHILDREN waiting (or waiting + bound) *)
Theorem c04_release_counts_real_members : forall h s p s' r,
  all_part s -> permit_ok h s (Permit p) = true ->
  step h s (Permit p) = (s', r) -> o_res r = res_success ->
  forall x, get_gang s' (gang_of h p) = Some x -> gang_of h p <> 0 ->
  group_valid_real (view s') (g_group x).
Proof. exact release_counts_real_members. Qed.
Print Assumptions c04_release_counts_real_members.

(* a waiting pod is allowed only by a Permit that returns Success *)
Theorem c04_allow_only_on_success : forall h s o s' r,
  step h s o = (s', r) -> o_allowed r <> [] -> exists p, o = Permit p /\ o_res r = res_success.
Proof. exact allow_only_on_success. Qed.
Print Assumptions c04_allow_only_on_success.

Theorem c04_allow_all : forall h s p s' r,
  step h s (Permit p) = (s', r) -> o_res r = res_success ->
  exists x, get_gang s' (gang_of h p) = Some x /\
    forall q, In q (st_fw s) -> In (gang_of h q) (g_group x) -> In q (o_allowed r) /\ ~ In q (st_fw s').
Proof. exact allow_all_on_success. Qed.
Print Assumptions c04_allow_all.

Theorem c04_strict_reject : forall h s o p s' r,
  (o = Unreserve p \/ o = AfterPostFilter p) ->
  step h s o = (s', r) ->
  forall x, get_gang s' (gang_of h p) = Some x -> gang_of h p <> 0 ->
  g_strict x = true -> ~ (g_policy x = pol_once_satisfied /\ gang_sat s' x = true) ->
  forall q, q <> p \/ o = AfterPostFilter p -> In q (st_fw s) -> In (gang_of h q) (g_group x) ->
    In q (o_rejected r) /\ ~ In q (st_fw s').
Proof. exact strict_reject_all. Qed.
Print Assumptions c04_strict_reject.

(* the once-satisfied flag of a group info object is irreversible and only set by a bind *)
Theorem c04_once_satisfied_only_by_bind : forall h s o r,
  (sat_at s r = true -> sat_at (fst (step h s o)) r = true)
  /\ (sat_at s r = false -> sat_at (fst (step h s o)) r = true -> binds o).
Proof. exact once_satisfied_only_by_bind. Qed.
Print Assumptions c04_once_satisfied_only_by_bind.

(* ... and along a history without binds no record (in the map or private) is once-satisfied *)
Theorem c04_no_bind_no_satisfied : forall h ops s,
  (forall r, sat_at s r = false) -> forallb (fun o => negb (bindsb o)) ops = true ->
  forall r, sat_at (exec h s ops) r = false.
Proof. exact no_bind_no_satisfied. Qed.
Print Assumptions c04_no_bind_no_satisfied.

(* no stale group record: while every gang in the cache is wired to the map's record of its own declared
   group and the gangs of a group declare the same group ([well_wired]: checked at every prefix, a
   conjunction of boolean equations), every record in the gang-group map has a gang of its group id in the
   cache ... *)
Theorem c04_no_stale_record : forall h ops s,
  keys_live s -> well_wired h s ops -> keys_live (exec h s ops).
Proof. exact no_stale_record. Qed.
Print Assumptions c04_no_stale_record.

(* ... so when the last gang has left, the map is empty and a group submitted again starts unsatisfied *)
Theorem c04_empty_cache_empty_map : forall h ops,
  well_wired h init_state ops -> st_gangs (exec h init_state ops) = [] -> st_gmap (exec h init_state ops) = [].
Proof. exact empty_cache_empty_map. Qed.
Print Assumptions c04_empty_cache_empty_map.

(* the guard is needed (findings/C04-stale-group-record.md, reproduced on the code): after a PodGroup's group
   annotation was edited, all gangs leave, a satisfied record stays in the map, and the first member of the
   re-submitted gang (min 3) is released alone *)
Theorem c04_stale_record_refuted :
  let l := run stale_hdr stale_ops in
  option_map (fun o => (sv_gangs (snd o), sv_recs (snd o))) (nth_error l 6) = Some ([], [([1; 2], true)])
  /\ option_map (fun o => o_res (fst o)) (nth_error l 10) = Some res_success
  /\ option_map (fun o => option_map (fun x => (v_min x, v_waiting x, v_bound x)) (vget (snd o) 1)) (nth_error l 10)
     = Some (Some (3, [1], []))
  /\ ~ well_wired stale_hdr init_state stale_ops.
Proof. exact stale_record_witness. Qed.
Print Assumptions c04_stale_record_refuted.

(* limits, as theorems: the partition sentence without the protocol guard is false of the model *)
Theorem c04_partition_unguarded_refuted :
  exists h ops, ~ all_partition_ok (view (exec h init_state ops)).
Proof. exact partition_unguarded_refuted. Qed.
Print Assumptions c04_partition_unguarded_refuted.

(* ... and a deletion between two of Permit's per-gang checks lets it return Success although the
   group no longer qualifies (sections of Permit are not atomic together) *)
Theorem c04_permit_toctou_example :
  let s := exec ex_hdr init_state [PodAdd 0 false; PodAdd 1 false; Permit 0] in
  let s1 := upd_gang s 2 (g_add_assumed 1) in
  let check (st : state) (g : Z) := match get_gang st g with Some y => gang_valid st y | None => false end in
  let s2 := pod_delete ex_hdr s1 0 in
  check s1 1 = true /\ check s2 2 = true /\ all_valid s2 [1; 2] = false.
Proof. exact permit_toctou. Qed.
Print Assumptions c04_permit_toctou_example.

(* the guard on PostBind is needed as well: a delete event overtaking PostBind leaves a ghost in bound *)
Example c04_postbind_after_delete_example :
  let ops := [PodAdd 0 false; PodAdd 1 false; Permit 0; PodDelete 0] in
  let s := exec ex2_hdr init_state ops in
  conformant ex2_hdr init_state ops
  /\ permit_ok ex2_hdr s (PostBind 0) = false
  /\ all_part_okb (view s) = true
  /\ all_part_okb (view (fst (step ex2_hdr s (PostBind 0)))) = false.
Proof. exact postbind_after_delete. Qed.

(* non-vacuity *)
Example c04_release_example :
  let ops := [PodAdd 0 false; PodAdd 1 false; Permit 0; Permit 1] in
  conformant ex_hdr init_state ops
  /\ map (fun o => (o_res (fst o), o_allowed (fst o))) (run ex_hdr ops)
     = [(0, []); (0, []); (res_wait, []); (res_success, [0])].
Proof. exact release_example. Qed.

Example c04_strict_reject_example :
  let ops := [PodAdd 0 false; PodAdd 1 false; PodAdd 2 false; Permit 0; Permit 1; Unreserve 1] in
  map (fun o => (o_res (fst o), o_rejected (fst o))) (run ex3_hdr ops)
  = [(0, []); (0, []); (0, []); (res_wait, []); (res_wait, []); (0, [0])].
Proof. exact strict_reject_example. Qed.

(* non-vacuity of clause 9: a satisfied gang whose group was re-declared is torn down and submitted
   again under the same name; the new gang is unsatisfied and its first member waits *)
Example c04_resubmitted_group_unsatisfied_example :
  let l := run ex4_hdr ex4_ops in
  map (fun o => o_res (fst o)) (firstn 3 (skipn 4 l)) = [res_wait; res_wait; res_success]
  /\ option_map v_sat (vget (snd (nth 10 l (out0, view init_state))) 1) = Some true
  /\ sv_recs (snd (nth 14 l (out0, view init_state))) = [([1; 2], false)]
  /\ option_map (fun o => (o_res (fst o), option_map v_sat (vget (snd o) 1), sv_recs (snd o))) (nth_error l 17)
     = Some (res_wait, Some false, [([1], false); ([1; 2], false)]).
Proof. exact resubmitted_group_unsatisfied. Qed.

(* why get-or-create must be ONE section: a creator that stores without looking again (lookup under a read
   lock, store under the write lock) drops the member another goroutine added in between *)
Example c04_nonatomic_create_loses_member_example :
  let h := mkHdr 1 [(1, true)] [dflt_cfg] in
  let c := mkCfg 1 0 2 [] in
  let atomic := run_secs [AEnsure 1; AChild 1 0; AEnsure 1; AInitPg 1 c] [] in
  let split := run_secs [AInitPg 1 c] (overwrite 1 (run_secs [AEnsure 1; AChild 1 0] [])) in
  option_map d_children (assocZ 1 atomic) = Some [0]
  /\ option_map d_children (assocZ 1 split) = Some []
  /\ option_map d_children (assocZ 1 (fold_left (decl_step h) [PodAdd 0 false; PGAdd 1 c] [])) = Some [0].
Proof. exact nonatomic_create_loses_member. Qed.

(* non-vacuity of [well_wired]: two annotation gangs of one group are released together, bound (record
   satisfied) and deleted; the cache ends empty *)
Example c04_well_wired_example :
  well_wired exw_hdr init_state exw_ops
  /\ st_gangs (exec exw_hdr init_state exw_ops) = []
  /\ option_map (fun o => sv_recs (snd o)) (nth_error (run exw_hdr exw_ops) 5) = Some [([1; 2], true)].
Proof. exact well_wired_example. Qed.
