(* C04 — exported theorems only: each is closed by [exact] and followed by Print Assumptions. *)
From Coq Require Import List ZArith Bool.
From Verif Require Import C04.Model C04.Spec C04.Proofs.
Open Scope Z_scope.

Theorem c04_mem_spec : forall x l, memZ x l = true <-> In x l.
Proof. exact memZ_In. Qed.
Print Assumptions c04_mem_spec.
