(* C04 — stream "race": entry points for the generic OCaml driver (definitions in Codec.v). *)
From Coq Require Import List ZArith.
From Verif Require Import C04.Codec.
Definition run_case := race_run_case.
Definition prop_case := race_prop_case.
Definition nontrivial_case := race_nontrivial_case.
Definition finding_sig (inp obs : list Z) : Z := 0%Z.
Require Extraction.
Require Import ExtrOcamlBasic.
Extraction "model.ml" run_case prop_case nontrivial_case finding_sig.
