(* C04 — flat-integer wire format of the model (used by Extract.v and Extract_race.v).

   input:   G P   P x (gang kind)   G x (min mode policy groupMask)   N   N x (code a b c d e)
   op codes: 1 PodAdd p node | 2 PodUpdate p node terminated | 3 PodDelete p
             4 PGAdd g min mode policy mask | 5 PGUpdate g ... | 6 PGDelete g
             7 Permit p | 8 Unreserve p | 9 PostBind p | 10 AfterPostFilter p
   observable, per op:  res allowedMask rejectedMask fwMask   then for gang 1..G
             exists init strict policy min groupMask fromCrd sat children pending waiting bound (masks)
             then  recKeys recSat   (gangGroupInfoMap: bit m set = a record under the group id whose
                                     gang mask is m exists / exists and is once-satisfied)
             then for gang 1..G   recKeyMask recInitialized   (the record the gang points to) *)
From Coq Require Import List ZArith Bool.
From Verif Require Import Lib.Wire C04.Model C04.Spec C04.Sections.
Import ListNotations.
Open Scope Z_scope.

Definition range1 (n : nat) : list Z := map Z.of_nat (seq 1 n).
Definition range0 (n : nat) : list Z := map Z.of_nat (seq 0 n).

Definition mask_group (G : nat) (m : Z) : list Z := filter (fun g => Z.testbit m (g - 1)) (range1 G).
Definition bits (m : Z) : list Z := filter (fun i => Z.testbit m i) (range0 62).
Definition mask_of (l : list Z) : Z := fold_left (fun acc p => Z.lor acc (Z.shiftl 1 p)) l 0.
Definition gmask_of (l : list Z) : Z := fold_left (fun acc g => Z.lor acc (Z.shiftl 1 (g - 1))) l 0.

Fixpoint decode_pods (k : nat) (l : list Z) : list (Z * bool) * list Z :=
  match k, l with
  | S k', g :: kind :: t => let '(r, rest) := decode_pods k' t in ((g, zb kind) :: r, rest)
  | _, _ => ([], l)
  end.

Fixpoint decode_cfgs (G : nat) (k : nat) (l : list Z) : list cfg * list Z :=
  match k, l with
  | S k', mn :: mode :: pol :: m :: t =>
      let '(r, rest) := decode_cfgs G k' t in (mkCfg mn mode pol (mask_group G m) :: r, rest)
  | _, _ => ([], l)
  end.

Definition decode_op (G : nat) (P : Z) (code a b c d e : Z) : op :=
  let vp := (0 <=? a) && (a <? P) in
  let vg := (1 <=? a) && (a <=? Z.of_nat G) in
  let cf := mkCfg b c d (mask_group G e) in
  if code =? 1 then (if vp then PodAdd a (zb b) else Nop)
  else if code =? 2 then (if vp then PodUpdate a (zb b) (zb c) else Nop)
  else if code =? 3 then (if vp then PodDelete a else Nop)
  else if code =? 4 then (if vg then PGAdd a cf else Nop)
  else if code =? 5 then (if vg then PGUpdate a cf else Nop)
  else if code =? 6 then (if vg then PGDelete a else Nop)
  else if code =? 7 then (if vp then Permit a else Nop)
  else if code =? 8 then (if vp then Unreserve a else Nop)
  else if code =? 9 then (if vp then PostBind a else Nop)
  else if code =? 10 then (if vp then AfterPostFilter a else Nop)
  else Nop.

Fixpoint decode_ops (G : nat) (P : Z) (k : nat) (l : list Z) : list op :=
  match k, l with
  | S k', code :: a :: b :: c :: d :: e :: t => decode_op G P code a b c d e :: decode_ops G P k' t
  | _, _ => []
  end.

Definition decode (inp : list Z) : hdr * list op :=
  match inp with
  | g :: p :: t =>
      let G := Z.to_nat g in
      let '(pods, t1) := decode_pods (Z.to_nat p) t in
      let '(cfgs, t2) := decode_cfgs G G t1 in
      match t2 with
      | n :: t3 => (mkHdr g pods cfgs, decode_ops G p (Z.to_nat n) t3)
      | [] => (mkHdr g pods cfgs, [])
      end
  | _ => (mkHdr 0 [] [], [])
  end.

(* ---- encoding of the model's observations ---- *)
Definition encode_gview (o : option gview) : list Z :=
  match o with
  | None => [0; 0; 0; 0; 0; 0; 0; 0; 0; 0; 0; 0]
  | Some x => [1; bz (v_init x); bz (v_strict x); v_policy x; v_min x; gmask_of (v_group x); bz (v_crd x);
               bz (v_sat x); mask_of (v_children x); mask_of (v_pending x); mask_of (v_waiting x);
               mask_of (v_bound x)]
  end.

Definition encode_wire (v : sview) (g : Z) : list Z :=
  match assocZ g (sv_wire v) with
  | Some (k, ini) => [gmask_of k; bz ini]
  | None => [0; 0]
  end.

Definition encode_obs (G : nat) (o : obs) : list Z :=
  let '(r, v) := o in
  [o_res r; mask_of (o_allowed r); mask_of (o_rejected r); mask_of (sv_fw v)]
  ++ flat_map (fun g => encode_gview (vget v g)) (range1 G)
  ++ [mask_of (map (fun e => gmask_of (fst e)) (sv_recs v));
      mask_of (map (fun e => gmask_of (fst e)) (filter (fun e => snd e) (sv_recs v)))]
  ++ flat_map (encode_wire v) (range1 G).

Definition run_case (inp : list Z) : list Z :=
  let '(h, ops) := decode inp in
  flat_map (encode_obs (Z.to_nat (h_ngangs h))) (run h ops).

(* ---- decoding of the implementation's observations ---- *)
Fixpoint decode_gviews (G : nat) (k : nat) (g : Z) (l : list Z) : list (Z * gview) * list Z :=
  match k, l with
  | S k', ex :: ini :: st :: pol :: mn :: gm :: crd :: sat :: ch :: pe :: wa :: bo :: t =>
      let '(r, rest) := decode_gviews G k' (g + 1) t in
      ((if zb ex
        then (g, mkGview (zb ini) (zb st) pol mn
                   (mask_group G gm ++ (if Z.testbit gm 20 then [-1] else []))
                   (zb crd) (zb sat) (bits ch) (bits pe) (bits wa) (bits bo)) :: r
        else r), rest)
  | _, _ => ([], l)
  end.

Fixpoint decode_wires (G : nat) (k : nat) (g : Z) (gs : list (Z * gview)) (l : list Z)
  : list (Z * (list Z * bool)) * list Z :=
  match k, l with
  | S k', rk :: ri :: t =>
      let '(r, rest) := decode_wires G k' (g + 1) gs t in
      ((match assocZ g gs with Some _ => (g, (mask_group G rk, zb ri)) :: r | None => r end), rest)
  | _, _ => ([], l)
  end.

Definition decode_recs (G : nat) (keys sat : Z) : list (list Z * bool) :=
  map (fun m => (mask_group G m, Z.testbit sat m)) (bits keys).

Fixpoint decode_obs (G : nat) (n : nat) (l : list Z) : list obs :=
  match n, l with
  | S n', res :: al :: rj :: fw :: t =>
      if Nat.ltb (length t) (14 * G + 2) then []
      else let '(gs, rest) := decode_gviews G G 1 t in
           match rest with
           | keys :: sat :: rest1 =>
               let '(ws, rest2) := decode_wires G G 1 gs rest1 in
               (mkOut res (bits al) (bits rj), mkSview (bits fw) gs (decode_recs G keys sat) ws)
                 :: decode_obs G n' rest2
           | _ => []
           end
  | _, _ => []
  end.

(* the property decided on the IMPLEMENTATION's observable *)
Definition prop_case (inp obs : list Z) : Z :=
  let '(h, ops) := decode inp in
  prop_code h ops (decode_obs (Z.to_nat (h_ngangs h)) (length ops) obs).

(* some Permit released at least one parked pod, or some roll-back rejected at least one *)
Definition nontrivial_case (inp : list Z) : bool :=
  let '(h, ops) := decode inp in
  existsb (fun o => negb (is_nil (o_allowed (fst o))) || negb (is_nil (o_rejected (fst o)))) (run h ops).

Definition finding_sig (inp obs : list Z) : Z := 0.


(* ---- stream "race": the harness runs the informer events of the history on three goroutines
   (PodGroup events | pod events of even pods | pod events of odd pods) and the scheduling-cycle calls
   on a fourth, several times, and reports
     code  (0 = every sampled gang summary had pending/waiting/bound pairwise disjoint and pending within
            children, and at quiescence every child was in exactly one set; the model's answer is the
            theorem c04_partition_sections / c04_partition: always 0)
   followed, when code = 0, by two blocks of G x 8 integers: what every gang is at quiescence of two
   "monotone" repetitions (the history without delete events and without PodGroup updates that no PodGroup
   add precedes: [mono_ops]). By c04_concurrent_informers_confluent these declarations do not depend on the
   interleaving, so the model's answer is the declaration tracker run over [mono_ops] in history order. ---- *)
Definition encode_decl (o : option decl) : list Z :=
  match o with
  | None => [0; 0; 0; 0; 0; 0; 0; 0]
  | Some d => [1; bz (d_init d); bz (d_strict d); d_policy d; d_min d; gmask_of (d_group d); bz (d_crd d);
               mask_of (d_children d)]
  end.
Definition race_figs (h : hdr) (ops : list op) : list Z :=
  let ds := fold_left (decl_step h) (mono_ops ops) [] in
  flat_map (fun g => encode_decl (assocZ g ds)) (range1 (Z.to_nat (h_ngangs h))).

Definition race_run_case (inp : list Z) : list Z :=
  let '(h, ops) := decode inp in 0 :: race_figs h ops ++ race_figs h ops.
(* clause 1 / 2 / 3: the partition codes of the harness; 8: a gang at quiescence is not the declared one *)
Definition race_prop_case (inp obs : list Z) : Z :=
  let '(h, ops) := decode inp in
  match obs with
  | [] => 9
  | code :: rest =>
      if negb (code =? 0) then code
      else if list_eqb rest (race_figs h ops ++ race_figs h ops) then 0 else 8
  end.
Definition is_event (o : op) : bool :=
  match o with PodAdd _ _ | PodUpdate _ _ _ | PodDelete _ | PGAdd _ _ | PGUpdate _ _ | PGDelete _ => true | _ => false end.
Definition is_cycle (o : op) : bool :=
  match o with Permit _ | Unreserve _ | PostBind _ | AfterPostFilter _ => true | _ => false end.
Definition is_pg_event (o : op) : bool :=
  match o with PGAdd _ _ | PGUpdate _ _ | PGDelete _ => true | _ => false end.
(* at least two informer events and two scheduling-cycle calls to interleave, and informer events on at
   least two of the informer goroutines *)
Definition race_nontrivial_case (inp : list Z) : bool :=
  let '(h, ops) := decode inp in
  let ev := filter is_event ops in
  let pods par := filter (fun o => match o with
                                   | PodAdd p _ | PodUpdate p _ _ | PodDelete p => Bool.eqb (Z.even p) par
                                   | _ => false end) ev in
  Nat.leb 2 (length ev) && Nat.leb 2 (length (filter is_cycle ops))
  && Nat.leb 2 ((if is_nil (filter is_pg_event ev) then 0 else 1)
                + (if is_nil (pods true) then 0 else 1) + (if is_nil (pods false) then 0 else 1))%nat.
