(* C19 — executable model, part 2: the reservation plugin's per-reservation ledger
   (ReservationInfo.AssignedPods / Allocated: AddAssignedPod, RemoveAssignedPod;
   reservationCache.assumePods / forgetPods / updatePod / deletePod / updateReservation;
   podEventHandler.updatePod / deletePod; Plugin.Reserve / Unreserve / PreBind).

   The ledger is an instance of the keyed additive ledger of Model.v: the "node" is the
   reservation, the key is the pod uid, the amount is the pod's (cpu, memory) request in slot 0. *)
From Coq Require Import List ZArith Bool.
From Verif Require Import C19.Model.
Import ListNotations.
Open Scope Z_scope.

(* pod uid (1-based position): the reservation it is allocated from and its requests *)
Record rdesc := mkRD { rd_rsv : Z; rd_cpu : Z; rd_mem : Z }.
Definition rd_default : rdesc := mkRD 0 0 0.
Definition rdesc_of (ds : list rdesc) (uid : Z) : rdesc := nth (Z.to_nat (uid - 1)) ds rd_default.
Definition rvalid (ds : list rdesc) (uid : Z) : bool := (1 <=? uid) && (uid <=? Z.of_nat (length ds)).
Definition ralloc (ds : list rdesc) (uid : Z) : palloc :=
  let d := rdesc_of ds uid in mkPA uid 0 [] [(0, (rd_cpu d, rd_mem d))].

Definition no_topo : topo := mkTopo 0 0.

(* what the plugin reads of a stored pod: assigned?, terminated?, the reservation-allocated annotation (0 = none) *)
Record robj := mkRO { ro_uid : Z; ro_assigned : bool; ro_term : bool; ro_rsv : Z }.

(* reservationCache: AssignedPods/Allocated per reservation (an [nstate]) and which reservations
   have a ReservationInfo *)
Record rcache := mkRC { rc_st : nstate; rc_known : Z -> bool }.
Definition rc_init : rcache := mkRC ns_init (fun _ => false).

(* addPods / AddAssignedPod: needs the ReservationInfo; a pod already assigned is skipped *)
Definition rc_add (ds : list rdesc) (c : rcache) (r uid : Z) : rcache :=
  if rc_known c r then mkRC (add_pod no_topo (rc_st c) r (ralloc ds uid)) (rc_known c) else c.
(* deletePods / RemoveAssignedPod *)
Definition rc_del (c : rcache) (r uid : Z) : rcache :=
  if rc_known c r then mkRC (release no_topo (rc_st c) r uid) (rc_known c) else c.
(* updateReservation: creates the (empty) ReservationInfo or refreshes it keeping the assigned pods *)
Definition rc_rsv (c : rcache) (r : Z) : rcache := mkRC (rc_st c) (upd1 (rc_known c) r true).

(* podEventHandler.deletePod *)
Definition rh_delete (c : rcache) (o : robj) : rcache :=
  if ro_rsv o =? 0 then c else rc_del c (ro_rsv o) (ro_uid o).
(* podEventHandler.updatePod(old, new): [old] = None for an Add *)
Definition rh_update (ds : list rdesc) (c : rcache) (old : option robj) (o : robj) : rcache :=
  if ro_term o then rh_delete c o
  else if negb (ro_assigned o) then
    match old with
    | Some od => if ro_assigned od then rh_delete c od else c
    | None => c
    end
  else
    let oldr := match old with Some od => ro_rsv od | None => 0 end in
    if (oldr =? 0) && (ro_rsv o =? 0) then c
    else
      let c1 := if oldr =? 0 then c else rc_del c oldr (ro_uid o) in
      if ro_rsv o =? 0 then c1 else rc_add ds c1 (ro_rsv o) (ro_uid o).

(* the stored object of pod uid for a life-cycle status (0 pending, 1 assumed, 2 bound, 3 deleted, 4 terminated) *)
Definition rbound (ds : list rdesc) (uid : Z) (term : bool) : robj :=
  mkRO uid true term (rd_rsv (rdesc_of ds uid)).
Definition rpending (uid : Z) : robj := mkRO uid false false 0.
(* the pod between the PreBind patch and the Bind: annotated, not yet assigned to a node *)
Definition rannotated (ds : list rdesc) (uid : Z) : robj := mkRO uid false false (rd_rsv (rdesc_of ds uid)).
Definition robj_of (ds : list rdesc) (life : Z -> Z) (uid : Z) : option robj :=
  let s := life uid in
  if s =? 3 then None
  else if (s =? 2) || (s =? 4) then Some (rbound ds uid (s =? 4))
  else Some (rpending uid).

Record rlive := mkRL { rl_c : rcache; rl_life : Z -> Z }.

(* the running scheduler; every reservation is in its cache from the start.
   1 nominate + Reserve   2 Unreserve   3 PreBind + bind + informer update   4 informer delete
   5 informer update (same object)   7 informer update: terminated   8 informer update of reservation uid *)
Definition rsv_valid (nr r : Z) : bool := (1 <=? r) && (r <=? nr).
Definition rlive_step (nr : Z) (ds : list rdesc) (l : rlive) (op : Z * Z) : rlive :=
  let '(k, uid) := op in
  if k =? 8 then (if rsv_valid nr uid then mkRL (rc_rsv (rl_c l) uid) (rl_life l) else l) else
  if negb (rvalid ds uid) then l else
  let d := rdesc_of ds uid in
  let s := rl_life l uid in
  let c := rl_c l in
  if (k =? 1) && (s =? 0) then mkRL (rc_add ds c (rd_rsv d) uid) (upd1 (rl_life l) uid 1)
  else if (k =? 2) && (s =? 1) then mkRL (rc_del c (rd_rsv d) uid) (upd1 (rl_life l) uid 0)
  else if (k =? 3) && (s =? 1) then
    mkRL (rh_update ds c (Some (rpending uid)) (rbound ds uid false)) (upd1 (rl_life l) uid 2)
  else if (k =? 4) && ((s =? 2) || (s =? 4)) then
    mkRL (rh_delete c (rbound ds uid (s =? 4))) (upd1 (rl_life l) uid 3)
  else if (k =? 5) && (s =? 2) then
    mkRL (rh_update ds c (Some (rbound ds uid false)) (rbound ds uid false)) (rl_life l)
  else if (k =? 7) && (s =? 2) then
    mkRL (rh_update ds c (Some (rbound ds uid false)) (rbound ds uid true)) (upd1 (rl_life l) uid 4)
  else l.

Definition rlive_init (nr : Z) : rlive :=
  mkRL (fold_left rc_rsv (zrange 1 (Z.to_nat nr)) rc_init) (fun _ => 0).

(* the fresh scheduler.  events: 1 Add(pod) 2 Update(pod, pod) 3 Update(pending, pod) 6 Add(reservation id)
   8 the pod was listed while annotated but not yet bound (cut between the PreBind patch and the
     Bind): Add(annotated, unbound) then Update(annotated unbound -> stored); a plain Add when the
     stored pod is not bound *)
Record rfresh := mkRF { rf_c : rcache; rf_seen : Z -> bool }.
Definition rreplay_step (nr : Z) (ds : list rdesc) (life : Z -> Z) (f : rfresh) (ev : Z * Z) : rfresh :=
  let '(k, id) := ev in
  if k =? 6 then (if rsv_valid nr id then mkRF (rc_rsv (rf_c f) id) (rf_seen f) else f)
  else if negb (rvalid ds id) then f
  else match robj_of ds life id with
       | None => f
       | Some o =>
         if k =? 1 then mkRF (rh_update ds (rf_c f) None o) (upd1 (rf_seen f) id true)
         else if k =? 2 then mkRF (rh_update ds (rf_c f) (Some o) o) (rf_seen f)
         else if k =? 3 then mkRF (rh_update ds (rf_c f) (Some (rpending id)) o) (rf_seen f)
         else if k =? 8 then
           (if ro_assigned o
            then mkRF (rh_update ds (rh_update ds (rf_c f) None (rannotated ds id)) (Some (rannotated ds id)) o)
                      (upd1 (rf_seen f) id true)
            else mkRF (rh_update ds (rf_c f) None o) (upd1 (rf_seen f) id true))
         else f
       end.
Definition rcompletion (nr : Z) (ds : list rdesc) (f : rfresh) : list (Z * Z) :=
  map (fun r => (6, r)) (zrange 1 (Z.to_nat nr))
  ++ map (fun u => (1, u)) (filter (fun u => negb (rf_seen f u)) (zrange 1 (length ds))).
Definition rreplay (nr : Z) (ds : list rdesc) (life : Z -> Z) (rsv_first : bool) (script : list (Z * Z)) : rcache :=
  let c0 := if rsv_first then fold_left rc_rsv (zrange 1 (Z.to_nat nr)) rc_init else rc_init in
  let f1 := fold_left (rreplay_step nr ds life) script (mkRF c0 (fun _ => false)) in
  rf_c (fold_left (rreplay_step nr ds life) (rcompletion nr ds f1) f1).

(* observable: per reservation 1..nr: has a ReservationInfo, Allocated (cpu, memory), and for every
   pod uid 1..np whether it is in AssignedPods *)
Notation rentry := (Z * ((Z * Z) * list Z))%type.
Definition rsnap (nr np : Z) (c : rcache) : list rentry :=
  map (fun r => ((if rc_known c r then 1 else 0),
                 (ns_res (rc_st c) r 0,
                  map (fun u => match find_pod (ns_pods (rc_st c)) r u with Some _ => 1 | None => 0 end)
                      (zrange 1 (Z.to_nat np)))))
      (zrange 1 (Z.to_nat nr)).

Record rcase := mkRCase { r_nr : Z; r_first : bool; r_descs : list rdesc; r_ops : list (Z * Z); r_script : list (Z * Z) }.

Fixpoint rrun_ops (c : rcase) (l : rlive) (ops : list (Z * Z)) : list (list rentry * list rentry) :=
  match ops with
  | [] => []
  | op :: t =>
    let l' := rlive_step (r_nr c) (r_descs c) l op in
    let np := Z.of_nat (length (r_descs c)) in
    (rsnap (r_nr c) np (rl_c l'),
     rsnap (r_nr c) np (rreplay (r_nr c) (r_descs c) (rl_life l') (r_first c) (r_script c)))
    :: rrun_ops c l' t
  end.
Definition rrun (c : rcase) := rrun_ops c (rlive_init (r_nr c)) (r_ops c).
Fixpoint rlives (c : rcase) (l : rlive) (ops : list (Z * Z)) : list (Z -> Z) :=
  match ops with
  | [] => []
  | op :: t => let l' := rlive_step (r_nr c) (r_descs c) l op in rl_life l' :: rlives c l' t
  end.

Definition enc_rsnap (s : list rentry) : list Z :=
  flat_map (fun e => fst e :: fst (fst (snd e)) :: snd (fst (snd e)) :: snd (snd e)) s.
Definition enc_rrun (r : list (list rentry * list rentry)) : list Z :=
  flat_map (fun p => enc_rsnap (fst p) ++ enc_rsnap (snd p)) r.
