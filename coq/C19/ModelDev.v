(* C19 — executable model, part 3: the deviceshare plugin's per-node device ledger
   (nodeDevice.updateCacheUsed / isValid / updateDeviceUsed / updateAllocateSet,
   nodeDeviceCache.updatePod / deletePod, Plugin.Reserve / Unreserve / preBindObject).

   Instance of the keyed additive ledger of Model.v: the key is (object uid, device type), encoded
   uid*10+type; the slot is the device (type*1000+minor); the amount is the pair of the two
   resources of the type (gpu: gpu-core, gpu-memory-ratio; rdma: rdma, -).  deviceFree is always
   recomputed from total and used (resetDeviceFree), so it is a derived observable.  Removal
   subtracts the allocation stored for the key; the code subtracts the allocation the caller passes,
   which is the same one in every history considered here (the object's own annotation / cycle
   state).
   VF allocations (DeviceAllocation.Extension.VirtualFunctions, nodeDevice.vfAllocations: type ->
   minor -> set of bus ids) ride on the same ledger: the virtual functions of an object's group are
   the "cpus" of its entry (global id type*100000 + minor*100 + index), so a VF is taken iff its
   reference count is positive.  The code keeps a set, not a count; the two agree as long as a VF is
   held by at most one object, which the allocator guarantees and the generator respects. *)
From Coq Require Import List ZArith Bool.
From Verif Require Import C19.Model C19.ModelRsv.
Import ListNotations.
Open Scope Z_scope.

(* object uid: kind (0 pod, 1 reservation), node, allocation groups: device type -> [(minor, (a, b))] *)
(* dd_vfs: device type -> virtual functions of the object's allocation, coded minor*100 + index *)
Record ddesc := mkDD { dd_kind : Z; dd_node : Z; dd_groups : list (Z * list (Z * (Z * Z))); dd_vfs : list (Z * list Z) }.
Definition dd_default : ddesc := mkDD 0 0 [] [].
Definition ddesc_of (ds : list ddesc) (uid : Z) : ddesc := nth (Z.to_nat (uid - 1)) ds dd_default.
Definition dvalid (ds : list ddesc) (uid : Z) : bool := (1 <=? uid) && (uid <=? Z.of_nat (length ds)).

Definition dkey (uid t : Z) : Z := uid * 10 + t.
Definition dslot (t minor : Z) : Z := t * 1000 + minor.
Definition vfs_of (d : ddesc) (t : Z) : list Z :=
  match find (fun x => fst x =? t) (dd_vfs d) with Some x => snd x | None => [] end.
Definition gvf (t code : Z) : Z := t * 100000 + code.
Definition gvfs (ds : list ddesc) (uid t : Z) : list Z := map (gvf t) (vfs_of (ddesc_of ds uid) t).
Definition dalloc (ds : list ddesc) (uid : Z) (g : Z * list (Z * (Z * Z))) : palloc :=
  mkPA (dkey uid (fst g)) 0 (gvfs ds uid (fst g)) (map (fun e => (dslot (fst g) (fst e), snd e)) (snd g)).

(* updateCacheUsed(allocations, pod, add) *)
Definition dev_add (ds : list ddesc) (st : nstate) (node uid : Z) (groups : list (Z * list (Z * (Z * Z)))) : nstate :=
  fold_left (fun s g => add_pod no_topo s node (dalloc ds uid g)) groups st.
Definition dev_del (st : nstate) (node uid : Z) (groups : list (Z * list (Z * (Z * Z)))) : nstate :=
  fold_left (fun s g => release no_topo s node (dkey uid (fst g))) groups st.

(* what the plugin reads of a stored object: node (0 = unassigned), terminated, device-allocated annotation *)
Record dobj := mkDO { do_uid : Z; do_node : Z; do_term : bool; do_groups : list (Z * list (Z * (Z * Z))) }.

Definition dh_delete (st : nstate) (o : dobj) : nstate :=
  if do_node o =? 0 then st else dev_del st (do_node o) (do_uid o) (do_groups o).
Definition dh_update (ds : list ddesc) (st : nstate) (old : option dobj) (o : dobj) : nstate :=
  if do_node o =? 0 then
    match old with Some od => if do_node od =? 0 then st else dh_delete st od | None => st end
  else if do_term o then dh_delete st o
  else
    let og := match old with Some od => do_groups od | None => [] end in
    if is_nil og && is_nil (do_groups o) then st
    else
      let st1 := match old with
                 | Some od => if do_node od =? 0 then st else dev_del st (do_node o) (do_uid o) (do_groups od)
                 | None => st
                 end in
      dev_add ds st1 (do_node o) (do_uid o) (do_groups o).

Definition dbound (ds : list ddesc) (uid : Z) (term : bool) : dobj :=
  let d := ddesc_of ds uid in mkDO uid (dd_node d) term (dd_groups d).
Definition dpending (uid : Z) : dobj := mkDO uid 0 false [].
(* life cycle: 0 pending, 1 assumed, 2 bound, 3 deleted, 4 terminated (phase Succeeded/Failed),
   6 terminating (bound, deletionTimestamp set, still running and holding its devices: the handlers
   do not look at the deletion timestamp) *)
Definition is_bound (s : Z) : bool := (s =? 2) || (s =? 6).
Definition dobj_of (ds : list ddesc) (life : Z -> Z) (uid : Z) : option dobj :=
  let s := life uid in
  if s =? 3 then None
  else if is_bound s || (s =? 4) then Some (dbound ds uid (s =? 4))
  else Some (dpending uid).

Record dlive := mkDL { dl_st : nstate; dl_life : Z -> Z }.
Definition dlive_init : dlive := mkDL ns_init (fun _ => 0).

Definition dlive_step (ds : list ddesc) (l : dlive) (op : Z * Z) : dlive :=
  let '(k, uid) := op in
  if negb (dvalid ds uid) then l else
  let d := ddesc_of ds uid in
  let s := dl_life l uid in
  let st := dl_st l in
  if (k =? 1) && (s =? 0) then mkDL (dev_add ds st (dd_node d) uid (dd_groups d)) (upd1 (dl_life l) uid 1)
  else if (k =? 2) && (s =? 1) then mkDL (dev_del st (dd_node d) uid (dd_groups d)) (upd1 (dl_life l) uid 0)
  else if (k =? 3) && (s =? 1) then
    mkDL (dh_update ds st (Some (dpending uid)) (dbound ds uid false)) (upd1 (dl_life l) uid 2)
  else if (k =? 4) && (is_bound s || (s =? 4)) then
    mkDL (dh_delete st (dbound ds uid (s =? 4))) (upd1 (dl_life l) uid 3)
  else if (k =? 5) && is_bound s then
    mkDL (dh_update ds st (Some (dbound ds uid false)) (dbound ds uid false)) (dl_life l)
  else if (k =? 7) && is_bound s then
    mkDL (dh_update ds st (Some (dbound ds uid false)) (dbound ds uid true)) (upd1 (dl_life l) uid 4)
  else if (k =? 10) && (s =? 2) then
    (* informer update: deletionTimestamp set (graceful termination starts) *)
    mkDL (dh_update ds st (Some (dbound ds uid false)) (dbound ds uid false)) (upd1 (dl_life l) uid 6)
  else l.

(* fresh scheduler: 1 Add 2 Update(obj,obj) 3 Update(pending,obj); 4 = the Device object of a node
   arrives (it only sets the totals, which the ledger does not depend on) *)
Record dfresh := mkDF { df_st : nstate; df_seen : Z -> bool }.
Definition dreplay_step (ds : list ddesc) (life : Z -> Z) (f : dfresh) (ev : Z * Z) : dfresh :=
  let '(k, id) := ev in
  if k =? 4 then f
  else if negb (dvalid ds id) then f
  else match dobj_of ds life id with
       | None => f
       | Some o =>
         if k =? 1 then mkDF (dh_update ds (df_st f) None o) (upd1 (df_seen f) id true)
         else if k =? 2 then mkDF (dh_update ds (df_st f) (Some o) o) (df_seen f)
         else if k =? 3 then mkDF (dh_update ds (df_st f) (Some (dpending id)) o) (df_seen f)
         else f
       end.
Definition dcompletion (ds : list ddesc) (f : dfresh) : list (Z * Z) :=
  map (fun u => (1, u)) (filter (fun u => negb (df_seen f u)) (zrange 1 (length ds))).
Definition dreplay (ds : list ddesc) (life : Z -> Z) (script : list (Z * Z)) : nstate :=
  let f1 := fold_left (dreplay_step ds life) script (mkDF ns_init (fun _ => false)) in
  df_st (fold_left (dreplay_step ds life) (dcompletion ds f1) f1).

(* the node's devices: [minors] devices of each of the two types, each with total (ta, tb) *)
Record dcase := mkDCase {
  d_nodes : Z; d_minors : Z; d_tot1 : Z * Z; d_tot2 : Z * Z; d_dev_first : bool; d_nvf : Z;
  d_descs : list ddesc; d_ops : list (Z * Z); d_script : list (Z * Z) }.

Definition dtotal (c : dcase) (t : Z) : Z * Z := if t =? 1 then d_tot1 c else d_tot2 c.

(* per node: per type 1..2 per minor: used, free; then per uid per type: the allocateSet entry; then
   per type per minor per VF index 0..nvf-1: is the virtual function taken (vfAllocations) *)
Record dsnap := mkDSnap { ds_devs : list ((Z * Z) * (Z * Z)); ds_aset : list (option (list (Z * (Z * Z)))); ds_vfs : list Z }.
Definition types12 : list Z := [1; 2].
Definition dsnap_node (c : dcase) (st : nstate) (node : Z) : dsnap :=
  mkDSnap
    (flat_map (fun t => map (fun m => let u := ns_res st node (dslot t m) in (u, pair_sub0 (dtotal c t) u))
                            (zrange 0 (Z.to_nat (d_minors c)))) types12)
    (flat_map (fun uid => map (fun t => option_map (fun p => map (fun e => (fst e - t * 1000, snd e)) (pa_numa p))
                                                   (find_pod (ns_pods st) node (dkey uid t))) types12)
              (zrange 1 (length (d_descs c))))
    (flat_map (fun t => flat_map (fun m => map (fun i => if 0 <? ns_ref st node (gvf t (m * 100 + i)) then 1 else 0)
                                               (zrange 0 (Z.to_nat (d_nvf c))))
                                 (zrange 0 (Z.to_nat (d_minors c)))) types12).
Definition dsnapshot (c : dcase) (st : nstate) : list dsnap :=
  map (dsnap_node c st) (zrange 1 (Z.to_nat (d_nodes c))).

(* The reserved device amount of a Reservation (kind 1), feature gate ResizePod: what ResizePod makes
   the live reserve pod hold and what PreBindReservation persists in the resize-allocatable annotation
   are both the sum of the ALLOCATED per-minor resources: (gpu-core, gpu-memory-ratio, rdma).
   Per uid: persisted? a b c  held? a b c. *)
Definition group_sum (gs : list (Z * list (Z * (Z * Z)))) (t : Z) : Z * Z :=
  fold_right (fun g acc => if fst g =? t
                           then fold_right (fun e acc' => pair_add (snd e) acc') acc (snd g) else acc) (0, 0) gs.
Definition reserved_amounts (d : ddesc) : list Z :=
  [fst (group_sum (dd_groups d) 1); snd (group_sum (dd_groups d) 1); fst (group_sum (dd_groups d) 2)].
Definition dpersist (ds : list ddesc) (life : Z -> Z) : list Z :=
  flat_map (fun u => let d := ddesc_of ds u in let s := life u in
              let rsv := (dd_kind d =? 1) && negb (is_nil (dd_groups d)) in
              (if rsv && (is_bound s || (s =? 4)) then 1 :: reserved_amounts d else [0; 0; 0; 0])
              ++ (if rsv && ((s =? 1) || is_bound s || (s =? 4)) then 1 :: reserved_amounts d else [0; 0; 0; 0]))
           (zrange 1 (length ds)).

Fixpoint drun_ops (c : dcase) (l : dlive) (ops : list (Z * Z)) : list ((list dsnap * list dsnap) * list Z) :=
  match ops with
  | [] => []
  | op :: t =>
    let l' := dlive_step (d_descs c) l op in
    ((dsnapshot c (dl_st l'), dsnapshot c (dreplay (d_descs c) (dl_life l') (d_script c))),
     dpersist (d_descs c) (dl_life l')) :: drun_ops c l' t
  end.
Definition drun (c : dcase) := drun_ops c dlive_init (d_ops c).
Fixpoint dlives (c : dcase) (l : dlive) (ops : list (Z * Z)) : list (Z -> Z) :=
  match ops with
  | [] => []
  | op :: t => let l' := dlive_step (d_descs c) l op in dl_life l' :: dlives c l' t
  end.

Definition enc_aset (o : option (list (Z * (Z * Z)))) : list Z :=
  match o with None => [0] | Some l => 1 :: enc_numa l end.
Definition enc_dsnap (s : dsnap) : list Z :=
  flat_map (fun e => [fst (fst e); snd (fst e); fst (snd e); snd (snd e)]) (ds_devs s)
  ++ flat_map enc_aset (ds_aset s) ++ ds_vfs s.
Definition enc_drun (r : list ((list dsnap * list dsnap) * list Z)) : list Z :=
  flat_map (fun p => flat_map enc_dsnap (fst (fst p)) ++ flat_map enc_dsnap (snd (fst p)) ++ snd p) r.
