(* C19 — wire decoding of cases and of flat observables (plumbing shared by the Extract files) *)
From Coq Require Import List ZArith Bool.
From Verif Require Import Lib.Wire C19.Model.
Import ListNotations.
Open Scope Z_scope.

Definition dec_pair (l : list Z) : (Z * Z) * list Z :=
  match l with a :: b :: t => ((a, b), t) | _ => ((0, 0), []) end.
Definition dec_triple (l : list Z) : (Z * (Z * Z)) * list Z :=
  match l with a :: b :: c :: t => ((a, (b, c)), t) | _ => ((0, (0, 0)), []) end.
Definition dec_quad (l : list Z) : ((Z * Z) * (Z * Z)) * list Z :=
  match l with a :: b :: c :: d :: t => (((a, b), (c, d)), t) | _ => (((0, 0), (0, 0)), []) end.

Definition dec_desc (l : list Z) : pdesc * list Z :=
  match l with
  | kind :: node :: excl :: t =>
      let '(cpus, r) := take_list t in
      let '(numa, r') := decode_seq dec_triple r in
      (mkPD kind node excl cpus numa, r')
  | _ => (pd_default, [])
  end.

Definition decode_ncase (inp : list Z) : ncase :=
  match inp with
  | nn :: ncpu :: cpn :: tf :: t =>
      let '(ds, r1) := decode_seq dec_desc t in
      let '(ops, r2) := decode_seq dec_pair r1 in
      let '(sc, _) := decode_seq dec_pair r2 in
      mkCase nn (mkTopo ncpu cpn) ds ops (zb tf) sc
  | _ => mkCase 0 (mkTopo 0 0) [] [] true []
  end.

Definition dec_pod (l : list Z) : option (list Z * list (Z * (Z * Z))) * list Z :=
  match l with
  | [] => (None, [])
  | 0 :: t => (None, t)
  | _ :: t => let '(cpus, r) := take_list t in
              let '(numa, r') := decode_seq dec_triple r in
              (Some (cpus, numa), r')
  end.
Definition dec_nsnap (u : universe) (l : list Z) : nsnap * list Z :=
  let '(pods, r1) := decode_many dec_pod (Z.to_nat (u_npods u)) l in
  let '(cpus, r2) := decode_many dec_pair (Z.to_nat (u_ncpu u)) r1 in
  let '(numa, r3) := decode_many dec_quad (Z.to_nat (u_nnuma u)) r2 in
  (mkSnap pods cpus numa, r3).
Definition dec_snapshot (u : universe) (l : list Z) : list nsnap * list Z :=
  decode_many (dec_nsnap u) (Z.to_nat (u_nodes u)) l.
Definition dec_step (u : universe) (l : list Z) : (list nsnap * list nsnap) * list Z :=
  let '(a, r) := dec_snapshot u l in
  let '(b, r') := dec_snapshot u r in ((a, b), r').
Definition dec_run (u : universe) (k : nat) (l : list Z) : list (list nsnap * list nsnap) :=
  fst (decode_many (dec_step u) k l).
