(* C19 — the property for the Reservation object's path into the scheduler: the amount a bound
   (Available) reservation holds on its node — written at bind time as status.nodeName /
   status.allocatable — is held by the scheduler cache of the running scheduler AND by the cache a
   freshly started scheduler rebuilds from the stored objects alone; nothing else is held; the
   per-node requested totals are the sums of exactly those amounts; the plugin has a
   ReservationInfo for exactly those reservations.  All expectations are recomputed from the
   history (the world: stored objects + in-flight assumptions), never from the implementation's
   own bookkeeping. *)
From Coq Require Import List ZArith Bool.
From Verif Require Import C19.Model C19.ModelSched C19.Spec.
Import ListNotations.
Open Scope Z_scope.

Definition w_avail (w : wentry) : bool := (we_life w =? 1) && so_avail (we_obj w).

(* what the cache must hold for one reservation: (st, node, amount) *)
Definition exp_cache (live : bool) (w : wentry) : Z * (Z * (Z * Z)) :=
  if w_avail w then (1, (so_node (we_obj w), so_alloc (we_obj w)))
  else if live && negb (we_asm w =? 0) then (2, (we_asm w, so_req (we_obj w)))
  else (0, (0, (0, 0))).
Definition exp_known (live : bool) (w : wentry) : bool := w_avail w || (live && negb (we_asm w =? 0)).

Definition got_cache (e : sentry) : Z * (Z * (Z * Z)) := (se_st e, (se_node e, se_amt e)).
Definition eq_cache (a b : Z * (Z * (Z * Z))) : bool :=
  (fst a =? fst b) && (fst (snd a) =? fst (snd b)) && eq_pair (snd (snd a)) (snd (snd b)).

(* 0 ok, 1 an amount that must be held is not (considered free), 2 something is held that must not be,
   3 held on another node / with another amount / in another state than persisted *)
Definition entry_clause (live : bool) (w : wentry) (e : sentry) : Z :=
  let x := exp_cache live w in
  if eq_cache x (got_cache e) then 0
  else if se_st e =? 0 then 1
  else if fst x =? 0 then 2
  else 3.

(* the per-node totals recomputed from the world *)
Definition exp_on (live : bool) (w : wstate) (n r : Z) : bool :=
  negb (fst (exp_cache live (w r)) =? 0) && (fst (snd (exp_cache live (w r))) =? n).
Definition exp_node_sum (live : bool) (w : wstate) (nr : nat) (n : Z) : (Z * Z) * Z :=
  fold_right (fun r acc => if exp_on live w n r
                           then (pair_add (snd (snd (exp_cache live (w r)))) (fst acc), snd acc + 1) else acc)
             ((0, 0), 0) (zrange 1 nr).
Definition eq_nsum (a b : (Z * Z) * Z) : bool := eq_pair (fst a) (fst b) && (snd a =? snd b).

(* one snapshot against the world.  listing clause (1/2/3), then 4 node totals, then 7 ReservationInfo *)
Definition ssnap_code (nn : Z) (nr : nat) (live : bool) (w : wstate) (s : ssnap) : Z :=
  if negb (Nat.eqb (length (ss_rsv s)) nr && (Z.of_nat (length (ss_node s)) =? Z.max 0 nn)) then 9
  else
  let cl := first_nz (map (fun re => entry_clause live (w (fst re)) (snd re)) (combine (zrange 1 nr) (ss_rsv s))) in
  if negb (cl =? 0) then cl
  else if negb (forallb (fun ne => eq_nsum (exp_node_sum live w nr (fst ne)) (snd ne))
                        (combine (zrange 1 (length (ss_node s))) (ss_node s))) then 4
  else if negb (forallb (fun re => Bool.eqb (exp_known live (w (fst re))) (se_known (snd re)))
                        (combine (zrange 1 nr) (ss_rsv s))) then 7
  else 0.

(* one cut: live snapshot, rebuilt snapshot.  A failure of the live side is reported as 6 (listing),
   5 (totals), 8 (ReservationInfo); of the rebuilt side as 1/2/3, 4, 7 *)
Definition sstep_code (c : scase) (w : wstate) (LR : ssnap * ssnap) : Z :=
  let nr := length (s_descs c) in
  let kl := ssnap_code (s_nn c) nr true w (fst LR) in
  if kl =? 9 then 9
  else if (kl =? 1) || (kl =? 2) || (kl =? 3) then 6
  else if kl =? 4 then 5
  else if kl =? 7 then 8
  else ssnap_code (s_nn c) nr false w (snd LR).

Definition prop_sched (c : scase) (obs : list (ssnap * ssnap)) : Z :=
  if negb (Nat.eqb (length obs) (length (s_ops c))) then 9
  else first_nz (map (fun wo => sstep_code c (fst wo) (snd wo))
                     (combine (sworlds c slive_init (s_ops c)) obs)).

(* the same as Props over the caches *)
Definition Holds (live : bool) (w : wstate) (s : sstate) : Prop :=
  forall r, got_cache (s r) = exp_cache live (w r) /\ se_known (s r) = exp_known live (w r).

(* no node migration of a bound reservation in the history (finding: see Properties.v) *)
Definition no_migration (ops : list sop) : bool := forallb (fun op => negb (op_k op =? 10)) ops.

Definition nontrivial_sched (c : scase) : bool :=
  existsb (fun w => existsb (fun r => w_avail (w r)) (zrange 1 (length (s_descs c))))
          (sworlds c slive_init (s_ops c)).
