(* C19 — the restart theorem in the form the checker runs it: on the model's own run the
   decision procedure of Spec.v answers 0, for every well-formed case (every history, every
   cut, every replay script). *)
From Coq Require Import List ZArith Bool Lia Permutation.
From Verif Require Import Lib.ListX C19.Model C19.Spec C19.Proofs_Codec C19.Proofs_Ledger
  C19.Proofs_Restart C19.Proofs_Snapshot.
Import ListNotations.
Open Scope Z_scope.

Section Main.
  Variable c : ncase.
  Hypothesis Hok : case_ok c = true.

  Let tp := c_topo c.
  Let ds := c_descs c.
  Let u := universe_of c.

  Lemma case_descs : forallb desc_ok ds = true.
  Proof. unfold case_ok in Hok. rewrite !andb_true_iff in Hok. apply Hok. Qed.
  Lemma case_topo_first : c_topo_first c = true.
  Proof. unfold case_ok in Hok. rewrite !andb_true_iff in Hok. apply Hok. Qed.
  Lemma case_nodes : 0 <= c_nodes c.
  Proof. unfold case_ok in Hok. rewrite !andb_true_iff, !Z.leb_le in Hok. apply Hok. Qed.
  Lemma case_ncpu : 0 <= t_ncpu (c_topo c).
  Proof. unfold case_ok in Hok. rewrite !andb_true_iff, !Z.leb_le in Hok. apply Hok. Qed.

  Lemma nnuma_nonneg : 0 <= nnuma_of tp.
  Proof.
    unfold nnuma_of. destruct (0 <? t_cpn tp) eqn:E; [|lia]. apply Z.ltb_lt in E.
    pose proof case_ncpu. unfold tp in *. apply Z.div_pos; lia.
  Qed.

  Lemma u_shape st : shape_ok u (snapshot u st) = true.
  Proof.
    apply snapshot_shape; unfold u, universe_of; cbn [u_nodes u_npods u_ncpu u_nnuma].
    - apply case_nodes.
    - lia.
    - pose proof case_ncpu. lia.
    - apply nnuma_nonneg.
  Qed.

  Lemma snapshot_combine st :
    combine (zrange 1 (length (snapshot u st))) (snapshot u st) =
    map (fun n => (n, snap_node u st n)) (zrange 1 (Z.to_nat (u_nodes u))).
  Proof. unfold snapshot. rewrite map_length, zrange_length. apply combine_map_r. Qed.

  Lemma valid_range uid : valid_uid ds uid = true -> 1 <= uid <= u_npods u.
  Proof.
    unfold valid_uid. rewrite andb_true_iff, !Z.leb_le. unfold u, universe_of. cbn [u_npods]. fold ds. lia.
  Qed.

  (* a cache with the invariant that lists [exp], [exp] being empty outside the valid uids *)
  Lemma snapshot_good st exp :
    Inv tp st ->
    (forall n uid, listing st n uid = exp n uid) ->
    (forall n uid, valid_uid ds uid = false -> exp n uid = None) ->
    first_nz (map (fun ns => pods_clause exp (fst ns) (snd ns))
                  (combine (zrange 1 (length (snapshot u st))) (snapshot u st))) = 0
    /\ forallb (ledger_ok tp (u_npods u)) (snapshot u st) = true.
  Proof.
    intros HI HL Hinv. split.
    - rewrite snapshot_combine. apply first_nz_zero. intros x Hx.
      apply in_map_iff in Hx. destruct Hx as ([n s] & <- & Hin).
      apply in_map_iff in Hin. destruct Hin as (n' & He & _). injection He as <- <-. cbn [fst snd].
      apply snap_pods_clause. intros uid. apply HL.
    - apply forallb_forall. intros s Hs. unfold snapshot in Hs. apply in_map_iff in Hs.
      destruct Hs as (n & <- & _). apply snap_ledger_ok; [exact HI|].
      intros uid Hf. apply valid_range. destruct (valid_uid ds uid) eqn:Hv; [reflexivity|].
        exfalso. apply Hf. specialize (HL n uid). rewrite (Hinv n uid Hv) in HL.
        unfold listing in HL. destruct (find_pod (ns_pods st) n uid); [discriminate|reflexivity].
  Qed.

  Lemma expect_live_invalid life n uid :
    (forall x, valid_uid ds x = false -> life x = 0) ->
    valid_uid ds uid = false -> expect_live ds life n uid = None.
  Proof. intros H Hv. unfold expect_live. rewrite (H uid Hv). reflexivity. Qed.

  Lemma step_core_ok l :
    LiveInv tp ds l ->
    step_core c (l_life l) (snapshot u (l_st l), snapshot u (replay_of c (l_life l))) = 0.
  Proof.
    intros [HI HL Hlife]. unfold step_core. fold u ds tp.
    rewrite !u_shape. cbn [andb negb].
    destruct (snapshot_good (l_st l) (expect_live ds (l_life l)) HI HL
                (fun n uid => expect_live_invalid (l_life l) n uid Hlife)) as [H1 H2].
    rewrite H1. cbn [Z.eqb negb].
    unfold replay_of. rewrite case_topo_first. fold tp ds.
    destruct (replay_lists tp ds case_descs (l_life l) Hlife (c_nodes c) (c_script c)) as [HIr HLr].
    destruct (snapshot_good _ (expect_replay ds (l_life l)) HIr HLr
                (fun n uid => expect_replay_invalid ds (l_life l) Hlife n uid)) as [H3 H4].
    assert (Hlen : length (snapshot u (l_st l)) =
                   length (snapshot u (replay tp (c_nodes c) ds (l_life l) true (c_script c)))).
    { unfold snapshot. rewrite !map_length. reflexivity. }
    rewrite Hlen, H3. cbn [Z.eqb negb]. rewrite H4, H2. reflexivity.
  Qed.

  Lemma run_ops_core l ops :
    LiveInv tp ds l ->
    first_nz (map (fun lo => step_core c (fst lo) (snd lo)) (combine (lives c l ops) (run_ops c l ops))) = 0.
  Proof.
    revert l. induction ops as [|op t IH]; intros l HL; [reflexivity|].
    cbn [lives run_ops combine map first_nz fst snd].
    pose proof (live_step_LiveInv tp ds case_descs l op HL) as HL'.
    fold tp ds u. rewrite (step_core_ok _ HL'). cbn [Z.eqb]. apply IH, HL'.
  Qed.

  Lemma run_ops_length l ops : length (run_ops c l ops) = length ops.
  Proof. revert l. induction ops as [|op t IH]; intros l; [reflexivity|]. cbn [run_ops length]. f_equal. apply IH. Qed.

  Theorem numa_restart_core : prop_numa_core c (run_ncase c) = 0.
  Proof.
    unfold prop_numa_core, run_ncase. rewrite run_ops_length, Nat.eqb_refl. cbn [negb].
    apply run_ops_core, LiveInv_init.
  Qed.
End Main.

(* ---------- corollaries in terms of the caches themselves ---------- *)
Section Corollaries.
  Variable c : ncase.
  Hypothesis Hok : case_ok c = true.
  Let tp := c_topo c.
  Let ds := c_descs c.

  Definition live_after (ops : list (Z * Z)) : live := fold_left (live_step tp ds) ops live_init.

  Lemma live_after_inv ops : LiveInv tp ds (live_after ops).
  Proof.
    unfold live_after. generalize (LiveInv_init tp ds). generalize live_init.
    induction ops as [|op t IH]; intros l HL; [exact HL|]. cbn [fold_left].
    apply IH, live_step_LiveInv; [apply case_descs, Hok|exact HL].
  Qed.

  (* at every cut, for every replay script: the rebuilt cache lists exactly the bound objects
     with exactly the values written, and both caches are the from-scratch ledgers of what
     they list *)
  Theorem restart_caches ops script :
    let l := live_after ops in
    let r := replay tp (c_nodes c) ds (l_life l) true script in
    Lists (l_st l) (expect_live ds (l_life l)) /\ Ledger tp (l_st l)
    /\ Lists r (expect_replay ds (l_life l)) /\ Ledger tp r.
  Proof.
    intros l r. destruct (live_after_inv ops) as [HI HL Hlife]. fold l in HI, HL, Hlife.
    destruct (replay_lists tp ds (case_descs c Hok) (l_life l) Hlife (c_nodes c) script) as [HIr HLr].
    split; [exact HL|]. split; [apply (inv_ledger _ _ HI)|]. split; [exact HLr|apply (inv_ledger _ _ HIr)].
  Qed.

  (* nothing that was taken by a bound object is free after the restart: every cpu is
     referenced at least (in fact exactly) as often as bound objects hold it *)
  Theorem nothing_freed ops script node cpu :
    let l := live_after ops in
    let r := replay tp (c_nodes c) ds (l_life l) true script in
    ns_ref r node cpu = ref_spec (node_pods r node) cpu
    /\ forall uid, expect_replay ds (l_life l) node uid <> None ->
         exists p, In p (node_pods r node) /\ pa_uid p = uid /\ (pa_cpus p, pa_numa p) = written ds uid.
  Proof.
    intros l r. destruct (restart_caches ops script) as (_ & _ & HLr & HLed). fold l r in HLr, HLed.
    split; [apply (HLed node)|].
    intros uid Hex. specialize (HLr node uid). unfold expect_replay in Hex, HLr.
    destruct ((l_life l uid =? 2) && (d_node (desc_of ds uid) =? node) && negb (empty_alloc (written ds uid)));
      [|congruence].
    destruct (find_pod (ns_pods r) node uid) as [p|] eqn:Ef; [|discriminate].
    rewrite find_pod_node_pods in Ef. fold (node_pods r node) in Ef.
    destruct (find_uid_In _ _ _ Ef) as [Hin Hu].
    exists p. repeat split; [exact Hin|exact Hu|]. cbn [option_map] in HLr. congruence.
  Qed.

  (* the rebuilt cache does not depend on the delivery order: two replay scripts give caches
     that list the same allocations and have the same reference counts and per-NUMA amounts *)
  Theorem replay_order_irrelevant ops s1 s2 node :
    let l := live_after ops in
    let r1 := replay tp (c_nodes c) ds (l_life l) true s1 in
    let r2 := replay tp (c_nodes c) ds (l_life l) true s2 in
    (forall uid, listing r1 node uid = listing r2 node uid)
    /\ (forall cpu, ns_ref r1 node cpu = ns_ref r2 node cpu)
    /\ (forall n, ns_res r1 node n = ns_res r2 node n)
    /\ (forall n x, memZ x (ns_single r1 node n) = memZ x (ns_single r2 node n))
    /\ (forall n x, memZ x (ns_shared r1 node n) = memZ x (ns_shared r2 node n)).
  Proof.
    intros l r1 r2. destruct (live_after_inv ops) as [_ _ Hlife]. fold l in Hlife.
    destruct (replay_lists tp ds (case_descs c Hok) (l_life l) Hlife (c_nodes c) s1) as [HI1 HL1].
    destruct (replay_lists tp ds (case_descs c Hok) (l_life l) Hlife (c_nodes c) s2) as [HI2 HL2].
    fold r1 in HI1, HL1. fold r2 in HI2, HL2.
    set (u := universe_of c).
    assert (Hr : forall r, (forall n uid, listing r n uid = expect_replay ds (l_life l) n uid) ->
                 forall uid, find_pod (ns_pods r) node uid <> None -> 1 <= uid <= u_npods u).
    { intros r HL uid Hf. apply (valid_range c). fold ds. destruct (valid_uid ds uid) eqn:Hv; [reflexivity|].
      exfalso. apply Hf. specialize (HL node uid). rewrite (expect_replay_invalid ds (l_life l) Hlife node uid Hv) in HL.
      unfold listing in HL. destruct (find_pod (ns_pods r) node uid); [discriminate|reflexivity]. }
    assert (Hsn : sn_pods (snap_node u r1 node) = sn_pods (snap_node u r2 node)).
    { cbn [snap_node sn_pods]. apply map_ext. intros uid. apply (eq_trans (HL1 node uid)). symmetry. apply HL2. }
    assert (Hsp : snap_pods (snap_node u r1 node) = snap_pods (snap_node u r2 node)) by (unfold snap_pods; rewrite Hsn; reflexivity).
    split; [intros uid; rewrite HL1, HL2; reflexivity|].
    split; [|split; [|split]].
    - intros cpu. rewrite <- (snap_ref tp u r1 node HI1 (Hr r1 HL1)), <- (snap_ref tp u r2 node HI2 (Hr r2 HL2)), Hsp. reflexivity.
    - intros n. rewrite <- (snap_res tp u r1 node HI1 (Hr r1 HL1)), <- (snap_res tp u r2 node HI2 (Hr r2 HL2)), Hsp. reflexivity.
    - intros n x. rewrite <- (snap_single tp u r1 node HI1 (Hr r1 HL1)), <- (snap_single tp u r2 node HI2 (Hr r2 HL2)), Hsp. reflexivity.
    - intros n x. rewrite <- (snap_shared tp u r1 node HI1 (Hr r1 HL1)), <- (snap_shared tp u r2 node HI2 (Hr r2 HL2)), Hsp. reflexivity.
  Qed.
End Corollaries.
