(* C19 / stream "dev" — flat-integer interface for the generic OCaml driver. *)
From Coq Require Import List ZArith Bool.
From Verif Require Import Lib.Wire C19.Model C19.ModelRsv C19.ModelDev C19.Spec C19.SpecDev C19.Decode.
Import ListNotations.
Open Scope Z_scope.

(* input: nodes minors t1a t1b t2a t2b devFirst nvf
          P then per object: kind node G then per group: type k (minor a b)*k ; VG then per vf group: type k (minor*100+index)*k
          K ops (kind uid); S script (kind id) *)
Definition dec_group (l : list Z) : (Z * list (Z * (Z * Z))) * list Z :=
  match l with
  | t :: r => let '(es, r') := decode_seq dec_triple r in ((t, es), r')
  | [] => ((0, []), [])
  end.
Definition dec_vfgroup (l : list Z) : (Z * list Z) * list Z :=
  match l with
  | t :: r => let '(cs, r') := take_list r in ((t, cs), r')
  | [] => ((0, []), [])
  end.
Definition dec_ddesc (l : list Z) : ddesc * list Z :=
  match l with
  | kind :: node :: r => let '(gs, r') := decode_seq dec_group r in
                         let '(vs, r'') := decode_seq dec_vfgroup r' in (mkDD kind node gs vs, r'')
  | _ => (dd_default, [])
  end.
Definition decode_dcase (inp : list Z) : dcase :=
  match inp with
  | nodes :: minors :: a1 :: b1 :: a2 :: b2 :: first :: nvf :: t =>
      let '(ds, r1) := decode_seq dec_ddesc t in
      let '(ops, r2) := decode_seq dec_pair r1 in
      let '(sc, _) := decode_seq dec_pair r2 in
      mkDCase nodes minors (a1, b1) (a2, b2) (zb first) nvf ds ops sc
  | _ => mkDCase 0 0 (0, 0) (0, 0) true 0 [] [] []
  end.

Definition dec_aset (l : list Z) : option (list (Z * (Z * Z))) * list Z :=
  match l with
  | [] => (None, [])
  | 0 :: t => (None, t)
  | _ :: t => let '(es, r) := decode_seq dec_triple t in (Some es, r)
  end.
Definition dec_dsnap (c : dcase) (l : list Z) : dsnap * list Z :=
  let '(devs, r1) := decode_many dec_quad (2 * Z.to_nat (d_minors c)) l in
  let '(aset, r2) := decode_many dec_aset (2 * length (d_descs c)) r1 in
  let '(vfs, r3) := take_n (2 * Z.to_nat (d_minors c) * Z.to_nat (d_nvf c)) r2 in
  (mkDSnap devs aset vfs, r3).
Definition dec_dstep (c : dcase) (l : list Z) :=
  let '(a, r) := decode_many (dec_dsnap c) (Z.to_nat (d_nodes c)) l in
  let '(b, r') := decode_many (dec_dsnap c) (Z.to_nat (d_nodes c)) r in
  let '(p, r'') := take_n (8 * length (d_descs c)) r' in (((a, b), p), r'').

Definition run_case (inp : list Z) : list Z := enc_drun (drun (decode_dcase inp)).
Definition prop_case (inp obs : list Z) : Z :=
  let c := decode_dcase inp in
  let r := fst (decode_many (dec_dstep c) (length (d_ops c)) obs) in
  if negb (Spec.eq_listZ (enc_drun r) obs) then 9 else prop_dev c r.
Definition nontrivial_case (inp : list Z) : bool := nontrivial_dev (decode_dcase inp).
Definition finding_sig (inp obs : list Z) : Z := 0.

Require Extraction.
Require Import ExtrOcamlBasic.
Extraction "model.ml" run_case prop_case nontrivial_case finding_sig.
