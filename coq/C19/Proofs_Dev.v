(* C19 — restart theorem for the deviceshare ledger (instance of the keyed ledger of
   Proofs_Ledger.v), at the level of the caches: for every history, cut and replay script the
   rebuilt allocateSet lists exactly the bound objects' device allocations and the used amounts are
   their from-scratch sums; the position of the Device object in the replay is irrelevant. *)
From Coq Require Import List ZArith Bool Lia.
From Verif Require Import Lib.ListX C19.Model C19.ModelRsv C19.ModelDev C19.Spec C19.SpecDev
  C19.Proofs_Codec C19.Proofs_Ledger C19.Proofs_Restart C19.Proofs_Rsv.
Import ListNotations.
Open Scope Z_scope.

Lemma find_all_false {A} (f : A -> bool) l : (forall x, In x l -> f x = false) -> find f l = None.
Proof.
  induction l as [|x t IH]; intros H; [reflexivity|]. cbn [find].
  rewrite (H x (or_introl eq_refl)). apply IH. intros y Hy. apply H. right. exact Hy.
Qed.

Definition group_types (gs : list (Z * list (Z * (Z * Z)))) : list Z := map fst gs.

Lemma nodup_types_NoDup gs : nodup_types gs = true -> NoDup (group_types gs).
Proof.
  induction gs as [|g t IH]; intros H; [constructor|]. cbn [nodup_types] in H.
  apply andb_true_iff in H. destruct H as [H1 H2]. cbn. constructor; [|apply IH, H2].
  intros Hin. apply negb_true_iff in H1. apply in_map_iff in Hin. destruct Hin as (g' & E & Hg').
  assert (existsb (fun g'0 => fst g'0 =? fst g) t = true); [|congruence].
  apply existsb_exists. exists g'. split; [exact Hg'|]. apply Z.eqb_eq, E.
Qed.

Lemma dalloc_ok ds uid g : group_ok g = true -> NoDup (gvfs ds uid (fst g)) -> palloc_ok (dalloc ds uid g).
Proof.
  intros H Hnd. unfold group_ok in H. apply andb_true_iff in H. destruct H as [_ H].
  split; cbn [dalloc pa_cpus pa_numa]; [exact Hnd|].
  intros e He. apply in_map_iff in He. destruct He as (x & <- & Hx). cbn [snd].
  rewrite forallb_forall in H. specialize (H x Hx). rewrite !andb_true_iff, !Z.leb_le in H.
  unfold pair_nonneg. tauto.
Qed.

(* dev_add / dev_del keep the ledger invariant *)
Lemma dev_add_Inv ds st node uid gs :
  (forall t, NoDup (gvfs ds uid t)) ->
  Inv no_topo st -> forallb group_ok gs = true -> Inv no_topo (dev_add ds st node uid gs).
Proof.
  intros Hvf. unfold dev_add. revert st. induction gs as [|g t IH]; intros st HI Hg; [exact HI|].
  cbn [fold_left]. cbn [forallb] in Hg. apply andb_true_iff in Hg. destruct Hg as [Hg Ht].
  apply IH; [|exact Ht]. apply add_pod_Inv; [exact HI|apply dalloc_ok; [exact Hg|apply Hvf]].
Qed.
Lemma dev_del_Inv st node uid gs : Inv no_topo st -> Inv no_topo (dev_del st node uid gs).
Proof.
  unfold dev_del. revert st. induction gs as [|g t IH]; intros st HI; [exact HI|].
  cbn [fold_left]. apply IH, release_Inv, HI.
Qed.

(* what they list *)
Lemma dev_add_find ds st node uid gs n k :
  find_pod (ns_pods (dev_add ds st node uid gs)) n k =
  match find_pod (ns_pods st) n k with
  | Some q => Some q
  | None => if n =? node
            then match find (fun g => dkey uid (fst g) =? k) gs with Some g => Some (dalloc ds uid g) | None => None end
            else None
  end.
Proof.
  unfold dev_add. revert st. induction gs as [|g t IH]; intros st; cbn [fold_left find].
  - destruct (find_pod (ns_pods st) n k); [reflexivity|]. destruct (n =? node); reflexivity.
  - rewrite IH, add_pod_find_gen. cbn [dalloc pa_uid]. fold (dalloc ds uid g).
    destruct (n =? node) eqn:En; cbn [andb].
    + apply Z.eqb_eq in En. subst n. rewrite (Z.eqb_sym k).
      destruct (dkey uid (fst g) =? k) eqn:Ek.
      * apply Z.eqb_eq in Ek. subst k. destruct (find_pod (ns_pods st) node (dkey uid (fst g))); reflexivity.
      * destruct (find_pod (ns_pods st) node k); reflexivity.
    + destruct (find_pod (ns_pods st) n k); reflexivity.
Qed.
Lemma dev_del_find st node uid gs n k :
  find_pod (ns_pods (dev_del st node uid gs)) n k =
  if (n =? node) && existsb (fun g => dkey uid (fst g) =? k) gs then None else find_pod (ns_pods st) n k.
Proof.
  unfold dev_del. revert st. induction gs as [|g t IH]; intros st; cbn [fold_left existsb].
  - rewrite andb_false_r. reflexivity.
  - rewrite IH, release_find. rewrite (Z.eqb_sym k).
    destruct (n =? node); cbn [andb]; [|reflexivity].
    destruct (dkey uid (fst g) =? k); cbn [orb]; [destruct (existsb _ t); reflexivity|reflexivity].
Qed.

Section Dev.
  Variable ds : list ddesc.
  Hypothesis Hds : forallb ddesc_ok ds = true.

  Lemma ddesc_valid u : dvalid ds u = true -> ddesc_ok (ddesc_of ds u) = true.
  Proof.
    unfold dvalid, ddesc_of. rewrite andb_true_iff, !Z.leb_le. intros [H1 H2].
    rewrite forallb_forall in Hds. apply Hds, nth_In. lia.
  Qed.
  Lemma ddesc_groups_ok u : dvalid ds u = true -> forallb group_ok (dd_groups (ddesc_of ds u)) = true.
  Proof. intros Hv. pose proof (ddesc_valid u Hv) as H. unfold ddesc_ok in H. rewrite !andb_true_iff in H. apply H. Qed.
  Lemma nodupZ_NoDup l : nodupZ l = true -> NoDup l.
  Proof.
    induction l as [|x t IH]; intros H; [constructor|]. cbn [nodupZ] in H. apply andb_true_iff in H.
    destruct H as [H1 H2]. constructor; [|apply IH, H2]. apply negb_true_iff in H1. apply memZ_false, H1.
  Qed.
  Lemma vfgroup_valid u t x :
    dvalid ds u = true -> find (fun x => fst x =? t) (dd_vfs (ddesc_of ds u)) = Some x -> vfgroup_ok x = true.
  Proof.
    intros Hv Hf. pose proof (ddesc_valid u Hv) as H. unfold ddesc_ok in H. rewrite !andb_true_iff in H.
    destruct H as [_ H]. rewrite forallb_forall in H. apply H. apply find_some in Hf. apply Hf.
  Qed.
  Lemma gvfs_nodup u : dvalid ds u = true -> forall t, NoDup (gvfs ds u t).
  Proof.
    intros Hv t. unfold gvfs, vfs_of. destruct (find (fun x => fst x =? t) (dd_vfs (ddesc_of ds u))) as [x|] eqn:Ef; [|constructor].
    pose proof (vfgroup_valid u t x Hv Ef) as H. unfold vfgroup_ok in H. rewrite !andb_true_iff in H.
    destruct H as [[_ H] _]. apply nodupZ_NoDup in H.
    apply FinFun.Injective_map_NoDup; [|exact H]. intros a b E. unfold gvf in E. lia.
  Qed.
  Lemma ddesc_node_nz u : dvalid ds u = true -> (dd_node (ddesc_of ds u) =? 0) = false.
  Proof.
    intros Hv. pose proof (ddesc_valid u Hv) as H. unfold ddesc_ok in H. rewrite !andb_true_iff, Z.leb_le in H.
    apply Z.eqb_neq. lia.
  Qed.

  (* a key decodes to (object, device type) *)
  Lemma dkey_decode uid t k : 0 <= t < 10 -> (dkey uid t =? k) = (uid =? k / 10) && (t =? k mod 10).
  Proof.
    intros Ht. unfold dkey. pose proof (Z.div_mod k 10 ltac:(lia)) as Hk.
    pose proof (Z.mod_pos_bound k 10 ltac:(lia)) as Hm.
    apply eq_true_iff_eq. rewrite andb_true_iff, !Z.eqb_eq. split; [intros <-|intros [-> ->]].
    - split; [apply Z.div_unique with t; lia | apply Z.mod_unique with uid; lia].
    - lia.
  Qed.

  Lemma find_key_decode uid gs k :
    forallb group_ok gs = true ->
    find (fun g => dkey uid (fst g) =? k) gs =
    if uid =? k / 10 then find (fun g => fst g =? k mod 10) gs else None.
  Proof.
    intros Hg. induction gs as [|g t IH]; [destruct (uid =? k / 10); reflexivity|].
    cbn [forallb] in Hg. apply andb_true_iff in Hg. destruct Hg as [Hg Ht]. cbn [find].
    assert (0 <= fst g < 10).
    { unfold group_ok in Hg. rewrite andb_true_iff, orb_true_iff, !Z.eqb_eq in Hg. lia. }
    rewrite dkey_decode by assumption. rewrite (IH Ht).
    destruct (uid =? k / 10); cbn [andb]; reflexivity.
  Qed.
  Lemma existsb_key_decode uid gs k :
    forallb group_ok gs = true ->
    existsb (fun g => dkey uid (fst g) =? k) gs = (uid =? k / 10) && existsb (fun g => fst g =? k mod 10) gs.
  Proof.
    intros Hg. induction gs as [|g t IH]; [rewrite andb_false_r; reflexivity|].
    cbn [forallb] in Hg. apply andb_true_iff in Hg. destruct Hg as [Hg Ht]. cbn [existsb].
    assert (0 <= fst g < 10).
    { unfold group_ok in Hg. rewrite andb_true_iff, orb_true_iff, !Z.eqb_eq in Hg. lia. }
    rewrite dkey_decode by assumption. rewrite (IH Ht).
    destruct (uid =? k / 10); cbn [andb]; reflexivity.
  Qed.

  (* what the cache lists under key k on node n, for a selection [sel] of objects *)
  Definition dexp (sel : Z -> bool) (n k : Z) : option palloc :=
    let u := k / 10 in
    if sel u && (dd_node (ddesc_of ds u) =? n)
    then match find (fun g => fst g =? k mod 10) (dd_groups (ddesc_of ds u)) with
         | Some g => Some (dalloc ds u g) | None => None end
    else None.
  Definition dlisted (st : nstate) (sel : Z -> bool) : Prop :=
    forall n k, find_pod (ns_pods st) n k = dexp sel n k.

  Lemma dlisted_ext st s1 s2 : (forall u, s1 u = s2 u) -> dlisted st s1 -> dlisted st s2.
  Proof. intros H HL n k. rewrite HL. unfold dexp. rewrite H. reflexivity. Qed.

  Lemma dlisted_add st sel uid :
    dvalid ds uid = true -> dlisted st sel ->
    dlisted (dev_add ds st (dd_node (ddesc_of ds uid)) uid (dd_groups (ddesc_of ds uid)))
            (fun u => if u =? uid then true else sel u).
  Proof.
    intros Hv HL n k. rewrite dev_add_find, HL, (find_key_decode _ _ _ (ddesc_groups_ok uid Hv)).
    unfold dexp. rewrite (Z.eqb_sym uid). destruct (k / 10 =? uid) eqn:E.
    - apply Z.eqb_eq in E. rewrite E. cbn [andb]. rewrite (Z.eqb_sym n).
      destruct (sel uid); cbn [andb]; destruct (dd_node (ddesc_of ds uid) =? n);
        destruct (find (fun g => fst g =? k mod 10) (dd_groups (ddesc_of ds uid))); reflexivity.
    - destruct (sel (k / 10) && (dd_node (ddesc_of ds (k / 10)) =? n)).
      + destruct (find _ (dd_groups (ddesc_of ds (k / 10)))); [reflexivity|]. destruct (n =? _); reflexivity.
      + destruct (n =? _); reflexivity.
  Qed.
  Lemma dlisted_del st sel uid :
    dvalid ds uid = true -> dlisted st sel ->
    dlisted (dev_del st (dd_node (ddesc_of ds uid)) uid (dd_groups (ddesc_of ds uid)))
            (fun u => if u =? uid then false else sel u).
  Proof.
    intros Hv HL n k. rewrite dev_del_find, HL, (existsb_key_decode _ _ _ (ddesc_groups_ok uid Hv)).
    unfold dexp. rewrite (Z.eqb_sym uid). destruct (k / 10 =? uid) eqn:E.
    - apply Z.eqb_eq in E. rewrite E. cbn [andb]. rewrite (Z.eqb_sym n).
      destruct (dd_node (ddesc_of ds uid) =? n); cbn [andb]; [|rewrite andb_false_r; reflexivity].
      destruct (existsb (fun g => fst g =? k mod 10) (dd_groups (ddesc_of ds uid))) eqn:Ex; [reflexivity|].
      replace (find (fun g => fst g =? k mod 10) (dd_groups (ddesc_of ds uid))) with (@None (Z * list (Z * (Z * Z)))).
      + destruct (sel uid); reflexivity.
      + symmetry. apply find_all_false. intros g Hg.
        destruct (fst g =? k mod 10) eqn:Eg; [|reflexivity]. exfalso.
        assert (existsb (fun g0 => fst g0 =? k mod 10) (dd_groups (ddesc_of ds uid)) = true); [|congruence].
        apply existsb_exists. exists g. split; assumption.
    - rewrite andb_false_r. cbn [andb]. reflexivity.
  Qed.

  (* ---------- live ---------- *)
  Definition dsel (life : Z -> Z) (live : bool) (u : Z) : bool :=
    dvalid ds u && (is_bound (life u) || (live && (life u =? 1))).

  Record DLive (l : dlive) : Prop := mkDLI {
    dli_inv : Inv no_topo (dl_st l);
    dli_lists : dlisted (dl_st l) (dsel (dl_life l) true);
    dli_life : forall u, dvalid ds u = false -> dl_life l u = 0 }.

  Lemma DLive_init : DLive dlive_init.
  Proof.
    constructor; [apply Inv_init| |reflexivity].
    intros n k. unfold dexp, dsel. cbn. rewrite !andb_false_r. reflexivity.
  Qed.

  Lemma dh_update_bound st old uid :
    dvalid ds uid = true ->
    (old = None \/ old = Some (dpending uid) \/ old = Some (dbound ds uid false)) ->
    dh_update ds st old (dbound ds uid false) =
    let d := ddesc_of ds uid in
    if is_nil (dd_groups d) then st
    else match old with
         | Some od => if do_node od =? 0 then dev_add ds st (dd_node d) uid (dd_groups d)
                      else dev_add ds (dev_del st (dd_node d) uid (dd_groups d)) (dd_node d) uid (dd_groups d)
         | None => dev_add ds st (dd_node d) uid (dd_groups d)
         end.
  Proof.
    intros Hv Hold. unfold dh_update, dbound. cbn [do_node do_term do_groups do_uid].
    rewrite (ddesc_node_nz uid Hv). cbn zeta.
    destruct Hold as [->|[->| ->]]; cbn [dpending dbound do_groups do_node Z.eqb is_nil andb].
    - destruct (dd_groups (ddesc_of ds uid)); reflexivity.
    - destruct (dd_groups (ddesc_of ds uid)); reflexivity.
    - rewrite (ddesc_node_nz uid Hv). rewrite andb_diag. destruct (dd_groups (ddesc_of ds uid)) eqn:Eg; reflexivity.
  Qed.

  Lemma dev_add_nil st node uid : dev_add ds st node uid [] = st. Proof. reflexivity. Qed.
  Lemma dev_del_nil st node uid : dev_del st node uid [] = st. Proof. reflexivity. Qed.

  Lemma dsel_upd life live uid v u :
    dsel (upd1 life uid v) live u = if u =? uid then dvalid ds u && (is_bound v || (live && (v =? 1))) else dsel life live u.
  Proof. unfold dsel, upd1. destruct (u =? uid); reflexivity. Qed.

  Lemma dlive_step_DLive l op : DLive l -> DLive (dlive_step ds l op).
  Proof.
    intros [HI HL Hlife]. destruct op as [k uid]. unfold dlive_step.
    destruct (dvalid ds uid) eqn:Hv; cbn [negb]; [|constructor; assumption].
    set (d := ddesc_of ds uid). set (s := dl_life l uid).
    assert (Hlife' : forall v u, dvalid ds u = false -> upd1 (dl_life l) uid v u = 0).
    { intros v u Hu. unfold upd1. destruct (u =? uid) eqn:E; [|apply Hlife, Hu].
      apply Z.eqb_eq in E. subst u. congruence. }
    assert (Hset : forall v, (is_bound v || (v =? 1)) = true -> forall u,
              (if u =? uid then true else dsel (dl_life l) true u) = dsel (upd1 (dl_life l) uid v) true u).
    { intros v Hvv u. rewrite dsel_upd. cbn [andb]. rewrite Hvv.
      destruct (u =? uid) eqn:E; [|reflexivity]. apply Z.eqb_eq in E. subst u. rewrite Hv. reflexivity. }
    assert (Hclr : forall v, (is_bound v || (v =? 1)) = false -> forall u,
              (if u =? uid then false else dsel (dl_life l) true u) = dsel (upd1 (dl_life l) uid v) true u).
    { intros v Hvv u. rewrite dsel_upd. cbn [andb]. rewrite Hvv.
      destruct (u =? uid) eqn:E; [|reflexivity]. rewrite andb_false_r. reflexivity. }
    destruct ((k =? 1) && (s =? 0)) eqn:C1.
    { constructor; cbn [dl_st dl_life]; [| |apply Hlife'].
      - apply dev_add_Inv; [apply gvfs_nodup, Hv|exact HI|apply ddesc_groups_ok, Hv].
      - eapply dlisted_ext; [apply (Hset 1 eq_refl)|]. apply dlisted_add; assumption. }
    destruct ((k =? 2) && (s =? 1)) eqn:C2.
    { constructor; cbn [dl_st dl_life]; [apply dev_del_Inv, HI| |apply Hlife'].
      eapply dlisted_ext; [apply (Hclr 0 eq_refl)|]. apply dlisted_del; assumption. }
    destruct ((k =? 3) && (s =? 1)) eqn:C3.
    { rewrite (dh_update_bound _ _ _ Hv (or_intror (or_introl eq_refl))). cbn zeta. cbn [dpending do_node Z.eqb]. fold d.
      constructor; cbn [dl_st dl_life]; [| |apply Hlife'].
      - destruct (is_nil (dd_groups d)); [exact HI|]. apply dev_add_Inv; [apply gvfs_nodup, Hv|exact HI|apply ddesc_groups_ok, Hv].
      - eapply dlisted_ext; [apply (Hset 2 eq_refl)|].
        destruct (dd_groups d) eqn:Eg; cbn [is_nil].
        + rewrite <- (dev_add_nil (dl_st l) (dd_node d) uid), <- Eg. apply dlisted_add; assumption.
        + rewrite <- Eg. apply dlisted_add; assumption. }
    destruct ((k =? 4) && (is_bound s || (s =? 4))) eqn:C4.
    { unfold dh_delete, dbound. cbn [do_node do_uid do_groups]. fold d. unfold d at 1. rewrite (ddesc_node_nz uid Hv).
      constructor; cbn [dl_st dl_life]; [apply dev_del_Inv, HI| |apply Hlife'].
      eapply dlisted_ext; [apply (Hclr 3 eq_refl)|]. apply dlisted_del; assumption. }
    destruct ((k =? 5) && is_bound s) eqn:C5.
    { apply andb_true_iff in C5. destruct C5 as [_ Hs].
      rewrite (dh_update_bound _ _ _ Hv (or_intror (or_intror eq_refl))). cbn zeta. cbn [dbound do_node]. fold d.
      unfold d at 2. rewrite (ddesc_node_nz uid Hv). fold d.
      assert (Hsame : forall u, (if u =? uid then true else if u =? uid then false else dsel (dl_life l) true u) = dsel (dl_life l) true u).
      { intros u. destruct (u =? uid) eqn:E; [|reflexivity]. apply Z.eqb_eq in E. subst u.
        unfold dsel. fold s. rewrite Hv, Hs. reflexivity. }
      constructor; cbn [dl_st dl_life]; [| |exact Hlife].
      - destruct (is_nil (dd_groups d)); [exact HI|].
        apply dev_add_Inv; [apply gvfs_nodup, Hv|apply dev_del_Inv, HI|apply ddesc_groups_ok, Hv].
      - destruct (is_nil (dd_groups d)); [exact HL|].
        eapply dlisted_ext; [apply Hsame|]. apply dlisted_add; [exact Hv|]. apply dlisted_del; assumption. }
    destruct ((k =? 7) && is_bound s) eqn:C7.
    { unfold dh_update, dbound. cbn [do_node do_term]. fold d. unfold d at 1. rewrite (ddesc_node_nz uid Hv).
      unfold dh_delete. cbn [do_node do_uid do_groups]. fold d. unfold d at 1. rewrite (ddesc_node_nz uid Hv).
      constructor; cbn [dl_st dl_life]; [apply dev_del_Inv, HI| |apply Hlife'].
      eapply dlisted_ext; [apply (Hclr 4 eq_refl)|]. apply dlisted_del; assumption. }
    destruct ((k =? 10) && (s =? 2)) eqn:C10.
    { rewrite (dh_update_bound _ _ _ Hv (or_intror (or_intror eq_refl))). cbn zeta. cbn [dbound do_node]. fold d.
      unfold d at 2. rewrite (ddesc_node_nz uid Hv). fold d.
      constructor; cbn [dl_st dl_life]; [| |apply Hlife'].
      - destruct (is_nil (dd_groups d)); [exact HI|].
        apply dev_add_Inv; [apply gvfs_nodup, Hv|apply dev_del_Inv, HI|apply ddesc_groups_ok, Hv].
      - eapply dlisted_ext; [apply (Hset 6 eq_refl)|].
        destruct (dd_groups d) eqn:Eg; cbn [is_nil].
        + rewrite <- (dev_add_nil (dl_st l) (dd_node d) uid), <- Eg. apply dlisted_add; assumption.
        + rewrite <- Eg. eapply dlisted_ext; [|apply dlisted_add; [exact Hv|apply dlisted_del; [exact Hv|exact HL]]].
          intros u. cbn beta. destruct (u =? uid); reflexivity. }
    constructor; assumption.
  Qed.

  (* ---------- fresh ---------- *)
  Variable life : Z -> Z.
  Hypothesis Hlife : forall u, dvalid ds u = false -> life u = 0.

  Record DFresh (f : dfresh) : Prop := mkDFI {
    dfi_inv : Inv no_topo (df_st f);
    dfi_lists : exists dl, dlisted (df_st f) (fun u => dl u && dsel life false u)
                           /\ (forall u, df_seen f u = true -> dl u = true) }.

  Lemma ddeliver st old u o dl :
    dvalid ds u = true -> dobj_of ds life u = Some o ->
    (old = None \/ old = Some (dpending u) \/ old = Some o) ->
    Inv no_topo st -> dlisted st (fun v => dl v && dsel life false v) ->
    Inv no_topo (dh_update ds st old o)
    /\ dlisted (dh_update ds st old o) (fun v => upd1 dl u true v && dsel life false v).
  Proof.
    intros Hv Ho Hold HI HL. unfold dobj_of in Ho.
    assert (Hpart : forall b, dsel life false u = b -> forall v,
               (if v =? u then b else dl v && dsel life false v) = upd1 dl u true v && dsel life false v).
    { intros b Hb v. unfold upd1. destruct (v =? u) eqn:E; [|reflexivity].
      apply Z.eqb_eq in E. subst v. symmetry. exact Hb. }
    destruct (life u =? 3) eqn:E3; [discriminate|].
    destruct (is_bound (life u) || (life u =? 4)) eqn:E24.
    - injection Ho as <-. destruct (life u =? 4) eqn:E4.
      + unfold dh_update, dbound. cbn [do_node do_term]. rewrite (ddesc_node_nz u Hv).
        unfold dh_delete. cbn [do_node do_uid do_groups]. rewrite (ddesc_node_nz u Hv).
        split; [apply dev_del_Inv, HI|].
        eapply dlisted_ext; [|apply dlisted_del; [exact Hv|exact HL]]. apply Hpart.
        unfold dsel. apply Z.eqb_eq in E4. rewrite E4. cbn. apply andb_false_r.
      + assert (E2 : is_bound (life u) = true) by (rewrite orb_false_r in E24; exact E24).
        assert (Hsel : dsel life false u = true) by (unfold dsel; rewrite Hv, E2; reflexivity).
        rewrite (dh_update_bound st old u Hv Hold). cbn zeta.
        destruct (dd_groups (ddesc_of ds u)) eqn:Eg; cbn [is_nil].
        * split; [exact HI|]. eapply dlisted_ext; [apply (Hpart true Hsel)|].
          rewrite <- (dev_add_nil st (dd_node (ddesc_of ds u)) u), <- Eg. apply dlisted_add; assumption.
        * rewrite <- Eg.
          destruct Hold as [->|[->| ->]]; cbn [dpending dbound do_node Z.eqb]; try rewrite (ddesc_node_nz u Hv).
          -- split; [apply dev_add_Inv; [apply gvfs_nodup, Hv|exact HI|apply ddesc_groups_ok, Hv]|].
             eapply dlisted_ext; [apply (Hpart true Hsel)|]. apply dlisted_add; assumption.
          -- split; [apply dev_add_Inv; [apply gvfs_nodup, Hv|exact HI|apply ddesc_groups_ok, Hv]|].
             eapply dlisted_ext; [apply (Hpart true Hsel)|]. apply dlisted_add; assumption.
          -- split; [apply dev_add_Inv; [apply gvfs_nodup, Hv|apply dev_del_Inv, HI|apply ddesc_groups_ok, Hv]|].
             eapply dlisted_ext; [|apply dlisted_add; [exact Hv|apply dlisted_del; [exact Hv|exact HL]]].
             intros v. cbn beta. rewrite <- (Hpart true Hsel v). destruct (v =? u); reflexivity.
    - injection Ho as <-.
      assert (Hc : dh_update ds st old (dpending u) = st).
      { unfold dh_update, dpending. cbn [do_node Z.eqb]. destruct Hold as [->|[->| ->]]; reflexivity. }
      rewrite Hc. split; [exact HI|]. eapply dlisted_ext; [|exact HL]. intros v. unfold upd1.
      destruct (v =? u) eqn:E; [|reflexivity]. apply Z.eqb_eq in E. subst v.
      apply orb_false_iff in E24. destruct E24 as [E2 _]. unfold dsel. rewrite E2. cbn. rewrite !andb_false_r. reflexivity.
  Qed.

  Lemma dreplay_step_DFresh f ev : DFresh f -> DFresh (dreplay_step ds life f ev).
  Proof.
    intros [HI (dl & HL & Hs)]. destruct ev as [k id]. unfold dreplay_step.
    destruct (k =? 4); [constructor; [assumption|exists dl; auto]|].
    destruct (dvalid ds id) eqn:Hv; cbn [negb]; [|constructor; [assumption|exists dl; auto]].
    destruct (dobj_of ds life id) as [o|] eqn:Ho; [|constructor; [assumption|exists dl; auto]].
    destruct (k =? 1).
    { destruct (ddeliver (df_st f) None id o dl Hv Ho (or_introl eq_refl) HI HL) as (HI' & HL').
      constructor; cbn [df_st df_seen]; [exact HI'|].
      exists (upd1 dl id true). split; [exact HL'|]. intros u. unfold upd1. destruct (u =? id); [reflexivity|apply Hs]. }
    destruct (k =? 2).
    { destruct (ddeliver (df_st f) (Some o) id o dl Hv Ho (or_intror (or_intror eq_refl)) HI HL) as (HI' & HL').
      constructor; cbn [df_st df_seen]; [exact HI'|].
      exists (upd1 dl id true). split; [exact HL'|]. intros u Hu. unfold upd1. destruct (u =? id); [reflexivity|apply Hs, Hu]. }
    destruct (k =? 3).
    { destruct (ddeliver (df_st f) (Some (dpending id)) id o dl Hv Ho (or_intror (or_introl eq_refl)) HI HL) as (HI' & HL').
      constructor; cbn [df_st df_seen]; [exact HI'|].
      exists (upd1 dl id true). split; [exact HL'|]. intros u Hu. unfold upd1. destruct (u =? id); [reflexivity|apply Hs, Hu]. }
    constructor; [assumption|exists dl; auto].
  Qed.
  Lemma dfold_DFresh evs f : DFresh f -> DFresh (fold_left (dreplay_step ds life) evs f).
  Proof. revert f. induction evs as [|e t IH]; intros f H; [exact H|]. cbn [fold_left]. apply IH, dreplay_step_DFresh, H. Qed.

  Lemma dreplay_step_seen f ev u : df_seen f u = true -> df_seen (dreplay_step ds life f ev) u = true.
  Proof.
    intros H. destruct ev as [k id]. unfold dreplay_step.
    destruct (k =? 4); [exact H|]. destruct (negb (dvalid ds id)); [exact H|].
    destruct (dobj_of ds life id); [|exact H].
    destruct (k =? 1); [cbn [df_seen]; unfold upd1; destruct (u =? id); [reflexivity|exact H]|].
    destruct (k =? 2); [exact H|]. destruct (k =? 3); exact H.
  Qed.
  Lemma dfold_seen evs f u : df_seen f u = true -> df_seen (fold_left (dreplay_step ds life) evs f) u = true.
  Proof. revert f. induction evs as [|e t IH]; intros f H; [exact H|]. cbn [fold_left]. apply IH, dreplay_step_seen, H. Qed.

  Lemma dcompletion_seen f u :
    dvalid ds u = true -> dobj_of ds life u <> None ->
    df_seen (fold_left (dreplay_step ds life) (dcompletion ds f) f) u = true.
  Proof.
    intros Hv Ho. destruct (df_seen f u) eqn:Es; [apply dfold_seen, Es|].
    unfold dcompletion.
    assert (Hin : In u (filter (fun u0 => negb (df_seen f u0)) (zrange 1 (length ds)))).
    { apply filter_In. split; [|rewrite Es; reflexivity]. apply range_list_In.
      unfold dvalid in Hv. apply andb_true_iff in Hv. rewrite !Z.leb_le in Hv. lia. }
    apply in_split in Hin. destruct Hin as (l1 & l2 & ->).
    rewrite map_app, fold_left_app. cbn [map fold_left]. apply dfold_seen.
    generalize (fold_left (dreplay_step ds life) (map (fun u0 : Z => (1, u0)) l1) f). intros g.
    unfold dreplay_step. replace (1 =? 4) with false by reflexivity. replace (1 =? 1) with true by reflexivity.
    rewrite Hv. cbn [negb].
    destruct (dobj_of ds life u); [|congruence]. cbn [df_seen]. unfold upd1. rewrite Z.eqb_refl. reflexivity.
  Qed.

  Theorem dreplay_lists script :
    let r := dreplay ds life script in
    Inv no_topo r /\ dlisted r (dsel life false).
  Proof.
    intros r. unfold r, dreplay.
    set (f0 := mkDF ns_init (fun _ => false)).
    set (f1 := fold_left (dreplay_step ds life) script f0).
    set (f2 := fold_left (dreplay_step ds life) (dcompletion ds f1) f1).
    assert (H0 : DFresh f0).
    { constructor; [apply Inv_init|]. exists (fun _ => false). split; [|discriminate].
      intros n k. unfold dexp. reflexivity. }
    pose proof (dfold_DFresh script f0 H0) as H1. fold f1 in H1.
    pose proof (dfold_DFresh (dcompletion ds f1) f1 H1) as H2. fold f2 in H2.
    destruct H2 as [HI (dl & HL & Hs)]. split; [exact HI|].
    eapply dlisted_ext; [|exact HL]. intros u. cbn beta.
    destruct (dl u) eqn:Ed; [reflexivity|]. cbn [andb].
    unfold dsel. destruct (dvalid ds u) eqn:Hv; [|reflexivity]. cbn [andb].
    destruct (is_bound (life u)) eqn:E2; [|reflexivity].
    exfalso. assert (df_seen f2 u = true).
    { apply dcompletion_seen; [exact Hv|]. unfold dobj_of. rewrite E2.
      assert ((life u =? 3) = false) as ->; [|discriminate].
      unfold is_bound in E2. apply orb_true_iff in E2. destruct E2 as [E|E]; apply Z.eqb_eq in E; rewrite E; reflexivity. }
    rewrite (Hs u H) in Ed. discriminate.
  Qed.
End Dev.

(* ---------- the theorem at the level of the caches ---------- *)
Section DevMain.
  Variable c : dcase.
  Hypothesis Hok : dcase_ok c = true.
  Let ds := d_descs c.

  Lemma dcase_descs : forallb ddesc_ok ds = true.
  Proof. unfold dcase_ok in Hok. rewrite !andb_true_iff in Hok. apply Hok. Qed.

  Definition dlive_after (ops : list (Z * Z)) : dlive := fold_left (dlive_step ds) ops dlive_init.
  Lemma dlive_after_inv ops : DLive ds (dlive_after ops).
  Proof.
    unfold dlive_after. generalize (DLive_init ds). generalize dlive_init.
    induction ops as [|op t IH]; intros l HL; [exact HL|]. cbn [fold_left].
    apply IH, dlive_step_DLive; [apply dcase_descs|exact HL].
  Qed.

  (* for every history, cut and replay script (wherever the Device objects arrive): the live
     allocateSet lists the assumed and bound objects' allocations, the rebuilt one exactly the bound
     objects', both caches are the from-scratch ledgers of what they list *)
  Theorem dev_restart_caches ops script :
    let l := dlive_after ops in
    let r := dreplay ds (dl_life l) script in
    dlisted ds (dl_st l) (dsel ds (dl_life l) true) /\ Ledger no_topo (dl_st l)
    /\ dlisted ds r (dsel ds (dl_life l) false) /\ Ledger no_topo r.
  Proof.
    intros l r. destruct (dlive_after_inv ops) as [HI HL Hlife]. fold l in HI, HL, Hlife.
    destruct (dreplay_lists ds dcase_descs (dl_life l) script) as [HIr HLr].
    split; [exact HL|]. split; [apply (inv_ledger _ _ HI)|]. split; [exact HLr|apply (inv_ledger _ _ HIr)].
  Qed.
End DevMain.
