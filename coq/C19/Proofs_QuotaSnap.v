(* C19 — elastic quota: from the caches to the decision procedure the checker runs: when no pod is
   left terminated-but-not-deleted (finding 4 otherwise) prop_quota answers 0 on the model's own run. *)
From Coq Require Import List ZArith Bool Lia Permutation.
From Verif Require Import Lib.ListX C19.Model C19.ModelRsv C19.ModelQuota C19.Spec C19.SpecQuota
  C19.Proofs_Codec C19.Proofs_Ledger C19.Proofs_Restart C19.Proofs_Snapshot C19.Proofs_Rsv C19.Proofs_Quota
  C19.Proofs_DevSnap.
Import ListNotations.
Open Scope Z_scope.

Section QSnap.
  Variables (nq : Z) (ds : list qdesc).
  Hypothesis Hds : forallb (qdesc_ok nq) ds = true.
  Hypothesis Hnq : 0 <= nq.
  Let np := length ds.

  Variables (st : nstate) (ex asg : Z -> bool).
  Hypothesis HI : Inv no_topo st.
  Hypothesis HL : qlisted ds st ex asg.

  Lemma quid_valid u : In u (quids ds) -> qvalid ds u = true.
  Proof.
    unfold quids, zrange. intros H. apply range_list_In in H. unfold qvalid. rewrite andb_true_iff, !Z.leb_le. lia.
  Qed.

  Lemma qfind q k : find (uid_is k) (node_pods st q) = qexp ds ex asg q k.
  Proof. unfold node_pods. rewrite <- find_pod_node_pods. apply HL. Qed.

  Lemma qkeys_bounds q p : In p (node_pods st q) -> 10 <= pa_uid p < 10 + Z.of_nat (10 * np).
  Proof.
    intros Hp. assert (Hf : find (uid_is (pa_uid p)) (node_pods st q) <> None).
    { intros Hn. apply find_uid_None in Hn. apply Hn, in_map, Hp. }
    rewrite qfind in Hf. unfold qexp in Hf.
    destruct (qvalid ds (pa_uid p / 10) && (qd_quota (qdesc_of ds (pa_uid p / 10)) =? q)) eqn:E; [|congruence].
    apply andb_true_iff in E. destruct E as [Hv _]. unfold qvalid in Hv. rewrite andb_true_iff, !Z.leb_le in Hv. fold np in Hv.
    pose proof (Z.div_mod (pa_uid p) 10 ltac:(lia)). pose proof (Z.mod_pos_bound (pa_uid p) 10 ltac:(lia)). lia.
  Qed.

  Lemma qk_div u t : 0 <= t < 10 -> (u * 10 + t) / 10 = u.
  Proof. intros H. symmetry. apply Z.div_unique with t; lia. Qed.
  Lemma qk_mod u t : 0 <= t < 10 -> (u * 10 + t) mod 10 = t.
  Proof. intros H. symmetry. apply Z.mod_unique with u; lia. Qed.

  (* the contribution of the ten keys of pod u to Used of quota q *)
  Lemma qblock q u :
    qvalid ds u = true ->
    res_spec (flat_map (pick (node_pods st q)) (range_list (10 * u) 10)) 0 =
    if (qd_quota (qdesc_of ds u) =? q) && asg u then (qd_cpu (qdesc_of ds u), qd_mem (qdesc_of ds u)) else (0, 0).
  Proof.
    intros Hv.
    assert (Hpick : forall t, 0 <= t < 10 ->
              res_spec (pick (node_pods st q) (u * 10 + t)) 0 =
              if (t =? 1) && (qd_quota (qdesc_of ds u) =? q) && asg u
              then (qd_cpu (qdesc_of ds u), qd_mem (qdesc_of ds u)) else (0, 0)).
    { intros t Ht. unfold pick. rewrite qfind. unfold qexp. rewrite qk_div, qk_mod by exact Ht. rewrite Hv. cbn [andb].
      destruct (qd_quota (qdesc_of ds u) =? q); [|rewrite andb_false_r; reflexivity]. rewrite andb_true_r.
      destruct (t =? 0) eqn:E0.
      - apply Z.eqb_eq in E0. subst t. cbn [Z.eqb andb]. destruct (ex u); reflexivity.
      - destruct (t =? 1); cbn [andb]; [|reflexivity]. destruct (asg u); [|reflexivity].
        unfold res_spec, q_used, numa_amt, pair_add. cbn [fold_right pa_numa fst snd Z.eqb]. f_equal; lia. }
    change (range_list (10 * u) 10) with
      [10 * u; 10 * u + 1; 10 * u + 1 + 1; 10 * u + 1 + 1 + 1; 10 * u + 1 + 1 + 1 + 1; 10 * u + 1 + 1 + 1 + 1 + 1;
       10 * u + 1 + 1 + 1 + 1 + 1 + 1; 10 * u + 1 + 1 + 1 + 1 + 1 + 1 + 1; 10 * u + 1 + 1 + 1 + 1 + 1 + 1 + 1 + 1;
       10 * u + 1 + 1 + 1 + 1 + 1 + 1 + 1 + 1 + 1].
    replace (10 * u) with (u * 10 + 0) by lia.
    replace (u * 10 + 0 + 1) with (u * 10 + 1) by lia.
    replace (u * 10 + 1 + 1) with (u * 10 + 2) by lia.
    replace (u * 10 + 2 + 1) with (u * 10 + 3) by lia.
    replace (u * 10 + 3 + 1) with (u * 10 + 4) by lia.
    replace (u * 10 + 4 + 1) with (u * 10 + 5) by lia.
    replace (u * 10 + 5 + 1) with (u * 10 + 6) by lia.
    replace (u * 10 + 6 + 1) with (u * 10 + 7) by lia.
    replace (u * 10 + 7 + 1) with (u * 10 + 8) by lia.
    replace (u * 10 + 8 + 1) with (u * 10 + 9) by lia.
    cbn [flat_map]. rewrite !res_spec_app, !Hpick by lia. cbn [Z.eqb andb res_spec fold_right].
    rewrite !pair_add_0_l, !pair_add_0_r. reflexivity.
  Qed.

  Lemma qused q :
    ns_res st q 0 = qsum ds (filter (fun u => (qd_quota (qdesc_of ds u) =? q) && asg u) (quids ds)).
  Proof.
    destruct (inv_ledger _ _ HI q) as (_ & L2 & _). rewrite L2.
    assert (Hnd : NoDup (map pa_uid (node_pods st q))) by apply (inv_keys _ _ HI).
    rewrite (res_spec_perm _ _ _ (perm_by_uid (10 * np) 10 (node_pods st q) Hnd (qkeys_bounds q))).
    rewrite range_blocks. unfold quids, zrange. fold np.
    assert (Hall : forall u, In u (range_list 1 np) -> qvalid ds u = true) by (intros u Hu; apply quid_valid, Hu).
    revert Hall. generalize (range_list 1 np). induction l as [|u r IH]; intros Hall; [reflexivity|].
    cbn [flat_map filter]. rewrite flat_map_app, res_spec_app, (qblock q u (Hall u (or_introl eq_refl))).
    rewrite IH by (intros x Hx; apply Hall; right; exact Hx).
    destruct ((qd_quota (qdesc_of ds u) =? q) && asg u); [reflexivity|apply pair_add_0_l].
  Qed.

  (* the snapshot satisfies the per-snapshot clauses for the expectations (ex, asg) *)
  Lemma qsnap_bits u : qvalid ds u = true ->
    q_exists st (qd_quota (qdesc_of ds u)) u = ex u /\ q_assigned st (qd_quota (qdesc_of ds u)) u = asg u.
  Proof. intros Hv. split; [apply (q_exists_listed ds st ex asg u HL Hv)|apply (q_assigned_listed ds st ex asg u HL Hv)]. Qed.
End QSnap.

Section QRun.
  Variable c : qcase.
  Hypothesis Hok : qcase_ok c = true.
  Hypothesis Hnt : no_terminated c = true.
  Let ds := q_descs c.
  Let nq := q_nq c.

  Lemma qcase_nq : 0 <= nq.
  Proof. unfold qcase_ok in Hok. rewrite !andb_true_iff, Z.leb_le in Hok. apply Hok. Qed.
  Lemma qcase_first : q_first c = true.
  Proof. unfold qcase_ok in Hok. rewrite !andb_true_iff in Hok. apply Hok. Qed.

  Lemma qsnap_good st life live :
    Inv no_topo st ->
    qlisted ds st (fun u => qvalid ds u && lex life u) (fun u => qvalid ds u && lasg life live u) ->
    qsnap_code nq ds life live (qsnapshot nq ds st) = 0.
  Proof.
    intros HI HL. unfold qsnap_code, qsnapshot. cbn [qs_used qs_pods]. rewrite !map_length, !zrange_length.
    pose proof qcase_nq as Hn.
    replace (Z.of_nat (Z.to_nat nq) =? nq) with true by (symmetry; apply Z.eqb_eq; lia).
    rewrite Nat.eqb_refl. cbn [andb negb].
    change (zrange 1 (length ds)) with (quids ds).
    replace (first_nz _) with 0.
    2:{ symmetry. rewrite combine_map_r. apply first_nz_zero. intros x Hx. apply in_map_iff in Hx.
        destruct Hx as ([u b] & <- & Hin). apply in_map_iff in Hin. destruct Hin as (u' & He & Hu'). injection He as <- <-.
        pose proof (quid_valid ds u' Hu') as Hv.
        destruct (qsnap_bits ds st _ _ HL u' Hv) as [He Ha]. unfold pod_bits_clause. cbn [fst snd].
        rewrite He, Ha, Hv. cbn [andb]. unfold q_exists_exp, q_assigned_exp, lex, lasg.
        destruct (negb ((life u' =? 3) || (life u' =? 9))); cbn [Z.eqb negb];
          destruct ((life u' =? 2) || live && ((life u' =? 1) || (life u' =? 4))); reflexivity. }
    cbn [Z.eqb negb]. rewrite combine_map_r.
    replace (forallb _ _) with true; [reflexivity|]. symmetry. apply forallb_forall. intros x Hx.
    apply in_map_iff in Hx. destruct Hx as (q & <- & Hq). cbn [fst snd].
    rewrite (qused ds st _ _ HI HL q).
    replace (filter (fun u => (qd_quota (qdesc_of ds u) =? q) && (qvalid ds u && lasg life live u)) (quids ds))
      with (filter (fun u => (qd_quota (qdesc_of ds u) =? q) && q_assigned_exp life live u) (quids ds)).
    - unfold eq_pair. rewrite !Z.eqb_refl. reflexivity.
    - apply filter_ext_in. intros u Hu. rewrite (quid_valid ds u Hu). reflexivity.
  Qed.

  (* live: the listing of Proofs_Quota restricted to valid uids is the same listing *)
  Lemma qlisted_valid st e a :
    qlisted ds st e a -> qlisted ds st (fun u => qvalid ds u && e u) (fun u => qvalid ds u && a u).
  Proof.
    intros HL q k. rewrite HL. unfold qexp. destruct (qvalid ds (k / 10)) eqn:Hv; reflexivity.
  Qed.

  (* no step terminates a pod: nobody is ever in status 4 *)
  Lemma no4_step l op :
    (fst op =? 7) = false -> (forall u, ql_life l u <> 4) -> forall u, ql_life (qlive_step ds l op) u <> 4.
  Proof.
    intros Hk H u. destruct op as [k uid]. cbn [fst] in Hk. unfold qlive_step.
    destruct (negb (qvalid ds uid)); [apply H|].
    repeat match goal with
           | |- context [if ?b then _ else _] => destruct b eqn:?; cbn [ql_life]
           end; try apply H; unfold upd1; destruct (u =? uid); try apply H; try lia.
    all: match goal with Hc : (_ =? 7) && _ = true |- _ => apply andb_true_iff in Hc; destruct Hc as [Hc _]; congruence end.
  Qed.

  Lemma qstep_ok l :
    QLive ds l -> (forall u, ql_life l u <> 4) ->
    qstep_code c (ql_life l) (qsnapshot nq ds (ql_st l), qsnapshot nq ds (qreplay_of c (ql_life l))) = 0.
  Proof.
    intros [HI HL] H4. unfold qreplay_of. rewrite qcase_first. fold ds. unfold qstep_code. cbn [fst snd]. fold nq ds.
    rewrite (qsnap_good _ _ true HI (qlisted_valid _ _ _ HL)). cbn [Z.eqb negb].
    destruct (qreplay_good nq ds (qcase_descs c Hok) (ql_life l) (q_script c)) as [HIr HLr].
    rewrite (qsnap_good _ _ false HIr HLr). cbn [Z.eqb negb].
    destruct (forallb (fun u => negb (ql_life l u =? 1)) (quids ds)) eqn:E1; [|reflexivity]. cbn [andb].
    replace (eq_listZ _ _) with true; [reflexivity|]. symmetry.
    replace (qs_used (qsnapshot nq ds (qreplay ds (ql_life l) (q_script c)))) with (qs_used (qsnapshot nq ds (ql_st l)));
      [apply eq_listZ_refl|].
    unfold qsnapshot. cbn [qs_used]. apply map_ext. intros q.
    rewrite (qused ds _ _ _ HI (qlisted_valid _ _ _ HL) q), (qused ds _ _ _ HIr HLr q). f_equal.
    apply filter_ext_in. intros u Hu. f_equal. f_equal. unfold lasg.
    rewrite forallb_forall in E1. specialize (E1 u Hu). apply negb_true_iff in E1. rewrite E1.
    replace (ql_life l u =? 4) with false by (symmetry; apply Z.eqb_neq, H4). reflexivity.
  Qed.

  Lemma qrun_ops_ok l ops :
    QLive ds l -> (forall u, ql_life l u <> 4) -> forallb (fun op => negb (fst op =? 7)) ops = true ->
    first_nz (map (fun lo => qstep_code c (fst lo) (snd lo)) (combine (qlives c l ops) (qrun_ops c l ops))) = 0.
  Proof.
    revert l. induction ops as [|op t IH]; intros l HL H4 Hops; [reflexivity|].
    cbn [forallb] in Hops. apply andb_true_iff in Hops. destruct Hops as [Hop Hops]. apply negb_true_iff in Hop.
    cbn [qlives qrun_ops combine map first_nz fst snd].
    pose proof (qlive_step_QLive nq ds (qcase_descs c Hok) l op HL) as HL'.
    pose proof (no4_step l op Hop H4) as H4'. fold ds nq.
    rewrite (qstep_ok _ HL' H4'). cbn [Z.eqb]. apply IH; assumption.
  Qed.
  Lemma qrun_ops_length l ops : length (qrun_ops c l ops) = length ops.
  Proof. revert l. induction ops as [|op t IH]; intros l; [reflexivity|]. cbn [qrun_ops length]. f_equal. apply IH. Qed.

  Theorem quota_restart : prop_quota c (qrun c) = 0.
  Proof.
    unfold prop_quota, qrun. rewrite qrun_ops_length, Nat.eqb_refl. cbn [negb].
    apply qrun_ops_ok; [apply QLive_init|intros u; cbn; lia|exact Hnt].
  Qed.
End QRun.
