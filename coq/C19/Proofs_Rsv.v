(* C19 — restart theorem for the reservation plugin's ledger (instance of the keyed ledger of
   Proofs_Ledger.v): with the reservations known before the pods are replayed, every history,
   cut and replay script rebuilds AssignedPods / Allocated exactly. *)
From Coq Require Import List ZArith Bool Lia Permutation.
From Verif Require Import Lib.ListX C19.Model C19.ModelRsv C19.Spec C19.SpecRsv
  C19.Proofs_Codec C19.Proofs_Ledger C19.Proofs_Restart C19.Proofs_Snapshot.
Import ListNotations.
Open Scope Z_scope.

Lemma add_pod_find_gen tp st node p n u :
  find_pod (ns_pods (add_pod tp st node p)) n u =
  if (n =? node) && (u =? pa_uid p)
  then match find_pod (ns_pods st) node (pa_uid p) with Some q => Some q | None => Some p end
  else find_pod (ns_pods st) n u.
Proof.
  destruct (find_pod (ns_pods st) node (pa_uid p)) as [q|] eqn:Ef.
  - unfold add_pod. rewrite Ef. destruct ((n =? node) && (u =? pa_uid p)) eqn:E; [|reflexivity].
    apply andb_true_iff in E. destruct E as [E1 E2]. apply Z.eqb_eq in E1, E2. subst. exact Ef.
  - apply add_pod_find, Ef.
Qed.

Lemma res_spec_app a b n : res_spec (a ++ b) n = pair_add (res_spec a n) (res_spec b n).
Proof.
  induction a as [|p t IH]; [cbn [app]; rewrite pair_add_0_l; reflexivity|].
  cbn [app]. rewrite !res_spec_cons, IH, pair_add_assoc. reflexivity.
Qed.

Section Rsv.
  Variables (nr : Z) (ds : list rdesc).
  Hypothesis Hds : forallb (rdesc_ok nr) ds = true.

  Lemma rdesc_valid u : rvalid ds u = true -> rdesc_ok nr (rdesc_of ds u) = true.
  Proof.
    unfold rvalid, rdesc_of. rewrite andb_true_iff, !Z.leb_le. intros [H1 H2].
    rewrite forallb_forall in Hds. apply Hds, nth_In. lia.
  Qed.
  Lemma rdesc_rsv_valid u : rvalid ds u = true -> rsv_valid nr (rd_rsv (rdesc_of ds u)) = true.
  Proof.
    intros Hv. pose proof (rdesc_valid u Hv) as H. unfold rdesc_ok in H. unfold rsv_valid.
    rewrite !andb_true_iff in *. tauto.
  Qed.
  Lemma rdesc_rsv_nz u : rvalid ds u = true -> (rd_rsv (rdesc_of ds u) =? 0) = false.
  Proof.
    intros Hv. pose proof (rdesc_rsv_valid u Hv) as H. unfold rsv_valid in H.
    rewrite andb_true_iff, !Z.leb_le in H. apply Z.eqb_neq. lia.
  Qed.
  Lemma ralloc_ok u : rvalid ds u = true -> palloc_ok (ralloc ds u).
  Proof.
    intros Hv. pose proof (rdesc_valid u Hv) as H. unfold rdesc_ok in H. rewrite !andb_true_iff, !Z.leb_le in H.
    split; cbn [ralloc pa_cpus pa_numa]; [constructor|].
    intros e [<-|[]]. unfold pair_nonneg. cbn. lia.
  Qed.

  Definition rsel (life : Z -> Z) (live : bool) (r u : Z) : bool :=
    (rd_rsv (rdesc_of ds u) =? r) && ((life u =? 2) || (live && (life u =? 1))).
  Definition rlisted (st : nstate) (sel : Z -> Z -> bool) : Prop :=
    forall r u, find_pod (ns_pods st) r u = if sel r u then Some (ralloc ds u) else None.

  Lemma rsel_upd life live uid v r u :
    rsel (upd1 life uid v) live r u =
    if u =? uid then (rd_rsv (rdesc_of ds u) =? r) && ((v =? 2) || (live && (v =? 1))) else rsel life live r u.
  Proof. unfold rsel, upd1. destruct (u =? uid); reflexivity. Qed.

  (* adding / removing the allocation of [uid] in the reservation it belongs to *)
  Lemma listed_add st sel uid :
    rvalid ds uid = true -> rlisted st sel ->
    rlisted (add_pod no_topo st (rd_rsv (rdesc_of ds uid)) (ralloc ds uid))
            (fun r u => if (u =? uid) && (r =? rd_rsv (rdesc_of ds uid)) then true else sel r u).
  Proof.
    intros Hv HL r u. rewrite add_pod_find_gen. cbn [ralloc pa_uid]. rewrite andb_comm.
    destruct ((u =? uid) && (r =? rd_rsv (rdesc_of ds uid))) eqn:E; [|apply HL].
    apply andb_true_iff in E. destruct E as [E1 E2]. apply Z.eqb_eq in E1. subst u.
    rewrite HL. destruct (sel (rd_rsv (rdesc_of ds uid)) uid); reflexivity.
  Qed.
  Lemma listed_del st sel uid :
    rlisted st sel ->
    rlisted (release no_topo st (rd_rsv (rdesc_of ds uid)) uid)
            (fun r u => if (u =? uid) && (r =? rd_rsv (rdesc_of ds uid)) then false else sel r u).
  Proof.
    intros HL r u. rewrite release_find, andb_comm.
    destruct ((u =? uid) && (r =? rd_rsv (rdesc_of ds uid))); [reflexivity|apply HL].
  Qed.
  Lemma rlisted_ext st s1 s2 : (forall r u, s1 r u = s2 r u) -> rlisted st s1 -> rlisted st s2.
  Proof. intros H HL r u. rewrite <- H. apply HL. Qed.

  (* ---------- live ---------- *)
  Record RLive (l : rlive) : Prop := mkRLI {
    rli_inv : Inv no_topo (rc_st (rl_c l));
    rli_known : forall r, rsv_valid nr r = true -> rc_known (rl_c l) r = true;
    rli_lists : rlisted (rc_st (rl_c l)) (rsel (rl_life l) true);
    rli_life : forall u, rvalid ds u = false -> rl_life l u = 0 }.

  Lemma fold_rsv_known l c r :
    (rc_known c r = true \/ In r l) -> rc_known (fold_left rc_rsv l c) r = true.
  Proof.
    revert c. induction l as [|x t IH]; intros c H; cbn [fold_left].
    - destruct H as [H|[]]. exact H.
    - apply IH. unfold rc_rsv at 1. cbn [rc_known]. unfold upd1. destruct (r =? x) eqn:E; [left; reflexivity|].
      destruct H as [H|[->|H]]; [left; exact H| rewrite Z.eqb_refl in E; discriminate | right; exact H].
  Qed.
  Lemma fold_rsv_st l c : rc_st (fold_left rc_rsv l c) = rc_st c.
  Proof. revert c. induction l as [|x t IH]; intros c; [reflexivity|]. cbn [fold_left]. rewrite IH. reflexivity. Qed.

  Lemma rsv_valid_range r : rsv_valid nr r = true -> In r (zrange 1 (Z.to_nat nr)).
  Proof. unfold rsv_valid. rewrite andb_true_iff, !Z.leb_le. intros H. apply range_list_In. lia. Qed.

  Lemma RLive_init : RLive (rlive_init nr).
  Proof.
    unfold rlive_init. constructor; cbn [rl_c rl_life].
    - rewrite fold_rsv_st. apply Inv_init.
    - intros r Hr. apply fold_rsv_known. right. apply rsv_valid_range, Hr.
    - rewrite fold_rsv_st. intros r u. unfold rsel. cbn. rewrite andb_false_r. reflexivity.
    - reflexivity.
  Qed.

  Lemma rh_update_bound c old uid :
    rvalid ds uid = true -> rc_known c (rd_rsv (rdesc_of ds uid)) = true ->
    (old = None \/ old = Some (rpending uid) \/ old = Some (rbound ds uid false) \/ old = Some (rannotated ds uid)) ->
    rh_update ds c old (rbound ds uid false) =
    let r := rd_rsv (rdesc_of ds uid) in
    match old with
    | Some od => if ro_rsv od =? 0 then mkRC (add_pod no_topo (rc_st c) r (ralloc ds uid)) (rc_known c)
                 else mkRC (add_pod no_topo (release no_topo (rc_st c) r uid) r (ralloc ds uid)) (rc_known c)
    | None => mkRC (add_pod no_topo (rc_st c) r (ralloc ds uid)) (rc_known c)
    end.
  Proof.
    intros Hv Hk Hold. unfold rh_update, rbound. cbn [ro_term ro_assigned negb ro_rsv ro_uid].
    rewrite (rdesc_rsv_nz uid Hv), andb_false_r.
    destruct Hold as [->|[->|[->| ->]]]; cbn [rpending rbound rannotated ro_rsv Z.eqb].
    - unfold rc_add. rewrite Hk. reflexivity.
    - unfold rc_add. rewrite Hk. reflexivity.
    - rewrite (rdesc_rsv_nz uid Hv). unfold rc_del, rc_add. rewrite Hk. cbn [rc_known rc_st]. rewrite Hk. reflexivity.
    - rewrite (rdesc_rsv_nz uid Hv). unfold rc_del, rc_add. rewrite Hk. cbn [rc_known rc_st]. rewrite Hk. reflexivity.
  Qed.

  Lemma rlive_step_RLive l op : RLive l -> RLive (rlive_step nr ds l op).
  Proof.
    intros [HI HK HL Hlife]. destruct op as [k uid]. unfold rlive_step.
    destruct (k =? 8).
    { destruct (rsv_valid nr uid); [|constructor; assumption].
      constructor; cbn [rl_c rl_life rc_rsv rc_st rc_known]; try assumption.
      intros r Hr. unfold upd1. destruct (r =? uid); [reflexivity|apply HK, Hr]. }
    destruct (rvalid ds uid) eqn:Hv; cbn [negb]; [|constructor; assumption].
    set (d := rdesc_of ds uid). set (s := rl_life l uid).
    assert (Hkr : rc_known (rl_c l) (rd_rsv d) = true) by (apply HK, rdesc_rsv_valid, Hv).
    assert (Hnz : (rd_rsv d =? 0) = false) by (apply rdesc_rsv_nz, Hv).
    assert (Hlife' : forall v u, rvalid ds u = false -> upd1 (rl_life l) uid v u = 0).
    { intros v u Hu. unfold upd1. destruct (u =? uid) eqn:E; [|apply Hlife, Hu].
      apply Z.eqb_eq in E. subst u. congruence. }
    (* the two shapes of the new selection *)
    assert (Hset : forall v, ((v =? 2) || (v =? 1)) = true -> forall r u,
              (if (u =? uid) && (r =? rd_rsv d) then true else rsel (rl_life l) true r u) =
              rsel (upd1 (rl_life l) uid v) true r u).
    { intros v Hvv r u. rewrite rsel_upd. cbn [andb]. rewrite Hvv, andb_true_r.
      destruct (u =? uid) eqn:E; [|reflexivity]. apply Z.eqb_eq in E. subst u. fold d. cbn [andb].
      rewrite (Z.eqb_sym r). destruct (rd_rsv d =? r) eqn:Er; [reflexivity|].
      unfold rsel. fold d. rewrite Er. reflexivity. }
    assert (Hclr : forall v, ((v =? 2) || (v =? 1)) = false -> forall r u,
              (if (u =? uid) && (r =? rd_rsv d) then false else rsel (rl_life l) true r u) =
              rsel (upd1 (rl_life l) uid v) true r u).
    { intros v Hvv r u. rewrite rsel_upd. cbn [andb]. rewrite Hvv, andb_false_r.
      destruct (u =? uid) eqn:E; [|reflexivity]. apply Z.eqb_eq in E. subst u. cbn [andb].
      rewrite (Z.eqb_sym r). destruct (rd_rsv d =? r) eqn:Er; [reflexivity|].
      unfold rsel. fold d. rewrite Er. reflexivity. }
    destruct ((k =? 1) && (s =? 0)) eqn:C1.
    { unfold rc_add. rewrite Hkr. constructor; cbn [rl_c rl_life rc_st rc_known]; [|exact HK| |apply Hlife'].
      - apply add_pod_Inv; [exact HI|apply ralloc_ok, Hv].
      - eapply rlisted_ext; [apply (Hset 1 eq_refl)|]. apply listed_add; assumption. }
    destruct ((k =? 2) && (s =? 1)) eqn:C2.
    { unfold rc_del. rewrite Hkr. constructor; cbn [rl_c rl_life rc_st rc_known]; [|exact HK| |apply Hlife'].
      - apply release_Inv, HI.
      - eapply rlisted_ext; [apply (Hclr 0 eq_refl)|]. apply listed_del; assumption. }
    destruct ((k =? 3) && (s =? 1)) eqn:C3.
    { rewrite (rh_update_bound _ _ _ Hv Hkr (or_intror (or_introl eq_refl))). cbn [rpending ro_rsv Z.eqb].
      constructor; cbn [rl_c rl_life rc_st rc_known]; [|exact HK| |apply Hlife'].
      - apply add_pod_Inv; [exact HI|apply ralloc_ok, Hv].
      - eapply rlisted_ext; [apply (Hset 2 eq_refl)|]. apply listed_add; assumption. }
    destruct ((k =? 4) && ((s =? 2) || (s =? 4))) eqn:C4.
    { unfold rh_delete, rbound. cbn [ro_rsv ro_uid]. fold d. rewrite Hnz.
      unfold rc_del. rewrite Hkr. constructor; cbn [rl_c rl_life rc_st rc_known]; [|exact HK| |apply Hlife'].
      - apply release_Inv, HI.
      - eapply rlisted_ext; [apply (Hclr 3 eq_refl)|]. apply listed_del; assumption. }
    destruct ((k =? 5) && (s =? 2)) eqn:C5.
    { apply andb_true_iff in C5. destruct C5 as [_ Hs]. apply Z.eqb_eq in Hs.
      rewrite (rh_update_bound _ _ _ Hv Hkr (or_intror (or_intror (or_introl eq_refl)))). cbn [rbound ro_rsv]. fold d.
      rewrite Hnz.
      constructor; cbn [rl_c rl_life rc_st rc_known]; [|exact HK| |exact Hlife].
      - apply add_pod_Inv; [apply release_Inv, HI|apply ralloc_ok, Hv].
      - eapply rlisted_ext; [|apply listed_add; [exact Hv|apply listed_del, HL]].
        intros r u. cbn beta. destruct ((u =? uid) && (r =? rd_rsv (rdesc_of ds uid))) eqn:E; [|reflexivity].
        apply andb_true_iff in E. destruct E as [E1 E2]. apply Z.eqb_eq in E1, E2. subst u r.
        unfold rsel. fold s. rewrite Hs, Z.eqb_refl. reflexivity. }
    destruct ((k =? 7) && (s =? 2)) eqn:C7.
    { unfold rh_update, rbound. cbn [ro_term]. unfold rh_delete. cbn [ro_rsv ro_uid]. fold d.
      rewrite Hnz. unfold rc_del. rewrite Hkr.
      constructor; cbn [rl_c rl_life rc_st rc_known]; [|exact HK| |apply Hlife'].
      - apply release_Inv, HI.
      - eapply rlisted_ext; [apply (Hclr 4 eq_refl)|]. apply listed_del; assumption. }
    constructor; assumption.
  Qed.

  (* ---------- fresh ---------- *)
  Variable life : Z -> Z.
  Hypothesis Hlife : forall u, rvalid ds u = false -> life u = 0.

  Definition rpartial (dl : Z -> bool) (r u : Z) : bool := dl u && rsel life false r u.

  Record RFresh (f : rfresh) : Prop := mkRFI {
    rfi_inv : Inv no_topo (rc_st (rf_c f));
    rfi_known : forall r, rsv_valid nr r = true -> rc_known (rf_c f) r = true;
    rfi_lists : exists dl, rlisted (rc_st (rf_c f)) (rpartial dl) /\ (forall u, rf_seen f u = true -> dl u = true) }.

  Lemma rdeliver c old u o dl :
    rvalid ds u = true -> robj_of ds life u = Some o ->
    (old = None \/ old = Some (rpending u) \/ old = Some o \/ old = Some (rannotated ds u)) ->
    Inv no_topo (rc_st c) -> (forall r, rsv_valid nr r = true -> rc_known c r = true) ->
    rlisted (rc_st c) (rpartial dl) ->
    let c' := rh_update ds c old o in
    Inv no_topo (rc_st c') /\ rc_known c' = rc_known c /\ rlisted (rc_st c') (rpartial (upd1 dl u true)).
  Proof.
    intros Hv Ho Hold HI HK HL. unfold robj_of in Ho.
    assert (Hkr : rc_known c (rd_rsv (rdesc_of ds u)) = true) by (apply HK, rdesc_rsv_valid, Hv).
    assert (Hpart : forall b, (rsel life false (rd_rsv (rdesc_of ds u)) u = b) -> forall r v,
               (if (v =? u) && (r =? rd_rsv (rdesc_of ds u)) then b else rpartial dl r v) = rpartial (upd1 dl u true) r v).
    { intros b Hb r v. unfold rpartial, upd1. destruct (v =? u) eqn:E; [|reflexivity].
      apply Z.eqb_eq in E. subst v. cbn [andb]. destruct (r =? rd_rsv (rdesc_of ds u)) eqn:Er.
      - apply Z.eqb_eq in Er. subst r. symmetry. exact Hb.
      - unfold rsel. rewrite (Z.eqb_sym (rd_rsv _) r), Er. cbn [andb]. rewrite andb_false_r. reflexivity. }
    destruct (life u =? 3) eqn:E3; [discriminate|].
    destruct ((life u =? 2) || (life u =? 4)) eqn:E24.
    - injection Ho as <-. destruct (life u =? 4) eqn:E4.
      + (* terminated *)
        cbn zeta. unfold rh_update, rbound. cbn [ro_term]. unfold rh_delete. cbn [ro_rsv ro_uid].
        rewrite (rdesc_rsv_nz u Hv). unfold rc_del. rewrite Hkr. cbn [rc_st rc_known].
        split; [apply release_Inv, HI|]. split; [reflexivity|].
        eapply rlisted_ext; [|apply listed_del, HL]. apply Hpart.
        unfold rsel. apply Z.eqb_eq in E4. rewrite E4. cbn. apply andb_false_r.
      + assert (E2 : (life u =? 2) = true) by (rewrite orb_false_r in E24; exact E24).
        assert (Hold' : old = None \/ old = Some (rpending u) \/ old = Some (rbound ds u false) \/ old = Some (rannotated ds u)) by exact Hold.
        cbn zeta. rewrite (rh_update_bound c old u Hv Hkr Hold').
        assert (Hsel : rsel life false (rd_rsv (rdesc_of ds u)) u = true).
        { unfold rsel. rewrite Z.eqb_refl, E2. reflexivity. }
        destruct Hold' as [->|[->|[->| ->]]]; cbn [rpending rbound rannotated ro_rsv Z.eqb]; try rewrite (rdesc_rsv_nz u Hv); cbn [rc_st rc_known].
        * split; [apply add_pod_Inv; [exact HI|apply ralloc_ok, Hv]|]. split; [reflexivity|].
          eapply rlisted_ext; [apply (Hpart true Hsel)|]. apply listed_add; assumption.
        * split; [apply add_pod_Inv; [exact HI|apply ralloc_ok, Hv]|]. split; [reflexivity|].
          eapply rlisted_ext; [apply (Hpart true Hsel)|]. apply listed_add; assumption.
        * split; [apply add_pod_Inv; [apply release_Inv, HI|apply ralloc_ok, Hv]|]. split; [reflexivity|].
          eapply rlisted_ext; [|apply listed_add; [exact Hv|apply listed_del, HL]].
          intros r v. cbn beta. rewrite <- (Hpart true Hsel r v).
          destruct ((v =? u) && (r =? rd_rsv (rdesc_of ds u))); reflexivity.
        * split; [apply add_pod_Inv; [apply release_Inv, HI|apply ralloc_ok, Hv]|]. split; [reflexivity|].
          eapply rlisted_ext; [|apply listed_add; [exact Hv|apply listed_del, HL]].
          intros r v. cbn beta. rewrite <- (Hpart true Hsel r v).
          destruct ((v =? u) && (r =? rd_rsv (rdesc_of ds u))); reflexivity.
    - (* pending: ignored *)
      injection Ho as <-. cbn zeta.
      assert (Hc : rh_update ds c old (rpending u) = c).
      { unfold rh_update, rpending. cbn [ro_term ro_assigned negb].
        destruct Hold as [->|[->|[->| ->]]]; reflexivity. }
      rewrite Hc. split; [exact HI|]. split; [reflexivity|].
      eapply rlisted_ext; [|exact HL]. intros r v. unfold rpartial, upd1.
      destruct (v =? u) eqn:E; [|reflexivity]. apply Z.eqb_eq in E. subst v.
      apply orb_false_iff in E24. destruct E24 as [E2 _]. unfold rsel. rewrite E2. cbn.
      rewrite !andb_false_r. reflexivity.
  Qed.

  Lemma rreplay_step_RFresh f ev : RFresh f -> RFresh (rreplay_step nr ds life f ev).
  Proof.
    intros [HI HK (dl & HL & Hs)]. destruct ev as [k id]. unfold rreplay_step.
    destruct (k =? 6).
    { destruct (rsv_valid nr id); [|constructor; [assumption|assumption|exists dl; auto]].
      constructor; cbn [rf_c rf_seen rc_rsv rc_st rc_known]; [exact HI| |exists dl; auto].
      intros r Hr. unfold upd1. destruct (r =? id); [reflexivity|apply HK, Hr]. }
    destruct (rvalid ds id) eqn:Hv; cbn [negb]; [|constructor; [assumption|assumption|exists dl; auto]].
    destruct (robj_of ds life id) as [o|] eqn:Ho; [|constructor; [assumption|assumption|exists dl; auto]].
    destruct (k =? 1).
    { destruct (rdeliver (rf_c f) None id o dl Hv Ho (or_introl eq_refl) HI HK HL) as (HI' & HK' & HL').
      constructor; cbn [rf_c rf_seen]; [exact HI'|rewrite HK'; exact HK|].
      exists (upd1 dl id true). split; [exact HL'|]. intros u. unfold upd1. destruct (u =? id); [reflexivity|apply Hs]. }
    destruct (k =? 2).
    { destruct (rdeliver (rf_c f) (Some o) id o dl Hv Ho (or_intror (or_intror (or_introl eq_refl))) HI HK HL) as (HI' & HK' & HL').
      constructor; cbn [rf_c rf_seen]; [exact HI'|rewrite HK'; exact HK|].
      exists (upd1 dl id true). split; [exact HL'|]. intros u Hu. unfold upd1. destruct (u =? id); [reflexivity|apply Hs, Hu]. }
    destruct (k =? 3).
    { destruct (rdeliver (rf_c f) (Some (rpending id)) id o dl Hv Ho (or_intror (or_introl eq_refl)) HI HK HL) as (HI' & HK' & HL').
      constructor; cbn [rf_c rf_seen]; [exact HI'|rewrite HK'; exact HK|].
      exists (upd1 dl id true). split; [exact HL'|]. intros u Hu. unfold upd1. destruct (u =? id); [reflexivity|apply Hs, Hu]. }
    destruct (k =? 8).
    { destruct (ro_assigned o) eqn:Ea.
      - assert (Hc : rh_update ds (rf_c f) None (rannotated ds id) = rf_c f) by reflexivity. rewrite Hc.
        destruct (rdeliver (rf_c f) (Some (rannotated ds id)) id o dl Hv Ho (or_intror (or_intror (or_intror eq_refl))) HI HK HL) as (HI' & HK' & HL').
        constructor; cbn [rf_c rf_seen]; [exact HI'|rewrite HK'; exact HK|].
        exists (upd1 dl id true). split; [exact HL'|]. intros u. unfold upd1. destruct (u =? id); [reflexivity|apply Hs].
      - destruct (rdeliver (rf_c f) None id o dl Hv Ho (or_introl eq_refl) HI HK HL) as (HI' & HK' & HL').
        constructor; cbn [rf_c rf_seen]; [exact HI'|rewrite HK'; exact HK|].
        exists (upd1 dl id true). split; [exact HL'|]. intros u. unfold upd1. destruct (u =? id); [reflexivity|apply Hs]. }
    constructor; [assumption|assumption|exists dl; auto].
  Qed.
  Lemma rfold_RFresh evs f : RFresh f -> RFresh (fold_left (rreplay_step nr ds life) evs f).
  Proof. revert f. induction evs as [|e t IH]; intros f H; [exact H|]. cbn [fold_left]. apply IH, rreplay_step_RFresh, H. Qed.

  Lemma rreplay_step_seen f ev u : rf_seen f u = true -> rf_seen (rreplay_step nr ds life f ev) u = true.
  Proof.
    intros H. destruct ev as [k id]. unfold rreplay_step.
    destruct (k =? 6); [destruct (rsv_valid nr id); exact H|]. destruct (negb (rvalid ds id)); [exact H|].
    destruct (robj_of ds life id); [|exact H].
    destruct (k =? 1); [cbn [rf_seen]; unfold upd1; destruct (u =? id); [reflexivity|exact H]|].
    destruct (k =? 2); [exact H|]. destruct (k =? 3); [exact H|].
    destruct (k =? 8); [|exact H].
    destruct (ro_assigned _); cbn [rf_seen]; unfold upd1; destruct (u =? id); try reflexivity; exact H.
  Qed.
  Lemma rfold_seen evs f u : rf_seen f u = true -> rf_seen (fold_left (rreplay_step nr ds life) evs f) u = true.
  Proof. revert f. induction evs as [|e t IH]; intros f H; [exact H|]. cbn [fold_left]. apply IH, rreplay_step_seen, H. Qed.

  Lemma rcompletion_seen f u :
    rvalid ds u = true -> robj_of ds life u <> None ->
    rf_seen (fold_left (rreplay_step nr ds life) (rcompletion nr ds f) f) u = true.
  Proof.
    intros Hv Ho. destruct (rf_seen f u) eqn:Es; [apply rfold_seen, Es|].
    unfold rcompletion. rewrite fold_left_app.
    set (f1 := fold_left (rreplay_step nr ds life) (map (fun r => (6, r)) (zrange 1 (Z.to_nat nr))) f).
    assert (Hin : In u (filter (fun u0 => negb (rf_seen f u0)) (zrange 1 (length ds)))).
    { apply filter_In. split; [|rewrite Es; reflexivity]. apply range_list_In.
      unfold rvalid in Hv. apply andb_true_iff in Hv. rewrite !Z.leb_le in Hv. lia. }
    apply in_split in Hin. destruct Hin as (l1 & l2 & ->).
    rewrite map_app, fold_left_app. cbn [map fold_left]. apply rfold_seen.
    generalize (fold_left (rreplay_step nr ds life) (map (fun u0 : Z => (1, u0)) l1) f1). intros g.
    unfold rreplay_step. replace (1 =? 6) with false by reflexivity. replace (1 =? 1) with true by reflexivity.
    rewrite Hv. cbn [negb].
    destruct (robj_of ds life u); [|congruence]. cbn [rf_seen]. unfold upd1. rewrite Z.eqb_refl. reflexivity.
  Qed.

  Theorem rreplay_lists script :
    let c := rreplay nr ds life true script in
    Inv no_topo (rc_st c) /\ (forall r, rsv_valid nr r = true -> rc_known c r = true)
    /\ rlisted (rc_st c) (rsel life false).
  Proof.
    intros c. unfold c, rreplay.
    set (c0 := fold_left rc_rsv (zrange 1 (Z.to_nat nr)) rc_init).
    set (f0 := mkRF c0 (fun _ => false)).
    set (f1 := fold_left (rreplay_step nr ds life) script f0).
    set (f2 := fold_left (rreplay_step nr ds life) (rcompletion nr ds f1) f1).
    assert (H0 : RFresh f0).
    { unfold f0, c0. constructor; cbn [rf_c rf_seen].
      - rewrite fold_rsv_st. apply Inv_init.
      - intros r Hr. apply fold_rsv_known. right. apply rsv_valid_range, Hr.
      - exists (fun _ => false). split; [|discriminate]. rewrite fold_rsv_st. intros r u. reflexivity. }
    pose proof (rfold_RFresh script f0 H0) as H1. fold f1 in H1.
    pose proof (rfold_RFresh (rcompletion nr ds f1) f1 H1) as H2. fold f2 in H2.
    destruct H2 as [HI HK (dl & HL & Hs)]. split; [exact HI|]. split; [exact HK|].
    eapply rlisted_ext; [|exact HL]. intros r u. unfold rpartial.
    destruct (dl u) eqn:Ed; [reflexivity|]. cbn [andb].
    destruct (rvalid ds u) eqn:Hv.
    - unfold rsel. destruct (life u =? 2) eqn:E2; [|cbn; rewrite andb_false_r; reflexivity].
      exfalso. assert (rf_seen f2 u = true).
      { apply rcompletion_seen; [exact Hv|]. unfold robj_of. apply Z.eqb_eq in E2. rewrite E2. discriminate. }
      rewrite (Hs u H) in Ed. discriminate.
    - unfold rsel. rewrite (Hlife u Hv). cbn. rewrite andb_false_r. reflexivity.
  Qed.
End Rsv.

(* ---------- from caches to the decision procedure ---------- *)
Section RsvSnap.
  Variables (nr : Z) (ds : list rdesc).
  Hypothesis Hds : forallb (rdesc_ok nr) ds = true.
  Hypothesis Hnr : 0 <= nr.

  Lemma uids_range : zrange 1 (Z.to_nat (Z.of_nat (length ds))) = uids ds.
  Proof. unfold uids. rewrite Nat2Z.id. reflexivity. Qed.

  Lemma rsum_filter (sel : Z -> bool) l :
    rsum ds (filter sel l) =
    res_spec (flat_map (fun u => if sel u then [ralloc ds u] else []) l) 0.
  Proof.
    induction l as [|u t IH]; [reflexivity|]. cbn [filter flat_map].
    destruct (sel u); [|exact IH]. cbn [app]. rewrite res_spec_cons, <- IH. cbn [rsum fold_right].
    f_equal. cbn [ralloc pa_numa numa_amt fold_right fst snd]. cbn. rewrite pair_add_0_r. reflexivity.
  Qed.

  Lemma rsnap_good c life live :
    Inv no_topo (rc_st c) -> (forall r, rsv_valid nr r = true -> rc_known c r = true) ->
    rlisted ds (rc_st c) (rsel ds life live) ->
    (forall u, rvalid ds u = false -> life u = 0) ->
    rsnap_code nr ds life live (rsnap nr (Z.of_nat (length ds)) c) = 0.
  Proof.
    intros HI HK HL Hlife. unfold rsnap_code, rsnap. rewrite map_length, zrange_length.
    replace (Z.of_nat (Z.to_nat nr) =? nr) with true by (symmetry; apply Z.eqb_eq; lia). cbn [negb].
    rewrite combine_map_r. apply first_nz_zero. intros x Hx.
    apply in_map_iff in Hx. destruct Hx as ([r e] & <- & Hin). cbn [fst snd].
    apply in_map_iff in Hin. destruct Hin as (r' & He & Hr'). injection He as <- <-.
    assert (Hrv : rsv_valid nr r' = true).
    { apply range_list_In in Hr'. unfold rsv_valid. rewrite andb_true_iff, !Z.leb_le. lia. }
    unfold rsv_clause. cbn [fst snd]. rewrite (HK r' Hrv). cbn [Z.eqb].
    rewrite map_length, zrange_length, Nat2Z.id, Nat.eqb_refl. cbn [Pos.eqb andb negb].
    change (zrange 1 (length ds)) with (uids ds).
    assert (Hexp : forall u, In u (uids ds) -> memZ u (rexp_uids ds life live r') = rsel ds life live r' u).
    { intros u Hu. unfold rexp_uids. apply eq_true_iff_eq. rewrite memZ_In, filter_In. unfold rsel. tauto. }
    assert (Hbits : first_nz (map (bit_clause (rexp_uids ds life live r'))
                (combine (uids ds) (map (fun u => match find_pod (ns_pods (rc_st c)) r' u with Some _ => 1 | None => 0 end) (uids ds)))) = 0).
    { rewrite combine_map_r. apply first_nz_zero. intros x Hx. apply in_map_iff in Hx.
      destruct Hx as ([u b] & <- & Hin). apply in_map_iff in Hin. destruct Hin as (u' & He & Hu'). injection He as <- <-.
      unfold bit_clause. cbn [fst snd]. rewrite (Hexp u' Hu'). pose proof (HL r' u') as HLu.
      destruct (rsel ds life live r' u'); rewrite !HLu; reflexivity. }
    rewrite Hbits. cbn [Z.eqb negb].
    (* Allocated *)
    assert (Halloc : ns_res (rc_st c) r' 0 = rsum ds (rexp_uids ds life live r')).
    { destruct (inv_ledger _ _ HI r') as (_ & L2 & _). rewrite L2.
      set (ps := node_pods (rc_st c) r').
      assert (Hnd : NoDup (map pa_uid ps)) by apply (inv_keys _ _ HI).
      assert (Hfind : forall u, find (uid_is u) ps = if rsel ds life live r' u then Some (ralloc ds u) else None).
      { intros u. unfold ps, node_pods. rewrite <- find_pod_node_pods. apply HL. }
      assert (Hb : forall p, In p ps -> 1 <= pa_uid p < 1 + Z.of_nat (length ds)).
      { intros p Hp. assert (Hf : find (uid_is (pa_uid p)) ps <> None).
        { intros Hn. apply find_uid_None in Hn. apply Hn, in_map, Hp. }
        rewrite Hfind in Hf. destruct (rsel ds life live r' (pa_uid p)) eqn:Es; [|congruence].
        destruct (rvalid ds (pa_uid p)) eqn:Hv.
        - unfold rvalid in Hv. rewrite andb_true_iff, !Z.leb_le in Hv. lia.
        - unfold rsel in Es. rewrite (Hlife _ Hv) in Es. cbn [Z.eqb orb] in Es. rewrite !andb_false_r in Es. discriminate. }
      rewrite (res_spec_perm _ _ 0 (perm_by_uid _ 1 ps Hnd Hb)).
      unfold rexp_uids. rewrite rsum_filter. unfold uids, zrange. f_equal.
      apply flat_map_ext_in'. intros u Hu. unfold pick. rewrite Hfind. unfold rsel.
      destruct ((rd_rsv (rdesc_of ds u) =? r') && ((life u =? 2) || live && (life u =? 1))); reflexivity. }
    rewrite Halloc. unfold eq_pair. rewrite !Z.eqb_refl. reflexivity.
  Qed.
End RsvSnap.

Section RsvMain.
  Variable c : rcase.
  Hypothesis Hok : rcase_ok c = true.
  Let nr := r_nr c.
  Let ds := r_descs c.

  Lemma rcase_descs : forallb (rdesc_ok nr) ds = true.
  Proof. unfold rcase_ok in Hok. rewrite !andb_true_iff in Hok. apply Hok. Qed.
  Lemma rcase_first : r_first c = true.
  Proof. unfold rcase_ok in Hok. rewrite !andb_true_iff in Hok. apply Hok. Qed.
  Lemma rcase_nr : 0 <= nr.
  Proof. unfold rcase_ok in Hok. rewrite !andb_true_iff, Z.leb_le in Hok. apply Hok. Qed.

  Lemma rstep_ok l :
    RLive nr ds l ->
    rstep_code c (rl_life l)
      (rsnap nr (Z.of_nat (length ds)) (rl_c l),
       rsnap nr (Z.of_nat (length ds)) (rreplay nr ds (rl_life l) (r_first c) (r_script c))) = 0.
  Proof.
    intros [HI HK HL Hlife]. unfold rstep_code. cbn [fst snd]. fold nr ds.
    rewrite (rsnap_good nr ds rcase_nr _ _ true HI HK HL Hlife). cbn [Z.eqb negb].
    rewrite rcase_first.
    destruct (rreplay_lists nr ds rcase_descs (rl_life l) Hlife (r_script c)) as (HIr & HKr & HLr).
    apply (rsnap_good nr ds rcase_nr _ _ false HIr HKr HLr Hlife).
  Qed.

  Lemma rrun_ops_ok l ops :
    RLive nr ds l ->
    first_nz (map (fun lo => rstep_code c (fst lo) (snd lo)) (combine (rlives c l ops) (rrun_ops c l ops))) = 0.
  Proof.
    revert l. induction ops as [|op t IH]; intros l HL; [reflexivity|].
    cbn [rlives rrun_ops combine map first_nz fst snd].
    pose proof (rlive_step_RLive nr ds rcase_descs l op HL) as HL'. fold nr ds.
    rewrite (rstep_ok _ HL'). cbn [Z.eqb]. apply IH, HL'.
  Qed.
  Lemma rrun_ops_length l ops : length (rrun_ops c l ops) = length ops.
  Proof. revert l. induction ops as [|op t IH]; intros l; [reflexivity|]. cbn [rrun_ops length]. f_equal. apply IH. Qed.

  Theorem rsv_restart : prop_rsv c (rrun c) = 0.
  Proof.
    unfold prop_rsv, rrun. rewrite rrun_ops_length, Nat.eqb_refl. cbn [negb].
    apply rrun_ops_ok, RLive_init.
  Qed.
End RsvMain.
