(* C19 — deviceshare: from the caches to the decision procedure the checker runs: on the model's
   own run prop_dev answers 0 for every well-formed case. *)
From Coq Require Import List ZArith Bool Lia Permutation.
From Verif Require Import Lib.ListX C19.Model C19.ModelRsv C19.ModelDev C19.Spec C19.SpecDev
  C19.Proofs_Codec C19.Proofs_Ledger C19.Proofs_Restart C19.Proofs_Snapshot C19.Proofs_Rsv C19.Proofs_Dev.
Import ListNotations.
Open Scope Z_scope.

Lemma flat_map_pairs_length {A B} (g : A -> Z -> B) l :
  length (flat_map (fun u => map (g u) types12) l) = (2 * length l)%nat.
Proof. induction l as [|x t IH]; [reflexivity|]. cbn [flat_map]. rewrite app_length, IH. cbn. lia. Qed.

Lemma combine_app' {A B} (l1 l2 : list A) (r1 r2 : list B) :
  length l1 = length r1 -> combine (l1 ++ l2) (r1 ++ r2) = combine l1 r1 ++ combine l2 r2.
Proof.
  revert r1. induction l1 as [|x t IH]; intros [|y r] H; try discriminate; [reflexivity|].
  cbn. f_equal. apply IH. injection H as H. exact H.
Qed.
Lemma combine_map_map' {A B C} (f : A -> B) (g : A -> C) l :
  combine (map f l) (map g l) = map (fun x => (f x, g x)) l.
Proof. induction l as [|x t IH]; [reflexivity|]. cbn. f_equal. exact IH. Qed.

Lemma combine_pairs {A B} (h : A -> Z -> B) l :
  combine (flat_map (fun u => map (fun t => (u, t)) types12) l) (flat_map (fun u => map (h u) types12) l) =
  flat_map (fun u => map (fun t => ((u, t), h u t)) types12) l.
Proof.
  induction l as [|x t IH]; [reflexivity|]. cbn [flat_map].
  rewrite combine_app' by (rewrite !map_length; reflexivity). rewrite IH, combine_map_map'. reflexivity.
Qed.

Lemma flat_map_types_length {A B} (g : Z -> A -> B) (l : list A) :
  length (flat_map (fun t => map (g t) l) types12) = (2 * length l)%nat.
Proof. cbn [flat_map types12]. rewrite !app_length, !map_length. cbn. lia. Qed.

Lemma range_blocks n : range_list 10 (10 * n) = flat_map (fun u => range_list (10 * u) 10) (range_list 1 n).
Proof.
  assert (H : forall lo, range_list (10 * lo) (10 * n) = flat_map (fun u => range_list (10 * u) 10) (range_list lo n)).
  { induction n as [|n IH]; intros lo; [reflexivity|].
    replace (10 * S n)%nat with (10 + 10 * n)%nat by lia.
    cbn [range_list flat_map]. rewrite <- IH. replace (10 * (lo + 1)) with (10 * lo + 10) by lia.
    change (10 + 10 * n)%nat with (S (S (S (S (S (S (S (S (S (S (10 * n))))))))))).
    cbn [range_list app]. repeat (f_equal; try lia). }
  exact (H 1).
Qed.

Lemma flat_map_length_eq {A B C} (f : A -> list B) (g : A -> list C) l :
  (forall x, In x l -> length (f x) = length (g x)) -> length (flat_map f l) = length (flat_map g l).
Proof.
  induction l as [|x t IH]; intros H; [reflexivity|]. cbn [flat_map]. rewrite !app_length, (H x (or_introl eq_refl)), IH; [reflexivity|].
  intros y Hy. apply H. right. exact Hy.
Qed.
Lemma combine_flat_map {A B C} (f : A -> list B) (g : A -> list C) l :
  (forall x, In x l -> length (f x) = length (g x)) ->
  combine (flat_map f l) (flat_map g l) = flat_map (fun x => combine (f x) (g x)) l.
Proof.
  induction l as [|x t IH]; intros H; [reflexivity|]. cbn [flat_map].
  rewrite combine_app' by (apply H; left; reflexivity). rewrite IH; [reflexivity|]. intros y Hy. apply H. right. exact Hy.
Qed.
Lemma ref_spec_app a b c : ref_spec (a ++ b) c = ref_spec a c + ref_spec b c.
Proof. unfold ref_spec. rewrite filter_app, app_length. lia. Qed.
Lemma existsb_ext' {A} (f g : A -> bool) l : (forall x, f x = g x) -> existsb f l = existsb g l.
Proof. intros H. induction l as [|x t IH]; [reflexivity|]. cbn. rewrite H, IH. reflexivity. Qed.
Lemma sum01_pos {A} (f : A -> Z) l :
  (forall x, f x = 0 \/ f x = 1) ->
  (0 <? fold_right (fun x acc => f x + acc) 0 l) = existsb (fun x => f x =? 1) l.
Proof.
  intros H. assert (Hnn : forall l', 0 <= fold_right (fun x acc => f x + acc) 0 l').
  { induction l' as [|y r IHr]; cbn; [lia|]. destruct (H y); lia. }
  induction l as [|x t IH]; [reflexivity|]. cbn [fold_right existsb]. rewrite <- IH.
  pose proof (Hnn t). destruct (H x) as [E|E]; rewrite E; cbn [Z.eqb orb].
  - reflexivity.
  - destruct (0 <? fold_right (fun x0 acc => f x0 + acc) 0 t); apply Z.ltb_lt; lia.
Qed.

Section DevSnap.
  Variable c : dcase.
  Hypothesis Hok : dcase_ok c = true.
  Let ds := d_descs c.
  Let np := length ds.

  Lemma dcase_minors : 0 <= d_minors c.
  Proof. unfold dcase_ok in Hok. rewrite !andb_true_iff, !Z.leb_le in Hok. apply Hok. Qed.
  Lemma dcase_nvf : 0 <= d_nvf c <= 100.
  Proof. unfold dcase_ok in Hok. rewrite !andb_true_iff, !Z.leb_le in Hok. lia. Qed.
  Lemma dcase_nodes : 0 <= d_nodes c.
  Proof. unfold dcase_ok in Hok. rewrite !andb_true_iff, !Z.leb_le in Hok. apply Hok. Qed.

  Lemma group_type12 u g : dvalid ds u = true -> In g (dd_groups (ddesc_of ds u)) -> fst g = 1 \/ fst g = 2.
  Proof.
    intros Hv Hg. pose proof (ddesc_groups_ok ds (dcase_descs c Hok) u Hv) as H. rewrite forallb_forall in H.
    specialize (H g Hg). unfold group_ok in H. rewrite andb_true_iff, orb_true_iff, !Z.eqb_eq in H. tauto.
  Qed.
  Lemma group_minors u g e : dvalid ds u = true -> In g (dd_groups (ddesc_of ds u)) -> In e (snd g) -> 0 <= fst e < 1000.
  Proof.
    intros Hv Hg He. pose proof (ddesc_groups_ok ds (dcase_descs c Hok) u Hv) as H. rewrite forallb_forall in H.
    specialize (H g Hg). unfold group_ok in H. rewrite andb_true_iff in H. destruct H as [_ H].
    rewrite forallb_forall in H. specialize (H e He). rewrite !andb_true_iff, Z.leb_le, Z.ltb_lt in H. lia.
  Qed.

  Lemma dkey_div u t : 0 <= t < 10 -> dkey u t / 10 = u.
  Proof. intros H. unfold dkey. symmetry. apply Z.div_unique with t; lia. Qed.
  Lemma dkey_mod u t : 0 <= t < 10 -> dkey u t mod 10 = t.
  Proof. intros H. unfold dkey. symmetry. apply Z.mod_unique with u; lia. Qed.

  (* stripping the slots of a stored group gives the group back *)
  Lemma strip_dalloc u g : map (fun e => (fst e - fst g * 1000, snd e)) (pa_numa (dalloc ds u g)) = snd g.
  Proof.
    cbn [dalloc pa_numa]. rewrite map_map. rewrite <- (map_id (snd g)) at 2. apply map_ext.
    intros [m ab]. cbn [fst snd]. unfold dslot. f_equal. lia.
  Qed.

  Variables (st : nstate) (life : Z -> Z) (live : bool) (node : Z).
  Hypothesis HI : Inv no_topo st.
  Hypothesis HL : dlisted ds st (dsel ds life live).

  Definition entry (u t : Z) : option (list (Z * (Z * Z))) :=
    option_map (fun p => map (fun e => (fst e - t * 1000, snd e)) (pa_numa p)) (find_pod (ns_pods st) node (dkey u t)).

  Lemma entry_spec u t : dvalid ds u = true -> (t = 1 \/ t = 2) -> entry u t = dexpect ds life live node u t.
  Proof.
    intros Hv Ht. unfold entry. rewrite HL. unfold dexp, dexpect. rewrite dkey_div, dkey_mod by lia.
    unfold dsel. rewrite Hv. cbn [andb].
    destruct ((is_bound (life u) || live && (life u =? 1)) && (dd_node (ddesc_of ds u) =? node)); [|reflexivity].
    unfold group_of. destruct (find (fun g => fst g =? t) (dd_groups (ddesc_of ds u))) as [g|] eqn:Ef; [|reflexivity].
    cbn [option_map]. f_equal. apply find_some in Ef. destruct Ef as [_ Eg]. apply Z.eqb_eq in Eg. subst t. apply strip_dalloc.
  Qed.

  Lemma uid_valid u : In u (zrange 1 np) -> dvalid ds u = true.
  Proof.
    intros H. unfold zrange in H. apply range_list_In in H. unfold dvalid. fold ds np.
    rewrite andb_true_iff, !Z.leb_le. unfold np in *. lia.
  Qed.

  Lemma eq_numa_refl' l : eq_numa l l = true.
  Proof. induction l as [|x t IH]; [reflexivity|]. cbn. unfold eq_pair. rewrite !Z.eqb_refl. exact IH. Qed.

  Lemma aset_ok :
    first_nz (map (fun ka => aset_clause (dexpect ds life live node (fst (fst ka)) (snd (fst ka))) (snd ka))
                  (combine (flat_map (fun u => map (fun t => (u, t)) types12) (zrange 1 np))
                           (flat_map (fun u => map (entry u) types12) (zrange 1 np)))) = 0.
  Proof.
    rewrite combine_pairs. apply first_nz_zero. intros x Hx. apply in_map_iff in Hx.
    destruct Hx as ([[u t] e] & <- & Hin). cbn [fst snd]. apply in_flat_map in Hin. destruct Hin as (u' & Hu' & Hin).
    apply in_map_iff in Hin. destruct Hin as (t' & He & Ht'). injection He as <- <- <-.
    rewrite (entry_spec u' t' (uid_valid u' Hu')).
    - destruct (dexpect ds life live node u' t'); cbn; [rewrite eq_numa_refl'|]; reflexivity.
    - cbn in Ht'. destruct Ht' as [<-|[<-|[]]]; auto.
  Qed.

  (* ---------- used amounts ---------- *)
  Let ps := node_pods st node.

  Lemma find_key k : find (uid_is k) ps = dexp ds (dsel ds life live) node k.
  Proof. unfold ps, node_pods. rewrite <- find_pod_node_pods. apply HL. Qed.

  Lemma keys_bounds p : In p ps -> 10 <= pa_uid p < 10 + Z.of_nat (10 * np).
  Proof.
    intros Hp. assert (Hf : find (uid_is (pa_uid p)) ps <> None).
    { intros Hn. apply find_uid_None in Hn. apply Hn, in_map, Hp. }
    rewrite find_key in Hf. unfold dexp in Hf.
    destruct (dsel ds life live (pa_uid p / 10) && (dd_node (ddesc_of ds (pa_uid p / 10)) =? node)) eqn:E; [|congruence].
    apply andb_true_iff in E. destruct E as [E _]. unfold dsel in E. apply andb_true_iff in E. destruct E as [Hv _].
    destruct (find (fun g => fst g =? pa_uid p mod 10) (dd_groups (ddesc_of ds (pa_uid p / 10)))) as [g|] eqn:Eg; [|congruence].
    apply find_some in Eg. destruct Eg as [Hg Et]. apply Z.eqb_eq in Et.
    destruct (group_type12 _ g Hv Hg) as [H1|H1]; rewrite H1 in Et;
      unfold dvalid in Hv; rewrite andb_true_iff, !Z.leb_le in Hv; fold np in Hv;
      pose proof (Z.div_mod (pa_uid p) 10 ltac:(lia)); lia.
  Qed.

  Definition contrib (t m : Z) (ut : Z * Z) (o : option (list (Z * (Z * Z)))) : Z * Z :=
    match o with Some l => if snd ut =? t then numa_amt m l else (0, 0) | None => (0, 0) end.

  Lemma used_from_alt aset keys t m :
    fold_right (fun ut acc => match snd ut with
                              | Some l => if snd (fst ut) =? t then pair_add (numa_amt m l) acc else acc
                              | None => acc end) (0, 0) (combine keys aset)
    = fold_right (fun ut acc => pair_add (contrib t m (fst ut) (snd ut)) acc) (0, 0) (combine keys aset).
  Proof.
    induction (combine keys aset) as [|x l IH]; [reflexivity|]. cbn [fold_right]. rewrite IH. unfold contrib.
    destruct (snd x); [destruct (snd (fst x) =? t)|]; try reflexivity; rewrite pair_add_0_l; reflexivity.
  Qed.

  Lemma numa_amt_slots t t' m es :
    (t = 1 \/ t = 2) -> (t' = 1 \/ t' = 2) -> 0 <= m < 1000 -> (forall e, In e es -> 0 <= fst e < 1000) ->
    numa_amt (dslot t m) (map (fun e => (dslot t' (fst e), snd e)) es) = if t' =? t then numa_amt m es else (0, 0).
  Proof.
    intros Ht Ht' Hm Hes. induction es as [|e r IH]; [destruct (t' =? t); reflexivity|].
    cbn [map numa_amt fold_right fst snd]. fold (numa_amt (dslot t m) (map (fun e0 => (dslot t' (fst e0), snd e0)) r)).
    fold (numa_amt m r). rewrite IH by (intros x Hx; apply Hes; right; exact Hx).
    pose proof (Hes e (or_introl eq_refl)) as He. unfold dslot.
    destruct (t' =? t) eqn:E.
    - apply Z.eqb_eq in E. subst t'. destruct (fst e =? m) eqn:Em.
      + apply Z.eqb_eq in Em. replace (t * 1000 + fst e =? t * 1000 + m) with true by (symmetry; apply Z.eqb_eq; lia). reflexivity.
      + apply Z.eqb_neq in Em. replace (t * 1000 + fst e =? t * 1000 + m) with false by (symmetry; apply Z.eqb_neq; lia). reflexivity.
    - apply Z.eqb_neq in E. replace (t' * 1000 + fst e =? t * 1000 + m) with false by (symmetry; apply Z.eqb_neq; lia). reflexivity.
  Qed.

  Lemma pick_contrib u t' t m :
    dvalid ds u = true -> (t' = 1 \/ t' = 2) -> (t = 1 \/ t = 2) -> 0 <= m < 1000 ->
    res_spec (pick ps (dkey u t')) (dslot t m) = contrib t m (u, t') (entry u t').
  Proof.
    intros Hv Ht' Ht Hm. unfold pick, entry. rewrite find_key, HL. unfold contrib. cbn [snd].
    destruct (dexp ds (dsel ds life live) node (dkey u t')) as [p|] eqn:Ed; cbn [option_map]; [|reflexivity].
    unfold dexp in Ed. rewrite dkey_div, dkey_mod in Ed by lia.
    destruct (dsel ds life live u && (dd_node (ddesc_of ds u) =? node)); [|discriminate].
    destruct (find (fun g => fst g =? t') (dd_groups (ddesc_of ds u))) as [g|] eqn:Eg; [|discriminate].
    injection Ed as <-. apply find_some in Eg. destruct Eg as [Hg Et]. apply Z.eqb_eq in Et.
    rewrite res_spec_cons. cbn [res_spec fold_right]. rewrite pair_add_0_r.
    subst t'. rewrite strip_dalloc. cbn [dalloc pa_numa].
    rewrite numa_amt_slots; [reflexivity|exact Ht|exact Ht'|exact Hm|].
    intros e He. apply (group_minors u g e Hv Hg He).
  Qed.

  Lemma pick_other u t0 : dvalid ds u = true -> 0 <= t0 < 10 -> t0 <> 1 -> t0 <> 2 -> pick ps (dkey u t0) = [].
  Proof.
    intros Hv Ht0 H1 H2. unfold pick. rewrite find_key. unfold dexp. rewrite dkey_div, dkey_mod by lia.
    destruct (dsel ds life live u && (dd_node (ddesc_of ds u) =? node)); [|reflexivity].
    destruct (find (fun g => fst g =? t0) (dd_groups (ddesc_of ds u))) as [g|] eqn:Eg; [|reflexivity].
    exfalso. apply find_some in Eg. destruct Eg as [Hg Et]. apply Z.eqb_eq in Et.
    destruct (group_type12 u g Hv Hg); lia.
  Qed.

  Lemma block_contrib u t m :
    dvalid ds u = true -> (t = 1 \/ t = 2) -> 0 <= m < 1000 ->
    res_spec (flat_map (pick ps) (range_list (10 * u) 10)) (dslot t m) =
    pair_add (contrib t m (u, 1) (entry u 1)) (pair_add (contrib t m (u, 2) (entry u 2)) (0, 0)).
  Proof.
    intros Hv Ht Hm.
    assert (Hk : forall j, 10 * u + j = dkey u j) by (intros j; unfold dkey; lia).
    change (range_list (10 * u) 10) with
      [10 * u; 10 * u + 1; 10 * u + 1 + 1; 10 * u + 1 + 1 + 1; 10 * u + 1 + 1 + 1 + 1; 10 * u + 1 + 1 + 1 + 1 + 1;
       10 * u + 1 + 1 + 1 + 1 + 1 + 1; 10 * u + 1 + 1 + 1 + 1 + 1 + 1 + 1; 10 * u + 1 + 1 + 1 + 1 + 1 + 1 + 1 + 1;
       10 * u + 1 + 1 + 1 + 1 + 1 + 1 + 1 + 1 + 1].
    replace (10 * u) with (dkey u 0) by (unfold dkey; lia).
    replace (dkey u 0 + 1) with (dkey u 1) by (unfold dkey; lia).
    replace (dkey u 1 + 1) with (dkey u 2) by (unfold dkey; lia).
    replace (dkey u 2 + 1) with (dkey u 3) by (unfold dkey; lia).
    replace (dkey u 3 + 1) with (dkey u 4) by (unfold dkey; lia).
    replace (dkey u 4 + 1) with (dkey u 5) by (unfold dkey; lia).
    replace (dkey u 5 + 1) with (dkey u 6) by (unfold dkey; lia).
    replace (dkey u 6 + 1) with (dkey u 7) by (unfold dkey; lia).
    replace (dkey u 7 + 1) with (dkey u 8) by (unfold dkey; lia).
    replace (dkey u 8 + 1) with (dkey u 9) by (unfold dkey; lia).
    cbn [flat_map].
    rewrite (pick_other u 0), (pick_other u 3), (pick_other u 4), (pick_other u 5), (pick_other u 6),
            (pick_other u 7), (pick_other u 8), (pick_other u 9) by (try exact Hv; lia).
    cbn [app]. rewrite app_nil_r, res_spec_app.
    rewrite (pick_contrib u 1 t m Hv (or_introl eq_refl) Ht Hm), (pick_contrib u 2 t m Hv (or_intror eq_refl) Ht Hm).
    rewrite pair_add_0_r. reflexivity.
  Qed.

  Lemma used_ok t m :
    (t = 1 \/ t = 2) -> 0 <= m < 1000 ->
    ns_res st node (dslot t m) =
    used_from (flat_map (fun u => map (entry u) types12) (zrange 1 np)) np t m.
  Proof.
    intros Ht Hm. destruct (inv_ledger _ _ HI node) as (_ & L2 & _). rewrite L2. fold ps.
    assert (Hnd : NoDup (map pa_uid ps)) by apply (inv_keys _ _ HI).
    rewrite (res_spec_perm _ _ _ (perm_by_uid (10 * np) 10 ps Hnd keys_bounds)).
    rewrite range_blocks. unfold used_from. rewrite used_from_alt, combine_pairs.
    unfold zrange. assert (Hall : forall u, In u (range_list 1 np) -> dvalid ds u = true) by (intros u Hu; apply uid_valid, Hu).
    revert Hall. generalize (range_list 1 np). induction l as [|u r IH]; intros Hall; [reflexivity|].
    cbn [flat_map]. rewrite flat_map_app, res_spec_app.
    rewrite (block_contrib u t m (Hall u (or_introl eq_refl)) Ht Hm).
    rewrite IH by (intros x Hx; apply Hall; right; exact Hx).
    cbn [types12 map app fold_right fst snd]. rewrite !pair_add_assoc, pair_add_0_l. reflexivity.
  Qed.

  (* ---------- virtual functions ---------- *)
  Definition vcontrib (t code : Z) (ka : (Z * Z) * option (list (Z * (Z * Z)))) : Z :=
    match snd ka with
    | Some _ => if (snd (fst ka) =? t) && memZ code (vfs_of (ddesc_of ds (fst (fst ka))) t) then 1 else 0
    | None => 0
    end.

  Lemma vfs_bounds u t x : dvalid ds u = true -> In x (vfs_of (ddesc_of ds u) t) -> 0 <= x < 100000.
  Proof.
    intros Hv Hx. unfold vfs_of in Hx. destruct (find (fun y => fst y =? t) (dd_vfs (ddesc_of ds u))) as [y|] eqn:Ef; [|destruct Hx].
    pose proof (vfgroup_valid ds (dcase_descs c Hok) u t y Hv Ef) as H. unfold vfgroup_ok in H. rewrite !andb_true_iff in H.
    destruct H as [_ H]. rewrite forallb_forall in H. specialize (H x Hx). rewrite andb_true_iff, Z.leb_le, Z.ltb_lt in H. exact H.
  Qed.

  Lemma gvf_mem t t' code codes :
    (t = 1 \/ t = 2) -> (t' = 1 \/ t' = 2) -> 0 <= code < 100000 -> (forall x, In x codes -> 0 <= x < 100000) ->
    memZ (gvf t code) (map (gvf t') codes) = (t' =? t) && memZ code codes.
  Proof.
    intros Ht Ht' Hc Hb. induction codes as [|x r IH]; [rewrite andb_false_r; reflexivity|].
    cbn [map]. rewrite !memZ_cons, IH by (intros y Hy; apply Hb; right; exact Hy).
    pose proof (Hb x (or_introl eq_refl)). unfold gvf.
    destruct (t' =? t) eqn:E; cbn [andb].
    - apply Z.eqb_eq in E. subst t'. f_equal. apply eq_true_iff_eq. rewrite !Z.eqb_eq. lia.
    - apply Z.eqb_neq in E. replace (t * 100000 + code =? t' * 100000 + x) with false by (symmetry; apply Z.eqb_neq; lia). reflexivity.
  Qed.

  Lemma pick_vf u t' t code :
    dvalid ds u = true -> (t' = 1 \/ t' = 2) -> (t = 1 \/ t = 2) -> 0 <= code < 100000 ->
    ref_spec (pick ps (dkey u t')) (gvf t code) = vcontrib t code ((u, t'), entry u t').
  Proof.
    intros Hv Ht' Ht Hc. unfold pick, entry, vcontrib. rewrite find_key, HL. cbn [fst snd].
    destruct (dexp ds (dsel ds life live) node (dkey u t')) as [p|] eqn:Ed; cbn [option_map]; [|reflexivity].
    unfold dexp in Ed. rewrite dkey_div, dkey_mod in Ed by lia.
    destruct (dsel ds life live u && (dd_node (ddesc_of ds u) =? node)); [|discriminate].
    destruct (find (fun g => fst g =? t') (dd_groups (ddesc_of ds u))) as [g|] eqn:Eg; [|discriminate].
    injection Ed as <-. apply find_some in Eg. destruct Eg as [Hg Et]. apply Z.eqb_eq in Et. subst t'.
    unfold ref_spec. cbn [filter dalloc pa_cpus]. unfold gvfs.
    rewrite (gvf_mem t (fst g) code _ Ht Ht' Hc (fun x Hx => vfs_bounds u (fst g) x Hv Hx)).
    destruct (fst g =? t) eqn:E; cbn [andb].
    - apply Z.eqb_eq in E. rewrite E. destruct (memZ code (vfs_of (ddesc_of ds u) t)); reflexivity.
    - reflexivity.
  Qed.

  Lemma block_vf u t code :
    dvalid ds u = true -> (t = 1 \/ t = 2) -> 0 <= code < 100000 ->
    ref_spec (flat_map (pick ps) (range_list (10 * u) 10)) (gvf t code) =
    vcontrib t code ((u, 1), entry u 1) + (vcontrib t code ((u, 2), entry u 2) + 0).
  Proof.
    intros Hv Ht Hc.
    change (range_list (10 * u) 10) with
      [10 * u; 10 * u + 1; 10 * u + 1 + 1; 10 * u + 1 + 1 + 1; 10 * u + 1 + 1 + 1 + 1; 10 * u + 1 + 1 + 1 + 1 + 1;
       10 * u + 1 + 1 + 1 + 1 + 1 + 1; 10 * u + 1 + 1 + 1 + 1 + 1 + 1 + 1; 10 * u + 1 + 1 + 1 + 1 + 1 + 1 + 1 + 1;
       10 * u + 1 + 1 + 1 + 1 + 1 + 1 + 1 + 1 + 1].
    replace (10 * u) with (dkey u 0) by (unfold dkey; lia).
    replace (dkey u 0 + 1) with (dkey u 1) by (unfold dkey; lia).
    replace (dkey u 1 + 1) with (dkey u 2) by (unfold dkey; lia).
    replace (dkey u 2 + 1) with (dkey u 3) by (unfold dkey; lia).
    replace (dkey u 3 + 1) with (dkey u 4) by (unfold dkey; lia).
    replace (dkey u 4 + 1) with (dkey u 5) by (unfold dkey; lia).
    replace (dkey u 5 + 1) with (dkey u 6) by (unfold dkey; lia).
    replace (dkey u 6 + 1) with (dkey u 7) by (unfold dkey; lia).
    replace (dkey u 7 + 1) with (dkey u 8) by (unfold dkey; lia).
    replace (dkey u 8 + 1) with (dkey u 9) by (unfold dkey; lia).
    cbn [flat_map].
    rewrite (pick_other u 0), (pick_other u 3), (pick_other u 4), (pick_other u 5), (pick_other u 6),
            (pick_other u 7), (pick_other u 8), (pick_other u 9) by (try exact Hv; lia).
    cbn [app]. rewrite app_nil_r, ref_spec_app.
    rewrite (pick_vf u 1 t code Hv (or_introl eq_refl) Ht Hc), (pick_vf u 2 t code Hv (or_intror eq_refl) Ht Hc). lia.
  Qed.

  Lemma vf_ok t code :
    (t = 1 \/ t = 2) -> 0 <= code < 100000 ->
    (0 <? ns_ref st node (gvf t code)) =
    vf_from ds (flat_map (fun u => map (entry u) types12) (zrange 1 np)) np t code.
  Proof.
    intros Ht Hc. destruct (inv_ledger _ _ HI node) as (L1 & _). rewrite L1. fold ps.
    assert (Hnd : NoDup (map pa_uid ps)) by apply (inv_keys _ _ HI).
    rewrite (ref_spec_perm _ _ _ (perm_by_uid (10 * np) 10 ps Hnd keys_bounds)).
    rewrite range_blocks. unfold vf_from. rewrite combine_pairs.
    assert (Hsum : ref_spec (flat_map (pick ps) (flat_map (fun u => range_list (10 * u) 10) (range_list 1 np))) (gvf t code) =
                   fold_right (fun ka acc => vcontrib t code ka + acc) 0
                     (flat_map (fun u => map (fun t0 => ((u, t0), entry u t0)) types12) (zrange 1 np))).
    { unfold zrange. assert (Hall : forall u, In u (range_list 1 np) -> dvalid ds u = true) by (intros u Hu; apply uid_valid, Hu).
      revert Hall. generalize (range_list 1 np). induction l as [|u r IH]; intros Hall; [reflexivity|].
      cbn [flat_map]. rewrite flat_map_app, ref_spec_app, (block_vf u t code (Hall u (or_introl eq_refl)) Ht Hc).
      rewrite IH by (intros x Hx; apply Hall; right; exact Hx).
      cbn [types12 map app fold_right]. lia. }
    rewrite Hsum, sum01_pos.
    - apply existsb_ext'. intros ka. unfold vcontrib. destruct (snd ka); [|reflexivity].
      destruct ((snd (fst ka) =? t) && memZ code (vfs_of (ddesc_of ds (fst (fst ka))) t)); reflexivity.
    - intros ka. unfold vcontrib. destruct (snd ka); [|left; reflexivity].
      destruct ((snd (fst ka) =? t) && memZ code (vfs_of (ddesc_of ds (fst (fst ka))) t)); [right|left]; reflexivity.
  Qed.

  Hypothesis Hminors : d_minors c <= 1000.

  Hypothesis Hnvf : 0 <= d_nvf c <= 100.

  Lemma dsnap_good : dsnap_code c life live node (dsnap_node c st node) = 0.
  Proof.
    unfold dsnap_code. fold ds np. cbn [dsnap_node ds_aset ds_devs ds_vfs].
    change (fun uid => map (fun t => option_map (fun p => map (fun e => (fst e - t * 1000, snd e)) (pa_numa p))
                                     (find_pod (ns_pods st) node (dkey uid t))) types12)
      with (fun uid => map (entry uid) types12).
    fold ds. fold np.
    set (vfk := flat_map (fun t => flat_map (fun m => map (fun i => (t, m * 100 + i)) (zrange 0 (Z.to_nat (d_nvf c))))
                                            (zrange 0 (Z.to_nat (d_minors c)))) types12).
    set (vfv := flat_map (fun t => flat_map (fun m => map (fun i => if 0 <? ns_ref st node (gvf t (m * 100 + i)) then 1 else 0)
                                                          (zrange 0 (Z.to_nat (d_nvf c))))
                                            (zrange 0 (Z.to_nat (d_minors c)))) types12).
    assert (Hlenv : length vfv = length vfk).
    { unfold vfv, vfk. apply flat_map_length_eq. intros t _. apply flat_map_length_eq. intros m _. rewrite !map_length. reflexivity. }
    rewrite !flat_map_pairs_length, !flat_map_types_length, Hlenv, !Nat.eqb_refl. cbn [andb negb].
    rewrite aset_ok. cbn [Z.eqb negb].
    set (devs := flat_map (fun t => map (fun m => (t, m)) (zrange 0 (Z.to_nat (d_minors c)))) types12).
    set (vals := flat_map (fun t => map (fun m => let u := ns_res st node (dslot t m) in (u, pair_sub0 (dtotal c t) u))
                                        (zrange 0 (Z.to_nat (d_minors c)))) types12).
    assert (Hcomb : combine devs vals =
              flat_map (fun t => map (fun m => ((t, m), (ns_res st node (dslot t m), pair_sub0 (dtotal c t) (ns_res st node (dslot t m)))))
                                     (zrange 0 (Z.to_nat (d_minors c)))) types12).
    { unfold devs, vals, types12. cbn [flat_map]. rewrite !app_nil_r.
      rewrite combine_app' by (rewrite !map_length; reflexivity).
      rewrite !combine_map_map'. reflexivity. }
    rewrite Hcomb.
    assert (Hin : forall x, In x (flat_map (fun t => map (fun m => ((t, m), (ns_res st node (dslot t m), pair_sub0 (dtotal c t) (ns_res st node (dslot t m)))))
                                     (zrange 0 (Z.to_nat (d_minors c)))) types12) ->
                 (fst (fst x) = 1 \/ fst (fst x) = 2) /\ 0 <= snd (fst x) < 1000
                 /\ snd x = (ns_res st node (dslot (fst (fst x)) (snd (fst x))),
                             pair_sub0 (dtotal c (fst (fst x))) (ns_res st node (dslot (fst (fst x)) (snd (fst x)))))).
    { intros x Hx. apply in_flat_map in Hx. destruct Hx as (t & Ht & Hx). apply in_map_iff in Hx.
      destruct Hx as (m & <- & Hm). cbn [fst snd]. apply range_list_In in Hm.
      split; [cbn in Ht; destruct Ht as [<-|[<-|[]]]; auto|]. split; [pose proof dcase_minors; lia|reflexivity]. }
    replace (forallb _ _) with true.
    2:{ symmetry. apply forallb_forall. intros x Hx. destruct (Hin x Hx) as (Ht & Hm & Hv). rewrite Hv. cbn [fst snd].
        rewrite (used_ok _ _ Ht Hm). unfold eq_pair. rewrite !Z.eqb_refl. reflexivity. }
    cbn [negb].
    replace (forallb _ (flat_map _ types12)) with true.
    2:{ symmetry. apply forallb_forall. intros x Hx. destruct (Hin x Hx) as (_ & _ & Hv). rewrite Hv. cbn [fst snd].
        unfold eq_pair. rewrite !Z.eqb_refl. reflexivity. }
    cbn [negb].
    replace (forallb _ (combine vfk vfv)) with true; [reflexivity|].
    symmetry. apply forallb_forall. intros [[t code] b] Hx. cbn [fst snd].
    unfold vfk, vfv in Hx.
    rewrite combine_flat_map in Hx by (intros t0 _; apply flat_map_length_eq; intros m _; rewrite !map_length; reflexivity).
    apply in_flat_map in Hx. destruct Hx as (t0 & Ht0 & Hx).
    rewrite combine_flat_map in Hx by (intros m _; rewrite !map_length; reflexivity).
    apply in_flat_map in Hx. destruct Hx as (m & Hm & Hx). rewrite combine_map_map' in Hx.
    apply in_map_iff in Hx. destruct Hx as (i & He & Hi). injection He as <- <- <-.
    apply range_list_In in Hm. apply range_list_In in Hi.
    assert (Ht : t0 = 1 \/ t0 = 2) by (cbn in Ht0; destruct Ht0 as [<-|[<-|[]]]; auto).
    rewrite (vf_ok t0 (m * 100 + i) Ht) by (pose proof dcase_minors; lia).
    apply Z.eqb_refl.
  Qed.
End DevSnap.

Section DevRun.
  Variable c : dcase.
  Hypothesis Hok : dcase_ok c = true.
  Hypothesis Hminors : d_minors c <= 1000.
  Let ds := d_descs c.

  Lemma dsnapshot_good st life live :
    Inv no_topo st -> dlisted ds st (dsel ds life live) -> dsnapshot_code c life live (dsnapshot c st) = 0.
  Proof.
    intros HI HL. unfold dsnapshot_code, dsnapshot. rewrite map_length, zrange_length.
    pose proof (dcase_nodes c Hok) as Hn.
    replace (Z.of_nat (Z.to_nat (d_nodes c)) =? d_nodes c) with true by (symmetry; apply Z.eqb_eq; lia). cbn [negb].
    rewrite combine_map_r. apply first_nz_zero. intros x Hx. apply in_map_iff in Hx.
    destruct Hx as ([n s] & <- & Hin). apply in_map_iff in Hin. destruct Hin as (n' & He & _). injection He as <- <-.
    cbn [fst snd]. apply (dsnap_good c Hok st life live n' HI HL Hminors). apply dcase_nvf, Hok.
  Qed.

  Lemma dstep_ok l :
    DLive ds l -> dstep_code c (dl_life l) (dsnapshot c (dl_st l), dsnapshot c (dreplay ds (dl_life l) (d_script c))) = 0.
  Proof.
    intros [HI HL Hlife]. unfold dstep_code. cbn [fst snd].
    rewrite (dsnapshot_good _ _ true HI HL). cbn [Z.eqb negb].
    destruct (dreplay_lists ds (dcase_descs c Hok) (dl_life l) (d_script c)) as [HIr HLr].
    apply (dsnapshot_good _ _ false HIr HLr).
  Qed.

  Lemma drun_ops_ok l ops :
    DLive ds l ->
    first_nz (map (fun lo => dobs_code c (fst lo) (snd lo)) (combine (dlives c l ops) (drun_ops c l ops))) = 0.
  Proof.
    revert l. induction ops as [|op t IH]; intros l HL; [reflexivity|].
    cbn [dlives drun_ops combine map first_nz fst snd].
    pose proof (dlive_step_DLive ds (dcase_descs c Hok) l op HL) as HL'. fold ds.
    unfold dobs_code at 1. cbn [fst snd]. fold ds.
    rewrite (dstep_ok _ HL'). cbn [Z.eqb negb]. rewrite eq_listZ_refl. cbn [Z.eqb]. apply IH, HL'.
  Qed.
  Lemma drun_ops_length l ops : length (drun_ops c l ops) = length ops.
  Proof. revert l. induction ops as [|op t IH]; intros l; [reflexivity|]. cbn [drun_ops length]. f_equal. apply IH. Qed.

  Theorem dev_restart : prop_dev c (drun c) = 0.
  Proof.
    unfold prop_dev, drun. rewrite drun_ops_length, Nat.eqb_refl. cbn [negb].
    apply drun_ops_ok, DLive_init.
  Qed.
End DevRun.
